/-
Reader / allocator operation traces of every surface-decode path (C06, C07).

Modelled code (all in /repo/src):
* `decode/mod.rs`        `decode`, `decode_rect` (+ `inner`), `check_likely_overflow`,
                         `DecodeOptions::default().memory_limit`
* `decode/decoder.rs`    `DecodeContext::{reserve_bytes, alloc, alloc_read}`,
                         `DecoderSet::{decode, decode_rect}` (empty shortcut, specialised fn)
* `decode/read_write.rs` `for_each_pixel_untyped`, `for_each_pixel_rect_untyped`,
                         `for_each_block_untyped`, `for_each_block_rect_untyped`,
                         `for_each_bi_planar`, `for_each_bi_planar_rect`,
                         `UntypedLineBuffer::{new, next_line}`, `read_exact_image`
* `util.rs`              `io_skip_exact`
* per-family files (`uncompressed.rs`, `sub_sampled.rs`, `bi_planar.rs`, `bc.rs`, `astc.rs`):
  only *which* helper a format uses and with which unit sizes (`formatTable`).

A decode path is a pure function to a list of operations `alloc n | skip n | read n`
in program order.  The numbers in the list are the *ideal* (unbounded) values of the
Rust expressions; the interpreter reduces them modulo 2^64 where the Rust code hands
them over in a `u64`/`usize` (release profile), and the theorems show that under the
guarantee of `check_likely_overflow` every value is below 2^63, so nothing wraps and the
overflow-checking profile does not trap.  `Op.panic` stands for a failing
`assert!`/`clamp`/division; the theorems show it is never emitted.
-/
import DdsModel.Layout
import DdsModel.SrcConsts
namespace Dds.Stream
open Dds

/-- `isize::MAX`, the `LIMIT` of `check_likely_overflow` -/
def ISIZE_MAX : Nat := 9223372036854775807
/-- `UntypedLineBuffer::new::TARGET_BUFFER_SIZE` -/
def TARGET_BUFFER_SIZE : Nat := SrcConsts.TARGET_BUFFER_SIZE   -- 65536 at the pinned commit; regenerated from the source
/-- `DecodeOptions::default().memory_limit` (33 MiB) -/
def DEFAULT_MEMORY_LIMIT : Nat := SrcConsts.DEFAULT_MEMORY_LIMIT   -- 33 MiB at the pinned commit; regenerated from the source

inductive Op where
  /-- `DecodeContext::alloc(n)` / the `reserve_bytes + try_reserve_exact` half of `alloc_read` -/
  | alloc (n : Nat)
  /-- `util::io_skip_exact(r, n)` -/
  | skip (n : Nat)
  /-- `r.read_exact(buf)` with `buf.len() = n` / the `io::copy(r.take(n))` half of `alloc_read` -/
  | read (n : Nat)
  /-- a failing `assert!`, `Ord::clamp` with `min > max`, or division by zero -/
  | panic
deriving DecidableEq, Repr, Inhabited

/-- result kinds of `decode` / `decode_rect` -/
inductive Res where
  | ok | ioError | memLimit | rectOutOfBounds | panic
deriving DecidableEq, Repr, Inhabited

/-- colour format of the output image: (channels index, precision index);
channels 0 Grayscale, 1 Alpha, 2 Rgb, 3 Rgba; precision 0 U8, 1 U16, 2 F32 -/
abbrev Colour := Nat × Nat

/-- `ColorFormat::bytes_per_pixel` -/
def colourBytes (c : Colour) : Nat :=
  (match c.1 with | 0 => 1 | 1 => 1 | 2 => 3 | _ => 4) * (match c.2 with | 0 => 1 | 1 => 2 | _ => 4)

/-- which helper of `read_write.rs` a format's decoders call, with the unit sizes they pass -/
inductive Fam where
  /-- `for_each_pixel_untyped` / `for_each_pixel_rect_untyped` with `size_of::<InPixel>() = bpp`;
  `fast = some c`: `add_specialized(c, read_exact_image …)` for full decodes into colour `c` -/
  | pixel (bpp : Nat) (fast : Option Colour)
  /-- `for_each_block_untyped::<bw, bh, bpb, _>` / `for_each_block_rect_untyped::<bw, bh, bpb>` -/
  | block (bw bh bpb : Nat)
  /-- `for_each_bi_planar` / `for_each_bi_planar_rect` with `BiPlaneInfo` -/
  | biPlanar (e1 e2 sx sy : Nat)
deriving DecidableEq, Repr, Inhabited

/-- the `PixelInfo` with the same unit sizes (what `PixelInfo::from(format)` must be, C19) -/
def Fam.px : Fam → PixelInfo
  | .pixel bpp _ => .fixed bpp
  | .block bw bh bpb => .block bpb bw bh
  | .biPlanar e1 e2 sx sy => .biPlanar e1 e2 sx sy

/-- unit sizes are positive `u8`s; a specialised whole-image function is only registered for a
colour whose pixels have the encoded size (it reads straight into the output) -/
def Fam.WF : Fam → Prop
  | .pixel bpp fast => 0 < bpp ∧ bpp < 256 ∧ ∀ c, fast = some c → colourBytes c = bpp
  | .block bw bh bpb => 0 < bw ∧ bw < 16 ∧ 0 < bh ∧ bh < 16 ∧ 0 < bpb ∧ bpb < 256
  | .biPlanar e1 e2 sx sy => 0 < e1 ∧ e1 < 16 ∧ 0 < e2 ∧ e2 < 16 ∧ 0 < sx ∧ sx < 16 ∧ 0 < sy ∧ sy < 16

instance (f : Fam) : Decidable f.WF := by
  cases f with
  | pixel bpp fast =>
    unfold Fam.WF
    cases fast with
    | none => exact decidable_of_iff (0 < bpp ∧ bpp < 256) (by simp)
    | some c => exact decidable_of_iff (0 < bpp ∧ bpp < 256 ∧ colourBytes c = bpp) (by simp)
  | block => unfold Fam.WF; exact inferInstance
  | biPlanar => unfold Fam.WF; exact inferInstance

/-! ### `UntypedLineBuffer` -/

/-- `(TARGET_BUFFER_SIZE / bytes_per_line).clamp(1, height)` for `1 ≤ height`
(`Ord::clamp`: `if self < min { min } else if self > max { max } else { self }`) -/
def linesInBuffer (bpl lines : Nat) : Nat :=
  let x := TARGET_BUFFER_SIZE / bpl
  if x < 1 then 1 else if lines < x then lines else x

/-- `buf_len = lines_in_buffer * bytes_per_line` -/
def lineBufLen (bpl lines : Nat) : Nat := linesInBuffer bpl lines * bpl

/-- `UntypedLineBuffer::new`: one `context.alloc(buf_len)`. `bytes_per_line = 0` divides by zero
and `height = 0` fails `clamp`'s `assert!(min <= max)`. -/
def lineBufNew (bpl lines : Nat) : List Op :=
  if bpl = 0 ∨ lines = 0 then [.panic] else [.alloc (lineBufLen bpl lines)]

/-- all `read_exact` calls of `UntypedLineBuffer::next_line` until `Ok(None)`:
`lines_to_read = (buf.len() / bytes_per_line).min(lines_on_disk)` per refill -/
def refills (bpl lines : Nat) : List Op :=
  let per := lineBufLen bpl lines / bpl
  List.replicate (lines / per) (.read (per * bpl)) ++
    (if lines % per = 0 then [] else [.read (lines % per * bpl)])

/-! ### the seven helpers -/

/-- specialised whole-image functions (`COPY_U8`, `COPY_U16`, `COPY_U32`, `COPY_S8`, BGRA swap):
`read_exact_image(r, out)` reads `out` in one go if contiguous, else row by row; both are
`w*h*bytes_per_pixel(colour)` bytes of consecutive reads (the tie merges consecutive reads). -/
def copyFull (outBpp w h : Nat) : List Op := [.read (w * h * outBpp)]

/-- `for_each_pixel_untyped` -/
def pixelFull (bpp w h : Nat) : List Op :=
  lineBufNew (w * bpp) h ++ refills (w * bpp) h

/-- rows `1..h` of the `for y in 0..image.height()` loop: skip to the next row, read it -/
def rectRowsRest (gap rd : Nat) : Nat → List Op
  | 0 => []
  | k + 1 => .skip gap :: .read rd :: rectRowsRest gap rd k

/-- the `for y in 0..image.height()` loop of `for_each_pixel_rect_untyped` -/
def rectRows (gap rd : Nat) : Nat → List Op
  | 0 => []
  | k + 1 => .read rd :: rectRowsRest gap rd k

/-- `for_each_pixel_rect_untyped` (surface `W×H`, rect `w×h` at `(x,y)` inside it) -/
def pixelRect (bpp W H x y w h : Nat) : List Op :=
  let perRow := W * bpp
  let before := x * bpp
  let after := (W - x - w) * bpp
  (if W * H * bpp ≤ I64MAX then [] else [.panic]) ++
  [.alloc (w * bpp), .skip (perRow * y + before)] ++
  rectRows (before + after) (w * bpp) h ++
  [.skip (after + (H - y - h) * perRow)]

/-- `for_each_block_untyped::inner` -/
def blockFull (bw bh bpb w h : Nat) : List Op :=
  (if w = 0 ∨ h = 0 then [.panic] else []) ++
  lineBufNew (divCeil w bw * bpb) (divCeil h bh) ++ refills (divCeil w bw * bpb) (divCeil h bh)

/-- `for_each_block_rect_untyped::inner` (only `y`, `h` of the rect matter for I/O:
whole block lines are read) -/
def blockRect (bw bh bpb W H y h : Nat) : List Op :=
  let perLine := divCeil W bw
  let before := y / bh
  let toRead := divCeil (h + y) bh - before
  let after := divCeil H bh - before - toRead
  lineBufNew (perLine * bpb) toRead ++
  [.skip (perLine * before * bpb)] ++
  refills (perLine * bpb) toRead ++
  [.skip (perLine * after * bpb)]

/-- `for_each_bi_planar`: line buffer for plane 2, then `alloc_read` of plane 1, then plane 2 -/
def biPlanarFull (e1 e2 sx sy w h : Nat) : List Op :=
  let uvBpl := divCeil w sx * e2
  let uvLines := divCeil h sy
  lineBufNew uvBpl uvLines ++
  [.alloc (w * e1 * h), .read (w * e1 * h)] ++
  refills uvBpl uvLines

/-- `for_each_bi_planar_rect`; `checked_mul` failing gives `MemoryLimitExceeded` -/
def biPlanarRect (e1 e2 sx sy W H y h : Nat) : Except Res (List Op) :=
  let uvBefore := y / sy
  let uvAfter := divCeil H sy - divCeil (y + h) sy
  let uvLines := divCeil H sy - uvBefore - uvAfter
  let uvBpl := divCeil W sx * e2
  let p1 := W * e1
  if p1 * h < U64 then
    .ok ([.alloc (p1 * h)] ++ lineBufNew uvBpl uvLines ++
      [.skip (p1 * y), .read (p1 * h), .skip (p1 * (H - y - h)), .skip (uvBefore * uvBpl)] ++
      refills uvBpl uvLines ++
      [.skip (uvAfter * uvBpl)])
  else .error .memLimit

/-! ### `decode` and `decode_rect` -/

/-- `check_likely_overflow` -/
def checkLikelyOverflow (f : Fam) (w h : Nat) : Bool :=
  match f.px.surfaceBytes w h with
  | some b => decide (b ≤ ISIZE_MAX)
  | none => false

/-- `DecoderSet::decode` for a non-empty image -/
def fullOps (f : Fam) (c : Colour) (w h : Nat) : List Op :=
  match f with
  | .pixel bpp fast => if fast = some c then copyFull (colourBytes c) w h else pixelFull bpp w h
  | .block bw bh bpb => blockFull bw bh bpb w h
  | .biPlanar e1 e2 sx sy => biPlanarFull e1 e2 sx sy w h

/-- `DecoderSet::decode_rect` for a non-empty rect inside the surface -/
def rectOps (f : Fam) (W H x y w h : Nat) : Except Res (List Op) :=
  match f with
  | .pixel bpp _ => .ok (pixelRect bpp W H x y w h)
  | .block bw bh bpb => .ok (blockRect bw bh bpb W H y h)
  | .biPlanar e1 e2 sx sy => biPlanarRect e1 e2 sx sy W H y h

/-- a call of the public API: full decode of a `w×h` surface, or rect decode -/
inductive Call where
  | full (w h : Nat)
  | rect (W H x y w h : Nat)
deriving DecidableEq, Repr, Inhabited

/-- size of the surface the reader is positioned at -/
def Call.surface : Call → Nat × Nat
  | .full w h => (w, h)
  | .rect W H _ _ _ _ => (W, H)

/-- `decode` / `decode_rect`: validation, shortcuts, then the helper's operations.
`.error r` = returned before any operation. (`ImageViewMut` stores every empty size as `0×0`;
`surface_bytes` is 0 for all of them, `contains_rect` is applied to the stored size.) -/
def plan (f : Fam) (c : Colour) : Call → Except Res (List Op)
  | .full w h =>
    if checkLikelyOverflow f w h = false then .error .memLimit
    else if w = 0 ∨ h = 0 then .ok []                       -- "never decode empty images"
    else .ok (fullOps f c w h)
  | .rect W H x y w h =>
    if checkLikelyOverflow f W H = false then .error .memLimit
    else if w = 0 ∨ h = 0 then
      if x ≤ W ∧ y ≤ H then .ok [.skip ((f.px.surfaceBytes W H).getD (U64 - 1))]  -- skip the surface
      else .error .rectOutOfBounds
    else if x + w ≤ W ∧ y + h ≤ H then rectOps f W H x y w h
    else .error .rectOutOfBounds

/-! ### ideal stream, allocator and interpreter -/

/-- The environment of a decode: an ideal byte stream of `len` bytes, optionally with a hard
error at absolute offset `fault` (bytes `< fault` are readable, a `read` at `fault` or a `seek`
to a target beyond it returns `Err`), a `seek` that either accepts targets beyond the end
(`Cursor`, files) or clamps to the end, and an allocator that may refuse a request. -/
structure Env where
  len : Nat
  fault : Option Nat := none
  clampSeek : Bool := false
  allocOk : Nat → Bool := fun _ => true
  /-- the first `read` at or beyond this offset returns `Ok(0)` although the stream goes on (a file
  that is still being written, a pipe): `read_exact` / `alloc_read` must report `UnexpectedEof`;
  `seek` is not affected -/
  eofOnce : Option Nat := none

/-- first offset that cannot be read -/
def Env.lim (e : Env) : Nat :=
  let a := match e.fault with
    | none => e.len
    | some f => if f < e.len then f else e.len
  match e.eofOnce with
  | none => a
  | some z => if z < a then z else a

def mn (a b : Nat) : Nat := if a ≤ b then a else b

/-- what `read_exact` / `io::copy(take(n))` amount to on the ideal stream: (ok?, new position) -/
def readSpec (e : Env) (pos n : Nat) : Bool × Nat :=
  if n = 0 then (true, pos)
  else if pos + n ≤ e.lim then (true, pos + n)
  else (false, if pos < e.lim then e.lim else pos)

/-- `read_exact` as the loop it is, over a reader that answers the i-th `read` call according
to the i-th element of the short-read pattern: `0` = `Err(Interrupted)` (retried), `c+1` = at most
`c+1` bytes; after the pattern is used up requests are served in full. `Ok(0)` before the buffer is
full is `UnexpectedEof`; the hard error is returned as is. -/
def readExact (e : Env) : List Nat → Nat → Nat → Bool × Nat
  | [], pos, n => readSpec e pos n
  | c :: pat, pos, n =>
    if n = 0 then (true, pos)
    else if c = 0 then readExact e pat pos n
    else if e.lim ≤ pos then (false, pos)
    else readExact e pat (pos + mn (mn c n) (e.lim - pos)) (n - mn (mn c n) (e.lim - pos))

/-- does `seek` to `target` return `Err`? -/
def seekFails (e : Env) (target : Nat) : Bool :=
  match e.fault with
  | none => false
  | some f => decide (f < target)

/-- where `seek(SeekFrom::Current(..))` to `target > pos` lands -/
def seekLand (e : Env) (pos target : Nat) : Nat :=
  if e.clampSeek ∧ e.len < target then (if e.len < pos then pos else e.len) else target

/-- `util::io_skip_exact(r, count)`: (ok?, new position) -/
def skipExact (e : Env) (pos count : Nat) : Bool × Nat :=
  let count := count % U64                      -- the `u64` argument
  if count = 0 then (true, pos)                 -- "don't invoke the reader at all"
  else if I64MAX < count then (false, pos)      -- `i64::try_from(count)` fails: UnexpectedEof
  else
    let target := pos + count
    if seekFails e target then (false, pos)     -- `reader.seek(..)?`
    else
      let actual := seekLand e pos target
      if actual = satAdd64 pos count then (true, actual) else (false, actual)

/-- successful reader mutations, for the tie: relative seek distance / bytes delivered -/
inductive Ev where
  | seek (d : Nat)
  | read (k : Nat)
deriving DecidableEq, Repr, Inhabited

structure St where
  /-- reader position -/
  pos : Nat
  /-- `DecodeContext.memory_limit`: the remaining budget -/
  budget : Nat
  /-- sizes handed to the allocator (`try_reserve_exact`), newest first -/
  calls : List Nat := []
  /-- reader mutations, newest first -/
  log : List Ev := []
deriving Repr, Inhabited

def St.moved (st : St) (p : Nat) (ev : Nat → Ev) : St :=
  { st with pos := p, log := if p = st.pos then st.log else ev (p - st.pos) :: st.log }

/-- executes the operations in order; every one is sequenced with `?`.
`pats` gives the short-read pattern of the 1st, 2nd, … `read`. -/
def interp (e : Env) : List (List Nat) → List Op → St → Res × St
  | _, [], st => (.ok, st)
  | _, .panic :: _, st => (.panic, st)
  | ps, .alloc n :: ops, st =>
    let n := n % U64                                        -- the `usize` argument
    if st.budget < n then (.memLimit, st)                   -- `reserve_bytes`
    else
      let st' := { st with budget := st.budget - n, calls := n :: st.calls }
      if e.allocOk n then interp e ps ops st' else (.memLimit, st')  -- `try_reserve_exact`
  | ps, .skip n :: ops, st =>
    let r := skipExact e st.pos n
    if r.1 then interp e ps ops (st.moved r.2 .seek) else (.ioError, st.moved r.2 .seek)
  | ps, .read n :: ops, st =>
    let r := readExact e (ps.headD []) st.pos n
    if r.1 then interp e ps.tail ops (st.moved r.2 .read) else (.ioError, st.moved r.2 .read)

/-- a whole `decode`/`decode_rect` call on a reader at `pos` with `memory_limit = limit` -/
def run (e : Env) (pats : List (List Nat)) (p : Except Res (List Op)) (pos limit : Nat) : Res × St :=
  match p with
  | .error r => (r, { pos := pos, budget := limit })
  | .ok ops => interp e pats ops { pos := pos, budget := limit }

/-! ### measures of a trace -/

/-- bytes the reader is moved by when nothing fails -/
def span : List Op → Nat
  | [] => 0
  | .skip n :: t => n + span t
  | .read n :: t => n + span t
  | _ :: t => span t

/-- total of all allocation requests -/
def need : List Op → Nat
  | [] => 0
  | .alloc n :: t => n + need t
  | _ :: t => need t

def planNeed : Except Res (List Op) → Nat
  | .ok ops => need ops
  | .error _ => 0

/-- only reader operations -/
def ioOnly : List Op → Prop
  | [] => True
  | .skip _ :: t => ioOnly t
  | .read _ :: t => ioOnly t
  | _ :: _ => False

/-- every allocation precedes the first reader operation; no panic -/
def allocFirst : List Op → Prop
  | [] => True
  | .alloc _ :: t => allocFirst t
  | .skip n :: t => ioOnly (.skip n :: t)
  | .read n :: t => ioOnly (.read n :: t)
  | .panic :: _ => False

/-! ### format table (src/decode/*.rs) -/

def U8c : Nat := 0
def U16c : Nat := 1
def F32c : Nat := 2

/-- `Format` → helper and unit sizes, read off the `DecoderSet` constants -/
def formatTable : List (String × Fam) := [
  ("R8G8B8_UNORM", .pixel 3 (some (2, 0))),
  ("B8G8R8_UNORM", .pixel 3 none),
  ("R8G8B8A8_UNORM", .pixel 4 (some (3, 0))),
  ("R8G8B8A8_SNORM", .pixel 4 (some (3, 0))),
  ("B8G8R8A8_UNORM", .pixel 4 (some (3, 0))),
  ("B8G8R8X8_UNORM", .pixel 4 none),
  ("B5G6R5_UNORM", .pixel 2 none),
  ("B5G5R5A1_UNORM", .pixel 2 none),
  ("B4G4R4A4_UNORM", .pixel 2 none),
  ("A4B4G4R4_UNORM", .pixel 2 none),
  ("R8_SNORM", .pixel 1 (some (0, 0))),
  ("R8_UNORM", .pixel 1 (some (0, 0))),
  ("R8G8_UNORM", .pixel 2 none),
  ("R8G8_SNORM", .pixel 2 none),
  ("A8_UNORM", .pixel 1 (some (1, 0))),
  ("R16_UNORM", .pixel 2 (some (0, 1))),
  ("R16_SNORM", .pixel 2 none),
  ("R16G16_UNORM", .pixel 4 none),
  ("R16G16_SNORM", .pixel 4 none),
  ("R16G16B16A16_UNORM", .pixel 8 (some (3, 1))),
  ("R16G16B16A16_SNORM", .pixel 8 none),
  ("R10G10B10A2_UNORM", .pixel 4 none),
  ("R11G11B10_FLOAT", .pixel 4 none),
  ("R9G9B9E5_SHAREDEXP", .pixel 4 none),
  ("R16_FLOAT", .pixel 2 none),
  ("R16G16_FLOAT", .pixel 4 none),
  ("R16G16B16A16_FLOAT", .pixel 8 none),
  ("R32_FLOAT", .pixel 4 (some (0, 2))),
  ("R32G32_FLOAT", .pixel 8 none),
  ("R32G32B32_FLOAT", .pixel 12 (some (2, 2))),
  ("R32G32B32A32_FLOAT", .pixel 16 (some (3, 2))),
  ("R10G10B10_XR_BIAS_A2_UNORM", .pixel 4 none),
  ("AYUV", .pixel 4 none),
  ("Y410", .pixel 4 none),
  ("Y416", .pixel 8 none),
  ("R1_UNORM", .block 8 1 1),
  ("R8G8_B8G8_UNORM", .block 2 1 4),
  ("G8R8_G8B8_UNORM", .block 2 1 4),
  ("UYVY", .block 2 1 4),
  ("YUY2", .block 2 1 4),
  ("Y210", .block 2 1 8),
  ("Y216", .block 2 1 8),
  ("NV12", .biPlanar 1 2 2 2),
  ("P010", .biPlanar 2 4 2 2),
  ("P016", .biPlanar 2 4 2 2),
  ("BC1_UNORM", .block 4 4 8),
  ("BC2_UNORM", .block 4 4 16),
  ("BC2_UNORM_PREMULTIPLIED_ALPHA", .block 4 4 16),
  ("BC3_UNORM", .block 4 4 16),
  ("BC3_UNORM_PREMULTIPLIED_ALPHA", .block 4 4 16),
  ("BC4_UNORM", .block 4 4 8),
  ("BC4_SNORM", .block 4 4 8),
  ("BC5_UNORM", .block 4 4 16),
  ("BC5_SNORM", .block 4 4 16),
  ("BC6H_UF16", .block 4 4 16),
  ("BC6H_SF16", .block 4 4 16),
  ("BC7_UNORM", .block 4 4 16),
  ("ASTC_4X4_UNORM", .block 4 4 16),
  ("ASTC_5X4_UNORM", .block 5 4 16),
  ("ASTC_5X5_UNORM", .block 5 5 16),
  ("ASTC_6X5_UNORM", .block 6 5 16),
  ("ASTC_6X6_UNORM", .block 6 6 16),
  ("ASTC_8X5_UNORM", .block 8 5 16),
  ("ASTC_8X6_UNORM", .block 8 6 16),
  ("ASTC_8X8_UNORM", .block 8 8 16),
  ("ASTC_10X5_UNORM", .block 10 5 16),
  ("ASTC_10X6_UNORM", .block 10 6 16),
  ("ASTC_10X8_UNORM", .block 10 8 16),
  ("ASTC_10X10_UNORM", .block 10 10 16),
  ("ASTC_12X10_UNORM", .block 12 10 16),
  ("ASTC_12X12_UNORM", .block 12 12 16),
  ("BC3_UNORM_RXGB", .block 4 4 16),
  ("BC3_UNORM_NORMAL", .block 4 4 16)
]

def lookupFormat (name : String) : Option Fam :=
  (formatTable.find? (·.1 = name)).map (·.2)

end Dds.Stream
