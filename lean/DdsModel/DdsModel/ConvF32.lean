/-
Software IEEE-754 binary32 (`f32`), on bit patterns (`Nat < 2^32`).

Two layers:

* specification: `roundF32 : Rat → Nat` — the bit pattern of the binary32 value nearest to a
  rational (round to nearest, ties to even; gradual underflow; overflow to infinity) and
  `toRat : Nat → Rat`, the value of a finite bit pattern;
* implementation-shaped operations `fmul`, `fadd`, `fsub`, `ofNat`, `ofInt`, casts and comparisons,
  which model the Rust `f32` operators used in `src/color/formats.rs`.  Rust evaluates every `f32`
  operator separately in binary32 with round-to-nearest-even (no contraction into FMA, no excess
  precision on x86-64/SSE2), so each operator is "exact result, then one rounding": that is what
  `roundPack` does on the exact dyadic result.

Nothing here uses Lean's `Float`.  Only core is imported.
-/
namespace Dds.CF32

/-- Call-by-value for the kernel: `match` evaluates `a` to a literal before `f` uses it (several
times).  Semantically the identity application (`force_eq`); it only keeps `decide +kernel` from
re-evaluating shared sub-terms. -/
@[inline] def force {α} (a : Nat) (f : Nat → α) : α :=
  match a with
  | 0 => f 0
  | n + 1 => f (n + 1)

theorem force_eq {α} (a : Nat) (f : Nat → α) : force a f = f a := by
  cases a <;> rfl

/-- the same for `Int` -/
@[inline] def forceI {α} (a : Int) (f : Int → α) : α :=
  match a with
  | .ofNat n => force n fun n => f (.ofNat n)
  | .negSucc n => force n fun n => f (.negSucc n)

theorem forceI_eq {α} (a : Int) (f : Int → α) : forceI a f = f a := by
  cases a <;> simp [forceI, force_eq]

def signBit : Nat := 0x80000000
def posInf : Nat := 0x7F800000
def negInf : Nat := 0xFF800000
/-- the NaN produced by x86-64 for invalid operations would be `0xFFC00000`; Rust's `f32::NAN` is
`0x7FC00000`.  NaN payloads/signs are not part of any compared result (the driver prints every NaN
as `nan`), so one canonical NaN is used. -/
def nan : Nat := 0x7FC00000

def expField (b : Nat) : Nat := (b >>> 23) % 256
def fracField (b : Nat) : Nat := b % 0x800000
def isNeg (b : Nat) : Bool := b ≥ signBit
def isNaN (b : Nat) : Bool := expField b == 255 && fracField b != 0
def isInf (b : Nat) : Bool := expField b == 255 && fracField b == 0
def isZero (b : Nat) : Bool := b % signBit == 0
def neg (b : Nat) : Nat := if isNeg b then b - signBit else b + signBit

/-- magnitude of a finite pattern as `m * 2^e` -/
def mant (b : Nat) : Nat := if expField b == 0 then fracField b else fracField b + 0x800000
def expo (b : Nat) : Int := if expField b == 0 then -149 else (expField b : Int) - 150

/-- `2^e` as a rational -/
def pow2 (e : Int) : Rat := if e ≥ 0 then ((2 ^ e.toNat : Nat) : Rat) else 1 / ((2 ^ (-e).toNat : Nat) : Rat)

/-- value of a finite bit pattern (infinities and NaN have no value; 0 is returned for them) -/
def toRat (b : Nat) : Rat :=
  if expField b == 255 then 0 else
  let v : Rat := (mant b : Rat) * pow2 (expo b)
  if isNeg b then -v else v

/-- Round the exact non-negative dyadic `m * 2^e` to binary32 (round to nearest, ties to even) and
attach the sign.  Subnormals and overflow to infinity are handled; `m = 0` gives a signed zero. -/
def roundPack (sign : Bool) (m : Nat) (e : Int) : Nat :=
  force m fun m => forceI e fun e =>
  let s := if sign then signBit else 0
  if m == 0 then s else
  forceI ((Nat.log2 m : Int) + e) fun E =>        -- value in [2^E, 2^(E+1))
  forceI (if E ≥ -126 then E - 23 else -149) fun q => -- exponent of the unit in the last place
  forceI (q - e) fun sh =>
  force (if sh ≤ 0 then m <<< (-sh).toNat
    else
      force sh.toNat fun k =>
      force (m >>> k) fun hi =>
      force (m % (2 ^ k)) fun rem =>
      force (2 ^ (k - 1)) fun half =>
      if rem > half ∨ (rem == half ∧ hi % 2 == 1) then hi + 1 else hi) fun mant' =>
  -- `mant'` contains the hidden bit for normal numbers, so adding it to (E+126)<<23 yields the
  -- biased exponent E+127 and lets a rounding carry propagate into the exponent
  force (if E ≥ -126 then ((E + 126).toNat <<< 23) + mant' else mant') fun bits =>
  if bits ≥ posInf then s + posInf else s + bits

/-- nearest binary32 to a rational: the specification of "rounded to `f32`" -/
def roundF32 (q : Rat) : Nat :=
  forceI q.num fun qn => force q.den fun d =>
  if qn == 0 then 0 else
  force qn.natAbs fun n =>
  force ((Nat.log2 d + 34) - Nat.log2 n) fun k =>   -- quotient below has at least 33 bits
  force (n <<< k) fun num =>
  let quo := num / d
  let sticky := if num % d == 0 then 0 else 1
  roundPack (qn < 0) (2 * quo + sticky) (-(k : Int) - 1)

/-- `a * b` -/
def fmul (a b : Nat) : Nat :=
  force a fun a => force b fun b =>
  if isNaN a || isNaN b then nan else
  let sign := isNeg a != isNeg b
  if isInf a || isInf b then
    if isZero a || isZero b then nan else (if sign then negInf else posInf)
  else roundPack sign (mant a * mant b) (expo a + expo b)

/-- `a + b` -/
def fadd (a b : Nat) : Nat :=
  force a fun a => force b fun b =>
  if isNaN a || isNaN b then nan else
  if isInf a then (if isInf b && isNeg a != isNeg b then nan else a) else
  if isInf b then b else
  forceI (min (expo a) (expo b)) fun e =>
  let A : Int := (mant a <<< (expo a - e).toNat : Nat)
  let B : Int := (mant b <<< (expo b - e).toNat : Nat)
  forceI ((if isNeg a then -A else A) + (if isNeg b then -B else B)) fun S =>
  if S == 0 then (if isNeg a && isNeg b then signBit else 0)
  else roundPack (S < 0) S.natAbs e

/-- `a - b` -/
def fsub (a b : Nat) : Nat := force b fun b => fadd a (neg b)

/-- `a / b`: the exact quotient (64 extra bits and a sticky bit) rounded once — IEEE-754 division
is correctly rounded -/
def fdiv (a b : Nat) : Nat :=
  force a fun a => force b fun b =>
  if isNaN a || isNaN b then nan else
  let sign := isNeg a != isNeg b
  if isInf a then (if isInf b then nan else (if sign then negInf else posInf)) else
  if isInf b then (if sign then signBit else 0) else
  if isZero b then (if isZero a then nan else (if sign then negInf else posInf)) else
  force (mant a <<< 64) fun num =>
  let quo := num / mant b
  let sticky := if num % mant b == 0 then 0 else 1
  roundPack sign (2 * quo + sticky) (expo a - expo b - 65)

/-- `n as f32` for an unsigned integer -/
def ofNat (n : Nat) : Nat := roundPack false n 0
/-- `i as f32` for a signed integer -/
def ofInt (i : Int) : Nat := roundPack (i < 0) i.natAbs 0
/-- `util::two_powi(e)` for `-126 ≤ e ≤ 127`: the bit pattern `(e + 127) << 23` -/
def twoPowi (e : Int) : Nat := (e + 127).toNat <<< 23

/-- total order key for non-NaN values (`-0 = +0`) -/
def key (b : Nat) : Int := if isNeg b then -((b - signBit : Nat) : Int) else (b : Int)
/-- `a < b` (false when either is NaN) -/
def flt (a b : Nat) : Bool := !isNaN a && !isNaN b && key a < key b

/-- `f32::min`: the other operand when one is NaN -/
def fmin (a b : Nat) : Nat :=
  if isNaN a then b else if isNaN b then a else if flt b a then b else a
/-- `f32::clamp(lo, hi)`: NaN stays NaN, `-0.0.clamp(0.0, _)` stays `-0.0` -/
def fclamp (x lo hi : Nat) : Nat :=
  force x fun x =>
  force (if flt x lo then lo else x) fun x =>
  if flt hi x then hi else x

/-- `x as uN` (saturating float→int cast; NaN → 0), `max = 2^N - 1` -/
def toNatSat (x : Nat) (max : Nat) : Nat :=
  force x fun x =>
  if isNaN x then 0 else
  if isNeg x then 0 else
  if isInf x then max else
  let e := expo x
  let v := if e ≥ 0 then mant x <<< e.toNat else mant x >>> (-e).toNat
  if v > max then max else v

def one : Nat := 0x3F800000
def half : Nat := 0x3F000000

end Dds.CF32
