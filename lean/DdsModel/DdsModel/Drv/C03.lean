import DdsModel.Bc
import DdsModel.Drv.Util
namespace Dds.Drv.C03
open Dds Dds.Bc

def c03Fmt (s : String) : Option (Fmt × Nat) :=
  match s with
  | "bc1" => some (.bc1, 8)
  | "bc2" => some (.bc2, 16)
  | "bc2rgb" => some (.bc2rgb, 16)
  | "bc2p" => some (.bc2p, 16)
  | "bc3" => some (.bc3, 16)
  | "bc3rgb" => some (.bc3rgb, 16)
  | "bc3p" => some (.bc3p, 16)
  | "rxgb" => some (.rxgb, 16)
  | "bc3n" => some (.bc3n, 16)
  | "bc4u" => some (.bc4u, 8)
  | "bc4s" => some (.bc4s, 8)
  | "bc5u" => some (.bc5u, 16)
  | "bc5s" => some (.bc5s, 16)
  | _ => none

def c03Prec (s : String) : Option Prec :=
  match s with
  | "8" => some .u8
  | "16" => some .u16
  | "32" => some .f32
  | _ => none

def hexVal (c : Char) : Option Nat :=
  if '0' ≤ c ∧ c ≤ '9' then some (c.toNat - 48)
  else if 'a' ≤ c ∧ c ≤ 'f' then some (c.toNat - 87)
  else none

def hexBytes : List Char → Option (List Nat)
  | [] => some []
  | a :: b :: rest => do
    let x ← hexVal a
    let y ← hexVal b
    let r ← hexBytes rest
    some ((x * 16 + y) :: r)
  | _ => none

/-- same mixing function as `hash_block` in harness/src/c03.rs -/
def hashVals (vals : List Nat) : UInt32 :=
  vals.foldl (fun h v =>
    let h := (h ^^^ v.toUInt32) * 16777619
    h ^^^ (h >>> 15)) 0x811C9DC5

def hex8 (h : UInt32) : String :=
  let d := Nat.toDigits 16 h.toNat
  String.ofList (List.replicate (8 - d.length) '0' ++ d)

/-- table lookup with fall-back to the function itself -/
def memoGet (f : Nat → Nat) (t : Thunk (Array Nat)) (v : Nat) : Nat :=
  match t.get[v]? with
  | some x => x
  | none => f v

def memoTbl (n : Nat) (f : Nat → Nat) : Thunk (Array Nat) := Thunk.mk fun _ => (Array.range n).map f

def tblN8F32 : Thunk (Array Nat) := memoTbl 256 n8f32
def tblS8F32 : Thunk (Array Nat) := memoTbl 256 s8uf32
def tblU6 : Thunk (Array Nat) := memoTbl 1786 (bc4uOps .f32).interp6
def tblU4 : Thunk (Array Nat) := memoTbl 1276 (bc4uOps .f32).interp4
def tblS6 : Thunk (Array Nat) := memoTbl 1779 (bc4sOps .f32).interp6
def tblS4 : Thunk (Array Nat) := memoTbl 1271 (bc4sOps .f32).interp4

/-- `stdConv` with the f32 conversions memoised (equal to `stdConv`: `C03.driver_fast_path_eq`) -/
def fastConv : Conv where
  widen := fun pr v => match pr with
    | .f32 => memoGet n8f32 tblN8F32 v
    | pr => widen pr v
  uOps := fun pr => match pr with
    | .f32 => { bc4uOps .f32 with
                fromByte := memoGet n8f32 tblN8F32
                interp6 := memoGet (bc4uOps .f32).interp6 tblU6
                interp4 := memoGet (bc4uOps .f32).interp4 tblU4 }
    | pr => bc4uOps pr
  sOps := fun pr => match pr with
    | .f32 => { bc4sOps .f32 with
                fromByte := memoGet s8uf32 tblS8F32
                interp6 := memoGet (bc4sOps .f32).interp6 tblS6
                interp4 := memoGet (bc4sOps .f32).interp4 tblS4 }
    | pr => bc4sOps pr

def runC03 (line : String) : String :=
  match toks line with
  | ["B", f, p, wb, hex] =>
    match c03Fmt f, c03Prec p, nat? wb, hexBytes hex.toList with
    | some (fmt, bpb), some pr, some wb, some bytes =>
      let n := bytes.length / bpb
      if wb = 0 ∨ bytes.length = 0 ∨ bytes.length % bpb ≠ 0 ∨ n % wb ≠ 0 then "bad-case" else
      let arr := bytes.toArray
      let hs := (List.range n).map fun b =>
        let blk : Nat → Nat := fun i => arr.getD (b * bpb + i) 0
        hex8 (hashVals (decodeBlockWith fastConv fmt pr blk).flatten)
      "ok " ++ String.join hs
    | _, _, _, _ => "bad-case"
  | _ => "bad-case"

end Dds.Drv.C03

namespace Dds.Drv
def runC03 : String → String := C03.runC03
end Dds.Drv
