import DdsModel.Encoder
import DdsModel.EncLen
import DdsModel.Drv.C02
import DdsModel.Drv.C11
namespace Dds.Drv
open Dds

/-- `get_maximum_mipmap_count`: bit length of the largest dimension (at least 1) -/
def maxMipCount (n : Nat) : Nat := if n = 0 then 1 else Nat.log2 n + 1

/-- write whatever surface the encoder reports as next until it is done or a call fails -/
def writeAll (e : Enc) (genAfterFirst : Bool) : Nat → List Nat → Enc × String × List Nat
  | 0, acc => (e, "ok", acc.reverse)
  | fuel + 1, acc =>
    match e.iter.currentP with
    | none => (e, "panic", acc.reverse)
    | some none => (e, "ok", acc.reverse)
    | some (some s) =>
      let (e1, r) := e.write s.w s.h false
      -- mip mode `m`: generation is switched on after the first call
      let e' := if genAfterFirst then { e1 with generate := true } else e1
      match r with
      | .ok => writeAll e' genAfterFirst fuel (e'.written :: acc)
      | r => (e', s!"err {encResName r}", (e'.written :: acc).reverse)

/-- the model of the writer loop of the family of `px`; the sum of the write sizes -/
def singleLen (px : PixelInfo) (w h pitchExtra mw mh : Nat) : String :=
  if w % mw ≠ 0 ∨ h % mh ≠ 0 then "InvalidSize" else
  match px with
  | .fixed bpp =>
    toString (if pitchExtra = 0 then (chunksContig (w * h) 512 bpp).sum else (chunksRows w h 512 bpp).sum)
  | .block bytes bw bh =>
    if bh = 1 then toString (chunksSubsample w h (512 / bw * bw) bw bytes).sum
    else toString (writesBlock w h bw bh bytes).sum
  | .biPlanar p1 p2 _ _ => toString (writesBiPlanar w h p1 p2).sum

/-- `X <format> <px> <mulW> <mulH> <kind> <w> <h> <mipmode> <color> <pitchExtra> <quality> <dither> <parallel>` -/
def runC10 (line : String) : String :=
  match toks line with
  | ["X", _fmt, px, mw, mh, kind, w, h, mipmode, _color, pitchExtra, _q, _d, _p] =>
    match parsePx px, nat? mw, nat? mh, nat? w, nat? h, nat? pitchExtra with
    | some px, some mw, some mh, some w, some h, some pitchExtra =>
      let kindc := kind.toList
      let arg : Option Nat := (String.ofList kindc.tail).toNat?
      let depth : Option Nat := if kindc.head? = some 'v' then arg else none
      let hk : Option HeaderKind :=
        match kindc.head? with
        | some 't' => some (.dx10 false .tex2D 1)
        | some 'c' => some (.dx10 true .tex2D 1)
        | some 'v' => some (.dx10 false .tex3D 1)
        | some 'a' => arg.map fun n => .dx10 false .tex2D n
        | _ => none
      match hk with
      | none => "bad-case"
      | some hk =>
        let biggest := max (max w h) (depth.getD 1)
        let mips := if mipmode == "n" then 1 else maxMipCount biggest
        let hd : LayoutHeader := { width := w, height := h, depth, mipmapCount := mips, kind := hk }
        match layoutOf hd px with
        | none => "panic"
        | some (.error e) => s!"err Layout{errName e}"
        | some (.ok L) =>
          let e0 := { Enc.new L mw mh with generate := mipmode == "g" }
          let (e, res, lens) := writeAll e0 (mipmode == "m") 6000 []
          let main : Nat × Nat := match L with
            | .texture t => (t.w, t.h)
            | .volume v => (v.w, v.h)
            | .textureArray a => (a.w, a.h)
          s!"{res} calls={lens.length} lens={",".intercalate (lens.map toString)} total={e.written} single={singleLen px main.1 main.2 pitchExtra mw mh}"
    | _, _, _, _, _, _ => "bad-case"
  | _ => "bad-case"

end Dds.Drv
