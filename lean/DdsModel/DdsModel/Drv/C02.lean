import DdsModel.Layout
import DdsModel.Drv.Util
namespace Dds.Drv
open Dds

def parsePx (s : String) : Option PixelInfo :=
  match splitColon s with
  | ["F", a] => do some (.fixed (← nat? a))
  | ["B", a, b, c] => do some (.block (← nat? a) (← nat? b) (← nat? c))
  | ["P", a, b, c, d] => do some (.biPlanar (← nat? a) (← nat? b) (← nat? c) (← nat? d))
  | _ => none

def fmtPx : PixelInfo → String
  | .fixed a => s!"F:{a}"
  | .block a b c => s!"B:{a}:{b}:{c}"
  | .biPlanar a b c d => s!"P:{a}:{b}:{c}:{d}"

def parseKind (s : String) : Option HeaderKind :=
  match splitColon s with
  | ["x", c, d, a] => do
    let dim ← match d with
      | "1" => some ResDim.tex1D | "2" => some ResDim.tex2D | "3" => some ResDim.tex3D | _ => none
    some (.dx10 (c == "1") dim (← nat? a))
  | ["n", c] => do some (.dx9 (← nat? c))
  | _ => none

def errName : LayoutErr → String
  | .tooManyMipMaps => "TooManyMipMaps"
  | .missingDepth => "MissingDepth"
  | .zeroDimension => "ZeroDimension"
  | .arraySizeTooBig => "ArraySizeTooBig"
  | .dataLayoutTooBig => "DataLayoutTooBig"
  | .invalidCubeMapFaces => "InvalidCubeMapFaces"

def fmtSurf (s : Surface) : String := s!"{s.w},{s.h},{s.offset},{s.len}"

def parseHeaderLine (t : List String) : Option (LayoutHeader × PixelInfo × List String) :=
  match t with
  | k :: w :: h :: d :: m :: px :: rest => do
    let kind ← parseKind k
    let depth ← if d == "-" then some none else (nat? d).map some
    some ({ width := ← nat? w, height := ← nat? h, depth, mipmapCount := ← nat? m, kind },
          ← parsePx px, rest)
  | _ => none

def queryTexture (t : Texture) (l : Nat) : String :=
  if l > 255 then "-" else
  match t.getP l, t.dataOffsetP, t.dataEndP with
  | some (some sf), some o, some e => s!"{fmtSurf sf}@{o}:{e}"
  | some none, _, _ => "-"
  | _, _, _ => "panic"

/-- the first `n` depth slices (equals `(iterDepthSlices v).take n`, see `Theorems.C02`) -/
def depthSlicesTake (v : VolumeDesc) (n : Nat) : List Surface :=
  (List.range (min v.d n)).map fun k => ⟨v.w, v.h, wAdd v.offset (wMul k v.sliceLen), v.sliceLen⟩

def flattenTake (L : DataLayout) (n : Nat) : Option (List Surface) :=
  match L with
  | .texture t => t.iterMipsP.map (·.take n)
  | .textureArray a =>
    ((sequenceOpt (((List.range (min a.arrayLen n)).map fun i =>
        ({ a.first with offsetIndex := i } : Texture)).map Texture.iterMipsP)).map
      List.flatten).map (·.take n)
  | .volume v => v.iterMipsP.map fun l => ((l.map (depthSlicesTake · n)).flatten).take n

def runC02 (line : String) : String :=
  match toks line with
  | "L" :: rest =>
    match parseHeaderLine rest with
    | none => "bad-case"
    | some (hd, px, rest) =>
      match rest with
      | [] => "bad-case"
      | nIter :: qs =>
        match nat? nIter, layoutOf hd px with
        | none, _ => "bad-case"
        | _, none => "panic"
        | _, some (.error e) => s!"err {errName e}"
        | some nIter, some (.ok L) =>
          let (tag, kindc, n, mw, mh) : String × String × Nat × Nat × Nat := match L with
            | .texture t => ("T", "T", 1, t.w, t.h)
            | .volume v => ("V", "T", 1, v.w, v.h)
            | .textureArray a => ("A", (match a.kind with
                | .textures => "T" | .cubeMaps => "C" | .partialCubeMap f => s!"P{f}"),
                a.arrayLen, a.w, a.h)
          let len := match L.dataLenP with | some l => toString l | none => "panic"
          let head := s!"ok {tag} k={kindc} n={n} mips={L.mips} px={fmtPx L.px} main={mw}x{mh} len={len} Q"
          let qres := qs.map fun q =>
            match (q.splitOn ".").map nat? with
            | [some i, some l, some k] =>
              match L with
              | .texture t => if i ≠ 0 then "-" else queryTexture t l
              | .textureArray a =>
                match a.get i with
                | none => "-"
                | some t => queryTexture t l
              | .volume v =>
                if i ≠ 0 ∨ l > 255 then "-" else
                match v.getP l with
                | none => "panic"
                | some none => "-"
                | some (some vd) =>
                  let hd := s!"{vd.w},{vd.h},{vd.d},{vd.offset},{vd.dataLen}"
                  match vd.getDepthSlice k with
                  | some sf => s!"{hd}/{fmtSurf sf}"
                  | none => s!"{hd}/-"
            | _ => "bad-query"
          let it := match flattenTake L nIter with
            | none => ["panic"]
            | some l => l.map fmtSurf
          joinSp ([head] ++ qres ++ ["I"] ++ it)
  | _ => "bad-case"

end Dds.Drv
