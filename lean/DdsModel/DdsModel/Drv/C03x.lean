import DdsModel.Drv.Util
namespace Dds.Drv

def runC03x (_line : String) : String := "not-modelled"

end Dds.Drv
