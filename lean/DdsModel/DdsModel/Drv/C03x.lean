import DdsModel.Drv.Util
import DdsModel.BcTables
import DdsModel.Bc7
import DdsModel.Bc7Spec
import DdsModel.Bc6
import DdsModel.Bc6Spec
/-!
Driver section of C03x: runs the implementation-shaped models `Bc7.decodeBlock` / `Bc6.decodeBlock`
(+ the output-precision conversions) on the blocks of a case line and prints one FNV-1a-32 hash per block
over U8 ++ U16(le) ++ F32(le) of the 16 pixels; `tbl` lines print the model's copy of the source literals.
-/
namespace Dds.Drv.C03x
open Dds.BcTables

def hexVal (c : UInt8) : Option Nat :=
  if 48 ≤ c ∧ c ≤ 57 then some (c.toNat - 48)
  else if 97 ≤ c ∧ c ≤ 102 then some (c.toNat - 87)
  else none

/-- blocks of a hex string as little-endian 128-bit numbers -/
def parseBlocks (hex : String) : Option (List Nat) := do
  let bs := hex.toUTF8
  if bs.size % 32 ≠ 0 ∨ bs.size = 0 then none
  let n := bs.size / 32
  let mut out : Array Nat := Array.mkEmpty n
  for k in [0:n] do
    let mut v : Nat := 0
    -- byte i of the block is hex digits 2i, 2i+1; little endian: build from the last byte down
    for i' in [0:16] do
      let i := 15 - i'
      let hi ← hexVal (bs.get! (k * 32 + 2 * i))
      let lo ← hexVal (bs.get! (k * 32 + 2 * i + 1))
      v := v * 256 + (hi * 16 + lo)
    out := out.push v
  return out.toList

def fnvByte (h : UInt32) (b : Nat) : UInt32 := (h ^^^ (UInt32.ofNat (b % 256))) * 0x01000193

def fnvLE (bytes : Nat) (h : UInt32) (v : Nat) : UInt32 :=
  (List.range bytes).foldl (fun h i => fnvByte h (v >>> (8 * i))) h

def hex8 (h : UInt32) : String :=
  let s := (Nat.toDigits 16 h.toNat)
  String.ofList (List.replicate (8 - s.length) '0' ++ s)

/-- hash of one block given its flat value lists at the three precisions -/
def hashBlock (u8s u16s f32s : List Nat) : String :=
  let h : UInt32 := 0x811c9dc5
  let h := u8s.foldl (fnvLE 1) h
  let h := u16s.foldl (fnvLE 2) h
  let h := f32s.foldl (fnvLE 4) h
  hex8 h

def runBc7 (b : Nat) : String :=
  let px := (Bc7.decodeBlock b).flatten
  hashBlock px (px.map Bc7Spec.unorm8To16) (px.map Bc7Spec.unorm8ToF32)

def runBc6 (signed : Bool) (b : Nat) : String :=
  let hs := (Bc6.decodeBlock signed b).flatten
  if signed then hashBlock (hs.map Bc6.fp16N8) (hs.map Bc6.fp16N16) (hs.map Bc6.fp16F32)
  else hashBlock (hs.map Bc6.uf16N8) (hs.map Bc6.uf16N16) (hs.map Bc6.uf16F32)

def litStr (l : List Nat) : String := String.ofList (l.map fun d => if d = 9 then '-' else Char.ofNat (48 + d))

def commaNats (l : List Nat) : String := ",".intercalate (l.map toString)

def opStr (o : Bc6.Op) : String :=
  let c := if o.chan = 0 then "r" else if o.chan = 1 then "g" else "b"
  let e := if o.ep = 0 then "w" else if o.ep = 1 then "x" else if o.ep = 2 then "y" else "z"
  if o.range then s!"{c}{e}{o.bit}..0" else s!"{c}{e}{o.bit}"

def modeTwoByName (s : String) : Option Bc6.ModeTwo :=
  match s with
  | "M10_555" => some .M10_555 | "M7_666" => some .M7_666 | "M11_544" => some .M11_544
  | "M11_454" => some .M11_454 | "M11_445" => some .M11_445 | "M9_555" => some .M9_555
  | "M8_655" => some .M8_655 | "M8_565" => some .M8_565 | "M8_556" => some .M8_556
  | "M6_666" => some .M6_666 | _ => none

def runTbl (name arg : String) : String :=
  match name with
  | "p2" => match arg.toNat? with
    | some i => if i < 64 then "s " ++ litStr (lit 17 (implP2Lit.getD i 0)) else "bad-case"
    | none => "bad-case"
  | "p3" => match arg.toNat? with
    | some i => if i < 64 then "s " ++ litStr (lit 18 (implP3Lit.getD i 0)) else "bad-case"
    | none => "bad-case"
  | "w7_2" => "w " ++ commaNats implW7_2
  | "w7_3" => "w " ++ commaNats implW7_3
  | "w7_4" => "w " ++ commaNats implW7_4
  | "w6_3" => "w " ++ commaNats implW6_3
  | "w6_4" => "w " ++ commaNats implW6_4
  | "m6" => match modeTwoByName arg with
    | some m => "m " ++ ",".intercalate ((Bc6.modeTwoOps m).map opStr)
    | none => "bad-case"
  | _ => "bad-case"

def runC03x (line : String) : String :=
  match toks line with
  | ["tbl", name, arg] => runTbl name arg
  | [kind, w, hex] =>
    match w.toNat?, parseBlocks hex with
    | some w, some blocks =>
      if w = 0 ∨ blocks.length % w ≠ 0 then "bad-case"
      else if kind = "b7" then "ok " ++ joinSp (blocks.map runBc7)
      else if kind = "b6u" then "ok " ++ joinSp (blocks.map (runBc6 false))
      else if kind = "b6s" then "ok " ++ joinSp (blocks.map (runBc6 true))
      else "bad-case"
    | _, _ => "bad-case"
  | _ => "bad-case"

end Dds.Drv.C03x

namespace Dds.Drv
def runC03x : String → String := C03x.runC03x
end Dds.Drv
