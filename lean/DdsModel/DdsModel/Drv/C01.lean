import DdsModel.Reader
import DdsModel.Drv.C09
import DdsModel.TrapLoopsBlock
namespace Dds.Drv.C01
open Dds Dds.Stream Dds.Reader Dds.Drv.C09

/-! Driver of the C01 correspondence stream; case syntax: harness/src/c01.rs. -/

def CAP : Nat := 16 * 1024 * 1024
def BIGPOS : Nat := 9223372036854775808
def MAX_A : Nat := 64

def hexDigit (c : Char) : Option Nat :=
  if '0' ≤ c ∧ c ≤ '9' then some (c.toNat - '0'.toNat)
  else if 'a' ≤ c ∧ c ≤ 'f' then some (c.toNat - 'a'.toNat + 10)
  else if 'A' ≤ c ∧ c ≤ 'F' then some (c.toNat - 'A'.toNat + 10)
  else none

def hexNat (s : String) : Option Nat :=
  s.toList.foldlM (fun acc c => (hexDigit c).map (acc * 16 + ·)) 0

def hexBytes : List Char → Option (List Nat)
  | [] => some []
  | a :: b :: rest => do
    let x ← hexDigit a
    let y ← hexDigit b
    let r ← hexBytes rest
    some ((x * 16 + y) :: r)
  | _ => none

def wordBytes (w : Nat) : List Nat := [w % 256, w / 256 % 256, w / 65536 % 256, w / 16777216 % 256]

def parsePrefix (s : String) : Option (List Nat) :=
  if s == "-" then some [] else
  (s.splitOn ",").foldlM (fun acc it =>
    match it.toList with
    | 'z' :: n => do
      let n ← (String.ofList n).toNat?
      if n > 4096 then none else some (acc ++ List.replicate (4 * n) 0)
    | 'x' :: h => do some (acc ++ (← hexBytes h))
    | cs =>
      if cs.isEmpty ∨ cs.length > 8 then none else do
      let w ← hexNat it
      some (acc ++ wordBytes w)) []

/-- the pseudo random data bytes of the harness (xorshift64*), first `n` bytes -/
def dataHead (seed : Nat) (n : Nat) : List Nat :=
  let x0 : UInt64 := (UInt64.ofNat seed * 0x9E3779B97F4A7C15) ||| 1
  let rec go (fuel : Nat) (x : UInt64) (acc : List Nat) : List Nat :=
    match fuel with
    | 0 => acc
    | fuel + 1 =>
      let x := x ^^^ (x >>> 12)
      let x := x ^^^ (x <<< 25)
      let x := x ^^^ (x >>> 27)
      let y := (x * 0x2545F4914F6CDD1D).toNat
      go fuel x (acc ++ (List.range 8).map fun i => y / 256 ^ i % 256)
  (go ((n + 7) / 8) x0 []).take n

structure EnvSpec where
  hard : Option Nat := none
  eof : Option Nat := none
  /-- one `Ok(0)` at this offset (transient) -/
  once : Option Nat := none
  clamp : Bool := false

def parseEnv (s : String) : Option EnvSpec :=
  match s.splitOn "," with
  | [] => none
  | m :: flags => do
    let base : EnvSpec ←
      if m == "n" then some {} else
      match m.toList with
      | 'h' :: k => do some { hard := some (← (String.ofList k).toNat?) }
      | 'e' :: k => do some { eof := some (← (String.ofList k).toNat?) }
      | 'i' :: k => do let _ ← (String.ofList k).toNat?; some {}
      | 't' :: k => do some { once := some (← (String.ofList k).toNat?) }
      | _ => none
    flags.foldlM (fun e f =>
      if f == "c" then some { e with clamp := true }
      else match f.toList with
        | 'b' :: n => do let _ ← (String.ofList n).toNat?; some e
        | _ => none) base

inductive POp where
  | layout
  | limit (l : Nat)
  | read (c : Nat) (size : Option (Nat × Nat))
  | rect (c ox oy w h : Nat)
  | skip | skipMips
  | cube (c : Nat) (size : Option (Nat × Nat))
  | all (c : Nat)
  | rewPrev | rewStart

def colour? (s : String) : Option Nat := do
  let c ← s.toNat?
  if c < 12 then some c else none

def u32? (s : String) : Option Nat := do
  let n ← s.toNat?
  if n < U32 then some n else none

def usize? (s : String) : Option Nat := do
  let n ← s.toNat?
  if n < U64 then some n else none

def parseOp (s : String) : Option POp :=
  match s.toList with
  | [] => none
  | k :: restC =>
    let rest := String.ofList restC
    let parts := rest.splitOn ":"
    match k with
    | 'L' => if rest.isEmpty then some .layout else none
    | 'm' => do some (.limit (← usize? rest))
    | 'r' =>
      match parts with
      | [c] =>
        if c.endsWith "p" then do some (.read (← colour? (c.dropEnd 1).toString) none)
        else do some (.read (← colour? c) none)
      | [c, w, h] => do some (.read (← colour? c) (some (← u32? w, ← u32? h)))
      | _ => none
    | 'q' =>
      match parts with
      | [c, ox, oy, w, h] => do some (.rect (← colour? c) (← u32? ox) (← u32? oy) (← u32? w) (← u32? h))
      | _ => none
    | 's' => if rest.isEmpty then some .skip else none
    | 'k' => if rest.isEmpty then some .skipMips else none
    | 'c' =>
      match parts with
      | [c] => do some (.cube (← colour? c) none)
      | [c, w, h] => do some (.cube (← colour? c) (some (← u32? w, ← u32? h)))
      | _ => none
    | 'A' => do some (.all (← colour? rest))
    | 'p' => if rest.isEmpty then some .rewPrev else none
    | 'z' => if rest.isEmpty then some .rewStart else none
    | _ => none

def colourOf (c : Nat) : Colour := (c % 4, c / 4)
def bpp (c : Nat) : Nat := colourBytes (colourOf c)

def opOk : POp → Bool
  | .read c (some (w, h)) => w * h * bpp c ≤ CAP
  | .rect c _ _ w h => w * h * bpp c ≤ CAP
  | .cube c (some (w, h)) => w * h * bpp c ≤ CAP
  | _ => true

def rName : R → String
  | .ok => "ok"
  | .io => "Io"
  | .noMoreSurfaces => "NoMoreSurfaces"
  | .unexpectedSurfaceSize => "UnexpectedSurfaceSize"
  | .rectOutOfBounds => "RectOutOfBounds"
  | .cannotSkipMipmapsInVolume => "CannotSkipMipmapsInVolume"
  | .notACubeMap => "NotACubeMap"
  | .memoryLimitExceeded => "MemoryLimitExceeded"
  | .panic => "panic"

def fmtL (L : DataLayout) : String :=
  let len := match L.dataLenP with | some l => toString l | none => "panic"
  match L with
  | .texture t => s!"T:{t.w}x{t.h}:{t.mips}:{len}"
  | .volume v => s!"V:{v.w}x{v.h}x{v.d}:{v.mips}:{len}"
  | .textureArray a =>
    let k := match a.kind with
      | .textures => "T" | .cubeMaps => "C" | .partialCubeMap f => s!"P{f}"
    s!"A{k}:{a.arrayLen}:{a.w}x{a.h}:{a.mips}:{len}"

def fmtErrName : C19.FmtErr → String
  | .dxgi => "UnsupportedDxgiFormat"
  | .fourCC => "UnsupportedFourCC"
  | .mask => "UnsupportedPixelFormat"

/-- where the reader stands after `Header::read` (successful or not) -/
def hdrEnd (skipMagic : Bool) (bytes : List Nat) (avail : Nat) : Nat :=
  let ws := leWords (bytes.take avail)
  let afterMagic : Option (Nat × List Nat) :=
    if skipMagic then some (0, ws) else
    match ws with
    | [] => none
    | m :: rest => if m = MAGIC_WORD then some (4, rest) else none
  match afterMagic with
  | none => if skipMagic then avail else (if avail < 4 then avail else 4)
  | some (off, body) =>
    if avail < off + 124 then avail else
    let pf : RawPixelFormat := ⟨0, body.getD 19 0, body.getD 20 0, 0, 0, 0, 0, 0⟩
    if pf.saysDx10 then (if avail < off + 144 then avail else off + 144) else off + 124

def autoSize (s : RS) (c : Nat) : Nat × Nat :=
  match s.iter.currentP with
  | some (some cur) => if cur.w * cur.h * bpp c ≤ CAP then (cur.w, cur.h) else (1, 1)
  | _ => (1, 1)

def isDone (s : RS) : Bool :=
  match s.iter.currentP with
  | some none => true
  | _ => false

def mainSize : DataLayout → Nat × Nat
  | .texture t => (t.w, t.h)
  | .volume v => (v.w, v.h)
  | .textureArray a => (a.w, a.h)

def readAll (k : Cfg) (c : Nat) : Nat → RS → Nat → RS × Nat × String
  | 0, s, n => (s, n, "ok")
  | fuel + 1, s, n =>
    if isDone s ∨ s.pos ≥ BIGPOS then (s, n, "ok") else
    let (w, h) := autoSize s c
    let (s', r) := step k s (.read w h (colourOf c))
    if r = .ok then readAll k c fuel s' (n + 1) else (s', n, rName r)

def fmtCur (s : RS) : String :=
  match s.iter.currentP with
  | none => "panic"
  | some none => "done"
  | some (some cur) => s!"{cur.w},{cur.h},{cur.len},{if cur.level ≠ 0 then 1 else 0}"

/-- `kA`: the stream with the transient end of file still pending, `kB`: after it was consumed
(a failed read consumes it; such cases contain full reads only) -/
def runOpsD (kA kB : Cfg) (hdr : Option Header) (small : Bool) :
    List POp → Bool → RS → List String → RS × List String
  | [], _, s, acc => (s, acc.reverse)
  | op :: rest, fired, s, acc =>
    let k := if fired then kB else kA
    match op with
    | .layout =>
      let t := match hdr with | some h => s!"L={fmtLayout h}" | none => "L=-"
      runOpsD kA kB hdr small rest fired s (t :: acc)
    | op =>
      if s.pos ≥ BIGPOS then (s, ("stop-bigpos" :: acc).reverse) else
      let (s', t) : RS × String := match op with
        | .layout => (s, "")
        | .limit l => ({ s with limit := l }, "m")
        | .read c size =>
          let (w, h) := match size with | some x => x | none => autoSize s c
          let (s', r) := step k s (.read w h (colourOf c)); (s', rName r)
        | .all c => let (s', n, last) := readAll k c MAX_A s 0; (s', s!"{n}:{last}")
        | .rect c ox oy w h => let (s', r) := step k s (.rect ox oy w h (colourOf c)); (s', rName r)
        | .skip => let (s', r) := step k s .skipSurface; (s', rName r)
        | .skipMips => let (s', r) := step k s .skipMipmaps; (s', rName r)
        | .cube c size =>
          let (w, h) := match size with
            | some x => x
            | none =>
              let (mw, mh) := mainSize k.layout
              if mw * 4 < U32 ∧ mh * 3 < U32 ∧ mw * 4 * (mh * 3) * bpp c ≤ CAP then (mw * 4, mh * 3) else (1, 1)
          let (s', r) := step k s (.cube w h (colourOf c)); (s', rName r)
        | .rewPrev => if small then let (s', r) := step k s .rewindPrev; (s', rName r) else (s, "skip")
        | .rewStart => if small then let (s', r) := step k s .rewindStart; (s', rName r) else (s, "skip")
      runOpsD kA kB hdr small rest (fired || t == "Io" || t.endsWith ":Io") s' (s!"{t}@{s'.pos}" :: acc)

def runX (t : List String) : String :=
  match t with
  | o :: fl :: envS :: preS :: dataS :: opsS =>
    match parseOpts o fl, parseEnv envS, parsePrefix preS, opsS.mapM parseOp with
    | some opts, some env, some pre, some ops =>
      let data? : Option (Nat × Nat) :=
        if dataS == "-" then some (0, 0) else
        match dataS.splitOn ":" with
        | [l, s] => do
          let l ← l.toNat?
          let s ← s.toNat?
          if l > CAP * 4 ∨ s ≥ U64 then none else some (l, s)
        | _ => none
      match data? with
      | none => "bad-case"
      | some (dlen, seed) =>
        if !ops.all opOk then "bad-case" else
        if env.once.isSome ∧ !ops.all (fun o => match o with
            | .layout | .limit _ | .read _ _ | .all _ => true | _ => false) then "bad-case" else
        let fileLen := pre.length + dlen
        let head := pre ++ dataHead seed (min dlen 192)
        let lim0 := match env.hard with | some k => min fileLen k | none => fileLen
        let avail1 := match env.eof with | some k => min lim0 k | none => lim0
        let avail := match env.once with | some k => min avail1 k | none => avail1
        let hbytes := head.take avail
        let hpos := hdrEnd opts.skipMagicBytes head avail
        let e : Env := { len := fileLen, fault := env.hard, clampSeek := env.clamp, eofOnce := env.eof }
        match Header.read pixelInfoOf opts (leWords hbytes) with
        | .error er =>
          let opsOut := ops.map fun op => match op with | .layout => "L=-" | _ => "-"
          joinSp ([s!"hdr={fmtErr er}@{hpos}", "|"] ++ opsOut ++ ["|", "cur=-"])
        | .ok (h, _) =>
          let hd := s!"hdr={fmtHeader h}@{hpos}"
          match C19.formatOfHeader (hdrOf h) with
          | .error fe =>
            let opsOut := ops.map fun op => match op with | .layout => s!"L={fmtLayout h}" | _ => "-"
            joinSp ([hd, s!"fmt=err:{fmtErrName fe}", "|"] ++ opsOut ++ ["|", "cur=-"])
          | .ok f =>
            match openBytes opts hbytes with
            | .error (.layout le) =>
              let opsOut := ops.map fun op => match op with | .layout => s!"L={fmtLayout h}" | _ => "-"
              joinSp ([hd, s!"fmt={f.name} lay=err:{errName le}", "|"] ++ opsOut ++ ["|", "cur=-"])
            | .error _ => "panic"
            | .ok od =>
              let kB : Cfg := { env := e, fam := od.fam, layout := od.layout }
              let kA : Cfg := match env.once with
                | some z => { kB with env := { e with eofOnce := some z } }
                | none => kB
              let small := match od.layout.dataLenP with | some l => decide (l ≤ I64MAX) | none => false
              let s0 : RS := { iter := SurfIter.new od.layout, pos := hpos, limit := DEFAULT_MEMORY_LIMIT }
              let (s1, outs) := runOpsD kA kB (some h) small ops false s0 []
              joinSp ([hd, s!"fmt={f.name} lay={fmtL od.layout}", "|"] ++ outs ++ ["|", s!"cur={fmtCur s1}"])
    | _, _, _, _ => "bad-case"
  | _ => "bad-case"

/-! ### `G` cases: one giant full decode (regression tie of F17)

The answer `ok <surface bytes>` is what `C01.decode_loops_trapfree` proves for every size; on top of that the driver
EVALUATES the mirror where the width matters: for the block family with a channel conversion the first and the last
chunk of `ChannelConversionBuffer::process_blocks` (`TrapLoops.convBlockChunkT` with the saturating addition of the
repaired line) on the first block line.  With the unrepaired addition the last chunk of a 4 294 966 273-pixel line is
`none` (`C01.f17_unrepaired_traps`). -/

def GIANT_MEM_CAP : Nat := 8 * 1024 * 1024 * 1024

def giantChannels : String → Option Unc.Channels
  | "gray" => some .gray | "alpha" => some .alpha | "rgb" => some .rgb | "rgba" => some .rgba | _ => none
def giantPsz : String → Option Nat
  | "u8" => some 1 | "u16" => some 2 | "f32" => some 4 | _ => none

/-- native channels of the decoder `get_decoder` picks for a target (same precision): exact match if the set has one -/
def giantNative (name : String) (target : Unc.Channels) : Unc.Channels :=
  if name.startsWith "BC4" ∨ name == "R1_UNORM" then .gray
  else if name.startsWith "BC5" ∨ name.startsWith "BC6H" ∨ name == "BC3_UNORM_RXGB" ∨ name == "BC3_UNORM_NORMAL" then .rgb
  else if name == "BC2_UNORM" ∨ name == "BC3_UNORM" then (if target == .rgb then .rgb else .rgba)
  else if name.startsWith "BC" ∨ name.startsWith "ASTC" then .rgba
  else .rgb   -- packed 4:2:2 formats

def giantBlkFn (name : String) (bw bh : Nat) : TrapLoops.BlkFn :=
  if name == "R1_UNORM" then .eight
  else if name.startsWith "BC" then .four
  else if bw == 2 ∧ bh == 1 then .two
  else .general bw bh

/-- first and last chunk of `process_blocks` on the first block line of a tight `w × h` view -/
def giantBlockOk (name : String) (bw bh bpb : Nat) (target : Unc.Channels) (psz w h : Nat) : Bool :=
  let native : TrapLoops.Color := ⟨giantNative name target, psz⟩
  if native.ch = target then true else
  let p := giantBlkFn name bw bh
  let rows := min bh h
  let nbpp := native.bpp
  let obpp := (TrapLoops.Color.mk target psz).bpp
  let pitch := w * obpp
  let enc : TrapLoops.Sl := ⟨.line, 0, divCeil w bw * bpb⟩
  let out : TrapLoops.Sl := ⟨.out, 0, (rows - 1) * pitch + w * obpp⟩
  let bufW := TrapLoops.BUFFER_BYTES / (nbpp * rows)
  let pref := bufW - bufW % bw
  if pref = 0 then false else
  let chunk := TrapLoops.convBlockChunkT (fun a b => some (TrapLoops.satAdd32 a b)) native target p bpb (fun _ => false)
    bpb bw nbpp obpp rows pref w pitch ⟨w, 0, 0, rows⟩ enc out
  (chunk 0).isSome && (chunk ((w - 1) / pref * pref)).isSome

def runG (t : List String) : String :=
  match t with
  | [name, w, h, ch, pr] =>
    match lookupFormat name, w.toNat?, h.toNat?, giantChannels ch, giantPsz pr with
    | some fam, some w, some h, some target, some psz =>
      if w = 0 ∨ h = 0 ∨ w ≥ U32 ∨ h ≥ U32 then "bad-case" else
      let outBytes := w * h * (TrapLoops.Color.mk target psz).bpp
      match fam.px.surfaceBytes w h with
      | none => "MemoryLimitExceeded"
      | some bytes =>
        if outBytes + bytes > GIANT_MEM_CAP then "skip"
        else if checkLikelyOverflow fam w h = false then "MemoryLimitExceeded"
        else
          let ok := match fam with
            | .block bw bh bpb => giantBlockOk name bw bh bpb target psz w h
            | _ => true
          if ok then s!"ok {bytes}" else "panic"
    | _, _, _, _, _ => "bad-case"
  | _ => "bad-case"

def runC01 (line : String) : String :=
  match toks line with
  | "X" :: t => runX t
  | "G" :: t => runG t
  | _ => "bad-case"

end Dds.Drv.C01

namespace Dds.Drv
def runC01 : String → String := C01.runC01
end Dds.Drv
