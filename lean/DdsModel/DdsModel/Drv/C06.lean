/- Driver section of C06 (stream-position contract) and shared parsing for C07.

case lines (space separated):
  full <fmt> <ch> <pr> <w> <h> <pad> <lim> <pos0> <len> <fault|-> <clamp> <chunk>
  rect <fmt> <ch> <pr> <W> <H> <x> <y> <w> <h> <pad> <lim> <pos0> <len> <fault|-> <clamp> <chunk>
`lim` is a number, `d` (default), `n` (the need of the call) or `n-1`; `fault` is an absolute offset,
optionally prefixed with `t` (reported only once), or `z<k>` (`Ok(0)` once at offset k).  `pad` (row pitch padding of
the output) and `chunk` (short-read pattern of the reader) do not influence the model: by
`C06.chunking_irrelevant` the result is the same for every pattern, so the model runs with full reads.
result: `<res> <final pos> lim=<limit used> <merged trace>` -/
import DdsModel.Drv.Util
import DdsModel.Stream
namespace Dds.Drv.C06
open Dds Dds.Stream

def resName : Res → String
  | .ok => "ok" | .ioError => "io" | .memLimit => "mem" | .rectOutOfBounds => "oob" | .panic => "panic"

/-- merge neighbours of the same kind (oldest first) -/
def mergeLog : List Ev → List Ev
  | [] => []
  | e :: t =>
    match e, mergeLog t with
    | .seek a, .seek b :: r => .seek (a + b) :: r
    | .read a, .read b :: r => .read (a + b) :: r
    | e, r => e :: r

def evStr : Ev → String
  | .seek d => s!"S{d}"
  | .read k => s!"R{k}"

def traceStr (log : List Ev) : String :=
  match mergeLog log.reverse with
  | [] => "-"
  | l => ".".intercalate (l.map evStr)

def limitOf (tok : String) (needV : Nat) : Option Nat :=
  if tok = "d" then some DEFAULT_MEMORY_LIMIT
  else if tok = "n" then some needV
  else if tok = "n-1" then some (needV - 1)
  else tok.toNat?

/-- parses `<kind> <fmt> <ch> <pr> <dims…>`; returns family, colour, call and the remaining tokens -/
def parseCall (ts : List String) : Option (Fam × Colour × Call × List String) :=
  match ts with
  | "full" :: fmt :: ch :: pr :: w :: h :: rest => do
    let f ← lookupFormat fmt
    let ch ← ch.toNat?
    let pr ← pr.toNat?
    let w ← w.toNat?
    let h ← h.toNat?
    if ch > 3 ∨ pr > 2 then none else
    some (f, (ch, pr), .full w h, rest)
  | "rect" :: fmt :: ch :: pr :: W :: H :: x :: y :: w :: h :: rest => do
    let f ← lookupFormat fmt
    let ch ← ch.toNat?
    let pr ← pr.toNat?
    let ns ← natsOf [W, H, x, y, w, h]
    if ch > 3 ∨ pr > 2 then none else
    match ns with
    | [W, H, x, y, w, h] => some (f, (ch, pr), .rect W H x y w h, rest)
    | _ => none
  | _ => none

def runC06 (line : String) : String :=
  match parseCall (toks line) with
  | none => "bad-case"
  | some (f, c, call, rest) =>
    match rest with
    | [_pad, lim, pos0, len, fault, clamp, _chunk] =>
      let p := plan f c call
      match limitOf lim (planNeed p), pos0.toNat?, len.toNat?, clamp.toNat? with
      | some limit, some pos0, some len, some clamp =>
        -- `t<k>`: the error is reported only once; the decode stops at the first error, so the model's
        -- outcome is that of the persistent error at `k`
        let eofOnce : Option Nat := if fault.startsWith "z" then (fault.drop 1).toString.toNat? else none
        let fault := if fault.startsWith "z" then "-" else fault
        let fault := if fault.startsWith "t" then (fault.drop 1).toString else fault
        let fault? : Option (Option Nat) := if fault = "-" then some none else fault.toNat?.map some
        match fault? with
        | none => "bad-case"
        | some fault =>
          let e : Env := { len := len, fault := fault, clampSeek := clamp ≠ 0, eofOnce := eofOnce }
          let (r, st) := run e [] p pos0 limit
          s!"{resName r} {st.pos} lim={limit} {traceStr st.log}"
      | _, _, _, _ => "bad-case"
    | _ => "bad-case"

end Dds.Drv.C06

namespace Dds.Drv
def runC06 : String → String := C06.runC06
end Dds.Drv
