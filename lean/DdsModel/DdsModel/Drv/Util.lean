/- Parsing / printing helpers shared by the driver sections. -/
namespace Dds.Drv

def toks (line : String) : List String :=
  (line.trimAscii.toString.splitOn " ").filter (· ≠ "")

def splitColon (s : String) : List String := s.splitOn ":"

def nat? (s : String) : Option Nat := s.toNat?

def natsOf (l : List String) : Option (List Nat) := l.mapM nat?

def joinSp (l : List String) : String := " ".intercalate l

end Dds.Drv
