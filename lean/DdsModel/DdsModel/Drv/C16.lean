import DdsModel.Drv.Util
import DdsModel.Mip
namespace Dds.Drv.C16
open Dds Dds.Mip Dds.Drv

def parseFilter16 : String → Option Filter
  | "nearest" => some .nearest
  | "box" => some .box
  | "triangle" => some .triangle
  | "mitchell" => some .mitchell
  | "lanczos3" => some .lanczos3
  | _ => none

def parsePrec16 : String → Option Prec
  | "u8" => some .u8
  | "u16" => some .u16
  | "f32" => some .f32
  | _ => none

/-- number of channels of `g | a | rgb | rgba` -/
def parseChan16 : String → Option Nat
  | "g" => some 1
  | "a" => some 1
  | "rgb" => some 3
  | "rgba" => some 4
  | _ => none

/-- bytes per pixel of the lossless target the harness encodes into -/
def targetBpp16 (chan : String) (p : Prec) : Nat :=
  match chan, p with
  | "g", .u8 => 1
  | "a", .u8 => 1
  | _, .u8 => 4
  | "g", .u16 => 2
  | _, .u16 => 8
  | "g", .f32 => 4
  | _, .f32 => 16

/-- a convex stand-in for the resizer: every output pixel = source pixel 0. For constant images
every normalised kernel gives the same result (`C16.constant_preserved`). -/
def pointKernel : Kernel := ⟨fun _ _ _ dw dh => List.replicate (dw * dh) [(0, 1)]⟩

/-- value of a finite binary32 bit pattern (exact) -/
def f32ToRat16 (b : Nat) : Rat :=
  let ex := (b / 8388608) % 256
  let m := b % 8388608
  let scale (e : Int) : Rat :=
    if e ≥ 0 then ((2 ^ e.toNat : Nat) : Rat) else 1 / ((2 ^ (-e).toNat : Nat) : Rat)
  let mag : Rat :=
    if ex = 0 then (m : Rat) * scale (-149) else ((8388608 + m : Nat) : Rat) * scale ((ex : Int) - 150)
  if b / 2147483648 % 2 = 1 then -mag else mag

def rawToRat (p : Prec) (raw : Nat) : Rat :=
  match p with
  | .f32 => f32ToRat16 raw
  | _ => (raw : Rat)

/-- print a model value: integers as such; an f32 value as the bit pattern of the input sample it
equals (`raw`), of +0.0, or `other` (the model never produces anything else for a constant image) -/
def showVal (p : Prec) (raw : Nat) (v : Rat) : String :=
  match p with
  | .f32 => if v = f32ToRat16 raw then toString raw else if v = 0 then "0" else "other"
  | _ => toString v.floor.toNat

def finiteF32 (b : Nat) : Bool := b < 4294967296 && (b / 8388608) % 256 != 255

/-- `const:<c0>:<c1>:<c2>:<c3>` -/
def parseConst16 (p : Prec) (s : String) : Option (Option (List Nat)) :=
  match splitColon s with
  | ["const", a, b, c, d] =>
    match natsOf [a, b, c, d] with
    | none => none
    | some l =>
      let ok := match p with
        | .u8 => l.all (· ≤ 255)
        | .u16 => l.all (· ≤ 65535)
        | .f32 => l.all finiteF32
      if ok then some (some l) else none
  | [w] => if w ∈ ["opaque", "band", "noise", "holes"] then some none else none
  | _ => none

/-- per channel: the one value every sample of every level has, or `varies` -/
def constToken (p : Prec) (col : List Nat) (nch : Nat) (levels : List Img) : String :=
  ":".intercalate <| (List.range nch).map fun c =>
    let vals := levels.flatMap fun l => (l.planes.getD c [])
    match vals with
    | [] => "varies"
    | v :: rest => if rest.all (· == v) then showVal p (col.getD c 0) v else "varies"

/-- the optional last token `m:<levels>` of an `M` line: declared level count 1..255 -/
def parseDeclared16 (s : String) : Option Nat :=
  match splitColon s with
  | ["m", n] => match nat? n with
    | some n => if n = 0 ∨ n > 255 then none else some n
    | none => none
  | _ => none

/-- `M <w> <h> <chan> <prec> <filter> <sa> <variant> <content> <seed> [m:<levels>]`; `declared = none` is the
full chain of `Header::with_mipmaps` -/
def runM16 (w h chan prec filter sa variant content seed : String) (declared : Option Nat) : String :=
    match nat? w, nat? h, parseChan16 chan, parsePrec16 prec, parseFilter16 filter, nat? seed with
    | some w, some h, some nch, some p, some f, some seed =>
      if w = 0 ∨ h = 0 ∨ w > 4096 ∨ h > 4096 ∨ seed ≥ 2 ^ 64 then "bad-case"
      else if ¬ (sa = "0" ∨ sa = "1") then "bad-case"
      else if variant ∉ ["al", "o1", "o2", "o3", "st"] then "bad-case"
      else
      match parseConst16 p content with
      | none => "bad-case"
      | some col =>
        let sa := sa == "1"
        -- Header::new_image(w, h, format).with_mipmaps() / .with_mipmap_count(m)
        let mips := declared.getD (maxMipCount (max w h))
        match Texture.create w h mips (.fixed (targetBpp16 chan p)) with
        | .error _ => "err layout"
        | .ok t =>
          let e := Enc.new (.texture t) 1 1
          -- the cursor bookkeeping of the whole call (Encoder.lean)
          let (e', r) := e.write w h false
          if r ≠ .ok then "err write"
          else if e'.iter.currentP ≠ some none then "err not-done"
          else
          -- what is generated
          match e.iter.currentP, e.iter.advanceP with
          | some (some s0), some it1 =>
            let em := if e.toGen s0 > 0 then emitted it1 f (w, h) else some []
            match em with
            | none => "panic"
            | some pl =>
              let sizes := (w, h) :: pl.map (·.1)
              let sizesS := ",".intercalate (sizes.map fun s => s!"{s.1}x{s.2}")
              let planS := if pl.isEmpty then "-" else ",".intercalate (pl.map fun x => toString x.2)
              let constS :=
                match col with
                | none => "-"
                | some c =>
                  -- The model resizes in exact rational arithmetic with one final rounding (`Kernel.Normalised`);
                  -- the code accumulates in binary32. For 8-bit data, and for sources of at most 256 pixels per
                  -- side, the two agree on every case tried; beyond that a level made from the source averages more
                  -- taps than binary32 carries exactly for 16-bit data (finding F16) and the model makes no
                  -- prediction (`?`) — the oracle judges those cases alone.
                  if (match p with | Mip.Prec.u8 => false | _ => true) && decide (max w h > 256) then "?" else
                  let src : Img := ⟨w, h, (c.take nch).map fun v => List.replicate (w * h) (rawToRat p v)⟩
                  let levels := runPlan (resizeImg pointKernel f p sa) src pl []
                  if levels.isEmpty then "-" else constToken p c nch levels
              s!"ok n={sizes.length} sizes={sizesS} plan={planS} const={constS}"
          | _, _ => "panic"
    | _, _, _, _, _, _ => "bad-case"

/-- element count of `t | c | a<n>` (n = 2..8) -/
def parseKind16 (s : String) : Option Nat :=
  if s = "t" then some 1
  else if s = "c" then some 6
  else if s.startsWith "a" then
    match nat? (s.drop 1).toString with
    | some n => if 2 ≤ n ∧ n ≤ 8 then some n else none
    | none => none
  else none

/-- `T`: for every element write levels 0..k-1 with generation off, then level k with generation on; returns
the bytes written by each generating call (`none` = a call failed) -/
def runStarts16 (w h : Nat) : Enc → List Nat → List Nat → Option (Enc × List Nat)
  | e, [], acc => some (e, acc.reverse)
  | e, k :: rest, acc =>
    let pre := (List.range k).foldl (fun (a : Enc × Bool) l =>
      let (e', r) := ({ a.1 with generate := false } : Enc).write (mipSize w l) (mipSize h l) false
      (e', a.2 && r == .ok)) (e, true)
    if !pre.2 then none else
    let e1 : Enc := { pre.1 with generate := true }
    let (e2, r) := e1.write (mipSize w k) (mipSize h k) false
    if r ≠ .ok then none else runStarts16 w h e2 rest ((e2.written - e1.written) :: acc)

def runC16 (line : String) : String :=
  match toks line with
  | ["M", w, h, chan, prec, filter, sa, variant, content, seed] =>
    runM16 w h chan prec filter sa variant content seed none
  | ["M", w, h, chan, prec, filter, sa, variant, content, seed, m] =>
    match parseDeclared16 m with
    | some m => runM16 w h chan prec filter sa variant content seed (some m)
    | none => "bad-case"
  -- `T <kind> <w> <h> <levels> <chan> <prec> <filter> <sa> <starts> <seed>`: texture / cube map / texture array
  -- with `levels` declared levels; the chain of element e is started at level starts[e]. Bytes written by every
  -- generating call (cursor look-ahead of Encoder.lean over the array layout), total, and whether `finish` accepts
  | ["T", kind, w, h, mips, chan, prec, filter, sa, starts, seed] =>
    match parseKind16 kind, nat? w, nat? h, nat? mips, parseChan16 chan, parsePrec16 prec, parseFilter16 filter,
          natsOf (starts.splitOn ","), nat? seed with
    | some elems, some w, some h, some mips, some _, some p, some _, some ks, some seed =>
      if w = 0 ∨ h = 0 ∨ w > 256 ∨ h > 256 ∨ mips = 0 ∨ mips > 255 ∨ seed ≥ 2 ^ 64 then "bad-case"
      else if ¬ (sa = "0" ∨ sa = "1") then "bad-case"
      else if ks.length ≠ elems ∨ ks.any (· ≥ mips) then "bad-case"
      else
      match Texture.create w h mips (.fixed (targetBpp16 chan p)) with
      | .error _ => "tseq err new"
      | .ok t =>
        let layout : Option DataLayout :=
          if kind = "t" then some (.texture t)
          else match TextureArray.new (if kind = "c" then .cubeMaps else .textures) elems t with
            | some (.ok a) => some (.textureArray a)
            | _ => none
        match layout with
        | none => "tseq err new"
        | some L =>
          match runStarts16 w h (Enc.new L 1 1) ks [] with
          | none => "tseq err write"
          | some (e, gen) =>
            let genS := ",".intercalate (gen.map toString)
            s!"tseq ok gen={genS} total={e.written} done={if e.finish == .ok then 1 else 0}"
    | _, _, _, _, _, _, _, _, _ => "bad-case"
  -- `S <w> <filter> <variant> <seed>`: six faces through one encoder, aligned vs `variant` input (harness oracle
  -- only: the model's statement is that alignment is not an input of the model at all)
  | ["S", w, filter, variant, seed] =>
    match nat? w, parseFilter16 filter, nat? seed with
    | some w, some _, some seed =>
      if w = 0 ∨ w > 64 ∨ seed ≥ 2 ^ 64 ∨ variant ∉ ["al", "o1", "o2", "o3", "st"] then "bad-case" else "seq ok"
    | _, _, _ => "bad-case"
  -- `P <w> <h> <k> <filter> <seed>`: R8G8B8A8 texture with a full chain; levels 0..k-1 written by hand with
  -- generation off, then generation on and level k written: bytes written by that call (level k and every
  -- generated level behind it, sizes from the cursor look-ahead of Encoder.lean) and whether `finish` accepts
  | ["P", w, h, k, filter, seed] =>
    match nat? w, nat? h, nat? k, parseFilter16 filter, nat? seed with
    | some w, some h, some k, some _, some seed =>
      let mips := maxMipCount (max w h)
      if w = 0 ∨ h = 0 ∨ w > 256 ∨ h > 256 ∨ seed ≥ 2 ^ 64 ∨ k ≥ mips then "bad-case" else
      match Texture.create w h mips (.fixed 4) with
      | .error _ => "err layout"
      | .ok t =>
        let e0 : Enc := { Enc.new (.texture t) 1 1 with generate := false }
        let pre := (List.range k).foldl (fun (acc : Enc × Bool) l =>
          let (e', r) := acc.1.write (mipSize w l) (mipSize h l) false
          (e', acc.2 && r == .ok)) (e0, true)
        if !pre.2 then "err pre" else
        let e1 : Enc := { pre.1 with generate := true }
        let (e2, r) := e1.write (mipSize w k) (mipSize h k) false
        if r ≠ .ok then "err write"
        else s!"pseq ok gen={e2.written - e1.written} done={if e2.finish == .ok then 1 else 0}"
    | _, _, _, _, _ => "bad-case"
  | _ => "bad-case"

end Dds.Drv.C16

namespace Dds.Drv
def runC16 : String → String := C16.runC16
end Dds.Drv
