import DdsModel.Split
import DdsModel.EncRows
import DdsModel.Drv.Util
namespace Dds.Drv.C14
open Dds

def parseDith : String → Option Dithering
  | "none" => some .none | "color" => some .color | "alpha" => some .alpha
  | "all" => some .colorAndAlpha | _ => none

def dithName : Dithering → String
  | .none => "none" | .color => "color" | .alpha => "alpha" | .colorAndAlpha => "all"

def parseQuality : String → Option Quality
  | "fast" => some .fast | "normal" => some .normal | "high" => some .high
  | "unr" => some .unreasonable | _ => none

def fmtFrag : Option (Nat × Nat) → String
  | some (o, k) => s!"{o}:{k}"
  | none => "missing"

def fmtFrags (l : List (Option (Nat × Nat))) : String :=
  let n := l.length
  if n ≤ 48 then ",".intercalate (l.map fmtFrag)
  else ",".intercalate ((l.take 3).map fmtFrag ++ [".."] ++ (l.drop (n - 2)).map fmtFrag)

/-- `ImageView::new` normalises every empty size to 0x0 -/
def normSize (w h : Nat) : Nat × Nat := if w = 0 ∨ h = 0 then (0, 0) else (w, h)

def geoString (sup : Option Support) (w h : Nat) (d : Dithering) (q : Quality) : String :=
  let (w, h) := normSize w h
  let sv := SplitView.new w h sup d q
  s!"len={sv.len} frags={fmtFrags sv.fragments}"

/-! ### `pad`: the padding rules of the data-flow model `EncRows.lean`

Pixels are their own identity (`y·w + x + 1`); the per-unit functions show what they are given.  The
block-aligned image is built by COORDINATES exactly as the harness does (extra columns = last pixel of
the row, extra rows = first row of the last partial row group); the model runs its data flow (buffers,
chunks, `padLast`, `padRows`) on both images. -/

def colorNames : List String :=
  ["g8", "a8", "rgb8", "rgba8", "g16", "a16", "rgb16", "rgba16", "g32", "a32", "rgb32", "rgba32"]

def parseColor (s : String) : Option C19.ColorFormat :=
  (colorNames.zip C19.ColorFormat.all).lookup s

def dithPair : Dithering → C19.Dithering
  | .none => ⟨false, false⟩ | .color => ⟨true, false⟩ | .alpha => ⟨false, true⟩
  | .colorAndAlpha => ⟨true, true⟩

def padString (name : String) (w h : Nat) (c : C19.ColorFormat) (d : Dithering) : String :=
  match C19.Format.all.find? (fun f => f.name == name) with
  | none => "bad-case"
  | some f =>
    match C19.encoderSet f, f.row.px with
    | none, _ => "bad-case"
    | _, .biPlanar _ _ _ _ => "bad-case"
    | some s, px =>
      match (s.pick c (dithPair d)).bind (s.encs[·]?) with
      | none => "pad panic"
      | some e =>
        let (w, h) := normSize w h
        let (bw, bh) := match px with | .block _ bw bh => (bw, bh) | _ => (1, 1)
        let w' := divCeil w bw * bw
        let h' := divCeil h bh * bh
        let a := (List.range h).map fun y => (List.range w).map fun x => y * w + x + 1
        let srcY := fun y => if y < h then y else h / bh * bh
        let b := (List.range h').map fun y =>
          (List.range w').map fun x => srcY y * w + min x (w - 1) + 1
        let run := fun (wd : Nat) (img : List (List Nat)) =>
          match px with
          | .block _ _ 1 =>
            EncRows.encSubsample bw (512 / bw * bw)
              (fun y blk => if e.kind == C19.EncKind.bayer then (y % 8) :: blk else 0 :: blk) img
          | .block _ _ _ => EncRows.encBlocks bw bh wd (fun data pitch => EncRows.blockAt bw bh data pitch) img
          | _ => EncRows.encUncompressed .contiguous (fun x => [x]) 512 img
        if run w a == run w' b then "pad ok eq" else "pad ok ne"

def runC14 (line : String) : String :=
  match toks line with
  | ["sup", name] =>
    match supportOf name with
    | none => "bad-case"
    | some none => "sup none"
    | some (some s) =>
      let sh := match s.splitHeight with | some x => toString x | none => "-"
      s!"sup split={sh} local={if s.localDithering then 1 else 0} dith={dithName s.dithering}"
  | ["geo", name, w, h, d, q] =>
    match supportOf name, nat? w, nat? h, parseDith d, parseQuality q with
    | some sup, some w, some h, some d, some q => s!"geo {geoString sup w h d q}"
    | _, _, _, _, _ => "bad-case"
  | ["enc", name, w, h, _color, d, q, _m, _th, _o, _seed] =>
    match supportOf name, nat? w, nat? h, parseDith d, parseQuality q with
    | some none, some w, some h, some d, some q =>
      s!"enc err:UnsupportedFormat {geoString none w h d q}"
    | some sup, some w, some h, some d, some q =>
      -- bytes are not computed by the model: the three outputs are predicted equal
      -- (Theorems.C14.order_independent / fragmentwise_eq_whole)
      s!"enc ok {geoString sup w h d q} par=eq frag=eq"
    | _, _, _, _, _ => "bad-case"
  | ["pad", name, w, h, color, d, q, _seed] =>
    match nat? w, nat? h, parseColor color, parseDith d, parseQuality q with
    | some w, some h, some c, some d, some _ => padString name w h c d
    | _, _, _, _, _ => "bad-case"
  | ["mip", name, w, h, color, _filter, straight, _seed] =>
    -- a whole file with generated mipmaps: the model predicts success for every encodable format without a size
    -- multiple (the case generator uses only those); the bytes of the two runs are compared by the oracle
    match supportOf name, nat? w, nat? h, parseColor color with
    | some (some _), some w, some h, some _ =>
      if w == 0 ∨ h == 0 ∨ w * h > 1048576 ∨ !(straight == "0" ∨ straight == "1") then "bad-case" else "mip ok"
    | _, _, _, _ => "bad-case"
  | _ => "bad-case"

end Dds.Drv.C14

namespace Dds.Drv
def runC14 : String → String := C14.runC14
end Dds.Drv
