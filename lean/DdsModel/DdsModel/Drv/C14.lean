import DdsModel.Split
import DdsModel.Drv.Util
namespace Dds.Drv.C14
open Dds

def parseDith : String → Option Dithering
  | "none" => some .none | "color" => some .color | "alpha" => some .alpha
  | "all" => some .colorAndAlpha | _ => none

def dithName : Dithering → String
  | .none => "none" | .color => "color" | .alpha => "alpha" | .colorAndAlpha => "all"

def parseQuality : String → Option Quality
  | "fast" => some .fast | "normal" => some .normal | "high" => some .high
  | "unr" => some .unreasonable | _ => none

def fmtFrag : Option (Nat × Nat) → String
  | some (o, k) => s!"{o}:{k}"
  | none => "missing"

def fmtFrags (l : List (Option (Nat × Nat))) : String :=
  let n := l.length
  if n ≤ 48 then ",".intercalate (l.map fmtFrag)
  else ",".intercalate ((l.take 3).map fmtFrag ++ [".."] ++ (l.drop (n - 2)).map fmtFrag)

/-- `ImageView::new` normalises every empty size to 0x0 -/
def normSize (w h : Nat) : Nat × Nat := if w = 0 ∨ h = 0 then (0, 0) else (w, h)

def geoString (sup : Option Support) (w h : Nat) (d : Dithering) (q : Quality) : String :=
  let (w, h) := normSize w h
  let sv := SplitView.new w h sup d q
  s!"len={sv.len} frags={fmtFrags sv.fragments}"

def runC14 (line : String) : String :=
  match toks line with
  | ["sup", name] =>
    match supportOf name with
    | none => "bad-case"
    | some none => "sup none"
    | some (some s) =>
      let sh := match s.splitHeight with | some x => toString x | none => "-"
      s!"sup split={sh} local={if s.localDithering then 1 else 0} dith={dithName s.dithering}"
  | ["geo", name, w, h, d, q] =>
    match supportOf name, nat? w, nat? h, parseDith d, parseQuality q with
    | some sup, some w, some h, some d, some q => s!"geo {geoString sup w h d q}"
    | _, _, _, _, _ => "bad-case"
  | ["enc", name, w, h, _color, d, q, _m, _th, _o, _seed] =>
    match supportOf name, nat? w, nat? h, parseDith d, parseQuality q with
    | some none, some w, some h, some d, some q =>
      s!"enc err:UnsupportedFormat {geoString none w h d q}"
    | some sup, some w, some h, some d, some q =>
      -- bytes are not computed by the model: the three outputs are predicted equal
      -- (Theorems.C14.order_independent / fragmentwise_eq_whole)
      s!"enc ok {geoString sup w h d q} par=eq frag=eq"
    | _, _, _, _, _ => "bad-case"
  | _ => "bad-case"

end Dds.Drv.C14

namespace Dds.Drv
def runC14 : String → String := C14.runC14
end Dds.Drv
