/- Driver section of C07 (the memory limit bounds allocation).

case lines:  full <fmt> <ch> <pr> <w> <h> <lim>   |   rect <fmt> <ch> <pr> <W> <H> <x> <y> <w> <h> <lim>
run on a fault-free stream that is long enough.
result: `<res> lim=<limit used> need=<total of the allocation requests of the call> granted=<bytes handed to the allocator>` -/
import DdsModel.Drv.C06
namespace Dds.Drv.C07
open Dds.Drv.C06
open Dds Dds.Stream

def runC07 (line : String) : String :=
  match parseCall (toks line) with
  | none => "bad-case"
  | some (f, c, call, rest) =>
    match rest with
    | [lim] =>
      let p := plan f c call
      match limitOf lim (planNeed p) with
      | none => "bad-case"
      | some limit =>
        let e : Env := { len := U64 - 1 }
        let (r, st) := run e [] p 0 limit
        s!"{resName r} lim={limit} need={planNeed p} granted={st.calls.foldl (· + ·) 0}"
    | _ => "bad-case"

end Dds.Drv.C07

namespace Dds.Drv
def runC07 : String → String := C07.runC07
end Dds.Drv
