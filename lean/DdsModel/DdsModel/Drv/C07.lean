/- Driver section of C07 (the memory limit bounds allocation).

case lines:  full <fmt> <ch> <pr> <w> <h> <lim> [<view>]   |   rect <fmt> <ch> <pr> <W> <H> <x> <y> <w> <h> <lim> [<view>]
run on a fault-free stream that is long enough.
result: `<res> lim=<limit used> need=<total of the allocation requests of the call> granted=<bytes handed to the allocator>` -/
import DdsModel.Drv.C06
namespace Dds.Drv.C07
open Dds.Drv.C06
open Dds Dds.Stream

/-- The optional last token names the caller's output view (`c`, `p<N>`, `x<l>:<t>:<r>:<b>`, `cube`; see
harness/src/c07.rs). No decode path of the model takes the shape of the output into account (the
specialised whole-image copy reads straight into the rows, every other path goes through its line / row
buffer), so the token is only checked for well-formedness. `cube` = `Decoder::read_cube_map`: six
`decode` calls of the face size, each with the whole `memory_limit` (decoder.rs `read_surface` builds a
fresh `DecodeContext` per surface); the faces have one size, so result, need and peak are those of one face. -/
def viewOk (call : Call) (tok : String) : Bool :=
  if tok == "c" then true
  else if tok == "cube" then (match call with | .full _ _ => true | _ => false)
  else if tok.startsWith "p" then (nat? (tok.drop 1).toString).isSome
  else if tok.startsWith "x" then
    match natsOf (splitColon (tok.drop 1).toString) with
    | some [_, _, _, _] => true
    | _ => false
  else false

def runC07 (line : String) : String :=
  match parseCall (toks line) with
  | none => "bad-case"
  | some (f, c, call, rest) =>
    let go (lim : String) : String :=
      let p := plan f c call
      match limitOf lim (planNeed p) with
      | none => "bad-case"
      | some limit =>
        let e : Env := { len := U64 - 1 }
        let (r, st) := run e [] p 0 limit
        s!"{resName r} lim={limit} need={planNeed p} granted={st.calls.foldl (· + ·) 0}"
    match rest with
    | [lim] => go lim
    | [lim, view] => if viewOk call view then go lim else "bad-case"
    | _ => "bad-case"

end Dds.Drv.C07

namespace Dds.Drv
def runC07 : String → String := C07.runC07
end Dds.Drv
