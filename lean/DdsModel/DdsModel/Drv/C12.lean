import DdsModel.Drv.Util
import DdsModel.QuantFmt
import DdsModel.QuantF32
import DdsModel.EncCarrier
/-! Driver section of C12: same case lines as harness/src/c12.rs, prints `ok <len> <fnv64>`
(`carrier` lines: `c <hex bytes>` from `EncCarrier.rowBytes`). -/
namespace Dds.Drv.C12
open Dds.Quant

def hexDigit (c : Char) : Option Nat :=
  if '0' ≤ c ∧ c ≤ '9' then some (c.toNat - '0'.toNat)
  else if 'a' ≤ c ∧ c ≤ 'f' then some (c.toNat - 'a'.toNat + 10)
  else if 'A' ≤ c ∧ c ≤ 'F' then some (c.toNat - 'A'.toNat + 10)
  else none
def hex? (s : String) : Option Nat :=
  if s.isEmpty then none else s.toList.foldlM (fun acc c => (hexDigit c).map (acc * 16 + ·)) 0

def hexOf (n : Nat) (digits : Nat) : String :=
  let ds := (List.range digits).reverse.map fun i =>
    let d := n / 16 ^ i % 16
    Char.ofNat (if d < 10 then '0'.toNat + d else 'a'.toNat + d - 10)
  String.ofList ds

def fnv (bytes : Array Nat) : UInt64 :=
  bytes.foldl (fun h b => (h ^^^ (UInt64.ofNat b)) * 0x100000001b3) 0xcbf29ce484222325

/-- `int_chan` of the harness -/
def intChan (pat bits c k : Nat) : Nat :=
  let r := 2 ^ bits
  let mult := [1, 7, 0, 13].getD c 0
  let add := [0, 3, 0, 5].getD c 0
  let base (k : Nat) : Nat := if c = 2 then (r - 1) - k % r else (k * mult + add) % r
  match pat with
  | 0 => base k
  | 1 => base (k / 2)
  | 2 =>
    match c with
    | 0 => k % r
    | 1 => k / r % r
    | 2 => (k / 16 * 5 + 1) % r
    | _ => (k * 13 + 5) % r
  | _ => let t := base k; (2 * t + t / 2 ^ (bits - 1)) % r

def pixIndex (pat : Nat) (bi : Bool) (w x y start : Nat) : Nat :=
  if pat = 1 ∧ bi then start + 2 * ((y / 2) * (w / 2) + x / 2) else start + (y * w + x)

def logicalPx (fam : String) (v : Array Inp) (one zero : Inp) : Array Inp :=
  match fam with
  | "g" => #[v[0]!, v[0]!, v[0]!, one]
  | "a" => #[zero, zero, zero, v[3]!]
  | "rgb" => #[v[0]!, v[1]!, v[2]!, one]
  | _ => v

structure Img where
  w : Nat
  h : Nat
  px : Array Pix

def Img.at (img : Img) (x y : Nat) : Pix := img.px[y * img.w + min x (img.w - 1)]!

def isBi (f : Fmt) : Bool := match f.cls with | .bi _ => true | _ => false

/-- encoded bytes with the loose pixels / blocks zeroed -/
def encodeMasked (f : Fmt) (img : Img) (intLine : Bool) : Array Nat := Id.run do
  let w := img.w; let h := img.h
  let loose := img.px.map (fun p => pixelLoose f p intLine)
  let lat (x y : Nat) : Bool := loose[y * w + min x (w - 1)]!
  let mut out : Array Nat := Array.mkEmpty (w * h * f.unit)
  match f.cls with
  | .plain | .yuv _ =>
    for i in [0:w * h] do
      if loose[i]! then
        for _ in [0:f.unit] do out := out.push 0
      else
        for b in encPixel f img.px[i]! do out := out.push b
  | .rgbg | .subYuv _ =>
    for y in [0:h] do
      for bx in [0:(w + 1) / 2] do
        let p0 := img.at (2 * bx) y; let p1 := img.at (2 * bx + 1) y
        let l := lat (2 * bx) y || lat (2 * bx + 1) y || (f.cls = .rgbg && rgbgPairLoose p0 p1)
        if l then
          for _ in [0:f.unit] do out := out.push 0
        else
          for b in encPair f p0 p1 do out := out.push b
  | .r1 =>
    for y in [0:h] do
      for bx in [0:(w + 7) / 8] do
        if (List.range 8).any (fun j => lat (8 * bx + j) y) then out := out.push 0
        else
          let byte := (List.range 8).foldl (fun acc j => acc + q 1 ((img.at (8 * bx + j) y).x[0]!.clamp01) * 2 ^ (7 - j)) 0
          out := out.push byte
  | .bi m =>
    -- plane 1
    let blkLoose (bx y2 : Nat) : Bool :=
      lat (2 * bx) (2 * y2) || lat (2 * bx + 1) (2 * y2) || lat (2 * bx) (2 * y2 + 1) || lat (2 * bx + 1) (2 * y2 + 1)
    let sh := if m = 10 then 64 else 1
    for y in [0:h] do
      for x in [0:w] do
        if blkLoose (x / 2) (y / 2) then
          for _ in [0:f.unit] do out := out.push 0
        else
          let (yy, _, _) := yuvOf m (img.at x y)
          if f.unit = 1 then out := out.push yy else for b in le16 (yy * sh) do out := out.push b
    for by2 in [0:h / 2] do
      for bx in [0:w / 2] do
        if blkLoose bx by2 then
          for _ in [0:2 * f.unit] do out := out.push 0
        else
          let ps := [img.at (2 * bx) (2 * by2), img.at (2 * bx + 1) (2 * by2), img.at (2 * bx) (2 * by2 + 1), img.at (2 * bx + 1) (2 * by2 + 1)]
          let yuvs := ps.map (yuvOf m)
          let u := (yuvs.foldl (fun a t => a + t.2.1) 0) / 4
          let v := (yuvs.foldl (fun a t => a + t.2.2) 0) / 4
          if f.unit = 1 then out := (out.push u).push v
          else
            for b in le16 (u * sh) ++ le16 (v * sh) do out := out.push b
  return out

def showResult (f : Fmt) (img : Img) (intLine : Bool) : String :=
  if isBi f ∧ (img.w % 2 ≠ 0 ∨ img.h % 2 ≠ 0) then "err size"
  else
    let bytes := encodeMasked f img intLine
    s!"ok {bytes.size} {hexOf (fnv bytes).toNat 16}"

def b2n (b : Bool) : Nat := if b then 1 else 0

/-! ### `carrier <fmt> <u8|u16|f32> <g|a|rgb|rgba> <hex,…>`: one row of pixels in ONE colour format through the
bit-level conversion chain of `EncCarrier.lean` (no tolerance, no masking) -/

def carrierPix (ch : String) : List Nat → Option (List EncCarrier.Pix)
  | [] => some []
  | l =>
    match ch, l with
    | "g", g :: rest => (carrierPix ch rest).map (EncCarrier.Pix.gray g :: ·)
    | "a", a :: rest => (carrierPix ch rest).map (EncCarrier.Pix.alpha a :: ·)
    | "rgb", r :: g :: b :: rest => (carrierPix ch rest).map (EncCarrier.Pix.rgb r g b :: ·)
    | "rgba", r :: g :: b :: a :: rest => (carrierPix ch rest).map (EncCarrier.Pix.rgba r g b a :: ·)
    | _, _ => none
termination_by l => l.length
decreasing_by all_goals simp_wf <;> omega

def carrierLine (name precS chS vals : String) : String :=
  let prec : Option (Prec × Nat) := match precS with
    | "u8" => some (.u8, 256) | "u16" => some (.u16, 65536) | "f32" => some (.f32, 2 ^ 32) | _ => none
  let ch : Option Chan := match chS with
    | "g" => some .gray | "a" => some .alpha | "rgb" => some .rgb | "rgba" => some .rgba | _ => none
  match prec, ch, (vals.splitOn ",").mapM (fun h => if h.length > 8 then none else hex? h) with
  | some (p, bound), some c, some vs =>
    if ¬ EncCarrier.bitLevelNames.contains name ∨ vs.any (· ≥ bound) then "bad-case"
    else
      match carrierPix chS vs with
      | some row =>
        if row.isEmpty ∨ row.length > 64 then "bad-case"
        else
          match EncCarrier.rowBytes EncCarrier.extZero name p c row with
          | some bytes => "c " ++ String.join (bytes.map (hexOf · 2))
          | none => "panic"
      | none => "bad-case"
  | _, _, _ => "bad-case"

def runC12 (line : String) : String :=
  match toks line with
  | ["carrier", name, precS, chS, vals] => carrierLine name precS chS vals
  | ["sup", name] =>
    match formats.find? (·.name = name) with
    | none => "bad-case"
    | some f =>
      let fl := (encoderTable name).foldl (fun a e => a ||| e.flags) 0
      let d := getDithering fl
      let (sh, sm) := if isBi f then (0, "2x2") else (1, "1x1")
      s!"sup dc={b2n d.1} da={b2n d.2} sh={sh} sm={sm} local=0"
  | ["q32", name, vals] =>
    -- the binary32 quantisers at the bit level (`QuantF32.field`), one code per input pattern
    match (vals.splitOn ",").mapM (fun h => if h.length > 8 then none else hex? h) with
    | some vs =>
      if vs.isEmpty ∨ vs.length > 4096 ∨ ¬ ["n2", "n4", "n5", "n6", "n8", "n10", "n16", "s8"].contains name then "bad-case"
      else
        -- where the binary32 evaluation of the code is one above the exact quantiser (the proved deviation sets: the
        -- largest float below a tie) BOTH codes satisfy the property (`…_known_deviation`): the model prints
        -- `code/nearest` there and the tie accepts either (a harmless change computing in f64 gives the nearest)
        let bits? : Option Nat := match name with
          | "n2" => some 2 | "n4" => some 4 | "n5" => some 5 | "n6" => some 6 | "n8" => some 8
          | "n10" => some 10 | "n16" => some 16 | _ => none
        let show1 (b code : Nat) : String :=
          match bits? with
          | some k =>
            if CF32.isNaN b || CF32.isInf b then toString code else
            let alt := Quant.q k (CF32.toRat b)
            if alt == code then toString code else s!"{code}/{alt}"
          | none => toString code
        match vs.mapM (QuantF32.field name) with
        | some cs => "q " ++ ",".intercalate ((vs.zip cs).map fun (b, c) => show1 b c)
        | none => "panic"
    | none => "bad-case"
  | ["int", name, bitsS, fam, patS, wS, hS, startS] =>
    match formats.find? (·.name = name), nat? bitsS, nat? patS, nat? wS, nat? hS, nat? startS with
    | some f, some bits, some pat, some w, some h, some start =>
      if (bits ≠ 8 ∧ bits ≠ 16) ∨ pat > 3 ∨ w = 0 ∨ h = 0 ∨ w * h > 2 ^ 20 ∨ ¬ ["g", "a", "rgb", "rgba"].contains fam then "bad-case"
      else
        let one := Inp.int (2 ^ bits - 1) bits
        let zero := Inp.int 0 bits
        let px := (Array.range (w * h)).map fun i =>
          let k := pixIndex pat (isBi f) w (i % w) (i / w) start
          Pix.of (logicalPx fam ((Array.range 4).map fun c => Inp.int (intChan pat bits c k) bits) one zero)
        showResult f ⟨w, h, px⟩ true
    | _, _, _, _, _, _ => "bad-case"
  | [kind, name, fam, wS, hS, vals] =>
    match formats.find? (·.name = name), nat? wS, nat? hS, (vals.splitOn ",").mapM hex? with
    | some f, some w, some h, some vs =>
      if ¬ ["f32", "f32s", "f32x"].contains kind then "bad-case"
      else if kind ≠ "f32x" ∧ vs.any (· > 0x3F800000) then "bad-case"
      else if kind = "f32" ∧ vs.any (fun v => v ≠ 0 ∧ v < 0x38800000) then "bad-case"
      else if vs.isEmpty ∨ w = 0 ∨ h = 0 ∨ w * h > 2 ^ 20 ∨ ¬ ["g", "a", "rgb", "rgba"].contains fam ∨ vs.any (· ≥ 2 ^ 32) then "bad-case"
      else
        let va := vs.toArray
        let nch := match fam with | "g" | "a" => 1 | "rgb" => 3 | _ => 4
        let one := Inp.f32 0x3F800000
        let zero := Inp.f32 0
        let px := (Array.range (w * h)).map fun i =>
          let x := i % w; let y := i / w
          let i := match f.cls with
            | .rgbg | .subYuv _ => y * ((w + 1) / 2) + x / 2
            | .bi _ => (y / 2) * (w / 2) + x / 2
            | _ => i
          let g (j : Nat) := Inp.f32 va[(i * nch + j) % va.size]!
          let v : Array Inp := match fam with
            | "g" => #[g 0, zero, zero, one]
            | "a" => #[zero, zero, zero, g 0]
            | "rgb" => #[g 0, g 1, g 2, one]
            | _ => #[g 0, g 1, g 2, g 3]
          Pix.of (logicalPx fam v one zero)
        showResult f ⟨w, h, px⟩ false
    | _, _, _, _ => "bad-case"
  | _ => "bad-case"

end Dds.Drv.C12

namespace Dds.Drv
def runC12 : String → String := C12.runC12
end Dds.Drv
