import DdsModel.EncTotal
import DdsModel.EncTotal64
import DdsModel.EncBcSites
import DdsModel.Drv.C02
namespace Dds.Drv.C15
open Dds Dds.Drv Dds.EncTotal

/-- the special values of the `Q` cases -/
def specialOf : String → Option ExtReal
  | "nan" => some .nan
  | "pinf" => some .pinf
  | "ninf" => some .ninf
  | "zero" => some (.fin 0)
  | "nzero" => some (.fin 0)
  | "one" => some (.fin 1)
  | "two" => some (.fin 2)
  | "neg" => some (.fin (-1))
  | "huge" => some (.fin ((10 : Rat) ^ 30))
  | "nhuge" => some (.fin (-((10 : Rat) ^ 30)))
  | "half" => some (.fin (1/2))
  | _ => none

/-- the encoded 1x1 pixel of the formats whose packing the model carries, as a little-endian
number; the quantisers are evaluated in exact arithmetic (the generated inputs saturate or are
exactly representable, so the result does not depend on the rounding) -/
def encodePixel (fmt : String) (r g b a : ExtReal) : Option Nat :=
  let R := Rounding.exact
  let n (max ty : Nat) (x : ExtReal) := qUnormMin R max ty x
  let n8 (x : ExtReal) := qUnormSat R 255 8 x
  let n16 (x : ExtReal) := qUnormSat R 65535 16 x
  match fmt with
  | "B5G6R5_UNORM" => some (pack [(n 31 8 b, 5), (n 63 8 g, 6), (n 31 8 r, 5)])
  | "B5G5R5A1_UNORM" => some (pack [(n 31 8 b, 5), (n 31 8 g, 5), (n 31 8 r, 5), (qN1 a, 1)])
  | "B4G4R4A4_UNORM" => some (pack [(n 15 8 b, 4), (n 15 8 g, 4), (n 15 8 r, 4), (n 15 8 a, 4)])
  | "A4B4G4R4_UNORM" => some (pack [(n 15 8 a, 4), (n 15 8 b, 4), (n 15 8 g, 4), (n 15 8 r, 4)])
  | "R8G8B8A8_UNORM" => some (pack [(n8 r, 8), (n8 g, 8), (n8 b, 8), (n8 a, 8)])
  | "B8G8R8A8_UNORM" => some (pack [(n8 b, 8), (n8 g, 8), (n8 r, 8), (n8 a, 8)])
  | "R8G8B8A8_SNORM" =>
    match qSnorm R 8 r, qSnorm R 8 g, qSnorm R 8 b, qSnorm R 8 a with
    | some r, some g, some b, some a => some (pack [(r, 8), (g, 8), (b, 8), (a, 8)])
    | _, _, _, _ => none
  | "R16G16B16A16_UNORM" => some (pack [(n16 r, 16), (n16 g, 16), (n16 b, 16), (n16 a, 16)])
  | "R16G16B16A16_SNORM" =>
    match qSnorm R 16 r, qSnorm R 16 g, qSnorm R 16 b, qSnorm R 16 a with
    | some r, some g, some b, some a => some (pack [(r, 16), (g, 16), (b, 16), (a, 16)])
    | _, _, _, _ => none
  | "R10G10B10A2_UNORM" => some (pack [(n 1023 16 r, 10), (n 1023 16 g, 10), (n 1023 16 b, 10), (n 3 8 a, 2)])
  | "R10G10B10_XR_BIAS_A2_UNORM" =>
    some (pack [(qXr10 R r, 10), (qXr10 R g, 10), (qXr10 R b, 10), (n 3 8 a, 2)])
  | "AYUV" =>
    let y := qYuv8 R (yRow (33/2)) r g b
    let u := qYuv8 R (uRow (257/2)) r g b
    let v := qYuv8 R (vRow (257/2)) r g b
    some (pack [(v, 8), (u, 8), (y, 8), (n8 a, 8)])
  | "Y410" =>
    let y := qYuv10 R (yRow (129/2)) r g b
    let u := qYuv10 R (uRow (1025/2)) r g b
    let v := qYuv10 R (vRow (1025/2)) r g b
    some (pack [(u, 10), (y, 10), (v, 10), (n 3 8 a, 2)])
  | "Y416" =>
    let y := qYuv16 R (yRow (8193/2)) r g b
    let u := qYuv16 R (uRow (65537/2)) r g b
    let v := qYuv16 R (vRow (65537/2)) r g b
    some (pack [(u, 16), (y, 16), (v, 16), (n16 a, 16)])
  | _ => none

/-- `E <path> <format> <w> <h> <color> <pitchExtra> <content> <cseed> <quality> <dither> <metric> <parallel> <k|->`
— colour, pitch, content, options do not influence the predicted result: that is the property.
`Q <format> <r> <g> <b> <a>`; `S <rbits> <gbits> <bbits>`;
`U <format> <rbits> <gbits> <bbits> <abits>`; `W <format> <rbits> <gbits> <bbits> <abits>`;
`T <format> <rbits> <gbits> <bbits>` -/
def runC15 (line : String) : String :=
  match toks line with
  | ["E", path, fmt, w, h, color, pitch, content, cseed, q, d, m, par, k] =>
    match lookup fmt, nat? w, nat? h, nat? color, nat? pitch, nat? cseed with
    | some row, some w, some h, some color, some pitch, some _ =>
      let fault : Option (Option Nat) := if k == "-" then some none else (nat? k).map some
      let optsOk := ["fast", "normal", "high", "unr"].contains q && ["none", "color", "alpha", "both"].contains d
        && ["uni", "perc"].contains m && ["0", "1"].contains par
        && ["ord", "nan", "pinf", "ninf", "nzero", "huge", "sub", "h65504", "gt1", "lt0", "mix", "bits",
            "nanalpha", "onepx", "zero", "max", "flat", "close2", "edge"].contains content
      match fault with
      | none => "bad-case"
      | some fault =>
        if color ≥ 12 ∨ pitch > 4096 ∨ w > 16384 ∨ h > 16384 ∨ !optsOk then "bad-case" else
        let lp : Loop := if pitch = 0 then .contig 512 else .rows 512
        let direct := let o := encode row lp w h fault; s!"{o.res.name} {o.bytes}"
        if path == "d" then direct
        else if path == "e" then
          -- `Encoder::new`: support first, then the layout of the declared (raw) size
          if !row.encodable then direct else
          match layoutOf { width := w, height := h, depth := none, mipmapCount := 1,
                           kind := .dx10 false .tex2D 1 } row.px with
          | none => "panic"
          | some (.error e) => s!"err Layout{errName e} 0"
          | some (.ok _) => direct
        else "bad-case"
    | _, _, _, _, _, _ => "bad-case"
  | ["Q", fmt, r, g, b, a] =>
    match specialOf r, specialOf g, specialOf b, specialOf a with
    | some r, some g, some b, some a =>
      match encodePixel fmt r g b a with
      | some v => s!"px {v}"
      | none => "bad-case"
    | _, _, _, _ => "bad-case"
  | ["S", r, g, b] =>
    -- bit patterns through the bit-level model of `rgb9995f::from_f32`; which zero `f32::max`
    -- returns for `-0.0` against `+0.0` must not reach the encoded word: both extreme choices and
    -- an alternating one are run, a difference would be printed (and disagree with the code)
    match nat? r, nat? g, nat? b with
    | some r, some g, some b =>
      if r ≥ 2 ^ 32 ∨ g ≥ 2 ^ 32 ∨ b ≥ 2 ^ 32 then "bad-case" else
      let v0 := SharedExp.fromF32 (fun _ => false) r g b
      let v1 := SharedExp.fromF32 (fun _ => true) r g b
      let v2 := SharedExp.fromF32 (fun i => i % 2 == 0) r g b
      if v0 != v1 || v0 != v2 then "tie-dependent" else
      match v0 with
      | some v => s!"px {v}"
      | none => "panic"
    | _, _, _ => "bad-case"
  | ["U", fmt, r, g, b, a] =>
    -- bit patterns of an RGBA f32 pixel through the bit-level UNORM / SNORM8 quantisers
    match nat? r, nat? g, nat? b, nat? a with
    | some r, some g, some b, some a =>
      if r ≥ 2 ^ 32 ∨ g ≥ 2 ^ 32 ∨ b ≥ 2 ^ 32 ∨ a ≥ 2 ^ 32 then "bad-case" else
      if !["B5G6R5_UNORM", "B5G5R5A1_UNORM", "B4G4R4A4_UNORM", "A4B4G4R4_UNORM", "R10G10B10A2_UNORM",
           "R8G8B8A8_SNORM"].contains fmt then "bad-case" else
      match QuantBits.encode fmt r g b a with
      | some v => s!"px {v}"
      | none => "panic"
    | _, _, _, _ => "bad-case"
  | ["W", fmt, r, g, b, a] =>
    -- bit patterns of an RGBA f32 pixel through `s16::from_uf32` (software binary64)
    match nat? r, nat? g, nat? b, nat? a with
    | some r, some g, some b, some a =>
      if r ≥ 2 ^ 32 ∨ g ≥ 2 ^ 32 ∨ b ≥ 2 ^ 32 ∨ a ≥ 2 ^ 32 then "bad-case" else
      if !["R16_SNORM", "R16G16_SNORM", "R16G16B16A16_SNORM"].contains fmt then "bad-case" else
      match QuantBits.encode16 fmt r g b a with
      | some v => s!"px {v}"
      | none => "panic"
    | _, _, _, _ => "bad-case"
  | ["T", fmt, r, g, b] =>
    -- a 4x4 block of one colour (bit patterns, alpha 1.0) through the flat-block paths of bc4.rs / bc1.rs
    match nat? r, nat? g, nat? b with
    | some r, some g, some b =>
      if r ≥ 2 ^ 32 ∨ g ≥ 2 ^ 32 ∨ b ≥ 2 ^ 32 then "bad-case" else
      let pr (tag : String) (res : Option (Option (List Nat))) : String :=
        match res with
        | none => "panic"
        | some none => "search"
        | some (some l) => tag ++ String.join (l.map fun x => s!" {x}")
      let bc4 (snorm : Bool) : String :=
        match EncBcSites.bc4Flat snorm r with
        | some none =>
          match EncBcSites.bc4FlatSearch snorm r with
          | none => "panic"
          | some (c0, c1) => s!"pair {min c0 c1} {max c0 c1}"
        | res => pr "blk" res
      if fmt == "BC4_UNORM" then bc4 false
      else if fmt == "BC4_SNORM" then bc4 true
      else if fmt == "BC1_UNORM" then pr "ends" (EncBcSites.bc1Flat r g b)
      else "bad-case"
    | _, _, _ => "bad-case"
  | _ => "bad-case"

end Dds.Drv.C15

namespace Dds.Drv
def runC15 : String → String := C15.runC15
end Dds.Drv
