import DdsModel.FormatTables
import DdsModel.Drv.Util
import DdsModel.Drv.C02
namespace Dds.Drv.C19
open Dds Dds.C19

namespace C19Drv

def fmtColor (c : ColorFormat) : String :=
  let ch := match c.channels with
    | .gray => "Gray" | .alpha => "Alpha" | .rgb => "Rgb" | .rgba => "Rgba"
  let p := match c.precision with
    | .u8 => "U8" | .u16 => "U16" | .f32 => "F32"
  s!"{ch}/{p}"

def fmtDith (d : Dithering) : String :=
  match d.color, d.alpha with
  | false, false => "N"
  | true, false => "C"
  | false, true => "A"
  | true, true => "CA"

def fmtSupport : Option Support → String
  | none => "none"
  | some s =>
    let sh := match s.splitHeight with | some n => toString n | none => "-"
    let sm := match s.sizeMultiple with | some (a, b) => s!"{a}x{b}" | none => "-"
    let ld := if s.localDithering then "1" else "0"
    s!"d={fmtDith s.dithering},sh={sh},ld={ld},sm={sm}"

def fmtErr : FmtErr → String
  | .dxgi => "dxgi" | .fourCC => "fourcc" | .mask => "mask"

def fmtPxP : Option PixelInfo → String
  | some p => fmtPx p
  | none => "panic"

/-- the metadata printed for a detected / listed format: everything from the code-shaped
definitions (`formatPixelInfoP`, `bitsPerPixel`, `encodingSupport`), the colour from the pinned row -/
def fmtMeta (f : Dds.C19.Format) : String :=
  let bpp := match formatPixelInfoP f with | some p => toString (bitsPerPixel p) | none => "panic"
  s!"FP:{fmtPxP (formatPixelInfoP f)} C:{fmtColor f.row.color} B:{bpp} S:{fmtSupport (encodingSupport f)}"

def parseHdr : List String → Option (Except String Hdr)
  | ["x", code, alpha, dim, _misc] => do
    let code ← nat? code
    let alpha ← nat? alpha
    let dim ← nat? dim
    let _ ← nat? _misc
    if alpha ≥ 5 ∨ dim < 2 ∨ dim > 4 then none
    else if dxgiValid code then some (.ok (.dx10 code alpha)) else some (.error "invalid-dxgi")
  | ["f", cc] => do some (.ok (.fourCC (← nat? cc)))
  | ["m", fl, bc, r, g, b, a] => do
    let pf : MaskPF := ⟨← nat? fl, ← nat? bc, ← nat? r, ← nat? g, ← nat? b, ← nat? a⟩
    if bitCountValid pf.bitCount then some (.ok (.mask pf)) else some (.error "invalid-bitcount")
  | _ => none

def runHeader (t : List String) : String :=
  match parseHdr t with
  | none => "bad-case"
  | some (.error e) => e
  | some (.ok h) =>
    let f := formatOfHeader h
    let fs := match f with | .ok f => s!"F:{f.name}" | .error e => s!"F:E:{fmtErr e}"
    let ps := match pixelInfoOfHeaderP h with
      | none => "P:panic"
      | some (.ok p) => s!"P:{fmtPx p}"
      | some (.error e) => s!"P:E:{fmtErr e}"
    match f with
    | .ok f => s!"{fs} {ps} {fmtMeta f}"
    | .error _ => s!"{fs} {ps}"

def optNat : Option Nat → String
  | some n => toString n
  | none => "-"

def runMeta (t : List String) : String :=
  match t with
  | [i] =>
    match (nat? i).bind (Dds.C19.Format.all[·]?) with
    | none => "bad-case"
    | some f =>
      let k := match formatToMask f with
        | some m => s!"{m.flags},{m.bitCount},{m.r},{m.g},{m.b},{m.a}"
        | none => "-"
      s!"M:{f.name} {fmtMeta f} X:{optNat f.row.dxgi} 4:{optNat f.row.fourCC} K:{k}"
  | _ => "bad-case"

def getFormat (s : String) : Option Dds.C19.Format := (nat? s).bind (Dds.C19.Format.all[·]?)
def getColor (s : String) : Option ColorFormat := (nat? s).bind (ColorFormat.all[·]?)

def surfBytes (f : Dds.C19.Format) (w h : Nat) : Option Nat :=
  (formatPixelInfoP f).bind (·.surfaceBytes w h)

def runDecode (t : List String) : String :=
  match t with
  | [f, w, h, seed] =>
    match getFormat f, nat? w, nat? h, nat? seed with
    | some f, some w, some h, some _ =>
      if w = 0 ∨ h = 0 ∨ w > 4096 ∨ h > 4096 then "bad-case" else
      match surfBytes f w h with
      | some n => s!"ok {n}"
      | none => "bad-case"
    | _, _, _, _ => "bad-case"
  | _ => "bad-case"

/-- `R <fmt> <W> <H> <x> <y> <w> <h> <seed>`: a rectangle decode (`decode_rect`, mod.rs) of a rectangle inside the
surface consumes the advertised bytes of the whole surface; otherwise `RectOutOfBounds`. -/
def runRect (t : List String) : String :=
  match t with
  | [f, sw, sh, x, y, w, h, seed] =>
    match getFormat f, natsOf [sw, sh, x, y, w, h, seed] with
    | some f, some [sw, sh, x, y, w, h, _] =>
      if sw = 0 ∨ sh = 0 ∨ sw > 4096 ∨ sh > 4096 ∨ w > 4096 ∨ h > 4096 then "bad-case" else
      if x ≥ 2^32 ∨ y ≥ 2^32 then "bad-case" else
      match surfBytes f sw sh with
      | some n => if x + w ≤ sw ∧ y + h ≤ sh then s!"ok {n}" else "err RectOutOfBounds"
      | none => "bad-case"
    | _, _ => "bad-case"
  | _ => "bad-case"

def runEncode (t : List String) : String :=
  match t with
  | [f, w, h, c, par, seed] =>
    match getFormat f, nat? w, nat? h, getColor c, nat? par, nat? seed with
    | some f, some w, some h, some c, some _, some _ =>
      if w = 0 ∨ h = 0 ∨ w > 4096 ∨ h > 4096 then "bad-case" else
      match encoderSet f with
      | none => "err UnsupportedFormat"
      | some s =>
        match s.pick c Dithering.none with
        | none => "panic"
        | some _ =>
          if s.support.supportsSize w h then
            match surfBytes f w h with
            | some n => s!"ok {n}"
            | none => "panic"
          else
            match s.support.sizeMultiple with
            | some (a, b) => s!"err InvalidSize:{a}x{b}"
            | none => "panic"
    | _, _, _, _, _, _ => "bad-case"
  | _ => "bad-case"

/-- `1` = the model demands byte equality, `?` = no prediction -/
def must (b : Bool) : String := if b then "1" else "?"

/-- the optional sixth token is the compression quality (0..3): no prediction of the model depends on it -/
def runDither (t : List String) : String :=
  let t5 : Option (List String) := match t with
    | [f, w, h, c, seed] => some [f, w, h, c, seed]
    | [f, w, h, c, seed, q] => if (nat? q).any (· < 4) then some [f, w, h, c, seed] else none
    | _ => none
  match t5.getD [] with
  | [f, w, h, c, seed] =>
    match getFormat f, nat? w, nat? h, getColor c, nat? seed with
    | some f, some w, some h, some c, some _ =>
      if w = 0 ∨ h = 0 ∨ w > 256 ∨ h > 256 then "bad-case" else
      match encoderSet f with
      | none => "unsupported"
      | some s =>
        if !s.support.supportsSize w h then "unsupported-size" else
        let eff := fun (d : Dithering) => effectiveDithering f c d
        let eN := eff ⟨false, false⟩
        let eC := eff ⟨true, false⟩
        let eA := eff ⟨false, true⟩
        let eCA := eff ⟨true, true⟩
        if eN.isNone ∨ eC.isNone ∨ eA.isNone ∨ eCA.isNone then "panic" else
        -- two options give the same bytes when the same channel groups are effectively dithered
        let same := fun (a b : Option Dithering) => must (a == b)
        let ind := alphaIndependent f
        -- stored alpha under N vs C: equal when colour-only dithering has no effective alpha part
        let aNC := if ind then must ((eC.map (·.alpha)) == some false && (eN.map (·.alpha)) == some false) else "-"
        let cNA := if ind then must ((eA.map (·.color)) == some false && (eN.map (·.color)) == some false) else "-"
        s!"adv={fmtDith s.support.dithering} C={same eN eC} A={same eN eA} CA={same eN eCA} CA~C={same eCA eC} CA~A={same eCA eA} aNC={aNC} cNA={cNA}"
    | _, _, _, _, _ => "bad-case"
  | _ => "bad-case"

/-- canary: `1` = the chosen path dithers nothing, so the bytes equal those of `Dithering::None`;
`0` = some group is effectively dithered (on the canary image this is visible in the bytes) -/
def runCanary (t : List String) : String :=
  match t with
  | [f, c] =>
    match getFormat f, getColor c with
    | some f, some c =>
      match encoderSet f with
      | none => "unsupported"
      | some s =>
        if !s.support.supportsSize 48 8 then "unsupported-size" else
        let tok := fun (d : Dithering) =>
          match effectiveDithering f c d with
          | none => "panic"
          | some e => if e == Dithering.none then "1" else "0"
        s!"C={tok ⟨true, false⟩} A={tok ⟨false, true⟩} CA={tok ⟨true, true⟩}"
    | _, _ => "bad-case"
  | _ => "bad-case"

end C19Drv

def runC19 (line : String) : String :=
  match toks line with
  | "H" :: rest => C19Drv.runHeader rest
  | "M" :: rest => C19Drv.runMeta rest
  | "D" :: rest => C19Drv.runDecode rest
  | "R" :: rest => C19Drv.runRect rest
  | "E" :: rest => C19Drv.runEncode rest
  | "T" :: rest => C19Drv.runDither rest
  | "G" :: rest => C19Drv.runCanary rest
  | _ => "bad-case"

end Dds.Drv.C19

namespace Dds.Drv
def runC19 : String → String := C19.runC19
end Dds.Drv
