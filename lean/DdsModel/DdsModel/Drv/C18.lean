import DdsModel.Drv.C09
namespace Dds.Drv.C18
open Dds.Drv.C09
open Dds

def parseDefect (s : String) : Option Defect :=
  match splitColon s with
  | ["A", a] => do some (.arraySize (← u32? a))
  | ["M", m] => do some (.mipCount (← u32? m))
  | ["DM"] => some .dropMipFlags
  | ["H24"] => some .headerSize24
  | ["PS", n] => do some (.pfSize (← u32? n))
  | ["PF", f] => do some (.pfFlags (← u32? f))
  | ["A2", v] => do some (.miscFlags2 (← u32? v))
  | _ => none

def fmtRes : Except HeaderErr (Header × List Nat) → String
  | .ok (h, _) => fmtHeader h
  | .error e => fmtErr e

def three (ws : List Nat) (fl : Option Nat) : String :=
  let s := Header.read pixelInfoOf ParseOptions.strict ws
  let p := Header.read pixelInfoOf (ParseOptions.newPermissive none) ws
  let f := Header.read pixelInfoOf (ParseOptions.newPermissive fl) ws
  let bad := [s, p, f].any fun r => match r with | .ok (h, _) => layoutPanics h | .error _ => false
  if bad then "panic" else
  let lf := match f with | .ok (h, _) => dataLenOf h | .error _ => none
  -- the same file offered without its magic word, `skip_magic_bytes = true`, same file_len
  let g : String := match ws with
    | m :: rest =>
      if m = MAGIC_WORD then
        fmtRes (Header.read pixelInfoOf { ParseOptions.newPermissive fl with skipMagicBytes := true } rest)
      else "-"
    | [] => "-"
  s!"s={fmtRes s} p={fmtRes p} f={fmtRes f} lf={fmtOptNat lf} g={g}"

def u64? (s : String) : Option Nat := do
  let n ← nat? s
  if n < U64 then some n else none

def runD (t : List String) : String :=
  match t with
  | hs :: flm :: dsS =>
    match parseHeaderTok hs, dsS.mapM parseDefect with
    | some h, some ds =>
      let raw := Defect.applyAll ds (h.toRaw pixelInfoOf)
      let ws := MAGIC_WORD :: raw.write
      let l := dataLenOf h
      let tl := match l with
        | some l => if l + (4 + h.byteLen) < U64 then some (l + (4 + h.byteLen)) else none
        | none => none
      let fl? : Option (Option Nat) := match flm with
        | "n" => some none
        | "e" => some tl
        | "+" => some (match tl with | some x => if x + 1 < U64 then some (x + 1) else none | none => none)
        | "-" => some (match tl with | some x => if x ≥ 1 then some (x - 1) else none | none => none)
        | x => (u64? x).map some
      match fl? with
      | none => "bad-case"
      | some fl =>
        if layoutPanics h then "panic" else
        s!"{three ws fl} L={fmtOptNat l}"
    | _, _ => "bad-case"
  | _ => "bad-case"

def runR (t : List String) : String :=
  match t with
  | fls :: wsS =>
    let fl? : Option (Option Nat) := if fls == "n" then some none else (u64? fls).map some
    match fl?, wsS.mapM u32? with
    | some fl, some ws => three ws fl
    | _, _ => "bad-case"
  | _ => "bad-case"

def runC18 (line : String) : String :=
  match toks line with
  | "D" :: t => runD t
  | "R" :: t => runR t
  | _ => "bad-case"

end Dds.Drv.C18

namespace Dds.Drv
def runC18 : String → String := C18.runC18
end Dds.Drv
