import DdsModel.View
import DdsModel.Drv.Util
namespace Dds.Drv
open Dds

def colorBpp (i : Nat) : Option Nat := [1, 1, 3, 4, 2, 2, 6, 8, 4, 4, 12, 16][i]?

def fmtRows (base : Nat) (rows : List (Nat × Nat)) : String :=
  let n := rows.length
  let idxs : List Nat := if n ≤ 8 then List.range n else [0, 1, 2, n - 2, n - 1]
  let f (i : Nat) : String := match rows[i]? with
    | some (a, b) => s!"{base + a}:{b - a}"
    | none => "?"
  s!"{n};" ++ ",".intercalate (idxs.map f)

def fmtView (shared : Bool) (v : View) : String :=
  let rows := if shared then v.rowsP else v.rowsMutP
  match rows with
  | none => "panic"
  | some r =>
    let base := if v.len = 0 then "-" else toString v.base
    s!"some {v.w} {v.h} {v.pitch} {v.len} {base} {fmtRows v.base r}"

def runC20 (line : String) : String :=
  match toks line with
  | ["N", k, len, w, h, c] =>
    match nat? len, nat? w, nat? h, (nat? c).bind colorBpp with
    | some len, some w, some h, some bpp =>
      match View.new len w h bpp with
      | none => "none"
      | some v => fmtView (k == "s") v
    | _, _, _, _ => "bad-case"
  | ["W", k, len, pitch, w, h, c] =>
    match nat? len, nat? pitch, nat? w, nat? h, (nat? c).bind colorBpp with
    | some len, some pitch, some w, some h, some bpp =>
      match View.newWith len pitch w h bpp with
      | none => "none"
      | some v => fmtView (k == "s") v
    | _, _, _, _, _ => "bad-case"
  | ["C", k, len, pitch, w, h, c, ox, oy, cw, ch] =>
    match nat? len, nat? pitch, nat? w, nat? h, (nat? c).bind colorBpp,
          nat? ox, nat? oy, nat? cw, nat? ch with
    | some len, some pitch, some w, some h, some bpp, some ox, some oy, some cw, some ch =>
      match View.newWith len pitch w h bpp with
      | none => "none"
      | some v =>
        match v.croppedP ox oy cw ch with
        | none => "panic"
        | some c => fmtView (k == "s") c
    | _, _, _, _, _, _, _, _, _ => "bad-case"
  | ["D", k, len, pitch, w, h, c, ox, oy, cw, ch, ox2, oy2, cw2, ch2] =>
    match nat? len, nat? pitch, nat? w, nat? h, (nat? c).bind colorBpp,
          [ox, oy, cw, ch, ox2, oy2, cw2, ch2].mapM nat? with
    | some len, some pitch, some w, some h, some bpp, some [ox, oy, cw, ch, ox2, oy2, cw2, ch2] =>
      match View.newWith len pitch w h bpp with
      | none => "none"
      | some v =>
        match (v.croppedP ox oy cw ch).bind (fun c1 => c1.croppedP ox2 oy2 cw2 ch2) with
        | none => "panic"
        | some c => fmtView (k == "s") c
    | _, _, _, _, _, _ => "bad-case"
  | _ => "bad-case"

end Dds.Drv
