import DdsModel.Enc13
import DdsModel.Enc7
import DdsModel.EncBc15
import DdsModel.Drv.Util
/-!
Driver section of C13.  Case line (see harness/src/c13.rs):
`<class> <fmt> <q> <m> <d> <w> <h> <inprec> <inhex> <wit> <ok3> <blocks>`.
For every block of `<blocks>` (the blocks `dds::encode` emitted): mode digits, `Enc13.Portable`, and a hash of
the 16 pixels decoded at 8 bit by the PROVED decoder models (`Bc.decodeBlock`, `Bc7.decodeBlock`; C03, C03x).
For RGBA8 inputs additionally the bytes predicted by the discrete encoder model (`Enc13.predictBlock`) and, for BC7
without dithering, the header fields read back from each block with `Enc13.bc7Fields` together with the constraint
`Enc13.bc7Rule` the discrete rules put on them.
BC7 additionally (`Enc7.lean`): `w7` = every emitted block parsed into the arguments of `Compressed::modeN` (positional
reads of `Bc7Spec`) and written again with `Enc7.write` (hash of the 16 bytes); `cl7` = for RGBA8 inputs without
dithering, blocks that are not single-coloured and lie fully inside the image: the block `Enc7.emit` builds from the
emitted endpoints / p-bits / partition / rotation / selector and the ORIGINAL pixels (`closest_*` + `merge` + writer), in
the orientation of the endpoint pairs that reproduces the emitted block if there is one.
Further case kinds (direct tie through `dds::verif_hook`, only generated when the hook exists):
`w7h <mode> <part> <rot> <sel> <endpoints> <alpha> <pbits> <indexes> <indexes2>` → hex of `Enc7.write`;
`cl7h <kind> <I> <e0> <e1> <pixels>` → `closest_rgb / rgba / alpha`: index list and error;
`w7e <W> <weights>` → the encoder's weight table re-parsed from src/encode/bc7.rs against `Enc7.WEIGHTS_W`.
BC1–BC5 additionally (`EncBc15.lean`): `w15` = every emitted block parsed with the decoder-side readers and written again
with the model's constructors and writers (hash of the bytes); `cl15` = for RGBA8 inputs and blocks fully inside the image
the halves re-derived from their own endpoints and the original pixels (`Enc15.emitColourF32`, `emitBc4`, `singleColor`).
-/
namespace Dds.Drv.C13
open Dds Dds.Drv Dds.Bc Dds.Enc13

def fmtOfName (s : String) : Option (Fmt × Nat) :=
  match s with
  | "bc1" => some (.bc1, 8)
  | "bc2" => some (.bc2, 16)
  | "bc2p" => some (.bc2p, 16)
  | "bc3" => some (.bc3, 16)
  | "bc3p" => some (.bc3p, 16)
  | "rxgb" => some (.rxgb, 16)
  | "bc3n" => some (.bc3n, 16)
  | "bc4u" => some (.bc4u, 8)
  | "bc4s" => some (.bc4s, 8)
  | "bc5u" => some (.bc5u, 16)
  | "bc5s" => some (.bc5s, 16)
  | _ => none

def hexVal (c : Char) : Option Nat :=
  if '0' ≤ c ∧ c ≤ '9' then some (c.toNat - 48)
  else if 'a' ≤ c ∧ c ≤ 'f' then some (c.toNat - 87)
  else none

def hexBytes : List Char → Option (List Nat)
  | [] => some []
  | a :: b :: rest => do
    let x ← hexVal a
    let y ← hexVal b
    let r ← hexBytes rest
    some ((x * 16 + y) :: r)
  | _ => none

/-- same mixing function as `hash_block` in harness/src/c13.rs -/
def hashVals (vals : List Nat) : UInt32 :=
  vals.foldl (fun h v =>
    let h := (h ^^^ v.toUInt32) * 16777619
    h ^^^ (h >>> 15)) 0x811C9DC5

def hex8 (h : UInt32) : String :=
  let d := Nat.toDigits 16 h.toNat
  String.ofList (List.replicate (8 - d.length) '0' ++ d)

def c13Fmt (s : String) : Option (Option Fmt × Nat) :=
  if s = "bc7" then some (none, 16)
  else (fmtOfName s).map fun fb => (some fb.1, fb.2)

def c13Quality (s : String) : Option Quality :=
  match s with
  | "F" => some .fast
  | "N" => some .normal
  | "H" => some .high
  | "U" => some .unreasonable
  | _ => none

def colourShape (blk : Nat → Nat) (o : Nat) : Nat :=
  let c0 := le16 blk o
  let c1 := le16 blk (o + 2)
  let uses3 := (List.range 16).any fun p => colourIndex blk o p == 3
  (if c0 > c1 then 1 else 0) + (if uses3 then 2 else 0) + (if c0 = c1 then 4 else 0)

def bc4Shape (blk : Nat → Nat) (o : Nat) (signed : Bool) : Nat :=
  let e0 := blk o
  let e1 := blk (o + 1)
  let six := if signed then decide (asI8 e0 > asI8 e1) else decide (e0 > e1)
  let uses67 := (List.range 16).any fun p => bc4Index (fun i => blk (o + i)) p ≥ 6
  (if six then 1 else 0) + (if uses67 then 2 else 0) + (if e0 = e1 then 4 else 0)

def c13Shape (f : Option Fmt) (blk : Nat → Nat) : String :=
  match f with
  | none => toString (Bc7.trailingZeros8 (blk 0))
  | some .bc1 => toString (colourShape blk 0)
  | some .bc2 | some .bc2p => toString (colourShape blk 8)
  | some .bc4u => toString (bc4Shape blk 0 false)
  | some .bc4s => toString (bc4Shape blk 0 true)
  | some .bc5u => toString (bc4Shape blk 0 false) ++ toString (bc4Shape blk 8 false)
  | some .bc5s => toString (bc4Shape blk 0 true) ++ toString (bc4Shape blk 8 true)
  | some _ => toString (colourShape blk 8) ++ toString (bc4Shape blk 0 false)

/-- `u128::from_le_bytes` -/
def blockNat (blk : Nat → Nat) : Nat := (List.range 16).foldl (fun acc i => acc + blk i * 256 ^ i) 0

def c13Decode (f : Option Fmt) (blk : Nat → Nat) : List Nat :=
  match f with
  | none => (Bc7.decodeBlock (blockNat blk)).flatten
  | some f => (Bc.decodeBlock f .u8 blk).flatten

def hex2 (v : Nat) : String :=
  let d := Nat.toDigits 16 (v % 256)
  String.ofList (List.replicate (2 - d.length) '0' ++ d)

def predString (pieces : List (Nat × List Nat)) : String :=
  ",".intercalate (pieces.map fun p => toString p.1 ++ ":" ++ String.join (p.2.map hex2))

/-- `mode.partition.rotation.selector.pbits.alpha-fields` as `bc7_obs` in harness/src/c13.rs prints it -/
def obsString (f : Option Bc7Fields) : String :=
  match f with
  | none => "8"
  | some f =>
    let pb := if f.pbits.isEmpty then "_" else String.join (f.pbits.map toString)
    let al := if f.alpha.isEmpty then "_" else ",".intercalate (f.alpha.map toString)
    s!"{f.mode}.{f.part}.{f.rot}.{f.sel}.{pb}.{al}"

/-- `modes.rotations.selector.pbits.alpha`: digits of the admissible modes / rotations, `*` = unconstrained,
p-bits `1`/`0` = forced, `x` = free, alpha = the unordered pair `lo,hi` -/
def ruleString (r : Bc7Rule) : String :=
  let digits (l : List Nat) : String := String.join (l.map toString)
  let rots := match r.rots with | some l => (if l.isEmpty then "!" else digits l) | none => "*"
  let sel := match r.sel with | some s => toString s | none => "*"
  let pb := if r.pbits.isEmpty then "_" else String.join (r.pbits.map fun o => match o with | some v => toString v | none => "x")
  let al := match r.alpha with | some (lo, hi) => s!"{lo},{hi}" | none => "*"
  s!"{if r.modes.isEmpty then "!" else digits r.modes}.{rots}.{sel}.{pb}.{al}"

/-- BC2 explicit alpha of a partial block: the nibbles of positions outside the image are blanked on both sides of the
tie (which pixel the padding repeats is outside the property; `Enc13.blockSrc` still says what the code does) -/
def maskOutside (f : Option Fmt) (inside : List Bool) (pieces : List (Nat × List Nat)) : List (Nat × List Nat) :=
  if f = some .bc2 ∨ f = some .bc2p then
    pieces.map fun pc =>
      if pc.1 = 0 then
        (0, (List.range pc.2.length).map fun k =>
          let v := pc.2.getD k 0
          (if inside.getD (2 * k) false then v % 16 else 0) + (if inside.getD (2 * k + 1) false then v / 16 * 16 else 0))
      else pc
  else pieces


/-! ### BC1–BC5 encoder core (`EncBc15.lean`): tokens `w15`, `cl15` -/

/-- decoder-side reader of the colour half at byte offset `o`: the two 5:6:5 colours (`B565.fromU16` of the
little-endian words) -/
def colourEnds (blk : Nat → Nat) (o : Nat) : C565 × C565 :=
  let c0 := B565.fromU16 (le16 blk o)
  let c1 := B565.fromU16 (le16 blk (o + 2))
  (⟨c0.r5, c0.g6, c0.b5⟩, ⟨c1.r5, c1.g6, c1.b5⟩)

/-- the palette mode a written colour half is decoded with as BC1 -/
def modeOfOrder (blk : Nat → Nat) (o : Nat) : Enc15.PaletteMode := if le16 blk o > le16 blk (o + 2) then .p4 else .p3

/-- `w15`, colour half: endpoints and indexes read back with the decoder-side readers, written again with
`Enc15.emitColour` (constructor of the mode + index list + `with_indexes`).  BC1: the mode the order selects, alpha map =
the pixels whose index is not 3 (three-colour mode); BC2 / BC3 family: always `compress_p4` on the all-opaque map. -/
def rewriteColour (bc1 : Bool) (blk : Nat → Nat) (o : Nat) : Option (List Nat) :=
  let e := colourEnds blk o
  let mode := if bc1 then modeOfOrder blk o else .p4
  let amap := if mode = .p3 then
      (List.range 16).foldl (fun m p => Enc15.setOpaqueIf m p (colourIndex blk o p != 3)) 0
    else ALL_OPAQUE
  Enc15.emitColour mode e.1 e.2 amap fun p => colourIndex blk o p

/-- `w15`, BC4-type half: the endpoint bytes as levels, re-created by the constructor whose order they show
(`new_inter6` / `new_inter4` / equal levels: `new_closest`), sixteen `set`s, `with_indexes` -/
def rewriteBc4 (snorm : Bool) (blk : Nat → Nat) (o : Nat) : Option (List Nat) :=
  let l0 := Enc15.levelOfByte snorm (blk o)
  let l1 := Enc15.levelOfByte snorm (blk (o + 1))
  let e := if l0 > l1 then Enc15.newInter6 snorm l1 l0 l1 l0
    else if l0 < l1 then Enc15.newInter4 snorm l0 l1 l0 l1
    else Enc15.newClosest snorm l0
  (Enc15.idxFill 3 U64 fun p => some (bc4Index (fun i => blk (o + i)) p)).map (Enc15.withIndexes4 e.c0 e.c1)

/-- `w15`, BC2 explicit alpha: the sixteen nibbles the decoder reads, written again by `bc2_alpha` (as alphas `17·n`) -/
def rewriteBc2Alpha (blk : Nat → Nat) : List Nat := bc2AlphaBlock ((List.range 16).map fun p => bc2Alpha blk p)

def optCat (a b : Option (List Nat)) : Option (List Nat) := a.bind fun x => b.map fun y => Enc15.concatBlocks x y

def rewriteBlock (f : Fmt) (blk : Nat → Nat) : Option (List Nat) :=
  match f with
  | .bc1 => rewriteColour true blk 0
  | .bc2 | .bc2p => optCat (some (rewriteBc2Alpha blk)) (rewriteColour false blk 8)
  | .bc3 | .bc3p | .rxgb | .bc3n => optCat (rewriteBc4 false blk 0) (rewriteColour false blk 8)
  | .bc4u => rewriteBc4 false blk 0
  | .bc4s => rewriteBc4 true blk 0
  | .bc5u => optCat (rewriteBc4 false blk 0) (rewriteBc4 false blk 8)
  | .bc5s => optCat (rewriteBc4 true blk 0) (rewriteBc4 true blk 8)
  | _ => none

def hashBytes (o : Option (List Nat)) : String :=
  match o with
  | some l => hex8 (hashVals l)
  | none => "!!!!!!!!"

def ditheringOf (d : String) : Enc15.Dithering :=
  if d = "C" then .color else if d = "A" then .alpha else if d = "B" then .colorAndAlpha else .none

/-- `cl15`, colour half: the block `Enc15.emitColourF32` builds from the endpoints the emitted half shows and the
ORIGINAL pixels — `create_endpoints` of the mode, the encoder's binary32 palette, `closest` per opaque pixel,
`transparent_index` elsewhere, `with_indexes`.  The mode is what `compress_bc1_block` / `compress` allow
(`Enc13.choice`): the constant `TRANSPARENT_BLOCK`, P3 only, P4 only, or the better of both (then: the emitted one). -/
def reColour (f : Fmt) (o1 : Enc15.Bc1Options) (blk : Nat → Nat) (o : Nat) (px : List Px) : Option (List Nat) :=
  let e := colourEnds blk o
  let cols := px.map (Enc15.colourInput f)
  match choice o1.noP3Default o1.opaqueAlwaysP4 (px.map (·.a)) with
  | .transparentBlock => some TRANSPARENT_BLOCK
  | .p3 => Enc15.emitColourF32 .p3 e.1 e.2 (alphaMap (px.map (·.a))) cols
  | .p4 => Enc15.emitColourF32 .p4 e.1 e.2 ALL_OPAQUE cols
  | .best => Enc15.emitColourF32 (modeOfOrder blk o) e.1 e.2 ALL_OPAQUE cols

/-- `cl15`, BC4-type half: sixteen equal values outside the reference path → the whole block of `single_color`;
else the endpoint bytes the emitted half shows, the palette of their order, `block_closest` -/
def reBc4 (o4 : Enc15.Bc4Options) (blk : Nat → Nat) (o : Nat) (vals : List Nat) : Option (List Nat) :=
  let pix := vals.map fun v => CF32.fclamp (Conv.n8f32 v) 0 CF32.one
  match vals with
  | v :: rest =>
    if rest.all (· == v) ∧ ¬ Enc15.usesBruteForce o4 then Enc15.singleColor o4.snorm (Enc15.singleValue (Conv.n8f32 v))
    else Enc15.emitBc4 o4.snorm (blk o) (blk (o + 1)) pix
  | [] => none

/-- the halves of one block for `cl15`: `-` where nothing is asserted (see `bc15_halves` in harness/src/c13.rs: the
switches come from the MODEL's option plumbing `fmtBc1Options` / `fmtBc4Options`) -/
def cl15Block (f : Fmt) (q : Quality) (d : Enc15.Dithering) (perceptual : Bool) (blk : Nat → Nat) (px : List Px) : String :=
  let colour (o : Nat) : String :=
    match Enc15.fmtBc1Options f q d perceptual with
    | some o1 =>
      if o1.dither ∨ o1.perceptual ∨ (f = .bc1 ∧ d.hasAlpha) then "-" else hashBytes (reColour f o1 blk o px)
    | none => "-"
  let bc4 (o : Nat) : String :=
    match Enc15.fmtBc4Options f q d perceptual, Enc15.bc4Channel f o with
    | some o4, some c => if o4.dither then "-" else hashBytes (reBc4 o4 blk o (px.map (·.chan c)))
    | _, _ => "-"
  match f with
  | .bc1 => colour 0
  | .bc2 | .bc2p => "-." ++ colour 8
  | .bc3 | .bc3p | .rxgb | .bc3n => bc4 0 ++ "." ++ colour 8
  | .bc4u | .bc4s => bc4 0
  | .bc5u | .bc5s => bc4 0 ++ "." ++ bc4 8
  | _ => "-"

/-! ### BC7: the arguments of `Compressed::modeN` read back from a block (positional reads of `Bc7Spec`) -/

def fieldsOfBlock (b : Nat) : Option Enc7.Fields :=
  let m := Bc7Spec.modeOf b
  match Bc7Spec.modes[m]? with
  | none => none
  | some r =>
    let ne := 2 * r.subsets
    let part := Bc7Spec.rd b (m + 1) r.partBits
    let joint := m = 6 ∨ m = 7
    let eps := (List.range ne).map fun e =>
      ((List.range 3).map fun c => Bc7Spec.rd b (Bc7Spec.colorStart m r + (c * ne + e) * r.colorBits) r.colorBits) ++
      (if joint then [Bc7Spec.rd b (Bc7Spec.alphaStart m r + e * r.alphaBits) r.alphaBits] else [])
    let alpha := if m = 4 ∨ m = 5 then
        (List.range 2).map fun e => Bc7Spec.rd b (Bc7Spec.alphaStart m r + e * r.alphaBits) r.alphaBits
      else []
    some {
      mode := m
      partition := part
      rotation := Bc7Spec.rd b (m + 1 + r.partBits) r.rotBits
      indexMode := Bc7Spec.rd b (m + 1 + r.partBits + r.rotBits) r.selBits
      endpoints := eps
      alpha := alpha
      pBits := (List.range (Bc7Spec.pBitCount r)).map fun i => Bc7Spec.rd b (Bc7Spec.pStart m r + i) 1
      indexes := Enc7.ofList r.idxBits ((List.range 16).map fun i => Bc7Spec.index1 m r b part i)
      indexes2 := if r.idx2Bits = 0 then 0 else Enc7.ofList r.idx2Bits ((List.range 16).map fun i => Bc7Spec.index2 m r b i) }

def swapAt {α : Type} (l : List α) (k : Nat) (d : α) : List α :=
  (List.range l.length).map fun i => if i = 2 * k then l.getD (2 * k + 1) d else if i = 2 * k + 1 then l.getD (2 * k) d else l.getD i d

/-- the arguments `Compressed::modeN` may have received when the emitted block shows `f`: for every endpoint pair either
the emitted order or the exchanged one (with its p-bits, where they are per endpoint) -/
def orientations (f : Enc7.Fields) : List Enc7.Fields :=
  let flags (n : Nat) : List (List Bool) :=
    (List.range (2 ^ n)).map fun v => (List.range n).map fun k => (v / 2 ^ k) % 2 = 1
  let perEndpointP := f.mode = 0 ∨ f.mode = 3 ∨ f.mode = 6 ∨ f.mode = 7
  if f.mode = 4 ∨ f.mode = 5 then
    (flags 2).map fun fl =>
      { f with endpoints := if fl.getD 0 false then swapAt f.endpoints 0 [] else f.endpoints,
               alpha := if fl.getD 1 false then swapAt f.alpha 0 0 else f.alpha }
  else
    let n := f.endpoints.length / 2
    (flags n).map fun fl =>
      (List.range n).foldl (fun g k =>
        if fl.getD k false then
          { g with endpoints := swapAt g.endpoints k [], pBits := if perEndpointP then swapAt g.pBits k 0 else g.pBits }
        else g) f

/-- the block `Enc7.emit` predicts from the emitted parameters and the original pixels, in the orientation that
reproduces `b` if there is one (else in the emitted orientation) -/
def reEmit (b : Nat) (pixels : List (List Nat)) : Option Nat :=
  (fieldsOfBlock b).map fun f =>
    let cands := (orientations f).map fun g => Enc7.emit g pixels
    if cands.contains b then b else cands.getD 0 0

def hashBlockNat (v : Nat) : String := hex8 (hashVals (le128Bytes v))

def natList? (s : String) : Option (List Nat) :=
  if s = "-" then some [] else (s.splitOn ",").mapM nat?

def hexOfNat128 (v : Nat) : String := String.join ((le128Bytes v).map hex2)

/-- `w7h`: direct tie of the writers through `dds::verif_hook::bc7_write` -/
def runW7h (t : List String) : String :=
  match t with
  | [mode, part, rot, sel, eps, al, pb, ix, ix2] =>
    match nat? mode, nat? part, nat? rot, nat? sel, natList? eps, natList? al, natList? pb, natList? ix, natList? ix2 with
    | some mode, some part, some rot, some sel, some eps, some al, some pb, some ix, some ix2 =>
      let sh := Enc7.modeShape mode
      let nch := if mode = 6 ∨ mode = 7 then 4 else 3
      let f : Enc7.Fields := {
        mode := mode, partition := part, rotation := rot, indexMode := sel
        endpoints := (List.range sh.1).map fun e => (List.range nch).map fun c => eps.getD (e * nch + c) 0
        alpha := al, pBits := pb
        indexes := Enc7.ofList sh.2.2.2.2.1 ix
        indexes2 := if sh.2.2.2.2.2.1 = 0 then 0 else Enc7.ofList sh.2.2.2.2.2.1 ix2 }
      if mode ≥ 8 ∨ eps.length ≠ sh.1 * nch ∨ ix.length ≠ 16 ∨ ix2.length ≠ (if sh.2.2.2.2.2.1 = 0 then 0 else 16)
          ∨ pb.length ≠ sh.2.2.2.1 ∨ al.length ≠ (if mode = 4 ∨ mode = 5 then 2 else 0) then "bad-case"
      else if decide f.WF ∧ ix.all (· < 2 ^ sh.2.2.2.2.1) ∧ ix2.all (· < 2 ^ sh.2.2.2.2.2.1) then "ok " ++ hexOfNat128 (Enc7.write f)
      else "bad-case"
    | _, _, _, _, _, _, _, _, _ => "bad-case"
  | _ => "bad-case"

/-- `cl7h`: direct tie of `closest_*` -/
def runCl7h (t : List String) : String :=
  match t with
  | [kind, I, e0, e1, pixels] =>
    match nat? I, natList? e0, natList? e1, natList? pixels with
    | some I, some e0, some e1, some pixels =>
      let nch := if kind = "rgb" then 3 else if kind = "rgba" then 4 else if kind = "alpha" then 1 else 0
      let okI := (kind = "rgb" ∧ (I = 2 ∨ I = 3)) ∨ (kind = "rgba" ∧ (I = 2 ∨ I = 4)) ∨ (kind = "alpha" ∧ (I = 2 ∨ I = 3))
      if nch = 0 ∨ ¬ okI ∨ e0.length ≠ nch ∨ e1.length ≠ nch ∨ pixels.length % nch ≠ 0 ∨ pixels.length / nch > 16
          ∨ pixels.length = 0 ∨ (kind = "alpha" ∧ pixels.length ≠ 16) ∨ ¬ (e0 ++ e1 ++ pixels).all (· < 256) then "bad-case"
      else
        let n := pixels.length / nch
        let pxs := (List.range n).map fun i => (List.range nch).map fun c => pixels.getD (i * nch + c) 0
        let r := if kind = "rgb" then Enc7.closestRgb I e0 e1 pxs
          else if kind = "rgba" then Enc7.closestRgba I e0 e1 pxs
          else Enc7.closestAlpha I (e0.getD 0 0) (e1.getD 0 0) pixels
        let ixs := (List.range n).map fun i => toString (Enc7.get I r.1 i)
        s!"ok {",".intercalate ixs} {r.2}"
    | _, _, _, _ => "bad-case"
  | _ => "bad-case"

/-- `w7e`: the encoder's own weight tables (source text of src/encode/bc7.rs) -/
def runW7e (t : List String) : String :=
  match t with
  | [W, ws] =>
    match nat? W, natList? ws with
    | some W, some ws =>
      if W = 2 ∨ W = 3 ∨ W = 4 then
        "ok " ++ ",".intercalate (((List.range (2 ^ W)).map fun k => Enc7.weight W k).map toString) ++
          (if ws = (List.range (2 ^ W)).map (fun k => Enc7.weight W k) then " same" else " DIFFERENT")
      else "bad-case"
    | _, _ => "bad-case"
  | _ => "bad-case"

def runC13 (line : String) : String :=
  match toks line with
  | "w7h" :: t => runW7h t
  | "cl7h" :: t => runCl7h t
  | "w7e" :: t => runW7e t
  | [cls, f, q, m, d, w, h, inprec, inhex, wit, ok3, hex] =>
    match c13Fmt f, c13Quality q, nat? w, nat? h, hexBytes hex.toList with
    | some (fmt, bpb), some qual, some w, some h, some bytes =>
      let nb := ((w + 3) / 4) * ((h + 3) / 4)
      let bpp := if inprec = "rgba8" then 4 else if inprec = "rgba16" then 8 else if inprec = "rgba32" then 16
        else if inprec = "rgb8" then 3 else if inprec = "gray8" then 1 else 0
      if w = 0 ∨ h = 0 ∨ w > 64 ∨ h > 64 ∨ bytes.length ≠ nb * bpb ∨ bpp = 0 ∨ inhex.length ≠ 2 * w * h * bpp
         ∨ ¬ (m = "U" ∨ m = "P") ∨ ¬ (d = "N" ∨ d = "C" ∨ d = "A" ∨ d = "B")
         ∨ ¬ (wit = "-" ∨ wit.length = 2 * nb * bpb) then "bad-case" else
      let masks : Option (List Nat) :=
        if ok3 = "-" then (if fmt = some .bc1 then none else some (List.replicate nb 0))
        else if fmt ≠ some .bc1 then none
        else match hexBytes ok3.toList with
          | some m => if m.length = 2 * nb then some ((List.range nb).map fun b => m.getD (2 * b) 0 * 256 + m.getD (2 * b + 1) 0) else none
          | none => none
      match masks with
      | none => "bad-case"
      | some masks =>
      let arr := bytes.toArray
      let blkOf (b : Nat) : Nat → Nat := fun i => arr.getD (b * bpb + i) 0
      let shapes := String.join ((List.range nb).map fun b => c13Shape fmt (blkOf b))
      let ports := String.join ((List.range nb).map fun b => if Portable fmt (blkOf b) (masks.getD b 0) then "1" else "0")
      let hashes := String.join ((List.range nb).map fun b => hex8 (hashVals (c13Decode fmt (blkOf b))))
      -- the 16 RGBA8 pixels of every block as the encoder sees them (`blockSrc` replication at the image border)
      let wb := (w + 3) / 4
      let img : Option (Array Nat) := if inprec = "rgba8" then (hexBytes inhex.toList).map (·.toArray) else none
      let pixels (ia : Array Nat) (b : Nat) : List Px := (List.range 16).map fun p =>
        let xy := blockSrc w h (b % wb) (b / wb) p
        let o := (xy.2 * w + xy.1) * 4
        ⟨ia.getD o 0, ia.getD (o + 1) 0, ia.getD (o + 2) 0, ia.getD (o + 3) 0⟩
      let inside (b : Nat) : List Bool := (List.range 16).map fun p =>
        decide ((b % wb) * 4 + p % 4 < w ∧ (b / wb) * 4 + p / 4 < h)
      let dc := d = "C" ∨ d = "B"
      let da := d = "A" ∨ d = "B"
      -- predictions of the discrete encoder model (bytes)
      let pred : String :=
        match img with
        | some ia =>
          ";".intercalate ((List.range nb).map fun b =>
            let s := predString (maskOutside fmt (inside b) (predictBlock fmt qual dc da (pixels ia b)))
            if s = "" then "-" else s)
        | none => "-"
      -- BC7: header fields read back from the emitted block, and what the discrete rules allow for the input block
      let b7 : String :=
        match img with
        | some ia =>
          if fmt = none ∧ d = "N" then
            let fs := (List.range nb).map fun b => bc7Fields (blockNat (blkOf b))
            let obs := ";".intercalate (fs.map obsString)
            let rules := ";".intercalate ((List.range nb).map fun b =>
              match fs.getD b none with
              | some f => ruleString (bc7Rule qual (pixels ia b) (inside b) f.mode f.part f.rot)
              | none => ruleString (bc7Rule qual (pixels ia b) (inside b) 8 0 0))
            obs ++ "@" ++ rules
          else "-"
        | none => "-"
      -- BC7 writer: parse + `Enc7.write`; `closest_*` re-derivation of the emitted indexes
      let w7 : String :=
        if fmt = none then
          String.join ((List.range nb).map fun b =>
            match fieldsOfBlock (blockNat (blkOf b)) with
            | some f => hashBlockNat (Enc7.write f)
            | none => "--------")
        else "-"
      let cl7 : String :=
        match img with
        | some ia =>
          if fmt = none ∧ d = "N" then
            ";".intercalate ((List.range nb).map fun b =>
              let pxs := pixels ia b
              if (singleColour pxs).isSome ∨ ¬ (inside b).all id then "-" else
              match reEmit (blockNat (blkOf b)) (pxs.map fun p => [p.r, p.g, p.b, p.a]) with
              | some v => hashBlockNat v
              | none => "!")
          else "-"
        | none => "-"
      -- BC1–BC5 writer: parse + model writers; halves re-derived from their own endpoints and the original pixels
      let w15 : String :=
        match fmt with
        | some f => String.join ((List.range nb).map fun b => hashBytes (rewriteBlock f (blkOf b)))
        | none => "-"
      let cl15 : String :=
        match fmt, img with
        | some f, some ia =>
          ";".intercalate ((List.range nb).map fun b =>
            if ¬ (inside b).all id then "-" else cl15Block f qual (ditheringOf d) (m = "P") (blkOf b) (pixels ia b))
        | _, _ => "-"
      s!"ok {nb} {shapes} {ports} {hashes} {pred} {b7} {w7} {cl7} {w15} {cl15}"
    | _, _, _, _, _ => "bad-case"
  | _ => "bad-case"

end Dds.Drv.C13

namespace Dds.Drv
def runC13 : String → String := C13.runC13
end Dds.Drv
