import DdsModel.Progress
import DdsModel.Drv.C14
namespace Dds.Drv.C17
open Dds.Drv.C14
open Dds

def parseColor : String → Option ColorFormat
  | "g8" => some ⟨.gray, .u8⟩ | "a8" => some ⟨.alpha, .u8⟩ | "rgb8" => some ⟨.rgb, .u8⟩
  | "rgba8" => some ⟨.rgba, .u8⟩ | "g16" => some ⟨.gray, .u16⟩ | "a16" => some ⟨.alpha, .u16⟩
  | "rgb16" => some ⟨.rgb, .u16⟩ | "rgba16" => some ⟨.rgba, .u16⟩ | "g32" => some ⟨.gray, .f32⟩
  | "a32" => some ⟨.alpha, .f32⟩ | "rgb32" => some ⟨.rgb, .f32⟩ | "rgba32" => some ⟨.rgba, .f32⟩
  | _ => none

def fmtRat (q : Rat) : String := s!"{q.num}/{q.den}"
def fmtRats (l : List Rat) : String := ",".intercalate (l.map fmtRat)

def insertSorted (x : Rat) : List Rat → List Rat
  | [] => [x]
  | y :: t => if x ≤ y then x :: y :: t else y :: insertSorted x t
def sortRats (l : List Rat) : List Rat := l.foldr insertSorted []

def diffs : List Rat → List Rat
  | a :: b :: t => (b - a) :: diffs (b :: t)
  | _ => []

/-- `get_maximum_mipmap_count(max(w,h))`: `32 - leading_zeros`, at least 1 -/
def mipCount (w h : Nat) : Nat := max 1 (if max w h = 0 then 0 else Nat.log2 (max w h) + 1)

/-- `Size::get_mipmap(level)` -/
def mipDim (d l : Nat) : Nat := max 1 (d / 2 ^ l)

structure C17Case where
  encoderApi : Bool
  name : String
  w : Nat
  h : Nat
  color : ColorFormat
  dith : Dithering
  q : Quality
  mips : Bool
  par : Bool
  mt : Bool
  nf : Nat

/-- the run of one level; fragment submissions in index order (the order does not matter for what
is printed, see `C17.parallel_monotone`) -/
def levelRun (c : C17Case) (sup : Option Support) (encs : List PgEnc) (geo : Option (Nat × Nat)) (w h : Nat) :
    Option (LevelRun × Nat × Bool) := do
  let (w, h) := normSize w h
  let e ← pickEncoder encs c.color c.dith
  let fam := familyOf e.kind w h c.color c.q
  -- fragment heights: from the case line when it carries the geometry of the real `SplitView` (count and
  -- nominal height; the split rule is C14's subject and C17's theorems hold for every positive list that sums
  -- to the height), otherwise from the split model
  let (len, hs) : Nat × List Nat := match geo with
    | some (n, fh) => (n, List.replicate (n - 1) fh ++ [h - (n - 1) * fh])
    | none =>
      let sv := SplitView.new w h sup c.dith c.q
      (sv.len, sv.fragments.filterMap (fun f => f.map (·.2)))
  if !c.par then some (.seq fam, len, true)
  else if len = 1 then some (.parSingle fam, len, true)
  else
    let uniform := hs.all (fun x => some x == hs.head?)
    some (.par c.mt hs (h + 1), len, uniform || !c.mt)

/-- `write` events after the first report of 1 -/
def lateWrites : List Ev → Nat
  | [] => 0
  | .report p :: t => if p = 1 then writes t else lateWrites t
  | _ :: t => lateWrites t

def resName (ok : Bool) : String := if ok then "ok" else "cancelled"

/-- A writer that fails: the call ends with the writer's I/O error at `write` event number `j` (0-based; every
`write_all` is followed by `?`), no check and no report is reached after it. Number of reports made until then.
Only the first (`j = 0`) and the last (`j = writes tr - 1`) write are asked for: which bytes a `write` event
carries is not modelled, but the first byte of the output belongs to the first and the last byte to the last. -/
def reportsBeforeWrite : Nat → List Ev → Nat
  | _, [] => 0
  | j, .report _ :: t => reportsBeforeWrite j t + 1
  | j, .check :: t => reportsBeforeWrite j t
  | 0, .write :: _ => 0
  | j + 1, .write :: t => reportsBeforeWrite j t

/-- `ioA/B` → `(A, B)` -/
def parseIo (s : String) : Option (Nat × Nat) :=
  if !s.startsWith "io" then none else
  match (s.drop 2).toString.splitOn "/" with
  | [a, b] => (do
      let x ← nat? a
      let y ← nat? b
      if y = 0 ∨ x > y ∨ y > 65536 then none else pure (x, y))
  | _ => none

def sweepKs (n : Nat) : List Nat :=
  if n ≤ 96 then List.range n else (List.range 96).map (fun i => i * (n - 1) / 95)

def runC17 (line : String) : String :=
  match toks line with
  | ["run", api, name, w, h, color, d, q, mips, par, _th, _order, rep, cancel, _seed, nf] =>
    match supportOf name with
    | none => "bad-case"
    | some sup =>
    match nat? w, nat? h, parseColor color, parseDith d, parseQuality q,
        (if nf.startsWith "nf=" then nat? (((nf.drop 3).toString.splitOn "@").headD "") else none) with
    | some w, some h, some color, some d, some q, some nfN =>
      -- optional geometry `@n0:f0,n1:f1,…` (one pair per encoded level)
      let geoStr : Option String := match (nf.drop 3).toString.splitOn "@" with
        | [_, g] => some g
        | _ => none
      let geoList : Option (List (Nat × Nat)) := geoStr.bind fun g =>
        (g.splitOn ",").mapM fun part => match part.splitOn ":" with
          | [a, b] => (do let x ← nat? a; let y ← nat? b; pure (x, y))
          | _ => none
      let nf := nfN
      -- mips token: "0" none, "1" full chain, "m<N>" a partial chain of N >= 2 declared levels
      let mipn : Option Nat := if mips.startsWith "m" then nat? (mips.drop 1).toString else none
      let mipsOk := mips == "0" || mips == "1" ||
        (match mipn with | some n => 2 ≤ n && n ≤ 32 | none => false)
      let c : C17Case := { encoderApi := api == "E", name, w, h, color, dith := d, q,
                           mips := mips != "0", par := par == "1", mt := rep == "mt", nf }
      if (api ≠ "E" ∧ api ≠ "F") ∨ (c.mips ∧ !c.encoderApi) ∨ !mipsOk then "bad-case" else
      match sup, encodersOf name with
      | none, _ => "err:UnsupportedFormat"
      | some _, none => "not-modelled"
      | some s, some encs =>
        let sizes : List (Nat × Nat) :=
          if c.mips then (List.range (match mipn with
              | some n => min n (mipCount w h) | none => mipCount w h)).map
            (fun l => (mipDim w l, mipDim h l))
          else [(w, h)]
        let geoOk := match geoStr, geoList with
          | none, _ => true
          | some _, some gl => gl.length == sizes.length &&
              (gl.zip sizes).all (fun (g, sz) => 1 ≤ g.1 && 1 ≤ g.2 && (g.1 - 1) * g.2 < sz.2)
          | some _, none => false
        if !geoOk then "bad-case" else
        let geos : List (Option (Nat × Nat)) := match geoList with
          | some gl => gl.map some
          | none => sizes.map (fun _ => none)
        match (sizes.zip geos).mapM (fun (x : (Nat × Nat) × Option (Nat × Nat)) =>
            levelRun c (some s) encs x.2 x.1.1 x.1.2) with
        | none | some [] => "not-modelled"
        | some ((lv0, len0, det0) :: rest) =>
          if len0 ≠ nf then s!"bad-nf model={len0}" else
          let tr := if c.encoderApi then surfaceTrace lv0 (rest.map (·.1)) else lv0.trace
          let det := det0 && rest.all (·.2.2)
          let anyPar := c.par && c.mt && (len0 > 1 || rest.any (fun x => x.2.1 > 1))
          let full := exec none tr false 0
          let n := full.reports.length
          match cancel with
          | "-" =>
            if det then s!"ok n={n} late={lateWrites tr} seq={fmtRats full.reports}"
            else
              s!"ok n={n} late={lateWrites tr} last={fmtRats (full.reports.drop (n - 1))} dif={fmtRats (sortRats (diffs (0 :: full.reports)))}"
          | "pre" | "pres" =>
            -- `pres`: the retry borrows the same `Progress` value; a `Progress` holds no state of a call
            let o := exec none tr true 0
            s!"{resName o.ok} n={o.reports.length} written={o.writes} retry={resName full.ok} n2={n}"
          | "iosweep" =>
            if writes tr = 0 then "no-output" else
            s!"iosweep ok n={n} io=all nfirst={reportsBeforeWrite 0 tr} nlast={reportsBeforeWrite (writes tr - 1) tr}"
          | "sweep" =>
            let rs := (sweepKs n).map (fun k => (exec (some k) tr false 0).ok)
            s!"sweep ok n={n} cancelled={(rs.filter (!·)).length} ok={(rs.filter (·)).length}"
          | k =>
            if k.startsWith "io" then
              match parseIo k with
              | none => "bad-case"
              | some (a, b) =>
                if writes tr = 0 then "no-output"
                else if a = 0 then s!"err:Io n={reportsBeforeWrite 0 tr}"
                else if a = b then s!"err:Io n={reportsBeforeWrite (writes tr - 1) tr}"
                else "err:Io"
            else
            if !k.startsWith "k" then "bad-case" else
            match nat? (k.drop 1).toString with
            | none => "bad-case"
            | some k =>
              let o := exec (some k) tr false 0
              if anyPar then resName o.ok else s!"{resName o.ok} n={o.reports.length}"
    | _, _, _, _, _, _ => "bad-case"
  | _ => "bad-case"

end Dds.Drv.C17

namespace Dds.Drv
def runC17 : String → String := C17.runC17
end Dds.Drv
