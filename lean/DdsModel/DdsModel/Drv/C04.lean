import DdsModel.Uncompressed
import DdsModel.Drv.Util
/-
C04 driver.  Case line:

  D <format> <channels> <prec> <w> <h> <spec> [<spec2>]

channels ∈ gray|alpha|rgb|rgba, prec ∈ 0|1|2 (U8|U16|F32).  `<spec>` generates the encoded units
(pixels / blocks / plane-1 elements; `<spec2>` the plane-2 elements of bi-planar formats), unit `i`:

  S:<start>                      (start + i) mod 2^bits
  W:<off>:<width>:<base>:<start> base (hex) with bits [off, off+width) replaced by (start+i) mod 2^width
  R:<seed>                       splitmix64 words
  H:<hex>,<hex>,...              the listed values, cyclically

Result: `ok` followed by every channel value of every pixel (row-major) in hex; F32 values are bit
patterns, every NaN is printed as `nan`.
-/
namespace Dds.Drv.C04
open Dds.Unc

def M64 : Nat := 18446744073709551616

def splitmix (seed i : Nat) : Nat :=
  let z := (seed + (i + 1) * 0x9E3779B97F4A7C15) % M64
  let z := ((z ^^^ (z >>> 30)) * 0xBF58476D1CE4E5B9) % M64
  let z := ((z ^^^ (z >>> 27)) * 0x94D049BB133111EB) % M64
  z ^^^ (z >>> 31)

def hexDigit? (c : Char) : Option Nat :=
  if '0' ≤ c ∧ c ≤ '9' then some (c.toNat - '0'.toNat)
  else if 'a' ≤ c ∧ c ≤ 'f' then some (c.toNat - 'a'.toNat + 10)
  else if 'A' ≤ c ∧ c ≤ 'F' then some (c.toNat - 'A'.toNat + 10)
  else none

def hex? (s : String) : Option Nat :=
  if s.isEmpty then none else
  s.foldl (fun acc c => match acc, hexDigit? c with
    | some a, some d => some (a * 16 + d)
    | _, _ => none) (some 0)

def toHex (n : Nat) : String := String.ofList (Nat.toDigits 16 n)

/-- unit generator of a spec, for units of `bits` bits -/
def parseSpec (spec : String) (bits : Nat) : Option (Nat → Nat) :=
  match spec.splitOn ":" with
  | ["S", a] => do
    let start ← nat? a
    some fun i => (start + i) % 2 ^ bits
  | ["W", o, w, b, a] => do
    let off ← nat? o
    let width ← nat? w
    let base ← hex? b
    let start ← nat? a
    let mask := (2 ^ width - 1) <<< off
    let base := base % 2 ^ bits
    let cleared := base - (base &&& mask)
    some fun i => (cleared + (((start + i) % 2 ^ width) <<< off)) % 2 ^ bits
  | ["R", sd] => do
    let seed ← nat? sd
    some fun i => (splitmix seed (2 * i) + (splitmix seed (2 * i + 1)) <<< 64) % 2 ^ bits
  | ["H", l] => do
    let vals ← (l.splitOn ",").mapM hex?
    let arr := vals.toArray
    if arr.size == 0 then none else
    some fun i => arr[i % arr.size]! % 2 ^ bits
  | _ => none

def parseChannels : String → Option Channels
  | "gray" => some .gray | "alpha" => some .alpha | "rgb" => some .rgb | "rgba" => some .rgba
  | _ => none

def fmtVal (prec v : Nat) : String :=
  if prec == 2 && CF32.isNaN v then "nan" else toHex v

def runC04 (line : String) : String :=
  match toks line with
  | "D" :: name :: ch :: prec :: w :: h :: specs0 =>
    match findFmt name, parseChannels ch, nat? prec, nat? w, nat? h with
    | some fm, some chans, some prec, some w, some h =>
      -- optional `rect:<ox>:<oy>:<rw>:<rh>` tokens: the harness takes those pixels from a rect decode; the ideal
      -- value of a pixel does not depend on how it was asked for, so the model's answer is that of the plain case
      let rects := specs0.filter (·.startsWith "rect:")
      let specs := specs0.filter (fun s => !s.startsWith "rect:")
      let rectOk := rects.all fun r =>
        match ((r.drop 5).toString.splitOn ":").map nat? with
        | [some ox, some oy, some rw, some rh] => rw != 0 && rh != 0 && ox + rw ≤ w && oy + rh ≤ h
        | _ => false
      if prec > 2 ∨ w == 0 ∨ h == 0 ∨ w * h > 1048576 ∨ !rectOk then "bad-case" else
      let surf : Option Surface :=
        match fm.planar, specs with
        | none, [s1] => do
          let u ← parseSpec s1 (8 * fm.unitBytes)
          some { w, h, unit := u }
        | some (p1, p2), [s1, s2] => do
          let u1 ← parseSpec s1 (8 * p1)
          let u2 ← parseSpec s2 (8 * p2)
          some { w, h, unit := u1, unit2 := u2 }
        | _, _ => none
      match surf with
      | none => "bad-case"
      | some s =>
        let px := decodeSurface fm prec s
        px.foldl (fun acc p =>
          (convertChannels fm.native chans prec p).foldl (fun acc v => acc ++ " " ++ fmtVal prec v) acc)
          "ok"
    | _, _, _, _, _ => "bad-case"
  | ["V", name, ch, prec, sw, sh, ox, oy, rw, rh, spec] =>
    -- a window of a surface of any size (more than 2^32 pixels included); one-pixel-per-unit formats
    match findFmt name, parseChannels ch, (([prec, sw, sh, ox, oy, rw, rh].map nat?).mapM id) with
    | some fm, some chans, some [prec, sw, sh, ox, oy, rw, rh] =>
      if prec > 2 ∨ fm.planar.isSome ∨ fm.pxPerUnit != 1 ∨ sw == 0 ∨ sh == 0 ∨ sw ≥ 2 ^ 32 ∨ sh ≥ 2 ^ 32
          ∨ rw == 0 ∨ rh == 0 ∨ rw * rh > 4096 ∨ ox + rw > sw ∨ oy + rh > sh
          ∨ sw * sh * fm.unitBytes > 2 ^ 63 - 1 then "bad-case" else
      match parseSpec spec (8 * fm.unitBytes) with
      | none => "bad-case"
      | some u =>
        let s : Surface := { w := sw, h := sh, unit := u }
        (List.range (rw * rh)).foldl (fun acc i =>
          (convertChannels fm.native chans prec (specPixel fm prec s (ox + i % rw) (oy + i / rw))).foldl
            (fun acc v => acc ++ " " ++ fmtVal prec v) acc) "ok"
    | _, _, _ => "bad-case"
  | _ => "bad-case"

end Dds.Drv.C04

namespace Dds.Drv
def runC04 : String → String := C04.runC04
end Dds.Drv
