import DdsModel.Encoder
import DdsModel.Drv.C02
namespace Dds.Drv
open Dds

def parseEncOp (s : String) : Option EncOp :=
  match splitColon s with
  | ["w", w, h] => do some (.write (← nat? w) (← nat? h))
  | ["k", w, h] => do some (.writeCancelled (← nat? w) (← nat? h))
  | ["g", b] => some (.setGenerate (b == "1"))
  | ["f"] => some .finish
  | _ => none

def encResName : EncRes → String
  | .ok => "ok"
  | .tooManySurfaces => "TooManySurfaces"
  | .unexpectedSurfaceSize => "UnexpectedSurfaceSize"
  | .cancelled => "Cancelled"
  | .invalidSize => "InvalidSize"
  | .invalidSizeMip => "InvalidSize"
  | .missingSurfaces => "MissingSurfaces"
  | .panic => "panic"

def fmtEncInfo (e : Enc) : String :=
  match e.iter.currentP with
  | none => "panic"
  | some none => "- done"
  | some (some s) => s!"{s.w},{s.h},{s.len},{if s.level ≠ 0 then 1 else 0} more"

def runEncOps (e : Enc) : List EncOp → List String → List String
  | [], acc => acc.reverse
  | op :: rest, acc =>
    let (e', r) := e.step op
    runEncOps e' rest (s!"{encResName r} {fmtEncInfo e'} {e'.written}" :: acc)

/-- `E <kind> <w> <h> <d|-> <mips> <px> <format> <mulW> <mulH> <ops...>` -/
def runC11 (line : String) : String :=
  match toks line with
  | "E" :: rest =>
    match parseHeaderLine rest with
    | none => "bad-case"
    | some (hd, px, rest) =>
      match rest with
      | _fmt :: mw :: mh :: ops =>
        match nat? mw, nat? mh, ops.mapM parseEncOp, layoutOf hd px with
        | some mw, some mh, some ops, some (.ok L) =>
          let e := Enc.new L mw mh
          " | ".intercalate (s!"new {fmtEncInfo e} {e.written}" :: runEncOps e ops [])
        | _, _, _, some (.error er) => s!"err {errName er}"
        | _, _, _, none => "panic"
        | _, _, _, _ => "bad-case"
      | _ => "bad-case"
  | _ => "bad-case"

end Dds.Drv
