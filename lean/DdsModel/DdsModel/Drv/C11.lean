import DdsModel.Drv.Util
namespace Dds.Drv

def runC11 (_line : String) : String := "not-modelled"

end Dds.Drv
