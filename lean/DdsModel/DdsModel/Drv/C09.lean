import DdsModel.HeaderTables
import DdsModel.Drv.C02
namespace Dds.Drv.C09
open Dds

def fmtOptNat : Option Nat → String
  | some x => toString x
  | none => "-"

def parseOptNat (s : String) : Option (Option Nat) :=
  if s == "-" then some none else (nat? s).map some

def fmtPf : Dx9PixelFormat → String
  | .fourCC c => s!"F:{c}"
  | .mask m => s!"M:{m.flags}:{m.rgbBitCount.toU32}:{m.rMask}:{m.gMask}:{m.bMask}:{m.aMask}"

def fmtHeader : Header → String
  | .dx9 x => s!"9:{x.width}:{x.height}:{fmtOptNat x.depth}:{x.mipmapCount}:{x.caps2}:{fmtPf x.pixelFormat}"
  | .dx10 x =>
    s!"10:{x.width}:{x.height}:{fmtOptNat x.depth}:{x.mipmapCount}:{x.dxgiFormat}:{x.resourceDimension.toU32}:{x.miscFlag}:{x.arraySize}:{x.alphaMode.toU32}"

def u32? (s : String) : Option Nat := do
  let n ← nat? s
  if n < U32 then some n else none

def parseHeaderTok (s : String) : Option Header :=
  match splitColon s with
  | ["9", w, h, d, m, c, "F", cc] => do
    let mc ← u32? m
    if mc = 0 then none
    some (.dx9 { width := ← u32? w, height := ← u32? h, depth := ← parseOptNat d, mipmapCount := mc,
                 caps2 := ← u32? c, pixelFormat := .fourCC (← u32? cc) })
  | ["9", w, h, d, m, c, "M", fl, bc, r, g, b, a] => do
    let mc ← u32? m
    if mc = 0 then none
    some (.dx9 { width := ← u32? w, height := ← u32? h, depth := ← parseOptNat d, mipmapCount := mc,
                 caps2 := ← u32? c,
                 pixelFormat := .mask { flags := ← u32? fl, rgbBitCount := ← RgbBitCount.ofU32 (← u32? bc),
                                        rMask := ← u32? r, gMask := ← u32? g, bMask := ← u32? b,
                                        aMask := ← u32? a } })
  | ["10", w, h, d, m, f, dim, misc, arr, al] => do
    let mc ← u32? m
    if mc = 0 then none
    let code ← u32? f
    if !dxgiValid code then none
    some (.dx10 { width := ← u32? w, height := ← u32? h, depth := ← parseOptNat d, mipmapCount := mc,
                  dxgiFormat := code, resourceDimension := ← ResDim.ofU32 (← u32? dim),
                  miscFlag := ← u32? misc, arraySize := ← u32? arr,
                  alphaMode := ← AlphaMode.ofU32 (← u32? al) })
  | _ => none

def fmtErr : HeaderErr → String
  | .invalidMagicBytes w => s!"err:InvalidMagicBytes:{w}"
  | .invalidHeaderSize n => s!"err:InvalidHeaderSize:{n}"
  | .invalidPixelFormatSize n => s!"err:InvalidPixelFormatSize:{n}"
  | .invalidRgbBitCount n => s!"err:InvalidRgbBitCount:{n}"
  | .invalidDxgiFormat n => s!"err:InvalidDxgiFormat:{n}"
  | .invalidResourceDimension n => s!"err:InvalidResourceDimension:{n}"
  | .invalidAlphaMode n => s!"err:InvalidAlphaMode:{n}"
  | .invalidArraySizeForTexture3D n => s!"err:InvalidArraySizeForTexture3D:{n}"
  | .io => "err:Io"

def fmtPxOpt : Option PixelInfo → String
  | some p => fmtPx p
  | none => "-"

/-- `DataLayout::from_header(h).data_len()`; `none` also for a panic -/
def dataLenOf (h : Header) : Option Nat :=
  match pixelInfoOf h with
  | none => none
  | some px => h.layoutLen px

/-- does the model hit a panic branch of the layout code for this header? -/
def layoutPanics (h : Header) : Bool :=
  match pixelInfoOf h with
  | none => false
  | some px =>
    match layoutOf h.toLayoutHeader px with
    | none => true
    | some (.ok L) => L.dataLenP.isNone
    | some (.error _) => false

def fmtLayout (h : Header) : String :=
  match pixelInfoOf h with
  | none => "nopx"
  | some px =>
    match layoutOf h.toLayoutHeader px with
    | none => "panic"
    | some (.error e) => s!"err:{errName e}"
    | some (.ok L) =>
      let len := match L.dataLenP with | some l => toString l | none => "panic"
      match L with
      | .texture t => s!"T:{t.w}x{t.h}:{t.mips}:{len}"
      | .volume v => s!"V:{v.w}x{v.h}x{v.d}:{v.mips}:{len}"
      | .textureArray a =>
        let k := match a.kind with
          | .textures => "T" | .cubeMaps => "C" | .partialCubeMap f => s!"P{f}"
        s!"A{k}:{a.arrayLen}:{a.w}x{a.h}:{a.mips}:{len}"

structure OptTok where
  opts : ParseOptions

def parseOpts (o fl : String) : Option ParseOptions := do
  let (perm, skip) ← match o with
    | "s" => some (false, false) | "p" => some (true, false)
    | "S" => some (false, true) | "P" => some (true, true) | _ => none
  let fileLen ← if fl == "-" then some none else
    (do let n ← nat? fl; if n < U64 then some (some n) else none)
  some { skipMagicBytes := skip, permissive := perm, fileLen }

/-- `len=.. W=.. rr=...` of the harness -/
def roundtripStr (h : Header) : String :=
  let ws := h.write pixelInfoOf
  let len := dataLenOf h
  let same (o : ParseOptions) : String :=
    match Header.read pixelInfoOf o ws with
    | .ok (h2, rest) => if h2 = h ∧ rest = [] then "1" else "0"
    | .error _ => "0"
  let third := match len with
    | some l => if l + 4 * ws.length < U64 then
        same (ParseOptions.newPermissive (some (l + 4 * ws.length))) else "x"
    | none => "x"
  let rr := same ParseOptions.strict ++ same (ParseOptions.newPermissive none) ++ third
  s!"len={fmtOptNat len} W={",".intercalate (ws.map toString)} rr={rr}"

def runP (t : List String) : String :=
  match t with
  | o :: fl :: wsS =>
    match parseOpts o fl, wsS.mapM u32? with
    | some opts, some ws =>
      let head :=
        match Header.read pixelInfoOf opts ws with
        | .ok (h, rest) =>
          if layoutPanics h then "panic" else
          s!"ok {fmtHeader h} rest={rest.length} {roundtripStr h}"
        | .error e => fmtErr e
      let body := if opts.skipMagicBytes then ws else ws.drop 1
      let raw :=
        match RawHeader.read body with
        | none => " raw=eof"
        | some (r, rest) =>
          let used := body.length - rest.length
          let same := r.write == body.take used
          s!" raw={used}:{if same then 1 else 0}"
      head ++ raw
    | _, _ => "bad-case"
  | _ => "bad-case"

def Format.name (f : Format) : String :=
  ((toString (repr f)).splitOn ".").getLastD ""

def formatByName (s : String) : Option Format := Format.all.find? (fun f => Format.name f == s)

def parseOp (s : String) : Option BuilderOp :=
  match splitColon s with
  | ["S", a, b] => do some (.withSize (← u32? a) (← u32? b))
  | ["D", a, b, c] => do some (.withDimensions (← u32? a) (← u32? b) (← parseOptNat c))
  | ["M", m] => do some (.withMipmapCount (← u32? m))
  | ["X"] => some .withMipmaps
  | _ => none

def runK (t : List String) : String :=
  match t with
  | c :: f :: w :: h :: d :: opsS =>
    let k? : Option CtorKind := match c with
      | "I" => some .image | "V" => some .volume | "C" => some .cubeMap | _ => none
    match k?, formatByName f, u32? w, u32? h, u32? d, opsS.mapM parseOp with
    | some k, some f, some w, some h, some d, some ops =>
      match Header.new k w h d f with
      | none => "panic"
      | some h0 =>
        match h0.applyOps ops with
        | none => "panic-mip0"
        | some hd => s!"ok {fmtHeader hd} {roundtripStr hd}"
    | _, _, _, _, _, _ => "bad-case"
  | _ => "bad-case"

def parsePfTok (l : List String) : Option Dx9PixelFormat :=
  match l with
  | ["F", cc] => do some (.fourCC (← u32? cc))
  | ["M", fl, bc, r, g, b, a] => do
    some (.mask { flags := ← u32? fl, rgbBitCount := ← RgbBitCount.ofU32 (← u32? bc),
                  rMask := ← u32? r, gMask := ← u32? g, bMask := ← u32? b, aMask := ← u32? a })
  | _ => none

/-- struct-level setters: S:w:h D:w:h:d|- M:m(>=1) | dx9: C:faces(u8) P:F:cc P:M:.. | dx10: G:dxgi R:dim Q:misc
A:array L:alpha -/
def parseStructOp (s : String) : Option StructOp :=
  match splitColon s with
  | ["S", a, b] => do some (.withSize (← u32? a) (← u32? b))
  | ["D", a, b, c] => do some (.withDimensions (← u32? a) (← u32? b) (← parseOptNat c))
  | ["M", m] => do let n ← u32? m; if n = 0 then none else some (.withMipmapCount n)
  | ["C", f] => do let n ← nat? f; if n < 256 then some (.withCubeMapFaces n) else none
  | "P" :: rest => (parsePfTok rest).map .withPixelFormat
  | ["G", c] => do let n ← u32? c; if dxgiValid n then some (.withDxgiFormat n) else none
  | ["R", d] => do some (.withResourceDimension (← ResDim.ofU32 (← u32? d)))
  | ["Q", m] => do some (.withMiscFlags (← u32? m))
  | ["A", a] => do some (.withArraySize (← u32? a))
  | ["L", a] => do some (.withAlphaMode (← AlphaMode.ofU32 (← u32? a)))
  | _ => none

/-- `KS <I|V|C> <9:F:cc | 9:M:.. | 10:dxgi> w h d op...`: struct-level constructor + setter chain -/
def runKS (t : List String) : String :=
  match t with
  | c :: st :: w :: h :: d :: opsS =>
    let k? : Option CtorKind := match c with
      | "I" => some .image | "V" => some .volume | "C" => some .cubeMap | _ => none
    let start? : Option (CtorKind → Nat → Nat → Nat → Header) :=
      match splitColon st with
      | "9" :: rest => (parsePfTok rest).map fun p k w h d => .dx9 (Dx9Header.new k w h d p)
      | ["10", code] => do
        let n ← u32? code
        if dxgiValid n then some (fun k w h d => .dx10 (Dx10Header.new k w h d n)) else none
      | _ => none
    match k?, start?, u32? w, u32? h, u32? d, opsS.mapM parseStructOp with
    | some k, some mk, some w, some h, some d, some ops =>
      match (mk k w h d).applyStructOps ops with
      | none => "bad-case"
      | some hd => s!"ok {fmtHeader hd} {roundtripStr hd}"
    | _, _, _, _, _, _ => "bad-case"
  | _ => "bad-case"

def runX (t : List String) : String :=
  match t with
  | [hs] =>
    match parseHeaderTok hs with
    | none => "bad-case"
    | some h =>
      let d9 := h.toDx9.map Header.dx9
      let d10 := h.toDx10.map Header.dx10
      let f (x : Option Header) := match x with | some y => fmtHeader y | none => "-"
      let fpx (x : Option Header) := match x with | some y => fmtPxOpt (pixelInfoOf y) | none => "-"
      let fl (x : Option Header) := match x with | some y => fmtLayout y | none => "-"
      s!"d9={f d9} d10={f d10} px={fmtPxOpt (pixelInfoOf h)} px9={fpx d9} px10={fpx d10} lay={fmtLayout h} lay9={fl d9} lay10={fl d10}"
  | _ => "bad-case"

def runTD (t : List String) : String :=
  match t.mapM nat? with
  | some [c] =>
    if c ≥ U32 then "bad-case" else
    if !dxgiValid c then "invalid" else
    let to9 (a : AlphaMode) := match toDx9Format c a with | some p => fmtPf p | none => "-"
    let fmt := match dxgiToSupported c with | some f => Format.name f | none => "-"
    s!"valid px={fmtPxOpt (dxgiPixelInfo c)} lin={dxgiToLinear c} alpha={if dxgiHasAlpha c then 1 else 0} fmt={fmt} to9={to9 .unknown} to9p={to9 .premultiplied}"
  | _ => "bad-case"

def runTF (t : List String) : String :=
  match t.mapM u32? with
  | some [c] =>
    let x : Dx9Header := Dx9Header.new .image 1 1 0 (.fourCC c)
    let fmt := match fourCCToSupported c with | some f => Format.name f | none => "-"
    let dx := match x.toDx10 with | some y => toString y.dxgiFormat | none => "-"
    s!"fmt={fmt} px={fmtPxOpt (pixelInfoOf (.dx9 x))} dxgi={dx} alpha={x.alphaMode.toU32}"
  | _ => "bad-case"

def runTM (t : List String) : String :=
  match t with
  | [n] =>
    match formatByName n with
    | none => "bad-case"
    | some f =>
      let mask := match f.toMask with | some m => fmtPf (.mask m) | none => "-"
      let px := match f.pixelInfo with | some p => fmtPx p | none => "panic"
      s!"dxgi={fmtOptNat f.toDxgi} fcc={fmtOptNat f.toFourCC} mask={mask} px={px}"
  | _ => "bad-case"

def runC09 (line : String) : String :=
  match toks line with
  | "P" :: t => runP t
  | "K" :: t => runK t
  | "KS" :: t => runKS t
  | "X" :: t => runX t
  | "TD" :: t => runTD t
  | "TF" :: t => runTF t
  | "TM" :: t => runTM t
  | _ => "bad-case"

end Dds.Drv.C09

namespace Dds.Drv
def runC09 : String → String := C09.runC09
end Dds.Drv
