import DdsModel.Decoder
import DdsModel.Drv.C02
namespace Dds.Drv
open Dds

def parseDecOp (s : String) : Option DecOp :=
  match splitColon s with
  | ["r", w, h] => do some (.read (← nat? w) (← nat? h))
  | ["x", ox, oy, w, h] => do some (.readRect (← nat? ox) (← nat? oy) (← nat? w) (← nat? h))
  | ["s"] => some .skipSurface
  | ["m"] => some .skipMipmaps
  | ["p"] => some .rewindPrev
  | ["0"] => some .rewindStart
  | ["c", w, h] => do some (.readCubeMap (← nat? w) (← nat? h))
  | _ => none

def decResName : DecRes → String
  | .ok => "ok"
  | .noMoreSurfaces => "NoMoreSurfaces"
  | .unexpectedSurfaceSize => "UnexpectedSurfaceSize"
  | .rectOutOfBounds => "RectOutOfBounds"
  | .cannotSkipMipmapsInVolume => "CannotSkipMipmapsInVolume"
  | .notACubeMap => "NotACubeMap"
  | .memoryLimitExceeded => "MemoryLimitExceeded"
  | .panic => "panic"

def fmtInfo (d : Dec) : String :=
  match d.iter.currentP with
  | none => "panic"
  | some none => "- done"
  | some (some s) => s!"{s.w},{s.h},{s.len},{if s.level ≠ 0 then 1 else 0} more"

def fmtCells (c : List (Nat × Nat)) : String :=
  if c.isEmpty then "" else " cells=" ++ ",".intercalate (c.map fun (x, y) => s!"{x}.{y}")

def runOps (d : Dec) : List DecOp → List String → List String
  | [], acc => acc.reverse
  | op :: rest, acc =>
    let (d', r, cells) := d.step op
    runOps d' rest (s!"{decResName r} {fmtInfo d'} {d'.pos}{fmtCells cells}" :: acc)

def runC08 (line : String) : String :=
  match toks line with
  | "D" :: rest =>
    match parseHeaderLine rest with
    | none => "bad-case"
    | some (hd, px, rest) =>
      match rest with
      | [] => "bad-case"
      | _fmt :: ops =>
        match ops.mapM parseDecOp, layoutOf hd px with
        | none, _ => "bad-case"
        | _, none => "panic"
        | _, some (.error e) => s!"err {errName e}"
        | some ops, some (.ok L) =>
          let d := Dec.new L
          " | ".intercalate (s!"new {fmtInfo d} {d.pos}" :: runOps d ops [])
  | _ => "bad-case"

end Dds.Drv
