import DdsModel.Addr
import DdsModel.Drv.Util
/-!
Driver section of C05: runs the addressing model on a case line and prints
* the set of output bytes written (merged byte ranges relative to the view start: count, hash),
* for formats whose pixels can identify their source (probe formats) a hash of the map
  output pixel -> source pixel / samples.

The format table below transcribes the decoder tables of `src/decode/{uncompressed,sub_sampled,
bi_planar,bc,astc}.rs` (family, block shape, encoded unit size, native colours in list order,
specialised whole-image colour).
-/
namespace Dds.Drv.C05
open Dds Dds.Addr

inductive Family where
  | pixel (encBytes : Nat)
  | block (p : Proc) (bh : Nat) (bytesPerBlock : Nat)
  | planar (p1 p2 ssx ssy : Nat)

structure FormatInfo where
  family : Family
  natives : List Color
  special : Option Color := none

def stdNat (c : Channels) : List Color := [⟨c, .u8⟩, ⟨c, .u16⟩, ⟨c, .f32⟩]

def px (enc : Nat) (c : Channels) (special : Option Color := none) : FormatInfo :=
  ⟨.pixel enc, stdNat c, special⟩
def bc (bytes : Nat) (natives : List Color) : FormatInfo := ⟨.block .four 4 bytes, natives, none⟩
def astc (bw bh : Nat) : FormatInfo := ⟨.block (.general bw) bh 16, stdNat .rgba, none⟩

def formatInfo : String → Option FormatInfo
  | "R8G8B8_UNORM" => some (px 3 .rgb (some ⟨.rgb, .u8⟩))
  | "B8G8R8_UNORM" => some (px 3 .rgb)
  | "R8G8B8A8_UNORM" => some (px 4 .rgba (some ⟨.rgba, .u8⟩))
  | "R8G8B8A8_SNORM" => some (px 4 .rgba (some ⟨.rgba, .u8⟩))
  | "B8G8R8A8_UNORM" => some (px 4 .rgba (some ⟨.rgba, .u8⟩))
  | "B8G8R8X8_UNORM" => some ⟨.pixel 4, stdNat .rgb ++ [⟨.rgba, .u8⟩], none⟩
  | "B5G6R5_UNORM" => some (px 2 .rgb)
  | "B5G5R5A1_UNORM" => some (px 2 .rgba)
  | "B4G4R4A4_UNORM" => some (px 2 .rgba)
  | "A4B4G4R4_UNORM" => some (px 2 .rgba)
  | "R8_SNORM" => some (px 1 .gray (some ⟨.gray, .u8⟩))
  | "R8_UNORM" => some (px 1 .gray (some ⟨.gray, .u8⟩))
  | "R8G8_UNORM" => some (px 2 .rgb)
  | "R8G8_SNORM" => some (px 2 .rgb)
  | "A8_UNORM" => some (px 1 .alpha (some ⟨.alpha, .u8⟩))
  | "R16_UNORM" => some (px 2 .gray (some ⟨.gray, .u16⟩))
  | "R16_SNORM" => some (px 2 .gray)
  | "R16G16_UNORM" => some (px 4 .rgb)
  | "R16G16_SNORM" => some (px 4 .rgb)
  | "R16G16B16A16_UNORM" => some (px 8 .rgba (some ⟨.rgba, .u16⟩))
  | "R16G16B16A16_SNORM" => some (px 8 .rgba)
  | "R10G10B10A2_UNORM" => some (px 4 .rgba)
  | "R11G11B10_FLOAT" => some (px 4 .rgb)
  | "R9G9B9E5_SHAREDEXP" => some (px 4 .rgb)
  | "R16_FLOAT" => some (px 2 .gray)
  | "R16G16_FLOAT" => some (px 4 .rgb)
  | "R16G16B16A16_FLOAT" => some (px 8 .rgba)
  | "R32_FLOAT" => some (px 4 .gray (some ⟨.gray, .f32⟩))
  | "R32G32_FLOAT" => some (px 8 .rgb)
  | "R32G32B32_FLOAT" => some (px 12 .rgb (some ⟨.rgb, .f32⟩))
  | "R32G32B32A32_FLOAT" => some (px 16 .rgba (some ⟨.rgba, .f32⟩))
  | "R10G10B10_XR_BIAS_A2_UNORM" => some (px 4 .rgba)
  | "AYUV" => some (px 4 .rgba)
  | "Y410" => some (px 4 .rgba)
  | "Y416" => some (px 8 .rgba)
  | "R1_UNORM" => some ⟨.block (.general 8) 1 1, stdNat .gray, none⟩
  | "R8G8_B8G8_UNORM" => some ⟨.block .two 1 4, stdNat .rgb, none⟩
  | "G8R8_G8B8_UNORM" => some ⟨.block .two 1 4, stdNat .rgb, none⟩
  | "UYVY" => some ⟨.block .two 1 4, stdNat .rgb, none⟩
  | "YUY2" => some ⟨.block .two 1 4, stdNat .rgb, none⟩
  | "Y210" => some ⟨.block .two 1 8, stdNat .rgb, none⟩
  | "Y216" => some ⟨.block .two 1 8, stdNat .rgb, none⟩
  | "NV12" => some ⟨.planar 1 2 2 2, stdNat .rgb, none⟩
  | "P010" => some ⟨.planar 2 4 2 2, stdNat .rgb, none⟩
  | "P016" => some ⟨.planar 2 4 2 2, stdNat .rgb, none⟩
  | "BC1_UNORM" => some (bc 8 (stdNat .rgba))
  | "BC2_UNORM" => some (bc 16 (stdNat .rgba ++ stdNat .rgb))
  | "BC2_UNORM_PREMULTIPLIED_ALPHA" => some (bc 16 (stdNat .rgba))
  | "BC3_UNORM" => some (bc 16 (stdNat .rgba ++ stdNat .rgb))
  | "BC3_UNORM_PREMULTIPLIED_ALPHA" => some (bc 16 (stdNat .rgba))
  | "BC4_UNORM" => some (bc 8 (stdNat .gray))
  | "BC4_SNORM" => some (bc 8 (stdNat .gray))
  | "BC5_UNORM" => some (bc 16 (stdNat .rgb))
  | "BC5_SNORM" => some (bc 16 (stdNat .rgb))
  | "BC6H_UF16" => some (bc 16 (stdNat .rgb))
  | "BC6H_SF16" => some (bc 16 (stdNat .rgb))
  | "BC7_UNORM" => some (bc 16 (stdNat .rgba))
  | "BC3_UNORM_RXGB" => some (bc 16 (stdNat .rgb))
  | "BC3_UNORM_NORMAL" => some (bc 16 (stdNat .rgb))
  | "ASTC_4X4_UNORM" => some (astc 4 4)
  | "ASTC_5X4_UNORM" => some (astc 5 4)
  | "ASTC_5X5_UNORM" => some (astc 5 5)
  | "ASTC_6X5_UNORM" => some (astc 6 5)
  | "ASTC_6X6_UNORM" => some (astc 6 6)
  | "ASTC_8X5_UNORM" => some (astc 8 5)
  | "ASTC_8X6_UNORM" => some (astc 8 6)
  | "ASTC_8X8_UNORM" => some (astc 8 8)
  | "ASTC_10X5_UNORM" => some (astc 10 5)
  | "ASTC_10X6_UNORM" => some (astc 10 6)
  | "ASTC_10X8_UNORM" => some (astc 10 8)
  | "ASTC_10X10_UNORM" => some (astc 10 10)
  | "ASTC_12X10_UNORM" => some (astc 12 10)
  | "ASTC_12X12_UNORM" => some (astc 12 12)
  | _ => none

/-- colour index = `ColorFormat::key` = precision * 4 + channels -/
def colorOfIdx (i : Nat) : Option Color :=
  if i ≥ 12 then none else
  let ch := match i % 4 with | 0 => Channels.gray | 1 => .alpha | 2 => .rgb | _ => .rgba
  let pr := match i / 4 with | 0 => Precision.u8 | 1 => .u16 | _ => .f32
  some ⟨ch, pr⟩

/-- formats whose decoded pixels can identify the source pixel (see harness/src/c05.rs) -/
def isProbe (fmt : String) : Bool :=
  fmt == "R8G8B8A8_UNORM" || fmt == "BC4_UNORM" || fmt == "R1_UNORM" || fmt == "YUY2" || fmt == "NV12"

/-- the target colour carries information of the native pixel -/
def observable (native target : Channels) : Bool :=
  (chanMap native target).any fun s => match s with | .ch _ => true | _ => false

def fnvStep (h : UInt64) (v : UInt64) : UInt64 := (h ^^^ v) * 0x100000001b3
def fnvInit : UInt64 := 0xcbf29ce484222325

/-- merged, sorted byte ranges of a run list -/
def mergeRanges (rs : Array (Nat × Nat)) : Array (Nat × Nat) := Id.run do
  let sorted := rs.qsort (fun a b => a.1 < b.1 || (a.1 == b.1 && a.2 < b.2))
  let mut out : Array (Nat × Nat) := #[]
  for (lo, hi) in sorted do
    if lo ≥ hi then continue
    match out.back? with
    | some (plo, phi) =>
      if lo ≤ phi then out := out.pop.push (plo, max phi hi) else out := out.push (lo, hi)
    | none => out := out.push (lo, hi)
  return out

def bytesSummary (ranges : Array (Nat × Nat)) : String := Id.run do
  let m := mergeRanges ranges
  let mut total := 0
  let mut h := fnvInit
  for (lo, hi) in m do
    total := total + (hi - lo)
    h := fnvStep (fnvStep h (UInt64.ofNat lo)) (UInt64.ofNat hi)
  return s!"wr={total} rg={m.size} bh={h.toNat}"

def pack4 (a b c d : Nat) : UInt64 :=
  UInt64.ofNat (a + b * 16384 + c * 268435456 + d * 4398046511104 + 1)

/-- hash of the map output pixel -> packed source over the `h × w` view; `oob` = pixels written
outside the view -/
def mapSummary (w h : Nat) (writes : Array (Nat × Nat × Nat × UInt64)) : String := Id.run do
  -- writes: (row, col, n, packed source of first pixel); consecutive pixels add `step`
  let mut canvas : Array UInt64 := Array.replicate (w * h) 0
  let mut oob := 0
  for (row, col, n, v) in writes do
    for t in [0:n] do
      if row < h ∧ col + t < w then
        canvas := canvas.set! (row * w + col + t) (v + UInt64.ofNat t)
      else oob := oob + 1
  let mut hsh := fnvInit
  let mut unwritten := 0
  for v in canvas do
    hsh := fnvStep hsh v
    if v == 0 then unwritten := unwritten + 1
  return s!"sm={hsh.toNat} un={unwritten} oob={oob}"

/-- block / pixel runs -> (row, col, n, packed (sx, sy)); consecutive pixels have consecutive sx -/
def runWrites (bw bh : Nat) (runs : List Run) : Array (Nat × Nat × Nat × UInt64) :=
  runs.toArray.map fun r => (r.row, r.col, r.n, pack4 (r.ux * bw + r.px) (r.uy * bh + r.py) 0 0)

/-- planar runs are expanded per pixel (chroma index is not affine in `t`) -/
def plWrites (ssx : Nat) (runs : List PlRun) : Array (Nat × Nat × Nat × UInt64) := Id.run do
  let mut out := #[]
  for r in runs do
    for t in [0:r.n] do
      out := out.push (r.row, r.col + t, 1, pack4 (r.lx + t) r.ly (r.cx + (r.px + t) / ssx) r.cy)
  return out

structure Decode where
  ranges : Array (Nat × Nat)
  writes : Array (Nat × Nat × Nat × UInt64)

/-- run the model: `rect = none` → full decode of a `W × H` surface into a `W × H` view -/
def decodeModel (info : FormatInfo) (c : Color) (W H : Nat) (rect : Option (Nat × Nat × Nat × Nat))
    (pitch bufOff : Nat) : Option Decode := do
  let d ← getDecoder info.natives c
  let conv := d.ch != c.ch
  let nbpp := d.bpp
  let obpp := c.bpp
  let fastAt : Nat → Bool := fun pixelRow =>
    pitch % obpp == 0 && (bufOff + pixelRow * pitch) % c.pr.size == 0
  match info.family with
  | .pixel enc =>
    let runs := match rect with
      | none => if info.special == some c then copyFull W H else pixelFullLB conv nbpp enc W H
      | some (ox, oy, w, h) => pixelRect conv nbpp W ox oy w h
    some ⟨runs.toArray.map fun r => (r.byteLo pitch obpp, r.byteHi pitch obpp), runWrites 1 1 runs⟩
  | .block p bh _ =>
    let runs := match rect with
      | none => blockFull p bh fastAt conv nbpp W H
      | some (ox, oy, w, h) => blockRect p ⟨p.bw, bh, ox, oy, w, h⟩ fastAt conv nbpp
    some ⟨runs.toArray.map fun r => (r.byteLo pitch obpp, r.byteHi pitch obpp), runWrites p.bw bh runs⟩
  | .planar _ _ ssx ssy =>
    let runs := match rect with
      | none => planarFull conv nbpp ssx ssy W H
      | some (ox, oy, w, h) => planarRect conv nbpp ⟨ssx, ssy, H, ox, oy, w, h⟩
    some ⟨runs.toArray.map fun r => (r.row * pitch + r.col * obpp, r.row * pitch + (r.col + r.n) * obpp),
          plWrites ssx runs⟩

def summarize (fmt : String) (info : FormatInfo) (c : Color) (w h : Nat) (d : Decode) : String :=
  let native := (getDecoder info.natives c).getD default
  let b := bytesSummary d.ranges
  if isProbe fmt && observable native.ch c.ch then s!"{b} {mapSummary w h d.writes}"
  else s!"{b} sm=-"

def runC05 (line : String) : String :=
  match toks line with
  | "R" :: fmt :: rest =>
    match formatInfo fmt, natsOf rest with
    | some info, some [W, H, ox, oy, w, h, ci, pitch, bufOff, _api, _seed] =>
      match colorOfIdx ci with
      | some c =>
        if w = 0 ∨ h = 0 ∨ ox + w > W ∨ oy + h > H ∨ pitch < w * c.bpp then "bad-case" else
        match decodeModel info c W H (some (ox, oy, w, h)) pitch bufOff with
        | some d => "ok " ++ summarize fmt info c w h d
        | none => "panic"
      | none => "bad-case"
    | _, _ => "bad-case"
  | "F" :: fmt :: rest =>
    match formatInfo fmt, natsOf rest with
    | some info, some [W, H, ci, pitch, bufOff, _seed] =>
      match colorOfIdx ci with
      | some c =>
        if W = 0 ∨ H = 0 ∨ pitch < W * c.bpp then "bad-case" else
        match decodeModel info c W H none pitch bufOff with
        | some d => "ok " ++ summarize fmt info c W H d
        | none => "panic"
      | none => "bad-case"
    | _, _ => "bad-case"
  | "L" :: fmt :: rest =>
    match formatInfo fmt, natsOf rest with
    | some _, some [W, H, ci, _seed] =>
      if W = 0 ∨ H = 0 ∨ ci ≥ 12 then "bad-case" else "ok"
    | _, _ => "bad-case"
  | _ => "bad-case"

end Dds.Drv.C05

namespace Dds.Drv
def runC05 : String → String := C05.runC05
end Dds.Drv
