/-
C12, last clause: "the encoded bytes do not depend on which of the 12 colour formats … carried the same pixel values".

The conversion chain between the `ImageView` and the stored codes, for every encodable non-BC format and every one of
the 12 colour formats (`Channels` × `Precision`), as the code computes it:

* `EncoderSet::pick_encoder` (`Quant.pickEncoder` over the pinned `Quant.encoderTable`) chooses between
  - `Encoder::copy(color)` → `copy_directly` (src/encode/encoder.rs): the pixel's bytes as they are,
  - the integer encoders: `color_convert!(target[, snorm])` → `simple_color_convert`, and the hand-written
    `process_line`s of B8G8R8_UNORM / B8G8R8A8_UNORM / B8G8R8X8_UNORM (src/encode/uncompressed.rs):
    `convert_channels` to the target channels (src/color/mod.rs, `ch.rs`), then `p.swap(0, 2)`, `p[3] = 0xFF`,
    `s8::from_n8` / `s16::from_n16` per element,
  - `universal!` / `universal_subsample!` / `bi_planar_universal`: `as_rgba_f32` (src/color/mod.rs:
    `n8::f32` / `n16::f32` per channel, then `ch::*_to_rgba` with the `f32` defaults `ZERO = 0.0`, `ONE = 1.0`),
    then the format's closure on `[f32; 4]` pixels;
* the closures operator by operator on binary32 bit patterns (`ConvF32.lean`) wherever a bit-level quantiser exists:
  `n1 … n16::from_f32`, `s8::from_uf32` (`EncTotal.QuantBits`, `QuantF32`), `s16::from_uf32` (binary64,
  `EncTotal64`), `rgb9995f::from_f32` (`EncTotal.SharedExp`), `(p0 + p1) * 0.5` of R8G8_B8G8.  The scalar functions
  that have NO bit-level model (`fp16 / fp11 / fp10::from_f32`, `xr10::from_f32`, `yuv8 / yuv10 / yuv16::from_rgb_f32`)
  are PARAMETERS (`Ext`): the theorems hold for every choice of them, i.e. for these fields carrier independence is
  stated at the level "the same `f32` pixel reaches the closure, whatever the closure computes".

A pixel is the tuple of numbers its channels hold (`Pix`): U8 `0 … 255`, U16 `0 … 65535`, F32 the bit pattern.
Stored codes are the elements of the closure's `Out` type in memory order (`[u8; 3]` → 3 elements, `u16` → 1,
`[f32; 4]` → 4 …); the bytes are their little-endian images (`cast::ToLe::to_le`, `cast::as_bytes`; `copy_directly`
writes the native = little-endian bytes of the same numbers), a function of the element list and the format's
element width alone (`bytesOf`).

Model files import only core and other model files.
-/
import DdsModel.Conv
import DdsModel.Quant
import DdsModel.QuantF32
import DdsModel.EncTotal64
namespace Dds.EncCarrier
open Dds.CF32 Dds.Quant Dds.EncTotal

/-! ### pixels of an `ImageView` -/

/-- one pixel in one of the four `Channels` layouts: the numbers its channels hold -/
inductive Pix
  | gray (g : Nat)
  | alpha (a : Nat)
  | rgb (r g b : Nat)
  | rgba (r g b a : Nat)
  deriving Repr, DecidableEq, Inhabited

def Pix.chan : Pix → Chan
  | .gray _ => .gray | .alpha _ => .alpha | .rgb .. => .rgb | .rgba .. => .rgba

/-- the channel values in memory order -/
def Pix.vals : Pix → List Nat
  | .gray g => [g] | .alpha a => [a] | .rgb r g b => [r, g, b] | .rgba r g b a => [r, g, b, a]

/-- the same pixel with every channel value mapped (`from.map(|c| to_f32(…))`) -/
def Pix.map (f : Nat → Nat) : Pix → Pix
  | .gray g => .gray (f g) | .alpha a => .alpha (f a)
  | .rgb r g b => .rgb (f r) (f g) (f b) | .rgba r g b a => .rgba (f r) (f g) (f b) (f a)

/-- every channel value is below `n` -/
def Pix.below (n : Nat) : Pix → Prop
  | .gray g => g < n | .alpha a => a < n
  | .rgb r g b => r < n ∧ g < n ∧ b < n | .rgba r g b a => r < n ∧ g < n ∧ b < n ∧ a < n

/-! ### `Norm` and `convert_channels` (src/color/mod.rs, src/color/ch.rs) -/

/-- `Norm::ONE`: `u8::MAX`, `u16::MAX`, `1.0_f32` -/
def normOne : Prec → Nat
  | .u8 => 255 | .u16 => 65535 | .f32 => CF32.one
/-- `Norm::ZERO`: `0`, `0`, `0.0_f32` (bit pattern 0) -/
def normZero : Prec → Nat := fun _ => 0

/-- `convert_channels::<P>(from, to, …)` for one pixel: the 16-way `match (from, to)`;
`fill(ONE)` / `fill(ZERO)` for the pairs without a common channel, `ch::*` otherwise -/
def convertChannels (p : Prec) (to : Chan) (px : Pix) : Pix :=
  let one := normOne p
  let z := normZero p
  match px, to with
  | .gray g, .gray => .gray g
  | .alpha a, .alpha => .alpha a
  | .rgb r g b, .rgb => .rgb r g b
  | .rgba r g b a, .rgba => .rgba r g b a
  | .gray _, .alpha => .alpha one                 -- (Grayscale, Alpha) => fill(ONE)
  | .rgb .., .alpha => .alpha one                 -- (Rgb, Alpha) => fill(ONE)
  | .alpha _, .gray => .gray z                 -- (Alpha, Grayscale) => fill(ZERO)
  | .alpha _, .rgb => .rgb z z z         -- (Alpha, Rgb) => fill(ZERO)
  | .gray g, .rgb => .rgb g g g                   -- grayscale_to_rgb
  | .gray g, .rgba => .rgba g g g one             -- grayscale_to_rgba
  | .alpha a, .rgba => .rgba z z z a     -- alpha_to_rgba
  | .rgb r _ _, .gray => .gray r                  -- rgb_to_grayscale
  | .rgb r g b, .rgba => .rgba r g b one          -- rgb_to_rgba
  | .rgba r _ _ _, .gray => .gray r               -- rgba_to_grayscale
  | .rgba _ _ _ a, .alpha => .alpha a             -- rgba_to_alpha
  | .rgba r g b _, .rgb => .rgb r g b             -- rgba_to_rgb

/-! ### `as_rgba_f32` -/

/-- an RGBA `f32` pixel: four binary32 bit patterns -/
structure Rgba where
  r : Nat
  g : Nat
  b : Nat
  a : Nat
  deriving Repr, DecidableEq, Inhabited

/-- `ch::grayscale_to_rgba`, `ch::alpha_to_rgba`, `ch::rgb_to_rgba`, identity — at `f32` -/
def toRgba (px : Pix) : Rgba :=
  match convertChannels .f32 .rgba px with
  | .rgba r g b a => ⟨r, g, b, a⟩
  | _ => ⟨0, 0, 0, 0⟩          -- not reached: the target is `Rgba`

/-- `n8::f32`, `n16::f32`, identity -/
def toF32 : Prec → Nat → Nat
  | .u8 => Conv.n8f32 | .u16 => Conv.n16f32 | .f32 => id

/-- `as_rgba_f32(color, …)` for one pixel.  U8 / U16: `convert_t_to_rgba_f32` = `from.map(to_f32)` followed by the
`ch::*_to_rgba::<f32>` function; F32: `convert_channels::<f32>(channels, Rgba, …)` (for `RGBA_F32` the buffer is used
as it is when it can be cast, which is the same values). -/
def asRgbaF32 (p : Prec) (px : Pix) : Rgba := toRgba (px.map (toF32 p))

/-! ### the integer encoders -/

/-- the target channels and the fix-ups of the format's integer encoder (`color_convert!(target)` or a hand-written
`process_line`): `(target, swap R/B, X := 0xFF)`; `none`: the format has no integer encoder -/
def intLayout (name : String) : Option (Chan × Bool × Bool) :=
  match name with
  | "R8G8B8_UNORM" => some (.rgb, false, false)         -- color_convert!(ColorFormat::RGB_U8)
  | "B8G8R8_UNORM" => some (.rgb, true, false)          -- convert_channels::<u8>(…, Rgb); p.swap(0, 2)
  | "R8G8B8A8_UNORM" => some (.rgba, false, false)      -- color_convert!(ColorFormat::RGBA_U8)
  | "R8G8B8A8_SNORM" => some (.rgba, false, false)      -- color_convert!(ColorFormat::RGBA_U8, snorm = true)
  | "B8G8R8A8_UNORM" => some (.rgba, true, false)       -- convert_channels::<u8>(…, Rgba); p.swap(0, 2)
  | "B8G8R8X8_UNORM" => some (.rgba, true, true)        -- …; p.swap(0, 2); p[3] = 0xFF
  | "R8_UNORM" | "R8_SNORM" => some (.gray, false, false)  -- color_convert!(ColorFormat::GRAYSCALE_U8[, snorm = true])
  | "A8_UNORM" => some (.alpha, false, false)           -- color_convert!(ColorFormat::ALPHA_U8)
  | "R16_UNORM" | "R16_SNORM" => some (.gray, false, false)  -- color_convert!(ColorFormat::GRAYSCALE_U16[, snorm = true])
  | "R16G16B16A16_UNORM" | "R16G16B16A16_SNORM" => some (.rgba, false, false)  -- color_convert!(ColorFormat::RGBA_U16[, …])
  | "R32_FLOAT" => some (.gray, false, false)           -- color_convert!(ColorFormat::GRAYSCALE_F32)
  | "R32G32B32_FLOAT" => some (.rgb, false, false)      -- color_convert!(ColorFormat::RGB_F32)
  | "R32G32B32A32_FLOAT" => some (.rgba, false, false)  -- color_convert!(ColorFormat::RGBA_F32)
  | _ => none

/-- `p.swap(0, 2)` on the elements of one pixel -/
def swapRB : List Nat → List Nat
  | r :: g :: b :: rest => b :: g :: r :: rest
  | l => l
/-- `p[3] = 0xFF` -/
def setX8 : List Nat → List Nat
  | r :: g :: b :: _ :: rest => r :: g :: b :: 0xFF :: rest
  | l => l

/-- `s8::from_n8` / `s16::from_n16` (`Quant.s8_from_n8`, `Quant.s16_from_n16`; F32: `unreachable!()`, never
requested by the table) -/
def snormOf : Prec → Nat → Nat
  | .u8 => s8_from_n8 | .u16 => s16_from_n16 | .f32 => id

/-- the stored elements of one pixel through the integer encoder -/
def convCodes (p : Prec) (t : Chan) (swap x8 snorm : Bool) (px : Pix) : List Nat :=
  let l := (convertChannels p t px).vals
  let l := if swap then swapRB l else l
  let l := if x8 then setX8 l else l
  if snorm then l.map (snormOf p) else l

/-! ### the `universal!` closures -/

/-- the scalar conversions of src/color/formats.rs that have no bit-level model: arbitrary functions of binary32 bit
patterns; `tie` is the zero-sign choice of `f32::max` in `rgb9995f::from_f32` (`EncTotal.SharedExp`) -/
structure Ext where
  /-- `fp16::from_f32` -/
  fp16 : Nat → Nat
  /-- `fp11::from_f32` -/
  fp11 : Nat → Nat
  /-- `fp10::from_f32` -/
  fp10 : Nat → Nat
  /-- `xr10::from_f32` -/
  xr10 : Nat → Nat
  /-- `yuv8::from_rgb_f32`: `[y, u, v]` -/
  yuv8 : Nat → Nat → Nat → Nat × Nat × Nat
  /-- `yuv10::from_rgb_f32` -/
  yuv10 : Nat → Nat → Nat → Nat × Nat × Nat
  /-- `yuv16::from_rgb_f32` -/
  yuv16 : Nat → Nat → Nat → Nat × Nat × Nat
  tie : Nat → Bool

/-- `[f(a), f(b), …]` for a quantiser that can panic (`from_norm`'s `debug_assert!` / `+ 1` overflow) -/
def mapO (f : Nat → Option Nat) : List Nat → Option (List Nat)
  | [] => some []
  | x :: rest =>
    match f x, mapO f rest with
    | some y, some ys => some (y :: ys)
    | _, _ => none

/-- `x << s` in `u32` -/
def shl32 (x s : Nat) : Nat := QuantBits.shl 32 x s

/-- the closure of `universal!(Out, …)` of a plain (one pixel → one `Out`) format on an RGBA `f32` pixel: the
elements of `Out` in memory order; `none` = a panic of the overflow-checking profile (never, C15) or not such a
format.  `adopt_gray` reads `ch::rgba_to_grayscale(rgba)[0]` = `r`. -/
def uni (Q : Ext) (name : String) (p : Rgba) : Option (List Nat) :=
  let n8 := QuantF32.n8
  let n16 := QuantF32.n16
  let s8 := QuantBits.s8
  let s16 := QuantBits.s16
  let n2 := QuantBits.n2
  match name with
  | "R8G8B8_UNORM" => some [n8 p.r, n8 p.g, n8 p.b]             -- |[r, g, b, _]| [r, g, b].map(n8::from_f32)
  | "B8G8R8_UNORM" => some [n8 p.b, n8 p.g, n8 p.r]             -- |[r, g, b, _]| [b, g, r].map(n8::from_f32)
  | "R8G8B8A8_UNORM" => some [n8 p.r, n8 p.g, n8 p.b, n8 p.a]   -- rgba = n8::from_f32
  | "R8G8B8A8_SNORM" => mapO s8 [p.r, p.g, p.b, p.a]            -- rgba = s8::from_uf32
  | "B8G8R8A8_UNORM" => some [n8 p.b, n8 p.g, n8 p.r, n8 p.a]   -- |[r, g, b, a]| [b, g, r, a].map(n8::from_f32)
  | "B8G8R8X8_UNORM" => some [n8 p.b, n8 p.g, n8 p.r, 0xFF]
  | "B5G6R5_UNORM" | "B5G5R5A1_UNORM" | "B4G4R4A4_UNORM" | "A4B4G4R4_UNORM" | "R10G10B10A2_UNORM" =>
    (QuantBits.encode name p.r p.g p.b p.a).map fun w => [w]    -- one `u16` / `u32`
  | "R8_UNORM" => some [n8 p.r]                                 -- gray = n8::from_f32
  | "R8_SNORM" => mapO s8 [p.r]
  | "R8G8_UNORM" => some [n8 p.r, n8 p.g]                       -- rg = n8::from_f32
  | "R8G8_SNORM" => mapO s8 [p.r, p.g]
  | "A8_UNORM" => some [n8 p.a]                                 -- |[_, _, _, a]| n8::from_f32(a)
  | "R16_UNORM" => some [n16 p.r]
  | "R16_SNORM" => mapO s16 [p.r]
  | "R16G16_UNORM" => some [n16 p.r, n16 p.g]
  | "R16G16_SNORM" => mapO s16 [p.r, p.g]
  | "R16G16B16A16_UNORM" => some [n16 p.r, n16 p.g, n16 p.b, n16 p.a]
  | "R16G16B16A16_SNORM" => mapO s16 [p.r, p.g, p.b, p.a]
  | "R11G11B10_FLOAT" =>                                        -- (b10 << 22) | (g11 << 11) | r11
    some [shl32 (Q.fp10 p.b) 22 ||| shl32 (Q.fp11 p.g) 11 ||| Q.fp11 p.r]
  | "R9G9B9E5_SHAREDEXP" => (SharedExp.fromF32 Q.tie p.r p.g p.b).map fun w => [w]
  | "R16_FLOAT" => some [Q.fp16 p.r]
  | "R16G16_FLOAT" => some [Q.fp16 p.r, Q.fp16 p.g]
  | "R16G16B16A16_FLOAT" => some [Q.fp16 p.r, Q.fp16 p.g, Q.fp16 p.b, Q.fp16 p.a]
  | "R32_FLOAT" => some [p.r]                                   -- gray = |r| r
  | "R32G32_FLOAT" => some [p.r, p.g]
  | "R32G32B32_FLOAT" => some [p.r, p.g, p.b]
  | "R32G32B32A32_FLOAT" => some [p.r, p.g, p.b, p.a]
  | "R10G10B10_XR_BIAS_A2_UNORM" =>                             -- (a << 30) | (b << 20) | (g << 10) | r
    some [shl32 (n2 p.a) 30 ||| shl32 (Q.xr10 p.b) 20 ||| shl32 (Q.xr10 p.g) 10 ||| Q.xr10 p.r]
  | "AYUV" => let (y, u, v) := Q.yuv8 p.r p.g p.b; some [v, u, y, n8 p.a]
  | "Y410" =>                                                   -- (a << 30) | (v << 20) | (y << 10) | u
    let (y, u, v) := Q.yuv10 p.r p.g p.b
    some [shl32 (n2 p.a) 30 ||| shl32 v 20 ||| shl32 y 10 ||| u]
  | "Y416" => let (y, u, v) := Q.yuv16 p.r p.g p.b; some [u, y, v, n16 p.a]
  | _ => none

/-- `pick_mid`: `((a + b) / 2)` in the next wider integer type -/
def pickMid (a b : Nat) : Nat := (a + b) / 2

/-- `to_rgbg`: `[r, g0, b, g1]` with `r = n8::from_f32((p0[0] + p1[0]) * 0.5)` -/
def toRgbg (p0 p1 : Rgba) : List Nat :=
  let n8 := QuantF32.n8
  [n8 (fmul (fadd p0.r p1.r) CF32.half), n8 p0.g, n8 (fmul (fadd p0.b p1.b) CF32.half), n8 p1.g]

/-- `to_yuy2` / `to_y216`: `[y0, u, y1, v]` -/
def toYuy2 (yuv : Nat → Nat → Nat → Nat × Nat × Nat) (p0 p1 : Rgba) : List Nat :=
  let (y0, u0, v0) := yuv p0.r p0.g p0.b
  let (y1, u1, v1) := yuv p1.r p1.g p1.b
  [y0, pickMid u0 u1, y1, pickMid v0 v1]

/-- `process_subsample`: the last partial block is filled up with its last pixel -/
def padBlock (bw : Nat) (ps : List Rgba) : List Rgba :=
  match ps.getLast? with
  | some l => ps ++ List.replicate (bw - ps.length) l
  | none => ps

/-- R1_UNORM: `out |= n1::from_f32(ch::rgba_to_grayscale(p)[0]) << (7 - i)` over the 8 pixels of a block -/
def r1Byte (ps : List Rgba) : Nat :=
  (List.range 8).foldl (fun out i => out ||| (QuantBits.n1 (ps.getD i default).r <<< (7 - i))) 0

/-- the macro-pixel closures of NV12 / P010 / P016: the four luma codes, then `[u, v]` = the sums of the four
chroma codes `/ 4`; `post` is the `<< 6` of P010 (identity otherwise) -/
def biPlanar (yuv : Nat → Nat → Nat → Nat × Nat × Nat) (post : Nat → Nat) (ps : List Rgba) : List Nat :=
  let c := ps.map fun p => yuv p.r p.g p.b
  c.map (fun t => post t.1) ++ [post ((c.map (·.2.1)).sum / 4), post ((c.map (·.2.2)).sum / 4)]

/-- block width (pixels per encoded unit): 2x1, 8x1 sub-sampled formats, 2x2 bi-planar (4 pixels, row-major) -/
def blockPixels (name : String) : Nat :=
  match name with
  | "R1_UNORM" => 8
  | "R8G8_B8G8_UNORM" | "G8R8_G8B8_UNORM" | "UYVY" | "YUY2" | "Y210" | "Y216" => 2
  | "NV12" | "P010" | "P016" => 4
  | _ => 1

/-- the closures of `universal_subsample!` (src/encode/sub_sampled.rs) and `bi_planar_universal`
(src/encode/bi_planar.rs) on the RGBA `f32` pixels of one block: the stored elements (bi-planar: the four plane-1
elements, then the plane-2 pair) -/
def uniBlock (Q : Ext) (name : String) (ps : List Rgba) : Option (List Nat) :=
  match name, padBlock (blockPixels name) ps with
  | "R8G8_B8G8_UNORM", [p0, p1] => some (toRgbg p0 p1)
  | "G8R8_G8B8_UNORM", [p0, p1] =>
    match toRgbg p0 p1 with
    | [r, g0, b, g1] => some [g0, r, g1, b]
    | _ => none
  | "YUY2", [p0, p1] => some (toYuy2 Q.yuv8 p0 p1)
  | "UYVY", [p0, p1] =>
    match toYuy2 Q.yuv8 p0 p1 with
    | [y0, u, y1, v] => some [u, y0, v, y1]
    | _ => none
  | "Y216", [p0, p1] => some (toYuy2 Q.yuv16 p0 p1)
  | "Y210", [p0, p1] => some ((toYuy2 Q.yuv16 p0 p1).map (· &&& 0xFFC0))
  | "R1_UNORM", [q0, q1, q2, q3, q4, q5, q6, q7] => some [r1Byte [q0, q1, q2, q3, q4, q5, q6, q7]]
  | "NV12", [q0, q1, q2, q3] => some (biPlanar Q.yuv8 id [q0, q1, q2, q3])
  | "P010", [q0, q1, q2, q3] => some (biPlanar Q.yuv10 (QuantBits.shl 16 · 6) [q0, q1, q2, q3])
  | "P016", [q0, q1, q2, q3] => some (biPlanar Q.yuv16 id [q0, q1, q2, q3])
  | _, _ => none

/-! ### which encoder runs: `pick_encoder` -/

/-- the encoder `EncoderSet::encode` runs for a colour format, resolved to what it does to a pixel -/
inductive Path
  /-- `Encoder::copy`: `copy_directly` -/
  | copy
  /-- integer encoder: `convert_channels` to `t`, then `swap(0, 2)`, `p[3] = 0xFF`, SNORM -/
  | conv (t : Chan) (swap x8 snorm : Bool)
  /-- `universal!`: `as_rgba_f32`, then the closure -/
  | uni
  /-- `pick_encoder` would panic, or picked a dithering encoder without dithering (excluded: `C12.pick_encoder_exact`) -/
  | bad
  deriving Repr, DecidableEq, Inhabited

/-- `pick_encoder(color, Dithering::None)` over the pinned table of the format -/
def pathOf (name : String) (c : Color) : Path :=
  match pickEncoder (encoderTable name) c with
  | none => .bad
  | some e =>
    match e.kind with
    | .copy _ => .copy
    | .convert _ snorm =>
      match intLayout name with
      | some (t, swap, x8) => .conv t swap x8 snorm
      | none => .bad
    | .universal => .uni
    | .dither => .bad

/-- the stored elements of one pixel along a path -/
def codesVia (Q : Ext) (name : String) (p : Prec) (path : Path) (px : Pix) : Option (List Nat) :=
  match path with
  | .copy => some px.vals
  | .conv t swap x8 snorm => some (convCodes p t swap x8 snorm px)
  | .uni => uni Q name (asRgbaF32 p px)
  | .bad => none

/-- `dds::encode` of a plain format, one pixel: the stored elements of the pixel `px` of an image whose colour format
is (`px.chan`, `p`) -/
def pixelCodes (Q : Ext) (name : String) (p : Prec) (px : Pix) : Option (List Nat) :=
  codesVia Q name p (pathOf name ⟨px.chan, p⟩) px

/-- the same for one block of a sub-sampled / bi-planar format: the pixels of the block (all in the channel layout
`ch` of the image) go through `as_rgba_f32`, then the block closure; these formats have universal encoders only -/
def blockCodes (Q : Ext) (name : String) (p : Prec) (ch : Chan) (pxs : List Pix) : Option (List Nat) :=
  match pathOf name ⟨ch, p⟩ with
  | .uni => uniBlock Q name (pxs.map (asRgbaF32 p))
  | _ => none

/-! ### bytes -/

/-- bytes of one stored element: `size_of` the element type of `Out` -/
def elemBytes (name : String) : Nat :=
  match name with
  | "R8G8B8_UNORM" | "B8G8R8_UNORM" | "R8G8B8A8_UNORM" | "R8G8B8A8_SNORM" | "B8G8R8A8_UNORM" | "B8G8R8X8_UNORM"
  | "R8_SNORM" | "R8_UNORM" | "R8G8_UNORM" | "R8G8_SNORM" | "A8_UNORM" | "AYUV"
  | "R1_UNORM" | "R8G8_B8G8_UNORM" | "G8R8_G8B8_UNORM" | "UYVY" | "YUY2" | "NV12" => 1
  | "B5G6R5_UNORM" | "B5G5R5A1_UNORM" | "B4G4R4A4_UNORM" | "A4B4G4R4_UNORM" | "R16_UNORM" | "R16_SNORM"
  | "R16G16_UNORM" | "R16G16_SNORM" | "R16G16B16A16_UNORM" | "R16G16B16A16_SNORM" | "R16_FLOAT" | "R16G16_FLOAT"
  | "R16G16B16A16_FLOAT" | "Y416" | "Y210" | "Y216" | "P010" | "P016" => 2
  | _ => 4

/-- little-endian bytes of an element -/
def leBytes : Nat → Nat → List Nat
  | 0, _ => []
  | n + 1, x => x % 256 :: leBytes n (x / 256)

/-- the bytes written for a list of stored elements -/
def bytesOf (name : String) (codes : List Nat) : List Nat := codes.flatMap (leBytes (elemBytes name))

/-- encoded bytes of one pixel of a plain format -/
def pixelBytes (Q : Ext) (name : String) (p : Prec) (px : Pix) : Option (List Nat) :=
  (pixelCodes Q name p px).map (bytesOf name)

/-- encoded bytes of one block of a sub-sampled / bi-planar format -/
def blockBytes (Q : Ext) (name : String) (p : Prec) (ch : Chan) (pxs : List Pix) : Option (List Nat) :=
  (blockCodes Q name p ch pxs).map (bytesOf name)

/-! ### the formats whose whole chain is bit-level -/

/-- an instance of the parameters: every unmodelled conversion is constant 0.  Used to EVALUATE the model on the
formats of `bitLevelNames`, whose closures consult no field of `Ext` except `tie` (irrelevant: C15
`sharedexp_tie_irrelevant`) — the `carrier` case lines of the tie and the examples of Theorems/C12. -/
def extZero : Ext := ⟨fun _ => 0, fun _ => 0, fun _ => 0, fun _ => 0, fun _ _ _ => (0, 0, 0), fun _ _ _ => (0, 0, 0),
  fun _ _ _ => (0, 0, 0), fun _ => false⟩

/-- the formats whose conversion chain is modelled at the bit level from the `ImageView` to the bytes: UNORM / SNORM /
packed / binary32 / shared-exponent plain formats, R1_UNORM and the two RGBG formats -/
def bitLevelNames : List String :=
  ["R8G8B8_UNORM", "B8G8R8_UNORM", "R8G8B8A8_UNORM", "R8G8B8A8_SNORM", "B8G8R8A8_UNORM", "B8G8R8X8_UNORM",
   "B5G6R5_UNORM", "B5G5R5A1_UNORM", "B4G4R4A4_UNORM", "A4B4G4R4_UNORM", "R8_SNORM", "R8_UNORM", "R8G8_UNORM",
   "R8G8_SNORM", "A8_UNORM", "R16_UNORM", "R16_SNORM", "R16G16_UNORM", "R16G16_SNORM", "R16G16B16A16_UNORM",
   "R16G16B16A16_SNORM", "R10G10B10A2_UNORM", "R9G9B9E5_SHAREDEXP", "R32_FLOAT", "R32G32_FLOAT", "R32G32B32_FLOAT",
   "R32G32B32A32_FLOAT", "R1_UNORM", "R8G8_B8G8_UNORM", "G8R8_G8B8_UNORM"]

/-- the pixels of one row in blocks of `bw` (the last one may be short: `uniBlock` pads it) -/
def chunksOf (bw : Nat) : (fuel : Nat) → List Pix → List (List Pix)
  | 0, _ => []
  | fuel + 1, l => if l.isEmpty then [] else l.take bw :: chunksOf bw fuel (l.drop bw)

/-- the bytes of one row of pixels in the colour format (`ch`, `p`) -/
def rowBytes (Q : Ext) (name : String) (p : Prec) (ch : Chan) (row : List Pix) : Option (List Nat) :=
  let bw := blockPixels name
  let parts :=
    if bw = 1 then row.map (pixelBytes Q name p)
    else (chunksOf bw row.length row).map (blockBytes Q name p ch)
  parts.foldr (fun x acc => match x, acc with | some a, some b => some (a ++ b) | _, _ => none) (some [])

/-! ### the format lists -/

/-- the 35 plain formats (one pixel → one stored unit) -/
def plainNames : List String := formatNames.take 35
/-- the 7 sub-sampled and 3 bi-planar formats -/
def blockNames : List String := formatNames.drop 35

end Dds.EncCarrier
