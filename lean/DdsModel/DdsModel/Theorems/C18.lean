import DdsModel.HeaderTables
import DdsModel.Drv.C18
namespace Dds.C18
open Dds
theorem placeholder : True := trivial
end Dds.C18
