/-
C18 — Permissive parsing repairs known writer bugs and never harms a consistent file.

Only property theorems and non-vacuity examples live here; helper lemmas are in
`Proofs/Header.lean`.  `pi` is any pixel-info detection (`PixelInfo::from_header`); layout
lengths are those of `Layout.lean` (C02).
-/
import DdsModel.Proofs.Header
import DdsModel.HeaderTables
import DdsModel.Drv.C18
namespace Dds.C18
open Dds

/-- Without a file length permissive parsing changes nothing that strict parsing accepts:
for every raw header, strict `ok h` implies permissive `ok h`. -/
theorem strict_implies_permissive (pi : Header → Option PixelInfo) (raw : RawHeader) (h : Header)
    (hs : Header.fromRaw pi ParseOptions.strict raw = .ok h) :
    Header.fromRaw pi (ParseOptions.newPermissive none) raw = .ok h := by
  rw [Header.fromRaw_strict] at hs
  rw [Header.fromRaw_perm, Header.fromRawNoFix_strict_perm hs]
  rfl

/-- With a file length: if the strictly parsed header's layout length equals
`file_len - (magic + header bytes)`, permissive parsing returns the same header.
(If the pixel info of the header is unknown, permissive parsing leaves it alone as well.) -/
theorem consistent_untouched (pi : Header → Option PixelInfo) (raw : RawHeader) (h : Header)
    (fileLen : Nat) (hs : Header.fromRaw pi ParseOptions.strict raw = .ok h)
    (hcons : ∀ px, pi h = some px → h.layoutLen px = some (fileLen - (4 + h.byteLen))) :
    Header.fromRaw pi (ParseOptions.newPermissive (some fileLen)) raw = .ok h := by
  rw [Header.fromRaw_strict] at hs
  rw [Header.fromRaw_perm, Header.fromRawNoFix_strict_perm hs]
  simp only [Except.ok.injEq]
  unfold Header.fixBasedOnFileLen
  simp only
  cases hsub : ckSub fileLen (4 + h.byteLen) with
  | none => rfl
  | some expected =>
    simp only
    cases hpx : pi h with
    | none => rfl
    | some px =>
      simp only
      have he : expected = fileLen - (4 + h.byteLen) := by
        unfold ckSub at hsub
        split at hsub
        · cases hsub; rfl
        · cases hsub
      have ht : Header.testLen px expected h = true := by
        simp [Header.testLen, hcons px hpx, he]
      rw [Header.fixCore_of_test ht]

def exHeader : Header := .dx10 (Dx10Header.new .cubeMap 16 16 0 71)
example : Header.fromRaw pixelInfoOf ParseOptions.strict (exHeader.toRaw pixelInfoOf) = .ok exHeader ∧
    pixelInfoOf exHeader = some (.block 8 4 4) ∧
    exHeader.layoutLen (.block 8 4 4) = some (916 - (4 + exHeader.byteLen)) :=
  ⟨by rw [Header.fromRaw_strict]; exact Header.fromRawNoFix_toRaw _ _ _ (by decide), by decide, by decide⟩

/-- The file-length repair touches nothing but the mip count and the array size, and whenever
the permissive result differs from the pre-repair header in mip count or array size (other
than 0 -> 1), its layout length equals the file's data length `file_len - (magic + header)`. -/
theorem repair_exact (pi : Header → Option PixelInfo) (raw : RawHeader) (fileLen : Nat)
    (h0 h1 : Header) (hp0 : Header.fromRaw pi (ParseOptions.newPermissive none) raw = .ok h0)
    (hp1 : Header.fromRaw pi (ParseOptions.newPermissive (some fileLen)) raw = .ok h1) :
    h1.core = h0.core ∧
    ((h1.mipmapCount ≠ h0.mipmapCount ∨
        (h1.arraySize ≠ h0.arraySize ∧ ¬ (h0.arraySize = 0 ∧ h1.arraySize = 1))) →
      ∃ px, pi h0 = some px ∧ 4 + h1.byteLen ≤ fileLen ∧
        h1.layoutLen px = some (fileLen - (4 + h1.byteLen))) := by
  rw [Header.fromRaw_perm] at hp0 hp1
  cases hn : Header.fromRawNoFix true raw with
  | error e => rw [hn] at hp0; cases hp0
  | ok a =>
    rw [hn] at hp0 hp1
    simp only [Except.ok.injEq, Header.fixBasedOnFileLen_none] at hp0 hp1
    subst hp0
    subst hp1
    refine ⟨Header.fixBasedOnFileLen_core pi _ a, ?_⟩
    have hbl : (a.fixBasedOnFileLen pi (some fileLen)).1.byteLen = a.byteLen :=
      Header.byteLen_of_core (Header.fixBasedOnFileLen_core pi _ a)
    rw [hbl]
    unfold Header.fixBasedOnFileLen
    simp only
    cases hsub : ckSub fileLen (4 + a.byteLen) with
    | none => simp
    | some expected =>
      simp only
      cases hpx : pi a with
      | none => simp
      | some px =>
        simp only
        have he : expected = fileLen - (4 + a.byteLen) ∧ 4 + a.byteLen ≤ fileLen := by
          unfold ckSub at hsub
          split at hsub
          · cases hsub; exact ⟨rfl, by assumption⟩
          · cases hsub
        intro hchg
        cases hres : (a.fixCore (Header.testLen px expected) expected).2 with
        | true =>
          have := Header.fixCore_true hres
          refine ⟨px, rfl, he.2, ?_⟩
          simpa [Header.testLen, he.1] using this
        | false =>
          exfalso
          have hf := Header.fixCore_false hres
          rw [hf] at hchg
          cases hz : a.arrayZero? expected with
          | none => rw [hz] at hchg; simp at hchg
          | some a1 =>
            obtain ⟨x, rfl, hx0, _, rfl⟩ := Header.arrayZero?_some hz
            rw [hz] at hchg
            simp [Header.mipmapCount, Header.arraySize, hx0] at hchg

end Dds.C18
