/-
C18 — Permissive parsing repairs known writer bugs and never harms a consistent file.

Only property theorems and non-vacuity examples live here; helper lemmas are in
`Proofs/Header.lean`.  `pi` is any pixel-info detection (`PixelInfo::from_header`); layout
lengths are those of `Layout.lean` (C02).
-/
import DdsModel.Proofs.Header
import DdsModel.Proofs.HeaderDefects
import DdsModel.Proofs.HeaderLayout
import DdsModel.HeaderTables
import DdsModel.Drv.C18
namespace Dds.C18
open Dds

/-- Without a file length permissive parsing changes nothing that strict parsing accepts:
for every raw header, strict `ok h` implies permissive `ok h`. -/
theorem strict_implies_permissive (pi : Header → Option PixelInfo) (raw : RawHeader) (h : Header)
    (hs : Header.fromRaw pi ParseOptions.strict raw = .ok h) :
    Header.fromRaw pi (ParseOptions.newPermissive none) raw = .ok h := by
  rw [Header.fromRaw_strict] at hs
  rw [Header.fromRaw_perm, Header.fromRawNoFix_strict_perm hs]
  rfl

/-- With a file length: if the strictly parsed header's layout length equals
`file_len - (magic + header bytes)`, permissive parsing returns the same header.
(If the pixel info of the header is unknown, permissive parsing leaves it alone as well.) -/
theorem consistent_untouched (pi : Header → Option PixelInfo) (raw : RawHeader) (h : Header)
    (fileLen : Nat) (hs : Header.fromRaw pi ParseOptions.strict raw = .ok h)
    (hcons : ∀ px, pi h = some px → h.layoutLen px = some (fileLen - (4 + h.byteLen))) :
    Header.fromRaw pi (ParseOptions.newPermissive (some fileLen)) raw = .ok h := by
  rw [Header.fromRaw_strict] at hs
  rw [Header.fromRaw_perm, Header.fromRawNoFix_strict_perm hs]
  simp only [Except.ok.injEq]
  unfold Header.fixBasedOnFileLen
  simp only
  cases hsub : ckSub fileLen (4 + h.byteLen) with
  | none => rfl
  | some expected =>
    simp only
    cases hpx : pi h with
    | none => rfl
    | some px =>
      simp only
      have he : expected = fileLen - (4 + h.byteLen) := by
        unfold ckSub at hsub
        split at hsub
        · cases hsub; rfl
        · cases hsub
      have ht : Header.testLen px expected h = true := by
        simp [Header.testLen, hcons px hpx, he]
      rw [Header.fixCore_of_test ht]

def exHeader : Header := .dx10 (Dx10Header.new .cubeMap 16 16 0 71)
example : Header.fromRaw pixelInfoOf ParseOptions.strict (exHeader.toRaw pixelInfoOf) = .ok exHeader ∧
    pixelInfoOf exHeader = some (.block 8 4 4) ∧
    exHeader.layoutLen (.block 8 4 4) = some (916 - (4 + exHeader.byteLen)) :=
  ⟨by rw [Header.fromRaw_strict]; exact Header.fromRawNoFix_toRaw _ _ _ (by decide), by decide, by decide⟩

/-- The file-length repair touches nothing but the mip count and the array size, and whenever
the permissive result differs from the pre-repair header in mip count or array size (other
than 0 -> 1), its layout length equals the file's data length `file_len - (magic + header)`. -/
theorem repair_exact (pi : Header → Option PixelInfo) (raw : RawHeader) (fileLen : Nat)
    (h0 h1 : Header) (hp0 : Header.fromRaw pi (ParseOptions.newPermissive none) raw = .ok h0)
    (hp1 : Header.fromRaw pi (ParseOptions.newPermissive (some fileLen)) raw = .ok h1) :
    h1.core = h0.core ∧
    ((h1.mipmapCount ≠ h0.mipmapCount ∨
        (h1.arraySize ≠ h0.arraySize ∧ ¬ (h0.arraySize = 0 ∧ h1.arraySize = 1))) →
      ∃ px, pi h0 = some px ∧ 4 + h1.byteLen ≤ fileLen ∧
        h1.layoutLen px = some (fileLen - (4 + h1.byteLen))) := by
  rw [Header.fromRaw_perm] at hp0 hp1
  cases hn : Header.fromRawNoFix true raw with
  | error e => rw [hn] at hp0; cases hp0
  | ok a =>
    rw [hn] at hp0 hp1
    simp only [Except.ok.injEq, Header.fixBasedOnFileLen_none] at hp0 hp1
    subst hp0
    subst hp1
    refine ⟨Header.fixBasedOnFileLen_core pi _ a, ?_⟩
    have hbl : (a.fixBasedOnFileLen pi (some fileLen)).1.byteLen = a.byteLen :=
      Header.byteLen_of_core (Header.fixBasedOnFileLen_core pi _ a)
    rw [hbl]
    unfold Header.fixBasedOnFileLen
    simp only
    cases hsub : ckSub fileLen (4 + a.byteLen) with
    | none => simp
    | some expected =>
      simp only
      cases hpx : pi a with
      | none => simp
      | some px =>
        simp only
        have he : expected = fileLen - (4 + a.byteLen) ∧ 4 + a.byteLen ≤ fileLen := by
          unfold ckSub at hsub
          split at hsub
          · cases hsub; exact ⟨rfl, by assumption⟩
          · cases hsub
        intro hchg
        cases hres : (a.fixCore (Header.testLen px expected) expected).2 with
        | true =>
          have := Header.fixCore_true hres
          refine ⟨px, rfl, he.2, ?_⟩
          simpa [Header.testLen, he.1] using this
        | false =>
          exfalso
          have hf := Header.fixCore_false hres
          rw [hf] at hchg
          cases hz : a.arrayZero? expected with
          | none => rw [hz] at hchg; simp at hchg
          | some a1 =>
            obtain ⟨x, rfl, hx0, _, rfl⟩ := Header.arrayZero?_some hz
            rw [hz] at hchg
            simp [Header.mipmapCount, Header.arraySize, hx0] at hchg


/-- **A successful repair is a fixed point**: when the file-length repair reports a header whose layout
matches the file (second component `true`), repairing that header again with the same file length
returns it unchanged — a repaired header is a consistent header, so re-reading a file whose header was
rewritten from the repaired value changes nothing (the length-independent part of `consistent_untouched`
applied to the repair's own output). `…_partial`: the unmatched case (second component `false`, the
header is returned as parsed apart from array size 0 → 1) is not covered by this statement. -/
theorem repair_idempotent_of_match_partial (pi : Header → Option PixelInfo) (hs : PiStable pi)
    (fileLen : Nat) (a : Header) (hm : (a.fixBasedOnFileLen pi (some fileLen)).2 = true) :
    (a.fixBasedOnFileLen pi (some fileLen)).1.fixBasedOnFileLen pi (some fileLen) =
      ((a.fixBasedOnFileLen pi (some fileLen)).1, true) := by
  have hcore := Header.fixBasedOnFileLen_core pi (some fileLen) a
  have hbl := Header.byteLen_of_core hcore
  have hpi : pi (a.fixBasedOnFileLen pi (some fileLen)).1 = pi a :=
    hs _ _ (by rw [← Header.fmtKey_core, hcore, Header.fmtKey_core])
  generalize hr : a.fixBasedOnFileLen pi (some fileLen) = r at *
  unfold Header.fixBasedOnFileLen at hr
  simp only at hr
  cases hsub : ckSub fileLen (4 + a.byteLen) with
  | none => rw [hsub] at hr; subst hr; cases hm
  | some expected =>
    rw [hsub] at hr
    simp only at hr
    cases hpx : pi a with
    | none => rw [hpx] at hr; subst hr; cases hm
    | some px =>
      rw [hpx] at hr
      simp only at hr
      have ht : Header.testLen px expected r.1 = true := by
        rw [← hr]; exact Header.fixCore_true (by rw [hr]; exact hm)
      unfold Header.fixBasedOnFileLen
      simp only [hbl, hsub, hpi, hpx]
      exact Header.fixCore_of_test ht

/-- non-vacuity: a cube map written with array size 6 (defect) is repaired to array size 1 with a match,
and repairing the result again is the identity -/
example : ((Header.dx10 { (Dx10Header.new .cubeMap 16 16 0 71) with arraySize := 6 }).fixBasedOnFileLen
      pixelInfoOf (some 916)).2 = true := by decide

/-- the pinned pixel-info detection looks at the format only -/
theorem pixelInfoOf_stable : PiStable pixelInfoOf := by
  intro a b hk
  cases a with
  | dx9 x =>
    cases b with
    | dx9 y =>
      simp only [Header.fmtKey, Prod.mk.injEq] at hk
      simp only [pixelInfoOf, hk.1]
    | dx10 y =>
      simp only [Header.fmtKey, Prod.mk.injEq] at hk
      -- a DX9 header with four CC DX10 and DXGI code 0: both have no pixel info
      simp only [pixelInfoOf, hk.1, ← hk.2]
      decide
  | dx10 x =>
    cases b with
    | dx9 y =>
      simp only [Header.fmtKey, Prod.mk.injEq] at hk
      simp only [pixelInfoOf, ← hk.1, hk.2]
      decide
    | dx10 y =>
      simp only [Header.fmtKey, Prod.mk.injEq] at hk
      simp only [pixelInfoOf, hk.2]

/-- Every single known defect (`Defect.Applies`: array size 0 / 6-for-one-cube / 3D array size,
mip count such that the true count is 1, the full chain or one off, dropped mip flags, header
size 24, pixel-format size 0 or 24, missing FourCC flag, bad alpha mode) applied to `to_raw h`
of a valid header `h` (well-formed, with a layout of positive length `L`, array size not 0) is
parsed — permissively, with the true file length — to a header whose layout length is `L`.
The result need not be `h` itself: an earlier candidate is accepted only when its length is
`L` as well (and the alpha mode of a bad-alpha file is `Unknown`). -/
theorem defect_recovered (pi : Header → Option PixelInfo) (hs : PiStable pi) (h : Header)
    (hwf : h.WF) (px : PixelInfo) (hpx : pi h = some px) (L : Nat) (hL : h.layoutLen px = some L)
    (hLpos : 0 < L) (harr : h.arraySize ≠ 0) (d : Defect) (happ : d.Applies h) :
    ∃ h', Header.fromRaw pi (ParseOptions.newPermissive (some (4 + h.byteLen + L)))
        (d.apply (h.toRaw pi)) = .ok h' ∧ h'.layoutLen px = some L ∧ pi h' = some px :=
  defect_recovered_single pi hs h hwf px hpx L hL hLpos harr d happ

/-- Array size 0 combined with a mip defect (wrong count or dropped flags). -/
theorem defect_recovered_array0_with_mips (pi : Header → Option PixelInfo) (hs : PiStable pi)
    (x : Dx10Header) (hwf : (Header.dx10 x).WF) (px : PixelInfo) (hpx : pi (.dx10 x) = some px) (L : Nat)
    (hL : (Header.dx10 x).layoutLen px = some L) (hLpos : 0 < L) (harr : x.arraySize = 1)
    (md : Defect) (hmd : (∃ m, md = .mipCount m) ∨ md = .dropMipFlags) (happ : md.Applies (.dx10 x)) :
    ∃ h', Header.fromRaw pi (ParseOptions.newPermissive (some (4 + (Header.dx10 x).byteLen + L)))
        (Defect.applyAll [.arraySize 0, md] ((Header.dx10 x).toRaw pi)) = .ok h' ∧
      h'.layoutLen px = some L ∧ pi h' = some px :=
  defect_recovered_array0_mips pi hs x hwf px hpx L hL hLpos harr md hmd happ

def exMip : Header := .dx10 { Dx10Header.new .image 16 16 0 71 with mipmapCount := 5 }
example : exMip.WF ∧ pixelInfoOf exMip = some (.block 8 4 4) ∧ exMip.layoutLen (.block 8 4 4) = some 184 ∧
    exMip.arraySize ≠ 0 ∧ (Defect.mipCount 4).Applies exMip ∧ (Defect.mipCount 1).Applies exMip ∧
    (Defect.arraySize 0).Applies exMip ∧ (Defect.miscFlags2 7).Applies exMip ∧
    Defect.dropMipFlags.Applies exMip ∧ (Defect.pfSize 0).Applies exMip := by decide
example : (Defect.arraySize 6).Applies exHeader ∧
    (Defect.pfFlags 0).Applies (.dx9 (Dx9Header.new .image 4 4 0 (.fourCC FOURCC_DXT1))) := by decide


/-- The model folds a panic inside the `test` closure of `fix_based_on_file_len` into "length
unknown"; this is sound because there is none: for every well-formed header (every parsed
header and every repair candidate is one, `C09.parsed_wf`) and well-formed pixel info,
`DataLayout::from_header_with` returns and `data_len()` of the layout is defined and `< 2^64`. -/
theorem repair_no_panic (h : Header) (hwf : h.WF) (px : PixelInfo) (hp : px.WF) :
    layoutOf h.toLayoutHeader px ≠ none ∧
    ∀ L, layoutOf h.toLayoutHeader px = some (.ok L) → ∃ n, L.dataLenP = some n ∧ n < U64 :=
  Header.layoutLen_no_panic hwf hp

/-- every pixel info of the format tables (rows translated from the source on every run; the name is historical) is
well-formed (block sizes 1..15 etc.) -/
theorem pinned_pixel_infos_wf :
    (∀ r ∈ dxgiRows, ∀ px, r.px = some px → px.WF) ∧
    (∀ f ∈ Format.all, ∀ px, f.pixelInfo = some px → px.WF) := by
  constructor <;> decide +kernel

end Dds.C18
