/-
C03x — the BC7 and BC6H part of C03 ("blocks decode to the values the format specification defines").

Models: `Bc7.lean`, `Bc6.lean`, `BcTables.lean` (code-shaped) against `Bc7Spec.lean`, `Bc6Spec.lean` and the
`spec*` tables (specification-shaped, pinned).  Every theorem quantifies over ALL blocks / values.

Whole-block results (Proofs/Bc7Glue*.lean, Proofs/Bc6Glue*.lean):
  * `bc7_impl_eq_spec` : `Bc7.decodeBlock b = Bc7Spec.decodeBlock b` for EVERY block (modes 0..7 and the reserved mode 8);
  * `bc6_impl_eq_spec` : `Bc6.decodeBlock signed b = Bc6Spec.decodeBlock signed b` for EVERY block, both formats
    (14 modes and the four reserved codes).
The steps that compose them are stated here too: `decompress_single_index_spec` (fix-up index decompression = anchor
rule), `bc6_extract_eq_fields` (`consume!` sequences = spec field layouts), `bc6_endpoints_eq_spec` (sign extension +
delta transform), `bc6_no_i32_overflow` (unquantize / interpolate / finish never leave `i32`), plus the older lemmas on
mode selection, stream reads, endpoint widening, p-bits, weights, interpolation, tables and output precisions.
-/
import DdsModel.Proofs.BcTables
import DdsModel.Proofs.Bc7
import DdsModel.Proofs.Bc6
import DdsModel.Proofs.BcHalf
import DdsModel.Proofs.Bc7Glue
import DdsModel.Proofs.Bc6Glue
import DdsModel.Proofs.Bc6GlueNoOverflow
namespace Dds.C03x
open Dds.BcTables

/-! ## tables -/

/-- The pinned specification tables are well formed: 64 partitions each; pixel 0 is in subset 0 (so subset 0 is
non-empty and anchored at 0); every entry is a valid subset number; the anchor of every further subset lies
inside that subset (so every subset is non-empty and the anchors lie in pairwise distinct subsets). -/
theorem partition_tables_wellformed :
    specP2.length = 64 ∧ specP3.length = 64 ∧
    ∀ p, p < 64 →
      specSubset 2 p 0 = 0 ∧ (∀ i, i < 16 → specSubset 2 p i ≤ 1) ∧
      0 < specAnchor2.getD p 0 ∧ specAnchor2.getD p 0 < 16 ∧ specSubset 2 p (specAnchor2.getD p 0) = 1 ∧
      specSubset 3 p 0 = 0 ∧ (∀ i, i < 16 → specSubset 3 p i ≤ 2) ∧
      specAnchor3a.getD p 0 < 16 ∧ specAnchor3b.getD p 0 < 16 ∧
      specSubset 3 p (specAnchor3a.getD p 0) = 1 ∧ specSubset 3 p (specAnchor3b.getD p 0) = 2 := by
  decide +kernel

/-- The tables the code builds from its string literals (`subset2`/`subset3` const fns, bit-packed maps,
position-sorted fix-up indices) are the specification's partition and anchor tables; the fix-ups satisfy the
`debug_assert!`s of `Indexes::from_compressed_p2/p3`. -/
theorem partition_tables_impl_eq_spec :
    ∀ p, p < 64 →
      (∀ i, i < 16 → subset2Index (implP2 p) i = specSubset 2 p i) ∧
      (implP2 p).2 = specAnchor2.getD p 0 ∧
      (∀ i, i < 16 → subset3Index (implP3 p) i = specSubset 3 p i) ∧
      (implP3 p).2.1 = min (specAnchor3a.getD p 0) (specAnchor3b.getD p 0) ∧
      (implP3 p).2.2 = max (specAnchor3a.getD p 0) (specAnchor3b.getD p 0) ∧
      0 < (implP2 p).2 ∧ 0 < (implP3 p).2.1 ∧ (implP3 p).2.1 < (implP3 p).2.2 ∧ (implP3 p).2.2 < 16 := by
  decide +kernel

/-- BC7 code weights = 4 × spec weights; BC6H code weights = spec weights; spec weights are symmetric about 64. -/
theorem weights_impl_eq_spec :
    implW7_2 = specW2.map (· * 4) ∧ implW7_3 = specW3.map (· * 4) ∧ implW7_4 = specW4.map (· * 4) ∧
    implW6_3 = specW3 ∧ implW6_4 = specW4 ∧
    (∀ i, i < 4 → specW2.getD i 0 + specW2.getD (3 - i) 0 = 64) ∧
    (∀ i, i < 8 → specW3.getD i 0 + specW3.getD (7 - i) 0 = 64) ∧
    (∀ i, i < 16 → specW4.getD i 0 + specW4.getD (15 - i) 0 = 64) :=
  ⟨weights7_x4.1, weights7_x4.2.1, weights7_x4.2.2, weights6_eq.1, weights6_eq.2,
   weights_sum_64.1, weights_sum_64.2.1, weights_sum_64.2.2⟩

/-! ## BC7 -/

/-- `extract_mode` (trailing zeros of the low byte) is the spec's "number of 0 bits before the first 1 bit". -/
theorem mode_by_trailing_zeros (b : Nat) : (Bc7.extractMode b).1 = Bc7Spec.modeOf b :=
  Bc7.mode_by_trailing_zeros b

/-- Every read of the shifting `u128` stream is the spec's positional field read: with the stream at bit `p`
of block `b`, `consume_bits(n)`, `consume_bit()`, `k` successive reads of `c` bits and `k` successive single
bits return the fields `rd b p ·` and leave the stream at the next position.  (All header fields of all 8 modes
are read with exactly these four operations.) -/
theorem stream_read_eq_field_read (b p : Nat) :
    (∀ n, 0 < n → n ≤ 8 → Bc7.consumeBits n (b >>> p) = (Bc7Spec.rd b p n, b >>> (p + n))) ∧
    Bc7.consumeBit (b >>> p) = (Bc7Spec.rd b p 1, b >>> (p + 1)) ∧
    (∀ k c, 0 < c → c ≤ 8 → Bc7.consumeN k c (b >>> p) = (Bc7.rdN k c b p, b >>> (p + k * c))) ∧
    (∀ k, Bc7.consumeBitsEach k (b >>> p) = (Bc7.rdN k 1 b p, b >>> (p + k))) ∧
    (∀ k c i, i < k → (Bc7.rdN k c b p).getD i 0 = Bc7Spec.rd b (p + i * c) c) :=
  ⟨fun n h0 h => Bc7.consumeBits_at n b p h0 h, Bc7.consumeBit_at b p,
   fun k c h0 h => Bc7.consumeN_at k c b p h0 h, fun k => Bc7.consumeBitsEach_at k b p,
   fun k c i hi => Bc7.rdN_getD k c b p i hi⟩

/-- `promote` = replication of the top bits, for every width 4..7 and every value; `(x << 1) | p` in `u8` =
`2x + p`; both stay below 256. -/
theorem promote_eq_replicate :
    (∀ bits, bits < 8 → 4 ≤ bits → ∀ v, v < 2 ^ bits → Bc7.promote v bits = Bc7Spec.expand bits v) ∧
    (∀ v, v < 128 → ∀ p, p < 2 → Bc7.withP v p = v * 2 + p) ∧
    (∀ bits, bits < 9 → 4 ≤ bits → ∀ v, v < 2 ^ bits → Bc7Spec.expand bits v < 256) :=
  ⟨Bc7.promote_eq_replicate, Bc7.withP_eq, Bc7.expand_lt⟩

/-- The code's pre-scaled interpolation (weights ×4, `u16` arithmetic, `>> 8`, `as u8`) equals the spec's
`((64-w)e0 + w e1 + 32) >> 6` for all 8-bit endpoints and every weight 0..64; no `u16` overflow, result < 256. -/
theorem interpolation_eq (e0 e1 w : Nat) (h0 : e0 < 256) (h1 : e1 < 256) (hw : w ≤ 64) :
    Bc7.lerp e0 e1 (4 * w) = Bc7Spec.interp e0 e1 w ∧ Bc7Spec.interp e0 e1 w < 256 :=
  ⟨Bc7.lerp_eq_interp e0 e1 w h0 h1 hw, Bc7.interp_lt e0 e1 w h0 h1 hw⟩
example : (200 : Nat) < 256 ∧ (13 : Nat) < 256 ∧ (43 : Nat) ≤ 64 := by decide

/-- the weights the code looks up are 4 × spec weight ≤ 4·64 for every index of every index width -/
theorem weights_x4 :
    (∀ i, i < 4 → Bc7.WEIGHTS_2.getD i 0 = 4 * specW2.getD i 0 ∧ specW2.getD i 0 ≤ 64) ∧
    (∀ i, i < 8 → Bc7.WEIGHTS_3.getD i 0 = 4 * specW3.getD i 0 ∧ specW3.getD i 0 ≤ 64) ∧
    (∀ i, i < 16 → Bc7.WEIGHTS_4.getD i 0 = 4 * specW4.getD i 0 ∧ specW4.getD i 0 ≤ 64) := Bc7.weights_x4

/-- `Indexes::decompress_single_index` inserts a zero bit above the `bits - 1` stored bits of entry `a` (for every
64-bit payload that fits), and therefore `get_index` on the words built by `new_p1 / new_p2 / new_p3` (fix-ups taken
from the code's partition tables) returns, for EVERY block, stream position, partition and pixel, exactly the field the
specification's anchor rule names: `bits` bits (one less for an anchor pixel) at
`start + pixel * bits - #anchors before pixel`.  (BC7: `Bc7Spec.index1`; BC6H: `Bc6Spec.index` has the same form.) -/
theorem decompress_single_index_spec (b P i : Nat) (hi : i < 16) :
    (∀ bits x a, (bits = 2 ∨ bits = 3 ∨ bits = 4) → a < 16 → x < 2 ^ (16 * bits - 1) →
      Bc7.decompressSingleIndex bits x a =
        x % 2 ^ (a * bits + bits - 1) + 2 ^ (a * bits + bits - 1 + 1) * (x / 2 ^ (a * bits + bits - 1))) ∧
    (∀ bits n part, (bits = 2 ∨ bits = 3 ∨ bits = 4) → n ≠ 2 → n ≠ 3 →
      Bc7.getIndex (Bc7.newP1 bits (b >>> P)).1 i =
        Bc7Spec.rd b (P + i * bits - Bc7Spec.anchorsBefore n part i) (if specIsAnchor n part i then bits - 1 else bits)) ∧
    (∀ bits part, (bits = 2 ∨ bits = 3 ∨ bits = 4) → part < 64 →
      Bc7.getIndex (Bc7.newP2 bits (b >>> P) (implP2 part).2).1 i =
        Bc7Spec.rd b (P + i * bits - Bc7Spec.anchorsBefore 2 part i) (if specIsAnchor 2 part i then bits - 1 else bits)) ∧
    (∀ bits part, (bits = 2 ∨ bits = 3) → part < 64 →
      Bc7.getIndex (Bc7.newP3 bits (b >>> P) (implP3 part).2.1 (implP3 part).2.2).1 i =
        Bc7Spec.rd b (P + i * bits - Bc7Spec.anchorsBefore 3 part i) (if specIsAnchor 3 part i then bits - 1 else bits)) :=
  ⟨fun bits x a hb ha hx => Bc7.decompressSingleIndex_eq bits x a hb ha hx,
   fun bits n part hb hn hn' => Bc7.index_impl1 bits b P n part i hb hi hn hn',
   fun bits part hb hp => Bc7.index_impl2 bits b P part i hb hi hp,
   fun bits part hb hp => Bc7.index_impl3 bits b P part i hb hi hp⟩
example : Bc7.decompressSingleIndex 3 0b111111 1 = 0b1011111 := by decide

/-- WHOLE-BLOCK theorem, BC7: for EVERY block (no bound needed: both models only look at bits 0..127) the
implementation-shaped decoder (shifting `u128` stream, `u8`/`u16`/`u64` arithmetic, fix-up index decompression, bit-packed
partition maps, pre-scaled weights) returns exactly the 16 RGBA pixels the specification-shaped decoder defines
(mode record table, positional field reads, p-bits + bit replication, anchor rule, `((64-w)e0 + w e1 + 32) >> 6`,
rotation, index selector), for all eight modes and the reserved mode 8. -/
theorem bc7_impl_eq_spec (b : Nat) : Bc7.decodeBlock b = Bc7Spec.decodeBlock b := Bc7.decodeBlock_eq b
-- one concrete block per mode: the mode is selected and the decoded pixels are not trivially zero
example : Bc7Spec.modeOf 0xfedcba98765432100123456789abcdef = 0 ∧
    Bc7.decodeBlock 0xfedcba98765432100123456789abcdef ≠ List.replicate 16 [0, 0, 0, 0] := by decide +kernel
example : Bc7Spec.modeOf 0xfedcba98765432100123456789abcdee = 1 ∧
    Bc7.decodeBlock 0xfedcba98765432100123456789abcdee ≠ List.replicate 16 [0, 0, 0, 0] := by decide +kernel
example : Bc7Spec.modeOf 0xfedcba98765432100123456789abcdec = 2 ∧
    Bc7.decodeBlock 0xfedcba98765432100123456789abcdec ≠ List.replicate 16 [0, 0, 0, 0] := by decide +kernel
example : Bc7Spec.modeOf 0xfedcba98765432100123456789abcde8 = 3 ∧
    Bc7.decodeBlock 0xfedcba98765432100123456789abcde8 ≠ List.replicate 16 [0, 0, 0, 0] := by decide +kernel
example : Bc7Spec.modeOf 0xfedcba98765432100123456789abcdf0 = 4 ∧
    Bc7.decodeBlock 0xfedcba98765432100123456789abcdf0 ≠ List.replicate 16 [0, 0, 0, 0] := by decide +kernel
example : Bc7Spec.modeOf 0xfedcba98765432100123456789abcde0 = 5 ∧
    Bc7.decodeBlock 0xfedcba98765432100123456789abcde0 ≠ List.replicate 16 [0, 0, 0, 0] := by decide +kernel
example : Bc7Spec.modeOf 0xfedcba98765432100123456789abcdc0 = 6 ∧
    Bc7.decodeBlock 0xfedcba98765432100123456789abcdc0 ≠ List.replicate 16 [0, 0, 0, 0] := by decide +kernel
example : Bc7Spec.modeOf 0xfedcba98765432100123456789abcd80 = 7 ∧
    Bc7.decodeBlock 0xfedcba98765432100123456789abcd80 ≠ List.replicate 16 [0, 0, 0, 0] := by decide +kernel

/-- Reserved "mode 8": every block without a mode bit in its first byte decodes to 16 × (0,0,0,0), in both models. -/
theorem bc7_reserved_zero (b : Nat) (h : b % 256 = 0) :
    Bc7.decodeBlock b = List.replicate 16 [0, 0, 0, 0] ∧ Bc7Spec.decodeBlock b = List.replicate 16 [0, 0, 0, 0] := by
  have h1 := Bc7.mode8_zero b h
  exact ⟨h1, by rw [← bc7_impl_eq_spec b]; exact h1⟩
example : (0x1234500 : Nat) % 256 = 0 := by decide

/-! ## BC6H -/

/-- For each of the 14 modes of the spec table: the listed bit ranges are pairwise disjoint and cover exactly the
header bits after the mode bits (65 header bits for one region, 77 + 5 partition bits for two regions), and every
endpoint component receives exactly its declared low bits (endpoint 0: `prec`, others: the delta width). -/
theorem bc6_fields_partition : Bc6Spec.modes.length = 14 ∧ Bc6Spec.modes.all Bc6.layoutOk = true := Bc6.layouts_ok

/-- Mode codes: no two records match the same low bits; exactly the codes 10011, 10111, 11011, 11111 match none;
and the code's `extract_mode` selects, for every block, the mode the spec table selects. -/
theorem bc6_mode_select :
    ((List.range 32).filter (fun x => (Bc6Spec.modeOf x).isNone) = [19, 23, 27, 31]) ∧
    (∀ b, (Bc6.extractMode b).1 = (Bc6.extractMode (b % 32)).1) ∧
    (∀ x, x < 32 → ((Bc6.extractMode x).1 = Bc6.Mode.invalid ↔ Bc6Spec.modeOf x = none)) := by
  refine ⟨Bc6.mode_codes.2, Bc6.extractMode_low5, ?_⟩
  decide +kernel

/-- Reserved modes give zero in the code model, for every block and both formats. -/
theorem bc6_reserved_zero (signed : Bool) (b : Nat)
    (h : b % 32 = 19 ∨ b % 32 = 23 ∨ b % 32 = 27 ∨ b % 32 = 31) :
    Bc6.decodeBlock signed b = List.replicate 16 [0, 0, 0] := Bc6.reserved_zero signed b h
example : (0xABCDEF13 : Nat) % 32 = 19 := by decide

/-- `sign_extend`: `(x << (32-w)) >> (32-w)` on `i32` is the two's complement reading, all widths ≤ 16, all values. -/
theorem bc6_signext (w v : Nat) (hw : 1 ≤ w) (hw' : w ≤ 16) (hv : v < 2 ^ w) :
    Bc6.signExtend (v : Int) w = Bc6Spec.sext w v := Bc6.signExtend_eq w v hw hw' hv
example : (1 : Nat) ≤ 5 ∧ 5 ≤ 16 ∧ 31 < 2 ^ 5 := by decide

/-- Mode dispatch for every block: the mode `extract_mode` returns and the record the spec table selects correspond
(`Bc6.recTwo` / `Bc6.recOne` name the spec record of a code mode), and the header fields start right after the spec's
mode bits. -/
theorem bc6_mode_record (b : Nat) :
    match (Bc6.extractMode b).1 with
    | .two m => Bc6Spec.modeOf b = some (Bc6.recTwo m) ∧ Bc6.extractMode b = (.two m, b >>> (Bc6.recTwo m).modeBits)
    | .one m => Bc6Spec.modeOf b = some (Bc6.recOne m) ∧ Bc6.extractMode b = (.one m, b >>> 5)
    | .invalid => Bc6Spec.modeOf b = none := Bc6.dispatch b

/-- `bc6_extract_eq_fields`: for all 10 two-region and all 4 one-region modes and EVERY block, the accumulators the
code fills (`consume!` sequences interpreted by `stepOp`; `consume_bits_32` / `consume_bits_rev` for one region) are the
specification's raw field values `rawField` (bit `j` of component `ce` = block bit `srcPos … c e j`), each below
`2 ^ declared width`, and the stream then stands at block bit 77 resp. 65. -/
theorem bc6_extract_eq_fields (b : Nat) :
    (∀ m : Bc6.ModeTwo,
      (Bc6.extractTwo m (b >>> (Bc6.recTwo m).modeBits)).2 = b >>> 77 ∧
      ∀ c e, c < 3 → e < 4 →
        Bc6.accGet (Bc6.extractTwo m (b >>> (Bc6.recTwo m).modeBits)).1 e c = Bc6Spec.rawField (Bc6.recTwo m) b c e ∧
        Bc6Spec.rawField (Bc6.recTwo m) b c e < 2 ^ Bc6.fieldWidth (Bc6.recTwo m) c e) ∧
    (∀ m : Bc6.ModeOne,
      (Bc6.extractOne m (b >>> 5)).2 = b >>> 65 ∧
      ∀ c, c < 3 →
        (Bc6.extractOne m (b >>> 5)).1.getD c 0 = Bc6Spec.rawField (Bc6.recOne m) b c 0 ∧
        (Bc6.extractOne m (b >>> 5)).1.getD (3 + c) 0 = Bc6Spec.rawField (Bc6.recOne m) b c 1 ∧
        Bc6Spec.rawField (Bc6.recOne m) b c 0 < 2 ^ Bc6.fieldWidth (Bc6.recOne m) c 0 ∧
        Bc6Spec.rawField (Bc6.recOne m) b c 1 < 2 ^ Bc6.fieldWidth (Bc6.recOne m) c 1) :=
  ⟨fun m => Bc6.extractTwo_eq m b, fun m => Bc6.extractOne_eq m b⟩

/-- `decompress_endpoints_{two,one}` on raw field values of the declared widths = the spec's endpoint rule
(`Bc6.endpointV` is `Bc6Spec.endpoint` with the raw field values as arguments: two's complement reading, delta added to
endpoint 0 and wrapped to the precision, sign-extended again for the signed format), and the results lie in the
precision's range. -/
theorem bc6_endpoints_eq_spec (signed : Bool) :
    (∀ r b c e, Bc6Spec.endpoint r signed b c e =
      Bc6.endpointV r.prec (Bc6Spec.deltaW r c) r.transformed signed (Bc6Spec.rawField r b c 0) (Bc6Spec.rawField r b c e) e) ∧
    (∀ (m : Bc6.ModeTwo) (d w x y z : Nat),
      (d = m.deltaBitCount.1 ∨ d = m.deltaBitCount.2.1 ∨ d = m.deltaBitCount.2.2) →
      w < 2 ^ m.a0BitCount → x < 2 ^ d → y < 2 ^ d → z < 2 ^ d →
      Bc6.decompressTwoChan m signed d (w : Int) (x : Int) (y : Int) (z : Int) =
        [Bc6.endpointV m.a0BitCount d m.transformed signed w w 0, Bc6.endpointV m.a0BitCount d m.transformed signed w x 1,
         Bc6.endpointV m.a0BitCount d m.transformed signed w y 2, Bc6.endpointV m.a0BitCount d m.transformed signed w z 3]) ∧
    (∀ (m : Bc6.ModeOne) (a z : Nat), a < 2 ^ m.a0BitCount → z < 2 ^ m.b0BitCount →
      Bc6.decompressOneChan m signed (a : Int) (z : Int) =
        [Bc6.endpointV m.a0BitCount m.b0BitCount m.transformed signed a a 0,
         Bc6.endpointV m.a0BitCount m.b0BitCount m.transformed signed a z 1]) ∧
    (∀ prec d tr base raw e, 6 ≤ prec → prec ≤ 16 → 1 ≤ d → d ≤ prec → (tr = false → d = prec) →
      base < 2 ^ prec → raw < 2 ^ d → Bc6.inRange signed prec (Bc6.endpointV prec d tr signed base raw e)) :=
  ⟨fun r b c e => Bc6.endpoint_eq_V r signed b c e,
   fun m d w x y z hd hw hx hy hz => Bc6.decompressTwoChan_eq m signed d w x y z hd hw hx hy hz,
   fun m a z ha hz => Bc6.decompressOneChan_eq m signed a z ha hz,
   fun prec d tr base raw e h1 h2 h3 h4 h5 h6 h7 => Bc6.endpointV_inRange prec d tr signed base raw e h1 h2 h3 h4 h5 h6 h7⟩
example : (Bc6.ModeTwo.M11_454).deltaBitCount.2.1 = 5 ∧ (2047 : Nat) < 2 ^ (Bc6.ModeTwo.M11_454).a0BitCount ∧ (31 : Nat) < 2 ^ 5 := by
  decide

/-- `bc6_no_i32_overflow`: for every endpoint value in the range of its precision (all precisions the 14 modes use) and
every weight 0..64, the CHECKED evaluation (`Bc6.unquantizeCk`, `Bc6.paletteEntryCk`: the model with every `wrap32`
replaced by a trap when the value leaves `i32`) never traps and returns what the wrapping model returns; and that
value is the specification's exact integer result (`unquantize`, then `finish (lerp a b w)`), inside 16 bits. -/
theorem bc6_no_i32_overflow (signed : Bool) :
    (∀ bits c, (bits = 6 ∨ bits = 7 ∨ bits = 8 ∨ bits = 9 ∨ bits = 10 ∨ bits = 11 ∨ bits = 12 ∨ bits = 16) →
      Bc6.inRange signed bits c →
      Bc6.unquantizeCk c bits signed = some (Bc6.unquantize c bits signed) ∧
      Bc6.unquantize c bits signed = Bc6Spec.unquantize signed bits c ∧
      (if signed then -32768 ≤ Bc6Spec.unquantize signed bits c ∧ Bc6Spec.unquantize signed bits c ≤ 32767
       else 0 ≤ Bc6Spec.unquantize signed bits c ∧ Bc6Spec.unquantize signed bits c ≤ 65535)) ∧
    (∀ (a b : Int) (w : Nat), w ≤ 64 →
      (if signed then -32768 ≤ a ∧ a ≤ 32767 else 0 ≤ a ∧ a ≤ 65535) →
      (if signed then -32768 ≤ b ∧ b ≤ 32767 else 0 ≤ b ∧ b ≤ 65535) →
      Bc6.paletteEntryCk a b w signed = some (Bc6.paletteEntry a b w signed) ∧
      Bc6.paletteEntry a b w signed = Bc6Spec.finish signed (Bc6Spec.lerp a b w)) :=
  ⟨fun bits c hb hc => ⟨Bc6.unquantizeCk_some signed bits c hb hc, (Bc6.unquantize_eq signed bits c hb hc).1,
      (Bc6.unquantize_eq signed bits c hb hc).2⟩,
   fun a b w hw ha hb => ⟨Bc6.paletteEntryCk_some signed a b w hw ha hb, Bc6.paletteEntry_eq signed a b w hw ha hb⟩⟩
example : Bc6.inRange true 11 (-1024) ∧ Bc6.inRange false 16 65535 := by
  constructor <;> simp [Bc6.inRange]

/-- WHOLE-BLOCK theorem, BC6H: for EVERY block and both formats (`BC6H_SF16`: `signed = true`, `BC6H_UF16`: `false`) the
implementation-shaped decoder (`consume!` extraction on the shifting `u128` stream, `(x<<s)>>s` sign extension,
wrapping `i32` delta/unquantize/interpolate/finish, fix-up index decompression, bit-packed partition maps) returns exactly
the 16 RGB half patterns the specification-shaped decoder defines (14 mode records with positional header layouts, exact
`Int` arithmetic, anchor rule), including the four reserved codes (all zero). -/
theorem bc6_impl_eq_spec (signed : Bool) (b : Nat) : Bc6.decodeBlock signed b = Bc6Spec.decodeBlock signed b :=
  Bc6.decodeBlock_eq signed b
-- one concrete block per mode code: the mode is selected and the decoded pixels are not trivially zero (both formats)
example : (Bc6Spec.modeOf 0xfedcba98765432100123456789abcdec).map (fun r => (r.modeBits, r.code)) = some (2, 0) ∧
    Bc6.decodeBlock false 0xfedcba98765432100123456789abcdec ≠ List.replicate 16 [0, 0, 0] ∧
    Bc6.decodeBlock true 0xfedcba98765432100123456789abcdec ≠ List.replicate 16 [0, 0, 0] := by decide +kernel
example : (Bc6Spec.modeOf 0xfedcba98765432100123456789abcded).map (fun r => (r.modeBits, r.code)) = some (2, 1) ∧
    Bc6.decodeBlock false 0xfedcba98765432100123456789abcded ≠ List.replicate 16 [0, 0, 0] ∧
    Bc6.decodeBlock true 0xfedcba98765432100123456789abcded ≠ List.replicate 16 [0, 0, 0] := by decide +kernel
example : (Bc6Spec.modeOf 0xfedcba98765432100123456789abcde2).map (fun r => (r.modeBits, r.code)) = some (5, 2) ∧
    Bc6.decodeBlock false 0xfedcba98765432100123456789abcde2 ≠ List.replicate 16 [0, 0, 0] ∧
    Bc6.decodeBlock true 0xfedcba98765432100123456789abcde2 ≠ List.replicate 16 [0, 0, 0] := by decide +kernel
example : (Bc6Spec.modeOf 0xfedcba98765432100123456789abcde6).map (fun r => (r.modeBits, r.code)) = some (5, 6) ∧
    Bc6.decodeBlock false 0xfedcba98765432100123456789abcde6 ≠ List.replicate 16 [0, 0, 0] ∧
    Bc6.decodeBlock true 0xfedcba98765432100123456789abcde6 ≠ List.replicate 16 [0, 0, 0] := by decide +kernel
example : (Bc6Spec.modeOf 0xfedcba98765432100123456789abcdea).map (fun r => (r.modeBits, r.code)) = some (5, 10) ∧
    Bc6.decodeBlock false 0xfedcba98765432100123456789abcdea ≠ List.replicate 16 [0, 0, 0] ∧
    Bc6.decodeBlock true 0xfedcba98765432100123456789abcdea ≠ List.replicate 16 [0, 0, 0] := by decide +kernel
example : (Bc6Spec.modeOf 0xfedcba98765432100123456789abcdee).map (fun r => (r.modeBits, r.code)) = some (5, 14) ∧
    Bc6.decodeBlock false 0xfedcba98765432100123456789abcdee ≠ List.replicate 16 [0, 0, 0] ∧
    Bc6.decodeBlock true 0xfedcba98765432100123456789abcdee ≠ List.replicate 16 [0, 0, 0] := by decide +kernel
example : (Bc6Spec.modeOf 0xfedcba98765432100123456789abcdf2).map (fun r => (r.modeBits, r.code)) = some (5, 18) ∧
    Bc6.decodeBlock false 0xfedcba98765432100123456789abcdf2 ≠ List.replicate 16 [0, 0, 0] ∧
    Bc6.decodeBlock true 0xfedcba98765432100123456789abcdf2 ≠ List.replicate 16 [0, 0, 0] := by decide +kernel
example : (Bc6Spec.modeOf 0xfedcba98765432100123456789abcdf6).map (fun r => (r.modeBits, r.code)) = some (5, 22) ∧
    Bc6.decodeBlock false 0xfedcba98765432100123456789abcdf6 ≠ List.replicate 16 [0, 0, 0] ∧
    Bc6.decodeBlock true 0xfedcba98765432100123456789abcdf6 ≠ List.replicate 16 [0, 0, 0] := by decide +kernel
example : (Bc6Spec.modeOf 0xfedcba98765432100123456789abcdfa).map (fun r => (r.modeBits, r.code)) = some (5, 26) ∧
    Bc6.decodeBlock false 0xfedcba98765432100123456789abcdfa ≠ List.replicate 16 [0, 0, 0] ∧
    Bc6.decodeBlock true 0xfedcba98765432100123456789abcdfa ≠ List.replicate 16 [0, 0, 0] := by decide +kernel
example : (Bc6Spec.modeOf 0xfedcba98765432100123456789abcdfe).map (fun r => (r.modeBits, r.code)) = some (5, 30) ∧
    Bc6.decodeBlock false 0xfedcba98765432100123456789abcdfe ≠ List.replicate 16 [0, 0, 0] ∧
    Bc6.decodeBlock true 0xfedcba98765432100123456789abcdfe ≠ List.replicate 16 [0, 0, 0] := by decide +kernel
example : (Bc6Spec.modeOf 0xfedcba98765432100123456789abcde3).map (fun r => (r.modeBits, r.code)) = some (5, 3) ∧
    Bc6.decodeBlock false 0xfedcba98765432100123456789abcde3 ≠ List.replicate 16 [0, 0, 0] ∧
    Bc6.decodeBlock true 0xfedcba98765432100123456789abcde3 ≠ List.replicate 16 [0, 0, 0] := by decide +kernel
example : (Bc6Spec.modeOf 0xfedcba98765432100123456789abcde7).map (fun r => (r.modeBits, r.code)) = some (5, 7) ∧
    Bc6.decodeBlock false 0xfedcba98765432100123456789abcde7 ≠ List.replicate 16 [0, 0, 0] ∧
    Bc6.decodeBlock true 0xfedcba98765432100123456789abcde7 ≠ List.replicate 16 [0, 0, 0] := by decide +kernel
example : (Bc6Spec.modeOf 0xfedcba98765432100123456789abcdeb).map (fun r => (r.modeBits, r.code)) = some (5, 11) ∧
    Bc6.decodeBlock false 0xfedcba98765432100123456789abcdeb ≠ List.replicate 16 [0, 0, 0] ∧
    Bc6.decodeBlock true 0xfedcba98765432100123456789abcdeb ≠ List.replicate 16 [0, 0, 0] := by decide +kernel
example : (Bc6Spec.modeOf 0xfedcba98765432100123456789abcdef).map (fun r => (r.modeBits, r.code)) = some (5, 15) ∧
    Bc6.decodeBlock false 0xfedcba98765432100123456789abcdef ≠ List.replicate 16 [0, 0, 0] ∧
    Bc6.decodeBlock true 0xfedcba98765432100123456789abcdef ≠ List.replicate 16 [0, 0, 0] := by decide +kernel

/-! ## output precisions -/

/-- Signed path (`fp16::*`), all 65536 half patterns: F32 is exactly the half's value (incl. subnormals, signed
zero, ±Inf); U8 is the nearest UNORM8 of the value clamped to [0,1] (negative → 0, +Inf → 255, NaN → 0). -/
theorem half_f32_u8_eq_spec (h : Nat) (hh : h < 65536) :
    Bc6.fp16F32 h = Bc6Spec.halfToF32 h ∧ Bc6.fp16N8 h = Bc6Spec.halfToUnorm 255 h :=
  ⟨Bc6.fp16F32_eq h hh, Bc6.fp16N8_eq h hh⟩

/-- U16: the code's f32 evaluation `(m * 2^e * 65535.0 + 0.5) as u16` (modelled with exact binary32 rounding)
gives the nearest UNORM16 for every half EXCEPT 0x3801..0x3804 (0.5 + k/2048, k = 1..4) … -/
theorem half_u16_eq_spec_partial (h : Nat) (hh : h < 65536) (hne : ¬ (0x3801 ≤ h ∧ h ≤ 0x3804)) :
    Bc6.fp16N16 h = Bc6Spec.halfToUnorm 65535 h := Bc6.fp16N16_eq h hh hne
example : (0x3800 : Nat) < 65536 ∧ ¬ (0x3801 ≤ 0x3800 ∧ 0x3800 ≤ 0x3804) := by decide

/-- … where it is one too high (the product is rounded to 24 bits up to `k + 0.5` before `+ 0.5` is added):
a deviation from "rounded to the nearest representable output value" (finding, reported). -/
theorem half_u16_off_by_one (h : Nat) (h1 : 0x3801 ≤ h) (h2 : h ≤ 0x3804) :
    Bc6.fp16N16 h = Bc6Spec.halfToUnorm 65535 h + 1 := Bc6.fp16N16_off_by_one h h1 h2

/-- Unsigned path (`bc6h_uf16::*`, which only `debug_assert`s sign/Inf/NaN away) agrees with `fp16::*` on
everything BC6H_UF16 can produce (all patterns below 0x7C00). -/
theorem uf16_eq_fp16 (h : Nat) (hh : h < 31744) :
    Bc6.uf16N8 h = Bc6.fp16N8 h ∧ Bc6.uf16N16 h = Bc6.fp16N16 h ∧ Bc6.uf16F32 h = Bc6.fp16F32 h :=
  Bc6.uf16_eq_fp16 h hh

end Dds.C03x
