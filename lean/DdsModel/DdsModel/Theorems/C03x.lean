/-
C03x — the BC7 and BC6H part of C03 ("blocks decode to the values the format specification defines").

Models: `Bc7.lean`, `Bc6.lean`, `BcTables.lean` (code-shaped) against `Bc7Spec.lean`, `Bc6Spec.lean` and the
`spec*` tables (specification-shaped, pinned).  Every theorem quantifies over ALL blocks / values.

What is NOT proved here (kept visible, see notes/C03x.md):
  * `bc7_impl_eq_spec` / `bc6_impl_eq_spec` for whole blocks are assembled only for the zero cases
    (`bc7_impl_eq_spec_partial`, `bc6_impl_eq_spec_partial`).  Missing steps, by name:
      - `decompress_single_index_spec`: `Indexes::decompress_single_index` + `get_index` = the spec's anchor rule
        (index of pixel i = `bits - [i anchor]` bits at `start + i*bits - #anchors before i`);
      - `bc6_extract_eq_fields`: the `consume!` interpreter (`Bc6.extractTwo/One`) = `Bc6Spec.rawField`;
      - `bc6_no_i32_overflow`: every `wrap32` in `unquantize`/`paletteEntry`/`finishUnquantize` is the identity;
      - the per-mode glue that composes the lemmas below into pixel equality.
    The lemmas that ARE proved cover mode selection, every header field read, endpoint widening, p-bits, weights,
    interpolation, partition/anchor tables, BC6H header layouts, reserved modes, sign extension and the three
    output precisions.  The unproved steps are covered by the run-time tie only.
-/
import DdsModel.Proofs.BcTables
import DdsModel.Proofs.Bc7
import DdsModel.Proofs.Bc6
import DdsModel.Proofs.BcHalf
namespace Dds.C03x
open Dds.BcTables

/-! ## tables -/

/-- The pinned specification tables are well formed: 64 partitions each; pixel 0 is in subset 0 (so subset 0 is
non-empty and anchored at 0); every entry is a valid subset number; the anchor of every further subset lies
inside that subset (so every subset is non-empty and the anchors lie in pairwise distinct subsets). -/
theorem partition_tables_wellformed :
    specP2.length = 64 ∧ specP3.length = 64 ∧
    ∀ p, p < 64 →
      specSubset 2 p 0 = 0 ∧ (∀ i, i < 16 → specSubset 2 p i ≤ 1) ∧
      0 < specAnchor2.getD p 0 ∧ specAnchor2.getD p 0 < 16 ∧ specSubset 2 p (specAnchor2.getD p 0) = 1 ∧
      specSubset 3 p 0 = 0 ∧ (∀ i, i < 16 → specSubset 3 p i ≤ 2) ∧
      specAnchor3a.getD p 0 < 16 ∧ specAnchor3b.getD p 0 < 16 ∧
      specSubset 3 p (specAnchor3a.getD p 0) = 1 ∧ specSubset 3 p (specAnchor3b.getD p 0) = 2 := by
  decide +kernel

/-- The tables the code builds from its string literals (`subset2`/`subset3` const fns, bit-packed maps,
position-sorted fix-up indices) are the specification's partition and anchor tables; the fix-ups satisfy the
`debug_assert!`s of `Indexes::from_compressed_p2/p3`. -/
theorem partition_tables_impl_eq_spec :
    ∀ p, p < 64 →
      (∀ i, i < 16 → subset2Index (implP2 p) i = specSubset 2 p i) ∧
      (implP2 p).2 = specAnchor2.getD p 0 ∧
      (∀ i, i < 16 → subset3Index (implP3 p) i = specSubset 3 p i) ∧
      (implP3 p).2.1 = min (specAnchor3a.getD p 0) (specAnchor3b.getD p 0) ∧
      (implP3 p).2.2 = max (specAnchor3a.getD p 0) (specAnchor3b.getD p 0) ∧
      0 < (implP2 p).2 ∧ 0 < (implP3 p).2.1 ∧ (implP3 p).2.1 < (implP3 p).2.2 ∧ (implP3 p).2.2 < 16 := by
  decide +kernel

/-- BC7 code weights = 4 × spec weights; BC6H code weights = spec weights; spec weights are symmetric about 64. -/
theorem weights_impl_eq_spec :
    implW7_2 = specW2.map (· * 4) ∧ implW7_3 = specW3.map (· * 4) ∧ implW7_4 = specW4.map (· * 4) ∧
    implW6_3 = specW3 ∧ implW6_4 = specW4 ∧
    (∀ i, i < 4 → specW2.getD i 0 + specW2.getD (3 - i) 0 = 64) ∧
    (∀ i, i < 8 → specW3.getD i 0 + specW3.getD (7 - i) 0 = 64) ∧
    (∀ i, i < 16 → specW4.getD i 0 + specW4.getD (15 - i) 0 = 64) :=
  ⟨weights7_x4.1, weights7_x4.2.1, weights7_x4.2.2, weights6_eq.1, weights6_eq.2,
   weights_sum_64.1, weights_sum_64.2.1, weights_sum_64.2.2⟩

/-! ## BC7 -/

/-- `extract_mode` (trailing zeros of the low byte) is the spec's "number of 0 bits before the first 1 bit". -/
theorem mode_by_trailing_zeros (b : Nat) : (Bc7.extractMode b).1 = Bc7Spec.modeOf b :=
  Bc7.mode_by_trailing_zeros b

/-- Every read of the shifting `u128` stream is the spec's positional field read: with the stream at bit `p`
of block `b`, `consume_bits(n)`, `consume_bit()`, `k` successive reads of `c` bits and `k` successive single
bits return the fields `rd b p ·` and leave the stream at the next position.  (All header fields of all 8 modes
are read with exactly these four operations.) -/
theorem stream_read_eq_field_read (b p : Nat) :
    (∀ n, 0 < n → n ≤ 8 → Bc7.consumeBits n (b >>> p) = (Bc7Spec.rd b p n, b >>> (p + n))) ∧
    Bc7.consumeBit (b >>> p) = (Bc7Spec.rd b p 1, b >>> (p + 1)) ∧
    (∀ k c, 0 < c → c ≤ 8 → Bc7.consumeN k c (b >>> p) = (Bc7.rdN k c b p, b >>> (p + k * c))) ∧
    (∀ k, Bc7.consumeBitsEach k (b >>> p) = (Bc7.rdN k 1 b p, b >>> (p + k))) ∧
    (∀ k c i, i < k → (Bc7.rdN k c b p).getD i 0 = Bc7Spec.rd b (p + i * c) c) :=
  ⟨fun n h0 h => Bc7.consumeBits_at n b p h0 h, Bc7.consumeBit_at b p,
   fun k c h0 h => Bc7.consumeN_at k c b p h0 h, fun k => Bc7.consumeBitsEach_at k b p,
   fun k c i hi => Bc7.rdN_getD k c b p i hi⟩

/-- `promote` = replication of the top bits, for every width 4..7 and every value; `(x << 1) | p` in `u8` =
`2x + p`; both stay below 256. -/
theorem promote_eq_replicate :
    (∀ bits, bits < 8 → 4 ≤ bits → ∀ v, v < 2 ^ bits → Bc7.promote v bits = Bc7Spec.expand bits v) ∧
    (∀ v, v < 128 → ∀ p, p < 2 → Bc7.withP v p = v * 2 + p) ∧
    (∀ bits, bits < 9 → 4 ≤ bits → ∀ v, v < 2 ^ bits → Bc7Spec.expand bits v < 256) :=
  ⟨Bc7.promote_eq_replicate, Bc7.withP_eq, Bc7.expand_lt⟩

/-- The code's pre-scaled interpolation (weights ×4, `u16` arithmetic, `>> 8`, `as u8`) equals the spec's
`((64-w)e0 + w e1 + 32) >> 6` for all 8-bit endpoints and every weight 0..64; no `u16` overflow, result < 256. -/
theorem interpolation_eq (e0 e1 w : Nat) (h0 : e0 < 256) (h1 : e1 < 256) (hw : w ≤ 64) :
    Bc7.lerp e0 e1 (4 * w) = Bc7Spec.interp e0 e1 w ∧ Bc7Spec.interp e0 e1 w < 256 :=
  ⟨Bc7.lerp_eq_interp e0 e1 w h0 h1 hw, Bc7.interp_lt e0 e1 w h0 h1 hw⟩
example : (200 : Nat) < 256 ∧ (13 : Nat) < 256 ∧ (43 : Nat) ≤ 64 := by decide

/-- the weights the code looks up are 4 × spec weight ≤ 4·64 for every index of every index width -/
theorem weights_x4 :
    (∀ i, i < 4 → Bc7.WEIGHTS_2.getD i 0 = 4 * specW2.getD i 0 ∧ specW2.getD i 0 ≤ 64) ∧
    (∀ i, i < 8 → Bc7.WEIGHTS_3.getD i 0 = 4 * specW3.getD i 0 ∧ specW3.getD i 0 ≤ 64) ∧
    (∀ i, i < 16 → Bc7.WEIGHTS_4.getD i 0 = 4 * specW4.getD i 0 ∧ specW4.getD i 0 ≤ 64) := Bc7.weights_x4

/-- PARTIAL whole-block theorem: for every block without a mode bit in its first byte (the reserved "mode 8")
both models give 16 × (0,0,0,0).  Full statement `∀ b < 2^128, Bc7.decodeBlock b = Bc7Spec.decodeBlock b`:
missing `decompress_single_index_spec` and the per-mode glue (see header). -/
theorem bc7_impl_eq_spec_partial (b : Nat) (h : b % 256 = 0) :
    Bc7.decodeBlock b = Bc7Spec.decodeBlock b ∧ Bc7.decodeBlock b = List.replicate 16 [0, 0, 0, 0] := by
  have hs : Bc7Spec.decodeBlock b = List.replicate 16 [0, 0, 0, 0] := by
    have : Bc7Spec.modeOf b = 8 := by
      rw [← Bc7.mode_by_trailing_zeros]; simp only [Bc7.extractMode, U8, h]; decide
    simp only [Bc7Spec.decodeBlock, this]; rfl
  rw [hs, Bc7.mode8_zero b h]; exact ⟨rfl, rfl⟩
example : (0x1234500 : Nat) % 256 = 0 := by decide

/-! ## BC6H -/

/-- For each of the 14 modes of the spec table: the listed bit ranges are pairwise disjoint and cover exactly the
header bits after the mode bits (65 header bits for one region, 77 + 5 partition bits for two regions), and every
endpoint component receives exactly its declared low bits (endpoint 0: `prec`, others: the delta width). -/
theorem bc6_fields_partition : Bc6Spec.modes.length = 14 ∧ Bc6Spec.modes.all Bc6.layoutOk = true := Bc6.layouts_ok

/-- Mode codes: no two records match the same low bits; exactly the codes 10011, 10111, 11011, 11111 match none;
and the code's `extract_mode` selects, for every block, the mode the spec table selects. -/
theorem bc6_mode_select :
    ((List.range 32).filter (fun x => (Bc6Spec.modeOf x).isNone) = [19, 23, 27, 31]) ∧
    (∀ b, (Bc6.extractMode b).1 = (Bc6.extractMode (b % 32)).1) ∧
    (∀ x, x < 32 → ((Bc6.extractMode x).1 = Bc6.Mode.invalid ↔ Bc6Spec.modeOf x = none)) := by
  refine ⟨Bc6.mode_codes.2, Bc6.extractMode_low5, ?_⟩
  decide +kernel

/-- Reserved modes give zero in the code model, for every block and both formats. -/
theorem bc6_reserved_zero (signed : Bool) (b : Nat)
    (h : b % 32 = 19 ∨ b % 32 = 23 ∨ b % 32 = 27 ∨ b % 32 = 31) :
    Bc6.decodeBlock signed b = List.replicate 16 [0, 0, 0] := Bc6.reserved_zero signed b h
example : (0xABCDEF13 : Nat) % 32 = 19 := by decide

/-- `sign_extend`: `(x << (32-w)) >> (32-w)` on `i32` is the two's complement reading, all widths ≤ 16, all values. -/
theorem bc6_signext (w v : Nat) (hw : 1 ≤ w) (hw' : w ≤ 16) (hv : v < 2 ^ w) :
    Bc6.signExtend (v : Int) w = Bc6Spec.sext w v := Bc6.signExtend_eq w v hw hw' hv
example : (1 : Nat) ≤ 5 ∧ 5 ≤ 16 ∧ 31 < 2 ^ 5 := by decide

/-- PARTIAL whole-block theorem: blocks with a reserved mode code decode to zero in both models.
Full statement `∀ signed b, b < 2^128 → Bc6.decodeBlock signed b = Bc6Spec.decodeBlock signed b`: missing
`bc6_extract_eq_fields`, `bc6_no_i32_overflow`, `decompress_single_index_spec` and the glue (see header). -/
theorem bc6_impl_eq_spec_partial (signed : Bool) (b : Nat)
    (h : b % 32 = 19 ∨ b % 32 = 23 ∨ b % 32 = 27 ∨ b % 32 = 31) :
    Bc6.decodeBlock signed b = Bc6Spec.decodeBlock signed b := by
  rw [Bc6.reserved_zero signed b h]
  have hm : Bc6Spec.modeOf b = Bc6Spec.modeOf (b % 32) := by
    have e2 : b % 32 % 2 ^ 2 = b % 2 ^ 2 := Nat.mod_mod_of_dvd _ (by decide)
    have e5 : b % 32 % 2 ^ 5 = b % 2 ^ 5 := Nat.mod_mod_of_dvd _ (by decide)
    simp only [Bc6Spec.modeOf, Bc6Spec.modes, List.find?, e2, e5]
  have hn : Bc6Spec.modeOf b = none := by
    rw [hm]; rcases h with h | h | h | h <;> rw [h] <;> decide +kernel
  simp only [Bc6Spec.decodeBlock, hn]

/-! ## output precisions -/

/-- Signed path (`fp16::*`), all 65536 half patterns: F32 is exactly the half's value (incl. subnormals, signed
zero, ±Inf); U8 is the nearest UNORM8 of the value clamped to [0,1] (negative → 0, +Inf → 255, NaN → 0). -/
theorem half_f32_u8_eq_spec (h : Nat) (hh : h < 65536) :
    Bc6.fp16F32 h = Bc6Spec.halfToF32 h ∧ Bc6.fp16N8 h = Bc6Spec.halfToUnorm 255 h :=
  ⟨Bc6.fp16F32_eq h hh, Bc6.fp16N8_eq h hh⟩

/-- U16: the code's f32 evaluation `(m * 2^e * 65535.0 + 0.5) as u16` (modelled with exact binary32 rounding)
gives the nearest UNORM16 for every half EXCEPT 0x3801..0x3804 (0.5 + k/2048, k = 1..4) … -/
theorem half_u16_eq_spec_partial (h : Nat) (hh : h < 65536) (hne : ¬ (0x3801 ≤ h ∧ h ≤ 0x3804)) :
    Bc6.fp16N16 h = Bc6Spec.halfToUnorm 65535 h := Bc6.fp16N16_eq h hh hne
example : (0x3800 : Nat) < 65536 ∧ ¬ (0x3801 ≤ 0x3800 ∧ 0x3800 ≤ 0x3804) := by decide

/-- … where it is one too high (the product is rounded to 24 bits up to `k + 0.5` before `+ 0.5` is added):
a deviation from "rounded to the nearest representable output value" (finding, reported). -/
theorem half_u16_off_by_one (h : Nat) (h1 : 0x3801 ≤ h) (h2 : h ≤ 0x3804) :
    Bc6.fp16N16 h = Bc6Spec.halfToUnorm 65535 h + 1 := Bc6.fp16N16_off_by_one h h1 h2

/-- Unsigned path (`bc6h_uf16::*`, which only `debug_assert`s sign/Inf/NaN away) agrees with `fp16::*` on
everything BC6H_UF16 can produce (all patterns below 0x7C00). -/
theorem uf16_eq_fp16 (h : Nat) (hh : h < 31744) :
    Bc6.uf16N8 h = Bc6.fp16N8 h ∧ Bc6.uf16N16 h = Bc6.fp16N16 h ∧ Bc6.uf16F32 h = Bc6.fp16F32 h :=
  Bc6.uf16_eq_fp16 h hh

end Dds.C03x
