/-
C16 — Generated mipmaps have the declared sizes and preserve flat colour and opacity.

Model: `Mip.lean` (look-ahead gather, `MipmapCache::generate` strategy + index bookkeeping,
`resize.rs` plain and straight-alpha paths with the code's rounding), on top of `Iter.lean`
and `Encoder.lean`. The `resize` crate is a parameter `K : Kernel`; what is ASSUMED of it is
stated as the hypothesis `K.Normalised f` (all filters) or `K.Convex f` (Point, Box, Triangle).
Arithmetic is exact (`Rat`); binary32 rounding inside the resizer is outside the model, which is
why the oracle of the tie allows the property's "one output unit" while the theorems give the
exact interval. Alignment and row pitch do not exist in the model (an image is its pixel values).

Only property theorems and non-vacuity examples live here; lemmas are in `Proofs/Mip*.lean`.
-/
import DdsModel.Proofs.MipChain
import DdsModel.Proofs.TrapMipGen
import DdsModel.Theorems.C02
namespace Dds.C16
open Dds Dds.Mip

/-! ### levels and sizes -/

/-- For a texture (or array element / cube face) with `mips ≥ 2` whose level-0 surface is being
written with generation on: after the main surface the look-ahead gathers exactly the declared
levels `1 .. mips-1`; whatever strategy `generate` selects for whatever filter, it does not
panic and emits exactly these levels, in this order, with sizes `max(1, dim >> level)`, each
resized from the source or from a level emitted before it; and the encoder's cursor loop
(`Enc.genLoop`, the model C11 is about) consumes exactly as many surfaces. -/
theorem levels_and_sizes (e : Enc) (t : TexIter) (he : e.iter = .tex t) (v : t.Inv) (hi : t.idx < t.len)
    (hl0 : t.level = 0) (hm : 2 ≤ t.first.mips) (hw : t.first.w < U32) (hh : t.first.h < U32)
    (hok : ∀ l, e.sizeOk (mipSize t.first.w l) (mipSize t.first.h l) = true) (f : Filter) :
    ∃ it1 pl, e.iter.advanceP = some it1 ∧
      gatherSizes 255 it1 = some (declared t.first.w t.first.h 1 (t.first.mips - 1)) ∧
      emitted it1 f (t.first.w, t.first.h) = some pl ∧
      pl.map (·.1) = (List.range' 1 (t.first.mips - 1)).map
        (fun l => (max 1 (t.first.w / 2 ^ l), max 1 (t.first.h / 2 ^ l))) ∧
      (∀ k (hk : k < pl.length), (pl[k]'hk).2 ≤ k) ∧
      ∀ written, let e1 : Enc := { e with iter := it1, written := written }
        (e1.genLoop 255).2 = .ok ∧ advN pl.length it1 = some (e1.genLoop 255).1.iter := by
  have hmlt := v.mips_lt
  have hmod : (t.level + 1) % U8 = t.level + 1 := Nat.mod_eq_of_lt (by unfold U8; omega)
  have hadv : t.advance = { t with level := 1 } := by
    unfold TexIter.advance
    rw [if_pos hi]; simp only [hmod]; rw [if_pos (by omega), hl0]
  obtain ⟨vadv, _, _, _⟩ := v.advance
  have hg := gather_tex 255 t.advance vadv (by rw [hadv]; exact hi) (by rw [hadv]; show 1 ≤ 1; omega)
    (by rw [hadv]; show t.first.mips ≤ 255 + 1; omega)
  have hg' : gatherSizes 255 (.tex t.advance) = some (declared t.first.w t.first.h 1 (t.first.mips - 1)) := by
    rw [hg, hadv]
  have hne : declared t.first.w t.first.h 1 (t.first.mips - 1) ≠ [] := by
    unfold declared
    have : t.first.mips - 1 = (t.first.mips - 2) + 1 := by omega
    rw [this, List.range'_succ]; simp
  obtain ⟨pl, hpl⟩ := plan_some f (t.first.w, t.first.h) _ hne
  have hfst := plan_fst hpl
  refine ⟨.tex t.advance, pl, by rw [he]; rfl, hg', ?_, ?_, plan_earlier hpl, ?_⟩
  · unfold emitted; rw [hg']; exact hpl
  · rw [hfst]; unfold declared
    apply List.map_congr_left
    intro l _
    rw [C02.mipSize_spec _ _ hw, C02.mipSize_spec _ _ hh]
  · intro written e1
    have hlen : pl.length = (declared t.first.w t.first.h 1 (t.first.mips - 1)).length := by
      rw [← hfst, List.length_map]
    obtain ⟨r1, r2, _⟩ := genLoop_follows_gather 255 e1 _ hg' (by
      intro s hs
      unfold declared at hs
      obtain ⟨l, _, rfl⟩ := List.mem_map.mp hs
      exact hok l)
    exact ⟨r1, by rw [hlen]; exact r2⟩

/-- the hypotheses are satisfiable: a 5x4 texture with its full chain of 3 levels -/
example : ∃ (e : Enc) (t : TexIter), e.iter = .tex t ∧ t.Inv ∧ t.idx < t.len ∧ t.level = 0 ∧ 2 ≤ t.first.mips ∧
    emitted (.tex t.advance) .box (5, 4) = some [((2, 2), 0), ((1, 1), 0)] ∧
    emitted (.tex { t with first := { t.first with w := 4 } }.advance) .box (4, 4) = some [((2, 2), 0), ((1, 1), 1)] := by
  refine ⟨Enc.new (.texture ⟨5, 4, 3, .fixed 4, 0, some 100⟩) 1 1, ⟨⟨5, 4, 3, .fixed 4, 0, some 100⟩, 1, 0, 0⟩,
    rfl, ⟨by decide, rfl, by decide, by decide, by decide, by decide, by decide, by decide, by decide⟩,
    by decide, rfl, by decide, by decide, by decide⟩

/-! ### strategy -/

/-- The selection is a total function of (filter, source size, level sizes) and it leaves
"from source" only when the filter is not Nearest and EVERY size, the source included, is a power
of two in both dimensions: then Box uses from-previous and the other filters from-previous-two. -/
theorem strategy_total (f : Filter) (src : Sz) (sizes : List Sz) :
    (selectStrategy f src sizes = .fromPrevious ↔ f = .box ∧ AllPow2 src sizes) ∧
    (selectStrategy f src sizes = .fromPreviousTwo ↔ f ≠ .nearest ∧ f ≠ .box ∧ AllPow2 src sizes) ∧
    (selectStrategy f src sizes = .fromSource ↔ f = .nearest ∨ ¬ AllPow2 src sizes) := by
  rw [← allPow2_iff]
  unfold selectStrategy
  cases h : allPow2 src sizes <;> cases f <;> simp

/-- which image every level comes from, per strategy: from-source always image 0; from-previous
level number k+1 from image k; from-previous-two the first two levels from the source and level
number k+1 (k ≥ 2) from image k-1 -/
theorem plan_sources (f : Filter) (src : Sz) (sizes : List Sz) (pl : List (Sz × Nat))
    (h : plan f src sizes = some pl) :
    pl.map (·.1) = sizes ∧
    pl.map (·.2) =
      match selectStrategy f src sizes with
      | .fromSource => List.replicate sizes.length 0
      | .fromPrevious => List.range' 0 sizes.length
      | .fromPreviousTwo => (List.range' 0 sizes.length).map (· - 1) :=
  ⟨plan_fst h, plan_snd h⟩

example : selectStrategy .box (4, 4) [(2, 2), (1, 1)] = .fromPrevious ∧
    selectStrategy .box (5, 4) [(2, 2), (1, 1)] = .fromSource ∧
    selectStrategy .lanczos3 (8, 1) [(4, 1), (2, 1), (1, 1)] = .fromPreviousTwo ∧
    plan .lanczos3 (8, 1) [(4, 1), (2, 1), (1, 1)] = some [((4, 1), 0), ((2, 1), 0), ((1, 1), 1)] := by decide

/-! ### range -/

/-- Over `Rat`, for ANY weights `wᵢ ≥ 0` with `Σ wᵢ = 1` and any inputs: the weighted sum lies
between the smallest and the largest input. -/
theorem convex_range (t : Taps) (x : Nat → Rat) (lo hi : Rat) (nn : t.NonNeg) (hs : t.sumW = 1)
    (hx : ∀ iw ∈ t, lo ≤ x iw.1 ∧ x iw.1 ≤ hi) : lo ≤ dot t x ∧ dot t x ≤ hi := by
  have hb := dot_bounds t x lo hi nn (fun iw hiw _ => hx iw hiw)
  rw [hs] at hb
  constructor <;> grind

/-- The code's rounding `(acc + 0.5) as u8|u16` (identity for `f32`) maps an interval whose end
points are representable into itself: there is no "one unit" excursion in exact arithmetic. -/
theorem rounding_stays_in_range (p : Prec) (lo hi : Nat) (v : Rat) (hm : p = .f32 ∨ (hi : Rat) ≤ p.maxVal)
    (h1 : (lo : Rat) ≤ v) (h2 : v ≤ (hi : Rat)) : (lo : Rat) ≤ p.quant v ∧ p.quant v ≤ (hi : Rat) :=
  quant_range p lo hi v hm h1 h2

/-- Range clause along the whole chain, plain path (straight-alpha handling off, or not RGBA),
for every strategy (any plan): if channel `c` of the source lies in `[lo, hi]` (end points
representable), channel `c` of EVERY generated level lies in `[lo, hi]` — the bound does not
grow along chains of rounded levels. -/
theorem range_all_levels (K : Kernel) (f : Filter) (hK : K.Convex f) (p : Prec) (sa : Bool) (src : Img)
    (hplain : sa = false ∨ src.planes.length ≠ 4) (c : Nat) (pl0 : Plane) (h0 : src.planes[c]? = some pl0)
    (hlen : pl0.length = src.w * src.h) (lo hi : Rat) (hg : p.Grid lo hi) (hv : ∀ v ∈ pl0, lo ≤ v ∧ v ≤ hi)
    (plan : List (Sz × Nat)) :
    ∀ l ∈ runPlan (resizeImg K f p sa) src plan [],
      ∃ pl, l.planes[c]? = some pl ∧ pl.length = l.w * l.h ∧ ∀ v ∈ pl, lo ≤ v ∧ v ≤ hi := by
  apply chain_plain (fun n pl => pl.length = n ∧ ∀ v ∈ pl, lo ≤ v ∧ v ≤ hi) _ c src hplain pl0 h0 ⟨hlen, hv⟩
  intro sw sh dw dh pl ⟨h1, h2⟩
  have ok := hK.1.ok sw sh dw dh
  exact ⟨by rw [resizePlane_length, ok.len],
    resizePlane_range p lo hi hg _ _ _ ok (hK.2 sw sh dw dh) pl h1 h2⟩

/-- Range clause along the whole chain, straight-alpha path (RGBA): alpha stays in its source
interval `[alo, ahi]`, and the colour `c ∈ {0,1,2}` of every generated pixel that is not fully
transparent lies in the interval `[lo, hi]` spanned by the source pixels that are not fully
transparent. Nothing is claimed about the colour of fully transparent output pixels. -/
theorem range_all_levels_straight (K : Kernel) (f : Filter) (hK : K.Convex f) (p : Prec) (src : Img)
    (c : Nat) (alo ahi lo hi : Rat) (hga : p.Grid alo ahi) (ha0 : 0 ≤ alo) (hg : p.Grid lo hi)
    (hs : SAInv (QRange alo ahi lo hi) c src) (plan : List (Sz × Nat)) :
    ∀ l ∈ runPlan (resizeImg K f p true) src plan [], SAInv (QRange alo ahi lo hi) c l := by
  apply chain_sa (QRange alo ahi lo hi) (QRange alo ahi lo hi) (fun _ _ _ h => h) _ c src hs
  intro sw sh dw dh x a h
  exact step_QRange p alo ahi lo hi hga ha0 hg _ _ _ (hK.1.ok sw sh dw dh) (hK.2 sw sh dw dh) x a h

/-- With straight alpha, an output pixel with positive accumulated alpha has the colour
`Σ uᵢ·cᵢ` with `uᵢ = wᵢ·aᵢ / Σ wⱼ·aⱼ`, and these weights are convex (`≥ 0`, sum 1). -/
theorem straight_alpha_convex (t : Taps) (c a : Nat → Rat) (nn : t.NonNeg) (ha : ∀ iw ∈ t, 0 ≤ a iw.1)
    (hpos : 0 < dot t a) :
    let u : Taps := t.map fun iw => (iw.1, iw.2 * a iw.1 * (1 / dot t a))
    dot t (fun i => c i * a i) * (1 / dot t a) = dot u c ∧ u.NonNeg ∧ u.sumW = 1 := by
  intro u
  have hinv := one_div_pos _ hpos
  refine ⟨?_, ?_, ?_⟩
  · show _ = dot (t.map fun iw => (iw.1, iw.2 * a iw.1 * (1 / dot t a))) c
    unfold dot
    rw [List.map_map]
    have : (t.map ((fun iw => iw.2 * c iw.1) ∘ fun iw => (iw.1, iw.2 * a iw.1 * (1 / (t.map fun iw => iw.2 * a iw.1).sum)))) =
        (t.map fun iw => iw.2 * (c iw.1 * a iw.1)).map ((1 / (t.map fun iw => iw.2 * a iw.1).sum) * ·) := by
      rw [List.map_map]
      apply List.map_congr_left
      intro iw _
      simp only [Function.comp]
      grind
    rw [this, sum_map_mul_left]; grind
  · intro iw hm
    obtain ⟨jw, hj, rfl⟩ := List.mem_map.mp hm
    exact Rat.mul_nonneg (Rat.mul_nonneg (nn jw hj) (ha jw hj)) (Rat.le_of_lt hinv)
  · show Taps.sumW (t.map fun iw => (iw.1, iw.2 * a iw.1 * (1 / dot t a))) = 1
    unfold Taps.sumW
    rw [List.map_map]
    have : (t.map ((fun x => x.2) ∘ fun iw => (iw.1, iw.2 * a iw.1 * (1 / dot t a)))) =
        (t.map fun iw => iw.2 * a iw.1).map ((1 / dot t a) * ·) := by
      rw [List.map_map]
      apply List.map_congr_left
      intro iw _
      simp only [Function.comp]
      grind
    rw [this, sum_map_mul_left]
    have hd : (t.map fun iw => iw.2 * a iw.1).sum = dot t a := rfl
    rw [hd]
    have := mul_one_div_cancel (dot t a) (by grind)
    grind

/-! ### constant colour, opacity -/

/-- Plain path: if channel `c` of the source is uniformly `v` (representable), channel `c` of
every generated level is uniformly `v`, exactly, for every filter (negative lobes allowed) and
every strategy. Taking all channels gives "a constant image yields mipmaps of that colour". -/
theorem constant_preserved (K : Kernel) (f : Filter) (hK : K.Normalised f) (p : Prec) (sa : Bool) (src : Img)
    (hplain : sa = false ∨ src.planes.length ≠ 4) (c : Nat) (pl0 : Plane) (h0 : src.planes[c]? = some pl0)
    (hlen : pl0.length = src.w * src.h) (v : Rat) (hg : p.Grid v v) (hv : ∀ x ∈ pl0, x = v)
    (plan : List (Sz × Nat)) :
    ∀ l ∈ runPlan (resizeImg K f p sa) src plan [],
      ∃ pl, l.planes[c]? = some pl ∧ pl.length = l.w * l.h ∧ ∀ x ∈ pl, x = v := by
  apply chain_plain (fun n pl => pl.length = n ∧ ∀ x ∈ pl, x = v) _ c src hplain pl0 h0 ⟨hlen, hv⟩
  intro sw sh dw dh pl ⟨h1, h2⟩
  have ok := hK.ok sw sh dw dh
  exact ⟨by rw [resizePlane_length, ok.len], resizePlane_const p v hg _ _ _ ok pl h1 h2⟩

/-- Straight-alpha path: a uniformly coloured RGBA image with alpha `ca > 0` yields levels of
exactly that colour and that alpha (colour channel `c ∈ {0,1,2}`). -/
theorem constant_preserved_straight (K : Kernel) (f : Filter) (hK : K.Normalised f) (p : Prec) (src : Img)
    (c : Nat) (cx ca : Rat) (hgx : p.Grid cx cx) (hga : p.Grid ca ca) (hpos : 0 < ca)
    (hs : SAInv (QConst cx ca) c src) (plan : List (Sz × Nat)) :
    ∀ l ∈ runPlan (resizeImg K f p true) src plan [], SAInv (QConst cx ca) c l := by
  apply chain_sa (QConst cx ca) (QConst cx ca) (fun _ _ _ h => h) _ c src hs
  intro sw sh dw dh x a h
  exact step_QConst p cx ca hgx hga hpos _ _ _ (hK.ok sw sh dw dh) x a h

/-- Straight-alpha path, alpha uniformly 0: every generated pixel is (0,0,0,0) whatever the
colour was (the property leaves the colour of fully transparent pixels unconstrained; this is
what the code does for all three precisions). -/
theorem constant_transparent (K : Kernel) (f : Filter) (hK : K.Normalised f) (p : Prec) (src : Img)
    (c : Nat) (hs : SAInv SZero c src) (plan : List (Sz × Nat)) :
    ∀ l ∈ runPlan (resizeImg K f p true) src plan [], SAInv QZero c l := by
  apply chain_sa SZero QZero (fun _ _ _ h => h.1) _ c src hs
  intro sw sh dw dh x a h
  exact step_QZero p _ _ _ (hK.ok sw sh dw dh) x a h

/-- A fully opaque image stays fully opaque, plain path: the alpha channel (index `c`) of every
level is exactly the maximum. -/
theorem opaque_preserved (K : Kernel) (f : Filter) (hK : K.Normalised f) (p : Prec) (sa : Bool) (src : Img)
    (hplain : sa = false ∨ src.planes.length ≠ 4) (c : Nat) (pl0 : Plane) (h0 : src.planes[c]? = some pl0)
    (hlen : pl0.length = src.w * src.h) (hv : ∀ x ∈ pl0, x = p.maxVal) (plan : List (Sz × Nat)) :
    ∀ l ∈ runPlan (resizeImg K f p sa) src plan [],
      ∃ pl, l.planes[c]? = some pl ∧ pl.length = l.w * l.h ∧ ∀ x ∈ pl, x = p.maxVal :=
  constant_preserved K f hK p sa src hplain c pl0 h0 hlen p.maxVal (grid_max p) hv plan

/-- A fully opaque image stays fully opaque, straight-alpha path. -/
theorem opaque_preserved_straight (K : Kernel) (f : Filter) (hK : K.Normalised f) (p : Prec) (src : Img)
    (c : Nat) (hs : SAInv (QOpaque p) c src) (plan : List (Sz × Nat)) :
    ∀ l ∈ runPlan (resizeImg K f p true) src plan [], SAInv (QOpaque p) c l := by
  apply chain_sa (QOpaque p) (QOpaque p) (fun _ _ _ h => h) _ c src hs
  intro sw sh dw dh x a h
  exact step_QOpaque p _ _ _ (hK.ok sw sh dw dh) x a h

/-! ### independence -/

/-- Without straight-alpha handling (or for a colour format that is not RGBA) each channel's
result is a function of that channel only: two sources of the same size that agree on channel
`c` produce, level by level, identical channels `c` — whatever the other channels contain, for
any kernel at all. -/
theorem independent_channels (K : Kernel) (f : Filter) (p : Prec) (sa : Bool) (c : Nat) (src src' : Img)
    (hplain : sa = false ∨ (src.planes.length ≠ 4 ∧ src'.planes.length ≠ 4))
    (hw : src.w = src'.w) (hh : src.h = src'.h) (hc : src.planes[c]? = src'.planes[c]?)
    (plan : List (Sz × Nat)) :
    AllRel (fun l l' => l.w = l'.w ∧ l.h = l'.h ∧ l.planes[c]? = l'.planes[c]?)
      (runPlan (resizeImg K f p sa) src plan []) (runPlan (resizeImg K f p sa) src' plan []) :=
  chain_plain_rel c src src' hplain hw hh hc plan

/-! ### non-vacuity of the kernel assumptions and of the chain statements -/

/-- a convex kernel exists: the 2x2 -> 1x1 box average -/
def boxK : Kernel := ⟨fun _ sw sh dw dh =>
  List.replicate (dw * dh) ((List.range (sw * sh)).map fun i => (i, 1 / ((sw * sh : Nat) : Rat)))⟩

example : (boxK.taps .box 2 2 1 1) = [[(0, 1/4), (1, 1/4), (2, 1/4), (3, 1/4)]] := by decide +kernel

/-- the chain on a concrete 2x2 RGBA u8 image with a transparent pixel: plain path averages the
colours, straight alpha ignores the colour of the transparent pixel -/
example :
    (runPlan (resizeImg boxK .box .u8 false) ⟨2, 2, [[100, 100, 100, 0], [255, 255, 255, 255]]⟩ [((1, 1), 0)] []).map
      (·.planes) = [[[75], [255]]] := by decide +kernel

example :
    (runPlan (resizeImg boxK .box .u8 true)
      ⟨2, 2, [[100, 100, 100, 7], [0, 0, 0, 0], [9, 9, 9, 200], [255, 255, 255, 0]]⟩ [((1, 1), 0)] []).map
      (·.planes) = [[[100], [0], [9], [191]]] := by decide +kernel

end Dds.C16

/-! ## Section Q — the buffer and index arithmetic of the mipmap generator does not panic (`TrapMip.lean`)

Trapping mirrors (`Option`, `none` = panic in the overflow-checking profile) of `MipmapCache` (src/encoder.rs) and of
`get_aligned_slice`, `Aligner::align`, `AlignedView`, `AlignedBuffer`, `ResizeState`, `resize_into`, `resize_typed`
(src/resize.rs).  The `resize` crate is an external call whose ASSUMED contract (read from resize-0.8.9/src/lib.rs,
stated at the top of `TrapMip.lean`) is: `Resizer::new` fails iff a size is 0, `resize` fails iff the source has fewer
than `w1·h1` pixels or the destination not exactly `w2·h2`; a call violating it makes the mirror return `none`
(`expect`).  Assumed of the allocator: `Vec<u32>` storage is 4-aligned; an allocation failure aborts (outside the model).
Bound: pixel buffers of at most `BMAX = 2^62 − 16` bytes (beyond it `Vec`'s amortised doubling can itself exceed
`isize::MAX`; no 64-bit machine holds such an image). -/
namespace Dds.C16
open Dds Dds.Mip Dds.TrapMip Dds.TrapEnc

/-- For every allocator returning 4-aligned storage, with or without the `rayon` feature:
(1) `get_aligned_slice` returns, for ANY previous state of the buffer (any `len ≤ capacity`), a slice of exactly the
    requested `w·h·bpp` bytes at a 4-aligned address, and leaves the buffer well-formed;
(2) every SEQUENCE of generating calls through one `MipmapCache` (both buffers reused across calls) returns `some`:
    no slice, index, `expect`, `debug_assert`, capacity or `resize`-crate precondition fails, the caches stay
    well-formed, and the levels emitted by each call — sizes as the callback sees them and the image each is resized
    from — are exactly `Mip.plan` (hence the sizes of `levels_and_sizes` / `Encoder.lean`);
(3) an admissible call is: any view with C20's invariant and non-empty size (`w, h < 2^32`, ANY address — odd ones for
    U16/F32 — and ANY pitch ≥ the row bytes), any of the 12 colours, any filter, both alpha settings, any non-empty
    non-increasing list of non-empty sizes; in particular every mip chain `declared w0 h0 (l+1) (n+1)` started at ANY
    level `l` with ANY number `n+1` of further levels (also beyond 1×1) of any `w0, h0`;
(4) the 12 colour formats are `Color.OK`;
(5) the straight-alpha `to_value`s never take the reciprocal of zero, for every accumulator value. -/
theorem mip_cache_trapfree (al : Alloc) (ha : AlOK al) (rayon : Bool) :
    (∀ (b : VecBuf) (w h : Nat) (c : Color), VecOK b → c.OK → w * h * c.bpp ≤ BMAX →
      ∃ b', getAlignedSliceT al b w h c = some (b', ⟨b'.addr, w * h * c.bpp⟩) ∧ VecOK b' ∧ b'.addr % 4 = 0 ∧
        w * h * c.bpp ≤ b'.len * 4) ∧
    (∀ (calls : List Call) (k : Cache), CacheOK k → (∀ q ∈ calls, CallOK q) →
      ∃ k' outs, generateSeqT al rayon k calls = some (k', outs) ∧ CacheOK k' ∧
        calls.map (fun q => plan q.f (q.v.w, q.v.h) q.sizes) = outs.map some) ∧
    (∀ (w0 h0 l n addr : Nat) (v : View) (c : Color) (f : Filter) (sa : Bool), VOK v c → c.OK →
      v.w = mipSize w0 l → v.h = mipSize h0 l → v.w * v.h * c.bpp ≤ BMAX →
      CallOK ⟨addr, v, c, declared w0 h0 (l + 1) (n + 1), f, sa⟩) ∧
    (∀ c ∈ Color.all, c.OK) ∧
    (∀ (p : Prec) (accC accA : Rat), saColourT p accC accA = some (saColour p accC accA)) := by
  refine ⟨?_, fun calls k hk h => generateSeqT_ok ha rayon calls k hk h, ?_, ?_, saColourT_eq⟩
  rotate_left 2
  · intro c hc
    unfold Color.all at hc
    simp only [List.mem_cons, List.mem_nil_iff, or_false] at hc
    rcases hc with h | h | h | h | h | h | h | h | h | h | h | h <;> subst h <;> simp [Color.OK]
  · intro b w h c hb hc hs
    obtain ⟨b', e1, e2, e3, _⟩ := getAlignedSliceT_ok ha hb hc hs
    exact ⟨b', e1, e2, e2.addr, e3⟩
  · intro w0 h0 l n addr v c f sa hv hc hw hh hb
    refine ⟨hv, hc, ?_, ?_, hb, ?_, ?_, declared_pos _ _ _ _⟩
    · show 1 ≤ v.w; rw [hw]; exact mipSize_pos _ _
    · show 1 ≤ v.h; rw [hh]; exact mipSize_pos _ _
    · show declared _ _ _ _ ≠ []
      unfold declared; rw [List.range'_succ]; simp
    · show Decr (v.w, v.h) _
      rw [hw, hh]; exact declared_decr _ _ _ _

/-- The bytes handed to the resizer do not depend on alignment or row pitch (the discrete half of C16's last
sentence): two views of the same size and colour whose rows hold the same bytes — at different addresses, with
different pitches, copied or not, into aligner buffers with different previous contents — give the same `w·h·bpp`
bytes, namely the rows back to back. -/
theorem aligned_view_independent (mem1 mem2 old1 old2 : Nat → Nat) (a1 a2 : Nat) {v1 v2 : View} {c : Color}
    (h1 : VOK v1 c) (h2 : VOK v2 c) (hw : v1.w = v2.w) (hh : v1.h = v2.h) (pw : 1 ≤ v1.w) (ph : 1 ≤ v1.h)
    (same : ∀ y, y < v1.h → ∀ j, j < v1.w * c.bpp → mem1 (a1 + y * v1.pitch + j) = mem2 (a2 + y * v2.pitch + j)) :
    ∀ i, i < v1.w * v1.h * c.bpp →
      alignBytes mem1 old1 a1 v1 c i = alignBytes mem2 old2 a2 v2 c i ∧
      alignBytes mem1 old1 a1 v1 c i = mem1 (a1 + (i / (v1.w * c.bpp)) * v1.pitch + i % (v1.w * c.bpp)) := by
  intro i hi
  have e1 := alignBytes_spec mem1 old1 a1 h1 pw ph i hi
  have e2 := alignBytes_spec mem2 old2 a2 h2 (by omega) (by omega) i (by rw [← hw, ← hh]; exact hi)
  refine ⟨?_, e1⟩
  rw [e1, e2, ← hw]
  have hb : 1 ≤ c.bpp := by have := h1.inv.bpp_pos; rw [h1.bpp] at this; exact this
  have hpos : 0 < v1.w * c.bpp := Nat.mul_pos pw hb
  apply same
  · apply Nat.div_lt_of_lt_mul
    rw [Nat.mul_comm v1.w v1.h, Nat.mul_assoc, Nat.mul_comm] at hi
    exact hi
  · exact Nat.mod_lt _ hpos

/-! non-vacuity, and `none` where it should be -/

/-- an allocator for the examples -/
def exAl : Alloc := fun _ n => 64 * (n + 1)
/-- 4×4 RGBA-U16 at the ODD address 1001 with pitch 35 (> 32 row bytes): len = 35·3 + 32 -/
def exView : View := ⟨0, 137, 4, 4, 8, 35⟩
def exCol : Color := ⟨.rgba, 2⟩

-- the hypotheses are satisfiable and the mirror runs: a strided view at an odd address, then the same pixels
-- contiguous at an odd address, through ONE cache; Triangle on 4x4 uses previous-two, Box previous
example : AlOK exAl ∧ CacheOK Cache.new ∧
    generateSeqT exAl true Cache.new
      [⟨1001, exView, exCol, [(2, 2), (1, 1), (1, 1)], .triangle, true⟩,
       ⟨2001, ⟨0, 128, 4, 4, 8, 32⟩, exCol, [(2, 2), (1, 1)], .box, false⟩] =
    some (⟨⟨2112, 32, 32⟩, VecBuf.empty⟩,
      [[((2, 2), 0), ((1, 1), 0), ((1, 1), 1)], [((2, 2), 0), ((1, 1), 1)]]) := by
  refine ⟨fun _ n => by show 64 * (n + 1) % 4 = 0; omega, CacheOK.new, by decide +kernel⟩
-- without rayon the sequential path reuses `ResizeState::dest_buffer`
example : (generateT exAl false Cache.new ⟨1001, exView, exCol, [(2, 2), (1, 1)], .nearest, true⟩).map (·.2) =
    some [((2, 2), 0), ((1, 1), 0)] := by decide +kernel
-- the mirrors are not constantly `some`: a source slice one byte short, a destination of the wrong size, a zero
-- size, an unaligned source all violate the crate's / zerocopy's preconditions
example : resizeTypedT ⟨1000, 127⟩ ⟨64, 32⟩ 4 4 2 2 4 2 = none ∧ resizeTypedT ⟨1000, 120⟩ ⟨64, 32⟩ 4 4 2 2 4 2 = none ∧
    resizeTypedT ⟨1000, 128⟩ ⟨64, 40⟩ 4 4 2 2 4 2 = none ∧ resizeTypedT ⟨1000, 128⟩ ⟨64, 0⟩ 4 4 0 2 4 2 = none ∧
    resizeTypedT ⟨1001, 128⟩ ⟨64, 32⟩ 4 4 2 2 4 2 = none ∧ resizeTypedT ⟨1000, 128⟩ ⟨64, 32⟩ 4 4 2 2 4 2 = some () := by
  decide +kernel
-- `generate_from_previous` with no sizes panics at `sizes[0]` (reached only by seed C11b, see `Theorems/C15.lean`)
example : genFromPreviousT exAl Cache.new 1000 ⟨0, 4, 1, 1, 4, 4⟩ ⟨.rgba, 1⟩ [] true = none := by decide +kernel
-- seed C16a (`split_at(2)` up front, no `len == 1` return): `none` for a single level — 2×2, 2×1, 1×2 sources —
-- where the code as it is returns the one level; identical for two or more levels
example : genFromPreviousTwoSplitT exAl Cache.new 1000 ⟨0, 16, 2, 2, 4, 8⟩ ⟨.rgba, 1⟩ [(1, 1)] true = none ∧
    (genFromPreviousTwoT exAl Cache.new 1000 ⟨0, 16, 2, 2, 4, 8⟩ ⟨.rgba, 1⟩ [(1, 1)] true).map (·.2) =
      some [((1, 1), 0)] ∧
    genFromPreviousTwoSplitT exAl Cache.new 1000 exView exCol [(2, 2), (1, 1), (1, 1)] true =
      genFromPreviousTwoT exAl Cache.new 1000 exView exCol [(2, 2), (1, 1), (1, 1)] true := by decide +kernel
-- seed C16d (`buffer.capacity() < buffer_len`): a buffer that has grown once (len 48, capacity 96 — the README's
-- 192-byte / 256-byte sequence) is a well-formed state on which the seeded function slices past the end, while
-- the code as it is resizes; clause (1) of `mip_cache_trapfree` is false for the seeded function
example : VecOK ⟨64, 48, 96⟩ ∧ getAlignedSliceCapT exAl ⟨64, 48, 96⟩ 8 8 ⟨.rgba, 1⟩ = none ∧
    getAlignedSliceT exAl ⟨64, 48, 96⟩ 8 8 ⟨.rgba, 1⟩ = some (⟨64, 64, 96⟩, ⟨64, 256⟩) := by
  refine ⟨⟨by decide, by decide, by decide⟩, by decide +kernel, by decide +kernel⟩
-- seed C16f's integer `/ a` for a fully transparent block is `recipT 0`; the code's guards never reach it
example : recipT 0 = none ∧ saColourT .u8 0 0 = some 0 ∧ saColourT .u16 0 0 = some 0 ∧ saColourT .f32 0 0 = some 0 := by
  decide +kernel
-- the alignment copy: row 1, byte 2 of a strided view lands at index 1·bpr + 2
example : alignBytes (fun a => a) (fun _ => 7) 1001 exView exCol 34 = 1001 + 35 + 2 := by decide +kernel

end Dds.C16
