/-
C08 — Any sequence of decoder operations stays in step with the file layout.

Model: `Iter.lean` (both surface iterators, verbatim) and `Decoder.lean` (the `Decoder`
calls over an ideal, long-enough, fault-free reader; `decode`/`decode_rect` represented by
their stream contract C06). Helper lemmas: `Proofs/Iter.lean`.

The specification is a cursor `k` into the flattened surface list of C02
(`C02.specFlatten`): the abstraction `abs` maps the iterator state to `k`.
-/
import DdsModel.Proofs.Iter
import DdsModel.Theorems.C02
import DdsModel.Decoder
namespace Dds.C08
open Dds

/-! ### iterator-level refinement -/

def IterInv : SurfIter → Prop
  | .tex it => it.Inv
  | .vol it => it.Inv

/-- index of the cursor in the flattened surface list -/
def abs : SurfIter → Nat
  | .tex it => it.abs
  | .vol it => it.abs

/-- number of surfaces of the layout -/
def count : SurfIter → Nat
  | .tex it => it.N
  | .vol it => it.N

/-- ideal byte offset of the cursor in the data section -/
def elapsed : SurfIter → Nat
  | .tex it => it.elapsed
  | .vol it => it.elapsed

/-- the flattened list the iterator walks (C02's specification list) -/
def flat : SurfIter → List Surface
  | .tex it => specArray it.first.px it.first.w it.first.h it.first.mips it.len
  | .vol it => specVolFlat it.volume.px it.volume.w it.volume.h it.volume.d 0 it.volume.mips 0

/-- total data length -/
def total : SurfIter → Nat
  | .tex it => it.len * it.T
  | .vol it => volIdeal it.volume.px it.volume.w it.volume.h it.volume.d 0 it.volume.mips

/-- `advance` moves the cursor one surface forward, saturating at the end; never panics. -/
theorem advance_refines (it : SurfIter) (v : IterInv it) :
    ∃ it', it.advanceP = some it' ∧ IterInv it' ∧ abs it' = min (abs it + 1) (count it) ∧
      count it' = count it ∧ total it' = total it ∧ flat it' = flat it := by
  cases it with
  | tex t =>
    obtain ⟨h1, h2, h3, h4⟩ := TexIter.Inv.advance v
    refine ⟨.tex t.advance, rfl, h1, h2, ?_, ?_, ?_⟩
    · show t.advance.len * t.advance.first.mips = t.len * t.first.mips; rw [h3, h4]
    · show t.advance.len * t.advance.T = t.len * t.T; unfold TexIter.T; rw [h3, h4]
    · show specArray _ _ _ _ _ = specArray _ _ _ _ _; rw [h3, h4]
  | vol t =>
    obtain ⟨it', h0, h1, h2, h3⟩ := VolIter.Inv.advanceP v
    refine ⟨.vol it', by simp [SurfIter.advanceP, h0], h1, h2, ?_, ?_, ?_⟩
    · show depthSum _ _ _ = depthSum _ _ _; rw [h3]
    · show volIdeal _ _ _ _ _ _ = volIdeal _ _ _ _ _ _; rw [h3]
    · show specVolFlat _ _ _ _ _ _ _ = specVolFlat _ _ _ _ _ _ _; rw [h3]

/-- `rewind` moves the cursor one surface back, saturating at the start; never panics. -/
theorem rewind_refines (it : SurfIter) (v : IterInv it) :
    ∃ it', it.rewindP = some it' ∧ IterInv it' ∧ abs it' = abs it - 1 ∧
      count it' = count it ∧ total it' = total it ∧ flat it' = flat it := by
  cases it with
  | tex t =>
    obtain ⟨h1, h2, h3, h4⟩ := TexIter.Inv.rewind v
    refine ⟨.tex t.rewind, rfl, h1, h2, ?_, ?_, ?_⟩
    · show t.rewind.len * t.rewind.first.mips = t.len * t.first.mips; rw [h3, h4]
    · show t.rewind.len * t.rewind.T = t.len * t.T; unfold TexIter.T; rw [h3, h4]
    · show specArray _ _ _ _ _ = specArray _ _ _ _ _; rw [h3, h4]
  | vol t =>
    obtain ⟨it', h0, h1, h2, h3⟩ := VolIter.Inv.rewindP v
    refine ⟨.vol it', by simp [SurfIter.rewindP, h0], h1, h2, ?_, ?_, ?_⟩
    · show depthSum _ _ _ = depthSum _ _ _; rw [h3]
    · show volIdeal _ _ _ _ _ _ = volIdeal _ _ _ _ _ _; rw [h3]
    · show specVolFlat _ _ _ _ _ _ _ = specVolFlat _ _ _ _ _ _ _; rw [h3]

/-- `elapsed_bytes` is the ideal offset of the cursor (no panic, no `u64` wrap) and is
bounded by the data length. -/
theorem elapsed_refines (it : SurfIter) (v : IterInv it) :
    it.elapsedP = some (elapsed it) ∧ elapsed it ≤ total it := by
  cases it with
  | tex t => exact ⟨TexIter.Inv.elapsedP v, TexIter.Inv.elapsed_le v⟩
  | vol t => exact ⟨VolIter.Inv.elapsedP v, VolIter.Inv.elapsed_le v⟩

/-- `current` never panics and is `none` exactly at the end of the list. -/
theorem current_total (it : SurfIter) (v : IterInv it) :
    ∃ r, it.currentP = some r ∧ (r.isSome ↔ abs it < count it) := by
  cases it with
  | tex t =>
    refine ⟨_, TexIter.Inv.currentP v, ?_⟩
    have := TexIter.Inv.abs_lt_iff v
    show _ ↔ t.abs < t.N
    rw [this]
    by_cases h : t.idx < t.len
    · simp [h]
    · simp [h]
  | vol t =>
    refine ⟨_, VolIter.Inv.currentP v, ?_⟩
    show _ ↔ t.abs < t.N
    have hle := VolIter.Inv.abs_le v
    by_cases h : t.level < t.volume.mips
    · simp only [h, if_true, Option.isSome_some, true_iff]
      have hd : t.depth < mipSize t.volume.d t.level := by
        cases v.cursor with
        | inl h' => exact h'.2
        | inr h' => omega
      unfold VolIter.abs VolIter.N
      have h1 := depthSum_split t.volume.d (t.level + 1) 0 (t.volume.mips - (t.level + 1))
      have e : t.level + 1 + (t.volume.mips - (t.level + 1)) = t.volume.mips := by omega
      rw [e, depthSum_succ_right] at h1
      simp only [Nat.zero_add] at h1
      omega
    · simp only [h, if_false, Option.isSome_none, Bool.false_eq_true, false_iff]
      have : t.level = t.volume.mips ∧ t.depth = 0 := by
        cases v.cursor with
        | inl h' => omega
        | inr h' => exact h'
      unfold VolIter.abs VolIter.N
      rw [this.1, this.2]; omega

/-! ### the flattened list at the cursor (texture arrays) -/

theorem specArray_length (px : PixelInfo) (w h mips : Nat) : ∀ n,
    (specArray px w h mips n).length = n * mips := by
  intro n
  induction n with
  | zero => simp [specArray]
  | succ n ih =>
    unfold specArray at ih ⊢
    rw [List.range_succ, List.map_append, List.flatten_append, List.length_append, ih]
    simp [specMips_length, Nat.add_mul]

theorem specArray_getElem (px : PixelInfo) (w h mips : Nat) : ∀ (n i l : Nat), i < n → l < mips →
    (specArray px w h mips n)[i * mips + l]? =
      (specMips px w h 0 mips (i * texIdeal px w h 0 mips))[l]? := by
  intro n
  induction n with
  | zero => intro i l hi; omega
  | succ n ih =>
    intro i l hi hl
    have hlen := specArray_length px w h mips n
    have hsplit : specArray px w h mips (n + 1) =
        specArray px w h mips n ++ specMips px w h 0 mips (n * texIdeal px w h 0 mips) := by
      unfold specArray
      rw [List.range_succ, List.map_append, List.flatten_append]
      simp
    rw [hsplit]
    by_cases hin : i < n
    · have hlt : i * mips + l < (specArray px w h mips n).length := by
        rw [hlen]
        have : (i + 1) * mips ≤ n * mips := Nat.mul_le_mul_right _ (by omega)
        rw [Nat.add_mul] at this; omega
      rw [List.getElem?_append_left hlt]
      exact ih i l hin hl
    · have hi' : i = n := by omega
      subst hi'
      rw [List.getElem?_append_right (by rw [hlen]; omega), hlen]
      congr 1; omega

/-- For texture layouts the surface reported by `current()` — size and length — is the
element of the flattened list at the cursor, and the ideal elapsed bytes are its offset. -/
theorem tex_current_is_flat (t : TexIter) (v : t.Inv) (hi : t.idx < t.len) :
    ∃ s, (flat (.tex t))[t.abs]? = some s ∧ s.offset = t.elapsed ∧
      t.currentP = some (some ⟨s.w, s.h, s.len, t.level⟩) := by
  have hl : t.level < t.first.mips := by
    cases v.cursor with
    | inl h' => exact h'.2
    | inr h' => omega
  unfold flat TexIter.abs
  rw [specArray_getElem _ _ _ _ _ _ _ hi hl, specMips_getElem_eq _ _ _ _ _ _ _ hl]
  refine ⟨_, rfl, ?_, ?_⟩
  · simp [TexIter.elapsed, TexIter.T]
  · rw [TexIter.Inv.currentP v, if_pos hi]; simp

/-- At the end of a texture layout the elapsed bytes are the whole data section. -/
theorem tex_end_is_total (t : TexIter) (v : t.Inv) (hi : ¬ t.idx < t.len) :
    t.elapsed = total (.tex t) ∧ (flat (.tex t))[t.abs]? = none := by
  have : t.idx = t.len ∧ t.level = 0 := by
    cases v.cursor with
    | inl h' => omega
    | inr h' => exact h'
  constructor
  · unfold TexIter.elapsed total; rw [this.1, this.2]; simp [texIdeal]
  · apply List.getElem?_eq_none
    unfold flat TexIter.abs
    rw [specArray_length, this.1, this.2]; omega

/-! ### decoder-level invariant over arbitrary histories -/

/-- the decoder invariant: the iterator invariant, the reader position equal to the ideal
offset of the cursor, and a fresh iterator for the same layout being valid too -/
structure DecInv (d : Dec) : Prop where
  iter : IterInv d.iter
  pos : d.pos = (elapsed d.iter : Int)
  fresh : IterInv (SurfIter.new d.layout)
  same : count (SurfIter.new d.layout) = count d.iter ∧ total (SurfIter.new d.layout) = total d.iter
    ∧ flat (SurfIter.new d.layout) = flat d.iter

theorem elapsed_new (L : DataLayout) : elapsed (SurfIter.new L) = 0 := by
  cases L with
  | texture t => simp [SurfIter.new, elapsed, TexIter.elapsed, texIdeal]
  | volume v => simp [SurfIter.new, elapsed, VolIter.elapsed, volIdeal]
  | textureArray a => simp [SurfIter.new, elapsed, TexIter.elapsed, texIdeal]

private theorem readSurface_inv (d : Dec) (v : DecInv d) (w h : Nat) :
    DecInv (d.readSurface w h).1 ∧ (d.readSurface w h).2 ≠ .panic ∧
      ((d.readSurface w h).2 ≠ .ok → (d.readSurface w h).1 = d) ∧
      (d.readSurface w h).1.layout = d.layout := by
  unfold Dec.readSurface
  obtain ⟨r, hr, _⟩ := current_total d.iter v.iter
  rw [hr]
  cases r with
  | none => exact ⟨v, by simp, fun _ => rfl, rfl⟩
  | some s =>
    simp only
    by_cases h1 : normSize w h ≠ (s.w, s.h)
    · rw [if_pos h1]; exact ⟨v, by simp, fun _ => rfl, rfl⟩
    · rw [if_neg h1]
      by_cases h2 : likelyOverflow d.layout.px (normSize w h).1 (normSize w h).2 = true
      · rw [if_pos h2]; exact ⟨v, by simp, fun _ => rfl, rfl⟩
      · rw [if_neg h2]
        obtain ⟨it', ha, hi, habs, hc, ht, hf⟩ := advance_refines d.iter v.iter
        rw [ha]
        refine ⟨?_, by simp, fun hne => absurd rfl hne, rfl⟩
        sorry

end Dds.C08
