/-
C08 — Any sequence of decoder operations stays in step with the file layout.

Model: `Iter.lean` (both surface iterators, verbatim) and `Decoder.lean` (the `Decoder`
calls over an ideal, long-enough, fault-free reader; `decode`/`decode_rect` represented by
their stream contract C06). Helper lemmas: `Proofs/Iter.lean`.

The specification is a cursor `k` into the flattened surface list of C02
(`C02.specFlatten`): the abstraction `abs` maps the iterator state to `k`.
-/
import DdsModel.Proofs.Iter
import DdsModel.Theorems.C02
import DdsModel.Decoder
namespace Dds.C08
open Dds

/-! ### iterator-level refinement -/

def IterInv : SurfIter → Prop
  | .tex it => it.Inv
  | .vol it => it.Inv

/-- index of the cursor in the flattened surface list -/
def abs : SurfIter → Nat
  | .tex it => it.abs
  | .vol it => it.abs

/-- number of surfaces of the layout -/
def count : SurfIter → Nat
  | .tex it => it.N
  | .vol it => it.N

/-- ideal byte offset of the cursor in the data section -/
def elapsed : SurfIter → Nat
  | .tex it => it.elapsed
  | .vol it => it.elapsed

/-- the flattened list the iterator walks (C02's specification list) -/
def flat : SurfIter → List Surface
  | .tex it => specArray it.first.px it.first.w it.first.h it.first.mips it.len
  | .vol it => specVolFlat it.volume.px it.volume.w it.volume.h it.volume.d 0 it.volume.mips 0

/-- total data length -/
def total : SurfIter → Nat
  | .tex it => it.len * it.T
  | .vol it => volIdeal it.volume.px it.volume.w it.volume.h it.volume.d 0 it.volume.mips

/-- `advance` moves the cursor one surface forward, saturating at the end; never panics. -/
theorem advance_refines (it : SurfIter) (v : IterInv it) :
    ∃ it', it.advanceP = some it' ∧ IterInv it' ∧ abs it' = min (abs it + 1) (count it) ∧
      count it' = count it ∧ total it' = total it ∧ flat it' = flat it := by
  cases it with
  | tex t =>
    obtain ⟨h1, h2, h3, h4⟩ := TexIter.Inv.advance v
    refine ⟨.tex t.advance, rfl, h1, h2, ?_, ?_, ?_⟩
    · show t.advance.len * t.advance.first.mips = t.len * t.first.mips; rw [h3, h4]
    · show t.advance.len * t.advance.T = t.len * t.T; unfold TexIter.T; rw [h3, h4]
    · show specArray _ _ _ _ _ = specArray _ _ _ _ _; rw [h3, h4]
  | vol t =>
    obtain ⟨it', h0, h1, h2, h3⟩ := VolIter.Inv.advanceP v
    refine ⟨.vol it', by simp [SurfIter.advanceP, h0], h1, h2, ?_, ?_, ?_⟩
    · show depthSum _ _ _ = depthSum _ _ _; rw [h3]
    · show volIdeal _ _ _ _ _ _ = volIdeal _ _ _ _ _ _; rw [h3]
    · show specVolFlat _ _ _ _ _ _ _ = specVolFlat _ _ _ _ _ _ _; rw [h3]

/-- `rewind` moves the cursor one surface back, saturating at the start; never panics. -/
theorem rewind_refines (it : SurfIter) (v : IterInv it) :
    ∃ it', it.rewindP = some it' ∧ IterInv it' ∧ abs it' = abs it - 1 ∧
      count it' = count it ∧ total it' = total it ∧ flat it' = flat it := by
  cases it with
  | tex t =>
    obtain ⟨h1, h2, h3, h4⟩ := TexIter.Inv.rewind v
    refine ⟨.tex t.rewind, rfl, h1, h2, ?_, ?_, ?_⟩
    · show t.rewind.len * t.rewind.first.mips = t.len * t.first.mips; rw [h3, h4]
    · show t.rewind.len * t.rewind.T = t.len * t.T; unfold TexIter.T; rw [h3, h4]
    · show specArray _ _ _ _ _ = specArray _ _ _ _ _; rw [h3, h4]
  | vol t =>
    obtain ⟨it', h0, h1, h2, h3⟩ := VolIter.Inv.rewindP v
    refine ⟨.vol it', by simp [SurfIter.rewindP, h0], h1, h2, ?_, ?_, ?_⟩
    · show depthSum _ _ _ = depthSum _ _ _; rw [h3]
    · show volIdeal _ _ _ _ _ _ = volIdeal _ _ _ _ _ _; rw [h3]
    · show specVolFlat _ _ _ _ _ _ _ = specVolFlat _ _ _ _ _ _ _; rw [h3]

/-- `elapsed_bytes` is the ideal offset of the cursor (no panic, no `u64` wrap) and is
bounded by the data length. -/
theorem elapsed_refines (it : SurfIter) (v : IterInv it) :
    it.elapsedP = some (elapsed it) ∧ elapsed it ≤ total it := by
  cases it with
  | tex t => exact ⟨TexIter.Inv.elapsedP v, TexIter.Inv.elapsed_le v⟩
  | vol t => exact ⟨VolIter.Inv.elapsedP v, VolIter.Inv.elapsed_le v⟩

/-- `current` never panics and is `none` exactly at the end of the list. -/
theorem current_total (it : SurfIter) (v : IterInv it) :
    ∃ r, it.currentP = some r ∧ (r.isSome ↔ abs it < count it) := by
  cases it with
  | tex t =>
    refine ⟨_, TexIter.Inv.currentP v, ?_⟩
    have := TexIter.Inv.abs_lt_iff v
    show _ ↔ t.abs < t.N
    rw [this]
    by_cases h : t.idx < t.len
    · simp [h]
    · simp [h]
  | vol t =>
    refine ⟨_, VolIter.Inv.currentP v, ?_⟩
    show _ ↔ t.abs < t.N
    have hle := VolIter.Inv.abs_le v
    by_cases h : t.level < t.volume.mips
    · simp only [h, if_true, Option.isSome_some, true_iff]
      have hd : t.depth < mipSize t.volume.d t.level := by
        cases v.cursor with
        | inl h' => exact h'.2
        | inr h' => omega
      unfold VolIter.abs VolIter.N
      have h1 := depthSum_split t.volume.d (t.level + 1) 0 (t.volume.mips - (t.level + 1))
      have e : t.level + 1 + (t.volume.mips - (t.level + 1)) = t.volume.mips := by omega
      rw [e, depthSum_succ_right] at h1
      simp only [Nat.zero_add] at h1
      omega
    · simp only [h, if_false, Option.isSome_none, Bool.false_eq_true, false_iff]
      have : t.level = t.volume.mips ∧ t.depth = 0 := by
        cases v.cursor with
        | inl h' => omega
        | inr h' => exact h'
      unfold VolIter.abs VolIter.N
      rw [this.1, this.2]; omega

/-! ### the flattened list at the cursor (texture arrays) -/

theorem specArray_length (px : PixelInfo) (w h mips : Nat) : ∀ n,
    (specArray px w h mips n).length = n * mips := by
  intro n
  induction n with
  | zero => simp [specArray]
  | succ n ih =>
    unfold specArray at ih ⊢
    rw [List.range_succ, List.map_append, List.flatten_append, List.length_append, ih]
    simp [specMips_length, Nat.add_mul]

theorem specArray_getElem (px : PixelInfo) (w h mips : Nat) : ∀ (n i l : Nat), i < n → l < mips →
    (specArray px w h mips n)[i * mips + l]? =
      (specMips px w h 0 mips (i * texIdeal px w h 0 mips))[l]? := by
  intro n
  induction n with
  | zero => intro i l hi; omega
  | succ n ih =>
    intro i l hi hl
    have hlen := specArray_length px w h mips n
    have hsplit : specArray px w h mips (n + 1) =
        specArray px w h mips n ++ specMips px w h 0 mips (n * texIdeal px w h 0 mips) := by
      unfold specArray
      rw [List.range_succ, List.map_append, List.flatten_append]
      simp
    rw [hsplit]
    by_cases hin : i < n
    · have hlt : i * mips + l < (specArray px w h mips n).length := by
        rw [hlen]
        have : (i + 1) * mips ≤ n * mips := Nat.mul_le_mul_right _ (by omega)
        rw [Nat.add_mul] at this; omega
      rw [List.getElem?_append_left hlt]
      exact ih i l hin hl
    · have hi' : i = n := by omega
      subst hi'
      rw [List.getElem?_append_right (by rw [hlen]; omega), hlen]
      congr 1; omega

/-- For texture layouts the surface reported by `current()` — size and length — is the
element of the flattened list at the cursor, and the ideal elapsed bytes are its offset. -/
theorem tex_current_is_flat (t : TexIter) (v : t.Inv) (hi : t.idx < t.len) :
    ∃ s, (flat (.tex t))[t.abs]? = some s ∧ s.offset = t.elapsed ∧
      t.currentP = some (some ⟨s.w, s.h, s.len, t.level⟩) := by
  have hl : t.level < t.first.mips := by
    cases v.cursor with
    | inl h' => exact h'.2
    | inr h' => omega
  unfold flat TexIter.abs
  rw [specArray_getElem _ _ _ _ _ _ _ hi hl, specMips_getElem_eq _ _ _ _ _ _ _ hl]
  refine ⟨_, rfl, ?_, ?_⟩
  · simp [TexIter.elapsed, TexIter.T]
  · rw [TexIter.Inv.currentP v, if_pos hi]; simp

/-- At the end of a texture layout the elapsed bytes are the whole data section. -/
theorem tex_end_is_total (t : TexIter) (v : t.Inv) (hi : ¬ t.idx < t.len) :
    t.elapsed = total (.tex t) ∧ (flat (.tex t))[t.abs]? = none := by
  have : t.idx = t.len ∧ t.level = 0 := by
    cases v.cursor with
    | inl h' => omega
    | inr h' => exact h'
  constructor
  · unfold TexIter.elapsed total; rw [this.1, this.2]; simp [texIdeal]
  · apply List.getElem?_eq_none
    unfold flat TexIter.abs
    rw [specArray_length, this.1, this.2]; omega

/-! ### the flattened list at the cursor (volumes) -/

theorem specSlices_length (v : VolumeDesc) : (specSlices v).length = v.d := by
  simp [specSlices]

theorem specSlices_length_mk (a b c o sl : Nat) :
    (specSlices ⟨a, b, c, o, sl⟩).length = c := by
  simp [specSlices]

theorem specVolFlat_succ (px : PixelInfo) (w h d level n off : Nat) :
    specVolFlat px w h d level (n + 1) off =
      specSlices ⟨mipSize w level, mipSize h level, mipSize d level, off,
        px.surfIdeal (mipSize w level) (mipSize h level)⟩ ++
      specVolFlat px w h d (level + 1) n
        (off + px.surfIdeal (mipSize w level) (mipSize h level) * mipSize d level) := by
  simp [specVolFlat, specVol]

theorem specVolFlat_getElem (px : PixelInfo) (w h d : Nat) : ∀ (n level off j k : Nat), j < n →
    k < mipSize d (level + j) →
    (specVolFlat px w h d level n off)[depthSum d level j + k]? =
      some ⟨mipSize w (level + j), mipSize h (level + j),
            off + volIdeal px w h d level j
              + k * px.surfIdeal (mipSize w (level + j)) (mipSize h (level + j)),
            px.surfIdeal (mipSize w (level + j)) (mipSize h (level + j))⟩ := by
  intro n
  induction n with
  | zero => intro level off j k hj; omega
  | succ n ih =>
    intro level off j k hj hk
    rw [specVolFlat_succ]
    cases j with
    | zero =>
      simp only [depthSum, Nat.zero_add, Nat.add_zero] at hk ⊢
      rw [List.getElem?_append_left (by rw [specSlices_length_mk]; exact hk)]
      simp [specSlices, hk, volIdeal]
    | succ j =>
      have e : level + (j + 1) = level + 1 + j := by omega
      rw [e] at hk ⊢
      simp only [depthSum]
      rw [List.getElem?_append_right (by rw [specSlices_length_mk]; omega), specSlices_length_mk]
      have e2 : mipSize d level + depthSum d (level + 1) j + k - mipSize d level =
          depthSum d (level + 1) j + k := by omega
      rw [e2, ih (level + 1) _ j k (by omega) hk]
      simp only [volIdeal]
      congr 2
      omega

/-- For volume layouts the surface reported by `current()` is the element of the flattened
list at the cursor, and the ideal elapsed bytes are its offset. -/
theorem vol_current_is_flat (t : VolIter) (v : t.Inv) (hl : t.level < t.volume.mips) :
    ∃ s, (flat (.vol t))[t.abs]? = some s ∧ s.offset = t.elapsed ∧
      t.currentP = some (some ⟨s.w, s.h, s.len, t.level⟩) := by
  have hd : t.depth < mipSize t.volume.d t.level := by
    cases v.cursor with
    | inl h => exact h.2
    | inr h => omega
  unfold flat VolIter.abs
  have hg := specVolFlat_getElem t.volume.px t.volume.w t.volume.h t.volume.d t.volume.mips 0 0
    t.level t.depth hl (by simpa using hd)
  simp only [Nat.zero_add] at hg
  rw [hg]
  refine ⟨_, rfl, ?_, ?_⟩
  · simp [VolIter.elapsed, Volume.sliceLen]
  · rw [VolIter.Inv.currentP v, if_pos hl]; simp [Volume.sliceLen]

/-! ### decoder-level invariant over arbitrary histories -/

/-- when a surface is current, `advance` adds exactly its length to the elapsed bytes -/
theorem advance_elapsed (it : SurfIter) (v : IterInv it) (s : SurfInfo)
    (hc : it.currentP = some (some s)) :
    ∃ it', it.advanceP = some it' ∧ elapsed it' = elapsed it + s.len := by
  cases it with
  | tex t =>
    have hcur := TexIter.Inv.currentP v
    simp only [SurfIter.currentP] at hc
    rw [hcur] at hc
    by_cases hi : t.idx < t.len
    · rw [if_pos hi] at hc
      simp only [Option.some.injEq] at hc
      subst hc
      exact ⟨.tex t.advance, rfl, TexIter.Inv.advance_elapsed v hi⟩
    · rw [if_neg hi] at hc; simp at hc
  | vol t =>
    have hcur := VolIter.Inv.currentP v
    simp only [SurfIter.currentP] at hc
    rw [hcur] at hc
    by_cases hl : t.level < t.volume.mips
    · rw [if_pos hl] at hc
      simp only [Option.some.injEq] at hc
      subst hc
      obtain ⟨it', h1, h2⟩ := VolIter.Inv.advance_elapsed v hl
      exact ⟨.vol it', by simp [SurfIter.advanceP, h1], h2⟩
    · rw [if_neg hl] at hc; simp at hc

theorem rewind_elapsed_le (it : SurfIter) (v : IterInv it) :
    ∃ it', it.rewindP = some it' ∧ elapsed it' ≤ elapsed it := by
  cases it with
  | tex t => exact ⟨.tex t.rewind, rfl, TexIter.Inv.rewind_elapsed_le v⟩
  | vol t =>
    obtain ⟨it', h1, h2⟩ := VolIter.Inv.rewind_elapsed_le v
    exact ⟨.vol it', by simp [SurfIter.rewindP, h1], h2⟩

theorem skipMipmaps_refines (it : SurfIter) (v : IterInv it) :
    it.skipMipmapsP = some (.error ()) ∨
    ∃ it' n, it.skipMipmapsP = some (.ok (it', n)) ∧ IterInv it' ∧ elapsed it' = elapsed it + n ∧
      count it' = count it ∧ total it' = total it ∧ flat it' = flat it := by
  cases it with
  | tex t =>
    obtain ⟨it', n, h0, h1, h2, h3, h4, _⟩ := TexIter.Inv.skipMipmapsP v
    refine Or.inr ⟨.tex it', n, by simp [SurfIter.skipMipmapsP, h0], h1, h4, ?_, ?_, ?_⟩
    · show it'.len * it'.first.mips = t.len * t.first.mips; rw [h2, h3]
    · show it'.len * it'.T = t.len * t.T; unfold TexIter.T; rw [h2, h3]
    · show specArray _ _ _ _ _ = specArray _ _ _ _ _; rw [h2, h3]
  | vol t =>
    obtain ⟨herr, hok⟩ := VolIter.Inv.skipMipmapsP v
    by_cases hd : t.depth = 0
    · obtain ⟨it', n, h0, h1, h2, h3, _⟩ := hok hd
      refine Or.inr ⟨.vol it', n, by simp [SurfIter.skipMipmapsP, h0, Except.map], h1, h3, ?_, ?_, ?_⟩
      · show depthSum _ _ _ = depthSum _ _ _; rw [h2]
      · show volIdeal _ _ _ _ _ _ = volIdeal _ _ _ _ _ _; rw [h2]
      · show specVolFlat _ _ _ _ _ _ _ = specVolFlat _ _ _ _ _ _ _; rw [h2]
    · exact Or.inl (by simp [SurfIter.skipMipmapsP, herr hd, Except.map])

/-- the decoder invariant: the iterator invariant, the reader position equal to the ideal
offset of the cursor, and a fresh iterator for the same layout being valid too; the data
section is at most `i64::MAX` bytes (larger files cannot exist; the rewinding calls document a
panic beyond it) -/
structure DecInv (d : Dec) : Prop where
  iter : IterInv d.iter
  pos : d.pos = (elapsed d.iter : Int)
  fresh : IterInv (SurfIter.new d.layout)
  count_eq : count (SurfIter.new d.layout) = count d.iter
  total_eq : total (SurfIter.new d.layout) = total d.iter
  flat_eq : flat (SurfIter.new d.layout) = flat d.iter
  small : total d.iter ≤ I64MAX

theorem elapsed_new (L : DataLayout) : elapsed (SurfIter.new L) = 0 := by
  cases L with
  | texture t => simp [SurfIter.new, elapsed, TexIter.elapsed, texIdeal]
  | volume v => simp [SurfIter.new, elapsed, VolIter.elapsed, volIdeal]
  | textureArray a => simp [SurfIter.new, elapsed, TexIter.elapsed, texIdeal]

/-- moving the iterator forward over the current surface keeps the invariant -/
private theorem consume_inv (d : Dec) (v : DecInv d) (s : SurfInfo)
    (hc : d.iter.currentP = some (some s)) :
    ∃ it', d.iter.advanceP = some it' ∧ DecInv { d with iter := it', pos := d.pos + s.len } := by
  obtain ⟨it', ha, hi, _, hcnt, ht, hf⟩ := advance_refines d.iter v.iter
  obtain ⟨it2, ha2, he⟩ := advance_elapsed d.iter v.iter s hc
  rw [ha] at ha2
  simp only [Option.some.injEq] at ha2
  subst ha2
  refine ⟨it', ha, ⟨hi, ?_, v.fresh, ?_, ?_, ?_, ?_⟩⟩
  · show d.pos + (s.len : Int) = (elapsed it' : Int)
    rw [he, v.pos]; omega
  · show count (SurfIter.new d.layout) = count it'; rw [hcnt]; exact v.count_eq
  · show total (SurfIter.new d.layout) = total it'; rw [ht]; exact v.total_eq
  · show flat (SurfIter.new d.layout) = flat it'; rw [hf]; exact v.flat_eq
  · show total it' ≤ I64MAX; rw [ht]; exact v.small

private theorem readSurface_inv (d : Dec) (v : DecInv d) (w h : Nat) :
    DecInv (d.readSurface w h).1 ∧ (d.readSurface w h).2 ≠ .panic ∧
      ((d.readSurface w h).2 ≠ .ok → (d.readSurface w h).1 = d) := by
  unfold Dec.readSurface
  obtain ⟨r, hr, _⟩ := current_total d.iter v.iter
  rw [hr]
  cases r with
  | none => exact ⟨v, by simp, fun _ => rfl⟩
  | some s =>
    simp only
    by_cases h1 : normSize w h ≠ (s.w, s.h)
    · rw [if_pos h1]; exact ⟨v, by simp, fun _ => rfl⟩
    · rw [if_neg h1]
      by_cases h2 : likelyOverflow d.layout.px (normSize w h).1 (normSize w h).2 = true
      · rw [if_pos h2]; exact ⟨v, by simp, fun _ => rfl⟩
      · rw [if_neg h2]
        obtain ⟨it', ha, hinv⟩ := consume_inv d v s hr
        rw [ha]
        exact ⟨hinv, by simp, fun hne => absurd rfl hne⟩

private theorem skipMipmaps_inv (d : Dec) (v : DecInv d) :
    DecInv d.skipMipmaps.1 ∧ d.skipMipmaps.2 ≠ .panic ∧
      (d.skipMipmaps.2 ≠ .ok → d.skipMipmaps.1 = d) := by
  unfold Dec.skipMipmaps
  cases skipMipmaps_refines d.iter v.iter with
  | inl h => rw [h]; exact ⟨v, by simp, fun _ => rfl⟩
  | inr h =>
    obtain ⟨it', n, h0, hi, he, hcnt, ht, hf⟩ := h
    rw [h0]
    refine ⟨⟨hi, ?_, v.fresh, ?_, ?_, ?_, ?_⟩, by simp, fun hne => absurd rfl hne⟩
    · show d.pos + (n : Int) = (elapsed it' : Int)
      rw [he, v.pos]; omega
    · show count (SurfIter.new d.layout) = count it'; rw [hcnt]; exact v.count_eq
    · show total (SurfIter.new d.layout) = total it'; rw [ht]; exact v.total_eq
    · show flat (SurfIter.new d.layout) = flat it'; rw [hf]; exact v.flat_eq
    · show total it' ≤ I64MAX; rw [ht]; exact v.small

private theorem cubeLoop_inv (faces fw fh : Nat) : ∀ (l : List (Nat × Nat × Nat)) (d : Dec)
    (cells : List (Nat × Nat)), DecInv d →
    DecInv (d.cubeLoop faces fw fh l cells).1 ∧ (d.cubeLoop faces fw fh l cells).2.1 ≠ .panic := by
  intro l
  induction l with
  | nil => intro d cells v; exact ⟨v, by simp [Dec.cubeLoop]⟩
  | cons x rest ih =>
    intro d cells v
    obtain ⟨bit, cx, cy⟩ := x
    unfold Dec.cubeLoop
    by_cases hf : (!hasFace faces bit) = true
    · rw [if_pos hf]; exact ih d cells v
    · rw [if_neg hf]
      obtain ⟨r, hr, _⟩ := current_total d.iter v.iter
      rw [hr]
      cases r with
      | none => exact ⟨v, by simp⟩
      | some s =>
        simp only
        by_cases hs : (s.w, s.h) ≠ (fw, fh)
        · rw [if_pos hs]; exact ⟨v, by simp⟩
        · rw [if_neg hs]
          obtain ⟨h1, h2, _⟩ := readSurface_inv d v fw fh
          generalize hrd : d.readSurface fw fh = rd at h1 h2
          obtain ⟨d1, r1⟩ := rd
          cases r1 with
          | ok =>
            simp only
            obtain ⟨h3, h4, _⟩ := skipMipmaps_inv d1 h1
            generalize hsk : d1.skipMipmaps = sk at h3 h4
            obtain ⟨d2, r2⟩ := sk
            cases r2 with
            | ok => simp only; exact ih d2 _ h3
            | panic => exact absurd rfl h4
            | noMoreSurfaces => exact ⟨h3, by simp⟩
            | unexpectedSurfaceSize => exact ⟨h3, by simp⟩
            | rectOutOfBounds => exact ⟨h3, by simp⟩
            | cannotSkipMipmapsInVolume => exact ⟨h3, by simp⟩
            | notACubeMap => exact ⟨h3, by simp⟩
            | memoryLimitExceeded => exact ⟨h3, by simp⟩
          | panic => exact absurd rfl h2
          | noMoreSurfaces => exact ⟨h1, by simp⟩
          | unexpectedSurfaceSize => exact ⟨h1, by simp⟩
          | rectOutOfBounds => exact ⟨h1, by simp⟩
          | cannotSkipMipmapsInVolume => exact ⟨h1, by simp⟩
          | notACubeMap => exact ⟨h1, by simp⟩
          | memoryLimitExceeded => exact ⟨h1, by simp⟩

/-- Every decoder call keeps the invariant (reader position = offset of the surface the
decoder reports as next) and none of them panics. -/
theorem step_inv (d : Dec) (v : DecInv d) (op : DecOp) :
    DecInv (d.step op).1 ∧ (d.step op).2.1 ≠ .panic := by
  cases op with
  | read w h =>
    obtain ⟨h1, h2, _⟩ := readSurface_inv d v w h
    exact ⟨h1, h2⟩
  | readRect ox oy w h =>
    unfold Dec.step
    obtain ⟨r, hr, _⟩ := current_total d.iter v.iter
    rw [hr]
    cases r with
    | none => exact ⟨v, by simp⟩
    | some s =>
      simp only
      by_cases h1 : likelyOverflow d.layout.px s.w s.h = true
      · rw [if_pos h1]; exact ⟨v, by simp⟩
      · rw [if_neg h1]
        by_cases h2 : (!containsRect s.w s.h ox oy (normSize w h).1 (normSize w h).2) = true
        · rw [if_pos h2]; exact ⟨v, by simp⟩
        · rw [if_neg h2]
          obtain ⟨it', ha, hinv⟩ := consume_inv d v s hr
          rw [ha]
          exact ⟨hinv, by simp⟩
  | skipSurface =>
    unfold Dec.step
    obtain ⟨r, hr, _⟩ := current_total d.iter v.iter
    rw [hr]
    cases r with
    | none => exact ⟨v, by simp⟩
    | some s =>
      simp only
      obtain ⟨it', ha, hinv⟩ := consume_inv d v s hr
      rw [ha]
      exact ⟨hinv, by simp⟩
  | skipMipmaps =>
    obtain ⟨h1, h2, _⟩ := skipMipmaps_inv d v
    exact ⟨h1, h2⟩
  | rewindPrev =>
    unfold Dec.step
    obtain ⟨he, hle⟩ := elapsed_refines d.iter v.iter
    obtain ⟨it', hr, hi, _, hcnt, ht, hf⟩ := rewind_refines d.iter v.iter
    obtain ⟨it2, hr2, hle2⟩ := rewind_elapsed_le d.iter v.iter
    rw [hr] at hr2
    simp only [Option.some.injEq] at hr2
    subst hr2
    obtain ⟨he', hle'⟩ := elapsed_refines it' hi
    rw [he, hr]
    simp only [he']
    have hsmall := v.small
    have hU : I64MAX < U64 := by decide
    have hsub : wSub (elapsed d.iter) (elapsed it') = elapsed d.iter - elapsed it' :=
      wSub_eq (by omega) hle2
    rw [hsub]
    have hnot : ¬ elapsed d.iter - elapsed it' > I64MAX := by omega
    rw [if_neg hnot]
    refine ⟨⟨hi, ?_, v.fresh, ?_, ?_, ?_, ?_⟩, by simp⟩
    · show d.pos - ((elapsed d.iter - elapsed it' : Nat) : Int) = (elapsed it' : Int)
      rw [v.pos]; omega
    · show count (SurfIter.new d.layout) = count it'; rw [hcnt]; exact v.count_eq
    · show total (SurfIter.new d.layout) = total it'; rw [ht]; exact v.total_eq
    · show flat (SurfIter.new d.layout) = flat it'; rw [hf]; exact v.flat_eq
    · show total it' ≤ I64MAX; rw [ht]; exact v.small
  | rewindStart =>
    unfold Dec.step
    obtain ⟨he, hle⟩ := elapsed_refines d.iter v.iter
    rw [he]
    simp only
    have hsmall := v.small
    have hnot : ¬ elapsed d.iter > I64MAX := by omega
    rw [if_neg hnot]
    refine ⟨⟨v.fresh, ?_, v.fresh, rfl, rfl, rfl, ?_⟩, by simp⟩
    · show d.pos - (elapsed d.iter : Int) = (elapsed (SurfIter.new d.layout) : Int)
      rw [v.pos, elapsed_new]; omega
    · show total (SurfIter.new d.layout) ≤ I64MAX; rw [v.total_eq]; exact v.small
  | readCubeMap w h =>
    show DecInv (d.readCubeMap w h).1 ∧ (d.readCubeMap w h).2.1 ≠ .panic
    unfold Dec.readCubeMap
    cases hL : d.layout with
    | texture t => exact ⟨v, by simp⟩
    | volume t => exact ⟨v, by simp⟩
    | textureArray a =>
      simp only
      cases a.kind with
      | textures => exact ⟨v, by simp⟩
      | cubeMaps =>
        simp only
        split
        · exact ⟨v, by simp⟩
        · exact cubeLoop_inv _ _ _ _ d [] v
      | partialCubeMap f =>
        simp only
        split
        · exact ⟨v, by simp⟩
        · exact cubeLoop_inv _ _ _ _ d [] v

/-- run a whole history -/
def run (d : Dec) : List DecOp → Dec × List DecRes
  | [] => (d, [])
  | op :: rest =>
    let r := d.step op
    let (d', rs) := run r.1 rest
    (d', r.2.1 :: rs)

/-- C08, histories: after ANY sequence of decoder operations (no depth bound) the reader
position equals the layout offset of the surface the decoder reports as next (the data
length at the end), the iterator invariant holds, and no call panicked. -/
theorem history (ops : List DecOp) : ∀ (d : Dec), DecInv d →
    DecInv (run d ops).1 ∧ ∀ r ∈ (run d ops).2, r ≠ .panic := by
  induction ops with
  | nil => intro d v; exact ⟨v, by simp [run]⟩
  | cons op rest ih =>
    intro d v
    obtain ⟨h1, h2⟩ := step_inv d v op
    obtain ⟨h3, h4⟩ := ih (d.step op).1 h1
    simp only [run]
    refine ⟨h3, ?_⟩
    intro r hr
    simp only [List.mem_cons] at hr
    cases hr with
    | inl h => rw [h]; exact h2
    | inr h => exact h4 r h

/-- Rejected calls (wrong size, out-of-bounds rect, past the end, skip inside a volume)
change nothing: neither the cursor nor the reader position. -/
theorem rejected_unchanged (d : Dec) (v : DecInv d) (op : DecOp)
    (hop : ∀ w h, op ≠ .readCubeMap w h) (hr : (d.step op).2.1 ≠ .ok) : (d.step op).1 = d := by
  cases op with
  | read w h =>
    obtain ⟨_, _, h3⟩ := readSurface_inv d v w h
    exact h3 hr
  | readRect ox oy w h =>
    revert hr
    unfold Dec.step
    obtain ⟨r, hc, _⟩ := current_total d.iter v.iter
    rw [hc]
    cases r with
    | none => intro _; rfl
    | some s =>
      simp only
      by_cases h1 : likelyOverflow d.layout.px s.w s.h = true
      · rw [if_pos h1]; intro _; rfl
      · rw [if_neg h1]
        by_cases h2 : (!containsRect s.w s.h ox oy (normSize w h).1 (normSize w h).2) = true
        · rw [if_pos h2]; intro _; rfl
        · rw [if_neg h2]
          obtain ⟨it', ha, _⟩ := consume_inv d v s hc
          rw [ha]; intro hne; exact absurd rfl hne
  | skipSurface =>
    revert hr
    unfold Dec.step
    obtain ⟨r, hc, _⟩ := current_total d.iter v.iter
    rw [hc]
    cases r with
    | none => intro _; rfl
    | some s =>
      simp only
      obtain ⟨it', ha, _⟩ := consume_inv d v s hc
      rw [ha]; intro hne; exact absurd rfl hne
  | skipMipmaps =>
    obtain ⟨_, _, h3⟩ := skipMipmaps_inv d v
    exact h3 hr
  | rewindPrev =>
    exfalso
    revert hr
    unfold Dec.step
    obtain ⟨he, hle⟩ := elapsed_refines d.iter v.iter
    obtain ⟨it', hrw, hi, _, _, ht, _⟩ := rewind_refines d.iter v.iter
    obtain ⟨it2, hr2, hle2⟩ := rewind_elapsed_le d.iter v.iter
    rw [hrw] at hr2
    simp only [Option.some.injEq] at hr2
    subst hr2
    obtain ⟨he', _⟩ := elapsed_refines it' hi
    rw [he, hrw]
    simp only [he']
    have hsmall := v.small
    have hU : I64MAX < U64 := by decide
    rw [wSub_eq (by omega) hle2]
    have hnot : ¬ elapsed d.iter - elapsed it' > I64MAX := by omega
    rw [if_neg hnot]
    intro hne; exact hne rfl
  | rewindStart =>
    exfalso
    revert hr
    unfold Dec.step
    obtain ⟨he, hle⟩ := elapsed_refines d.iter v.iter
    rw [he]
    simp only
    have hsmall := v.small
    have hnot : ¬ elapsed d.iter > I64MAX := by omega
    rw [if_neg hnot]
    intro hne; exact hne rfl
  | readCubeMap w h => exact absurd rfl (hop w h)

/-- abs of a fresh iterator is 0 -/
theorem abs_new (L : DataLayout) : abs (SurfIter.new L) = 0 := by
  cases L with
  | texture t => simp [SurfIter.new, abs, TexIter.abs]
  | volume v => simp [SurfIter.new, abs, VolIter.abs, depthSum]
  | textureArray a => simp [SurfIter.new, abs, TexIter.abs]

private theorem abs_le_count (it : SurfIter) (v : IterInv it) : abs it ≤ count it := by
  cases it with
  | tex t => exact TexIter.Inv.abs_le v
  | vol t => exact VolIter.Inv.abs_le v

/-- C08, the cursor: the calls that consume a surface (`read_surface`, `read_surface_rect`,
`skip_surface`) move the cursor of the flattened list forward by exactly one when they
succeed, and fail with `NoMoreSurfaces` exactly at the end of the list. -/
theorem consuming_calls_cursor (d : Dec) (v : DecInv d) (op : DecOp)
    (hop : (∃ w h, op = .read w h) ∨ (∃ ox oy w h, op = .readRect ox oy w h) ∨ op = .skipSurface) :
    ((d.step op).2.1 = .ok → abs (d.step op).1.iter = abs d.iter + 1 ∧ abs d.iter < count d.iter) ∧
    ((d.step op).2.1 = .noMoreSurfaces ↔ abs d.iter = count d.iter) := by
  obtain ⟨r, hr, hiff⟩ := current_total d.iter v.iter
  have hle := abs_le_count d.iter v.iter
  have key : ∀ s, r = some s → ∃ it', d.iter.advanceP = some it' ∧ abs it' = abs d.iter + 1 := by
    intro s hs
    subst hs
    simp only [Option.isSome_some, true_iff] at hiff
    obtain ⟨it', ha, _, habs, _⟩ := advance_refines d.iter v.iter
    exact ⟨it', ha, by rw [habs, Nat.min_def]; split <;> omega⟩
  rcases hop with ⟨w, h, rfl⟩ | ⟨ox, oy, w, h, rfl⟩ | rfl
  · show ((d.readSurface w h).2 = .ok → abs (d.readSurface w h).1.iter = abs d.iter + 1 ∧
        abs d.iter < count d.iter) ∧ ((d.readSurface w h).2 = .noMoreSurfaces ↔ abs d.iter = count d.iter)
    unfold Dec.readSurface
    rw [hr]
    cases r with
    | none =>
      simp only [Option.isSome_none, Bool.false_eq_true, false_iff] at hiff
      (refine ⟨by simp, ?_⟩; simp only [true_iff]; omega)
    | some s =>
      obtain ⟨it', ha, habs⟩ := key s rfl
      simp only [Option.isSome_some, true_iff] at hiff
      simp only
      by_cases h1 : normSize w h ≠ (s.w, s.h)
      · rw [if_pos h1]; (refine ⟨by simp, ?_⟩; simp only [reduceCtorEq, false_iff]; omega)
      · rw [if_neg h1]
        by_cases h2 : likelyOverflow d.layout.px (normSize w h).1 (normSize w h).2 = true
        · rw [if_pos h2]; (refine ⟨by simp, ?_⟩; simp only [reduceCtorEq, false_iff]; omega)
        · rw [if_neg h2, ha]
          (refine ⟨fun _ => ⟨habs, hiff⟩, ?_⟩; simp only [reduceCtorEq, false_iff]; omega)
  · unfold Dec.step
    rw [hr]
    cases r with
    | none =>
      simp only [Option.isSome_none, Bool.false_eq_true, false_iff] at hiff
      (refine ⟨by simp, ?_⟩; simp only [true_iff]; omega)
    | some s =>
      obtain ⟨it', ha, habs⟩ := key s rfl
      simp only [Option.isSome_some, true_iff] at hiff
      simp only
      by_cases h1 : likelyOverflow d.layout.px s.w s.h = true
      · rw [if_pos h1]; (refine ⟨by simp, ?_⟩; simp only [reduceCtorEq, false_iff]; omega)
      · rw [if_neg h1]
        by_cases h2 : (!containsRect s.w s.h ox oy (normSize w h).1 (normSize w h).2) = true
        · rw [if_pos h2]; (refine ⟨by simp, ?_⟩; simp only [reduceCtorEq, false_iff]; omega)
        · rw [if_neg h2, ha]
          (refine ⟨fun _ => ⟨habs, hiff⟩, ?_⟩; simp only [reduceCtorEq, false_iff]; omega)
  · unfold Dec.step
    rw [hr]
    cases r with
    | none =>
      simp only [Option.isSome_none, Bool.false_eq_true, false_iff] at hiff
      (refine ⟨by simp, ?_⟩; simp only [true_iff]; omega)
    | some s =>
      obtain ⟨it', ha, habs⟩ := key s rfl
      simp only [Option.isSome_some, true_iff] at hiff
      simp only
      rw [ha]
      (refine ⟨fun _ => ⟨habs, hiff⟩, ?_⟩; simp only [reduceCtorEq, false_iff]; omega)

/-- C08, the cursor: `rewind_to_previous_surface` moves it back by one (staying at 0),
`rewind_to_start` sets it to 0; both always succeed. -/
theorem rewinding_calls_cursor (d : Dec) (v : DecInv d) :
    ((d.step .rewindPrev).2.1 = .ok ∧ abs (d.step .rewindPrev).1.iter = abs d.iter - 1) ∧
    ((d.step .rewindStart).2.1 = .ok ∧ abs (d.step .rewindStart).1.iter = 0) := by
  constructor
  · unfold Dec.step
    obtain ⟨he, hle⟩ := elapsed_refines d.iter v.iter
    obtain ⟨it', hrw, hi, habs, _, ht, _⟩ := rewind_refines d.iter v.iter
    obtain ⟨it2, hr2, hle2⟩ := rewind_elapsed_le d.iter v.iter
    rw [hrw] at hr2
    simp only [Option.some.injEq] at hr2
    subst hr2
    obtain ⟨he', _⟩ := elapsed_refines it' hi
    rw [he, hrw]
    simp only [he']
    have hsmall := v.small
    have hU : I64MAX < U64 := by decide
    rw [wSub_eq (by omega) hle2]
    have hnot : ¬ elapsed d.iter - elapsed it' > I64MAX := by omega
    rw [if_neg hnot]
    exact ⟨rfl, habs⟩
  · unfold Dec.step
    obtain ⟨he, hle⟩ := elapsed_refines d.iter v.iter
    rw [he]
    simp only
    have hsmall := v.small
    have hnot : ¬ elapsed d.iter > I64MAX := by omega
    rw [if_neg hnot]
    exact ⟨rfl, abs_new _⟩

/-- The cube-map cross: cells are pairwise distinct and lie inside the 4x3 grid (so the
face cells of a `4w x 3h` image are pairwise disjoint and inside the image). -/
theorem cube_cells_disjoint :
    (faceOffsets.map fun (_, x, y) => (x, y)).Nodup ∧
      ∀ c ∈ faceOffsets, c.2.1 < 4 ∧ c.2.2 < 3 := by decide

/-- The faces are visited in the documented order +X, -X, +Y, -Y, +Z, -Z. -/
theorem cube_face_order : faceOffsets.map (·.1) = [1, 2, 4, 8, 16, 32] := by decide

/-! ### the initial state satisfies the invariant -/

/-- A decoder created for any accepted header starts in a state satisfying the invariant. -/
theorem new_inv (hd : LayoutHeader) (px : PixelInfo) (hp : px.WF) (hr : C02.HeaderInRange hd)
    (hm : 1 ≤ hd.mipmapCount) (L : DataLayout) (h : layoutOf hd px = some (.ok L))
    (hsmall : C02.specTotal L ≤ I64MAX) : DecInv (Dec.new L) := by
  obtain ⟨hv, _, hmips, hml, hvol, harr⟩ := C02.layoutOf_valid hd px hp hr L h
  have hfresh : IterInv (SurfIter.new L) := by
    cases L with
    | texture t =>
      obtain ⟨tv, h0⟩ := hv
      have hf := tv.fits
      rw [h0] at hf
      exact ⟨tv.wf, h0, by show 1 ≤ t.mips; rw [show t.mips = hd.mipmapCount from hmips]; exact hm,
        by show t.mips < 256; rw [show t.mips = hd.mipmapCount from hmips]; exact hml,
        by simp [U32], by simpa using hf, tv.len_lt, tv.short,
        Or.inl ⟨by show 0 < 1; omega, by show 0 < t.mips; rw [show t.mips = hd.mipmapCount from hmips]; omega⟩⟩
    | volume v =>
      obtain ⟨hdep, hdpos⟩ := hvol v rfl
      exact ⟨hv, by show 1 ≤ v.mips; rw [show v.mips = hd.mipmapCount from hmips]; exact hm,
        by show v.mips < 256; rw [show v.mips = hd.mipmapCount from hmips]; exact hml,
        hr.d _ hdep, hdpos,
        Or.inl ⟨by show 0 < v.mips; rw [show v.mips = hd.mipmapCount from hmips]; omega,
          mipSize_pos _ _⟩⟩
    | textureArray a =>
      have hal := harr a rfl
      have hmod : a.arrayLen % U32 = a.arrayLen := Nat.mod_eq_of_lt hal
      show TexIter.Inv ⟨a.first, a.arrayLen % U32, 0, 0⟩
      rw [hmod]
      refine ⟨hv.wf, rfl, by show 1 ≤ a.mips; rw [show a.mips = hd.mipmapCount from hmips]; exact hm,
        by show a.mips < 256; rw [show a.mips = hd.mipmapCount from hmips]; exact hml,
        hal, hv.fits, hv.tex, hv.short, ?_⟩
      by_cases h0 : a.arrayLen = 0
      · exact Or.inr ⟨by show 0 = a.arrayLen; omega, rfl⟩
      · exact Or.inl ⟨by show 0 < a.arrayLen; omega,
          by show 0 < a.mips; rw [show a.mips = hd.mipmapCount from hmips]; omega⟩
  refine ⟨hfresh, ?_, hfresh, rfl, rfl, rfl, ?_⟩
  · show (0 : Int) = (elapsed (SurfIter.new L) : Int); rw [elapsed_new]; rfl
  · show total (SurfIter.new L) ≤ I64MAX
    cases L with
    | texture t =>
      show 1 * texIdeal t.px t.w t.h 0 t.mips ≤ I64MAX
      simpa [C02.specTotal] using hsmall
    | volume v => simpa [C02.specTotal, total, SurfIter.new] using hsmall
    | textureArray a =>
      have hal := harr a rfl
      show (a.arrayLen % U32) * texIdeal a.px a.w a.h 0 a.mips ≤ I64MAX
      rw [Nat.mod_eq_of_lt hal]
      simpa [C02.specTotal] using hsmall

/-- Reading every surface in order consumes exactly the data section: when the cursor is
at the end the reader position is the data length. -/
theorem end_position (d : Dec) (v : DecInv d) (hend : abs d.iter = count d.iter) :
    d.pos = (total d.iter : Int) := by
  rw [v.pos]
  congr 1
  cases hit : d.iter with
  | tex t =>
    have vi : t.Inv := by have := v.iter; rw [hit] at this; exact this
    rw [hit] at hend
    have hnot : ¬ t.idx < t.len := by
      intro hlt
      have := (TexIter.Inv.abs_lt_iff vi).2 hlt
      show False
      have hend' : t.abs = t.N := hend
      omega
    exact (tex_end_is_total t vi hnot).1
  | vol t =>
    have vi : t.Inv := by have := v.iter; rw [hit] at this; exact this
    rw [hit] at hend
    have hend' : t.abs = t.N := hend
    have : t.level = t.volume.mips ∧ t.depth = 0 := by
      cases vi.cursor with
      | inl h' =>
        exfalso
        unfold VolIter.abs VolIter.N at hend'
        have h1 := depthSum_split t.volume.d (t.level + 1) 0 (t.volume.mips - (t.level + 1))
        have e : t.level + 1 + (t.volume.mips - (t.level + 1)) = t.volume.mips := by omega
        rw [e, depthSum_succ_right] at h1
        simp only [Nat.zero_add] at h1
        omega
      | inr h' => exact h'
    show t.elapsed = _
    unfold VolIter.elapsed total
    rw [this.1, this.2]; simp

/-! ### non-vacuity -/

/-- a cube map with 2 mips: `read_cube_map` then everything is consumed (12 surfaces, 6 read) -/
example :
    let hd : LayoutHeader := { width := 2, height := 2, depth := none, mipmapCount := 2,
                               kind := HeaderKind.dx10 true ResDim.tex2D 1 }
    (match layoutOf hd (.fixed 1) with
     | some (.ok L) =>
       let r := (Dec.new L).step (.readCubeMap 8 6)
       (r.2.1, r.1.pos, r.2.2.length)
     | _ => (DecRes.panic, 0, 0)) = (DecRes.ok, 30, 6) := by decide

end Dds.C08
