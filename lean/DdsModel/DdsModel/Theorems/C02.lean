/-
C02 — The data layout tiles the data section exactly as the DDS rules prescribe.

Only property theorems and non-vacuity examples live here; helper lemmas are in
`Proofs/Layout.lean`.  All statements are about the model `Layout.lean`, for every
`u32` width/height/depth/array size, every mip count and every pixel-info shape.
-/
import DdsModel.Proofs.Layout
import DdsModel.Drv.C02
namespace Dds.C02
open Dds

/-- header fields are `u32`s -/
structure HeaderInRange (hd : LayoutHeader) : Prop where
  w : hd.width < U32
  h : hd.height < U32
  d : ∀ x, hd.depth = some x → x < U32
  arr : ∀ c dim n, hd.kind = .dx10 c dim n → n < U32

/-- the invariant every produced layout satisfies -/
def LayoutValid : DataLayout → Prop
  | .texture t => t.Valid ∧ t.offsetIndex = 0
  | .textureArray a => a.Valid
  | .volume v => v.Valid

/-- the specification: array element, then mip level, then depth slice, with ideal
(unbounded) arithmetic, running offsets and the formula lengths -/
def specFlatten : DataLayout → List Surface
  | .texture t => specMips t.px t.w t.h 0 t.mips 0
  | .textureArray a => specArray a.px a.w a.h a.mips a.arrayLen
  | .volume v => specVolFlat v.px v.w v.h v.d 0 v.mips 0

def specTotal : DataLayout → Nat
  | .texture t => texIdeal t.px t.w t.h 0 t.mips
  | .textureArray a => a.arrayLen * texIdeal a.px a.w a.h 0 a.mips
  | .volume v => volIdeal v.px v.w v.h v.d 0 v.mips

/-- `mip size = max(1, dim >> level)` for every `u32` dimension and every level. -/
theorem mipSize_spec (d l : Nat) (hd : d < U32) : mipSize d l = max 1 (d / 2 ^ l) :=
  mipSize_eq_max d l hd

/-- `surface_bytes` is the formula `ceil(w/bw)*ceil(h/bh)*bytes` (or the planar sum)
exactly when that fits 64 bits, `None` otherwise. -/
theorem surfaceBytes_spec (p : PixelInfo) (hp : p.WF) (w h : Nat) :
    p.surfaceBytes w h = if p.surfIdeal w h < U64 then some (p.surfIdeal w h) else none :=
  surfaceBytes_eq p hp w h

private theorem arr_valid {kind : ArrayKind} {n : Nat} {t : Texture} {a : TextureArray}
    (v : t.Valid) (h0 : t.offsetIndex = 0) (hn : n < U32)
    (h : TextureArray.new kind n t = some (.ok a)) : a.Valid ∧ a.arrayLen = n ∧ a.w = t.w ∧
      a.h = t.h ∧ a.mips = t.mips ∧ a.px = t.px ∧ a.kind = kind := by
  rw [TextureArray.new_eq v h0] at h
  by_cases hl : t.len * n < U64
  · rw [if_pos hl] at h
    simp only [Option.some.injEq, Except.ok.injEq] at h
    subst h
    refine ⟨⟨v.wf, ?_, hn, v.len_lt, v.short⟩, rfl, rfl, rfl, rfl, rfl, rfl⟩
    show n * texIdeal t.px t.w t.h 0 t.mips < U64
    rw [Nat.mul_comm]; exact hl
  · rw [if_neg hl] at h; simp at h

private theorem createArray_valid {i : SurfaceLayoutInfo} {kind : ArrayKind} {n : Nat}
    {a : TextureArray} (hp : i.px.WF) (hn : n < U32)
    (h : i.createArray kind n = some (.ok a)) :
    a.Valid ∧ a.w = i.w ∧ a.h = i.h ∧ a.mips = i.mips ∧ a.px = i.px ∧ a.arrayLen = n := by
  unfold SurfaceLayoutInfo.createArray SurfaceLayoutInfo.create at h
  cases hc : Texture.create i.w i.h i.mips i.px with
  | error e => rw [hc] at h; simp at h
  | ok t =>
    rw [hc] at h
    obtain ⟨v, hw, hh, hm, hpx, h0⟩ := Texture.create_ok hp hc
    obtain ⟨va, h1, h2, h3, h4, h5, _⟩ := arr_valid v h0 hn h
    exact ⟨va, by rw [h2, hw], by rw [h3, hh], by rw [h4, hm], by rw [h5, hpx], h1⟩

private theorem fromHeader_px {hd : LayoutHeader} {px : PixelInfo} {i : SurfaceLayoutInfo}
    (h : SurfaceLayoutInfo.fromHeader hd px = .ok i) :
    i.px = px ∧ i.w = hd.width ∧ i.h = hd.height ∧ i.mips = hd.mipmapCount ∧
      0 < hd.width ∧ 0 < hd.height ∧ hd.mipmapCount < 256 := by
  unfold SurfaceLayoutInfo.fromHeader parseDimension parseMipmapCount at h
  by_cases hw : hd.width = 0
  · simp [hw] at h
  · by_cases hh : hd.height = 0
    · simp [hw, hh] at h
    · by_cases hm : hd.mipmapCount < 256
      · simp only [hw, hh, hm, if_true, if_false, Except.ok.injEq] at h
        subst h
        exact ⟨rfl, rfl, rfl, rfl, by omega, by omega, hm⟩
      · simp [hw, hh, hm] at h

private theorem popCount6_lt (f : Nat) : popCount6 f < U32 := by
  unfold popCount6 U32; omega

private theorem volume_valid {hd : LayoutHeader} {px : PixelInfo} {v : Volume} (hp : px.WF)
    (h : volumeFromHeader hd px = .ok v) :
    v.Valid ∧ v.px = px ∧ v.mips = hd.mipmapCount ∧ hd.mipmapCount < 256 ∧
      hd.depth = some v.d ∧ 0 < v.d := by
  unfold volumeFromHeader parseDimension parseMipmapCount at h
  by_cases hw : hd.width = 0
  · simp [hw] at h
  · by_cases hh : hd.height = 0
    · simp [hw, hh] at h
    · cases hd' : hd.depth with
      | none => simp [hw, hh, hd'] at h
      | some d0 =>
        by_cases hd0 : d0 = 0
        · simp [hw, hh, hd', hd0] at h
        · by_cases hm : hd.mipmapCount < 256
          · simp only [hw, hh, hd', hd0, hm, if_true, if_false] at h
            rw [Volume.create_eq hp] at h
            by_cases hl : volIdeal px hd.width hd.height d0 0 hd.mipmapCount < U64
            · rw [if_pos hl] at h
              simp only [Except.ok.injEq] at h
              subst h
              exact ⟨⟨hp, hl⟩, rfl, rfl, hm, rfl, Nat.pos_of_ne_zero hd0⟩
            · rw [if_neg hl] at h; cases h
          · simp [hw, hh, hd', hd0, hm] at h

/-- what a produced layout inherits from the header -/
def ShapeOf (L : DataLayout) (hd : LayoutHeader) : Prop :=
  L.mips = hd.mipmapCount ∧ hd.mipmapCount < 256 ∧
    (∀ v, L = .volume v → hd.depth = some v.d ∧ 0 < v.d) ∧
    (∀ a, L = .textureArray a → a.arrayLen < U32)

/-- Every layout the constructor returns satisfies the invariant from which everything
else follows (all checked lengths fit; the cached short length is consistent). -/
theorem layoutOf_valid (hd : LayoutHeader) (px : PixelInfo) (hp : px.WF) (hr : HeaderInRange hd)
    (L : DataLayout) (h : layoutOf hd px = some (.ok L)) :
    LayoutValid L ∧ L.px = px ∧ ShapeOf L hd := by
  unfold layoutOf at h
  cases hk : hd.kind with
  | dx10 isCube dim arraySize =>
    have harr := hr.arr _ _ _ hk
    simp only [hk] at h
    by_cases hc : isCube = true
    · simp only [hc, if_true] at h
      by_cases hdim : dim ≠ .tex2D
      · simp [hdim] at h
      · simp only [hdim, if_false] at h
        cases hi : SurfaceLayoutInfo.fromHeader hd px with
        | error e => simp [hi] at h
        | ok info =>
          simp only [hi] at h
          obtain ⟨hpx, _⟩ := fromHeader_px hi
          unfold ckMul32 at h
          by_cases h6 : arraySize * 6 < U32
          · simp only [h6, if_true, liftArr] at h
            cases ha : info.createArray .cubeMaps (arraySize * 6) with
            | none => simp [ha] at h
            | some r =>
              cases r with
              | error e => simp [ha, Except.map] at h
              | ok a =>
                simp only [ha, Option.map_some, Except.map, Option.some.injEq,
                  Except.ok.injEq] at h
                subst h
                obtain ⟨va, _, _, h4, h5, h6⟩ := createArray_valid (hpx ▸ hp) h6 ha
                obtain ⟨_, _, _, hmi, _, _, hml⟩ := fromHeader_px hi
                refine ⟨va, by rw [← hpx]; exact h5, ?_, hml, ?_, ?_⟩
                · show _ = hd.mipmapCount; rw [← hmi]; exact h4
                · intro v' hv'; cases hv'
                · intro a' ha'; cases ha'; rw [h6]; first | exact h6' | assumption | exact popCount6_lt _
          · simp [h6] at h
    · simp only [hc] at h
      cases dim with
      | tex3D =>
        simp only [Bool.false_eq_true, if_false, Option.some.injEq] at h
        cases hv : volumeFromHeader hd px with
        | error e => simp [hv, Except.map] at h
        | ok v =>
          simp only [hv, Except.map, Except.ok.injEq] at h
          subst h
          obtain ⟨vv, hpx', hm', hml, hdd, hdp⟩ := volume_valid hp hv
          refine ⟨vv, hpx', hm', hml, ?_, ?_⟩
          · intro v' hv'; cases hv'; exact ⟨hdd, hdp⟩
          · intro a ha; cases ha
      | tex1D =>
        simp only [Bool.false_eq_true, if_false] at h
        cases hi : SurfaceLayoutInfo.fromHeader hd px with
        | error e => simp [hi] at h
        | ok info =>
          simp only [hi, if_true] at h
          obtain ⟨hpx, _⟩ := fromHeader_px hi
          by_cases h1 : arraySize = 1
          · simp only [h1, if_true, Option.some.injEq, SurfaceLayoutInfo.create] at h
            cases hc' : Texture.create info.w 1 info.mips info.px with
            | error e => simp [hc', Except.map] at h
            | ok t =>
              simp only [hc', Except.map, Except.ok.injEq] at h
              subst h
              obtain ⟨v, _, _, h4, h5, h0⟩ := Texture.create_ok (hpx ▸ hp) hc'
              obtain ⟨_, _, _, hmi, _, _, hml⟩ := fromHeader_px hi
              refine ⟨⟨v, h0⟩, by rw [← hpx]; exact h5, ?_, hml, ?_, ?_⟩
              · show _ = hd.mipmapCount; rw [← hmi]; exact h4
              · intro v' hv'; cases hv'
              · intro a' ha'; cases ha'
          · simp only [h1, if_false, liftArr] at h
            cases ha : SurfaceLayoutInfo.createArray { info with h := 1 } .textures arraySize with
            | none => simp [ha] at h
            | some r =>
              cases r with
              | error e => simp [ha, Except.map] at h
              | ok a =>
                simp only [ha, Option.map_some, Except.map, Option.some.injEq,
                  Except.ok.injEq] at h
                subst h
                obtain ⟨va, _, _, h4, h5, h6⟩ := createArray_valid (i := { info with h := 1 }) (hpx ▸ hp) harr ha
                obtain ⟨_, _, _, hmi, _, _, hml⟩ := fromHeader_px hi
                refine ⟨va, by rw [← hpx]; exact h5, ?_, hml, ?_, ?_⟩
                · show _ = hd.mipmapCount; rw [← hmi]; exact h4
                · intro v' hv'; cases hv'
                · intro a' ha'; cases ha'; rw [h6]; first | exact h6' | assumption | exact popCount6_lt _
      | tex2D =>
        simp only [Bool.false_eq_true, if_false] at h
        cases hi : SurfaceLayoutInfo.fromHeader hd px with
        | error e => simp [hi] at h
        | ok info =>
          simp only [hi] at h
          obtain ⟨hpx, _⟩ := fromHeader_px hi
          by_cases h1 : arraySize = 1
          · simp only [h1, if_true, Option.some.injEq, SurfaceLayoutInfo.create,
              reduceCtorEq, if_false] at h
            cases hc' : Texture.create info.w info.h info.mips info.px with
            | error e => simp [hc', Except.map] at h
            | ok t =>
              simp only [hc', Except.map, Except.ok.injEq] at h
              subst h
              obtain ⟨v, _, _, h4, h5, h0⟩ := Texture.create_ok (hpx ▸ hp) hc'
              obtain ⟨_, _, _, hmi, _, _, hml⟩ := fromHeader_px hi
              refine ⟨⟨v, h0⟩, by rw [← hpx]; exact h5, ?_, hml, ?_, ?_⟩
              · show _ = hd.mipmapCount; rw [← hmi]; exact h4
              · intro v' hv'; cases hv'
              · intro a' ha'; cases ha'
          · simp only [h1, if_false, liftArr, reduceCtorEq] at h
            cases ha : SurfaceLayoutInfo.createArray info .textures arraySize with
            | none => simp [ha] at h
            | some r =>
              cases r with
              | error e => simp [ha, Except.map] at h
              | ok a =>
                simp only [ha, Option.map_some, Except.map, Option.some.injEq,
                  Except.ok.injEq] at h
                subst h
                obtain ⟨va, _, _, h4, h5, h6⟩ := createArray_valid (hpx ▸ hp) harr ha
                obtain ⟨_, _, _, hmi, _, _, hml⟩ := fromHeader_px hi
                refine ⟨va, by rw [← hpx]; exact h5, ?_, hml, ?_, ?_⟩
                · show _ = hd.mipmapCount; rw [← hmi]; exact h4
                · intro v' hv'; cases hv'
                · intro a' ha'; cases ha'; rw [h6]; first | exact h6' | assumption | exact popCount6_lt _
  | dx9 caps2 =>
    simp only [hk] at h
    by_cases hcube : caps2 / CAPS2_CUBE_MAP % 2 = 1
    · simp only [hcube, if_true] at h
      by_cases hvol : caps2 / CAPS2_VOLUME % 2 = 1
      · simp [hvol] at h
      · simp only [hvol, if_false] at h
        cases hi : SurfaceLayoutInfo.fromHeader hd px with
        | error e => simp [hi] at h
        | ok info =>
          simp only [hi, liftArr] at h
          obtain ⟨hpx, _⟩ := fromHeader_px hi
          generalize hkind : (if popCount6 (cubeFacesOfCaps2 caps2) = 6 then ArrayKind.cubeMaps
            else ArrayKind.partialCubeMap (cubeFacesOfCaps2 caps2)) = kind at h
          cases ha : info.createArray kind (popCount6 (cubeFacesOfCaps2 caps2)) with
          | none => simp [ha] at h
          | some r =>
            cases r with
            | error e => simp [ha, Except.map] at h
            | ok a =>
              simp only [ha, Option.map_some, Except.map, Option.some.injEq,
                Except.ok.injEq] at h
              subst h
              obtain ⟨va, _, _, h4, h5, h6⟩ := createArray_valid (hpx ▸ hp) (popCount6_lt _) ha
              obtain ⟨_, _, _, hmi, _, _, hml⟩ := fromHeader_px hi
              refine ⟨va, by rw [← hpx]; exact h5, ?_, hml, ?_, ?_⟩
              · show _ = hd.mipmapCount; rw [← hmi]; exact h4
              · intro v' hv'; cases hv'
              · intro a' ha'; cases ha'; rw [h6]; first | exact h6' | assumption | exact popCount6_lt _
    · simp only [hcube, if_false] at h
      by_cases hvol : caps2 / CAPS2_VOLUME % 2 = 1
      · simp only [hvol, if_true, Option.some.injEq] at h
        cases hv : volumeFromHeader hd px with
        | error e => simp [hv, Except.map] at h
        | ok v =>
          simp only [hv, Except.map, Except.ok.injEq] at h
          subst h
          obtain ⟨vv, hpx', hm', hml, hdd, hdp⟩ := volume_valid hp hv
          refine ⟨vv, hpx', hm', hml, ?_, ?_⟩
          · intro v' hv'; cases hv'; exact ⟨hdd, hdp⟩
          · intro a ha; cases ha
      · simp only [hvol, if_false] at h
        cases hi : SurfaceLayoutInfo.fromHeader hd px with
        | error e => simp [hi] at h
        | ok info =>
          simp only [hi, Option.some.injEq, SurfaceLayoutInfo.create] at h
          obtain ⟨hpx, _⟩ := fromHeader_px hi
          cases hc' : Texture.create info.w info.h info.mips info.px with
          | error e => simp [hc', Except.map] at h
          | ok t =>
            simp only [hc', Except.map, Except.ok.injEq] at h
            subst h
            obtain ⟨v, _, _, h4, h5, h0⟩ := Texture.create_ok (hpx ▸ hp) hc'
            obtain ⟨_, _, _, hmi, _, _, hml⟩ := fromHeader_px hi
            refine ⟨⟨v, h0⟩, by rw [← hpx]; exact h5, ?_, hml, ?_, ?_⟩
            · show _ = hd.mipmapCount; rw [← hmi]; exact h4
            · intro v' hv'; cases hv'
            · intro a' ha'; cases ha'

/-- For a valid layout the iterators of the source produce exactly the specification
list, the reported total is the ideal total and it fits 64 bits: no `unwrap` panics
and no unchecked `u64` operation wraps. -/
theorem flatten_eq_spec (L : DataLayout) (hv : LayoutValid L) :
    L.flattenP = some (specFlatten L) ∧ L.dataLenP = some (specTotal L) ∧ specTotal L < U64 := by
  cases L with
  | texture t =>
    obtain ⟨v, h0⟩ := hv
    refine ⟨?_, ?_, ?_⟩
    · show t.iterMipsP = _
      rw [v.iterMipsP, h0]; simp [specFlatten]
    · show t.dataLenP = _
      rw [v.dataLenP]; rfl
    · exact v.len_lt
  | textureArray a => exact ⟨hv.flattenP, hv.dataLenP, hv.fits⟩
  | volume v => exact ⟨hv.flattenP, hv.dataLenP, hv.fits⟩

/-- The surfaces start at offset 0, are contiguous (no gap, no overlap) and their
lengths add up to the reported total. -/
theorem spec_contiguous (L : DataLayout) : Contig 0 (specFlatten L) (specTotal L) := by
  cases L with
  | texture t =>
    have := specMips_contig t.px t.w t.h t.mips 0 0
    simpa [specFlatten, specTotal] using this
  | textureArray a => exact specArray_contig _ _ _ _ _
  | volume v =>
    have := specVolFlat_contig v.px v.w v.h v.d v.mips 0 0
    simpa [specFlatten, specTotal] using this

/-- C02, assembled: whenever a header yields a layout, iteration yields a list that
starts at 0, is contiguous, sums to the reported total, and the total is below 2^64. -/
theorem flatten_contiguous (hd : LayoutHeader) (px : PixelInfo) (hp : px.WF)
    (hr : HeaderInRange hd) (L : DataLayout) (h : layoutOf hd px = some (.ok L)) :
    ∃ l total, L.flattenP = some l ∧ L.dataLenP = some total ∧ total < U64 ∧ Contig 0 l total := by
  obtain ⟨hv, _, _⟩ := layoutOf_valid hd px hp hr L h
  obtain ⟨h1, h2, h3⟩ := flatten_eq_spec L hv
  exact ⟨_, _, h1, h2, h3, spec_contiguous L⟩

/-- Every mip surface of a texture has size `max(1, dim >> level)` and the formula length. -/
theorem texture_surface_spec (px : PixelInfo) (w h mips off j : Nat) (s : Surface)
    (hw : w < U32) (hh : h < U32) (hs : (specMips px w h 0 mips off)[j]? = some s) :
    j < mips ∧ s.w = max 1 (w / 2 ^ j) ∧ s.h = max 1 (h / 2 ^ j) ∧
      s.len = px.surfIdeal s.w s.h := by
  obtain ⟨h1, h2, h3, h4, _⟩ := specMips_getElem px w h mips 0 off j s hs
  rw [Nat.zero_add] at h2 h3
  exact ⟨h1, by rw [h2, mipSize_eq_max w j hw], by rw [h3, mipSize_eq_max h j hh], h4⟩

/-- Indexed access agrees with iteration (arrays). -/
theorem array_get_eq_iter (a : TextureArray) (i : Nat) : a.get i = a.iter[i]? := by
  unfold TextureArray.get TextureArray.iter
  by_cases hi : i < a.arrayLen
  · simp [hi]
  · simp [hi]

/-- Indexed access agrees with iteration (mip levels; `get` is `iter_mips().nth`). -/
theorem texture_get_eq_iter (t : Texture) (l : Nat) :
    t.getP l = t.iterMipsP.map (·[l]?) := rfl

/-- Indexed access agrees with iteration (depth slices). -/
theorem depth_slice_get_eq_iter (v : VolumeDesc) (k : Nat) :
    v.getDepthSlice k = v.iterDepthSlices[k]? := by
  unfold VolumeDesc.getDepthSlice VolumeDesc.iterDepthSlices
  by_cases hk : k < v.d
  · simp [hk]
  · simp [hk]

/-- Array element `i` starts at `i * len` and ends at `(i+1) * len`, computed without wrap. -/
theorem array_element_offsets (a : TextureArray) (v : a.Valid) (i : Nat) (hi : i < a.arrayLen) :
    ∃ t, a.get i = some t ∧
      t.dataOffsetP = some (i * texIdeal a.px a.w a.h 0 a.mips) ∧
      t.dataEndP = some ((i + 1) * texIdeal a.px a.w a.h 0 a.mips) ∧
      (i + 1) * texIdeal a.px a.w a.h 0 a.mips < U64 := by
  refine ⟨{ a.first with offsetIndex := i }, by simp [TextureArray.get, hi], ?_, ?_, ?_⟩
  · exact (v.elem hi).dataOffsetP
  · exact (v.elem hi).dataEndP
  · exact (v.elem hi).fits

/-- Headers whose total would not fit are rejected: a texture is created iff its ideal
length is below 2^64 (`DataLayoutTooBig` otherwise); same for volumes and arrays. -/
theorem texture_accept_iff_fits (w h mips : Nat) (px : PixelInfo) (hp : px.WF) :
    (∃ t, Texture.create w h mips px = .ok t) ↔ texIdeal px w h 0 mips < U64 := by
  rw [Texture.create_eq hp]
  by_cases hl : texIdeal px w h 0 mips < U64
  · simp [hl]
  · simp [hl]

theorem volume_accept_iff_fits (w h d mips : Nat) (px : PixelInfo) (hp : px.WF) :
    (∃ v, Volume.create w h d mips px = .ok v) ↔ volIdeal px w h d 0 mips < U64 := by
  rw [Volume.create_eq hp]
  by_cases hl : volIdeal px w h d 0 mips < U64
  · simp [hl]
  · simp [hl]

theorem array_accept_iff_fits (kind : ArrayKind) (n : Nat) (t : Texture) (v : t.Valid)
    (h0 : t.offsetIndex = 0) :
    (∃ a, TextureArray.new kind n t = some (.ok a)) ↔ t.len * n < U64 := by
  rw [TextureArray.new_eq v h0]
  by_cases hl : t.len * n < U64
  · simp [hl]
  · simp [hl]

/-- The driver's bounded iteration helper is the prefix of the real iteration. -/
theorem depthSlicesTake_eq (v : VolumeDesc) (n : Nat) :
    Drv.depthSlicesTake v n = v.iterDepthSlices.take n := by
  unfold Drv.depthSlicesTake VolumeDesc.iterDepthSlices
  rw [← List.map_take, List.take_range]
  rw [Nat.min_comm]

/-! ### non-vacuity: concrete headers that meet the hypotheses -/

def exHeader1 : LayoutHeader :=
  { width := 5, height := 3, depth := none, mipmapCount := 3, kind := HeaderKind.dx9 0 }
def exHeader2 : LayoutHeader :=
  { width := 4294967295, height := 4294967295, depth := none, mipmapCount := 1,
    kind := HeaderKind.dx10 false ResDim.tex2D 4294967295 }

/-- a 5x3 BC1 texture with 3 mips is accepted, with surfaces at 0, 16, 24 and total 32 -/
example : (layoutOf exHeader1 (.block 8 4 4)).bind (fun r => r.toOption.bind DataLayout.flattenP) =
    some [⟨5, 3, 0, 16⟩, ⟨2, 1, 16, 8⟩, ⟨1, 1, 24, 8⟩] := by decide

example : HeaderInRange exHeader1 ∧ (PixelInfo.block 8 4 4).WF := by
  refine ⟨⟨by decide, by decide, ?_, ?_⟩, by decide⟩
  · intro x hx; cases hx
  · intro c dim n hk; cases hk

/-- a layout that does not fit is rejected -/
example : (match layoutOf exHeader2 (.fixed 16) with
    | some (.error .dataLayoutTooBig) => true
    | _ => false) = true := by decide

end Dds.C02
