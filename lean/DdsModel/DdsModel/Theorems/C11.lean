/-
C11 — The encoder accepts surfaces only in layout order; rejected calls change nothing.

Model: `Encoder.lean` (`write_surface_impl`, `finish`, the `mipmaps.generate` switch; after
repair F13) on top of the iterator model. Specification: the cursor `abs` into C02's
flattened surface list and the ideal offset `elapsed` (see `Theorems/C08.lean`).
-/
import DdsModel.Encoder
import DdsModel.Theorems.C08
namespace Dds.C11
open Dds Dds.C08

/-- the encoder invariant: the data bytes written so far equal the layout offset of the
surface the encoder reports as next -/
structure EncInv (e : Enc) : Prop where
  iter : IterInv e.iter
  written : e.written = elapsed e.iter

private theorem consume (e : Enc) (v : EncInv e) (s : SurfInfo)
    (hc : e.iter.currentP = some (some s)) :
    ∃ it', e.iter.advanceP = some it' ∧ EncInv { e with iter := it', written := e.written + s.len } ∧
      abs it' = min (abs e.iter + 1) (count e.iter) ∧ count it' = count e.iter ∧
      total it' = total e.iter := by
  obtain ⟨it', ha, hi, habs, hcnt, htot, _⟩ := advance_refines e.iter v.iter
  obtain ⟨it2, ha2, he⟩ := advance_elapsed e.iter v.iter s hc
  rw [ha] at ha2
  simp only [Option.some.injEq] at ha2
  subst ha2
  exact ⟨it', ha, ⟨hi, by show e.written + s.len = elapsed it'; rw [he, v.written]⟩, habs, hcnt, htot⟩

/-- the mipmap generation loop keeps the invariant whatever its outcome, never panics, and
only moves the cursor forward -/
private theorem genLoop_inv : ∀ (fuel : Nat) (e : Enc), EncInv e →
    EncInv (e.genLoop fuel).1 ∧ (e.genLoop fuel).2 ≠ .panic ∧
      abs e.iter ≤ abs (e.genLoop fuel).1.iter ∧ count (e.genLoop fuel).1.iter = count e.iter ∧
      (e.genLoop fuel).1.generate = e.generate ∧ (e.genLoop fuel).1.layout = e.layout := by
  intro fuel
  induction fuel with
  | zero => intro e v; exact ⟨v, by simp [Enc.genLoop], Nat.le_refl _, rfl, rfl, rfl⟩
  | succ fuel ih =>
    intro e v
    unfold Enc.genLoop
    obtain ⟨r, hr, _⟩ := current_total e.iter v.iter
    rw [hr]
    cases r with
    | none => exact ⟨v, by simp, Nat.le_refl _, rfl, rfl, rfl⟩
    | some s =>
      simp only
      by_cases h0 : s.level = 0
      · rw [if_pos h0]; exact ⟨v, by simp, Nat.le_refl _, rfl, rfl, rfl⟩
      · rw [if_neg h0]
        by_cases hs : (!e.sizeOk s.w s.h) = true
        · rw [if_pos hs]; exact ⟨v, by simp, Nat.le_refl _, rfl, rfl, rfl⟩
        · rw [if_neg hs]
          obtain ⟨it', ha, hinv, habs, hcnt, _⟩ := consume e v s hr
          rw [ha]
          simp only
          obtain ⟨h1, h2, h3, h4, h5, h6⟩ := ih _ hinv
          refine ⟨h1, h2, ?_, ?_, h5, h6⟩
          · have : abs e.iter ≤ abs it' := by
              rw [habs]
              have hle : abs e.iter ≤ count e.iter := by
                cases hit : e.iter with
                | tex t =>
                  have vi : t.Inv := by have := v.iter; rw [hit] at this; exact this
                  exact TexIter.Inv.abs_le vi
                | vol t =>
                  have vi : t.Inv := by have := v.iter; rw [hit] at this; exact this
                  exact VolIter.Inv.abs_le vi
              rw [Nat.min_def]; split <;> omega
            exact Nat.le_trans this h3
          · rw [h4]; exact hcnt

private theorem write_inv (e : Enc) (v : EncInv e) (w h : Nat) (c : Bool) :
    EncInv (e.write w h c).1 ∧ (e.write w h c).2 ≠ .panic := by
  unfold Enc.write
  obtain ⟨r, hr, _⟩ := current_total e.iter v.iter
  rw [hr]
  cases r with
  | none => exact ⟨v, by simp⟩
  | some s =>
    simp only
    by_cases h1 : (s.w, s.h) ≠ normSizeE w h
    · rw [if_pos h1]; exact ⟨v, by simp⟩
    · rw [if_neg h1]
      by_cases h2 : c = true
      · rw [if_pos h2]; exact ⟨v, by simp⟩
      · rw [if_neg h2]
        by_cases h3 : (!e.sizeOk s.w s.h) = true
        · rw [if_pos h3]; exact ⟨v, by simp⟩
        · rw [if_neg h3]
          obtain ⟨it', ha, hinv, _, _, _⟩ := consume e v s hr
          rw [ha]
          simp only
          by_cases h4 : e.toGen s > 0
          · rw [if_pos h4]
            obtain ⟨g1, g2, _⟩ := genLoop_inv 255 _ hinv
            exact ⟨g1, g2⟩
          · rw [if_neg h4]; exact ⟨hinv, by simp⟩

/-- the data length of the layout the cursor walks is not changed by the generation loop -/
private theorem genLoop_total : ∀ (fuel : Nat) (e : Enc), EncInv e →
    total (e.genLoop fuel).1.iter = total e.iter := by
  intro fuel
  induction fuel with
  | zero => intro e _; rfl
  | succ fuel ih =>
    intro e v
    unfold Enc.genLoop
    obtain ⟨r, hr, _⟩ := current_total e.iter v.iter
    rw [hr]
    cases r with
    | none => rfl
    | some s =>
      simp only
      by_cases h0 : s.level = 0
      · rw [if_pos h0]
      · rw [if_neg h0]
        by_cases hs : (!e.sizeOk s.w s.h) = true
        · rw [if_pos hs]
        · rw [if_neg hs]
          obtain ⟨it', ha, hinv, _, _, htot⟩ := consume e v s hr
          rw [ha]
          simp only
          rw [ih _ hinv]
          exact htot

private theorem write_total (e : Enc) (v : EncInv e) (w h : Nat) (c : Bool) :
    total (e.write w h c).1.iter = total e.iter := by
  unfold Enc.write
  obtain ⟨r, hr, _⟩ := current_total e.iter v.iter
  rw [hr]
  cases r with
  | none => rfl
  | some s =>
    simp only
    by_cases h1 : (s.w, s.h) ≠ normSizeE w h
    · rw [if_pos h1]
    · rw [if_neg h1]
      by_cases h2 : c = true
      · rw [if_pos h2]
      · rw [if_neg h2]
        by_cases h3 : (!e.sizeOk s.w s.h) = true
        · rw [if_pos h3]
        · rw [if_neg h3]
          obtain ⟨it', ha, hinv, _, _, htot⟩ := consume e v s hr
          rw [ha]
          simp only
          by_cases h4 : e.toGen s > 0
          · rw [if_pos h4, genLoop_total 255 _ hinv]; exact htot
          · rw [if_neg h4]; exact htot

/-- no call changes the layout the encoder walks: its data length stays the same -/
theorem step_total (e : Enc) (v : EncInv e) (op : EncOp) :
    total (e.step op).1.iter = total e.iter := by
  cases op with
  | setGenerate b => rfl
  | finish => rfl
  | write w h => exact write_total e v w h false
  | writeCancelled w h => exact write_total e v w h true

/-- C11 invariant: after EVERY call — accepted, rejected, or failed while generating a
mipmap — the bytes written equal the layout offset of the surface reported as next, and no
call panics. -/
theorem step_inv (e : Enc) (v : EncInv e) (op : EncOp) :
    EncInv (e.step op).1 ∧ (e.step op).2 ≠ .panic := by
  cases op with
  | setGenerate b => exact ⟨⟨v.iter, v.written⟩, by simp [Enc.step]⟩
  | finish =>
    refine ⟨v, ?_⟩
    show e.finish ≠ .panic
    unfold Enc.finish
    obtain ⟨r, hr, _⟩ := current_total e.iter v.iter
    rw [hr]
    cases r <;> simp
  | write w h => exact write_inv e v w h false
  | writeCancelled w h => exact write_inv e v w h true

/-- run a whole history -/
def run (e : Enc) : List EncOp → Enc × List EncRes
  | [] => (e, [])
  | op :: rest =>
    let r := e.step op
    let (e', rs) := run r.1 rest
    (e', r.2 :: rs)

/-- The invariant holds after any sequence of calls (induction over the list; no depth bound). -/
theorem history (ops : List EncOp) : ∀ (e : Enc), EncInv e →
    EncInv (run e ops).1 ∧ ∀ r ∈ (run e ops).2, r ≠ .panic := by
  induction ops with
  | nil => intro e v; exact ⟨v, by simp [run]⟩
  | cons op rest ih =>
    intro e v
    obtain ⟨h1, h2⟩ := step_inv e v op
    obtain ⟨h3, h4⟩ := ih (e.step op).1 h1
    simp only [run]
    refine ⟨h3, ?_⟩
    intro r hr
    simp only [List.mem_cons] at hr
    cases hr with
    | inl h => rw [h]; exact h2
    | inr h => exact h4 r h

/-- ... and so does no history of calls -/
theorem run_total (ops : List EncOp) : ∀ (e : Enc), EncInv e →
    total (run e ops).1.iter = total e.iter := by
  induction ops with
  | nil => intro e _; rfl
  | cons op rest ih =>
    intro e v
    simp only [run]
    rw [ih _ (step_inv e v op).1, step_total e v op]

/-- Calls rejected for wrong size, too many surfaces, an already cancelled token, or a size
the format does not support write nothing and leave the encoder exactly as it was. -/
theorem rejections_are_noops (e : Enc) (w h : Nat) (c : Bool)
    (hr : (e.write w h c).2 = .tooManySurfaces ∨ (e.write w h c).2 = .unexpectedSurfaceSize ∨
          (e.write w h c).2 = .cancelled ∨ (e.write w h c).2 = .invalidSize)
    (v : EncInv e) : (e.write w h c).1 = e := by
  -- the generation loop can only end with ok / invalidSizeMip / panic
  have key : ∀ (fuel : Nat) (e' : Enc), (e'.genLoop fuel).2 = .ok ∨
      (e'.genLoop fuel).2 = .invalidSizeMip ∨ (e'.genLoop fuel).2 = .panic := by
    intro fuel
    induction fuel with
    | zero => intro e'; simp [Enc.genLoop]
    | succ fuel ih =>
      intro e'
      unfold Enc.genLoop
      cases hcur : e'.iter.currentP with
      | none => simp
      | some r =>
        cases r with
        | none => simp
        | some s' =>
          simp only
          by_cases h0 : s'.level = 0
          · rw [if_pos h0]; simp
          · rw [if_neg h0]
            by_cases hs : (!e'.sizeOk s'.w s'.h) = true
            · rw [if_pos hs]; simp
            · rw [if_neg hs]
              cases hadv : e'.iter.advanceP with
              | none => simp
              | some it => exact ih _
  revert hr
  unfold Enc.write
  obtain ⟨r, hc, _⟩ := current_total e.iter v.iter
  rw [hc]
  cases r with
  | none => intro _; rfl
  | some s =>
    simp only
    by_cases h1 : (s.w, s.h) ≠ normSizeE w h
    · rw [if_pos h1]; intro _; rfl
    · rw [if_neg h1]
      by_cases h2 : c = true
      · rw [if_pos h2]; intro _; rfl
      · rw [if_neg h2]
        by_cases h3 : (!e.sizeOk s.w s.h) = true
        · rw [if_pos h3]; intro _; rfl
        · rw [if_neg h3]
          obtain ⟨it', ha, hinv, _, _⟩ := consume e v s hc
          rw [ha]
          simp only
          by_cases h4 : e.toGen s > 0
          · rw [if_pos h4]
            intro hr
            exfalso
            rcases key 255 { e with iter := it', written := e.written + s.len } with k1 | k1 | k1 <;>
              rcases hr with h5 | h5 | h5 | h5 <;> rw [k1] at h5 <;> cases h5
          · rw [if_neg h4]
            intro hr
            rcases hr with h5 | h5 | h5 | h5 <;> cases h5

/-- `finish` succeeds exactly when no surface is missing. -/
theorem finish_iff_done (e : Enc) (v : EncInv e) :
    e.finish = .ok ↔ abs e.iter = count e.iter := by
  unfold Enc.finish
  obtain ⟨r, hr, hiff⟩ := current_total e.iter v.iter
  rw [hr]
  have hle : abs e.iter ≤ count e.iter := by
    cases hit : e.iter with
    | tex t =>
      have vi : t.Inv := by have := v.iter; rw [hit] at this; exact this
      exact TexIter.Inv.abs_le vi
    | vol t =>
      have vi : t.Inv := by have := v.iter; rw [hit] at this; exact this
      exact VolIter.Inv.abs_le vi
  cases r with
  | none =>
    simp only [Option.isSome_none, Bool.false_eq_true, false_iff] at hiff
    simp only [true_iff]; omega
  | some s =>
    simp only [Option.isSome_some, true_iff] at hiff
    simp only [reduceCtorEq, false_iff]; omega

/-- An accepted write consumes the current surface: the cursor moves forward by at least one
surface, and — with generation off, or for a volume — by exactly one. -/
theorem accepts_in_layout_order (e : Enc) (v : EncInv e) (w h : Nat)
    (hok : (e.write w h false).2 = .ok) :
    abs e.iter < count e.iter ∧ abs e.iter + 1 ≤ abs (e.write w h false).1.iter ∧
      ((e.generate = false ∨ e.layout.isVolume = true) →
        abs (e.write w h false).1.iter = abs e.iter + 1) := by
  revert hok
  unfold Enc.write
  obtain ⟨r, hc, hiff⟩ := current_total e.iter v.iter
  rw [hc]
  cases r with
  | none => intro h; cases h
  | some s =>
    simp only [Option.isSome_some, true_iff] at hiff
    simp only
    by_cases h1 : (s.w, s.h) ≠ normSizeE w h
    · rw [if_pos h1]; intro h; cases h
    · rw [if_neg h1]
      simp only [Bool.false_eq_true, if_false]
      by_cases h3 : (!e.sizeOk s.w s.h) = true
      · rw [if_pos h3]; intro h; cases h
      · rw [if_neg h3]
        obtain ⟨it', ha, hinv, habs, hcnt⟩ := consume e v s hc
        rw [ha]
        simp only
        have habs' : abs it' = abs e.iter + 1 := by
          rw [habs, Nat.min_def]; split <;> omega
        by_cases h4 : e.toGen s > 0
        · rw [if_pos h4]
          intro _
          obtain ⟨_, _, g3, _⟩ := genLoop_inv 255 _ hinv
          refine ⟨hiff, ?_, ?_⟩
          · have : abs it' ≤ _ := g3
            omega
          · intro hno
            exfalso
            unfold Enc.toGen at h4
            rcases hno with hg | hv
            · simp [hg] at h4
            · simp [hv] at h4
        · rw [if_neg h4]
          intro _
          exact ⟨hiff, by show abs e.iter + 1 ≤ abs it'; omega, fun _ => habs'⟩

/-- Volumes never get generated mipmaps: the number of mipmaps to generate is 0 whatever the
switch says (so by `accepts_in_layout_order` an accepted write consumes exactly one slice). -/
theorem volume_never_generates (e : Enc) (s : SurfInfo) (hv : e.layout.isVolume = true) :
    e.toGen s = 0 := by
  unfold Enc.toGen; simp [hv]

/-- The initial state of an encoder for any accepted header satisfies the invariant. -/
theorem new_inv (L : DataLayout) (mw mh : Nat) (h : IterInv (SurfIter.new L)) :
    EncInv (Enc.new L mw mh) :=
  ⟨h, by show 0 = elapsed (SurfIter.new L); rw [elapsed_new]⟩

/-- C10 corollary: when `finish` succeeds the data bytes written are exactly the layout's
data length (header + data = file length). -/
theorem finished_file_len (e : Enc) (v : EncInv e) (hf : e.finish = .ok) :
    e.written = total e.iter := by
  have hend := (finish_iff_done e v).1 hf
  rw [v.written]
  cases hit : e.iter with
  | tex t =>
    have vi : t.Inv := by have := v.iter; rw [hit] at this; exact this
    rw [hit] at hend
    have hend' : t.abs = t.N := hend
    have hnot : ¬ t.idx < t.len := by
      intro hlt
      have := (TexIter.Inv.abs_lt_iff vi).2 hlt
      omega
    exact (tex_end_is_total t vi hnot).1
  | vol t =>
    have vi : t.Inv := by have := v.iter; rw [hit] at this; exact this
    rw [hit] at hend
    have hend' : t.abs = t.N := hend
    have : t.level = t.volume.mips ∧ t.depth = 0 := by
      cases vi.cursor with
      | inl h' =>
        exfalso
        unfold VolIter.abs VolIter.N at hend'
        have h1 := depthSum_split t.volume.d (t.level + 1) 0 (t.volume.mips - (t.level + 1))
        have e' : t.level + 1 + (t.volume.mips - (t.level + 1)) = t.volume.mips := by omega
        rw [e', depthSum_succ_right] at h1
        simp only [Nat.zero_add] at h1
        omega
      | inr h' => exact h'
    show t.elapsed = _
    unfold VolIter.elapsed total
    rw [this.1, this.2]; simp

/-! ### non-vacuity / the witness of repair F13 -/

/-- NV12 4x4 with 3 mip levels and generation on: the write fails at the 1x1 level with
`InvalidSize`, 30 of 33 bytes are written, one surface is still missing and `finish` refuses. -/
example :
    let hd : LayoutHeader := { width := 4, height := 4, depth := none, mipmapCount := 3,
                               kind := HeaderKind.dx10 false ResDim.tex2D 1 }
    (match layoutOf hd (.biPlanar 1 2 2 2) with
     | some (.ok L) =>
       let r := (Enc.new L 2 2).step (.write 4 4)
       (r.2, r.1.written, r.1.finish)
     | _ => (EncRes.panic, 0, EncRes.panic)) = (EncRes.invalidSizeMip, 30, EncRes.missingSurfaces) := by
  decide

end Dds.C11
