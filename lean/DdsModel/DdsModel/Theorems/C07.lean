/-
C07 — The decoder's memory limit bounds what a file can make it allocate.

Statements about the model `Stream.lean`: `DecodeContext` as a budget that only decreases, the
allocator as a parameter that is only called with requests the budget admits, and the `alloc`
entries of every decode path (line buffer `clamp(65536 / bytes_per_line, 1, lines) * bytes_per_line`,
row buffer of a pixel rect, plane-1 buffer of bi-planar formats). For all families, sizes, rects,
limits, streams and allocator behaviours. Helper lemmas: `Proofs/Stream.lean`, `Proofs/StreamPaths.lean`.
-/
import DdsModel.Proofs.StreamPaths
import DdsModel.Theorems.C06
import DdsModel.Drv.C07
namespace Dds.C07
open Dds Dds.Stream

/-- **What reaches the allocator is within the limit**, after every prefix of every trace (any list
of operations, in particular `ops.take k` of a decode path), on every stream, also when the decode
later fails: the requests handed to the allocator add up to at most `memory_limit`. -/
theorem accounted_le_limit (e : Env) (pats : List (List Nat)) (ops : List Op) (k pos limit : Nat) :
    total (interp e pats (ops.take k) { pos := pos, budget := limit }).2.calls ≤ limit := by
  have := interp_budget e (ops.take k) pats { pos := pos, budget := limit }
  simp only [total] at this
  omega

/-- the same for a whole `decode` / `decode_rect` call -/
theorem accounted_le_limit_run (e : Env) (pats : List (List Nat)) (p : Except Res (List Op))
    (pos limit : Nat) : total (run e pats p pos limit).2.calls ≤ limit := by
  cases p with
  | error r => simp [run, total]
  | ok ops =>
    have := interp_budget e ops pats { pos := pos, budget := limit }
    simp only [total, run] at this ⊢
    omega

/-- **A request above the remaining budget is refused before the allocator is called**: the result
is `memLimit` and the state (allocator calls, budget, reader) is unchanged. -/
theorem over_budget_refused (e : Env) (pats : List (List Nat)) (n : Nat) (ops : List Op) (st : St)
    (h : st.budget < n % U64) : interp e pats (.alloc n :: ops) st = (.memLimit, st) :=
  interp_over_budget e pats n ops st h

/-- **`MemoryLimitExceeded` exactly when the limit is below the need** (allocator willing): a
surface needing more than the limit fails with the memory-limit error — before the reader is
touched (`C06.non_io_error_keeps_position`) and with at most `limit` bytes handed to the allocator
(`accounted_le_limit_run`) — and a limit that covers the need never produces that error. -/
theorem memory_limit_exceeded_iff {f : Fam} (hf : f.WF) (c : Colour) (call : Call) {ops : List Op}
    (hplan : plan f c call = .ok ops) (e : Env) (pats : List (List Nat)) (pos limit : Nat)
    (hgrant : C06.AllocatorGrants e) :
    (run e pats (plan f c call) pos limit).1 = .memLimit ↔ limit < need ops := by
  obtain ⟨fa, hb⟩ := plan_facts hf hplan
  rw [hplan]; simp only [run]
  exact interp_mem_iff e hgrant ops pats { pos := pos, budget := limit } fa.af
    (by have := fa.nd; unfold ISIZE_MAX at hb; unfold U64; omega)

/-- **Closed form of the need** of every accepted call (`needOf`, per family): line buffer;
row buffer; plane-1 buffer + line buffer. -/
theorem need_closed_form {f : Fam} (hf : f.WF) {c : Colour} {call : Call} {ops : List Op}
    (hplan : plan f c call = .ok ops) : need ops = needOf f c call :=
  plan_need hf hplan

/-- **Bound of the need**: at most `max(64 KiB, bytes of one encoded line)` for the line buffer plus
the row buffer (pixel rect) or the plane-1 buffer (bi-planar). -/
theorem need_bound {f : Fam} (hf : f.WF) {c : Colour} {call : Call} {ops : List Op}
    (hplan : plan f c call = .ok ops) :
    need ops ≤ max TARGET_BUFFER_SIZE (lineBytes f call) + rowOrPlaneBytes f call := by
  rw [plan_need hf hplan]; exact needOf_le f c call

/-- the line buffer is `clamp(65536 / bytes_per_line, 1, lines) * bytes_per_line`: at most 64 KiB
unless a single line is longer, and never more than the lines it buffers -/
theorem line_buffer_size (bpl lines : Nat) (hl : 0 < lines) :
    (lineBufLen bpl lines ≤ TARGET_BUFFER_SIZE ∨ lineBufLen bpl lines = bpl) ∧
    lineBufLen bpl lines ≤ lines * bpl :=
  ⟨lineBufLen_le_max bpl lines, lineBufLen_le_total hl⟩

/-- the decoder never asks for more memory than the encoded surface is long -/
theorem need_le_surface_bytes {f : Fam} (hf : f.WF) {c : Colour} {call : Call} {ops : List Op}
    (hplan : plan f c call = .ok ops) : need ops ≤ call.bytes f :=
  (plan_facts hf hplan).1.nd

def allColours : List Colour :=
  [(0, 0), (0, 1), (0, 2), (1, 0), (1, 1), (1, 2), (2, 0), (2, 1), (2, 2), (3, 0), (3, 1), (3, 2)]

/-- is the call accepted and its need within `limit`? -/
def covers (f : Fam) (c : Colour) (call : Call) (limit : Nat) : Bool :=
  match plan f c call with
  | .ok ops => decide (need ops ≤ limit)
  | .error _ => false

/-- **With the default limit (33 MiB) every format decodes at 4096×4096**, into every colour format:
the call is accepted and its need is within the default limit (complete evaluation of the format
table; with `C06.success_consumes_exactly` the decode then succeeds on every intact stream). -/
theorem default_covers_4k :
    ∀ p ∈ formatTable, ∀ c ∈ allColours, covers p.2 c (.full 4096 4096) DEFAULT_MEMORY_LIMIT = true := by
  decide +kernel

/-- per-row condition under which every rect of a 4096×4096 surface fits the default limit -/
def rectCond : Fam → Prop
  | .pixel bpp _ => bpp ≤ 16
  | .block bw _ bpb => divCeil 4096 bw * bpb ≤ TARGET_BUFFER_SIZE
  | .biPlanar e1 e2 sx _ => e1 ≤ 2 ∧ divCeil 4096 sx * e2 ≤ TARGET_BUFFER_SIZE

instance (f : Fam) : Decidable (rectCond f) := by
  cases f <;> unfold rectCond <;> exact inferInstance

theorem formatTable_rectCond : ∀ p ∈ formatTable, rectCond p.2 := by decide

/-- **…and so does every rect of a 4096×4096 surface**, for every format of the table, every colour,
every rect inside the surface (general argument from `need_bound`, not an enumeration of rects). -/
theorem default_covers_4k_rects : ∀ p ∈ formatTable, ∀ (c : Colour) (x y w h : Nat) (ops : List Op),
    x + w ≤ 4096 → y + h ≤ 4096 → plan p.2 c (.rect 4096 4096 x y w h) = .ok ops →
    need ops ≤ DEFAULT_MEMORY_LIMIT := by
  intro p hp c x y w h ops hx hy hplan
  have hb := need_bound (C06.formatTable_wf p hp) hplan
  have hc := formatTable_rectCond p hp
  have hw : w ≤ 4096 := by omega
  have hh : h ≤ 4096 := by omega
  generalize p.2 = f at *
  cases f with
  | pixel bpp fast =>
    simp only [lineBytes, rowOrPlaneBytes, rectCond] at hb hc
    have h1 : w * bpp ≤ 4096 * 16 := Nat.mul_le_mul hw hc
    have : max TARGET_BUFFER_SIZE 0 = TARGET_BUFFER_SIZE := Nat.max_eq_left (Nat.zero_le _)
    rw [this] at hb
    unfold TARGET_BUFFER_SIZE SrcConsts.TARGET_BUFFER_SIZE at hb
    unfold DEFAULT_MEMORY_LIMIT SrcConsts.DEFAULT_MEMORY_LIMIT; omega
  | block bw bh bpb =>
    simp only [lineBytes, rowOrPlaneBytes, rectCond] at hb hc
    rw [Nat.max_eq_left hc] at hb
    unfold TARGET_BUFFER_SIZE SrcConsts.TARGET_BUFFER_SIZE at hb
    unfold DEFAULT_MEMORY_LIMIT SrcConsts.DEFAULT_MEMORY_LIMIT; omega
  | biPlanar e1 e2 sx sy =>
    simp only [lineBytes, rowOrPlaneBytes, rectCond] at hb hc
    rw [Nat.max_eq_left hc.2] at hb
    have h1 : 4096 * e1 * h ≤ 4096 * 2 * 4096 := Nat.mul_le_mul (Nat.mul_le_mul_left _ hc.1) hh
    unfold TARGET_BUFFER_SIZE SrcConsts.TARGET_BUFFER_SIZE at hb
    unfold DEFAULT_MEMORY_LIMIT SrcConsts.DEFAULT_MEMORY_LIMIT; omega

/-- **Raising the limit never introduces the memory-limit error** (allocator willing): a call that
does not fail with `MemoryLimitExceeded` under `limit` does not fail with it under any larger limit,
on any stream and from any reader position. -/
theorem limit_monotone {f : Fam} (hf : f.WF) (c : Colour) (call : Call) {ops : List Op}
    (hplan : plan f c call = .ok ops) (e : Env) (pats pats' : List (List Nat)) (pos pos' limit limit' : Nat)
    (hgrant : C06.AllocatorGrants e) (hle : limit ≤ limit')
    (h : (run e pats (plan f c call) pos limit).1 ≠ .memLimit) :
    (run e pats' (plan f c call) pos' limit').1 ≠ .memLimit := by
  rw [Ne, memory_limit_exceeded_iff hf c call hplan e pats pos limit hgrant] at h
  rw [Ne, memory_limit_exceeded_iff hf c call hplan e pats' pos' limit' hgrant]
  omega

/-- **End to end at the default limit, full decode**: for every format of the table and every colour,
a 4096×4096 decode is accepted and its run never ends in the memory-limit error, on any stream
(`default_covers_4k` composed with `memory_limit_exceeded_iff`). -/
theorem default_4k_never_memlimit : ∀ p ∈ formatTable, ∀ c ∈ allColours,
    ∀ (e : Env) (pats : List (List Nat)) (pos : Nat), C06.AllocatorGrants e →
    (run e pats (plan p.2 c (.full 4096 4096)) pos DEFAULT_MEMORY_LIMIT).1 ≠ .memLimit := by
  intro p hp c hc e pats pos hgrant
  have hcov := default_covers_4k p hp c hc
  unfold covers at hcov
  split at hcov
  · next ops hplan =>
    rw [Ne, memory_limit_exceeded_iff (C06.formatTable_wf p hp) c _ hplan e pats pos _ hgrant]
    have := of_decide_eq_true hcov
    omega
  · exact absurd hcov (by decide)

/-- **…and every accepted rect of a 4096×4096 surface** likewise never ends in the memory-limit error. -/
theorem default_4k_rects_never_memlimit : ∀ p ∈ formatTable, ∀ (c : Colour) (x y w h : Nat) (ops : List Op),
    x + w ≤ 4096 → y + h ≤ 4096 → plan p.2 c (.rect 4096 4096 x y w h) = .ok ops →
    ∀ (e : Env) (pats : List (List Nat)) (pos : Nat), C06.AllocatorGrants e →
    (run e pats (plan p.2 c (.rect 4096 4096 x y w h)) pos DEFAULT_MEMORY_LIMIT).1 ≠ .memLimit := by
  intro p hp c x y w h ops hx hy hplan e pats pos hgrant
  rw [Ne, memory_limit_exceeded_iff (C06.formatTable_wf p hp) c _ hplan e pats pos _ hgrant]
  have := default_covers_4k_rects p hp c x y w h ops hx hy hplan
  omega

/-- the default limit is what the worst format needs at 4K plus less than 1 MiB: P010/P016 need
32 MiB + the line buffer (64 KiB at the pinned commit) -/
example : planNeed (plan (.biPlanar 2 4 2 2) (2, 1) (.full 4096 4096)) = 32 * 1024 * 1024 + TARGET_BUFFER_SIZE := by
  decide +kernel

/-- non-vacuity: NV12 6×6 needs 54 bytes; limit 53 is refused, 54 is enough -/
example : (run { len := 54 } [] (plan (.biPlanar 1 2 2 2) (2, 0) (.full 6 6)) 0 53).1 = .memLimit ∧
    (run { len := 54 } [] (plan (.biPlanar 1 2 2 2) (2, 0) (.full 6 6)) 0 54).1 = .ok := by decide
/-- non-vacuity of `over_budget_refused` -/
example : (interp { len := 0 } [] [.alloc 10, .alloc 20] { pos := 0, budget := 25 }).1 = .memLimit ∧
    (interp { len := 0 } [] [.alloc 10, .alloc 20] { pos := 0, budget := 25 }).2.calls = [10] := by decide

end Dds.C07
