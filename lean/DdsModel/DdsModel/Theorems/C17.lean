/-
C17 — Progress only moves forward to 100 % and cancellation is honoured.

Only property theorems and non-vacuity examples live here; helper lemmas are in
`Proofs/Progress.lean`.  All statements are about the model `Progress.lean`: exact rational progress
values (the `f32` rounding of the real computation is outside the model — the tie compares with a
1e-6 slack), every encoder family with ANY geometry (number of chunks / blocks / line groups, report
frequency), any number of generated mip levels, and for parallel levels ANY list of submitted
heights (= any interleaving of the fragment jobs).

Not proved here: anything about real threads.  A parallel level is linearised in submission order
(`ParallelProgress::submit` is atomic under its mutex); a job that passed its last check before the
token was cancelled may still submit afterwards in the real program — that only adds reports below
100 % and cannot make the call succeed, because the main thread's checks of the write-out loop
follow the join (`cancel_honoured` (a)).
-/
import DdsModel.Proofs.Progress
import DdsModel.Drv.C17
namespace Dds.C17
open Dds

/-- **range_algebra.**  `project` is monotone and maps `[0,1]` into the range; `sub_range` composes
projections and nests inside the outer range; the level ranges start at 0, have non-negative
length, stay inside `[0,1]`, abut (`end of level l = start of level l+1`) and are `FULL` when no
mipmaps are generated.  NOTE (model the code that exists): with generated mipmaps the last level
range does NOT end at 1 — every level range ends strictly below 1 and the gap is closed by the
final `checked_report(1.0)` of `write_surface_impl`. -/
theorem range_algebra :
    (∀ (r : ProgressRange) (p q : Rat), 0 ≤ r.length → p ≤ q → r.project p ≤ r.project q) ∧
    (∀ (r : ProgressRange) (p : Rat), 0 ≤ r.length → 0 ≤ p → p ≤ 1 →
      r.start ≤ r.project p ∧ r.project p ≤ r.stop) ∧
    (∀ (s o : ProgressRange) (p : Rat), (s.subRange o).project p = s.project (o.project p)) ∧
    (∀ (s o : ProgressRange), 0 ≤ s.length → 0 ≤ o.start → 0 ≤ o.length → o.stop ≤ 1 →
      s.start ≤ (s.subRange o).start ∧ (s.subRange o).stop ≤ s.stop ∧
      0 ≤ (s.subRange o).length) ∧
    (∀ m l, 0 < m → (levelRange m l).stop = (levelRange m (l + 1)).start) ∧
    (∀ m, (levelRange m 0).start = 0) ∧
    (∀ m l, 0 ≤ (levelRange m l).length ∧ 0 ≤ (levelRange m l).start ∧
      (levelRange m l).stop ≤ 1) ∧
    (∀ m l, 0 < m → (levelRange m l).stop < 1) ∧
    (∀ l, (levelRange 0 l).start = 0 ∧ (levelRange 0 l).stop = 1) := by
  refine ⟨fun r p q hl h => ProgressRange.project_mono hl h,
    fun r p hl h0 h1 => ProgressRange.project_mem hl h0 h1,
    ProgressRange.subRange_project, ?_, fun m l hm => levelRange_abut hm l, ?_,
    fun m l => ⟨levelRange_length_nonneg m l, levelRange_start_nonneg m l,
      levelRange_stop_le_one m l⟩, ?_, ?_⟩
  · intro s o hs ho hol host
    unfold ProgressRange.stop at host
    unfold ProgressRange.subRange ProgressRange.stop
    simp only
    have h1 := Rat.mul_nonneg ho hs
    have h2 := Rat.mul_nonneg hol hs
    have h3 := Rat.mul_le_mul_of_nonneg_right host hs
    refine ⟨by grind, by grind, h2⟩
  · intro m
    by_cases hm : m = 0
    · subst hm; rw [levelRange_zero]; rfl
    · rw [(levelRange_pos (by omega) 0).1]; simp only [Rat.pow_zero]; grind
  · intro m l hm
    rw [(levelRange_pos hm l).2]
    have := pow25_pos (l + 1)
    grind
  · intro l
    rw [levelRange_zero]
    unfold ProgressRange.full ProgressRange.stop
    constructor
    · rfl
    · simp only; grind

/-- a level that runs sequentially (`parallel = false`, or a single fragment) -/
def Sequential : LevelRun → Prop
  | .seq _ => True
  | .parSingle _ => True
  | .par _ _ _ => False

/-- **sequential_monotone.**  One `write_surface_with_progress` call whose levels all run
sequentially — every encoder family, any geometry, any number of generated mip levels: the reported
values never decrease, lie in `[0,1]`, the last one is 1, and the uncancelled call returns `Ok`
having made exactly these reports. -/
theorem sequential_monotone (lv0 : LevelRun) (mips : List LevelRun)
    (hs : ∀ x, x ∈ lv0 :: mips → Sequential x) :
    let tr := surfaceTrace lv0 mips
    (reports tr).Pairwise (· ≤ ·) ∧
    (∀ x, x ∈ reports tr → 0 ≤ x ∧ x ≤ 1) ∧
    (reports tr).getLast? = some 1 ∧
    exec none tr false 0 = ⟨true, reports tr, writes tr⟩ := by
  intro tr
  have hv : ∀ x, x ∈ lv0 :: mips → x.Valid := by
    intro x hx
    have := hs x hx
    cases x with
    | seq f => trivial
    | parSingle f => trivial
    | par a b c => exact absurd this (by simp [Sequential])
  obtain ⟨pre, hpre, hw⟩ := surface_reports lv0 mips hv
  have hall : Within 0 1 (reports tr) := by
    show Within 0 1 (reports (surfaceTrace lv0 mips))
    rw [hpre]
    exact Within.append hw (Within.single Rat.le_refl Rat.le_refl) (by grind) Rat.le_refl
  refine ⟨hall.mono, hall.bounds, ?_, exec_none tr 0⟩
  show (reports (surfaceTrace lv0 mips)).getLast? = some 1
  rw [hpre]; simp

/-- the free function `dds::encode` on its sequential / single-fragment path: non-decreasing,
within `[0,1]` — and every report is strictly below 1: this path never reports 100 %
(known finding F8; the model states what the code does). -/
theorem free_sequential_reports (lv : LevelRun) (hs : Sequential lv) :
    (reports lv.trace).Pairwise (· ≤ ·) ∧
    (∀ x, x ∈ reports lv.trace → 0 ≤ x ∧ x < 1) ∧
    exec none lv.trace false 0 = ⟨true, reports lv.trace, writes lv.trace⟩ := by
  have key : ∀ fam : Family, reports lv.trace = reports fam.trace →
      (reports lv.trace).Pairwise (· ≤ ·) ∧ (∀ x, x ∈ reports lv.trace → 0 ≤ x ∧ x < 1) := by
    intro fam h
    rw [h]
    have := family_reports fam
    exact ⟨this.1.mono, fun x hx => ⟨(this.1.bounds x hx).1, this.2 x hx⟩⟩
  cases lv with
  | seq fam =>
    have := key fam (by simp [LevelRun.trace, reports_append, reports])
    exact ⟨this.1, this.2, exec_none _ 0⟩
  | parSingle fam =>
    have := key fam (by simp [LevelRun.trace, reports_append, reports])
    exact ⟨this.1, this.2, exec_none _ 0⟩
  | par a b c => exact absurd hs (by simp [Sequential])

/-- **parallel_monotone.**  `encode_parallel` with a thread-safe reporter, for EVERY interleaving of
the fragment submissions — any list `incs` of positive heights summing to the image height, with
`total = height + 1`: the reports are the cumulative sums over `total` followed by the final 1,
strictly increasing, all but the final one strictly below 1 (100 % is reported only after the
write-out), one report per fragment plus one. -/
theorem parallel_monotone (incs : List Nat) (height : Nat)
    (hpos : ∀ k, k ∈ incs → 0 < k) (hsum : incs.sum = height) :
    let r := reports (LevelRun.par true incs (height + 1)).trace
    r = (cumul incs 0).map (fun (s : Nat) => (s : Rat) / ((height + 1 : Nat) : Rat)) ++ [1] ∧
    r.Pairwise (· < ·) ∧
    (∀ x, x ∈ r.dropLast → 0 ≤ x ∧ x < 1) ∧
    r.getLast? = some 1 ∧
    r.length = incs.length + 1 := by
  intro r
  have hr : r = (cumul incs 0).map (fun (s : Nat) => (s : Rat) / ((height + 1 : Nat) : Rat)) ++ [1] := by
    show reports (LevelRun.par true incs (height + 1)).trace = _
    rw [reports_par, reports_parJobs_true]
  have hmem : ∀ x, x ∈ (cumul incs 0).map (fun (s : Nat) => (s : Rat) / ((height + 1 : Nat) : Rat)) →
      0 ≤ x ∧ x < 1 := by
    intro x hx
    rw [List.mem_map] at hx
    obtain ⟨s, hs, rfl⟩ := hx
    have := cumul_bounds incs 0 s hs
    have hlt : s < height + 1 := by omega
    exact ⟨natDiv_nonneg hlt, natDiv_lt_one hlt⟩
  have hlen : ∀ (l : List Nat) (d : Nat), (cumul l d).length = l.length := by
    intro l
    induction l with
    | nil => intro d; rfl
    | cons a t ih => intro d; simp [cumul, ih]
  refine ⟨hr, ?_, ?_, ?_, ?_⟩
  · rw [hr, List.pairwise_append]
    refine ⟨?_, List.pairwise_singleton _ _, ?_⟩
    · rw [List.pairwise_map]
      exact (cumul_pairwise_lt incs 0 hpos).1.imp (fun hab =>
        rat_div_lt_div_right (Rat.natCast_lt_natCast.mpr hab) (Rat.natCast_pos.mpr (by omega)))
    · intro x hx y hy
      simp at hy; subst hy
      exact (hmem x hx).2
  · rw [hr, List.dropLast_concat]
    exact hmem
  · rw [hr]; simp
  · rw [hr]; simp [hlen]

/-- **any schedule, whole call.**  One `write_surface_with_progress` call whose levels run in any
mix of sequential and parallel mode, the parallel ones with ANY submission order / heights (sum of
the submitted heights below `total = height + 1`): never decreasing, within `[0,1]`, ends with 1. -/
theorem surface_monotone_any_schedule (lv0 : LevelRun) (mips : List LevelRun)
    (hv : ∀ x, x ∈ lv0 :: mips → x.Valid) :
    let tr := surfaceTrace lv0 mips
    (reports tr).Pairwise (· ≤ ·) ∧
    (∀ x, x ∈ reports tr → 0 ≤ x ∧ x ≤ 1) ∧
    (reports tr).getLast? = some 1 ∧
    exec none tr false 0 = ⟨true, reports tr, writes tr⟩ := by
  intro tr
  obtain ⟨pre, hpre, hw⟩ := surface_reports lv0 mips hv
  have hall : Within 0 1 (reports tr) := by
    show Within 0 1 (reports (surfaceTrace lv0 mips))
    rw [hpre]
    exact Within.append hw (Within.single Rat.le_refl Rat.le_refl) (by grind) Rat.le_refl
  refine ⟨hall.mono, hall.bounds, ?_, exec_none tr 0⟩
  show (reports (surfaceTrace lv0 mips)).getLast? = some 1
  rw [hpre]; simp

private theorem levelRun_head (lv : LevelRun) : ∃ t, lv.trace = Ev.check :: t := by
  cases lv <;> exact ⟨_, rfl⟩

private theorem levelRun_honours (lv : LevelRun) : Honours lv.trace := by
  cases lv with
  | seq fam =>
    exact honours_append_of_check _ [Ev.check] trivial (by simp)
  | parSingle fam =>
    exact honours_append_of_check _ [Ev.check] trivial (by simp)
  | par mt incs total =>
    refine honours_append_of_check _ [Ev.check, Ev.report 1] ⟨?_, trivial⟩ (by simp)
    intro h; exact absurd h (by grind)

/-- **cancel_honoured** (`Encoder::write_surface_with_progress`, every family / geometry / mip
count / schedule).
(a) in the trace every `report p` with `p < 1` is followed by a `check` before the call returns;
(b) hence: if the token is cancelled when report number `k` arrives and that report is below
    100 %, the call returns `Cancelled`;
(c) a call whose token is cancelled before it starts returns `Cancelled` with no report and no
    write;
(d) after `reset` the same call is accepted: it runs to completion and returns `Ok`. -/
theorem cancel_honoured (lv0 : LevelRun) (mips : List LevelRun) :
    let tr := surfaceTrace lv0 mips
    (∀ pre p post, tr = pre ++ Ev.report p :: post → p < 1 → Ev.check ∈ post) ∧
    (∀ k p, (reports tr)[k]? = some p → p < 1 → (exec (some k) tr false 0).ok = false) ∧
    (∀ ca, exec ca tr true 0 = ⟨false, [], 0⟩) ∧
    exec none tr false 0 = ⟨true, reports tr, writes tr⟩ := by
  intro tr
  have hh : Honours tr := by
    show Honours (surfaceTrace lv0 mips)
    unfold surfaceTrace
    refine honours_append_of_check _ [Ev.check, Ev.report 1] ⟨?_, trivial⟩ (by simp)
    intro h; exact absurd h (by grind)
  refine ⟨fun pre p post e hp => honours_split hh e hp, ?_, ?_, exec_none tr 0⟩
  · intro k p hk hp
    have := exec_cancel_at tr hh 0 k p hk hp
    simpa using this
  · intro ca
    obtain ⟨t, ht⟩ := levelRun_head lv0
    have : ∃ t', tr = Ev.check :: t' := by
      show ∃ t', surfaceTrace lv0 mips = Ev.check :: t'
      unfold surfaceTrace
      rw [ht]
      exact ⟨_, rfl⟩
    obtain ⟨t', ht'⟩ := this
    rw [ht']
    exact exec_precancelled ca t' 0

/-- the same four clauses for the free function `dds::encode` -/
theorem cancel_honoured_free (lv : LevelRun) :
    (∀ pre p post, lv.trace = pre ++ Ev.report p :: post → p < 1 → Ev.check ∈ post) ∧
    (∀ k p, (reports lv.trace)[k]? = some p → p < 1 →
      (exec (some k) lv.trace false 0).ok = false) ∧
    (∀ ca, exec ca lv.trace true 0 = ⟨false, [], 0⟩) ∧
    exec none lv.trace false 0 = ⟨true, reports lv.trace, writes lv.trace⟩ := by
  have hh := levelRun_honours lv
  refine ⟨fun pre p post e hp => honours_split hh e hp, ?_, ?_, exec_none _ 0⟩
  · intro k p hk hp
    have := exec_cancel_at lv.trace hh 0 k p hk hp
    simpa using this
  · intro ca
    obtain ⟨t, ht⟩ := levelRun_head lv
    rw [ht]
    exact exec_precancelled ca t 0

/-- **ends with 1 exactly on success** (completes `sequential_monotone` / `cancel_honoured`): a call
whose token is cancelled when report number `k` (value `p < 1`) arrives returns `Cancelled`, has made
exactly the reports `0..k` — every report is a `checked_report`, so nothing is reported after the
request — and all of them are below 1; whereas the uncancelled call returns `Ok` and its last report
is 1.  (Sequential semantics; in a real parallel level jobs that had passed their last check may
still submit, adding reports below 1 only — see `parallel_monotone`.) -/
theorem ends_with_one_iff_success (lv0 : LevelRun) (mips : List LevelRun)
    (hv : ∀ x, x ∈ lv0 :: mips → x.Valid) (k : Nat) (p : Rat)
    (hk : (reports (surfaceTrace lv0 mips))[k]? = some p) (hp : p < 1) :
    let tr := surfaceTrace lv0 mips
    let o := exec (some k) tr false 0
    o.ok = false ∧ o.reports = (reports tr).take (k + 1) ∧ (∀ x, x ∈ o.reports → x < 1) ∧
    (exec none tr false 0).ok = true ∧ (exec none tr false 0).reports.getLast? = some 1 := by
  intro tr o
  have hc := (cancel_honoured lv0 mips).2.1 k p hk hp
  have hr : o.reports = (reports tr).take (k + 1) := by
    have := exec_cancel_reports tr false (guarded_surface lv0 mips false) 0 k p hk
    simpa using this
  have hm := (surface_monotone_any_schedule lv0 mips hv)
  refine ⟨hc, hr, ?_, ?_, ?_⟩
  · intro x hx
    rw [hr] at hx
    -- x is one of the first k+1 reports, hence ≤ p
    obtain ⟨i, hi, hxi⟩ := List.getElem_of_mem hx
    rw [List.length_take] at hi
    have hik : i ≤ k := by omega
    have hlen : i < (reports tr).length := by omega
    have hklen : k < (reports tr).length := by
      have := (List.getElem?_eq_some_iff.mp hk).1
      exact this
    have hxi' : x = (reports tr)[i] := by
      rw [← hxi, List.getElem_take]
    have hpk : p = (reports tr)[k] := by
      have := (List.getElem?_eq_some_iff.mp hk).2
      exact this.symm
    by_cases hik' : i = k
    · subst hik'; rw [hxi', ← hpk]; exact hp
    · have hlt : i < k := by omega
      have := (List.pairwise_iff_getElem.mp hm.1) i k hlen hklen hlt
      rw [hxi']
      rw [hpk] at hp
      grind
  · rw [hm.2.2.2]
  · rw [hm.2.2.2]; exact hm.2.2.1

/-! ### non-vacuity -/

/-- a BC1 level of 3 x 2 blocks reporting every 2nd block: reports 0, 2/6, 4/6 -/
example : reports (Family.block 3 2 2).trace = [0, 2 / 6, 4 / 6] := by decide +kernel

/-- a surface with two generated mip levels, all sequential -/
example : reports (surfaceTrace (.seq (.copy 1)) [.seq (.chunked 1 2048), .parSingle (.copy 1)]) =
    [0, 3 / 5, 21 / 25, 1] := by decide +kernel

/-- two interleavings of the same three fragments (heights 4,4,2; total 11) -/
example : reports (LevelRun.par true [4, 4, 2] 11).trace = [4 / 11, 8 / 11, 10 / 11, 1] := by
  decide +kernel
example : reports (LevelRun.par true [2, 4, 4] 11).trace = [2 / 11, 6 / 11, 10 / 11, 1] := by
  decide +kernel

/-- a report below 1 exists (hypothesis of `cancel_honoured` (b)) and cancelling there fails the call -/
example : (exec (some 1) (surfaceTrace (.par true [4, 4, 2] 11) []) false 0).ok = false := by
  decide +kernel

end Dds.C17
