import DdsModel.Progress
namespace Dds.C17
theorem placeholder : True := trivial
end Dds.C17
