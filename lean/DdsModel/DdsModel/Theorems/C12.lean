/-
Property C12 — uncompressed encoding is exact where the format can hold the input, else nearest.
Only the property theorems and non-vacuity examples; helpers are in Proofs/Quant.lean.
Unbounded unless the name says otherwise; finite statements are settled over their WHOLE domain.
-/
import DdsModel.Proofs.Quant
import DdsModel.Proofs.QuantFinA
import DdsModel.Proofs.QuantFinB
import DdsModel.Proofs.QuantFinC
import DdsModel.Proofs.QuantFinD
import DdsModel.Proofs.QuantF32Thr
import DdsModel.Proofs.EncCarrier
namespace Dds.C12
open Dds.Quant
set_option maxRecDepth 100000

/-! ## exactness: an n-bit value stored in a wider field comes back -/

/-- (must, unbounded in n, m) `q_n (deq_m (q_m (deq_n v))) = v` for `1 ≤ n ≤ m`, `v ≤ 2^n − 1`. -/
theorem widen_roundtrip (n m v : Nat) (hn : 1 ≤ n) (hnm : n ≤ m) (hv : v ≤ 2 ^ n - 1) :
    q n (deq m (q m (deq n v))) = v := by
  unfold q deq maxCode
  have h1 : 2 ^ 1 ≤ 2 ^ n := Nat.pow_le_pow_right (by omega) hn
  have h2 : 2 ^ n ≤ 2 ^ m := Nat.pow_le_pow_right (by omega) hnm
  exact qL_roundtrip _ _ v (by omega) (by omega) hv
example : q 8 (deq 10 (q 10 (deq 8 200))) = 200 := widen_roundtrip 8 10 200 (by omega) (by omega) (by omega)

/-- the same for any numbers of levels `N ≤ L` (covers SNORM's `2^m − 2` and the shared exponent's `2^k`) -/
theorem levels_roundtrip (N L v : Nat) (hN : 0 < N) (hNL : N ≤ L) (hv : v ≤ N) :
    qL N (deqL L (qL L (deqL N v))) = v := qL_roundtrip N L v hN hNL hv
example : qL 255 (deqL 256 (qL 256 (deqL 255 77))) = 77 := levels_roundtrip 255 256 77 (by omega) (by omega) (by omega)

/-- SNORM analogue: an n-bit UNORM value survives an m-bit SNORM field for `n < m`
(bit pattern through `from_norm` / `norm`, i.e. including the bias and the doubled minimum). -/
theorem snorm_widen_roundtrip (n m v : Nat) (hn : 1 ≤ n) (hnm : n < m) (hv : v ≤ 2 ^ n - 1) :
    q n (sdeq m (sencode m (deq n v))) = v := by
  unfold sdeq sencode sq
  rw [snormNorm_ofNorm m _ (by omega) (qL_le _ _)]
  unfold q deq maxCode snormLevels
  have h1 : 2 ^ 1 ≤ 2 ^ n := Nat.pow_le_pow_right (by omega) hn
  have h2 : 2 ^ (n + 1) ≤ 2 ^ m := Nat.pow_le_pow_right (by omega) hnm
  rw [Nat.pow_succ] at h2
  exact qL_roundtrip _ _ v (by omega) (by omega) hv
example : q 8 (sdeq 16 (sencode 16 (deq 8 255))) = 255 :=
  snorm_widen_roundtrip 8 16 255 (by omega) (by omega) (by omega)

/-- both minimum codes (−2^(m−1) and −2^(m−1)+1) decode to −1.0 (norm 0), and the encoder never emits
the first one -/
theorem snorm_min_codes (m : Nat) (hm : 2 ≤ m) :
    snormNorm m (2 ^ (m - 1)) = 0 ∧ snormNorm m (2 ^ (m - 1) + 1) = 0 ∧ ∀ x : Rat, sencode m x ≠ 2 ^ (m - 1) :=
  ⟨(snormNorm_min m hm).1, (snormNorm_min m hm).2, fun x => snormOfNorm_ne_min m _ hm (qL_le _ x)⟩
example : sencode 8 0 = 0x81 ∧ sencode 8 1 = 0x7F ∧ sencode 8 (1/2) = 0 := by decide +kernel

/-- SNORM of the same width is NOT exact (255 levels for 256 values): the property puts it under "nearest" -/
theorem snorm8_not_injective : sencode 8 (deq 8 127) = sencode 8 (deq 8 128) := by decide +kernel

/-! ## nearest: half a quantisation step -/

/-- (must) for every real `x`: `|deq_m (q_m x) − clamp x| ≤ 1/(2(2^m−1))`, stated as two inequalities -/
theorem half_step (m : Nat) (hm : 1 ≤ m) (x : Rat) :
    deq m (q m x) - clamp01 x ≤ 1 / (2 * ((2 ^ m - 1 : Nat) : Rat)) ∧
    -(1 / (2 * ((2 ^ m - 1 : Nat) : Rat))) ≤ deq m (q m x) - clamp01 x := by
  have h1 : 2 ^ 1 ≤ 2 ^ m := Nat.pow_le_pow_right (by omega) hm
  exact qL_half_step (2 ^ m - 1) (by omega) x
example : deq 5 (q 5 (1/3)) - clamp01 (1/3) ≤ 1 / (2 * ((2 ^ 5 - 1 : Nat) : Rat)) := (half_step 5 (by omega) _).1

/-- the same for SNORM (`2^m − 2` steps) -/
theorem snorm_half_step (m : Nat) (hm : 2 ≤ m) (x : Rat) :
    sdeq m (sencode m x) - clamp01 x ≤ 1 / (2 * ((2 ^ m - 2 : Nat) : Rat)) ∧
    -(1 / (2 * ((2 ^ m - 2 : Nat) : Rat))) ≤ sdeq m (sencode m x) - clamp01 x := by
  unfold sdeq sencode sq
  rw [snormNorm_ofNorm m _ (by omega) (qL_le _ _)]
  have h1 : 2 ^ 2 ≤ 2 ^ m := Nat.pow_le_pow_right (by omega) hm
  exact qL_half_step (2 ^ m - 2) (by omega) x

/-- the code never exceeds the field -/
theorem code_in_field (m : Nat) (x : Rat) : q m x ≤ 2 ^ m - 1 := qL_le _ x

/-! ## float targets (finite, whole domain) -/

/-- (must) every 8-bit value survives nearest-half and nearest-binary32, decoded back at 8 bits -/
theorem float_targets_hold_u8 (v : Nat) (hv : v < 256) :
    q 8 (halfVal (half ((v : Rat) / 255))) = v ∧ q 8 (f32Val (f32Bits ((v : Rat) / 255))) = v := by
  have := allRange_sound _ 3 0 256 holds_u8_all v (by omega) (by omega)
  simpa using this

/-- (must) shared exponent: for every exponent the encoder can choose for input ≤ 1 (`e ≤ 16`),
every 8-bit channel value survives — a direct instance of `levels_roundtrip` with `2^(24−e) ≥ 256`. -/
theorem float_targets_hold_u8_sharedexp (e v : Nat) (he : e ≤ 16) (hv : v ≤ 255) :
    qL 255 (deqL (2 ^ (24 - e)) (qL (2 ^ (24 - e)) (deqL 255 v))) = v := by
  have : 2 ^ 8 ≤ 2 ^ (24 - e) := Nat.pow_le_pow_right (by omega) (by omega)
  exact qL_roundtrip 255 _ v (by omega) (by omega) hv

/-- the shared exponent chosen for a maximum channel `mx/255` is at most 16, and then every channel
`v ≤ mx` gets a mantissa that fits 9 bits (finite: all 32 896 pairs) -/
theorem sharedexp_exponent_and_mantissa (mx v : Nat) (hmx : 1 ≤ mx) (hmx' : mx ≤ 255) (hv : v ≤ mx) :
    e9Exp ((mx : Rat) / 255) ≤ 16 ∧ qRatio (2 ^ (24 - e9Exp ((mx : Rat) / 255))) v 255 ≤ 511 := by
  have h1 := allRange_sound _ 2 1 255 e9Ok_all mx (by omega) (by omega)
  unfold e9Ok at h1
  have h1a := (Bool.and_eq_true _ _).mp h1
  refine ⟨of_decide_eq_true h1a.1, ?_⟩
  exact of_decide_eq_true (allRange_sound _ 2 0 (mx + 1) h1a.2 v (by omega) (by omega))

/-- (must) every 16-bit value survives nearest-binary32 (65 536 points, integer evaluation through
`qL_ratio`) -/
theorem float_targets_hold_u16 (v : Nat) (hv : v < 65536) :
    q 16 (f32Val (f32Bits ((v : Rat) / 65535))) = v := by
  have h := holdsF32U16_all v hv
  unfold holdsF32U16 at h
  have h1 := (Bool.and_eq_true _ _).mp h
  have h2 := (Bool.and_eq_true _ _).mp h1.2
  have a := of_decide_eq_true h1.1
  have b := of_decide_eq_true h2.1
  have c := beq_iff_eq.mp h2.2
  unfold q f32Val maxCode
  rw [qL_ratio _ _ _ b a]
  exact c

/-! ## integer paths: implementation = specification over the whole domain -/

/-- `n8::n16` (×257) is the 16-bit quantiser of the 8-bit value -/
theorem n8_n16_spec (v : Nat) (hv : v < 256) : n8_n16 v = q 16 (deq 8 v) := by
  unfold q deq deqL maxCode; rw [qL_ratio _ _ _ (by omega) (by omega)]
  have h : allRange (fun v => n8_n16 v == qRatio (2 ^ 16 - 1) v (2 ^ 8 - 1)) 3 0 256 = true := by decide +kernel
  simpa using allRange_sound _ 3 0 256 h v (by omega) (by omega)

/-- `n16::n8` is the 8-bit quantiser of the 16-bit value (all 65 536) -/
theorem n16_n8_spec (x : Nat) (hx : x < 65536) : n16_n8 x = q 8 (deq 16 x) := by
  unfold q deq deqL maxCode; rw [qL_ratio _ _ _ (by omega) (by omega)]
  simpa using allRange_sound _ 10 0 65536 n16_n8_all x (by omega) (by omega)

/-- `s8::from_n8` = nearest SNORM8 of the 8-bit value -/
theorem s8_from_n8_spec (v : Nat) (hv : v < 256) : s8_from_n8 v = sencode 8 (deq 8 v) := by
  unfold sencode sq s8_from_n8 deq deqL maxCode snormLevels; rw [qL_ratio _ _ _ (by omega) (by omega)]
  have h : allRange (fun v => s8_norm_from_n8 v == qRatio (2 ^ 8 - 2) v (2 ^ 8 - 1)) 3 0 256 = true := by decide +kernel
  have := allRange_sound _ 3 0 256 h v (by omega) (by omega)
  simp only [beq_iff_eq] at this; rw [this]

/-- `s16::from_n16` = nearest SNORM16 of the 16-bit value (all 65 536) -/
theorem s16_from_n16_spec (x : Nat) (hx : x < 65536) : s16_from_n16 x = sencode 16 (deq 16 x) := by
  unfold sencode sq s16_from_n16 deq deqL maxCode snormLevels; rw [qL_ratio _ _ _ (by omega) (by omega)]
  have := allRange_sound _ 10 0 65536 s16_norm_from_n16_all x (by omega) (by omega)
  simp only [beq_iff_eq] at this; rw [this]

/-- decoders on the round-trip path: `s16::n8`, `s16::n16`, `s8::n8`, `s8::n16`, `n10::n8`, `n10::n16`
are the quantisers of the stored value (whole code domains) -/
theorem snorm16_decoders_spec (c : Nat) (hc : c < 65536) :
    s16_n8 c = q 8 (sdeq 16 c) ∧ s16_n16 c = q 16 (sdeq 16 c) := by
  have hb : snormNorm 16 c ≤ 2 ^ 16 - 2 := by
    simpa using allRange_sound _ 10 0 65536 snormNorm16_le_all c (by omega) (by omega)
  unfold q sdeq deqL maxCode snormLevels
  rw [qL_ratio _ _ _ (by omega) hb, qL_ratio _ _ _ (by omega) hb]
  simpa using allRange_sound _ 10 0 65536 s16_decoders_all c (by omega) (by omega)

theorem snorm8_decoders_spec (c : Nat) (hc : c < 256) :
    s8_n8 c = q 8 (sdeq 8 c) ∧ s8_n16 c = q 16 (sdeq 8 c) := by
  have hb : snormNorm 8 c ≤ 2 ^ 8 - 2 := by
    have h : allRange (fun c => decide (snormNorm 8 c ≤ 2 ^ 8 - 2)) 3 0 256 = true := by decide +kernel
    simpa using allRange_sound _ 3 0 256 h c (by omega) (by omega)
  unfold q sdeq deqL maxCode snormLevels
  rw [qL_ratio _ _ _ (by omega) hb, qL_ratio _ _ _ (by omega) hb]
  have h : allRange (fun c => s8_n8 c == qRatio (2 ^ 8 - 1) (snormNorm 8 c) (2 ^ 8 - 2)
      && s8_n16 c == qRatio (2 ^ 16 - 1) (snormNorm 8 c) (2 ^ 8 - 2)) 3 0 256 = true := by decide +kernel
  simpa using allRange_sound _ 3 0 256 h c (by omega) (by omega)

theorem n10_decoders_spec (c : Nat) (hc : c < 1024) :
    n10_n8 c = q 8 (deq 10 c) ∧ n10_n16 c = q 16 (deq 10 c) := by
  unfold q deq deqL maxCode
  rw [qL_ratio _ _ _ (by omega) (by omega), qL_ratio _ _ _ (by omega) (by omega)]
  have h : allRange (fun c => n10_n8 c == qRatio (2 ^ 8 - 1) c (2 ^ 10 - 1)
      && n10_n16 c == qRatio (2 ^ 16 - 1) c (2 ^ 10 - 1)) 5 0 1024 = true := by decide +kernel
  simpa using allRange_sound _ 5 0 1024 h c (by omega) (by omega)

/-- consequence: the integer pipeline U8 → 16-bit UNORM field → U8 is the identity -/
theorem int_roundtrip_u8_via_16 (v : Nat) (hv : v < 256) : n16_n8 (n8_n16 v) = v := by
  have h : allRange (fun v => n16_n8 (n8_n16 v) == v) 3 0 256 = true := by decide +kernel
  simpa using allRange_sound _ 3 0 256 h v (by omega) (by omega)

/-! ## the binary32 evaluation of the quantisers: ALL 2^32 input bit patterns

`nK::from_f32` and `s8::from_uf32` of formats.rs, operator by operator on the software binary32 (`QuantBits.*` of
`EncTotal.lean`, `QuantF32.n8/n16`), against the exact quantiser `q m x = ⌊clamp(x)·(2^m−1) + ½⌋` of this file's
other theorems, for EVERY binary32 bit pattern `b` (`toRat b` = its value).  Proof: the software float is monotone
(`Proofs/F32Mono.lean`), so two kernel-checked points per output code (`Proofs/F32Thr*.lean`, generated tables,
every entry validated by `decide +kernel`) settle all patterns in between; NaN, negative values, zeros and
infinities are symbolic cases.

RESULT.  The quantisers equal `q m` EXCEPT on a finite, exactly known set of patterns (`nKDev`: 2, 8, 16, 32, 128,
512, 32 768 patterns for m = 2, 4, 5, 6, 8, 10, 16; 128 for the SNORM8 norm): each exception is the largest float
below a tie `(2k−1)/(2(2^m−1))`; the binary32 product/sum rounds onto the tie, the stored code is `k` instead of
`k−1`, and it decodes to MORE than half a step above the input — by less than the tie tolerance `2^-12/255` of the
property reading (`…_known_deviation`).  `…_half_step` is the property's clause as it holds for every finite input.
NaN gives the MAX code in the `x.min(1.0)` quantisers and 0 in `n8`, `n16` (observation O1; the property demands
nothing for NaN). -/

open Dds.CF32 Dds.EncTotal Dds.QuantF32 Dds.F32Thr in
/-- `n8::from_f32` (`(x * 255.0 + 0.5) as u8`): every pattern outside `n8Dev` -/
theorem n8_from_f32_spec_partial : ∀ b, b < 2 ^ 32 → b ∉ n8Dev →
    QuantF32.n8 b = if isNaN b then 0 else if isInf b then (if isNeg b then 0 else 255) else q 8 (toRat b) := by
  intro b hb hne
  have := sat_all satQ_n8 b hb
  rw [if_neg (show ¬ b ∈ devOf _ from hne), Nat.add_zero] at this
  exact this

open Dds.CF32 Dds.EncTotal Dds.QuantF32 Dds.F32Thr in
theorem n8_from_f32_known_deviation : ∀ b, b ∈ n8Dev →
    0 < b ∧ b < 0x7F800000 ∧ QuantF32.n8 b = q 8 (toRat b) + 1 ∧
    1 / (2 * 255) < deq 8 (QuantF32.n8 b) - clamp01 (toRat b) ∧
    deq 8 (QuantF32.n8 b) - clamp01 (toRat b) ≤ 1 / (2 * 255) + 1 / (4096 * 255) :=
  fun b hm => dev_sat satQ_n8 (by decide) b hm

open Dds.CF32 Dds.EncTotal Dds.QuantF32 Dds.F32Thr in
theorem n8_from_f32_half_step : ∀ b, b < 2 ^ 32 → isNaN b = false → isInf b = false →
    -(1 / (2 * 255)) ≤ deq 8 (QuantF32.n8 b) - clamp01 (toRat b) ∧
    deq 8 (QuantF32.n8 b) - clamp01 (toRat b) ≤ 1 / (2 * 255) + (if b ∈ n8Dev then 1 / (4096 * 255) else 0) :=
  fun b hb hn hi => half_step_sat satQ_n8 (by decide) b hb hn hi

open Dds.CF32 Dds.EncTotal Dds.QuantF32 Dds.F32Thr in
/-- `n16::from_f32` (`(x * 65535.0 + 0.5) as u16`): every pattern outside `n16Dev` (32 768 patterns) -/
theorem n16_from_f32_spec_partial : ∀ b, b < 2 ^ 32 → b ∉ n16Dev →
    QuantF32.n16 b = if isNaN b then 0 else if isInf b then (if isNeg b then 0 else 65535) else q 16 (toRat b) := by
  intro b hb hne
  have := sat_all satQ_n16 b hb
  rw [if_neg (show ¬ b ∈ devOf _ from hne), Nat.add_zero] at this
  exact this

open Dds.CF32 Dds.EncTotal Dds.QuantF32 Dds.F32Thr in
theorem n16_from_f32_known_deviation : ∀ b, b ∈ n16Dev →
    0 < b ∧ b < 0x7F800000 ∧ QuantF32.n16 b = q 16 (toRat b) + 1 ∧
    1 / (2 * 65535) < deq 16 (QuantF32.n16 b) - clamp01 (toRat b) ∧
    deq 16 (QuantF32.n16 b) - clamp01 (toRat b) ≤ 1 / (2 * 65535) + 1 / (4096 * 255) :=
  fun b hm => dev_sat satQ_n16 (by decide) b hm

open Dds.CF32 Dds.EncTotal Dds.QuantF32 Dds.F32Thr in
theorem n16_from_f32_half_step : ∀ b, b < 2 ^ 32 → isNaN b = false → isInf b = false →
    -(1 / (2 * 65535)) ≤ deq 16 (QuantF32.n16 b) - clamp01 (toRat b) ∧
    deq 16 (QuantF32.n16 b) - clamp01 (toRat b) ≤ 1 / (2 * 65535) + (if b ∈ n16Dev then 1 / (4096 * 255) else 0) :=
  fun b hb hn hi => half_step_sat satQ_n16 (by decide) b hb hn hi

open Dds.CF32 Dds.EncTotal Dds.QuantF32 Dds.F32Thr in
/-- `n2::from_f32`: `(x.min(1.0) * 3.0 + 0.5) as u8`: every pattern outside `n2Dev` (NaN ↦ 3 through `min`) -/
theorem n2_from_f32_spec_partial : ∀ b, b < 2 ^ 32 → b ∉ n2Dev →
    QuantBits.n2 b = if isNaN b then 3 else if isInf b then (if isNeg b then 0 else 3) else q 2 (toRat b) := by
  intro b hb hne
  have := unorm_all minQ_n2 b hb
  rw [if_neg (show ¬ b ∈ devOf _ from hne), Nat.add_zero] at this
  exact this

open Dds.CF32 Dds.EncTotal Dds.QuantF32 Dds.F32Thr in
theorem n2_from_f32_known_deviation : ∀ b, b ∈ n2Dev →
    0 < b ∧ b < 0x3F800000 ∧ QuantBits.n2 b = q 2 (toRat b) + 1 ∧
    1 / (2 * 3) < deq 2 (QuantBits.n2 b) - clamp01 (toRat b) ∧
    deq 2 (QuantBits.n2 b) - clamp01 (toRat b) ≤ 1 / (2 * 3) + 1 / (4096 * 255) :=
  fun b hm => dev_min minQ_n2 (by decide) b hm

open Dds.CF32 Dds.EncTotal Dds.QuantF32 Dds.F32Thr in
theorem n2_from_f32_half_step : ∀ b, b < 2 ^ 32 → isNaN b = false → isInf b = false →
    -(1 / (2 * 3)) ≤ deq 2 (QuantBits.n2 b) - clamp01 (toRat b) ∧
    deq 2 (QuantBits.n2 b) - clamp01 (toRat b) ≤ 1 / (2 * 3) + (if b ∈ n2Dev then 1 / (4096 * 255) else 0) :=
  fun b hb hn hi => half_step_min minQ_n2 (by decide) b hb hn hi

open Dds.CF32 Dds.EncTotal Dds.QuantF32 Dds.F32Thr in
/-- `n4::from_f32`: `(x.min(1.0) * 15.0 + 0.5) as u8`: every pattern outside `n4Dev` (NaN ↦ 15 through `min`) -/
theorem n4_from_f32_spec_partial : ∀ b, b < 2 ^ 32 → b ∉ n4Dev →
    QuantBits.n4 b = if isNaN b then 15 else if isInf b then (if isNeg b then 0 else 15) else q 4 (toRat b) := by
  intro b hb hne
  have := unorm_all minQ_n4 b hb
  rw [if_neg (show ¬ b ∈ devOf _ from hne), Nat.add_zero] at this
  exact this

open Dds.CF32 Dds.EncTotal Dds.QuantF32 Dds.F32Thr in
theorem n4_from_f32_known_deviation : ∀ b, b ∈ n4Dev →
    0 < b ∧ b < 0x3F800000 ∧ QuantBits.n4 b = q 4 (toRat b) + 1 ∧
    1 / (2 * 15) < deq 4 (QuantBits.n4 b) - clamp01 (toRat b) ∧
    deq 4 (QuantBits.n4 b) - clamp01 (toRat b) ≤ 1 / (2 * 15) + 1 / (4096 * 255) :=
  fun b hm => dev_min minQ_n4 (by decide) b hm

open Dds.CF32 Dds.EncTotal Dds.QuantF32 Dds.F32Thr in
theorem n4_from_f32_half_step : ∀ b, b < 2 ^ 32 → isNaN b = false → isInf b = false →
    -(1 / (2 * 15)) ≤ deq 4 (QuantBits.n4 b) - clamp01 (toRat b) ∧
    deq 4 (QuantBits.n4 b) - clamp01 (toRat b) ≤ 1 / (2 * 15) + (if b ∈ n4Dev then 1 / (4096 * 255) else 0) :=
  fun b hb hn hi => half_step_min minQ_n4 (by decide) b hb hn hi

open Dds.CF32 Dds.EncTotal Dds.QuantF32 Dds.F32Thr in
/-- `n5::from_f32`: `(x.min(1.0) * 31.0 + 0.5) as u8`: every pattern outside `n5Dev` (NaN ↦ 31 through `min`) -/
theorem n5_from_f32_spec_partial : ∀ b, b < 2 ^ 32 → b ∉ n5Dev →
    QuantBits.n5 b = if isNaN b then 31 else if isInf b then (if isNeg b then 0 else 31) else q 5 (toRat b) := by
  intro b hb hne
  have := unorm_all minQ_n5 b hb
  rw [if_neg (show ¬ b ∈ devOf _ from hne), Nat.add_zero] at this
  exact this

open Dds.CF32 Dds.EncTotal Dds.QuantF32 Dds.F32Thr in
theorem n5_from_f32_known_deviation : ∀ b, b ∈ n5Dev →
    0 < b ∧ b < 0x3F800000 ∧ QuantBits.n5 b = q 5 (toRat b) + 1 ∧
    1 / (2 * 31) < deq 5 (QuantBits.n5 b) - clamp01 (toRat b) ∧
    deq 5 (QuantBits.n5 b) - clamp01 (toRat b) ≤ 1 / (2 * 31) + 1 / (4096 * 255) :=
  fun b hm => dev_min minQ_n5 (by decide) b hm

open Dds.CF32 Dds.EncTotal Dds.QuantF32 Dds.F32Thr in
theorem n5_from_f32_half_step : ∀ b, b < 2 ^ 32 → isNaN b = false → isInf b = false →
    -(1 / (2 * 31)) ≤ deq 5 (QuantBits.n5 b) - clamp01 (toRat b) ∧
    deq 5 (QuantBits.n5 b) - clamp01 (toRat b) ≤ 1 / (2 * 31) + (if b ∈ n5Dev then 1 / (4096 * 255) else 0) :=
  fun b hb hn hi => half_step_min minQ_n5 (by decide) b hb hn hi

open Dds.CF32 Dds.EncTotal Dds.QuantF32 Dds.F32Thr in
/-- `n6::from_f32`: `(x.min(1.0) * 63.0 + 0.5) as u8`: every pattern outside `n6Dev` (NaN ↦ 63 through `min`) -/
theorem n6_from_f32_spec_partial : ∀ b, b < 2 ^ 32 → b ∉ n6Dev →
    QuantBits.n6 b = if isNaN b then 63 else if isInf b then (if isNeg b then 0 else 63) else q 6 (toRat b) := by
  intro b hb hne
  have := unorm_all minQ_n6 b hb
  rw [if_neg (show ¬ b ∈ devOf _ from hne), Nat.add_zero] at this
  exact this

open Dds.CF32 Dds.EncTotal Dds.QuantF32 Dds.F32Thr in
theorem n6_from_f32_known_deviation : ∀ b, b ∈ n6Dev →
    0 < b ∧ b < 0x3F800000 ∧ QuantBits.n6 b = q 6 (toRat b) + 1 ∧
    1 / (2 * 63) < deq 6 (QuantBits.n6 b) - clamp01 (toRat b) ∧
    deq 6 (QuantBits.n6 b) - clamp01 (toRat b) ≤ 1 / (2 * 63) + 1 / (4096 * 255) :=
  fun b hm => dev_min minQ_n6 (by decide) b hm

open Dds.CF32 Dds.EncTotal Dds.QuantF32 Dds.F32Thr in
theorem n6_from_f32_half_step : ∀ b, b < 2 ^ 32 → isNaN b = false → isInf b = false →
    -(1 / (2 * 63)) ≤ deq 6 (QuantBits.n6 b) - clamp01 (toRat b) ∧
    deq 6 (QuantBits.n6 b) - clamp01 (toRat b) ≤ 1 / (2 * 63) + (if b ∈ n6Dev then 1 / (4096 * 255) else 0) :=
  fun b hb hn hi => half_step_min minQ_n6 (by decide) b hb hn hi

open Dds.CF32 Dds.EncTotal Dds.QuantF32 Dds.F32Thr in
/-- `n10::from_f32`: `(x.min(1.0) * 1023.0 + 0.5) as u16`: every pattern outside `n10Dev` (NaN ↦ 1023 through `min`) -/
theorem n10_from_f32_spec_partial : ∀ b, b < 2 ^ 32 → b ∉ n10Dev →
    QuantBits.n10 b = if isNaN b then 1023 else if isInf b then (if isNeg b then 0 else 1023) else q 10 (toRat b) := by
  intro b hb hne
  have := unorm_all minQ_n10 b hb
  rw [if_neg (show ¬ b ∈ devOf _ from hne), Nat.add_zero] at this
  exact this

open Dds.CF32 Dds.EncTotal Dds.QuantF32 Dds.F32Thr in
theorem n10_from_f32_known_deviation : ∀ b, b ∈ n10Dev →
    0 < b ∧ b < 0x3F800000 ∧ QuantBits.n10 b = q 10 (toRat b) + 1 ∧
    1 / (2 * 1023) < deq 10 (QuantBits.n10 b) - clamp01 (toRat b) ∧
    deq 10 (QuantBits.n10 b) - clamp01 (toRat b) ≤ 1 / (2 * 1023) + 1 / (4096 * 255) :=
  fun b hm => dev_min minQ_n10 (by decide) b hm

open Dds.CF32 Dds.EncTotal Dds.QuantF32 Dds.F32Thr in
theorem n10_from_f32_half_step : ∀ b, b < 2 ^ 32 → isNaN b = false → isInf b = false →
    -(1 / (2 * 1023)) ≤ deq 10 (QuantBits.n10 b) - clamp01 (toRat b) ∧
    deq 10 (QuantBits.n10 b) - clamp01 (toRat b) ≤ 1 / (2 * 1023) + (if b ∈ n10Dev then 1 / (4096 * 255) else 0) :=
  fun b hb hn hi => half_step_min minQ_n10 (by decide) b hb hn hi

open Dds.CF32 Dds.EncTotal Dds.QuantF32 Dds.F32Thr in
/-- `s8::from_uf32`: the norm `(x.min(1.0) * 254.0 + 0.5) as u8` is the SNORM quantiser `sq 8` (254 steps) outside
`s8Dev`, so the stored byte is `sencode 8` of the value (`from_norm` never overflows: C15 `s8_some`) -/
theorem s8_from_uf32_spec_partial : ∀ b, b < 2 ^ 32 → b ∉ s8Dev →
    QuantF32.s8norm b = (if isNaN b then 254 else if isInf b then (if isNeg b then 0 else 254) else sq 8 (toRat b)) ∧
    (isNaN b = false → isInf b = false → QuantBits.s8 b = some (sencode 8 (toRat b))) := by
  intro b hb hne
  have h := unorm_all minQ_s8 b hb
  rw [if_neg (show ¬ b ∈ devOf _ from hne), Nat.add_zero] at h
  refine ⟨h, ?_⟩
  intro hn hi
  rw [hn, hi] at h
  simp only [Bool.false_eq_true, if_false] at h
  have e : sq 8 (toRat b) = qL 254 (toRat b) := rfl
  have hle : qL 254 (toRat b) ≤ 254 := qL_le _ _
  have hs : QuantBits.s8 b = snormFromNorm 8 (QuantBits.unorm QuantBits.k254 255 b) := rfl
  rw [hs, h]
  unfold sencode snormOfNorm snormFromNorm
  rw [e, if_pos (by omega)]
  show some ((qL 254 (toRat b) + 1 + 256 - 128) % 256) = some ((qL 254 (toRat b) + 1 + 128) % 256)
  have : qL 254 (toRat b) + 1 + 256 - 128 = qL 254 (toRat b) + 1 + 128 := by omega
  rw [this]

open Dds.CF32 Dds.EncTotal Dds.QuantF32 Dds.F32Thr in
theorem s8_from_uf32_known_deviation : ∀ b, b ∈ s8Dev →
    0 < b ∧ b < 0x3F800000 ∧ QuantF32.s8norm b = sq 8 (toRat b) + 1 ∧
    1 / (2 * 254) < deqL 254 (QuantF32.s8norm b) - clamp01 (toRat b) ∧
    deqL 254 (QuantF32.s8norm b) - clamp01 (toRat b) ≤ 1 / (2 * 254) + 1 / (4096 * 255) :=
  fun b hm => dev_min minQ_s8 (by decide) b hm

open Dds.CF32 Dds.EncTotal Dds.QuantF32 Dds.F32Thr in
theorem s8_from_uf32_half_step : ∀ b, b < 2 ^ 32 → isNaN b = false → isInf b = false →
    -(1 / (2 * 254)) ≤ deqL 254 (QuantF32.s8norm b) - clamp01 (toRat b) ∧
    deqL 254 (QuantF32.s8norm b) - clamp01 (toRat b) ≤ 1 / (2 * 254) + (if b ∈ s8Dev then 1 / (4096 * 255) else 0) :=
  fun b hb hn hi => half_step_min minQ_s8 (by decide) b hb hn hi

open Dds.QuantF32 in
/-- the exception sets: explicit for 2 and 4 bits, sizes for the others (the lists themselves are the generated,
kernel-validated tables `Proofs/F32ThrTab*.lean`) -/
theorem from_f32_deviation_sets :
    n2Dev = [0x3E2AAAAA, 0x3F555555] ∧
    n4Dev = [0x3D088888, 0x3F111111, 0x3F222222, 0x3F333333, 0x3F444444, 0x3F555555, 0x3F666666, 0x3F777777] ∧
    n5Dev.length = 16 ∧ n6Dev.length = 32 ∧ n8Dev.length = 128 ∧ n10Dev.length = 512 ∧ n16Dev.length = 32768 ∧
    s8Dev.length = 128 :=
  ⟨n2Dev_eq, n4Dev_eq, n5Dev_length, n6Dev_length, n8Dev_length, n10Dev_length, n16Dev_length, s8Dev_length⟩

open Dds.CF32 Dds.EncTotal Dds.QuantF32 in
example : QuantF32.n8 0x3F000000 = 128 ∧ QuantF32.n8 0x7FC00000 = 0 ∧ QuantBits.n5 0x7FC00000 = 31 ∧ QuantBits.n5 0x3F000000 = 16 ∧
    QuantBits.n2 0x3E2AAAAA = 1 ∧ q 2 (toRat 0x3E2AAAAA) = 0 ∧ QuantBits.n2 0x3E2AAAAB = 1 ∧ q 2 (toRat 0x3E2AAAAB) = 1 ∧
    QuantBits.n10 0xBF800000 = 0 ∧ QuantBits.n10 0x7F800000 = 1023 ∧ QuantF32.n16 0x40000000 = 65535 ∧
    QuantBits.s8 0x3F000000 = some 0 ∧ sencode 8 (toRat 0x3F000000) = 0 := by decide +kernel
open Dds.QuantF32 in
example : 0x3E2AAAAA ∈ n2Dev ∧ 0x3E2AAAAB ∉ n2Dev ∧ 0x3F010101 ∈ n8Dev ∧ 0 ∉ n8Dev ∧ 0x37000080 ∈ n16Dev := by
  decide +kernel

/-! ## encoder selection over the pinned table (finite: 45 formats × 12 colour formats) -/

def pickOk (name : String) (c : Color) : Bool :=
  match pickEncoder (encoderTable name) c with
  | none => false
  | some e =>
    -- never a dithering encoder without dithering
    e.kind != .dither
    -- the exactness test on the real flag word says what the declaration says
    && (contains e.flags (exactFor c.p) == contains e.exact (exactFor c.p))
    -- if some applicable encoder advertises exactness for this precision, the picked one does
    && (!((encoderTable name).any fun e' => e'.accepts c && contains e'.exact (exactFor c.p))
        || contains e.exact (exactFor c.p))
    -- an advertised-exact pick is an integer path at that precision or the format's only quantising path
    && (!contains e.exact (exactFor c.p) || (match e.kind with
        | .copy c' => c' == c
        | .convert p _ => p == c.p
        | .universal => true
        | .dither => false))

/-- (must) `EncoderSet::pick_encoder` with `Dithering::None`: total, never picks a dithering encoder,
honours advertised exactness, and `DITHER_ALPHA = 0x16` fools no exactness test of any picked encoder -/
theorem pick_encoder_exact : ∀ name ∈ formatNames, ∀ c ∈ allColors, pickOk name c = true := by
  decide +kernel

/-- (must) no encoder of the table has flags on which the overlapping bit patterns change the answer
of an exactness test or of `get_dithering` -/
theorem flags_overlap_harmless : ∀ name ∈ formatNames, ∀ e ∈ encoderTable name,
    (∀ p ∈ [Prec.u8, Prec.u16, Prec.f32], contains e.flags (exactFor p) = contains e.exact (exactFor p))
    ∧ getDithering e.flags = getDithering e.dither := by
  decide +kernel

/-- the hazard is real: an encoder declared `EXACT_U8 | DITHER_ALL` would pass the F32 exactness test -/
theorem flags_overlap_exists :
    contains (EXACT_U8 ||| DITHER_ALL) EXACT_F32 = true ∧ contains EXACT_U8 EXACT_F32 = false := by decide

/-- with dithering requested, an advertised-exact encoder still wins (first loop of `pick_encoder`) -/
theorem pick_encoder_exact_beats_dither : ∀ name ∈ formatNames, ∀ c ∈ allColors,
    ∀ d ∈ [(true, false), (false, true), (true, true)],
    ((encoderTable name).any fun e' => e'.accepts c && contains e'.flags (exactFor c.p)) = true →
    ∃ e, pickEncoder (encoderTable name) c d = some e ∧ contains e.flags (exactFor c.p) = true := by
  decide +kernel
example : ((encoderTable "R8_UNORM").any fun e' => e'.accepts ⟨.gray, .u8⟩ && contains e'.flags (exactFor .u8)) = true := by
  decide

/-! ## ==== carrier independence (builder P) ====================================================================

Last clause of C12: "the encoded bytes do not depend on which of the 12 colour formats … carried the same pixel
values".  Model: `EncCarrier.lean` — for every encodable non-BC format and every colour format (`Channels` ×
`Precision`) the function "pixel of the `ImageView` ↦ stored elements ↦ bytes" along the encoder that
`pick_encoder` selects from the pinned table: `Encoder::copy`, the integer encoders (`color_convert!` /
`simple_color_convert`, the hand-written B8G8R8* `process_line`s: `convert_channels`, `swap(0, 2)`, `p[3] = 0xFF`,
`s8::from_n8`, `s16::from_n16`), or `universal!` = `as_rgba_f32` (`n8::f32` / `n16::f32` per channel, `ch::*_to_rgba`
with the `f32` defaults 0.0 / 1.0) followed by the format's closure, bit-level on the software binary32 / binary64.

"The same pixel values" is read exactly as the harness oracle builds its carriers (harness/src/c12.rs
`carrier_value`, `carriers`, `logical_px`): an 8-bit value `v` is carried as U8 `v`, U16 `257·v`, F32 the nearest
binary32 to `v/255` — which is `n8::f32 v` (`carrier_fields_u8`, C04 `n8f32_exact`); a 16-bit value `w` as U16 `w` or
F32 the nearest binary32 to `w/65535` = `n16::f32 w`; Grayscale `g` as RGB `(g, g, g)` or RGBA `(g, g, g, ONE)`,
RGB as RGBA with alpha `ONE`, Alpha `a` as RGBA `(ZERO, ZERO, ZERO, a)` (`ONE` = 255 / 65535 / 1.0, `ZERO` = 0 / 0.0:
`Norm` of src/color/mod.rs).

RESULT: no exception.  For every one of the 45 formats the bytes are the same for every carrier, over the WHOLE
8-bit and 16-bit value domains (scalar facts by kernel evaluation: 256 points, resp. 65 536 points in eight generated
slices `Proofs/EncCarrierRows*.lean`).  The scalar conversions without a bit-level model (`fp16 / fp11 / fp10 /
xr10::from_f32`, `yuv8 / yuv10 / yuv16::from_rgb_f32`) are parameters `Q : Ext` of every theorem: for the half / small
float / XR fields and for ALL YUV, sub-sampled and bi-planar formats independence is proved at the level the code
supports — the same `f32` pixels reach the closure (these formats have universal encoders only), whatever the
closure computes.  That every quantiser involved returns a value (`some`) for every input is C15
(`quantisers_in_field`, `s16_encodes_nearest`, `sharedexp_in_field`). -/

section CarrierIndependence
open Dds.EncCarrier Dds.Conv Dds.CF32 Dds.EncTotal

/-- per field quantiser, all 256 values `v`: the U16 carrier `257·v` turns into the same `f32` as the U8 carrier; the
F32 carrier of the oracle (nearest binary32 to `v/255`) IS `n8::f32 v`; and every quantiser that has an integer
short cut undoes the widening exactly: UNORM8 (`copy`), SNORM8 (`s8::from_n8`), UNORM16 (`n8::n16`), SNORM16
(`s16::from_n16 ∘ n8::n16`) -/
theorem carrier_fields_u8 (v : Nat) (hv : v < 256) :
    n16f32 (n8_n16 v) = n8f32 v ∧ n8f32 v = roundF32 (Spec.unorm 8 v) ∧
    QuantF32.n8 (n8f32 v) = v ∧ QuantBits.s8 (n8f32 v) = some (s8_from_n8 v) ∧
    QuantF32.n16 (n8f32 v) = n8_n16 v ∧ QuantBits.s16 (n8f32 v) = some (s16_from_n16 (n8_n16 v)) :=
  ⟨n16f32_257 v hv, n8f32_nearest v hv, n8_n8f32 v hv, s8_n8f32 v hv, n16_n8f32 v hv, s16_n8f32 v hv⟩

/-- per field quantiser, all 65 536 values `w`: the F32 carrier of the oracle is `n16::f32 w`, and UNORM16 (`copy`) /
SNORM16 (`s16::from_n16`) undo it exactly -/
theorem carrier_fields_u16 (w : Nat) (hw : w < 65536) :
    n16f32 w = roundF32 (Spec.unorm 16 w) ∧
    QuantF32.n16 (n16f32 w) = w ∧ QuantBits.s16 (n16f32 w) = some (s16_from_n16 w) :=
  ⟨n16f32_nearest w hw, n16_n16f32 w hw, s16_n16f32 w hw⟩

/-- every encoder of every plain format computes the `universal!` closure of `as_rgba_f32` of the pixel: the integer
encoders (`copy`, `color_convert!`, B8G8R8*) are short cuts that agree with it on every valid pixel -/
theorem encoders_compute_the_closure (Q : Ext) : ∀ name ∈ plainNames, ∀ (p : Prec) (px : Pix),
    px.below (precBound p) → pixelCodes Q name p px = uni Q name (asRgbaF32 p px) :=
  fun name hn p px hpx => pixelCodes_normal Q name hn p px hpx

/-- (must) 8-bit values, the 35 plain formats, every channel layout: the bytes of a pixel do not depend on whether
its values are carried as U8 `v`, U16 `257·v` or F32 `n8::f32 v` -/
theorem carrier_independent_u8 (Q : Ext) : ∀ name ∈ plainNames, ∀ px : Pix, px.below 256 →
    pixelBytes Q name .u16 (px.map n8_n16) = pixelBytes Q name .u8 px ∧
    pixelBytes Q name .f32 (px.map n8f32) = pixelBytes Q name .u8 px := by
  intro name hn px hpx
  unfold pixelBytes
  rw [(codes_u8 Q name hn px hpx).1, (codes_u8 Q name hn px hpx).2]
  exact ⟨rfl, rfl⟩

/-- (must) 16-bit values: U16 `w` or F32 `n16::f32 w` -/
theorem carrier_independent_u16 (Q : Ext) : ∀ name ∈ plainNames, ∀ px : Pix, px.below 65536 →
    pixelBytes Q name .f32 (px.map n16f32) = pixelBytes Q name .u16 px := by
  intro name hn px hpx
  unfold pixelBytes
  rw [codes_u16 Q name hn px hpx]

/-- (must) the same colour in a wider channel layout, at every precision: Grayscale as RGB / RGBA, RGB as RGBA,
Alpha as RGBA -/
theorem channel_carrier_independent (Q : Ext) : ∀ name ∈ plainNames, ∀ (p : Prec) (r g b a : Nat),
    r < precBound p → g < precBound p → b < precBound p → a < precBound p →
    pixelBytes Q name p (.rgb g g g) = pixelBytes Q name p (.gray g) ∧
    pixelBytes Q name p (.rgba g g g (normOne p)) = pixelBytes Q name p (.gray g) ∧
    pixelBytes Q name p (.rgba r g b (normOne p)) = pixelBytes Q name p (.rgb r g b) ∧
    pixelBytes Q name p (.rgba 0 0 0 a) = pixelBytes Q name p (.alpha a) := by
  intro name hn p r g b a hr hg hb ha
  obtain ⟨h1, h2, h3, h4⟩ := codes_channels Q name hn p r g b a hr hg hb ha
  unfold pixelBytes
  rw [h1, h2, h3, h4]
  exact ⟨rfl, rfl, rfl, rfl⟩

/-- both axes at once, the two farthest carriers of a grey value: Grayscale / U8 `g` and RGBA / F32
`(n8::f32 g, n8::f32 g, n8::f32 g, 1.0)` -/
theorem carrier_independent_gray_u8_rgba_f32 (Q : Ext) : ∀ name ∈ plainNames, ∀ g, g < 256 →
    pixelBytes Q name .f32 (.rgba (n8f32 g) (n8f32 g) (n8f32 g) CF32.one) = pixelBytes Q name .u8 (.gray g) := by
  intro name hn g hg
  have hb := n8f32_lt g hg
  have h := (channel_carrier_independent Q name hn .f32 (n8f32 g) (n8f32 g) (n8f32 g) (n8f32 g) hb hb hb hb).2.1
  have h2 := (carrier_independent_u8 Q name hn (.gray g) hg).2
  exact h.trans h2

/-- (must) sub-sampled and bi-planar formats (universal encoders only; `ch` = the channel layout of the image, the
pixels of one block): the block's bytes are `uniBlock` of the `as_rgba_f32` pixels, and those do not depend on the
precision that carries 8-bit / 16-bit values.  This is independence at the level the code supports: the YUV matrix
and the averaging act on the `f32` pixels, for ANY `yuv8 / yuv10 / yuv16::from_rgb_f32` (`Q`). -/
theorem carrier_independent_blocks (Q : Ext) : ∀ name ∈ blockNames, ∀ (ch : Chan) (pxs : List Pix),
    (∀ p, blockBytes Q name p ch pxs = (uniBlock Q name (pxs.map (asRgbaF32 p))).map (bytesOf name)) ∧
    ((∀ px ∈ pxs, px.below 256) →
      blockBytes Q name .u16 ch (pxs.map (Pix.map n8_n16)) = blockBytes Q name .u8 ch pxs ∧
      blockBytes Q name .f32 ch (pxs.map (Pix.map n8f32)) = blockBytes Q name .u8 ch pxs) ∧
    blockBytes Q name .f32 ch (pxs.map (Pix.map n16f32)) = blockBytes Q name .u16 ch pxs := by
  intro name hn ch pxs
  refine ⟨fun p => ?_, fun h => ⟨?_, ?_⟩, ?_⟩ <;> unfold blockBytes <;> simp only [blockCodes_eq_uni Q name hn]
  · rw [map_asRgba_u16_of_u8 pxs h]
  · rw [map_asRgba_f32_of_u8]
  · rw [map_asRgba_f32_of_u16]

/-- (must) … and not on the channel layout that carries the same colours: a block of grey values as Grayscale / RGB /
RGBA, of RGB triples as RGB / RGBA, of alpha values as Alpha / RGBA -/
theorem channel_carrier_independent_blocks (Q : Ext) : ∀ name ∈ blockNames, ∀ (p : Prec)
    (gs : List Nat) (cs : List (Nat × Nat × Nat)),
    blockBytes Q name p .rgb (gs.map fun g => .rgb g g g) = blockBytes Q name p .gray (gs.map .gray) ∧
    blockBytes Q name p .rgba (gs.map fun g => .rgba g g g (normOne p)) = blockBytes Q name p .gray (gs.map .gray) ∧
    blockBytes Q name p .rgba (cs.map fun c => .rgba c.1 c.2.1 c.2.2 (normOne p)) =
      blockBytes Q name p .rgb (cs.map fun c => .rgb c.1 c.2.1 c.2.2) ∧
    blockBytes Q name p .rgba (gs.map fun a => .rgba 0 0 0 a) = blockBytes Q name p .alpha (gs.map .alpha) := by
  intro name hn p gs cs
  unfold blockBytes
  simp only [blockCodes_eq_uni Q name hn, List.map_map]
  refine ⟨?_, ?_, ?_, ?_⟩
  · congr 2
  · congr 2; apply List.map_congr_left; intro g _; exact asRgba_gray_rgba p g
  · congr 2; apply List.map_congr_left; intro c _; exact asRgba_rgb_rgba p c.1 c.2.1 c.2.2
  · congr 2; apply List.map_congr_left; intro a _; exact asRgba_alpha_rgba p a

/-- which encoder runs, as read off `pick_encoder` over the pinned table: the ten block formats have the universal
path for all 12 colour formats; among the plain formats an integer path exists exactly at the precision the format
stores (nine at U8, four at U16, three at F32) -/
theorem carrier_paths :
    (∀ name ∈ blockNames, ∀ c ∈ allColors, pathOf name c = .uni) ∧
    (plainNames.filter fun n => pathOf n ⟨.rgba, .u8⟩ != .uni) =
      ["R8G8B8_UNORM", "B8G8R8_UNORM", "R8G8B8A8_UNORM", "R8G8B8A8_SNORM", "B8G8R8A8_UNORM", "B8G8R8X8_UNORM",
       "R8_SNORM", "R8_UNORM", "A8_UNORM"] ∧
    (plainNames.filter fun n => pathOf n ⟨.rgba, .u16⟩ != .uni) =
      ["R16_UNORM", "R16_SNORM", "R16G16B16A16_UNORM", "R16G16B16A16_SNORM"] ∧
    (plainNames.filter fun n => pathOf n ⟨.rgba, .f32⟩ != .uni) =
      ["R32_FLOAT", "R32G32B32_FLOAT", "R32G32B32A32_FLOAT"] := by decide +kernel

/-- non-vacuity: the compared values are `some` bytes, on each kind of path — SNORM8 through `color_convert!`
(U8 carrier), through `universal!` (U16, F32 carriers); B8G8R8X8 swap + 0xFF; 16-bit `copy`; Alpha into RGB -/
example : pixelBytes extZero "R8G8B8A8_SNORM" .u8 (.gray 200) = some [72, 72, 72, 127] ∧
    pixelBytes extZero "R8G8B8A8_SNORM" .u16 (.gray (n8_n16 200)) = some [72, 72, 72, 127] ∧
    pixelBytes extZero "R8G8B8A8_SNORM" .f32 (.rgba (n8f32 200) (n8f32 200) (n8f32 200) CF32.one) = some [72, 72, 72, 127] ∧
    pixelBytes extZero "B8G8R8X8_UNORM" .u8 (.rgb 1 2 3) = some [3, 2, 1, 255] ∧
    pixelBytes extZero "B8G8R8X8_UNORM" .f32 (.rgb (n8f32 1) (n8f32 2) (n8f32 3)) = some [3, 2, 1, 255] ∧
    pixelBytes extZero "R16_UNORM" .u16 (.gray 0xABCD) = some [0xCD, 0xAB] ∧
    pixelBytes extZero "R16_UNORM" .f32 (.rgb (n16f32 0xABCD) 0 0) = some [0xCD, 0xAB] ∧
    pixelBytes extZero "R8G8B8_UNORM" .u8 (.alpha 9) = some [0, 0, 0] ∧
    pixelBytes extZero "B5G6R5_UNORM" .u16 (.rgb 65535 0 65535) = some [0x1F, 0xF8] ∧
    pathOf "R8G8B8A8_SNORM" ⟨.gray, .u8⟩ = .conv .rgba false false true ∧
    pathOf "R16_UNORM" ⟨.gray, .u16⟩ = .copy ∧ pathOf "R16_UNORM" ⟨.gray, .u8⟩ = .uni := by decide +kernel
example : blockBytes extZero "R8G8_B8G8_UNORM" .u8 .gray [.gray 10, .gray 20] = some [15, 10, 15, 20] ∧
    blockBytes extZero "R8G8_B8G8_UNORM" .f32 .rgb [.rgb (n8f32 10) (n8f32 10) (n8f32 10), .rgb (n8f32 20) (n8f32 20) (n8f32 20)]
      = some [15, 10, 15, 20] ∧
    blockBytes extZero "R1_UNORM" .u16 .gray [.gray 65535, .gray 0, .gray 40000] = some [0xBF] := by decide +kernel

end CarrierIndependence

end Dds.C12
