import DdsModel.Quant
namespace Dds.C12
theorem placeholder : True := trivial
end Dds.C12
