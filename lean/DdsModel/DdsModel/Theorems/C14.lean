/-
C14 — Parallel, sequential and fragment-wise encoding produce identical bytes.

Only property theorems and non-vacuity examples live here; helper lemmas are in
`Proofs/Split.lean`.  All statements are about the model `Split.lean` (src/split.rs,
`encode_parallel`'s indexed collect) for every `u32` width/height, every support record with a
`NonZeroU8` split height and every preferred fragment size — no bound on sizes.

What is NOT proved here: that each encoder family is row-group local (`RowGroupLocal`, an
assumption validated on every run by the byte comparison of the tie), and anything about real
threads (rayon, `Mutex`): the scheduler is an arbitrary permutation of job completions.
-/
import DdsModel.Proofs.Split
import DdsModel.Drv.C14
namespace Dds.C14
open Dds

/-- the conditions under which `get_fragment_height` refuses to split -/
def NoSplit (w h : Nat) (sup : Option Support) (dith : Dithering) (q : Quality) : Prop :=
  w = 0 ∨ h = 0 ∨                                       -- empty image
  sup = none ∨                                          -- format cannot be encoded
  (∃ s, sup = some s ∧ s.splitHeight = none) ∨          -- format has no split height
  (∃ s, sup = some s ∧ s.localDithering = false ∧       -- global (error-diffusion) dithering applies
        dith.intersect s.dithering ≠ .none) ∨
  (∃ s, sup = some s ∧ w * h ≤ max (s.fragmentSize.getPreferred q) 1)  -- small image

/-- **fragments_tile.**  For every image size, support record, dithering option and quality the
fragments of `SplitView::new` are: in order, contiguous from row 0, covering rows `[0,h)` exactly
once; all but the last have the nominal height `F`, every fragment of a non-empty image is
non-empty, `len = ⌈h/F⌉` (1 for the empty image), `get` is `None` exactly beyond `len`; and when a
fragment height was chosen it is a positive multiple of the format's split height.  None of the
`u32` operations of `SplitView::get` wraps (the model uses the wrapping operators; the equation
with the ideal value is part of the statement). -/
theorem fragments_tile (w h : Nat) (sup : Option Support) (dith : Dithering) (q : Quality)
    (hh : h < U32) (hwf : ∀ s, sup = some s → s.WF) :
    let sv := SplitView.new w h sup dith q
    ∃ F, 0 < F ∧
      sv.len = max 1 (divCeil h F) ∧
      (∀ i, i < sv.len → sv.get i = some (i * F, min F (h - i * F))) ∧
      (∀ i, sv.len ≤ i → sv.get i = none) ∧
      (∀ i, i + 1 < sv.len → min F (h - i * F) = F) ∧
      (0 < h → ∀ i, i < sv.len → 0 < min F (h - i * F)) ∧
      sv.fragments.flatMap rowsOf = List.range h ∧
      (∀ fh, sv.fragmentHeight = some fh → fh = F ∧
        ∃ s sh k, sup = some s ∧ s.splitHeight = some sh ∧ 0 < k ∧ F = k * sh) := by
  intro sv
  have hnone : ∀ i, sv.len ≤ i → sv.get i = none := by
    intro i hi; unfold SplitView.get; rw [if_pos hi]
  cases hg : getFragmentHeight w h sup dith q with
  | none =>
    have hsv : sv = ⟨w, h, 1, none⟩ := by
      show SplitView.new w h sup dith q = _
      unfold SplitView.new; rw [hg]
    refine ⟨max h 1, by omega, ?_, ?_, hnone, ?_, ?_, ?_, ?_⟩
    · rw [hsv]
      show 1 = max 1 (divCeil h (max h 1))
      unfold divCeil
      by_cases h0 : h = 0
      · subst h0; simp
      · have e : max h 1 = h := by omega
        rw [e, Nat.mod_self, Nat.div_self (by omega)]; simp
    · intro i hi
      rw [hsv] at hi ⊢
      have : i = 0 := by simpa using hi
      subst this
      unfold SplitView.get
      simp only [Nat.zero_mul, Nat.sub_zero]
      rw [if_neg (by omega)]
      congr 2
      omega
    · intro i hi; rw [hsv] at hi; simp at hi
    · intro hpos i hi
      rw [hsv] at hi
      have hi1 : i < 1 := hi
      have : i = 0 := by omega
      subst this
      rw [Nat.zero_mul]; omega
    · rw [hsv]
      unfold SplitView.fragments SplitView.get
      simp [rowsOf, List.range_eq_range']
    · intro fh hfh; rw [hsv] at hfh; simp at hfh
  | some F =>
    have sp := getFragmentHeight_some hwf hg
    obtain ⟨s, sh, k, hs, hsh, hsh0, hk, hFk, _⟩ := sp.facts
    have hF : 0 < F := by rw [hFk]; exact Nat.mul_pos hk hsh0
    have hsv : sv = ⟨w, h, divCeil h F, some F⟩ := by
      show SplitView.new w h sup dith q = _
      unfold SplitView.new; rw [hg]
    have hlenpos : 0 < divCeil h F := divCeil_pos sp.h_pos hF
    have hget : ∀ i, i < sv.len → sv.get i = some (i * F, min F (h - i * F)) := by
      intro i hi
      rw [hsv] at hi ⊢
      exact get_split hh hF hi rfl
    refine ⟨F, hF, ?_, hget, hnone, ?_, ?_, ?_, ?_⟩
    · rw [hsv]; show divCeil h F = max 1 (divCeil h F); omega
    · intro i hi
      rw [hsv] at hi
      have : i + 1 < divCeil h F := hi
      have := start_lt hF this
      rw [Nat.succ_mul] at this
      omega
    · intro _ i hi
      rw [hsv] at hi
      have := start_lt hF hi
      omega
    · have : sv.fragments = (List.range sv.len).map
          (fun i => some (i * F, min F (h - i * F))) := by
        unfold SplitView.fragments
        apply List.map_congr_left
        intro i hi
        exact hget i (List.mem_range.mp hi)
      rw [this, List.flatMap_map]
      simp only [rowsOf]
      rw [cover_prefix, hsv]
      have := (divCeil_spec h F hF).1
      show List.range (min (divCeil h F * F) h) = List.range h
      congr 1
      omega
    · intro fh hfh
      rw [hsv] at hfh
      have : fh = F := by simpa using hfh.symm
      exact ⟨this, s, sh, k, hs, hsh, hk, hFk⟩

/-- **exactly one fragment** (the whole image, no fragment height) when the image is empty, the
format is not encodable or has no split height, global dithering applies, or the image is small —
and only then. -/
theorem single_fragment_iff (w h : Nat) (sup : Option Support) (dith : Dithering) (q : Quality)
    (hwf : ∀ s, sup = some s → s.WF) (hw : w < U32) (hh : h < U32) :
    (SplitView.new w h sup dith q).fragmentHeight = none ↔ NoSplit w h sup dith q := by
  have hU : U32 * U32 ≤ U64 := by simp [U32, U64]
  constructor
  · intro hnone
    cases hg : getFragmentHeight w h sup dith q with
    | some F => unfold SplitView.new at hnone; rw [hg] at hnone; simp at hnone
    | none =>
      unfold getFragmentHeight at hg
      by_cases he : w = 0 ∨ h = 0
      · cases he with
        | inl h1 => exact Or.inl h1
        | inr h1 => exact Or.inr (Or.inl h1)
      rw [if_neg he] at hg
      cases sup with
      | none => exact Or.inr (Or.inr (Or.inl rfl))
      | some s =>
        simp only at hg
        cases hsh : s.splitHeight with
        | none => exact Or.inr (Or.inr (Or.inr (Or.inl ⟨s, rfl, hsh⟩)))
        | some sh =>
          rw [hsh] at hg
          simp only at hg
          by_cases hd : ((!s.localDithering) && decide (dith.intersect s.dithering ≠ .none)) = true
          · refine Or.inr (Or.inr (Or.inr (Or.inr (Or.inl ⟨s, rfl, ?_⟩))))
            simpa using hd
          rw [if_neg hd] at hg
          by_cases hp : max (s.fragmentSize.getPreferred q) 1 ≥ w * h
          · exact Or.inr (Or.inr (Or.inr (Or.inr (Or.inr ⟨s, rfl, hp⟩))))
          rw [if_neg hp] at hg
          -- the remaining branch always returns `Some`: `u32::try_from` cannot fail
          exfalso
          have hle : (max (s.fragmentSize.getPreferred q) 1 / w) / sh * sh
              ≤ max (s.fragmentSize.getPreferred q) 1 :=
            Nat.le_trans (Nat.div_mul_le_self _ _) (Nat.div_le_self _ _)
          have hwh : w * h < U32 * U32 := by
            have h1 : w * h ≤ w * U32 := Nat.mul_le_mul_left w (by omega)
            have h2 : w * U32 < U32 * U32 := Nat.mul_lt_mul_of_pos_right hw (by simp [U32])
            omega
          have hlt : (max (s.fragmentSize.getPreferred q) 1 / w) / sh * sh < U64 := by omega
          rw [wMul_eq hlt] at hg
          have hwpos : 0 < w := by omega
          have h2 : max (s.fragmentSize.getPreferred q) 1 / w < h :=
            Nat.div_lt_of_lt_mul (by omega)
          have h3 : (max (s.fragmentSize.getPreferred q) 1 / w) / sh * sh
              ≤ max (s.fragmentSize.getPreferred q) 1 / w := Nat.div_mul_le_self _ _
          unfold tryU32 at hg
          rw [if_pos (by omega)] at hg
          simp at hg
  · intro hns
    cases hg : getFragmentHeight w h sup dith q with
    | none => unfold SplitView.new; rw [hg]
    | some F =>
      exfalso
      have sp := getFragmentHeight_some hwf hg
      obtain ⟨s, sh, hs, hsh, _, hd, hp, _⟩ := sp.ex
      have hwp := sp.w_pos
      have hhp := sp.h_pos
      rcases hns with h1 | h1 | h1 | ⟨s', h1, h2⟩ | ⟨s', h1, h2, h3⟩ | ⟨s', h1, h2⟩
      · omega
      · omega
      · rw [h1] at hs; simp at hs
      · rw [hs] at h1; cases h1; rw [hsh] at h2; simp at h2
      · rw [hs] at h1; cases h1
        cases hd with
        | inl hd => rw [hd] at h2; simp at h2
        | inr hd => exact h3 hd
      · rw [hs] at h1; cases h1; omega

/-- a view that is not split has exactly one fragment: the whole image -/
theorem single_fragment_whole (w h : Nat) (sup : Option Support) (dith : Dithering) (q : Quality)
    (hns : (SplitView.new w h sup dith q).fragmentHeight = none) :
    (SplitView.new w h sup dith q).len = 1 ∧
    (SplitView.new w h sup dith q).get 0 = some (0, h) ∧
    (SplitView.new w h sup dith q).single = some (0, h) := by
  cases hg : getFragmentHeight w h sup dith q with
  | some F => unfold SplitView.new at hns; rw [hg] at hns; simp at hns
  | none =>
    unfold SplitView.new; rw [hg]
    simp [SplitView.get, SplitView.single]

/-- **order_independent.**  Whatever the order `π` in which the `n` fragment jobs complete (any
permutation — any number of workers, any interleaving), the collected vector is the one of the
natural order: the results in index order. -/
theorem order_independent {α : Type} (n : Nat) (r : Nat → α) (π : List Nat)
    (hπ : π.Perm (List.range n)) :
    assemble n r π = assemble n r (List.range n) ∧
    assemble n r π = some ((List.range n).map r) := by
  have key : ∀ o : List Nat, o.Perm (List.range n) → assemble n r o = some ((List.range n).map r) := by
    intro o ho
    unfold assemble
    rw [collectSlots_eq n r o (fun j hj => (ho.mem_iff).mpr (List.mem_range.mpr hj))]
    have : (List.range n).map (fun j => some (r j)) = ((List.range n).map r).map some := by
      rw [List.map_map]; rfl
    rw [this]
    exact allSome_map_some _
  exact ⟨by rw [key π hπ, key _ (List.Perm.refl _)], key π hπ⟩

/-- consequently the bytes written out do not depend on the completion order -/
theorem written_bytes_order_independent {β : Type} (n : Nat) (r : Nat → List β) (π : List Nat)
    (hπ : π.Perm (List.range n)) :
    (assemble n r π).map writeOut = some (((List.range n).map r).flatten) := by
  rw [(order_independent n r π hπ).2]; rfl

/-- An encoder is *row-group local* for split height `sh` when its output is the concatenation of
the outputs of an encoder of single row groups (`sh` consecutive rows, the last group possibly
shorter), applied to the groups in order.  ASSUMPTION about each encoder family, not proved:
true by reading (`for_each_f32_rgba_rows` hands out `BLOCK_HEIGHT` rows at a time, bottom padding
replicates rows of the final group only, block-local dithering; global error diffusion is excluded
by `single_fragment_iff`) and validated on every run by the byte comparison of the tie. -/
def RowGroupLocal {ρ β : Type} (enc : List ρ → List β) (sh : Nat) : Prop :=
  ∃ encGroup : List ρ → List β, ∀ img, enc img = (chunks sh img).flatMap encGroup

/-- **fragmentwise_eq_whole.**  Encoding the fragments of the split view one by one and
concatenating the outputs gives the encoding of the whole image — for every image (list of rows)
whose height is the view's, provided the encoder is row-group local for the format's split height
(needed only when the view is actually split). -/
theorem fragmentwise_eq_whole {ρ β : Type} (enc : List ρ → List β)
    (w : Nat) (sup : Option Support) (dith : Dithering) (q : Quality) (img : List ρ)
    (hh : img.length < U32) (hwf : ∀ s, sup = some s → s.WF)
    (hloc : ∀ s sh, sup = some s → s.splitHeight = some sh → RowGroupLocal enc sh) :
    let sv := SplitView.new w img.length sup dith q
    ((List.range sv.len).map (fun i => enc (sv.fragmentRows img i))).flatten = enc img := by
  intro sv
  obtain ⟨F, hF, hlen, hget, _, _, _, _, hfh⟩ := fragments_tile w img.length sup dith q hh hwf
  cases hfr : sv.fragmentHeight with
  | none =>
    obtain ⟨h1, h2, _⟩ := single_fragment_whole w img.length sup dith q hfr
    have e1 : sv.len = 1 := h1
    have e2 : sv.get 0 = some (0, img.length) := h2
    rw [e1]
    simp [SplitView.fragmentRows, e2]
  | some fh =>
    obtain ⟨hfe, s, sh, k, hs, hsh, hk, hFk⟩ := hfh fh hfr
    obtain ⟨g, hg⟩ := hloc s sh hs hsh
    have hsh0 : 0 < sh := (hwf s hs sh hsh).1
    -- the fragments are the chunks of height F
    have hlen' : sv.len = divCeil img.length F := by
      have : sv = ⟨w, img.length, divCeil img.length fh, some fh⟩ := by
        show SplitView.new w img.length sup dith q = _
        unfold SplitView.new
        cases hgf : getFragmentHeight w img.length sup dith q with
        | none =>
          have : sv.fragmentHeight = none := by
            show (SplitView.new w img.length sup dith q).fragmentHeight = none
            unfold SplitView.new; rw [hgf]
          rw [this] at hfr; simp at hfr
        | some f2 =>
          have : sv.fragmentHeight = some f2 := by
            show (SplitView.new w img.length sup dith q).fragmentHeight = some f2
            unfold SplitView.new; rw [hgf]
          rw [this] at hfr
          have : f2 = fh := by simpa using hfr
          subst this; rfl
      rw [this, hfe]
    have hfrag : (List.range sv.len).map (fun i => enc (sv.fragmentRows img i)) =
        (chunks F img).map enc := by
      rw [chunks_eq_map hF, List.map_map, ← hlen']
      apply List.map_congr_left
      intro i hi
      have hi' := List.mem_range.mp hi
      have hgi : sv.get i = some (i * F, min F (img.length - i * F)) := hget i hi'
      simp only [Function.comp, SplitView.fragmentRows]
      rw [hgi]
      simp only
      congr 1
      by_cases hc : F ≤ img.length - i * F
      · rw [Nat.min_eq_left hc]
      · rw [Nat.min_eq_right (by omega)]
        rw [List.take_of_length_le (by rw [List.length_drop]; omega)]
        rw [List.take_of_length_le (by rw [List.length_drop]; omega)]
    rw [hfrag, ← List.flatMap_def]
    have : (chunks F img).flatMap enc = (chunks F img).flatMap (fun fr => (chunks sh fr).flatMap g) := by
      congr 1
      funext fr
      exact hg fr
    rw [this, ← List.flatMap_assoc, hFk, chunks_flatMap hsh0 hk, hg img]

/-! ### non-vacuity -/

/-- a BC1 image that is split: 64 x 200 at Fast quality gives 4 fragments 64,64,64,8 -/
example : (SplitView.new 64 200 (some (supBc .colorAndAlpha bc1Frag)) .none .fast).fragments =
    [some (0, 64), some (64, 64), some (128, 64), some (192, 8)] := by decide

/-- wider than a fragment: the fragment height falls back to the split height -/
example : (SplitView.new 5000 10 (some (supBc .colorAndAlpha bc1Frag)) .none .fast).fragments =
    [some (0, 4), some (4, 4), some (8, 2)] := by decide

/-- `NoSplit` is satisfiable in each disjunct and refutable -/
example : NoSplit 16 16 (some (supBc .colorAndAlpha bc7Frag)) .none .fast :=
  Or.inr (Or.inr (Or.inr (Or.inr (Or.inr ⟨_, rfl, by decide⟩))))
example : NoSplit 100 100 (some (⟨.color, some 1, false, bc7Frag⟩)) .color .fast :=
  Or.inr (Or.inr (Or.inr (Or.inr (Or.inl ⟨_, rfl, rfl, by decide⟩))))
example : (SplitView.new 100 100 (some (supBc .colorAndAlpha bc7Frag)) .color .fast).fragmentHeight
    = some 0 → False := by decide
example : (supBc .colorAndAlpha bc1Frag).WF := by
  intro sh h; simp [supBc] at h; subst h; simp [U8]

/-- a permutation that is not the identity -/
example : [2, 0, 1].Perm (List.range 3) := by decide

/-- the identity encoder is row-group local for every split height > 0 -/
example : RowGroupLocal (fun (img : List Nat) => img) 4 :=
  ⟨fun g => g, fun img => (chunks_flatten (by omega) img).symm⟩

end Dds.C14
