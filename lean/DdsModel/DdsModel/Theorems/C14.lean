/-
C14 — Parallel, sequential and fragment-wise encoding produce identical bytes.

Only property theorems and non-vacuity examples live here; helper lemmas are in
`Proofs/Split.lean`.  All statements are about the model `Split.lean` (src/split.rs,
`encode_parallel`'s indexed collect) for every `u32` width/height, every support record with a
`NonZeroU8` split height and every preferred fragment size — no bound on sizes.

Row-group locality of the encoders is a THEOREM about the data-flow model `EncRows.lean` (which
input pixels reach which per-unit encode call, in which order the results are written), for
ARBITRARY per-unit functions: `row_group_local_uncompressed / _subsample / _block`; the families
that are not row-group local (Bayer row index, bi-planar, error diffusion) are never split:
`stateful_families_unsplit`; `fragmentwise_eq_whole_all_families` puts it together over the pinned
tables (`family_table`, complete evaluation of 73 formats x 12 colours x 4 options).

What REMAINS ASSUMED (not proved here, validated on every run by the byte comparison of the tie):
 1. `EncRows.Runs`: that the Rust body of every encoder of the table is an instance of the
    data-flow family named there (the loops of `for_each_chunk`, `process_subsample`,
    `for_each_f32_rgba_rows` + `block_universal`, `bi_planar_universal`,
    `uncompressed_universal_dither` were transcribed by reading; C19 ties the encoder lists, the
    kinds and `pick_encoder`, C14 ties `encoding_support()`, C10 ties the write sizes of the same
    loops).
 2. every per-unit closure is a FUNCTION of the arguments the model gives it (and of the options,
    which are the same for the whole image and its fragments up to `parallel`, a field no encoder
    body reads — `grep parallel src/encode`): no state kept between calls (statics,
    RNG, clock), the output slot is overwritten, never read.  For family (a) additionally: the
    closure handed to `for_each_chunk` encodes pixel by pixel (`for (i, o) in line.iter().zip(out)`,
    `convert_channels_for`, `copy_from_slice`), and for all families the conversion of the input
    colour format (`as_rgba_f32`, `convert_to_rgba_f32`) is per pixel.  For family (c) NOTHING more is
    needed: `encode_block` may read the whole slice it is handed (block-local dithering, whatever).
 3. a fragment (`ImageView::cropped`, full width) yields through `rows()` exactly the corresponding
    rows of the image, and a `Vec<u8>` writer receives the writes in program order.
 4. anything about real threads (rayon, `Mutex`): the scheduler is an arbitrary permutation of job
    completions.
-/
import DdsModel.Proofs.Split
import DdsModel.Proofs.EncRows
import DdsModel.Proofs.FormatTables
import DdsModel.Drv.C14
namespace Dds.C14
open Dds

/-- the conditions under which `get_fragment_height` refuses to split -/
def NoSplit (w h : Nat) (sup : Option Support) (dith : Dithering) (q : Quality) : Prop :=
  w = 0 ∨ h = 0 ∨                                       -- empty image
  sup = none ∨                                          -- format cannot be encoded
  (∃ s, sup = some s ∧ s.splitHeight = none) ∨          -- format has no split height
  (∃ s, sup = some s ∧ s.localDithering = false ∧       -- global (error-diffusion) dithering applies
        dith.intersect s.dithering ≠ .none) ∨
  (∃ s, sup = some s ∧ w * h ≤ max (s.fragmentSize.getPreferred q) 1)  -- small image

/-- **fragments_tile.**  For every image size, support record, dithering option and quality the
fragments of `SplitView::new` are: in order, contiguous from row 0, covering rows `[0,h)` exactly
once; all but the last have the nominal height `F`, every fragment of a non-empty image is
non-empty, `len = ⌈h/F⌉` (1 for the empty image), `get` is `None` exactly beyond `len`; and when a
fragment height was chosen it is a positive multiple of the format's split height.  None of the
`u32` operations of `SplitView::get` wraps (the model uses the wrapping operators; the equation
with the ideal value is part of the statement). -/
theorem fragments_tile (w h : Nat) (sup : Option Support) (dith : Dithering) (q : Quality)
    (hh : h < U32) (hwf : ∀ s, sup = some s → s.WF) :
    let sv := SplitView.new w h sup dith q
    ∃ F, 0 < F ∧
      sv.len = max 1 (divCeil h F) ∧
      (∀ i, i < sv.len → sv.get i = some (i * F, min F (h - i * F))) ∧
      (∀ i, sv.len ≤ i → sv.get i = none) ∧
      (∀ i, i + 1 < sv.len → min F (h - i * F) = F) ∧
      (0 < h → ∀ i, i < sv.len → 0 < min F (h - i * F)) ∧
      sv.fragments.flatMap rowsOf = List.range h ∧
      (∀ fh, sv.fragmentHeight = some fh → fh = F ∧
        ∃ s sh k, sup = some s ∧ s.splitHeight = some sh ∧ 0 < k ∧ F = k * sh) := by
  intro sv
  have hnone : ∀ i, sv.len ≤ i → sv.get i = none := by
    intro i hi; unfold SplitView.get; rw [if_pos hi]
  cases hg : getFragmentHeight w h sup dith q with
  | none =>
    have hsv : sv = ⟨w, h, 1, none⟩ := by
      show SplitView.new w h sup dith q = _
      unfold SplitView.new; rw [hg]
    refine ⟨max h 1, by omega, ?_, ?_, hnone, ?_, ?_, ?_, ?_⟩
    · rw [hsv]
      show 1 = max 1 (divCeil h (max h 1))
      unfold divCeil
      by_cases h0 : h = 0
      · subst h0; simp
      · have e : max h 1 = h := by omega
        rw [e, Nat.mod_self, Nat.div_self (by omega)]; simp
    · intro i hi
      rw [hsv] at hi ⊢
      have : i = 0 := by simpa using hi
      subst this
      unfold SplitView.get
      simp only [Nat.zero_mul, Nat.sub_zero]
      rw [if_neg (by omega)]
      congr 2
      omega
    · intro i hi; rw [hsv] at hi; simp at hi
    · intro hpos i hi
      rw [hsv] at hi
      have hi1 : i < 1 := hi
      have : i = 0 := by omega
      subst this
      rw [Nat.zero_mul]; omega
    · rw [hsv]
      unfold SplitView.fragments SplitView.get
      simp [rowsOf, List.range_eq_range']
    · intro fh hfh; rw [hsv] at hfh; simp at hfh
  | some F =>
    have sp := getFragmentHeight_some hwf hg
    obtain ⟨s, sh, k, hs, hsh, hsh0, hk, hFk, _⟩ := sp.facts
    have hF : 0 < F := by rw [hFk]; exact Nat.mul_pos hk hsh0
    have hsv : sv = ⟨w, h, divCeil h F, some F⟩ := by
      show SplitView.new w h sup dith q = _
      unfold SplitView.new; rw [hg]
    have hlenpos : 0 < divCeil h F := divCeil_pos sp.h_pos hF
    have hget : ∀ i, i < sv.len → sv.get i = some (i * F, min F (h - i * F)) := by
      intro i hi
      rw [hsv] at hi ⊢
      exact get_split hh hF hi rfl
    refine ⟨F, hF, ?_, hget, hnone, ?_, ?_, ?_, ?_⟩
    · rw [hsv]; show divCeil h F = max 1 (divCeil h F); omega
    · intro i hi
      rw [hsv] at hi
      have : i + 1 < divCeil h F := hi
      have := start_lt hF this
      rw [Nat.succ_mul] at this
      omega
    · intro _ i hi
      rw [hsv] at hi
      have := start_lt hF hi
      omega
    · have : sv.fragments = (List.range sv.len).map
          (fun i => some (i * F, min F (h - i * F))) := by
        unfold SplitView.fragments
        apply List.map_congr_left
        intro i hi
        exact hget i (List.mem_range.mp hi)
      rw [this, List.flatMap_map]
      simp only [rowsOf]
      rw [cover_prefix, hsv]
      have := (divCeil_spec h F hF).1
      show List.range (min (divCeil h F * F) h) = List.range h
      congr 1
      omega
    · intro fh hfh
      rw [hsv] at hfh
      have : fh = F := by simpa using hfh.symm
      exact ⟨this, s, sh, k, hs, hsh, hk, hFk⟩

/-- **exactly one fragment** (the whole image, no fragment height) when the image is empty, the
format is not encodable or has no split height, global dithering applies, or the image is small —
and only then. -/
theorem single_fragment_iff (w h : Nat) (sup : Option Support) (dith : Dithering) (q : Quality)
    (hwf : ∀ s, sup = some s → s.WF) (hw : w < U32) (hh : h < U32) :
    (SplitView.new w h sup dith q).fragmentHeight = none ↔ NoSplit w h sup dith q := by
  have hU : U32 * U32 ≤ U64 := by simp [U32, U64]
  constructor
  · intro hnone
    cases hg : getFragmentHeight w h sup dith q with
    | some F => unfold SplitView.new at hnone; rw [hg] at hnone; simp at hnone
    | none =>
      unfold getFragmentHeight at hg
      by_cases he : w = 0 ∨ h = 0
      · cases he with
        | inl h1 => exact Or.inl h1
        | inr h1 => exact Or.inr (Or.inl h1)
      rw [if_neg he] at hg
      cases sup with
      | none => exact Or.inr (Or.inr (Or.inl rfl))
      | some s =>
        simp only at hg
        cases hsh : s.splitHeight with
        | none => exact Or.inr (Or.inr (Or.inr (Or.inl ⟨s, rfl, hsh⟩)))
        | some sh =>
          rw [hsh] at hg
          simp only at hg
          by_cases hd : ((!s.localDithering) && decide (dith.intersect s.dithering ≠ .none)) = true
          · refine Or.inr (Or.inr (Or.inr (Or.inr (Or.inl ⟨s, rfl, ?_⟩))))
            simpa using hd
          rw [if_neg hd] at hg
          by_cases hp : max (s.fragmentSize.getPreferred q) 1 ≥ w * h
          · exact Or.inr (Or.inr (Or.inr (Or.inr (Or.inr ⟨s, rfl, hp⟩))))
          rw [if_neg hp] at hg
          -- the remaining branch always returns `Some`: `u32::try_from` cannot fail
          exfalso
          have hle : (max (s.fragmentSize.getPreferred q) 1 / w) / sh * sh
              ≤ max (s.fragmentSize.getPreferred q) 1 :=
            Nat.le_trans (Nat.div_mul_le_self _ _) (Nat.div_le_self _ _)
          have hwh : w * h < U32 * U32 := by
            have h1 : w * h ≤ w * U32 := Nat.mul_le_mul_left w (by omega)
            have h2 : w * U32 < U32 * U32 := Nat.mul_lt_mul_of_pos_right hw (by simp [U32])
            omega
          have hlt : (max (s.fragmentSize.getPreferred q) 1 / w) / sh * sh < U64 := by omega
          rw [wMul_eq hlt] at hg
          have hwpos : 0 < w := by omega
          have h2 : max (s.fragmentSize.getPreferred q) 1 / w < h :=
            Nat.div_lt_of_lt_mul (by omega)
          have h3 : (max (s.fragmentSize.getPreferred q) 1 / w) / sh * sh
              ≤ max (s.fragmentSize.getPreferred q) 1 / w := Nat.div_mul_le_self _ _
          unfold tryU32 at hg
          rw [if_pos (by omega)] at hg
          simp at hg
  · intro hns
    cases hg : getFragmentHeight w h sup dith q with
    | none => unfold SplitView.new; rw [hg]
    | some F =>
      exfalso
      have sp := getFragmentHeight_some hwf hg
      obtain ⟨s, sh, hs, hsh, _, hd, hp, _⟩ := sp.ex
      have hwp := sp.w_pos
      have hhp := sp.h_pos
      rcases hns with h1 | h1 | h1 | ⟨s', h1, h2⟩ | ⟨s', h1, h2, h3⟩ | ⟨s', h1, h2⟩
      · omega
      · omega
      · rw [h1] at hs; simp at hs
      · rw [hs] at h1; cases h1; rw [hsh] at h2; simp at h2
      · rw [hs] at h1; cases h1
        cases hd with
        | inl hd => rw [hd] at h2; simp at h2
        | inr hd => exact h3 hd
      · rw [hs] at h1; cases h1; omega

/-- a view that is not split has exactly one fragment: the whole image -/
theorem single_fragment_whole (w h : Nat) (sup : Option Support) (dith : Dithering) (q : Quality)
    (hns : (SplitView.new w h sup dith q).fragmentHeight = none) :
    (SplitView.new w h sup dith q).len = 1 ∧
    (SplitView.new w h sup dith q).get 0 = some (0, h) ∧
    (SplitView.new w h sup dith q).single = some (0, h) := by
  cases hg : getFragmentHeight w h sup dith q with
  | some F => unfold SplitView.new at hns; rw [hg] at hns; simp at hns
  | none =>
    unfold SplitView.new; rw [hg]
    simp [SplitView.get, SplitView.single]

/-- **order_independent.**  Whatever the order `π` in which the `n` fragment jobs complete (any
permutation — any number of workers, any interleaving), the collected vector is the one of the
natural order: the results in index order. -/
theorem order_independent {α : Type} (n : Nat) (r : Nat → α) (π : List Nat)
    (hπ : π.Perm (List.range n)) :
    assemble n r π = assemble n r (List.range n) ∧
    assemble n r π = some ((List.range n).map r) := by
  have key : ∀ o : List Nat, o.Perm (List.range n) → assemble n r o = some ((List.range n).map r) := by
    intro o ho
    unfold assemble
    rw [collectSlots_eq n r o (fun j hj => (ho.mem_iff).mpr (List.mem_range.mpr hj))]
    have : (List.range n).map (fun j => some (r j)) = ((List.range n).map r).map some := by
      rw [List.map_map]; rfl
    rw [this]
    exact allSome_map_some _
  exact ⟨by rw [key π hπ, key _ (List.Perm.refl _)], key π hπ⟩

/-- consequently the bytes written out do not depend on the completion order -/
theorem written_bytes_order_independent {β : Type} (n : Nat) (r : Nat → List β) (π : List Nat)
    (hπ : π.Perm (List.range n)) :
    (assemble n r π).map writeOut = some (((List.range n).map r).flatten) := by
  rw [(order_independent n r π hπ).2]; rfl

/-- An encoder is *row-group local* for split height `sh` when its output is the concatenation of
the outputs of an encoder of single row groups (`sh` consecutive rows, the last group possibly
shorter), applied to the groups in order.  A hypothesis of `fragmentwise_eq_whole`; PROVED below for
the data-flow model of every encoder family that can be split (`row_group_local_uncompressed`,
`row_group_local_subsample`, `row_group_local_block`) and discharged for all formats in
`fragmentwise_eq_whole_all_families`. -/
def RowGroupLocal {ρ β : Type} (enc : List ρ → List β) (sh : Nat) : Prop :=
  ∃ encGroup : List ρ → List β, ∀ img, enc img = (chunks sh img).flatMap encGroup

/-- **fragmentwise_eq_whole.**  Encoding the fragments of the split view one by one and
concatenating the outputs gives the encoding of the whole image — for every image (list of rows)
whose height is the view's, provided the encoder is row-group local for the format's split height
(needed only when the view is actually split). -/
theorem fragmentwise_eq_whole {ρ β : Type} (enc : List ρ → List β)
    (w : Nat) (sup : Option Support) (dith : Dithering) (q : Quality) (img : List ρ)
    (hh : img.length < U32) (hwf : ∀ s, sup = some s → s.WF)
    (hloc : ∀ s sh, sup = some s → s.splitHeight = some sh → RowGroupLocal enc sh) :
    let sv := SplitView.new w img.length sup dith q
    ((List.range sv.len).map (fun i => enc (sv.fragmentRows img i))).flatten = enc img := by
  intro sv
  obtain ⟨F, hF, hlen, hget, _, _, _, _, hfh⟩ := fragments_tile w img.length sup dith q hh hwf
  cases hfr : sv.fragmentHeight with
  | none =>
    obtain ⟨h1, h2, _⟩ := single_fragment_whole w img.length sup dith q hfr
    have e1 : sv.len = 1 := h1
    have e2 : sv.get 0 = some (0, img.length) := h2
    rw [e1]
    simp [SplitView.fragmentRows, e2]
  | some fh =>
    obtain ⟨hfe, s, sh, k, hs, hsh, hk, hFk⟩ := hfh fh hfr
    obtain ⟨g, hg⟩ := hloc s sh hs hsh
    have hsh0 : 0 < sh := (hwf s hs sh hsh).1
    -- the fragments are the chunks of height F
    have hlen' : sv.len = divCeil img.length F := by
      have : sv = ⟨w, img.length, divCeil img.length fh, some fh⟩ := by
        show SplitView.new w img.length sup dith q = _
        unfold SplitView.new
        cases hgf : getFragmentHeight w img.length sup dith q with
        | none =>
          have : sv.fragmentHeight = none := by
            show (SplitView.new w img.length sup dith q).fragmentHeight = none
            unfold SplitView.new; rw [hgf]
          rw [this] at hfr; simp at hfr
        | some f2 =>
          have : sv.fragmentHeight = some f2 := by
            show (SplitView.new w img.length sup dith q).fragmentHeight = some f2
            unfold SplitView.new; rw [hgf]
          rw [this] at hfr
          have : f2 = fh := by simpa using hfr
          subst this; rfl
      rw [this, hfe]
    have hfrag : (List.range sv.len).map (fun i => enc (sv.fragmentRows img i)) =
        (chunks F img).map enc := by
      rw [chunks_eq_map hF, List.map_map, ← hlen']
      apply List.map_congr_left
      intro i hi
      have hi' := List.mem_range.mp hi
      have hgi : sv.get i = some (i * F, min F (img.length - i * F)) := hget i hi'
      simp only [Function.comp, SplitView.fragmentRows]
      rw [hgi]
      simp only
      congr 1
      by_cases hc : F ≤ img.length - i * F
      · rw [Nat.min_eq_left hc]
      · rw [Nat.min_eq_right (by omega)]
        rw [List.take_of_length_le (by rw [List.length_drop]; omega)]
        rw [List.take_of_length_le (by rw [List.length_drop]; omega)]
    rw [hfrag, ← List.flatMap_def]
    have : (chunks F img).flatMap enc = (chunks F img).flatMap (fun fr => (chunks sh fr).flatMap g) := by
      congr 1
      funext fr
      exact hg fr
    rw [this, ← List.flatMap_assoc, hFk, chunks_flatMap hsh0 hk, hg img]


/-! ## the encoder families are row-group local (data-flow model `EncRows.lean`)

From here on `RowGroupLocal` is a THEOREM about the data-flow model of every encoder family, for
ARBITRARY per-unit functions (one pixel, one block of a row, one block of a row group). -/

open EncRows

/-- **row_group_local_uncompressed.**  `for_each_chunk` (`uncompressed_universal`,
`uncompressed_untyped`, `copy_directly`), whatever the path (contiguous chunks, row-wise
fill/flush, direct write) and the buffer size: (1) the bytes are the per-pixel encodings in
row-major order — chunk boundaries do not matter; (2) row-group local for every group height;
(3) for EVERY fragmentation of the rows into consecutive fragments (each possibly taking another
path / buffer size than the whole image) fragment-wise = whole.  `encPx` arbitrary. -/
theorem row_group_local_uncompressed {α β : Type} (encPx : α → List β) (p : Path) (bufPx : Nat)
    (hb : 0 < bufPx) :
    (∀ img, encUncompressed p encPx bufPx img = img.flatMap (fun row => row.flatMap encPx)) ∧
    (∀ sh, 0 < sh → RowGroupLocal (encUncompressed p encPx bufPx) sh) ∧
    (∀ (p' : Path) (bufPx' : Nat), 0 < bufPx' → ∀ frags : List (List (List α)),
      (frags.map (encUncompressed p' encPx bufPx')).flatten =
        encUncompressed p encPx bufPx frags.flatten) := by
  refine ⟨fun img => encUncompressed_eq p encPx hb img, ?_, ?_⟩
  · intro sh hsh
    refine ⟨fun g => g.flatMap (encPixels encPx), fun img => ?_⟩
    rw [encUncompressed_eq p encPx hb, chunks_flatMap_flatMap hsh]
  · intro p' bufPx' hb' frags
    have : frags.map (encUncompressed p' encPx bufPx') =
        frags.map (fun f => f.flatMap (encPixels encPx)) :=
      List.map_congr_left (fun f _ => encUncompressed_eq p' encPx hb' f)
    rw [this, encUncompressed_eq p encPx hb, map_flatMap_flatten]

/-- **row_group_local_subsample.**  `uncompressed_universal_subsample` with a per-block function
that ignores the row index (`universal_subsample!`: the 2x1 formats and R1_UNORM without
dithering): (1) when the chunk size is a multiple of the block width (`BUFFER_PIXELS / bw * bw`) a
row's output is `f` over its blocks of `bw` pixels, the last one padded by repeating the row's last
pixel — independent of the chunking; (2) row-group local for every group height; (3) fragment-wise
= whole for EVERY fragmentation of the rows.  `f` arbitrary; (2), (3) need nothing about `bw`,
`chunkPx`. -/
theorem row_group_local_subsample {α β : Type} (bw chunkPx : Nat) (f : List α → List β) :
    (0 < bw → 0 < chunkPx → bw ∣ chunkPx → ∀ img,
      encSubsample bw chunkPx (fun _ => f) img =
        img.flatMap (fun row => (rowBlocks bw row).flatMap f)) ∧
    (∀ sh, 0 < sh → RowGroupLocal (encSubsample bw chunkPx (fun _ => f)) sh) ∧
    (∀ frags : List (List (List α)),
      (frags.map (encSubsample bw chunkPx (fun _ => f))).flatten =
        encSubsample bw chunkPx (fun _ => f) frags.flatten) := by
  have hrow : ∀ img, encSubsample bw chunkPx (fun _ => f) img =
      img.flatMap (subsampleRow bw chunkPx f) :=
    fun img => encSubsampleFrom_const bw chunkPx f img 0
  refine ⟨?_, ?_, ?_⟩
  · intro hbw hc hd img
    rw [hrow]
    congr 1
    funext row
    exact subsampleRow_eq hbw hc hd f row
  · intro sh hsh
    refine ⟨fun g => g.flatMap (subsampleRow bw chunkPx f), fun img => ?_⟩
    rw [hrow, chunks_flatMap_flatMap hsh]
  · intro frags
    have : frags.map (encSubsample bw chunkPx (fun _ => f)) =
        frags.map (fun fr => fr.flatMap (subsampleRow bw chunkPx f)) :=
      List.map_congr_left (fun fr _ => hrow fr)
    rw [this, hrow, map_flatMap_flatten]

/-- **the Bayer variant** (`universal_subsample_dither!`, R1_UNORM with colour dithering): the
per-block function receives `y_index` of `image.rows().enumerate()` — the row index WITHIN THE
IMAGE HANDED TO THE ENCODER, i.e. fragment-relative — and uses `BAYER_8X8[block_y % 8]`.  What
fragment-wise = whole needs here is exactly: the dependence on `y` is periodic with a period `P`
that divides the height of every fragment but the last.  A split height of 1 does not give that
(example below); the encoder is therefore sound only because it is never split
(`fragmentwise_eq_whole_all_families`, case `bayer`). -/
theorem subsample_rowindex_fragmentwise {α β : Type} (bw chunkPx P : Nat)
    (f : Nat → List α → List β) (hper : ∀ y, f (y + P) = f y) :
    ∀ frags : List (List (List α)), (∀ fr ∈ frags.dropLast, P ∣ fr.length) →
      (frags.map (encSubsample bw chunkPx f)).flatten = encSubsample bw chunkPx f frags.flatten :=
  fragments_of_periodic (fun y l => encSubsampleFrom bw chunkPx f y l) (fun _ => rfl)
    (fun y a b => encSubsampleFrom_append bw chunkPx f a b y)
    (fun y l => encSubsampleFrom_periodic bw chunkPx f hper l y)

/-- **row_group_local_block.**  `block_universal` over `for_each_f32_rgba_rows`: (1) the buffers
handed to the closure are the chunks of `bh` rows, only a short LAST chunk being padded — with
copies of ITS first row; (2) full groups are not padded; (3) row-group local for every multiple of
`bh`; (4) for every fragmentation in which all fragments but the last have a height that is a
multiple of `bh`, fragment-wise = whole: the only padded group is the last group of the last
fragment, it consists of the same rows in both runs.  `encBlock` (which receives the slice of the
group buffer starting at the block, and the pitch — or the padded copy of a partial block) is
arbitrary, as are `w` and `bw` (partial blocks at the right edge, `w = 0`). -/
theorem row_group_local_block {α β : Type} (bw bh w : Nat) (encBlock : List α → Nat → List β)
    (hbh : 0 < bh) :
    (∀ img : List (List α), rowGroupBuffers bh img = (chunks bh img).map (padRows bh)) ∧
    (∀ g : List (List α), bh ≤ g.length → padRows bh g = g) ∧
    (∀ k, 0 < k → RowGroupLocal (encBlocks bw bh w encBlock) (k * bh)) ∧
    (∀ frags : List (List (List α)), (∀ fr ∈ frags.dropLast, bh ∣ fr.length) →
      (frags.map (encBlocks bw bh w encBlock)).flatten =
        encBlocks bw bh w encBlock frags.flatten) :=
  ⟨rowGroupBuffers_eq hbh, fun _ h => padRows_of_length_ge h,
   fun _ hk => ⟨_, encBlocks_eq_mul hbh hk encBlock⟩,
   fragments_of_groupLocal hbh _ _ (encBlocks_eq hbh encBlock)⟩

/-- **what the per-block function sees.**  When `encode_block` reads the slice it is handed the way
every BCn encoder does (`get_4x4_*`: `block[i * 4 + j] = data[i * row_pitch + j]`, `blockAt`), the
bytes of an image (rows of `w` pixels) are: for every chunk of `bh` rows (a short last chunk
completed with copies of its first row), for every block column left to right, the per-block
function `g` of the `bw × bh` pixels of that block — a block cut by the right edge being completed
by repeating the last pixel of each of its rows.  `g` arbitrary: a block's bytes depend on that
block's pixels only, whatever the fragmentation. -/
theorem block_encoder_sees_blocks {α β : Type} (bw bh w : Nat) (hbw : 0 < bw) (hbh : 0 < bh)
    (g : List α → List β) (img : List (List α)) (hu : ∀ r ∈ img, r.length = w) :
    encBlocks bw bh w (fun data pitch => g (blockAt bw bh data pitch)) img =
      (chunks bh img).flatMap (fun grp => (groupBlocks bw w (padRows bh grp)).flatMap g) :=
  encBlocks_blockAt hbw hbh g img hu

/-- **the same loops as C10.**  The sizes of the successive writes of the data-flow model are the
ones of the length model `EncLen.lean`, whose totals are tied to the library by C10: contiguous
path, row-wise path (both for encoded pixels of `encBpp` bytes and rows of `w` pixels), and the
number of row-group buffers of `for_each_f32_rgba_rows`. -/
theorem write_sizes_match_c10 {α β : Type} (encPx : α → List β) (encBpp bufPx w : Nat)
    (hl : ∀ x, (encPx x).length = encBpp) (hb : 0 < bufPx) (img : List (List α))
    (hu : ∀ r ∈ img, r.length = w) :
    (contigWrites encPx bufPx img).map List.length = chunksContig (w * img.length) bufPx encBpp ∧
    (rowsWrites encPx bufPx img).map List.length = chunksRows w img.length bufPx encBpp ∧
    (∀ bh, (rowGroupBuffers bh img).length = rowGroups img.length bh) := by
  refine ⟨?_, ?_, fun bh => rowGroupBuffers_length bh img⟩
  · rw [contigWrites_lengths encPx hl hb, flatten_length_uniform img hu]
  · exact rowsWritesAux_lengths encPx hl hb img 0 [] hu (by simp) (by omega)

/-- **not split ⇒ nothing to prove about the encoder**: a view without fragment height has one
fragment, the image; fragment-wise = whole for ANY function `enc`, local or not. -/
theorem fragmentwise_eq_whole_unsplit {ρ β : Type} (enc : List ρ → List β)
    (w : Nat) (sup : Option Support) (dith : Dithering) (q : Quality) (img : List ρ)
    (hns : (SplitView.new w img.length sup dith q).fragmentHeight = none) :
    let sv := SplitView.new w img.length sup dith q
    ((List.range sv.len).map (fun i => enc (sv.fragmentRows img i))).flatten = enc img := by
  intro sv
  obtain ⟨h1, h2, _⟩ := single_fragment_whole w img.length sup dith q hns
  have e1 : sv.len = 1 := h1
  have e2 : sv.get 0 = some (0, img.length) := h2
  rw [e1]
  simp [SplitView.fragmentRows, e2]

/-- **the families that are NOT row-group local are never split**: (d) a format without split
height (`EncoderSet::new_bi_planar`: plane 2 is written after the last row pair) and (e) a format
whose dithering is global (error diffusion carried from row to row; the Bayer row index) when the
requested dithering meets the supported one — for every size and quality.  These are two of the
disjuncts of `single_fragment_iff`. -/
theorem stateful_families_unsplit (w h : Nat) (s : Support) (dith : Dithering) (q : Quality) :
    (s.splitHeight = none → (SplitView.new w h (some s) dith q).fragmentHeight = none) ∧
    (s.localDithering = false → dith.intersect s.dithering ≠ .none →
      (SplitView.new w h (some s) dith q).fragmentHeight = none) ∧
    ((s.splitHeight = none ∨ (s.localDithering = false ∧ dith.intersect s.dithering ≠ .none)) →
      NoSplit w h (some s) dith q) :=
  ⟨fragmentHeight_none_of_no_split_height w h s dith q,
   fragmentHeight_none_of_global_dithering w h s dith q,
   fun h => h.elim (fun h1 => Or.inr (Or.inr (Or.inr (Or.inl ⟨s, rfl, h1⟩))))
     (fun h2 => Or.inr (Or.inr (Or.inr (Or.inr (Or.inl ⟨s, rfl, h2.1, h2.2⟩)))))⟩

/-- **the pinned tables** (all 73 formats × 12 input colours × 4 dithering options, complete
evaluation): the encoder table of C19 and the support table of `Split.lean` agree on dithering /
split height / local dithering; the advertised split height is a `NonZeroU8` multiple of the block
height of the format's layout (1 for the uncompressed and 2x1 / 8x1 formats, 4 for BCn) and absent
exactly for the bi-planar formats; `pick_encoder` always finds an encoder, and it picks a body with
state across rows (Floyd–Steinberg) or reading the row index (Bayer) only when global dithering
applies, i.e. when `get_fragment_height` refuses to split. -/
theorem family_table : ∀ (f : C19.Format) (c : C19.ColorFormat) (d : C19.Dithering),
    familyCheck f c d = true := by
  have h : ∀ f : C19.Format,
      (C19.ColorFormat.all.all fun c => C19.Dithering.all.all fun d => familyCheck f c d) = true :=
    C19.forall_format (by decide +kernel)
  intro f c d
  have h1 := List.all_eq_true.mp (h f) c (C19.ColorFormat.mem_all c)
  exact List.all_eq_true.mp h1 d (C19.Dithering.mem_all d)

/-- **fragmentwise_eq_whole_all_families.**  `fragmentwise_eq_whole` without the `RowGroupLocal`
assumption: for every encodable format `f`, input colour `c`, dithering option `d`, quality, width
and image, if `enc` is an instance (with ARBITRARY per-unit functions) of the data-flow family of
the encoder `pick_encoder` selects for `(f, c, d)` (`Runs`), then encoding the fragments of
`SplitView::new(image, f, options)` one by one and concatenating equals encoding the whole image.
Families (a), (b), (c) because they are row-group local for the advertised split height; (b) with
row index, (d), (e) because the view is never split. -/
theorem fragmentwise_eq_whole_all_families {α β : Type}
    (f : C19.Format) (c : C19.ColorFormat) (d : C19.Dithering) (q : Quality) (w : Nat)
    (s : C19.EncSet) (i : Nat) (e : C19.Enc) (sup : Support)
    (hf : C19.encoderSet f = some s) (hpick : s.pick c d = some i) (he : s.encs[i]? = some e)
    (hsup : supportOf f.name = some (some sup))
    (enc : List (List α) → List β) (hruns : Runs w s.ctor e.kind f.row.px enc)
    (img : List (List α)) (hh : img.length < U32) :
    let sv := SplitView.new w img.length (some sup) (ditheringOf d) q
    ((List.range sv.len).map (fun i => enc (sv.fragmentRows img i))).flatten = enc img := by
  have h := family_table f c d
  unfold familyCheck at h
  rw [hf] at h
  simp only [hsup, hpick, he, Bool.and_eq_true] at h
  obtain ⟨⟨_, hsplit⟩, hkind⟩ := h
  have hwf : ∀ s', some sup = some s' → s'.WF := by
    intro s' hs'; cases hs'; exact splitOk_wf hsplit
  generalize s.ctor = ctor at hruns hsplit hkind
  generalize e.kind = kind at hruns hkind
  generalize f.row.px = px at hruns hsplit
  cases hruns with
  | uncompressed bpp p encPx bufPx hb =>
    exact fragmentwise_eq_whole _ w (some sup) _ q img hh hwf
      (fun s' sh hs' hsh => (row_group_local_uncompressed encPx p bufPx hb).2.1 sh
        (hwf s' hs' sh hsh).1)
  | subsample bytes bw chunkPx g =>
    exact fragmentwise_eq_whole _ w (some sup) _ q img hh hwf
      (fun s' sh hs' hsh => (row_group_local_subsample bw chunkPx g).2.1 sh (hwf s' hs' sh hsh).1)
  | bayer bytes bw chunkPx g =>
    obtain ⟨hl, hd⟩ := kindOk_stateful (Or.inr rfl) hkind
    exact fragmentwise_eq_whole_unsplit _ w (some sup) _ q img
      ((stateful_families_unsplit w img.length sup _ q).2.1 hl hd)
  | fsDither bpp σ step s0 =>
    obtain ⟨hl, hd⟩ := kindOk_stateful (Or.inl rfl) hkind
    exact fragmentwise_eq_whole_unsplit _ w (some sup) _ q img
      ((stateful_families_unsplit w img.length sup _ q).2.1 hl hd)
  | block bytes bw bh wiring encBlock =>
    refine fragmentwise_eq_whole _ w (some sup) _ q img hh hwf ?_
    intro s' sh hs' hsh
    cases hs'
    obtain ⟨hbh, k, hk, hshk⟩ := splitOk_bc hsplit sh hsh
    rw [hshk]
    exact (row_group_local_block bw bh w encBlock hbh).2.2.1 k hk
  | biPlanar p1 p2 sx sy kind encPair =>
    exact fragmentwise_eq_whole_unsplit _ w (some sup) _ q img
      ((stateful_families_unsplit w img.length sup _ q).1 (splitOk_biPlanar hsplit))

/-! ### non-vacuity -/

/-- a BC1 image that is split: 64 x 200 at Fast quality gives 4 fragments 64,64,64,8 -/
example : (SplitView.new 64 200 (some (supBc .colorAndAlpha bc1Frag)) .none .fast).fragments =
    [some (0, 64), some (64, 64), some (128, 64), some (192, 8)] := by decide

/-- wider than a fragment: the fragment height falls back to the split height -/
example : (SplitView.new 5000 10 (some (supBc .colorAndAlpha bc1Frag)) .none .fast).fragments =
    [some (0, 4), some (4, 4), some (8, 2)] := by decide

/-- `NoSplit` is satisfiable in each disjunct and refutable -/
example : NoSplit 16 16 (some (supBc .colorAndAlpha bc7Frag)) .none .fast :=
  Or.inr (Or.inr (Or.inr (Or.inr (Or.inr ⟨_, rfl, by decide⟩))))
example : NoSplit 100 100 (some (⟨.color, some 1, false, bc7Frag⟩)) .color .fast :=
  Or.inr (Or.inr (Or.inr (Or.inr (Or.inl ⟨_, rfl, rfl, by decide⟩))))
example : (SplitView.new 100 100 (some (supBc .colorAndAlpha bc7Frag)) .color .fast).fragmentHeight
    = some 0 → False := by decide
example : (supBc .colorAndAlpha bc1Frag).WF := by
  intro sh h; simp [supBc] at h; subst h; simp [U8]

/-- a permutation that is not the identity -/
example : [2, 0, 1].Perm (List.range 3) := by decide

/-- the identity encoder is row-group local for every split height > 0 -/
example : RowGroupLocal (fun (img : List Nat) => img) 4 :=
  ⟨fun g => g, fun img => (chunks_flatten (by omega) img).symm⟩

/-! ### non-vacuity and edge cases of the family theorems -/

/-- a block function that shows what it is given: the `bw × bh` pixels at the start of the slice -/
abbrev showBlock (bw bh : Nat) (data : List Nat) (pitch : Nat) : List Nat := blockAt bw bh data pitch

/-- 3 x 3 image, 2 x 2 blocks: `h` not a multiple of `bh` (the last group is the last row followed
by a copy of itself), `w` not a multiple of `bw` (partial blocks repeat the last pixel of each row) -/
example : encBlocks 2 2 3 (showBlock 2 2) [[1, 2, 3], [4, 5, 6], [7, 8, 9]] =
    [1, 2, 4, 5,  3, 3, 6, 6,   7, 8, 7, 8,  9, 9, 9, 9] := by decide

/-- the same image as fragments of 2 + 1 rows (heights: multiple of `bh`, then the rest) -/
example : ([[[1, 2, 3], [4, 5, 6]], [[7, 8, 9]]].map (encBlocks 2 2 3 (showBlock 2 2))).flatten =
    encBlocks 2 2 3 (showBlock 2 2) [[1, 2, 3], [4, 5, 6], [7, 8, 9]] := by decide

/-- the hypothesis on the fragment heights is needed: fragments of 1 + 2 rows differ -/
example : ([[[1, 2, 3]], [[4, 5, 6], [7, 8, 9]]].map (encBlocks 2 2 3 (showBlock 2 2))).flatten ≠
    encBlocks 2 2 3 (showBlock 2 2) [[1, 2, 3], [4, 5, 6], [7, 8, 9]] := by decide

/-- empty image, and an image of width 0: no bytes -/
example : encBlocks 4 4 7 (showBlock 4 4) [] = [] := by decide
example : encBlocks 4 4 0 (showBlock 4 4) [[], [], []] = [] := by decide
example : encUncompressed .rowWise (fun x : Nat => [x]) 3 [] = [] := by decide

/-- the row-wise path with a buffer of 3 pixels over rows of 2 pixels (flushes cross the rows) -/
example : rowsWrites (fun x : Nat => [x]) 3 [[1, 2], [3, 4], [5, 6], [7, 8]] =
    [[1, 2, 3], [4, 5, 6], [7, 8]] := by decide

/-- 8x1 blocks, a row of 3 pixels: one block, padded with the last pixel -/
example : processSubsample 8 (fun b : List Nat => [b.sum]) [1, 2, 3] = [1 + 2 + 3 * 6] := by
  simp [processSubsample, chunks]

/-- the Bayer row index `block_y % 8` is periodic with period 8: fragments of 8k rows would do -/
example (g : Nat → List Nat → List Nat) : ∀ y, (fun y => g (y % 8)) (y + 8) = (fun y => g (y % 8)) y := by
  intro y; simp

/-- (b) with the row index is NOT fragment-wise for a split height of 1 … -/
example : ([[[0]], [[0]]].map (encSubsampleFrom 1 1 (fun y (_ : List Nat) => [y]) 0)).flatten ≠
    encSubsampleFrom 1 1 (fun y (_ : List Nat) => [y]) 0 [[0], [0]] := by
  simp [encSubsampleFrom, subsampleRow, chunks, processSubsample]

/-- … (d) bi-planar is not: plane 2 comes after ALL of plane 1 … -/
example : ([[[0], [0]], [[0], [0]]].map (encBiPlanar (fun (_ : List (List Nat)) => ([1], [2])))).flatten
    ≠ encBiPlanar (fun _ => ([1], [2])) [[0], [0], [0], [0]] := by decide

/-- … (e) nor is a state carried from row to row -/
example : ([[[0]], [[0]]].map (encDither (fun (s : Nat) (_ : List Nat) => ([s], s + 1)) 0)).flatten ≠
    encDither (fun (s : Nat) (_ : List Nat) => ([s], s + 1)) 0 [[0], [0]] := by decide

/-- the hypotheses of `fragmentwise_eq_whole_all_families` are satisfiable: BC1 from RGBA u8 without
dithering (family (c), blocks 4 x 4), R1_UNORM with colour dithering (Bayer, never split), NV12 -/
example : C19.encoderSet .BC1_UNORM = some ⟨.bc, [.bcCA C19.wJoint]⟩ ∧
    (⟨.bc, [.bcCA C19.wJoint]⟩ : C19.EncSet).pick C19.rgbaU8 C19.Dithering.none = some 0 ∧
    supportOf C19.Format.BC1_UNORM.name = some (some (supBc .colorAndAlpha bc1Frag)) ∧
    Runs 7 .bc (C19.Enc.bcCA C19.wJoint).kind C19.Format.BC1_UNORM.row.px
      (encBlocks 4 4 7 (showBlock 4 4)) :=
  ⟨rfl, by decide, by decide, Runs.block 8 4 4 C19.wJoint _⟩
example : (⟨.plain, [.universal, ⟨.all, ⟨none, true, false⟩, .bayer⟩]⟩ : C19.EncSet).pick
      C19.rgbaU8 ⟨true, false⟩ = some 1 ∧
    Runs (β := Nat) 9 .plain .bayer C19.Format.R1_UNORM.row.px
      (encSubsample 8 512 (fun y (b : List Nat) => [y % 8 + b.sum])) :=
  ⟨by decide, Runs.bayer 1 8 512 _⟩
example : Runs (β := Nat) 4 .biPlanar .plain C19.Format.NV12.row.px
    (encBiPlanar (fun (_ : List (List Nat)) => ([1], [2]))) := Runs.biPlanar 1 2 2 2 _ _

end Dds.C14
