/-
C03 (BC1–BC5 part) — blocks decode to the values the format specification defines.

Only property theorems and non-vacuity examples live here; helper lemmas are in `Proofs/BcFinite.lean`
(finite domains, `decide +kernel`), `Proofs/Bc.lean`, `Proofs/BcPixels.lean` (generic) and, for the `f32`
computation of BC3n, `Proofs/F32Fast.lean`, `F32Raw.lean`, `Bc3nCalc.lean`, `Bc3nRows0…7.lean`, `Bc3nAll.lean`,
`Bc3nBlock.lean`.  All statements are
about the implementation-shaped model `Bc.lean` (tied to the code by the correspondence check) and the
specification-shaped model `BcSpec.lean`, for EVERY block `blk : Nat → Nat` of bytes.  BC6H/BC7: C03x.
-/
import DdsModel.Proofs.BcPixels
import DdsModel.Proofs.Bc3nBlock
import DdsModel.Drv.C03
namespace Dds.C03
open Dds Dds.Bc

/-- a block is a sequence of bytes -/
def IsBlock (blk : Nat → Nat) : Prop := ∀ i, blk i < 256

/-! ### implementation model = specification, every block, U8 / U16 / F32 -/

/-- BC1: all 16 pixels, all three precisions. -/
theorem bc1_impl_eq_spec (pr : Prec) (blk : Nat → Nat) (hb : IsBlock blk) :
    Bc.decodeBlock .bc1 pr blk = BcSpec.decodeBlock .bc1 pr blk :=
  decodeBlock_eq .bc1 (by decide) pr blk hb

/-- BC2 (RGBA and RGB decoders): always-four-colour palette + explicit 4-bit alpha ×17. -/
theorem bc2_impl_eq_spec (pr : Prec) (blk : Nat → Nat) (hb : IsBlock blk) :
    Bc.decodeBlock .bc2 pr blk = BcSpec.decodeBlock .bc2 pr blk ∧
    Bc.decodeBlock .bc2rgb pr blk = BcSpec.decodeBlock .bc2rgb pr blk :=
  ⟨decodeBlock_eq .bc2 (by decide) pr blk hb, decodeBlock_eq .bc2rgb (by decide) pr blk hb⟩

/-- BC3 (RGBA and RGB decoders): always-four-colour palette + BC4-style alpha at 8 bit. -/
theorem bc3_impl_eq_spec (pr : Prec) (blk : Nat → Nat) (hb : IsBlock blk) :
    Bc.decodeBlock .bc3 pr blk = BcSpec.decodeBlock .bc3 pr blk ∧
    Bc.decodeBlock .bc3rgb pr blk = BcSpec.decodeBlock .bc3rgb pr blk :=
  ⟨decodeBlock_eq .bc3 (by decide) pr blk hb, decodeBlock_eq .bc3rgb (by decide) pr blk hb⟩

/-- BC4 UNORM: nearest `u8` / `u16` / binary32 of the exact interpolant, per precision. -/
theorem bc4u_impl_eq_spec (pr : Prec) (blk : Nat → Nat) (hb : IsBlock blk) :
    Bc.decodeBlock .bc4u pr blk = BcSpec.decodeBlock .bc4u pr blk :=
  decodeBlock_eq .bc4u (by decide) pr blk hb

/-- BC4 SNORM (`-128` treated as `-127`, mode by the raw signed bytes, values shown as `(v+1)/2`). -/
theorem bc4s_impl_eq_spec (pr : Prec) (blk : Nat → Nat) (hb : IsBlock blk) :
    Bc.decodeBlock .bc4s pr blk = BcSpec.decodeBlock .bc4s pr blk :=
  decodeBlock_eq .bc4s (by decide) pr blk hb

/-- BC5 UNORM: two BC4 blocks, third channel 0. -/
theorem bc5u_impl_eq_spec (pr : Prec) (blk : Nat → Nat) (hb : IsBlock blk) :
    Bc.decodeBlock .bc5u pr blk = BcSpec.decodeBlock .bc5u pr blk :=
  decodeBlock_eq .bc5u (by decide) pr blk hb

/-- BC5 SNORM: two BC4 SNORM blocks, third channel = SNORM 0 (shown as 1/2). -/
theorem bc5s_impl_eq_spec (pr : Prec) (blk : Nat → Nat) (hb : IsBlock blk) :
    Bc.decodeBlock .bc5s pr blk = BcSpec.decodeBlock .bc5s pr blk :=
  decodeBlock_eq .bc5s (by decide) pr blk hb

/-! ### mode selection -/

/-- BC1 selects the mode by the endpoint order: a pixel is transparent (alpha 0, and then black)
exactly when `color0 ≤ color1` and its index is 3; otherwise alpha is 255. -/
theorem bc1_mode_selection (blk : Nat → Nat) (hb : IsBlock blk) (p : Nat) (hp : p < 16) :
    ((Bc.bc1Px blk p).2.2.2 = 0 ↔
      (BcSpec.leWord blk 0 2 ≤ BcSpec.leWord blk 2 2 ∧ BcSpec.leWord blk 4 4 / 4 ^ p % 4 = 3)) ∧
    ((Bc.bc1Px blk p).2.2.2 = 0 → Bc.bc1Px blk p = (0, 0, 0, 0)) ∧
    ((Bc.bc1Px blk p).2.2.2 ≠ 0 → (Bc.bc1Px blk p).2.2.2 = 255) := by
  rw [bc1Px_eq blk hb p hp]
  simp only [BcSpec.colorPx, BcSpec.fourMode, Nat.zero_add, Bool.not_true, Bool.false_or]
  have hk : BcSpec.leWord blk 4 4 / 4 ^ p % 4 < 4 := Nat.mod_lt _ (by decide)
  generalize BcSpec.leWord blk 4 4 / 4 ^ p % 4 = k at hk
  by_cases hgt : BcSpec.leWord blk 0 2 > BcSpec.leWord blk 2 2
  · have hle : ¬ BcSpec.leWord blk 0 2 ≤ BcSpec.leWord blk 2 2 := by omega
    simp [hgt, hle]
  · have hle : BcSpec.leWord blk 0 2 ≤ BcSpec.leWord blk 2 2 := by omega
    by_cases h3 : k = 3
    · subst h3; simp [hgt, hle, BcSpec.chan8, BcSpec.colorEntry]
    · have : (k == 3) = false := by simp [h3]
      simp [hgt, hle, h3, this]

/-- BC2/BC3 colour blocks are ALWAYS decoded with the four-colour palette: the colour pixel is the
specification's four-colour entry whatever the order of the endpoints, and is never transparent.
(The repaired `bc3_u8_rgba`; a model of the pre-repair code does not satisfy this.) -/
theorem bc23_always_four_colour (blk : Nat → Nat) (hb : IsBlock blk) (p : Nat) (hp : p < 16) :
    let c0 := BcSpec.leWord blk 0 2
    let c1 := BcSpec.leWord blk 2 2
    let k := BcSpec.leWord blk 4 4 / 4 ^ p % 4
    Bc.bc1NoDefaultPx blk p =
      (BcSpec.chan8 true k (c0 / 2048) (c1 / 2048) 31, BcSpec.chan8 true k (c0 / 32 % 64) (c1 / 32 % 64) 63,
       BcSpec.chan8 true k (c0 % 32) (c1 % 32) 31, 255) := by
  rw [bc1NoDefaultPx_eq blk hb p hp]
  simp [BcSpec.colorPx, BcSpec.fourMode]

/-- BC4/BC5 select six interpolants iff `red0 > red1` (SNORM: as signed bytes); in the other mode the
codes 6 and 7 are the constants 0 and 1. -/
theorem bc4_mode_selection (six : Bool) (e0 e1 m : Nat) :
    (six = false → BcSpec.bc4Entry six 6 e0 e1 m = 0 ∧ BcSpec.bc4Entry six 7 e0 e1 m = 1) ∧
    (six = true → BcSpec.bc4Entry six 6 e0 e1 m = BcSpec.interp 2 5 e0 e1 m ∧
                  BcSpec.bc4Entry six 7 e0 e1 m = BcSpec.interp 1 6 e0 e1 m) := by
  constructor <;> intro h <;> subst h <;> simp [BcSpec.bc4Entry]

/-! ### "nearest" without reference to `rnd` (pure integers; exact ties may go either way) -/

/-- `2·|v·d − M·n| ≤ d`: `v` is a nearest integer to `M·n/d` -/
def Nearest (v n d M : Nat) : Prop := 2 * (v * d - M * n) ≤ d ∧ 2 * (M * n - v * d) ≤ d

instance (v n d M : Nat) : Decidable (Nearest v n d M) := by unfold Nearest; infer_instance

/-- Every multiply-add constant of the 8- and 16-bit paths yields a nearest value of the exact
interpolation, on the whole domain of interpolation numerators. -/
theorem interpolants_nearest :
    (∀ n, n ≤ 31 → Nearest (n5n8 n) n 31 255) ∧ (∀ n, n ≤ 63 → Nearest (n6n8 n) n 63 255) ∧
    (∀ a b, a ≤ 31 → b ≤ 31 → Nearest (third5 a b) (2 * a + b) 93 255 ∧ Nearest (mid5 a b) (a + b) 62 255) ∧
    (∀ a b, a ≤ 63 → b ≤ 63 → Nearest (third6 a b) (2 * a + b) 189 255 ∧ Nearest (mid6 a b) (a + b) 126 255) ∧
    (∀ n, n ≤ 1785 → Nearest ((bc4uOps .u8).interp6 n) n 1785 255 ∧ Nearest ((bc4uOps .u16).interp6 n) n 1785 65535) ∧
    (∀ n, n ≤ 1275 → Nearest ((bc4uOps .u8).interp4 n) n 1275 255 ∧ Nearest ((bc4uOps .u16).interp4 n) n 1275 65535) ∧
    (∀ n, n ≤ 1778 → Nearest ((bc4sOps .u8).interp6 n) n 1778 255 ∧ Nearest ((bc4sOps .u16).interp6 n) n 1778 65535) ∧
    (∀ n, n ≤ 1270 → Nearest ((bc4sOps .u8).interp4 n) n 1270 255 ∧ Nearest ((bc4sOps .u16).interp4 n) n 1270 65535) := by
  refine ⟨?_, ?_, ?_, ?_, ?_, ?_, ?_, ?_⟩
  · exact fun n hn => of_decide_eq_true (allUpTo (fun n => decide (Nearest (n5n8 n) n 31 255)) 31 (by decide +kernel) n hn)
  · exact fun n hn => of_decide_eq_true (allUpTo (fun n => decide (Nearest (n6n8 n) n 63 255)) 63 (by decide +kernel) n hn)
  · intro a b ha hb
    have h := allUpTo (fun a => (List.range 32).all fun b =>
      decide (Nearest (third5 a b) (2 * a + b) 93 255 ∧ Nearest (mid5 a b) (a + b) 62 255)) 31 (by decide +kernel) a ha
    exact of_decide_eq_true (List.all_eq_true.mp h b (List.mem_range.mpr (by omega)))
  · intro a b ha hb
    have h := allUpTo (fun a => (List.range 64).all fun b =>
      decide (Nearest (third6 a b) (2 * a + b) 189 255 ∧ Nearest (mid6 a b) (a + b) 126 255)) 63 (by decide +kernel) a ha
    exact of_decide_eq_true (List.all_eq_true.mp h b (List.mem_range.mpr (by omega)))
  · exact fun n hn => of_decide_eq_true (allUpTo (fun n => decide (Nearest ((bc4uOps .u8).interp6 n) n 1785 255 ∧
      Nearest ((bc4uOps .u16).interp6 n) n 1785 65535)) 1785 (by decide +kernel) n hn)
  · exact fun n hn => of_decide_eq_true (allUpTo (fun n => decide (Nearest ((bc4uOps .u8).interp4 n) n 1275 255 ∧
      Nearest ((bc4uOps .u16).interp4 n) n 1275 65535)) 1275 (by decide +kernel) n hn)
  · exact fun n hn => of_decide_eq_true (allUpTo (fun n => decide (Nearest ((bc4sOps .u8).interp6 n) n 1778 255 ∧
      Nearest ((bc4sOps .u16).interp6 n) n 1778 65535)) 1778 (by decide +kernel) n hn)
  · exact fun n hn => of_decide_eq_true (allUpTo (fun n => decide (Nearest ((bc4sOps .u8).interp4 n) n 1270 255 ∧
      Nearest ((bc4sOps .u16).interp4 n) n 1270 65535)) 1270 (by decide +kernel) n hn)

/-- U16/F32 of the 8-bit-defined formats are the exact widening: `v·257` and the binary32 nearest to
`v/255` (the latter is `n8::f32`'s two-multiplication trick, checked on all 256 values). -/
theorem widening_exact (v : Nat) (hv : v < 256) :
    Bc.widen .u16 v = v * 257 ∧ Bc.widen .f32 v = F32.roundF32 ((v : Rat) / 255) :=
  ⟨beq_true (widen_fin .u16 v (by omega)), beq_true (widen_fin .f32 v (by omega))⟩

/-- No `u8`/`u16`/`u32` operation of the integer paths wraps (so release = overflow-checking build). -/
theorem no_wrap (a b : Nat) (ha : a ≤ 63) (hb : b ≤ 63) (r s : Nat) (hr : r ≤ 31) (hs : s ≤ 31)
    (q : Nat) (hq : q ≤ 15) (x y : Nat) (hx : x ≤ 255) (hy : y ≤ 255) (z : Nat) (hz : z ≤ 254)
    (n : Nat) (hn : n ≤ 1785) (m : Nat) (hm : m ≤ 1275) :
    (2 * a + b) * 2763 + 1039 < 4294967296 ∧ (a + b) * 4145 + 1019 < 4294967296 ∧
    (2 * r + s) * 351 + 61 < 65536 ∧ (r + s) * 1053 + 125 < 65536 ∧ r * 2108 + 92 < 65536 ∧
    a * 1036 + 132 < 65536 ∧ q * 17 < 256 ∧ x * 257 < 65536 ∧ x * 255 < 65536 ∧
    x * 6 + y < 65536 ∧ x + y * 6 < 65536 ∧ z * 258 + 2 < 65536 ∧ z * 16909064 + 32520 < 4294967296 ∧
    n * 2406112 + 28064 < 4294967296 ∧ m * 3368544 + 34368 < 4294967296 ∧ n * 65535 + 889 < 4294967296 := by
  refine ⟨?_, ?_, ?_, ?_, ?_, ?_, ?_, ?_, ?_, ?_, ?_, ?_, ?_, ?_, ?_, ?_⟩ <;> omega

/-! ### variants -/

/-- DXT2/DXT4 (`BC2/BC3_UNORM_PREMULTIPLIED_ALPHA`): colour ÷ alpha as documented in the decoder
(`min 255 ⌊255·c/a⌋`, alpha 0 leaves the colour), applied to the specification's BC2/BC3 pixel;
`BC3_UNORM_RXGB`: `[A, G, B]` of the BC3 pixel.  All three precisions. -/
theorem variants (pr : Prec) (blk : Nat → Nat) (hb : IsBlock blk) :
    Bc.decodeBlock .bc2p pr blk = BcSpec.decodeBlock .bc2p pr blk ∧
    Bc.decodeBlock .bc3p pr blk = BcSpec.decodeBlock .bc3p pr blk ∧
    Bc.decodeBlock .rxgb pr blk = BcSpec.decodeBlock .rxgb pr blk :=
  ⟨decodeBlock_eq .bc2p (by decide) pr blk hb, decodeBlock_eq .bc3p (by decide) pr blk hb,
   decodeBlock_eq .rxgb (by decide) pr blk hb⟩

/-- BC3n `calc_b` (`bc3n_u8_rgb`, src/decode/bc.rs: `x = r as f32 * (2.0/255.0) - 1.0`, likewise `y`,
`z = (1.0 - x*x - y*y).max(0.0).sqrt()`, `(z * 127.5 + 128.0) as u8`, every operation a correctly rounded
binary32 operation of `F32.lean`): for EVERY pair of channel values the result is the specification's `z8`,
the nearest 8-bit value of `255·(½·√(1 − x² − y²) + ½)` with exact `x = 2r/255 − 1`, `y = 2g/255 − 1`.
Kernel-checked on all 65 536 pairs (no `native_decide`): the float operations are evaluated on integers by
versions proved equal to the `F32.lean` operations for all arguments. -/
theorem bc3n_calcB_eq_spec (r g : Nat) (hr : r < 256) (hg : g < 256) : Bc.calcB r g = BcSpec.z8 r g :=
  Bc3n.calcB_eq_z8 r g hr hg

/-- BC3n (`BC3_UNORM_NORMAL`): all three channels of all 16 pixels equal the specification — R is the BC3
alpha, G the BC3 green, B the nearest 8-bit `z` of the unit normal — for every block, at U8, U16 and F32
(the 16-bit and float outputs are the exact widening of the 8-bit pixel, as for BC1–BC3). -/
theorem bc3n_eq_spec (pr : Prec) (blk : Nat → Nat) (hb : IsBlock blk) :
    Bc.decodeBlock .bc3n pr blk = BcSpec.decodeBlock .bc3n pr blk :=
  decodeBlock_eq_all .bc3n pr blk hb

/-- the 8-bit BC3n pixel spelled out: `[alpha, green, z8 alpha green]` of the specification's BC3 pixel -/
theorem bc3n_pixel (blk : Nat → Nat) (hb : IsBlock blk) (p : Nat) (hp : p < 16) :
    Bc.px8 .bc3n blk p =
      [BcSpec.rnd (255 * BcSpec.bc4uVal blk 0 p), (BcSpec.colorPx false blk 8 p).2.1,
       BcSpec.z8 (BcSpec.rnd (255 * BcSpec.bc4uVal blk 0 p)) (BcSpec.colorPx false blk 8 p).2.1] := by
  rw [px8_bc3n_eq blk hb p hp]
  rfl

instance (r g k : Nat) : Decidable (BcSpec.zNearest r g k) := by unfold BcSpec.zNearest; infer_instance

def zChk (r : Nat) : Bool := (List.range 256).all fun g => decide (BcSpec.zNearest r g (BcSpec.z8 r g))

/-- the specification's `z8` is a nearest value in the tie-agnostic squared-interval sense -/
theorem z8_rows : ∀ r, r ≤ 255 → zChk r = true := allUpTo zChk 255 (by decide +kernel)

theorem z8_nearest : ∀ r, r < 256 → ∀ g, g < 256 → BcSpec.zNearest r g (BcSpec.z8 r g) := by
  intro r hr g hg
  have h1 := z8_rows r (by omega)
  unfold zChk at h1
  rw [List.all_eq_true] at h1
  exact of_decide_eq_true (h1 g (List.mem_range.mpr hg))

/-- the implementation's B channel satisfies the root-free characterisation directly:
`2·B − 256 ≤ √D ≤ 2·B − 254` with `D = 255² − (2r − 255)² − (2g − 255)²` clamped at 0 -/
theorem bc3n_calcB_nearest (r g : Nat) (hr : r < 256) (hg : g < 256) : BcSpec.zNearest r g (Bc.calcB r g) := by
  rw [bc3n_calcB_eq_spec r g hr hg]
  exact z8_nearest r hr g hg

/-! ### the compiled driver evaluates exactly the model -/

theorem memoGet_eq (n : Nat) (f : Nat → Nat) : Drv.C03.memoGet f (Drv.C03.memoTbl n f) = f := by
  funext v
  unfold Drv.C03.memoGet Drv.C03.memoTbl
  simp only [Thunk.get]
  split
  · rename_i x h
    simp at h
    obtain ⟨a, h1, h2⟩ := h
    rw [Array.getElem?_eq_some_iff] at h1
    obtain ⟨hv, h1⟩ := h1
    rw [Array.getElem_range] at h1
    rw [← h2, ← h1]
  · rfl

/-- the memoised f32 tables used by `driver C03` do not change the result -/
theorem driver_fast_path_eq (f : Fmt) (pr : Prec) (blk : Nat → Nat) :
    Bc.decodeBlockWith Drv.C03.fastConv f pr blk = Bc.decodeBlock f pr blk := by
  have h : Drv.C03.fastConv = stdConv := by
    unfold Drv.C03.fastConv stdConv
    congr 1
    · funext pr v; cases pr <;> simp [Drv.C03.tblN8F32, memoGet_eq, Bc.widen]
    · funext pr; cases pr <;> simp [Drv.C03.tblN8F32, Drv.C03.tblU6, Drv.C03.tblU4, memoGet_eq, bc4uOps]
    · funext pr; cases pr <;> simp [Drv.C03.tblS8F32, Drv.C03.tblS6, Drv.C03.tblS4, memoGet_eq, bc4sOps]
  rw [h]; rfl

/-! ### non-vacuity: concrete blocks -/

/-- the all-`0x55`-ish block used below -/
def sample (i : Nat) : Nat := [0x00, 0x00, 0xFF, 0xFF, 0xE4, 0x1B, 0x4E, 0xB1, 0x00, 0x00, 0xFF, 0xFF, 0xE4, 0x1B, 0x4E, 0xB1].getD i 0

theorem getD_lt (l : List Nat) (h : ∀ x, x ∈ l → x < 256) (i : Nat) : l.getD i 0 < 256 := by
  rw [List.getD_eq_getElem?_getD]
  cases hx : l[i]? with
  | none => simp
  | some x => exact h x (List.mem_of_getElem? hx)

example : IsBlock sample := fun i => getD_lt _ (by decide) i

/-- BC1, `color0 = 0 ≤ color1 = 0xFFFF`: three-colour mode, index 2 is the mid colour 128, index 3 is
transparent black -/
example : (Bc.decodeBlock .bc1 .u8 sample).take 4 = [[0, 0, 0, 255], [255, 255, 255, 255], [128, 128, 128, 255], [0, 0, 0, 0]] := by
  decide +kernel
/-- BC3 with the same colour block: four-colour mode regardless (85 and 170), never transparent -/
example : ((Bc.decodeBlock .bc3 .u8 sample).take 4).map (·.take 3) = [[0, 0, 0], [255, 255, 255], [85, 85, 85], [170, 170, 170]] := by
  decide +kernel
/-- the hypotheses of `bc1_mode_selection` are met with a transparent pixel -/
example : (Bc.bc1Px sample 3).2.2.2 = 0 := by decide +kernel
/-- BC4 UNORM f32: endpoint 1/255 and interpolant 5/1275 = 1/255 are the same float (post-repair) -/
example : Bc.decodeBlock .bc4u .f32 (fun i => [1, 1, 0x88, 0xC6, 0xFA, 0x88, 0xC6, 0xFA].getD i 0)
    = (List.range 16).map (fun p => if p % 8 = 6 then [0] else if p % 8 = 7 then [0x3F800000] else [0x3B808081]) := by
  decide +kernel
example : Nearest 128 31 62 255 ∧ Nearest 127 31 62 255 := by decide
/-- BC3n: a flat normal (x = y ≈ 0) gives z = 255; a vector outside the unit disc is clamped (z = 0 ↦ 128) -/
example : Bc.calcB 128 128 = 255 ∧ Bc.calcB 255 255 = 128 ∧ Bc.calcB 128 170 = 248 ∧ Bc.calcB 40 200 = 185 := by
  decide +kernel
/-- a BC3n block: alpha 128 everywhere (x ≈ 0), green 255, 0, 170, 85 (y = 1, −1, ⅓, −⅓) -/
def nsample (i : Nat) : Nat := [128, 128, 0, 0, 0, 0, 0, 0, 0xE0, 0x07, 0x00, 0x00, 0xE4, 0xE4, 0xE4, 0xE4].getD i 0
example : IsBlock nsample := fun i => getD_lt _ (by decide) i
example : (Bc.decodeBlock .bc3n .u8 nsample).take 4 = [[128, 255, 128], [128, 0, 128], [128, 170, 248], [128, 85, 248]] := by
  decide +kernel

end Dds.C03
