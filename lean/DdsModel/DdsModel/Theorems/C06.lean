/-
C06 — Surface decoding keeps the documented stream-position contract.

All statements are about the model `Stream.lean` of `dds::decode` / `dds::decode_rect`:
for every format family with admissible unit sizes (`Fam.WF`; `formatTable_wf` shows every row of
the format table is admissible), every colour, every surface size and every rect, every memory
limit, every stream (length, fault offset, seek behaviour), every short-read pattern and every
allocator behaviour — no bound on sizes. Helper lemmas: `Proofs/Stream.lean`, `Proofs/StreamPaths.lean`.
-/
import DdsModel.Proofs.StreamPaths
import DdsModel.Drv.C06
namespace Dds.C06
open Dds Dds.Stream

/-- the allocator grants every request that the budget admits -/
def AllocatorGrants (e : Env) : Prop := ∀ n, e.allocOk n = true

/-- every row of the format table has admissible unit sizes, and a specialised whole-image decoder
only for a colour whose pixels have exactly the encoded size -/
theorem formatTable_wf : ∀ p ∈ formatTable, p.2.WF := by decide

/-- Validation accepts every call whose surface has at most `isize::MAX` encoded bytes and whose
rect lies inside the surface (so the theorems below, which assume `plan … = .ok ops`, speak about
all of these), and it accepts nothing else. -/
theorem validation_accepts_iff {f : Fam} (hf : f.WF) (c : Colour) (call : Call) :
    (∃ ops, plan f c call = .ok ops) ↔
      (call.bytes f ≤ ISIZE_MAX ∧
        match call with
        | .full _ _ => True
        | .rect W H x y w h => if w = 0 ∨ h = 0 then x ≤ W ∧ y ≤ H else x + w ≤ W ∧ y + h ≤ H) := by
  constructor
  · rintro ⟨ops, h⟩
    refine ⟨(plan_facts hf h).2, ?_⟩
    cases call with
    | full w h' => trivial
    | rect W H x y w h' =>
      simp only [plan] at h
      simp only
      split at h
      · cases h
      · by_cases he : w = 0 ∨ h' = 0
        · rw [if_pos he] at h ⊢
          split at h
          · assumption
          · cases h
        · rw [if_neg he] at h ⊢
          split at h
          · assumption
          · cases h
  · rintro ⟨hb, hin⟩
    cases call with
    | full w h' =>
      have hc := (checkLikelyOverflow_iff hf w h').2 hb
      simp only [plan, hc, Bool.true_eq_false, if_false]
      by_cases he : w = 0 ∨ h' = 0
      · rw [if_pos he]; exact ⟨_, rfl⟩
      · rw [if_neg he]; exact ⟨_, rfl⟩
    | rect W H x y w h' =>
      have hc := (checkLikelyOverflow_iff hf W H).2 hb
      simp only [plan, hc, Bool.true_eq_false, if_false]
      simp only at hin
      by_cases he : w = 0 ∨ h' = 0
      · rw [if_pos he] at hin ⊢; rw [if_pos hin]; exact ⟨_, rfl⟩
      · rw [if_neg he] at hin ⊢; rw [if_pos hin]
        cases f with
        | pixel bpp fast => exact ⟨_, rfl⟩
        | block bw bh bpb => exact ⟨_, rfl⟩
        | biPlanar e1 e2 sx sy =>
          -- `plain1_bytes_per_line.checked_mul(image_height)` cannot fail: W·e1·h ≤ W·e1·H ≤ isize::MAX
          have hlt : W * e1 * h' < U64 := by
            simp only [Call.bytes, Call.surface, Fam.px, PixelInfo.surfIdeal] at hb
            have h1 : W * e1 * h' ≤ W * e1 * H := Nat.mul_le_mul_left _ (by omega)
            have e : W * e1 * H = W * H * e1 := by grind
            unfold ISIZE_MAX at hb; unfold U64; omega
          simp only [rectOps, biPlanarRect, if_pos hlt]
          exact ⟨_, rfl⟩

/-- **Every allocation precedes the first reader operation**, on every path (full strength; this is
what the repair `fix: allocate decode buffers before moving the reader` established). -/
theorem allocs_precede_reader {f : Fam} (hf : f.WF) {c : Colour} {call : Call} {ops : List Op}
    (h : plan f c call = .ok ops) : allocFirst ops :=
  (plan_facts hf h).1.af

/-- the reader operations of every path add up to the surface's encoded byte length -/
theorem trace_covers_surface {f : Fam} (hf : f.WF) {c : Colour} {call : Call} {ops : List Op}
    (h : plan f c call = .ok ops) : span ops = call.bytes f :=
  (plan_facts hf h).1.sp

/-- **Success consumes exactly the surface.** On a stream that is long enough and fault-free
(`pos + bytes ≤ e.lim`), with a limit that covers the need and an allocator that grants, the result
is `ok` and the reader is at `pos + surface bytes`, for every short-read pattern. -/
theorem success_consumes_exactly {f : Fam} (hf : f.WF) (c : Colour) (call : Call) {ops : List Op}
    (hplan : plan f c call = .ok ops) (e : Env) (pats : List (List Nat)) (pos limit : Nat)
    (hgrant : AllocatorGrants e) (hlimit : need ops ≤ limit) (hlen : e.len < U64)
    (hfit : pos + call.bytes f ≤ e.lim) :
    (run e pats (plan f c call) pos limit).1 = .ok ∧
    (run e pats (plan f c call) pos limit).2.pos = pos + call.bytes f := by
  obtain ⟨fa, hb⟩ := plan_facts hf hplan
  rw [hplan]; simp only [run]
  have := interp_ok e hgrant hlen ops pats { pos := pos, budget := limit }
    (allocFirst_noPanic fa.af) hlimit (by rw [fa.sp, ← ISIZE_MAX_eq]; exact hb) (by rw [fa.sp]; exact hfit)
  rw [fa.sp] at this; exact this

/-- **Chunking is irrelevant.** The whole outcome (result, final position, budget, allocator calls,
reader log) is the same for any two short-read / `Interrupted` patterns. -/
theorem chunking_irrelevant (e : Env) (p : Except Res (List Op)) (pos limit : Nat)
    (pats pats' : List (List Nat)) : run e pats p pos limit = run e pats' p pos limit := by
  cases p with
  | error r => rfl
  | ok ops => exact interp_pats e ops pats pats' _

/-- `read_exact` over any reader behaviour equals its specification -/
theorem read_exact_chunking (e : Env) (pat : List Nat) (pos n : Nat) :
    readExact e pat pos n = readSpec e pos n := readExact_eq e pat pos n

/-- **An I/O error is never swallowed (1).** A hard reader error at an offset inside the surface is
returned as `ioError`, wherever it lies (inside a read, a refill, a leading or trailing skip). -/
theorem io_error_propagates {f : Fam} (hf : f.WF) (c : Colour) (call : Call) {ops : List Op}
    (hplan : plan f c call = .ok ops) (e : Env) (pats : List (List Nat)) (pos limit k : Nat)
    (hgrant : AllocatorGrants e) (hlimit : need ops ≤ limit) (hfault : e.fault = some k)
    (hU : pos + call.bytes f < U64) (h1 : pos ≤ k) (h2 : k < pos + call.bytes f) :
    (run e pats (plan f c call) pos limit).1 = .ioError := by
  obtain ⟨fa, hb⟩ := plan_facts hf hplan
  rw [hplan]; simp only [run]
  exact interp_fault e hgrant hfault ops pats { pos := pos, budget := limit }
    (allocFirst_noPanic fa.af) hlimit (by rw [fa.sp, ← ISIZE_MAX_eq]; exact hb) (by rw [fa.sp]; exact hU)
    h1 (by rw [fa.sp]; exact h2)

/-- **An I/O error is never swallowed (2).** If the stream ends inside the surface and `seek` does
not go past the end, the result is `ioError` (`UnexpectedEof` from `read_exact` or from the
position comparison of `io_skip_exact`). -/
theorem io_error_propagates_eof {f : Fam} (hf : f.WF) (c : Colour) (call : Call) {ops : List Op}
    (hplan : plan f c call = .ok ops) (e : Env) (pats : List (List Nat)) (pos limit : Nat)
    (hgrant : AllocatorGrants e) (hlimit : need ops ≤ limit) (hclamp : e.clampSeek = true)
    (hU : pos + call.bytes f < U64) (h1 : pos ≤ e.len) (h2 : e.len < pos + call.bytes f) :
    (run e pats (plan f c call) pos limit).1 = .ioError := by
  obtain ⟨fa, hb⟩ := plan_facts hf hplan
  rw [hplan]; simp only [run]
  exact interp_eof_clamp e hgrant hclamp ops pats { pos := pos, budget := limit }
    (allocFirst_noPanic fa.af) hlimit (by rw [fa.sp, ← ISIZE_MAX_eq]; exact hb) (by rw [fa.sp]; exact hU)
    h1 (by rw [fa.sp]; exact h2)

/-- **An I/O error is never swallowed (3).** On *every* stream (any length, any fault, any seek
behaviour), once the limit covers the need: the result is `ioError`, or it is `ok` and the reader
moved by exactly the surface's bytes. There is no success after a failed operation, and with a
`Cursor`-like seek the end of the stream is only missed by a trailing skip. -/
theorem io_error_or_exact_success {f : Fam} (hf : f.WF) (c : Colour) (call : Call) {ops : List Op}
    (hplan : plan f c call = .ok ops) (e : Env) (pats : List (List Nat)) (pos limit : Nat)
    (hgrant : AllocatorGrants e) (hlimit : need ops ≤ limit) (hU : pos + call.bytes f < U64) :
    (run e pats (plan f c call) pos limit).1 = .ioError ∨
    ((run e pats (plan f c call) pos limit).1 = .ok ∧
     (run e pats (plan f c call) pos limit).2.pos = pos + call.bytes f) := by
  obtain ⟨fa, hb⟩ := plan_facts hf hplan
  rw [hplan]; simp only [run]
  have := interp_ok_or_io e hgrant ops pats { pos := pos, budget := limit }
    (allocFirst_noPanic fa.af) hlimit (by rw [fa.sp, ← ISIZE_MAX_eq]; exact hb) (by rw [fa.sp]; exact hU)
  rw [fa.sp] at this; exact this

/-- **A non-I/O error keeps the position.** For every call, stream, limit, pattern and allocator
behaviour: if the result is neither `ok` nor `ioError` — i.e. `memLimit` from the overflow check,
from `reserve_bytes`, from a refused allocation, or `rectOutOfBounds` — the reader is where it was
and not a single reader call was made. -/
theorem non_io_error_keeps_position {f : Fam} (hf : f.WF) (c : Colour) (call : Call) (e : Env)
    (pats : List (List Nat)) (pos limit : Nat)
    (hne1 : (run e pats (plan f c call) pos limit).1 ≠ .ok)
    (hne2 : (run e pats (plan f c call) pos limit).1 ≠ .ioError) :
    (run e pats (plan f c call) pos limit).2.pos = pos ∧
    (run e pats (plan f c call) pos limit).2.log = [] := by
  cases hplan : plan f c call with
  | error r => simp [run]
  | ok ops =>
    rw [hplan] at hne1 hne2
    simp only [run] at hne1 hne2 ⊢
    rcases interp_allocFirst e ops pats { pos := pos, budget := limit } (allocs_precede_reader hf hplan)
      with h | h | h
    · exact (hne1 h).elim
    · exact (hne2 h).elim
    · exact h.2

/-- the result of a call is never a panic (no `assert!`, `clamp`, division or `expect` fails), and
the only non-I/O errors are `MemoryLimitExceeded` and `RectOutOfBounds` -/
theorem result_kinds {f : Fam} (hf : f.WF) (c : Colour) (call : Call) (e : Env)
    (pats : List (List Nat)) (pos limit : Nat) :
    (run e pats (plan f c call) pos limit).1 ∈ [Res.ok, .ioError, .memLimit, .rectOutOfBounds] := by
  cases hplan : plan f c call with
  | error r =>
    rcases plan_error hplan with h | h <;> simp [run, h]
  | ok ops =>
    simp only [run]
    rcases interp_allocFirst e ops pats { pos := pos, budget := limit } (allocs_precede_reader hf hplan)
      with h | h | h
    · simp [h]
    · simp [h]
    · simp [h.1]

/-! ### non-vacuity: concrete instances of the hypotheses -/

/-- BC1, 16×16 surface, rect 5×5 at (4,4), reader at 100: `S32 R64 S32`, ends at 228 -/
example : (run { len := 1000 } [] (plan (.block 4 4 8) (3, 0) (.rect 16 16 4 4 5 5)) 100 64).1 = .ok ∧
    (run { len := 1000 } [] (plan (.block 4 4 8) (3, 0) (.rect 16 16 4 4 5 5)) 100 64).2.pos = 228 := by
  decide
/-- same call, hard error at 150 (inside the read): `ioError` -/
example : (run { len := 1000, fault := some 150 } [[3, 0, 1]] (plan (.block 4 4 8) (3, 0)
    (.rect 16 16 4 4 5 5)) 100 64).1 = .ioError := by decide
/-- same call, limit 63 < need 64: `memLimit`, reader untouched -/
example : (run { len := 1000 } [] (plan (.block 4 4 8) (3, 0) (.rect 16 16 4 4 5 5)) 100 63).1 = .memLimit ∧
    (run { len := 1000 } [] (plan (.block 4 4 8) (3, 0) (.rect 16 16 4 4 5 5)) 100 63).2.pos = 100 := by
  decide
/-- NV12 6×6 full decode: need 54, 54 bytes consumed -/
example : (run { len := 54 } [] (plan (.biPlanar 1 2 2 2) (2, 0) (.full 6 6)) 0 54).1 = .ok ∧
    (run { len := 54 } [] (plan (.biPlanar 1 2 2 2) (2, 0) (.full 6 6)) 0 54).2.pos = 54 := by decide
/-- stream one byte short, clamping seek: `ioError` -/
example : (run { len := 53, clampSeek := true } [] (plan (.biPlanar 1 2 2 2) (2, 0) (.full 6 6)) 0 54).1
    = .ioError := by decide
/-- a rect outside the surface: `rectOutOfBounds` -/
example : (run { len := 9 } [] (plan (.pixel 4 none) (3, 0) (.rect 8 8 1 0 8 8)) 5 0).1 = .rectOutOfBounds := by
  decide
/-- a surface of more than `isize::MAX` bytes: `memLimit` before anything else -/
example : (run { len := 9 } [] (plan (.pixel 4 none) (3, 0) (.rect 4294967295 4294967295 0 0 1 1)) 5 0).1
    = .memLimit := by decide

end Dds.C06
