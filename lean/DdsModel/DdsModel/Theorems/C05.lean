/-
C05 — A decoded pixel does not depend on how it was asked for.

Only property theorems and non-vacuity examples live here; helper lemmas are in
`Proofs/Addr.lean`.  All statements are about the addressing model `Addr.lean`, for every
surface size, rectangle, block shape, row pitch and conversion setting (no bounds).

Reading guide: a decode is a list of `Run`s (writes); `lastWrite bw bh runs row col` is the source
pixel `(sx, sy)` (absolute in the surface) whose decoded value ends up at output pixel `(row, col)`
of the view, `none` if the pixel keeps its previous contents.  `image` applies an arbitrary
per-unit decode function to it.
-/
import DdsModel.Proofs.Addr
import DdsModel.Drv.C05
namespace Dds.C05
open Dds Dds.Addr

/-! ## per-pixel (uncompressed) family -/

/-- **rect = crop, uncompressed family.**  For every surface `W × H`, rectangle inside it, and any
conversion settings of the two decodes (`conv`, native bytes per pixel): output pixel `(i, j)` of the
rectangle decode carries source pixel `(ox+i, oy+j)`, which is what the full decode puts at
`(ox+i, oy+j)`; no pixel outside the `w × h` view is written; and for every row pitch
`≥ w·bpp` the bytes of every write lie inside the addressed part `[row·pitch, row·pitch + w·bpp)` of
an addressed row (so row padding and bytes before / after the view are never touched). -/
theorem rect_eq_crop_pixel (conv convF : Bool) (nbpp nbppF W H ox oy w h : Nat)
    (hb : 0 < BUFFER_BYTES / nbpp) (hbF : 0 < BUFFER_BYTES / nbppF)
    (hw : 0 < w) (hx : ox + w ≤ W) (hy : oy + h ≤ H) :
    (∀ i j, i < w → j < h →
      lastWrite 1 1 (pixelRect conv nbpp W ox oy w h) j i = some (ox + i, oy + j) ∧
      lastWrite 1 1 (pixelRect conv nbpp W ox oy w h) j i =
        lastWrite 1 1 (pixelFull convF nbppF W H) (oy + j) (ox + i)) ∧
    (∀ row col, ¬ (col < w ∧ row < h) → lastWrite 1 1 (pixelRect conv nbpp W ox oy w h) row col = none) ∧
    (∀ r ∈ pixelRect conv nbpp W ox oy w h, ∀ pitch obpp, w * obpp ≤ pitch →
      r.row < h ∧ r.row * pitch ≤ r.byteLo pitch obpp ∧ r.byteHi pitch obpp ≤ r.row * pitch + w * obpp) := by
  have hs := pixelRect_sound conv nbpp W ox oy w h hb hw hx
  have hc := pixelRect_cover conv nbpp W ox oy w h hb hw
  have hW : 0 < W := by omega
  have hsF := pixelFull_sound convF nbppF W H hbF hW
  have hcF := pixelFull_cover convF nbppF W H hbF hW
  refine ⟨?_, ?_, ?_⟩
  · intro i j hi hj
    have e1 := lastWrite_crop hs hc i j hi hj
    have e2 := lastWrite_crop hsF hcF (ox + i) (oy + j) (by omega) (by omega)
    rw [e1, e2]
    simp
  · exact fun row col ho => lastWrite_outside hs row col ho
  · intro r hr pitch obpp hp
    obtain ⟨h1, h2, _, _⟩ := hs r hr
    obtain ⟨b1, _, b3, _⟩ := run_bytes_in_row pitch obpp w r hp h2
    exact ⟨h1, b1, b3⟩

example : 0 < BUFFER_BYTES / 16 ∧ (0:Nat) < 3 ∧ 2 + 3 ≤ 7 ∧ 1 + 2 ≤ 4 := by decide

/-- the same for the full decode itself (rect = whole surface, offset 0): every pixel is written with
its own source pixel, nothing else is written. -/
theorem full_pixel (conv : Bool) (nbpp W H : Nat) (hb : 0 < BUFFER_BYTES / nbpp) (hw : 0 < W) :
    (∀ i j, i < W → j < H → lastWrite 1 1 (pixelFull conv nbpp W H) j i = some (i, j)) ∧
    (∀ row col, ¬ (col < W ∧ row < H) → lastWrite 1 1 (pixelFull conv nbpp W H) row col = none) := by
  have hs := pixelFull_sound conv nbpp W H hb hw
  have hc := pixelFull_cover conv nbpp W H hb hw
  refine ⟨?_, fun row col ho => lastWrite_outside hs row col ho⟩
  intro i j hi hj
  have := lastWrite_crop hs hc i j hi hj
  simpa using this

/-- **fast path = general path** (`COPY_U8/U16/U32/S8`, BGRA swap): the whole-image copy paths put
every source pixel where the general per-row path puts it. -/
theorem fastpath_eq_general (conv : Bool) (nbpp W H : Nat) (hb : 0 < BUFFER_BYTES / nbpp) (hw : 0 < W)
    (row col : Nat) :
    lastWrite 1 1 (copyFull W H) row col = lastWrite 1 1 (pixelFull conv nbpp W H) row col := by
  by_cases hin : col < W ∧ row < H
  · rw [lastWrite_crop (copyFull_sound W H) (copyFull_cover W H) col row hin.1 hin.2,
      lastWrite_crop (pixelFull_sound conv nbpp W H hb hw) (pixelFull_cover conv nbpp W H hb hw) col row hin.1 hin.2]
  · rw [lastWrite_outside (copyFull_sound W H) row col hin,
      lastWrite_outside (pixelFull_sound conv nbpp W H hb hw) row col hin]

/-! ## channel mapping and decoder selection -/

/-- **channel_map, structure of the 16-entry `convert_channels` table** (complete evaluation):
the output has the target's channel count and reads only channels the native pixel has; the identity
entries copy; grey replicates into all colour channels; a colour source gives its first (red) channel
as grey; the output alpha is the source alpha if there is one and opaque (`ONE`) otherwise; an
alpha-only source gives black (`ZERO`) colour. -/
theorem channel_map :
    (∀ f ∈ allChannels, ∀ t ∈ allChannels,
      (chanMap f t).length = t.count ∧ (∀ s ∈ chanMap f t, s.inRange f.count = true)) ∧
    (∀ c ∈ allChannels, chanMap c c = (List.range c.count).map .ch) ∧
    chanMap .gray .rgb = [.ch 0, .ch 0, .ch 0] ∧ chanMap .gray .rgba = [.ch 0, .ch 0, .ch 0, .one] ∧
    chanMap .rgb .gray = [.ch 0] ∧ chanMap .rgba .gray = [.ch 0] ∧
    chanMap .rgb .rgba = [.ch 0, .ch 1, .ch 2, .one] ∧ chanMap .rgba .rgb = [.ch 0, .ch 1, .ch 2] ∧
    chanMap .rgba .alpha = [.ch 3] ∧ chanMap .gray .alpha = [.one] ∧ chanMap .rgb .alpha = [.one] ∧
    chanMap .alpha .gray = [.zero] ∧ chanMap .alpha .rgb = [.zero, .zero, .zero] ∧
    chanMap .alpha .rgba = [.zero, .zero, .zero, .ch 0] := by
  decide

/-- mapping a native pixel to its own layout is the identity (on pixels of the right length) -/
theorem mapPixel_id (z o a b c d : Nat) :
    mapPixel z o [a] (chanMap .gray .gray) = [a] ∧
    mapPixel z o [a] (chanMap .alpha .alpha) = [a] ∧
    mapPixel z o [a, b, c] (chanMap .rgb .rgb) = [a, b, c] ∧
    mapPixel z o [a, b, c, d] (chanMap .rgba .rgba) = [a, b, c, d] := by
  refine ⟨rfl, rfl, rfl, rfl⟩

/-- **decoder selection** (`DecoderSet::get_decoder`): if some decoder of the set is native for the
requested colour it is the one chosen (no conversion happens); otherwise the chosen decoder has the
requested precision, so the conversion is a pure channel mapping at that precision; and a decoder is
found whenever the set has one of that precision. -/
theorem getDecoder_spec (natives : List Color) (c : Color) :
    (c ∈ natives → getDecoder natives c = some c) ∧
    (∀ d, getDecoder natives c = some d → d ∈ natives ∧ d.pr = c.pr) ∧
    ((∃ d ∈ natives, d.pr = c.pr) → (getDecoder natives c).isSome) := by
  unfold getDecoder
  refine ⟨?_, ?_, ?_⟩
  · intro hc
    have hsome : (natives.find? (· == c)).isSome := by
      rw [List.find?_isSome]; exact ⟨c, hc, by simp⟩
    obtain ⟨d, hd⟩ := Option.isSome_iff_exists.1 hsome
    have : (d == c) = true := List.find?_some (p := fun (x : Color) => x == c) hd
    rw [hd]; simp only [beq_iff_eq] at this; rw [this]
  · intro d hd
    cases h1 : natives.find? (· == c) with
    | some d' =>
      rw [h1] at hd
      have hd' : d' = d := by simpa using hd
      subst hd'
      have hb : (d' == c) = true := List.find?_some (p := fun (x : Color) => x == c) h1
      simp only [beq_iff_eq] at hb
      exact ⟨List.mem_of_find?_eq_some h1, by rw [hb]⟩
    | none =>
      rw [h1] at hd
      have hb : (d.pr == c.pr) = true := List.find?_some (p := fun (x : Color) => x.pr == c.pr) hd
      simp only [beq_iff_eq] at hb
      exact ⟨List.mem_of_find?_eq_some hd, hb⟩
  · rintro ⟨d, hd, hp⟩
    cases h1 : natives.find? (· == c) with
    | some d' => simp
    | none =>
      show (natives.find? (·.pr == c.pr)).isSome
      rw [List.find?_isSome]
      exact ⟨d, hd, by simp [hp]⟩

/-- every format of the driver's table finds a decoder for each of the 12 colours, and the decoder
found is the exact native one whenever the set has it (finite check over the table). -/
theorem table_decoders_total :
    ∀ natives ∈ [Drv.stdNat .gray, Drv.stdNat .alpha, Drv.stdNat .rgb, Drv.stdNat .rgba,
                 Drv.stdNat .rgb ++ [⟨.rgba, .u8⟩], Drv.stdNat .rgba ++ Drv.stdNat .rgb],
    ∀ ch ∈ allChannels, ∀ pr ∈ allPrecisions,
      (getDecoder natives ⟨ch, pr⟩).isSome ∧
      ((⟨ch, pr⟩ : Color) ∈ natives → getDecoder natives ⟨ch, pr⟩ = some ⟨ch, pr⟩) := by
  decide

/-! ## locality -/

/-- **locality**: the decoded value at an output pixel is a function of the one encoded unit that
contains its source pixel — two data sets that agree on that unit give the same pixel (for any
per-unit decode function and any run list; which unit that is, is fixed by `rect_eq_crop_*`). -/
theorem locality {β γ : Type} (bw bh : Nat) (dec : β → Nat → Nat → γ) (data data' : Nat → Nat → β)
    (runs : List Run) (row col sx sy : Nat) (hsrc : lastWrite bw bh runs row col = some (sx, sy))
    (hagree : data (sx / bw) (sy / bh) = data' (sx / bw) (sy / bh)) :
    image bw bh dec data runs row col = image bw bh dec data' runs row col := by
  unfold image
  rw [hsrc]
  simp only [Option.map_some]
  rw [hagree]

end Dds.C05
