/-
C05 — A decoded pixel does not depend on how it was asked for.

Only property theorems and non-vacuity examples live here; helper lemmas are in
`Proofs/Addr.lean`.  All statements are about the addressing model `Addr.lean`, for every
surface size, rectangle, block shape, row pitch and conversion setting (no bounds).

Reading guide: a decode is a list of `Run`s (writes); `lastWrite bw bh runs row col` is the source
pixel `(sx, sy)` (absolute in the surface) whose decoded value ends up at output pixel `(row, col)`
of the view, `none` if the pixel keeps its previous contents.  `image` applies an arbitrary
per-unit decode function to it.
-/
import DdsModel.Proofs.Addr
import DdsModel.Proofs.AddrBlock
import DdsModel.Proofs.AddrPlanar
import DdsModel.Proofs.AddrPlanar2
import DdsModel.Drv.C05
namespace Dds.C05
open Dds Dds.Addr

/-! ## per-pixel (uncompressed) family -/

/-- **rect = crop, uncompressed family.**  For every surface `W × H`, rectangle inside it, and any
conversion settings of the two decodes (`conv`, native bytes per pixel): output pixel `(i, j)` of the
rectangle decode carries source pixel `(ox+i, oy+j)`, which is what the full decode puts at
`(ox+i, oy+j)`; no pixel outside the `w × h` view is written; and for every row pitch
`≥ w·bpp` the bytes of every write lie inside the addressed part `[row·pitch, row·pitch + w·bpp)` of
an addressed row (so row padding and bytes before / after the view are never touched). -/
theorem rect_eq_crop_pixel (conv convF : Bool) (nbpp nbppF W H ox oy w h : Nat)
    (hb : 0 < BUFFER_BYTES / nbpp) (hbF : 0 < BUFFER_BYTES / nbppF)
    (hw : 0 < w) (hx : ox + w ≤ W) (hy : oy + h ≤ H) :
    (∀ i j, i < w → j < h →
      lastWrite 1 1 (pixelRect conv nbpp W ox oy w h) j i = some (ox + i, oy + j) ∧
      lastWrite 1 1 (pixelRect conv nbpp W ox oy w h) j i =
        lastWrite 1 1 (pixelFull convF nbppF W H) (oy + j) (ox + i)) ∧
    (∀ row col, ¬ (col < w ∧ row < h) → lastWrite 1 1 (pixelRect conv nbpp W ox oy w h) row col = none) ∧
    (∀ r ∈ pixelRect conv nbpp W ox oy w h, ∀ pitch obpp, w * obpp ≤ pitch →
      r.row < h ∧ r.row * pitch ≤ r.byteLo pitch obpp ∧ r.byteHi pitch obpp ≤ r.row * pitch + w * obpp) := by
  have hs := pixelRect_sound conv nbpp W ox oy w h hb hw hx
  have hc := pixelRect_cover conv nbpp W ox oy w h hb hw
  have hW : 0 < W := by omega
  have hsF := pixelFull_sound convF nbppF W H hbF hW
  have hcF := pixelFull_cover convF nbppF W H hbF hW
  refine ⟨?_, ?_, ?_⟩
  · intro i j hi hj
    have e1 := lastWrite_crop hs hc i j hi hj
    have e2 := lastWrite_crop hsF hcF (ox + i) (oy + j) (by omega) (by omega)
    rw [e1, e2]
    simp
  · exact fun row col ho => lastWrite_outside hs row col ho
  · intro r hr pitch obpp hp
    obtain ⟨h1, h2, _, _⟩ := hs r hr
    obtain ⟨b1, _, b3, _⟩ := run_bytes_in_row pitch obpp w r hp h2
    exact ⟨h1, b1, b3⟩

example : 0 < BUFFER_BYTES / 16 ∧ (0:Nat) < 3 ∧ 2 + 3 ≤ 7 ∧ 1 + 2 ≤ 4 := by decide

/-- the same for the full decode itself (rect = whole surface, offset 0): every pixel is written with
its own source pixel, nothing else is written. -/
theorem full_pixel (conv : Bool) (nbpp W H : Nat) (hb : 0 < BUFFER_BYTES / nbpp) (hw : 0 < W) :
    (∀ i j, i < W → j < H → lastWrite 1 1 (pixelFull conv nbpp W H) j i = some (i, j)) ∧
    (∀ row col, ¬ (col < W ∧ row < H) → lastWrite 1 1 (pixelFull conv nbpp W H) row col = none) := by
  have hs := pixelFull_sound conv nbpp W H hb hw
  have hc := pixelFull_cover conv nbpp W H hb hw
  refine ⟨?_, fun row col ho => lastWrite_outside hs row col ho⟩
  intro i j hi hj
  have := lastWrite_crop hs hc i j hi hj
  simpa using this

/-- **fast path = general path** (`COPY_U8/U16/U32/S8`, BGRA swap): the whole-image copy paths put
every source pixel where the general per-row path puts it. -/
theorem fastpath_eq_general (conv : Bool) (nbpp W H : Nat) (hb : 0 < BUFFER_BYTES / nbpp) (hw : 0 < W)
    (row col : Nat) :
    lastWrite 1 1 (copyFull W H) row col = lastWrite 1 1 (pixelFull conv nbpp W H) row col := by
  by_cases hin : col < W ∧ row < H
  · rw [lastWrite_crop (copyFull_sound W H) (copyFull_cover W H) col row hin.1 hin.2,
      lastWrite_crop (pixelFull_sound conv nbpp W H hb hw) (pixelFull_cover conv nbpp W H hb hw) col row hin.1 hin.2]
  · rw [lastWrite_outside (copyFull_sound W H) row col hin,
      lastWrite_outside (pixelFull_sound conv nbpp W H hb hw) row col hin]

/-! ## block family: the arithmetic core -/

/-- **rows_partition** (`for_each_block_rect_untyped`): for every block line `k` that is read
(`k < block_lines_to_read`) the row range `rows = [rowStart k, rowEnd k)` is non-empty and inside the
block; its first row is absolute surface row `oy + pixel_row` (so output row `pixel_row + t` receives
surface row `oy + pixel_row + t`); the output ranges `[pixelRow k, pixelRow (k+1))` are consecutive
(hence ordered and disjoint) and end exactly at the rectangle height. -/
theorem rows_partition (g : RectGeom) (hbh : 0 < g.bh) (hh : 0 < g.h) :
    g.pixelRow 0 = 0 ∧ g.pixelRow g.linesToRead = g.h ∧
    ∀ k, k < g.linesToRead →
      g.rowStart k < g.rowEnd k ∧ g.rowEnd k ≤ g.bh ∧
      (g.skipBefore + k) * g.bh + g.rowStart k = g.oy + g.pixelRow k ∧
      g.pixelRow (k + 1) = g.pixelRow k + (g.rowEnd k - g.rowStart k) ∧
      g.pixelRow k < g.pixelRow (k + 1) ∧ g.pixelRow (k + 1) ≤ g.h ∧
      (g.skipBefore + k) * g.bh < g.oy + g.h := by
  refine ⟨rfl, pixelRow_end g hbh hh, ?_⟩
  intro k hk
  have hk' : (g.skipBefore + k) * g.bh < g.oy + g.h := by
    unfold RectGeom.linesToRead at hk
    have : g.skipBefore + k < divCeil (g.h + g.oy) g.bh := by omega
    rw [lt_divCeil_iff hbh] at this
    omega
  obtain ⟨r1, r2, r3, r4, r5⟩ := rows_facts g hbh hh k hk'
  exact ⟨r1, r2, r3, r4, by omega, r5, hk'⟩

example : (⟨4, 4, 3, 5, 6, 9⟩ : RectGeom).linesToRead = 3 ∧ (⟨4, 4, 3, 5, 6, 9⟩ : RectGeom).pixelRow 1 = 3 := by decide

/-- the skipped / read / skipped block lines add up to the surface's block lines, and the
subtractions of the code do not underflow. -/
theorem block_lines_account (g : RectGeom) (H : Nat) (hbh : 0 < g.bh) (hy : g.oy + g.h ≤ H) :
    g.skipBefore ≤ divCeil (g.h + g.oy) g.bh ∧ divCeil (g.h + g.oy) g.bh ≤ divCeil H g.bh ∧
    g.skipBefore + g.linesToRead + g.skipAfter H = divCeil H g.bh := by
  have h1 : g.skipBefore * g.bh ≤ g.oy := Nat.div_mul_le_self _ _
  have a : g.skipBefore ≤ divCeil (g.h + g.oy) g.bh := by
    apply Classical.byContradiction
    intro hn
    have : divCeil (g.h + g.oy) g.bh < g.skipBefore := by omega
    have h2 := (divCeil_spec (g.h + g.oy) g.bh hbh).1
    have := Nat.mul_le_mul_right g.bh (Nat.succ_le_of_lt this)
    rw [Nat.succ_mul] at this
    omega
  have b : divCeil (g.h + g.oy) g.bh ≤ divCeil H g.bh := by
    apply Classical.byContradiction
    intro hn
    have : divCeil H g.bh < divCeil (g.h + g.oy) g.bh := by omega
    rw [lt_divCeil_iff hbh] at this
    have := (divCeil_spec H g.bh hbh).1
    omega
  refine ⟨a, b, ?_⟩
  unfold RectGeom.skipAfter RectGeom.linesToRead
  omega

/-- **block_range_covers**: the block range `[brStart, brEnd)` of a block line covers the pixel
columns `[ox, ox+w)` and is minimal (dropping the first or the last block would lose a column);
its length is the block count `div_ceil(width_offset + w, bw)` the pixel functions expect. -/
theorem block_range_covers (g : RectGeom) (hbw : 0 < g.bw) (hw : 0 < g.w) :
    g.brStart * g.bw ≤ g.ox ∧ g.ox < (g.brStart + 1) * g.bw ∧
    g.ox + g.w ≤ g.brEnd * g.bw ∧ (g.brEnd - 1) * g.bw < g.ox + g.w ∧
    g.brStart < g.brEnd ∧ g.brEnd - g.brStart = divCeil (g.widthOffset + g.w) g.bw := by
  have h1 := Nat.div_add_mod g.ox g.bw
  have h2 := Nat.mod_lt g.ox hbw
  have e : g.brStart * g.bw = g.bw * (g.ox / g.bw) := Nat.mul_comm _ _
  have d := divCeil_spec (g.ox + g.w) g.bw hbw
  have hne : g.ox + g.w ≠ 0 := by omega
  simp only [hne, if_false, Nat.add_zero] at d
  have hlen : g.brEnd - g.brStart = divCeil (g.widthOffset + g.w) g.bw := by
    unfold RectGeom.brEnd RectGeom.brStart RectGeom.widthOffset
    have : g.ox + g.w = (g.ox % g.bw + g.w) + (g.ox / g.bw) * g.bw := by rw [Nat.mul_comm]; omega
    rw [this, divCeil_add_mul _ _ _ hbw]; omega
  have hpos : 0 < divCeil (g.widthOffset + g.w) g.bw := divCeil_pos hbw (by omega)
  refine ⟨by omega, by rw [Nat.succ_mul]; omega, d.1, d.2, by omega, hlen⟩

example : (⟨4, 4, 3, 5, 6, 9⟩ : RectGeom).brStart = 0 ∧ (⟨4, 4, 3, 5, 6, 9⟩ : RectGeom).brEnd = 3 := by decide

/-- **width_offset_ok**: the width offset is a position inside the first block of the range
(`< bw`, so it fits the `u8` field for all block widths ≤ 255); the separately handled first chunk of
`min(bw - wo, w)` pixels is non-empty, stays in that block, and what follows starts on a block
boundary (or nothing follows). -/
theorem width_offset_ok (g : RectGeom) (hbw : 0 < g.bw) (hw : 0 < g.w) :
    g.widthOffset < g.bw ∧ g.brStart * g.bw + g.widthOffset = g.ox ∧
    0 < min (g.bw - g.widthOffset) g.w ∧ g.widthOffset + min (g.bw - g.widthOffset) g.w ≤ g.bw ∧
    (g.w - min (g.bw - g.widthOffset) g.w = 0 ∨
      (g.ox + min (g.bw - g.widthOffset) g.w) % g.bw = 0) := by
  have h1 := Nat.div_add_mod g.ox g.bw
  have h2 := Nat.mod_lt g.ox hbw
  have e : g.brStart * g.bw = g.bw * (g.ox / g.bw) := Nat.mul_comm _ _
  unfold RectGeom.widthOffset
  refine ⟨h2, by omega, by omega, by omega, ?_⟩
  by_cases hc : g.bw - g.ox % g.bw < g.w
  · right
    have : g.ox + min (g.bw - g.ox % g.bw) g.w = g.bw * (g.ox / g.bw + 1) := by
      rw [Nat.mul_add, Nat.mul_one]; omega
    rw [this]; exact Nat.mul_mod_right _ _
  · left; omega

/-- **chunks_partition** (`ChannelConversionBuffer::process_blocks`): with
`buffer_width = 3072 / (native_bpp · height) ≥ bw` the preferred chunk size
`round_down(buffer_width, bw)` is positive (so `step_by` does not panic) and a multiple of `bw`;
the chunks `[cs, min(cs + pref, width))` tile `[0, width)` — every column lies in exactly one chunk
—, every chunk starts on a block boundary with `block_offset · bw = cs`, and the pixels decoded for
a chunk (`chunk_size · height` pixels of `native_bpp` bytes) fit the 3072-byte buffer. -/
theorem chunks_partition (bw nbpp height width pref : Nat) (hbw : 0 < bw)
    (hfit : bw ≤ BUFFER_BYTES / (nbpp * height))
    (hpref : pref = roundDown (BUFFER_BYTES / (nbpp * height)) bw) :
    0 < pref ∧ pref % bw = 0 ∧
    (∀ x, x < width → ∃ cs ∈ stepStarts width pref, cs ≤ x ∧ x < min (cs + pref) width ∧
      ∀ cs' ∈ stepStarts width pref, cs' ≤ x → x < min (cs' + pref) width → cs' = cs) ∧
    (∀ cs ∈ stepStarts width pref, cs < width ∧ cs % bw = 0 ∧ cs / bw * bw = cs ∧
      (min (cs + pref) width - cs) * nbpp * height ≤ BUFFER_BYTES) := by
  obtain ⟨p1, p2, p3⟩ := roundDown_props hbw hfit
  rw [← hpref] at p1 p2 p3
  refine ⟨p1, p2, ?_, ?_⟩
  · intro x hx
    obtain ⟨h1, h2, h3⟩ := chunk_of p1 hx
    refine ⟨x / pref * pref, (mem_stepStarts p1).2 ⟨_, h1, rfl⟩, h2, h3, ?_⟩
    intro cs' hcs' l1 l2
    obtain ⟨k, _, rfl⟩ := (mem_stepStarts p1).1 hcs'
    have hk : k = x / pref := by
      apply Classical.byContradiction
      intro hne
      rcases Nat.lt_or_gt_of_ne hne with hlt | hgt
      · have := Nat.mul_le_mul_right pref (Nat.succ_le_of_lt hlt)
        rw [Nat.succ_mul] at this
        omega
      · have := Nat.mul_le_mul_right pref (Nat.succ_le_of_lt hgt)
        rw [Nat.succ_mul] at this
        omega
    rw [hk]
  · intro cs hcs
    obtain ⟨k, hk, rfl⟩ := (mem_stepStarts p1).1 hcs
    have hd : bw ∣ k * pref := Nat.dvd_trans (Nat.dvd_of_mod_eq_zero p2) (Nat.dvd_mul_left pref k)
    refine ⟨hk, Nat.mod_eq_zero_of_dvd hd, Nat.div_mul_cancel hd, ?_⟩
    have hc : min (k * pref + pref) width - k * pref ≤ BUFFER_BYTES / (nbpp * height) := by omega
    have := Nat.mul_le_mul_right (nbpp * height) hc
    have h2 := Nat.div_mul_le_self BUFFER_BYTES (nbpp * height)
    rw [Nat.mul_assoc]
    omega

example : (4 : Nat) ≤ BUFFER_BYTES / (16 * 4) ∧ 4 ≤ roundDown (BUFFER_BYTES / (16 * 4)) 4 ∧
    roundDown (BUFFER_BYTES / (16 * 4)) 4 % 4 = 0 := by decide

/-- `pref_pos`, finite part: for every block shape of the format table (2×1, 8×1, 4×4 and the 14 ASTC
shapes), every native pixel size (1..16 bytes) and every range height `1..bh` the buffer width is at
least one block, so `chunks_partition` applies to every call the code can make. -/
theorem pref_pos :
    ∀ s ∈ [(2, 1), (8, 1), (4, 4), (5, 4), (5, 5), (6, 5), (6, 6), (8, 5), (8, 6), (8, 8), (10, 5), (10, 6),
           (10, 8), (10, 10), (12, 10), (12, 12)],
    ∀ nbpp ∈ [1, 2, 3, 4, 6, 8, 12, 16], nbpp * s.2 * s.1 ≤ BUFFER_BYTES ∧
      ∀ height ∈ List.range' 1 s.2, s.1 ≤ BUFFER_BYTES / (nbpp * height) := by
  decide

/-! ## block family: assembled -/

/-- **rect = crop, block family** (all block shapes `bw × bh`, all three `ProcessBlocksFn` shapes
incl. the aligned 4×4 fast path taken or not per block line (`fastAt` arbitrary), with or without
channel conversion, all surface sizes and rectangles).  Hypotheses (`RectOk`): `g.bw = p.bw > 0`,
`bh > 0`, the shape is one the helper is instantiated for (4×4 helper: `bh = 4`; 2×1 helper:
`bh = 1`), the rectangle is non-empty, and with conversion one block fits the conversion buffer
(`native_bpp · bh · bw ≤ 3072`, see `pref_pos`).
Conclusions: output pixel `(i, j)` of the rectangle decode carries source pixel `(ox+i, oy+j)` — the
same the full decode (any settings) puts at `(ox+i, oy+j)`; nothing outside the `w × h` view is
written; every write stays in the addressed bytes of an addressed row for every pitch `≥ w·bpp`;
every run reads inside one block. -/
theorem rect_eq_crop_block (p : Proc) (g : RectGeom) (fastAt fastAtF : Nat → Bool) (conv convF : Bool)
    (nbpp nbppF W H : Nat) (ok : RectOk p g conv nbpp)
    (hfitF : convF = true → 0 < nbppF ∧ nbppF * g.bh * p.bw ≤ BUFFER_BYTES)
    (hx : g.ox + g.w ≤ W) (hy : g.oy + g.h ≤ H) :
    (∀ i j, i < g.w → j < g.h →
      lastWrite g.bw g.bh (blockRect p g fastAt conv nbpp) j i = some (g.ox + i, g.oy + j) ∧
      lastWrite g.bw g.bh (blockRect p g fastAt conv nbpp) j i =
        lastWrite g.bw g.bh (blockFull p g.bh fastAtF convF nbppF W H) (g.oy + j) (g.ox + i)) ∧
    (∀ row col, ¬ (col < g.w ∧ row < g.h) →
      lastWrite g.bw g.bh (blockRect p g fastAt conv nbpp) row col = none) ∧
    (∀ r ∈ blockRect p g fastAt conv nbpp, ∀ pitch obpp, g.w * obpp ≤ pitch →
      r.row < g.h ∧ r.row * pitch ≤ r.byteLo pitch obpp ∧ r.byteHi pitch obpp ≤ r.row * pitch + g.w * obpp) ∧
    (∀ r ∈ blockRect p g fastAt conv nbpp, r.px + r.n ≤ g.bw ∧ r.py < g.bh) := by
  obtain ⟨hs, hc, hu⟩ := blockRect_spec p g fastAt conv nbpp ok
  have hbw : 0 < p.bw := by rw [← ok.bw]; exact ok.bwpos
  have hW : 0 < W := by have := ok.w; omega
  obtain ⟨hsF, hcF, _⟩ := blockFull_spec p g.bh fastAtF convF nbppF W H hbw ok.bhpos ok.bhok hW hfitF
  rw [← ok.bw] at hsF
  refine ⟨?_, fun row col ho => lastWrite_outside hs row col ho, ?_, hu⟩
  · intro i j hi hj
    have e1 := lastWrite_crop hs hc i j hi hj
    have e2 := lastWrite_crop hsF hcF (g.ox + i) (g.oy + j) (by omega) (by omega)
    rw [e1, e2]; simp
  · intro r hr pitch obpp hp
    obtain ⟨h1, h2, _, _⟩ := hs r hr
    obtain ⟨b1, _, b3, _⟩ := run_bytes_in_row pitch obpp g.w r hp h2
    exact ⟨h1, b1, b3⟩

example : RectOk .four ⟨4, 4, 3, 5, 6, 9⟩ true 16 :=
  ⟨rfl, by decide, by decide, rfl, by decide, by decide, fun _ => by decide⟩
example : RectOk (.general 12) ⟨12, 12, 7, 1, 30, 40⟩ true 16 :=
  ⟨rfl, by decide, by decide, trivial, by decide, by decide, fun _ => by decide⟩
example : RectOk .two ⟨2, 1, 1, 0, 5, 3⟩ false 3 :=
  ⟨rfl, by decide, by decide, rfl, by decide, by decide, fun h => by cases h⟩

/-- the full decode of the block family: every pixel `(i, j)` of the surface gets its own source pixel,
nothing else is written. -/
theorem full_block (p : Proc) (bh : Nat) (fastAt : Nat → Bool) (conv : Bool) (nbpp W H : Nat)
    (hbw : 0 < p.bw) (hbh : 0 < bh) (hok : p.bhOk bh) (hW : 0 < W)
    (hfit : conv = true → 0 < nbpp ∧ nbpp * bh * p.bw ≤ BUFFER_BYTES) :
    (∀ i j, i < W → j < H → lastWrite p.bw bh (blockFull p bh fastAt conv nbpp W H) j i = some (i, j)) ∧
    (∀ row col, ¬ (col < W ∧ row < H) → lastWrite p.bw bh (blockFull p bh fastAt conv nbpp W H) row col = none) := by
  obtain ⟨hs, hc, _⟩ := blockFull_spec p bh fastAt conv nbpp W H hbw hbh hok hW hfit
  refine ⟨?_, fun row col ho => lastWrite_outside hs row col ho⟩
  intro i j hi hj
  have := lastWrite_crop hs hc i j hi hj
  simpa using this

/-- **decoding into a non-native channel layout = native decode + channel mapping, addressing part**:
the source pixel that reaches an output pixel does not depend on whether / how the channel conversion
buffer is used (conversion on or off, any native pixel size, fast path or not); the colour values then
differ exactly by the per-pixel table of `channel_map`. -/
theorem conversion_independent (p : Proc) (g : RectGeom) (fastAt fastAt' : Nat → Bool) (conv conv' : Bool)
    (nbpp nbpp' : Nat) (ok : RectOk p g conv nbpp) (ok' : RectOk p g conv' nbpp') (row col : Nat) :
    lastWrite g.bw g.bh (blockRect p g fastAt conv nbpp) row col =
      lastWrite g.bw g.bh (blockRect p g fastAt' conv' nbpp') row col := by
  obtain ⟨hs, hc, _⟩ := blockRect_spec p g fastAt conv nbpp ok
  obtain ⟨hs', hc', _⟩ := blockRect_spec p g fastAt' conv' nbpp' ok'
  by_cases hin : col < g.w ∧ row < g.h
  · rw [lastWrite_crop hs hc col row hin.1 hin.2, lastWrite_crop hs' hc' col row hin.1 hin.2]
  · rw [lastWrite_outside hs row col hin, lastWrite_outside hs' row col hin]

/-! ## line buffer -/

/-- **`UntypedLineBuffer`** hands out the lines of the reader in order, whatever its capacity
(`64 KiB / bytes_per_line` clamped to `[1, height]`): the k-th `next_line` is line `k`, and there are
exactly `height` of them.  Hence the decode with the modelled line buffer equals the plain one. -/
theorem line_buffer_in_order (bytesPerLine height : Nat) :
    lineBuffer bytesPerLine height = List.range height := by
  unfold lineBuffer
  by_cases h0 : height = 0
  · subst h0; rfl
  · rw [lbLines_eq _ (lbCapacity_pos _ _ (Nat.pos_of_ne_zero h0)) _ _ _ (Nat.le_refl _)]
    simp

/-! ## bi-planar family -/

/-- chroma-line accounting of `for_each_bi_planar_rect`: the skipped / read / skipped chroma lines add
up to the surface's chroma lines without underflow, the lines read start at the chroma line of row
`oy` and end with the chroma line of row `oy + h - 1` (minimal cover). -/
theorem planar_lines_account (g : PlGeom) (hs : 0 < g.ssy) (hh : 0 < g.h) (hy : g.oy + g.h ≤ g.H) :
    g.uvBefore + g.uvLines + g.uvAfter = divCeil g.H g.ssy ∧
    g.uvBefore + g.uvLines = divCeil (g.oy + g.h) g.ssy ∧
    g.uvBefore * g.ssy ≤ g.oy ∧ g.oy < (g.uvBefore + 1) * g.ssy ∧
    g.oy + g.h ≤ (g.uvBefore + g.uvLines) * g.ssy ∧ (g.uvBefore + g.uvLines - 1) * g.ssy < g.oy + g.h := by
  have h1 : g.uvBefore * g.ssy ≤ g.oy := Nat.div_mul_le_self _ _
  have h1' : g.oy < (g.uvBefore + 1) * g.ssy := by
    have a := Nat.div_add_mod g.oy g.ssy
    have b := Nat.mod_lt g.oy hs
    have : g.uvBefore * g.ssy = g.ssy * (g.oy / g.ssy) := Nat.mul_comm _ _
    rw [Nat.succ_mul]; omega
  have d := divCeil_spec (g.oy + g.h) g.ssy hs
  have hne : g.oy + g.h ≠ 0 := by omega
  simp only [hne, if_false, Nat.add_zero] at d
  have a : g.uvBefore < divCeil (g.oy + g.h) g.ssy := by
    rw [lt_divCeil_iff hs]; omega
  have b : divCeil (g.oy + g.h) g.ssy ≤ divCeil g.H g.ssy := by
    apply Classical.byContradiction
    intro hn
    have : divCeil g.H g.ssy < divCeil (g.oy + g.h) g.ssy := by omega
    rw [lt_divCeil_iff hs] at this
    have := (divCeil_spec g.H g.ssy hs).1
    omega
  have e : g.uvBefore + g.uvLines = divCeil (g.oy + g.h) g.ssy := by
    unfold PlGeom.uvLines PlGeom.uvAfter; omega
  refine ⟨by unfold PlGeom.uvLines PlGeom.uvAfter; omega, e, h1, h1', ?_, ?_⟩
  · rw [e]; exact d.1
  · rw [e]; exact d.2

/-- row level of the bi-planar family for sub-sampling 2 (NV12, P010, P016), stated directly on
`process_bi_planar_helper::<2, ..>`: one row of a rectangle decode without channel conversion (the helper on
the slices `plane1[ox .. ox+w]`, `uv[ox/2 .. div_ceil(ox+w, 2)]` with `offset = ox % 2`) computes output
pixel `c` from luma sample `ox + c` and chroma sample `(ox + c) / 2` — exactly the samples the full decode
uses for surface column `ox + c` — writes every pixel of the row and nothing outside it.
(Formerly `rect_eq_crop_planar_partial`; the assembled statement for whole views, every sub-sampling and
the conversion chunks is `rect_eq_crop_planar` below.) -/
theorem rect_eq_crop_planar_row (ox w yoff ly cy row : Nat) :
    (∀ r ∈ planarHelper 2 (ox % 2) w yoff, ∀ col, r.col ≤ col → col < r.col + r.n →
      col < w ∧
      (PlRun.shift row 0 ox ly (ox / 2) cy r).srcAt 2 col = (ox + col, ly, (ox + col) / 2, cy, yoff)) ∧
    (∀ c, c < w → ∃ r ∈ planarHelper 2 (ox % 2) w yoff, r.col ≤ c ∧ c < r.col + r.n) := by
  have hsp := planarHelper_spec (ox % 2) w yoff (Nat.mod_lt _ (by decide))
  refine ⟨?_, hsp.cover⟩
  intro r hr col h1 h2
  obtain ⟨s1, s2, s3, s4, s5, s6, s7⟩ := hsp.sound r hr
  have := s7 (col - r.col) (by omega)
  refine ⟨by omega, ?_⟩
  unfold PlRun.srcAt PlRun.shift
  simp only [Prod.mk.injEq]
  refine ⟨by omega, by omega, ?_, by omega, s4⟩
  have e : col + 0 - (r.col + 0) = col - r.col := by omega
  show r.cx + ox / 2 + (r.px + (col - (r.col + 0))) / 2 = (ox + col) / 2
  have e2 : col - (r.col + 0) = col - r.col := by omega
  rw [e2]
  omega

example : ∃ r ∈ planarHelper 2 (3 % 2) 4 1, r.col ≤ 2 ∧ 2 < r.col + r.n := by decide

/-- **the full decode of the bi-planar family** (`for_each_bi_planar`), for every sub-sampling
`(ssx, ssy)` with `ssx, ssy ≥ 1`, every surface size, with or without channel conversion (`PlOk`: with
conversion one macro pixel fits the buffer, `ssx ≤ 3072 / native_bpp`): output pixel `(i, j)` is computed
from luma sample `(i, j)`, chroma sample `(i / ssx, j / ssy)` and `y` argument `j % ssy`; nothing else is
written.  Assembles the `y_offset` loop with its running counter `y` (`planarFullInner`,
`planarFullLoop`: `mem_planarFull`) and the conversion chunks (`convPlanar_spec`). -/
theorem full_planar (conv : Bool) (nbpp ssx ssy W H : Nat) (ok : PlOk ssx ssy conv nbpp) :
    (∀ i j, i < W → j < H →
      lastWritePl ssx (planarFull conv nbpp ssx ssy W H) j i = some (i, j, i / ssx, j / ssy, j % ssy)) ∧
    (∀ row col, ¬ (col < W ∧ row < H) → lastWritePl ssx (planarFull conv nbpp ssx ssy W H) row col = none) := by
  have hs := planarFull_sound conv nbpp ssx ssy W H ok
  have hc := planarFull_cover conv nbpp ssx ssy W H ok
  refine ⟨?_, fun row col ho => lastWritePl_outside hs row col ho⟩
  intro i j hi hj
  have := lastWritePl_crop hs hc i j hi hj
  simpa using this

/-- **rect = crop, bi-planar family — assembled** (`for_each_bi_planar_rect` against
`for_each_bi_planar`), for every sub-sampling `(ssx, ssy)` with `ssx, ssy ≥ 1` (shipped: `(2, 2)`),
every surface `W × H`, every rectangle inside it (any offset parity), with or without channel conversion
on either side (`PlOk`: with conversion `ssx ≤ 3072 / native_bpp`), every row pitch.
Conclusions (as in `rect_eq_crop_block`): (1) output pixel `(i, j)` of the rectangle decode is computed
from luma sample `(ox+i, oy+j)`, chroma sample `((ox+i)/ssx, (oy+j)/ssy)` and `y` argument `(oy+j) % ssy`
— the same the full decode (any settings) uses for `(ox+i, oy+j)`; (2) nothing outside the `w × h` view is
written; (3) every write stays in the addressed bytes of an addressed row for every pitch `≥ w·bpp`;
(4) every run feeds slots of ONE macro pixel (one chroma sample; slots `0..n`, see `imagePl`), and every
sample it reads lies inside its plane (`luma x < W`, `luma y < H`, `chroma x < div_ceil(W, ssx)`,
`chroma y < div_ceil(H, ssy)`).
Assembles (i) the `y_offset` loops with the running counter `y` — rows before the rectangle skipped,
loop left after it, `y = (uv_before + k)·ssy` at every chroma line (`mem_planarRect`, `mem_planarFull`) —
and (ii) the chunk composition of `ChannelConversionBuffer::process_bi_planar` — the offset chunk ends on
a macro-pixel boundary, `preferred_chunk_size` is a positive multiple of `ssx`, so every chunk start is
aligned and `plane2_start · ssx = chunk_start` (`convPlanar_spec`). -/
theorem rect_eq_crop_planar (g : PlGeom) (conv convF : Bool) (nbpp nbppF W : Nat)
    (ok : PlOk g.ssx g.ssy conv nbpp) (okF : PlOk g.ssx g.ssy convF nbppF)
    (hx : g.ox + g.w ≤ W) (hy : g.oy + g.h ≤ g.H) :
    (∀ i j, i < g.w → j < g.h →
      lastWritePl g.ssx (planarRect conv nbpp g) j i =
        some (g.ox + i, g.oy + j, (g.ox + i) / g.ssx, (g.oy + j) / g.ssy, (g.oy + j) % g.ssy) ∧
      lastWritePl g.ssx (planarRect conv nbpp g) j i =
        lastWritePl g.ssx (planarFull convF nbppF g.ssx g.ssy W g.H) (g.oy + j) (g.ox + i)) ∧
    (∀ row col, ¬ (col < g.w ∧ row < g.h) → lastWritePl g.ssx (planarRect conv nbpp g) row col = none) ∧
    (∀ r ∈ planarRect conv nbpp g, ∀ pitch obpp, g.w * obpp ≤ pitch →
      r.row < g.h ∧ r.row * pitch ≤ r.byteLo pitch obpp ∧ r.byteHi pitch obpp ≤ r.row * pitch + g.w * obpp) ∧
    (∀ r ∈ planarRect conv nbpp g, r.px + r.n ≤ g.ssx ∧ r.ly < g.H ∧ r.cy < divCeil g.H g.ssy ∧
      ∀ t, t < r.n → r.lx + t < W ∧ r.cx + (r.px + t) / g.ssx < divCeil W g.ssx) := by
  have hs := planarRect_sound conv nbpp g ok hy
  have hc := planarRect_cover conv nbpp g ok hy
  have hsF := planarFull_sound convF nbppF g.ssx g.ssy W g.H okF
  have hcF := planarFull_cover convF nbppF g.ssx g.ssy W g.H okF
  refine ⟨?_, fun row col ho => lastWritePl_outside hs row col ho, ?_, ?_⟩
  · intro i j hi hj
    have e1 := lastWritePl_crop hs hc i j hi hj
    have e2 := lastWritePl_crop hsF hcF (g.ox + i) (g.oy + j) (by omega) (by omega)
    rw [e1, e2]; simp
  · intro r hr pitch obpp hp
    obtain ⟨h1, h2, _⟩ := hs r hr
    obtain ⟨b1, _, b3, _⟩ := plRun_bytes_in_row pitch obpp g.w r hp h2
    exact ⟨h1, b1, b3⟩
  · intro r hr
    obtain ⟨h1, h2, h3, h4, h5, h6, h7, h8, h9⟩ := hs r hr
    have hcy : r.cy * g.ssy ≤ g.oy + r.row := by rw [h8]; exact Nat.div_mul_le_self _ _
    refine ⟨h5, by omega, by rw [lt_divCeil_iff ok.sy]; omega, ?_⟩
    intro t ht
    have e0 : (r.px + t) / g.ssx = 0 := Nat.div_eq_of_lt (by omega)
    refine ⟨by omega, ?_⟩
    rw [e0, Nat.add_zero, lt_divCeil_iff ok.sx]; omega

/-- the hypotheses are satisfiable: NV12-like `5 × 3` surface, rectangle `3 × 2` at the odd offset `(1, 1)`,
without conversion and with a conversion buffer of exactly one macro pixel (`3072 / 1536 = 2`, so the
row is cut into the offset chunk and aligned chunks of 2). -/
example : PlOk 2 2 false 4 ∧ PlOk 2 2 true 1536 ∧ (1 : Nat) + 3 ≤ 5 ∧ (1 : Nat) + 2 ≤ 3 :=
  ⟨⟨by decide, by decide, fun h => by cases h⟩, ⟨by decide, by decide, fun _ => by decide⟩, by decide, by decide⟩
/-- ... and the model really computes it: pixel `(2, 1)` of that rectangle is surface pixel `(3, 2)` with
chroma sample `(1, 1)`, `y` argument 0, through the chunked conversion path as well; the whole `3 × 2`
view agrees with the crop of the full decode and the pixel right of / below the view is untouched. -/
example : lastWritePl 2 (planarRect false 4 ⟨2, 2, 3, 1, 1, 3, 2⟩) 1 2 = some (3, 2, 1, 1, 0) ∧
    lastWritePl 2 (planarRect true 1536 ⟨2, 2, 3, 1, 1, 3, 2⟩) 1 2 = some (3, 2, 1, 1, 0) ∧
    (∀ j ∈ List.range 2, ∀ i ∈ List.range 3,
      lastWritePl 2 (planarRect true 1536 ⟨2, 2, 3, 1, 1, 3, 2⟩) j i =
        lastWritePl 2 (planarFull false 4 2 2 5 3) (1 + j) (1 + i)) ∧
    lastWritePl 2 (planarRect true 1536 ⟨2, 2, 3, 1, 1, 3, 2⟩) 0 3 = none ∧
    lastWritePl 2 (planarRect true 1536 ⟨2, 2, 3, 1, 1, 3, 2⟩) 2 0 = none ∧
    (planarRect true 1536 ⟨2, 2, 3, 1, 1, 3, 2⟩).length = 4 :=
  ⟨by decide, by decide, by decide, by decide, by decide, by decide⟩
/-- asymmetric sub-sampling `(4, 1)` with offset `ox % 4 = 3` -/
example : PlOk 4 1 true 16 ∧
    lastWritePl 4 (planarRect true 16 ⟨4, 1, 3, 3, 1, 6, 2⟩) 1 4 = some (7, 2, 1, 2, 0) := by
  refine ⟨⟨by decide, by decide, fun _ => by decide⟩, by decide⟩

/-- **rect = crop for the decoded values**: for any slot-wise pixel function `f luma chroma y` and any
plane contents, pixel `(i, j)` of the rectangle decode equals pixel `(ox+i, oy+j)` of the full decode. -/
theorem rect_eq_crop_planar_image {β₁ β₂ γ : Type} (f : β₁ → β₂ → Nat → γ) (plane1 : Nat → Nat → β₁)
    (plane2 : Nat → Nat → β₂) (g : PlGeom) (conv convF : Bool) (nbpp nbppF W : Nat)
    (ok : PlOk g.ssx g.ssy conv nbpp) (okF : PlOk g.ssx g.ssy convF nbppF)
    (hx : g.ox + g.w ≤ W) (hy : g.oy + g.h ≤ g.H) (i j : Nat) (hi : i < g.w) (hj : j < g.h) :
    imagePl g.ssx f plane1 plane2 (planarRect conv nbpp g) j i =
      imagePl g.ssx f plane1 plane2 (planarFull convF nbppF g.ssx g.ssy W g.H) (g.oy + j) (g.ox + i) ∧
    imagePl g.ssx f plane1 plane2 (planarRect conv nbpp g) j i =
      some (f (plane1 (g.ox + i) (g.oy + j)) (plane2 ((g.ox + i) / g.ssx) ((g.oy + j) / g.ssy))
        ((g.oy + j) % g.ssy)) := by
  obtain ⟨e1, e2⟩ := (rect_eq_crop_planar g conv convF nbpp nbppF W ok okF hx hy).1 i j hi hj
  unfold imagePl
  rw [← e2, e1]
  exact ⟨rfl, rfl⟩

/-- `PlOk`, finite part: for the shipped sub-sampling 2 (and every `ssx < 16` a `u8` pair of the format
table could hold) and every native pixel size `1..16` bytes the conversion buffer holds at least one macro
pixel, so `step_by(preferred_chunk_size)` never sees 0. -/
theorem planar_pref_pos :
    ∀ ssx ∈ List.range' 1 15, ∀ nbpp ∈ [1, 2, 3, 4, 6, 8, 12, 16],
      ssx ≤ BUFFER_BYTES / nbpp ∧ 0 < roundDown (BUFFER_BYTES / nbpp) ssx := by
  decide

/-! ## channel mapping and decoder selection -/

/-- **channel_map, structure of the 16-entry `convert_channels` table** (complete evaluation):
the output has the target's channel count and reads only channels the native pixel has; the identity
entries copy; grey replicates into all colour channels; a colour source gives its first (red) channel
as grey; the output alpha is the source alpha if there is one and opaque (`ONE`) otherwise; an
alpha-only source gives black (`ZERO`) colour. -/
theorem channel_map :
    (∀ f ∈ allChannels, ∀ t ∈ allChannels,
      (chanMap f t).length = t.count ∧ (∀ s ∈ chanMap f t, s.inRange f.count = true)) ∧
    (∀ c ∈ allChannels, chanMap c c = (List.range c.count).map .ch) ∧
    chanMap .gray .rgb = [.ch 0, .ch 0, .ch 0] ∧ chanMap .gray .rgba = [.ch 0, .ch 0, .ch 0, .one] ∧
    chanMap .rgb .gray = [.ch 0] ∧ chanMap .rgba .gray = [.ch 0] ∧
    chanMap .rgb .rgba = [.ch 0, .ch 1, .ch 2, .one] ∧ chanMap .rgba .rgb = [.ch 0, .ch 1, .ch 2] ∧
    chanMap .rgba .alpha = [.ch 3] ∧ chanMap .gray .alpha = [.one] ∧ chanMap .rgb .alpha = [.one] ∧
    chanMap .alpha .gray = [.zero] ∧ chanMap .alpha .rgb = [.zero, .zero, .zero] ∧
    chanMap .alpha .rgba = [.zero, .zero, .zero, .ch 0] := by
  decide

/-- mapping a native pixel to its own layout is the identity (on pixels of the right length) -/
theorem mapPixel_id (z o a b c d : Nat) :
    mapPixel z o [a] (chanMap .gray .gray) = [a] ∧
    mapPixel z o [a] (chanMap .alpha .alpha) = [a] ∧
    mapPixel z o [a, b, c] (chanMap .rgb .rgb) = [a, b, c] ∧
    mapPixel z o [a, b, c, d] (chanMap .rgba .rgba) = [a, b, c, d] := by
  refine ⟨rfl, rfl, rfl, rfl⟩

/-- **decoder selection** (`DecoderSet::get_decoder`): if some decoder of the set is native for the
requested colour it is the one chosen (no conversion happens); otherwise the chosen decoder has the
requested precision, so the conversion is a pure channel mapping at that precision; and a decoder is
found whenever the set has one of that precision. -/
theorem getDecoder_spec (natives : List Color) (c : Color) :
    (c ∈ natives → getDecoder natives c = some c) ∧
    (∀ d, getDecoder natives c = some d → d ∈ natives ∧ d.pr = c.pr) ∧
    ((∃ d ∈ natives, d.pr = c.pr) → (getDecoder natives c).isSome) := by
  unfold getDecoder
  refine ⟨?_, ?_, ?_⟩
  · intro hc
    have hsome : (natives.find? (· == c)).isSome := by
      rw [List.find?_isSome]; exact ⟨c, hc, by simp⟩
    obtain ⟨d, hd⟩ := Option.isSome_iff_exists.1 hsome
    have : (d == c) = true := List.find?_some (p := fun (x : Color) => x == c) hd
    rw [hd]; simp only [beq_iff_eq] at this; rw [this]
  · intro d hd
    cases h1 : natives.find? (· == c) with
    | some d' =>
      rw [h1] at hd
      have hd' : d' = d := by simpa using hd
      subst hd'
      have hb : (d' == c) = true := List.find?_some (p := fun (x : Color) => x == c) h1
      simp only [beq_iff_eq] at hb
      exact ⟨List.mem_of_find?_eq_some h1, by rw [hb]⟩
    | none =>
      rw [h1] at hd
      have hb : (d.pr == c.pr) = true := List.find?_some (p := fun (x : Color) => x.pr == c.pr) hd
      simp only [beq_iff_eq] at hb
      exact ⟨List.mem_of_find?_eq_some hd, hb⟩
  · rintro ⟨d, hd, hp⟩
    cases h1 : natives.find? (· == c) with
    | some d' => simp
    | none =>
      show (natives.find? (·.pr == c.pr)).isSome
      rw [List.find?_isSome]
      exact ⟨d, hd, by simp [hp]⟩

/-- every format of the driver's table finds a decoder for each of the 12 colours, and the decoder
found is the exact native one whenever the set has it (finite check over the table). -/
theorem table_decoders_total :
    ∀ natives ∈ [Drv.C05.stdNat .gray, Drv.C05.stdNat .alpha, Drv.C05.stdNat .rgb, Drv.C05.stdNat .rgba,
                 Drv.C05.stdNat .rgb ++ [⟨.rgba, .u8⟩], Drv.C05.stdNat .rgba ++ Drv.C05.stdNat .rgb],
    ∀ ch ∈ allChannels, ∀ pr ∈ allPrecisions,
      (getDecoder natives ⟨ch, pr⟩).isSome ∧
      ((⟨ch, pr⟩ : Color) ∈ natives → getDecoder natives ⟨ch, pr⟩ = some ⟨ch, pr⟩) := by
  decide

/-! ## locality -/

/-- **locality**: the decoded value at an output pixel is a function of the one encoded unit that
contains its source pixel — two data sets that agree on that unit give the same pixel (for any
per-unit decode function and any run list; which unit that is, is fixed by `rect_eq_crop_*`). -/
theorem locality {β γ : Type} (bw bh : Nat) (dec : β → Nat → Nat → γ) (data data' : Nat → Nat → β)
    (runs : List Run) (row col sx sy : Nat) (hsrc : lastWrite bw bh runs row col = some (sx, sy))
    (hagree : data (sx / bw) (sy / bh) = data' (sx / bw) (sy / bh)) :
    image bw bh dec data runs row col = image bw bh dec data' runs row col := by
  unfold image
  rw [hsrc]
  simp only [Option.map_some]
  rw [hagree]

end Dds.C05
