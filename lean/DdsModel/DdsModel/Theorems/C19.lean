/-
C19 — Format metadata agrees with what the codecs actually do.

Only the property theorems and non-vacuity examples live here; helper lemmas are in
`Proofs/FormatTables.lean` and `Proofs/Dither.lean`.  All statements are about the tables of
`FormatTables.lean` (header / detection rows translated from the source on every run via `SrcTables.lean`,
so the `decide` theorems are re-checked for the rows the code has now; format layouts, colours and encoder lists
pinned) and the dataflow model `Dither.lean`; the tie to the library is the C19 stream
of check.py (tables: exhaustive; codecs: every format × sizes × dithering modes).
-/
import DdsModel.Proofs.FormatTables
import DdsModel.Proofs.Dither
import DdsModel.Drv.C19
namespace Dds.C19
open Dds

/-! ## (a) the layout derived from the header is the layout of the detected format -/

/-- For every header from which a format is detected — every valid DXGI code with any alpha mode,
ANY FourCC value, ANY mask pixel format with a valid bit count — `PixelInfo::from_header` does not
panic and returns exactly `PixelInfo::from(Format::from_header(..))`. -/
theorem pixelinfo_agrees (h : Hdr) (hv : h.Valid) (f : Format) (hf : formatOfHeader h = .ok f) :
    ∃ px, formatPixelInfoP f = some px ∧ pixelInfoOfHeaderP h = some (.ok px) := by
  cases h with
  | dx10 code alpha =>
    obtain ⟨hvalid, halpha⟩ := hv
    have hb := dx10Agrees_all code (dxgiValid_lt hvalid) alpha halpha hvalid
    unfold dx10Agrees at hb
    rw [hf] at hb
    simp only at hb
    cases hp : formatPixelInfoP f with
    | none => rw [hp] at hb; simp at hb
    | some px =>
      rw [hp] at hb
      cases hq : pixelInfoOfHeaderP (.dx10 code alpha) with
      | none => rw [hq] at hb; simp at hb
      | some r =>
        rw [hq] at hb
        cases r with
        | error e => simp at hb
        | ok p =>
          simp only [beq_iff_eq] at hb
          exact ⟨px, rfl, by rw [hb]⟩
  | fourCC cc =>
    simp only [formatOfHeader] at hf
    cases hc : fourCCToFormat cc with
    | none => rw [hc] at hf; simp at hf
    | some g =>
      rw [hc] at hf
      simp only [Except.ok.injEq] at hf
      subst hf
      refine ⟨g.row.px, formatPixelInfoP_eq g, ?_⟩
      simp only [pixelInfoOfHeaderP]
      rw [hc]
      simp only [formatPixelInfoP_eq g, Option.map_some]
  | mask pf =>
    simp only [formatOfHeader] at hf
    cases hc : maskToFormat pf with
    | none => rw [hc] at hf; simp at hf
    | some g =>
      rw [hc] at hf
      simp only [Except.ok.injEq] at hf
      subst hf
      obtain ⟨row, hrow, hmatch, hfmt⟩ := maskFind_some maskRows hc
      have hbc := matches_bitCount hmatch
      have := maskRows_bitCount row hrow
      rw [hfmt] at this
      exact ⟨_, this, by simp only [pixelInfoOfHeaderP]; rw [hbc]⟩

-- the hypotheses are satisfiable in each arm, including the special case and the default arms
example : formatOfHeader (.dx10 29 0) = .ok .R8G8B8A8_UNORM := by rfl
example : formatOfHeader (.dx10 77 2) = .ok .BC3_UNORM_PREMULTIPLIED_ALPHA := by rfl
example : formatOfHeader (.fourCC FCC_ATI2) = .ok .BC5_UNORM := by rfl
example : formatOfHeader (.fourCC 113) = .ok .R16G16B16A16_FLOAT := by rfl
example : formatOfHeader (.mask ⟨0x20001, 16, 0xFF, 0, 0, 0xFF00⟩) = .ok .R8G8_UNORM := by rfl
example : formatOfHeader (.mask ⟨0x40, 24, 0xFF, 0xFF00, 0xFF0000, 0⟩) = .ok .R8G8B8_UNORM := by rfl
example : formatOfHeader (.fourCC 12345) = .error .fourCC := by rfl
-- a valid DXGI code with a layout but no supported format: the layout exists, no format is detected
example : formatOfHeader (.dx10 110 0) = .error .dxgi ∧
    pixelInfoOfHeaderP (.dx10 110 0) = some (.ok (.biPlanar 1 2 4 1)) := ⟨by rfl, by rfl⟩

/-- The range pattern of `DxgiFormat::try_from` accepts exactly the codes of the named `DxgiFormat` constants
(both translated from the source; no row count is pinned). -/
theorem dxgi_codes_complete (code : Nat) : dxgiValid code = (dxgiRow? code).isSome := by
  by_cases h : code < 256
  · exact dxgiValid_iff_row code h
  · have h1 : dxgiValid code = false := by
      cases hv : dxgiValid code with
      | false => rfl
      | true => exact absurd (dxgiValid_lt hv) h
    have h2 : (dxgiRow? code).isSome = false := by
      unfold dxgiRow?
      cases hr : dxgiTable.find? (·.code == code) with
      | none => rfl
      | some r =>
        exfalso
        have hm := List.mem_of_find?_eq_some hr
        have hc : r.code = code := by
          have := List.find?_some hr
          simpa using this
        have hall : dxgiTable.all (fun r => decide (r.code < 256)) = true := by decide +kernel
        have := of_decide_eq_true (List.all_eq_true.mp hall r hm)
        omega
    rw [h1, h2]

/-! ## (b) the metadata of a format is consistent with itself and with the codec tables -/

/-- everything clause (b) says about one format, as a Boolean evaluated on the pinned tables -/
def metadataCheck (f : Format) : Bool :=
  let px := f.row.px
  -- the layout computed by the code (`From<Format> for PixelInfo`) is the pinned one, well formed
  (formatPixelInfoP f == some px) && decide px.WF &&
  -- bits per pixel = the value derived from the layout (8·bytes/pixel of a large surface, rounded up)
  (bitsPerPixel px == bitsPerPixelSpec px) &&
  -- the canonical DXGI code is valid, has the same layout, and is detected as this format again
  -- (BC3_UNORM_NORMAL is documented as undetectable: it is written as BC3_UNORM)
  (match f.row.dxgi with
   | none => true
   | some dx => dxgiValid dx && (dxgiPixelInfo dx == some px) &&
       ((dxgiToFormat dx == some f) ||
        (f == .BC3_UNORM_NORMAL && dxgiToFormat dx == some .BC3_UNORM))) &&
  -- the FourCC written for the format is detected as this format
  (match f.row.fourCC with
   | none => true
   | some cc => fourCCToFormat cc == some f) &&
  -- the mask pattern written for the format is detected as this format
  (match formatToMask f with
   | none => true
   | some pf => (maskToFormat pf == some f) && bitCountValid pf.bitCount) &&
  (match encoderSet f with
   | none => true
   | some s =>
     -- encodable: every colour format × option finds an encoder (no `expect` panic)
     (ColorFormat.all.all fun c => Dithering.all.all fun d => (s.pick c d).isSome) &&
     -- a verbatim-copy encoder exists only for the decoder's native colour, whose size is the
     -- layout's pixel size
     (s.encs.all fun e =>
        match e.colors with
        | .single c => (c == f.row.color) &&
            (px == .fixed ((match c.channels with | .gray | .alpha => 1 | .rgb => 3 | .rgba => 4) *
                           (match c.precision with | .u8 => 1 | .u16 => 2 | .f32 => 4)))
        | _ => true) &&
     -- the size multiple is the chroma sub-sampling of the layout (and absent otherwise)
     (s.support.sizeMultiple == match px with
                                | .biPlanar _ _ sx sy => some (sx, sy) | _ => none) &&
     -- the split height is the block height; none for bi-planar
     (s.support.splitHeight == match px with
                               | .fixed _ => some 1 | .block _ _ bh => some bh
                               | .biPlanar .. => none) &&
     -- documented: "dithering() == None implies local_dithering() == false"
     (!s.support.localDithering || (s.support.dithering != Dithering.none)))

/-- Clause (b) for all 73 formats (complete evaluation of the tables). -/
theorem metadata_consistent : ∀ f : Format, metadataCheck f = true :=
  forall_format (by decide +kernel)

/-- `supports_size` tests exactly divisibility by the advertised size multiple, for every size. -/
theorem supports_size_iff (s : Support) (w h : Nat) :
    s.supportsSize w h = true ↔
      ∀ mw mh, s.sizeMultiple = some (mw, mh) → w % mw = 0 ∧ h % mh = 0 := by
  unfold Support.supportsSize
  cases hs : s.sizeMultiple with
  | none => simp
  | some m =>
    obtain ⟨a, b⟩ := m
    simp only [Bool.and_eq_true, beq_iff_eq, Option.some.injEq, Prod.mk.injEq]
    constructor
    · intro h mw mh hm; obtain ⟨rfl, rfl⟩ := hm; exact h
    · intro h; exact h a b ⟨rfl, rfl⟩

/-- Encoding is advertised as possible exactly when an encoder list exists, and for the three
bi-planar formats exactly the even sizes are supported; every other encodable format supports every
size. -/
theorem encodable_sizes (f : Format) (s : Support) (hs : encodingSupport f = some s) (w h : Nat) :
    s.supportsSize w h = true ↔
      ((f = .NV12 ∨ f = .P010 ∨ f = .P016) → w % 2 = 0 ∧ h % 2 = 0) := by
  have key : ∀ f : Format, (match encodingSupport f with
      | none => true
      | some s => s.sizeMultiple ==
          if f = .NV12 ∨ f = .P010 ∨ f = .P016 then some (2, 2) else none) = true :=
    forall_format (by decide +kernel)
  have hk := key f
  rw [hs] at hk
  simp only [beq_iff_eq] at hk
  rw [supports_size_iff, hk]
  by_cases hf : f = .NV12 ∨ f = .P010 ∨ f = .P016
  · rw [if_pos hf]
    constructor
    · intro h' _; exact h' 2 2 rfl
    · intro h' mw mh hm
      simp only [Option.some.injEq, Prod.mk.injEq] at hm
      obtain ⟨rfl, rfl⟩ := hm
      exact h' hf
  · rw [if_neg hf]
    constructor
    · intro _ h'; exact absurd h' hf
    · intro _ mw mh hm; simp at hm

example : (encodingSupport .NV12).map (·.supportsSize 4 6) = some true := by decide
example : (encodingSupport .NV12).map (·.supportsSize 4 5) = some false := by decide
example : encodingSupport .BC6H_UF16 = none := by decide

/-! ## the overlapping flag bits (`DITHER_ALPHA = 0x16`) -/

/-- the encoder table is free of flag confusion: Boolean evaluated per format -/
def flagsCheck (f : Format) : Bool :=
  match encoderSet f with
  | none => true
  | some s =>
    -- per encoder: the exactness test `flags.contains(exact_for(p))` answers what was meant …
    (s.encs.all fun e => [Precision.u8, .u16, .f32].all fun p =>
        flagsContain e.flags.bits (exactFor p) == e.flags.exactAt p) &&
    -- … and `get_dithering` reads back exactly the dithering flags that were set
    (s.encs.all fun e =>
        getDithering e.flags.bits == ⟨e.flags.ditherColor, e.flags.ditherAlpha⟩) &&
    -- the advertised dithering (from the OR of all flag bytes) is the union of the encoders' flags
    (s.support.dithering ==
        s.encs.foldl (fun acc e => acc.union ⟨e.flags.ditherColor, e.flags.ditherAlpha⟩)
          Dithering.none)

/-- With the source's exact bit values and bit tests, no encoder of the table passes an exactness
test it should fail (or vice versa), and no format advertises dithering it lacks (or hides one). -/
theorem flags_no_confusion : ∀ f : Format, flagsCheck f = true :=
  forall_format (by decide +kernel)

-- The theorem is about the table, not about the encoding: an encoder that were both EXACT_U8 and
-- DITHER_ALPHA would pass the EXACT_F32 test …
example : flagsContain (SymFlags.bits ⟨some .u8, false, true⟩) (exactFor .f32) = true := by decide
example : (SymFlags.exactAt ⟨some .u8, false, true⟩ .f32) = false := by decide
-- … and an `intersects` test instead of `contains` would make R32_FLOAT advertise alpha dithering.
example : flagsIntersect (SymFlags.bits ⟨some .f32, false, false⟩) FLAG_DITHER_ALPHA = true := by decide
example : (encodingSupport .R32_FLOAT).map (·.dithering) = some Dithering.none := by decide

/-! ## (c) dithering acts only where advertised and requested -/

/-- Floyd–Steinberg encoders, arbitrary image (any number of rows of any lengths), arbitrary
quantiser `q`: if the error mask is 0 on the lanes of a channel group `G`, then every view of the
stored pixel that depends only on the `G` lanes of the quantiser's input (e.g. the stored alpha
bits) is identical to the view of the undithered encoding. -/
theorem dither_mask_independent {Out β : Type} (q : V4 → Out × V4) (mask : V4) (G : Ch → Prop)
    (hmask : ∀ c, G c → mask.get c = 0) (view : Out → β)
    (hview : ∀ p p', (∀ c, G c → p.get c = p'.get c) → view (q p).1 = view (q p').1)
    (rows : List (List V4)) :
    (ditherImage q mask rows).map (·.map view) = (plainImage q rows).map (·.map view) := by
  have h := ditherRows_view (G := G) q hmask view hview rows (fun _ => V4.zero)
    (fun _ => zeroOn_zero G)
  unfold ditherImage plainImage
  rw [h]
  simp only [List.map_map, Function.comp_def]

/-- The instance the property names: with `Dithering::Color` the stored alpha, and with
`Dithering::Alpha` the stored colour, are those of `Dithering::None` — for the mask the source
derives from the option. -/
theorem dither_unrequested_group_untouched {Out β : Type} (q : V4 → Out × V4) (d : Dithering)
    (g : Group) (hd : d.has g = false) (view : Out → β)
    (hview : ∀ p p', (∀ c, g.has c → p.get c = p'.get c) → view (q p).1 = view (q p').1)
    (rows : List (List V4)) :
    (ditherImage q (errorMask d) rows).map (·.map view) =
      (ditherImage q (errorMask Dithering.none) rows).map (·.map view) := by
  rw [dither_mask_independent q (errorMask d) g.has (errorMask_zeroOn d g hd) view hview rows,
    dither_mask_independent q (errorMask Dithering.none) g.has
      (errorMask_zeroOn Dithering.none g (by cases g <;> rfl)) view hview rows]

-- a quantiser whose alpha output depends on the alpha lane only, and whose colour *does* dither:
-- 1-bit quantisation of every lane; the hypotheses hold and the colour output really changes
private def q1 (p : V4) : (Bool × Bool) × V4 :=
  let b := fun (r : Rat) => decide (r ≥ 1 / 2)
  let back := fun (r : Rat) => if r ≥ 1 / 2 then (1 : Rat) else 0
  ((b p.x, b p.w), ⟨p.x - back p.x, p.y - back p.y, p.z - back p.z, p.w - back p.w⟩)
private def row1 : List (List V4) := [[⟨2/5, 0, 0, 2/5⟩, ⟨2/5, 0, 0, 2/5⟩, ⟨2/5, 0, 0, 2/5⟩]]
example : (ditherImage q1 (errorMask ⟨true, false⟩) row1).map (·.map (·.2)) =
    (plainImage q1 row1).map (·.map (·.2)) := by decide +kernel
example : (ditherImage q1 (errorMask ⟨true, false⟩) row1).map (·.map (·.1)) ≠
    (plainImage q1 row1).map (·.map (·.1)) := by decide +kernel

/-- BC2 / BC3 wiring, arbitrary block encoders: when the alpha block is handed the alpha switch, the
colour block the colour switch, and no switch rewrites a joint block, then the alpha block is a
function of the alpha inputs and the alpha switch only, and the colour block of the pixel inputs and
the colour switch only. -/
theorem bc_blocks_independent {A P α β : Type} (w : BcWiring) (encA : Bool → A → α)
    (encC : Bool → Bool → P → β) (hA : w.alphaBlock = some .alpha) (hC : w.colorBlock = .color)
    (hJ : w.alphaJoint = false) (d d' : Dithering) (alphaIn : A) (px : P) :
    (d.alpha = d'.alpha → (bcBlock w encA encC d alphaIn px).1 = (bcBlock w encA encC d' alphaIn px).1) ∧
    (d.color = d'.color → (bcBlock w encA encC d alphaIn px).2 = (bcBlock w encA encC d' alphaIn px).2) := by
  unfold bcBlock
  rw [hA, hC, hJ]
  constructor
  · intro h; simp only [Option.map_some, Switch.on, h]
  · intro h; simp only [Switch.on, h, Bool.false_and]

/-- every encodable BC format that stores an alpha block separately (BC2, BC3 and their premultiplied
variants) has exactly that wiring; the only formats outside the alpha-independent class are the
joint-block formats BC1 and BC7 -/
theorem bc_wiring_table :
    (∀ f ∈ [Format.BC2_UNORM, .BC2_UNORM_PREMULTIPLIED_ALPHA, .BC3_UNORM, .BC3_UNORM_PREMULTIPLIED_ALPHA],
      (encoderSet f).map (·.encs.map (·.kind)) = some [.bc ⟨.color, some .alpha, false⟩]) ∧
    (∀ f : Format, alphaIndependent f = true ↔
      ((encoderSet f).isSome = true ∧ f ≠ .BC1_UNORM ∧ f ≠ .BC7_UNORM)) :=
  ⟨by decide +kernel, forall_format (by decide +kernel)⟩

-- if the alpha block were handed the colour switch (the defect fixed in /repo commit 24de876), the
-- alpha block would follow colour-only dithering: the hypothesis `hA` is necessary
example : (bcBlock (A := Unit) (P := Unit) ⟨.color, some .color, false⟩ (fun b _ => b) (fun b _ _ => b)
    ⟨true, false⟩ () ()).1 ≠
    (bcBlock ⟨.color, some .color, false⟩ (fun b _ => b) (fun b _ _ => b) ⟨false, false⟩ () ()).1 := by
  decide

/-- the path statement for one format: Boolean over all 12 colour formats × 4 options -/
def pathCheck (f : Format) : Bool :=
  match encoderSet f with
  | none => true
  | some s =>
    ColorFormat.all.all fun c => Dithering.all.all fun d =>
      match effectiveDithering f c d with
      | none => false
      | some eff =>
        -- only where advertised: a group the format does not advertise is never dithered
        (s.support.dithering.color || !eff.color) && (s.support.dithering.alpha || !eff.alpha) &&
        -- only where requested (this includes R1_UNORM's unconditional ordered dithering: that
        -- encoder is reached only when colour dithering is requested)
        (d.color || !eff.color) && (d.alpha || !eff.alpha)

/-- For every format, colour format and option: the encoder `pick_encoder` selects exists (no panic)
and dithers a channel group only if the format advertises dithering for it AND the option requests
it. -/
theorem dither_support_selects_path : ∀ f : Format, pathCheck f = true :=
  forall_format (by decide +kernel)

-- paths that do dither exist (the statement is not vacuous)
example : effectiveDithering .B5G5R5A1_UNORM rgbaF32 ⟨true, false⟩ = some ⟨true, false⟩ := by decide
example : effectiveDithering .A8_UNORM rgbaF32 ⟨true, true⟩ = some ⟨false, true⟩ := by decide
example : effectiveDithering .R8G8B8A8_UNORM rgbaU8 ⟨true, true⟩ = some ⟨false, false⟩ := by decide
example : effectiveDithering .BC3_UNORM rgbaU8 ⟨false, true⟩ = some ⟨false, true⟩ := by decide

end Dds.C19
