/-
C10 — The encoder writes a complete, re-readable DDS file of exactly the declared size.

* the writer loops of every encoder family (`EncLen.lean`) write exactly the layout length
  of the surface, for EVERY width, height, buffer size and chunk size;
* together with C11's invariant a finished encoder has written exactly the layout's data
  length, every surface at its layout offset, in layout order (`C11.finished_file_len`,
  `C11.history`);
* re-opening (`reopen`): the models of header writer/parser (C09), layout (C02), encoder (C11) and
  decoder (C08) composed: the bytes of a finished encoder parse back to the same header, hence the
  same layout, and a decoder that walks all surfaces stops exactly at the last byte written.
-/
import DdsModel.Proofs.EncLen
import DdsModel.Proofs.Layout
import DdsModel.Theorems.C11
import DdsModel.Theorems.C09
import DdsModel.Proofs.Reopen
import DdsModel.Proofs.HeaderLayout
namespace Dds.C10
open Dds

/-- `for_each_chunk`, contiguous image: the chunk writes add up to `pixels * encoded bpp`,
whatever the buffer size. -/
theorem uncompressed_contig_len (totalPx bufPx encBpp : Nat) (hb : 1 ≤ bufPx) :
    (chunksContig totalPx bufPx encBpp).sum = totalPx * encBpp := by
  unfold chunksContig
  rw [sum_map_mul, chunkLens_sum bufPx hb _ _ (Nat.le_refl _)]

/-- `for_each_chunk`, strided image (buffer filled row by row, flushed when full, final
flush): the writes add up to `w * h * encoded bpp`, whatever the buffer size. -/
theorem uncompressed_rows_len (w h bufPx encBpp : Nat) (hb : 1 ≤ bufPx) :
    (chunksRows w h bufPx encBpp).sum = w * h * encBpp := by
  unfold chunksRows
  rw [sum_map_mul, chunksRowsAux_sum bufPx w hb h 0 (by omega)]
  simp

/-- every flush of the strided path fits the buffer and is non-empty is implied by
`fillRow_sum`; the dithering encoder cuts every row separately -/
theorem dither_len (w h chunkPx encBpp : Nat) (hc : 1 ≤ chunkPx) :
    (chunksPerRow w h chunkPx encBpp).sum = w * h * encBpp := by
  unfold chunksPerRow
  rw [sum_flatten_range_const, sum_map_mul, chunkLens_sum chunkPx hc _ _ (Nat.le_refl _)]
  ac_rfl

/-- sub-sampled formats (`bw x 1` blocks): a row cut into chunks that are multiples of the
block width writes `ceil(w / bw)` blocks — partial chunks included. -/
theorem subsample_len (w h chunkPx bw blockBytes : Nat) (hbw : 1 ≤ bw) (hcp : 1 ≤ chunkPx)
    (hdvd : chunkPx % bw = 0) :
    (chunksSubsample w h chunkPx bw blockBytes).sum =
      (PixelInfo.block blockBytes bw 1).surfIdeal w h := by
  unfold chunksSubsample
  rw [sum_flatten_range_const]
  have : ((chunkLens chunkPx w w).map fun p => divCeil p bw * blockBytes) =
      ((chunkLens chunkPx w w).map fun p => divCeil p bw).map (· * blockBytes) := by
    rw [List.map_map]; rfl
  rw [this, sum_map_mul, chunkLens_blocks chunkPx bw hbw hcp hdvd _ _ (Nat.le_refl _)]
  simp only [PixelInfo.surfIdeal]
  rw [divCeil_eq _ _ hbw]
  have : (h + 1 - 1) / 1 = h := by simp
  rw [this]
  ac_rfl

/-- the chunk size the code uses, `512 / bw * bw`, is a positive multiple of the block width
for every block width up to 512 -/
theorem subsample_chunk_ok (bw : Nat) (h1 : 1 ≤ bw) (h2 : bw ≤ 512) :
    1 ≤ 512 / bw * bw ∧ (512 / bw * bw) % bw = 0 := by
  constructor
  · have : 1 ≤ 512 / bw := (Nat.one_le_div_iff (by omega)).2 h2
    exact Nat.mul_le_mul this h1
  · exact Nat.mul_mod_left _ _

/-- block-compressed formats: one write of `ceil(w / bw)` blocks per group of `bh` rows,
`ceil(h / bh)` groups (the last one padded): exactly the layout length. -/
theorem block_len (w h bw bh blockBytes : Nat) (hbw : 1 ≤ bw) (hbh : 1 ≤ bh) :
    (writesBlock w h bw bh blockBytes).sum = (PixelInfo.block blockBytes bw bh).surfIdeal w h := by
  unfold writesBlock
  rw [sum_range_const, rowGroups_eq, divCeil_eq _ _ hbw, divCeil_eq _ _ hbh]
  simp only [PixelInfo.surfIdeal]
  ac_rfl

/-- bi-planar formats (sizes are multiples of 2x2): plane 1 per pair of rows, then plane 2. -/
theorem biplanar_len (w h p1 p2 : Nat) (hw : w % 2 = 0) (hh : h % 2 = 0) :
    (writesBiPlanar w h p1 p2).sum = (PixelInfo.biPlanar p1 p2 2 2).surfIdeal w h := by
  unfold writesBiPlanar
  rw [List.sum_append, sum_range_const, rowGroups_eq]
  simp only [PixelInfo.surfIdeal, List.sum_cons, List.sum_nil, Nat.add_zero]
  have e1 : divCeil h 2 = h / 2 := by unfold divCeil; simp [hh]
  have e2 : (w + 2 - 1) / 2 = w / 2 := by omega
  have e3 : (h + 2 - 1) / 2 = h / 2 := by omega
  rw [e1, e2, e3]
  have : h / 2 * (w * 2 * p1) = w * h * p1 := by
    have hh2 : h = 2 * (h / 2) := by omega
    calc h / 2 * (w * 2 * p1) = w * (2 * (h / 2)) * p1 := by ac_rfl
      _ = w * h * p1 := by rw [← hh2]
  rw [this]

/-- C10, per surface: for every encoder family and every size the bytes written equal
the layout length `surface_bytes` of the surface (the value C02 proves the layout uses). -/
theorem encoded_len_eq_layout_len (px : PixelInfo) (w h : Nat) :
    (∀ bpp bufPx, px = .fixed bpp → 1 ≤ bufPx →
      (chunksContig (w * h) bufPx bpp).sum = px.surfIdeal w h ∧
      (chunksRows w h bufPx bpp).sum = px.surfIdeal w h ∧
      (chunksPerRow w h bufPx bpp).sum = px.surfIdeal w h) ∧
    (∀ bytes bw bh, px = .block bytes bw bh → 1 ≤ bw → 1 ≤ bh →
      (writesBlock w h bw bh bytes).sum = px.surfIdeal w h) ∧
    (∀ bytes bw, px = .block bytes bw 1 → 1 ≤ bw → bw ≤ 512 →
      (chunksSubsample w h (512 / bw * bw) bw bytes).sum = px.surfIdeal w h) ∧
    (∀ p1 p2, px = .biPlanar p1 p2 2 2 → w % 2 = 0 → h % 2 = 0 →
      (writesBiPlanar w h p1 p2).sum = px.surfIdeal w h) := by
  refine ⟨?_, ?_, ?_, ?_⟩
  · intro bpp bufPx hpx hb
    subst hpx
    exact ⟨uncompressed_contig_len _ _ _ hb, uncompressed_rows_len _ _ _ _ hb,
      dither_len _ _ _ _ hb⟩
  · intro bytes bw bh hpx hbw hbh
    subst hpx
    exact block_len _ _ _ _ _ hbw hbh
  · intro bytes bw hpx h1 h2
    subst hpx
    obtain ⟨c1, c2⟩ := subsample_chunk_ok bw h1 h2
    exact subsample_len _ _ _ _ _ h1 c1 c2
  · intro p1 p2 hpx hw hh
    subst hpx
    exact biplanar_len _ _ _ _ hw hh

/-- C10, whole file: after any history of calls, if `finish` succeeds the data bytes written
are exactly the layout's data length — the file is magic + header + data, complete. -/
theorem file_len (ops : List EncOp) (e : Enc) (v : C11.EncInv e)
    (hf : (C11.run e ops).1.finish = .ok) :
    (C11.run e ops).1.written = C08.total (C11.run e ops).1.iter :=
  C11.finished_file_len _ (C11.history ops e v).1 hf

/-- C10, re-opening, all models composed. For EVERY well-formed header `h` whose format is
detected (`pi h = some px`) and whose layout `L` is accepted, every history of encoder calls that ends
with a successful `finish`, any bytes `rest` that follow the header in the file, and every history of
decoder calls that ends at the end of the surface list:
* the encoder wrote exactly the layout's data length `specTotal L` (C02's ideal total), which is
  also what `Header::layout_len`-style arithmetic reports for the header (`layoutLen`);
* `Header::read` of the written words returns exactly `h` and leaves the data unread — strict, and
  permissive with the true file length `4 + header + data` — so the re-opened file has the same
  format (`pi h`) and the same layout (a function of `h` and `px`);
* the decoder's reader then stands exactly `written` bytes into the data section: the end of the last
  surface is the end of the file. -/
theorem reopen (pi : Header → Option PixelInfo) (h : Header) (hwf : h.WF) (px : PixelInfo)
    (hpx : pi h = some px) (hp : px.WF) (L : DataLayout)
    (hL : layoutOf h.toLayoutHeader px = some (.ok L)) (hsmall : C02.specTotal L ≤ I64MAX)
    (mw mh : Nat) (eops : List EncOp) (hf : (C11.run (Enc.new L mw mh) eops).1.finish = .ok)
    (rest : List Nat) (dops : List DecOp)
    (hend : C08.abs (C08.run (Dec.new L) dops).1.iter = C08.count (C08.run (Dec.new L) dops).1.iter) :
    (C11.run (Enc.new L mw mh) eops).1.written = C02.specTotal L ∧
    h.layoutLen px = some (C02.specTotal L) ∧
    Header.read pi ParseOptions.strict (h.write pi ++ rest) = .ok (h, rest) ∧
    Header.read pi (ParseOptions.newPermissive (some (4 + h.byteLen + C02.specTotal L)))
      (h.write pi ++ rest) = .ok (h, rest) ∧
    (C08.run (Dec.new L) dops).1.pos = ((C11.run (Enc.new L mw mh) eops).1.written : Int) := by
  have hr := Header.toLayoutHeader_inRange hwf
  have hm : 1 ≤ h.toLayoutHeader.mipmapCount := by
    cases h with
    | dx9 x => exact hwf.2.2.2.1
    | dx10 x => exact hwf.2.2.2.1
  have dinv := C08.new_inv _ px hp hr hm L hL hsmall
  have einv : C11.EncInv (Enc.new L mw mh) := C11.new_inv L mw mh dinv.fresh
  have htn := C08.total_new _ px hp hr L hL
  -- encoder side
  have hw : (C11.run (Enc.new L mw mh) eops).1.written = C02.specTotal L := by
    rw [file_len eops _ einv hf, C11.run_total eops _ einv]
    exact htn
  -- layout length of the header
  have hlen : h.layoutLen px = some (C02.specTotal L) := by
    obtain ⟨hv, _⟩ := C02.layoutOf_valid _ px hp hr L hL
    obtain ⟨_, h2, _⟩ := C02.flatten_eq_spec L hv
    unfold Header.layoutLen
    rw [hL]
    exact h2
  obtain ⟨_, _, _, r1, _, r3⟩ := C09.header_roundtrip_words pi h hwf rest
  -- decoder side
  obtain ⟨dv, _⟩ := C08.history dops (Dec.new L) dinv
  have hpos := C08.end_position _ dv hend
  have hlay : (C08.run (Dec.new L) dops).1.layout = L := C08.run_layout dops (Dec.new L)
  have htot : C08.total (C08.run (Dec.new L) dops).1.iter = C02.specTotal L := by
    rw [← dv.total_eq, hlay]; exact htn
  refine ⟨hw, hlen, r1, r3 px _ hpx hlen, ?_⟩
  rw [hpos, htot, hw]

/-! ### non-vacuity -/

/-- the hypotheses of `reopen` on a 16x16 BC1 cube map (DX10, 6 faces of 128 bytes): six
`write_surface` calls then `finish`; six `read_surface` calls reach the end -/
def reopenEx : Bool :=
  match layoutOf C09.exHeader.toLayoutHeader (.block 8 4 4) with
  | some (.ok L) =>
    let d := (C08.run (Dec.new L) (List.replicate 6 (.read 16 16))).1
    decide (C02.specTotal L = 768) &&
    decide ((C11.run (Enc.new L 1 1) (List.replicate 6 (.write 16 16))).1.finish = .ok) &&
    decide (C08.abs d.iter = C08.count d.iter) && decide (d.pos = 768)
  | _ => false

/-- the hypotheses of `reopen` are satisfiable -/
example : C09.exHeader.WF ∧ pixelInfoOf C09.exHeader = some (.block 8 4 4) ∧ reopenEx = true := by decide

example : (chunksRows 5 3 4 2) = [8, 8, 8, 6] ∧ (chunksRows 5 3 4 2).sum = 5 * 3 * 2 := by decide
example : (chunksSubsample 7 2 4 2 4) = [8, 8, 8, 8] := by decide
example : (writesBiPlanar 4 2 1 2).sum = 12 := by decide

end Dds.C10
