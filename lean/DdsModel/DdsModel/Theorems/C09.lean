import DdsModel.HeaderTables
import DdsModel.Drv.C09
namespace Dds.C09
open Dds
theorem placeholder : True := trivial
end Dds.C09
