/-
C09 — Headers survive serialisation.

Only property theorems and non-vacuity examples live here; helper lemmas are in
`Proofs/Header.lean` and `Proofs/HeaderTables.lean`.  Statements are about the models
`Header.lean` / `HeaderTables.lean`; `pi` is any pixel-info detection (`PixelInfo::from_header`),
the modelled one is `pixelInfoOf`. The rows of the format tables are translated from the source on every run
(`SrcTables.lean`), so the table theorems here (`dxgi_table_complete`, `dx_conversion_*`, `constructed_wf`) are
re-checked for the rows the code has now.
-/
import DdsModel.Proofs.Header
import DdsModel.Proofs.HeaderTables
import DdsModel.Proofs.HeaderStruct
import DdsModel.HeaderTables
import DdsModel.Drv.C09
namespace Dds.C09
open Dds

/-! ### Raw header: bit-for-bit -/

/-- `RawHeader`: reading what was written gives the value back (whenever the `dx10` member is
present exactly when the pixel format announces it), and writing what was read reproduces the
consumed words exactly — for every word stream, i.e. every 124/144-byte image. -/
theorem raw_roundtrip :
    (∀ (r : RawHeader) (rest : List Nat), r.Consistent → RawHeader.read (r.write ++ rest) = some (r, rest)) ∧
    (∀ (ws : List Nat) (r : RawHeader) (rest : List Nat), RawHeader.read ws = some (r, rest) →
        r.write ++ rest = ws ∧ r.Consistent ∧ (r.write.length = 31 ∨ r.write.length = 36)) := by
  refine ⟨fun r rest hc => RawHeader.read_write r hc rest, fun ws r rest h => ?_⟩
  obtain ⟨h1, h2⟩ := RawHeader.write_read ws r rest h
  refine ⟨h1, h2, ?_⟩
  cases hd : r.dx10 <;> simp [RawHeader.write, hd]

/-- The same at byte level (little endian): any byte image of whole words that the raw header
reads is rewritten bit-for-bit; and the bytes of a written header decode to its words. -/
theorem raw_roundtrip_bytes :
    (∀ (n : Nat) (bs : List Nat) (r : RawHeader) (rest : List Nat), bs.length = 4 * n →
        (∀ b ∈ bs, b < 256) → RawHeader.read (leWords bs) = some (r, rest) →
        leBytes (r.write ++ rest) = bs) ∧
    (∀ (r : RawHeader), r.InRange → leWords (leBytes r.write) = r.write ∧
        (leBytes r.write).length = 4 * r.write.length ∧ ∀ b ∈ leBytes r.write, b < 256) := by
  refine ⟨fun n bs r rest hl hb h => ?_, fun r hr => ⟨leWords_leBytes _ hr, leBytes_length _, leBytes_lt _⟩⟩
  rw [(RawHeader.write_read _ r rest h).1]
  exact leBytes_leWords n bs hl hb

example : (RawHeader.read ((List.range 36).map (· + 7))).isSome = true := by decide
example : ∃ r : RawHeader, r.Consistent ∧ r.dx10.isSome = true :=
  ⟨(Header.dx10 (Dx10Header.new .image 4 4 0 28)).toRaw pixelInfoOf, by decide, by decide⟩

/-! ### Header: write then read is the identity -/

/-- `from_raw(to_raw(h)) = h` for every well-formed header, in strict mode and in permissive
mode without a file length. -/
theorem header_roundtrip (pi : Header → Option PixelInfo) (h : Header) (hwf : h.WF) :
    Header.fromRaw pi ParseOptions.strict (h.toRaw pi) = .ok h ∧
    Header.fromRaw pi (ParseOptions.newPermissive none) (h.toRaw pi) = .ok h := by
  constructor
  · simp [Header.fromRaw, ParseOptions.strict, Header.fromRawNoFix_toRaw pi false h hwf]
  · simp [Header.fromRaw, ParseOptions.newPermissive, Header.fromRawNoFix_toRaw pi true h hwf,
      Header.fixBasedOnFileLen_none]

/-- ... and in permissive mode with the true file length (magic + header + layout length). -/
theorem header_roundtrip_file_len (pi : Header → Option PixelInfo) (h : Header) (hwf : h.WF)
    (px : PixelInfo) (hpx : pi h = some px) (L : Nat) (hL : h.layoutLen px = some L) :
    Header.fromRaw pi (ParseOptions.newPermissive (some (4 + h.byteLen + L))) (h.toRaw pi) = .ok h := by
  have ht : Header.testLen px L h = true := by simp [Header.testLen, hL]
  have hs : ckSub (4 + h.byteLen + L) (4 + h.byteLen) = some L := by
    unfold ckSub; rw [if_pos (by omega)]; congr 1; omega
  simp [Header.fromRaw, ParseOptions.newPermissive, Header.fromRawNoFix_toRaw pi true h hwf,
    Header.fixBasedOnFileLen, hs, hpx, Header.fixCore_of_test ht]

/-- The written image is magic + 124 (DX9) or 144 (DX10) bytes, every word is a `u32`, and
`Header::read` of it (followed by any data) returns the header and leaves the data unread —
strict, permissive, and permissive with the true file length. -/
theorem header_roundtrip_words (pi : Header → Option PixelInfo) (h : Header) (hwf : h.WF)
    (data : List Nat) :
    4 * (h.write pi).length = 4 + h.byteLen ∧ (h.byteLen = 124 ∨ h.byteLen = 144) ∧
    (∀ w ∈ h.write pi, w < U32) ∧
    Header.read pi ParseOptions.strict (h.write pi ++ data) = .ok (h, data) ∧
    Header.read pi (ParseOptions.newPermissive none) (h.write pi ++ data) = .ok (h, data) ∧
    (∀ px L, pi h = some px → h.layoutLen px = some L →
      Header.read pi (ParseOptions.newPermissive (some (4 + h.byteLen + L))) (h.write pi ++ data)
        = .ok (h, data)) := by
  have hrw := RawHeader.read_write (h.toRaw pi) (Header.toRaw_consistent pi h hwf) data
  obtain ⟨r1, r2⟩ := header_roundtrip pi h hwf
  refine ⟨Header.write_length pi h, by cases h <;> simp [Header.byteLen], ?_, ?_, ?_, ?_⟩
  · intro w hw
    simp only [Header.write, List.mem_cons] at hw
    rcases hw with rfl | hw
    · decide
    · exact Header.toRaw_inRange pi h hwf w hw
  · simp only [ParseOptions.strict] at r1
    simp [Header.read, Header.write, ParseOptions.strict, hrw, r1]
  · simp only [ParseOptions.newPermissive] at r2
    simp [Header.read, Header.write, ParseOptions.newPermissive, hrw, r2]
  · intro px L hpx hL
    have r3 := header_roundtrip_file_len pi h hwf px hpx L hL
    simp only [ParseOptions.newPermissive] at r3
    simp [Header.read, Header.write, ParseOptions.newPermissive, hrw, r3]

def exHeader : Header := .dx10 (Dx10Header.new .cubeMap 16 16 0 71)
example : exHeader.WF ∧ pixelInfoOf exHeader = some (.block 8 4 4) ∧
    exHeader.layoutLen (.block 8 4 4) = some 768 := by decide

/-! ### Every parsed header is well-formed; parsing is a normalisation -/

/-- Every header `from_raw` returns for a raw header that was read from words (`u32` fields, the
extension present exactly when announced) is well-formed — strict or permissive, with or
without a file length. -/
theorem parsed_wf (pi : Header → Option PixelInfo) (opts : ParseOptions) (raw : RawHeader)
    (h : Header) (hr : raw.InRange) (hc : raw.Consistent)
    (hp : Header.fromRaw pi opts raw = .ok h) : h.WF :=
  Header.fromRaw_WF hp hr hc

/-- ... in particular every header `Header::read` returns from a stream of `u32` words. -/
theorem parsed_wf_words (pi : Header → Option PixelInfo) (opts : ParseOptions) (ws : List Nat)
    (hws : ∀ w ∈ ws, w < U32) (h : Header) (rest : List Nat)
    (hp : Header.read pi opts ws = .ok (h, rest)) : h.WF := by
  unfold Header.read at hp
  simp only at hp
  split at hp
  · cases hp
  · rename_i ws' hws'
    have hsub : ∀ w ∈ ws', w < U32 := by
      split at hws'
      · cases hws'; exact hws
      · split at hws'
        · cases hws'
        · split at hws'
          · cases hws'; intro w hw; exact hws w (List.mem_cons_of_mem _ hw)
          · cases hws'
    split at hp
    · cases hp
    · rename_i raw rest' hraw
      obtain ⟨e, hc⟩ := RawHeader.write_read _ _ _ hraw
      have hr : raw.InRange := fun w hw => hsub w (by rw [← e]; exact List.mem_append_left _ hw)
      split at hp
      · cases hp
      · rename_i h' hh'
        cases hp
        exact Header.fromRaw_WF hh' hr hc

/-- Parsing is a normalisation: the header parsed from `x` (in any mode, with any file length),
written out and parsed again — strictly or permissively — is the same header. -/
theorem normalisation (pi : Header → Option PixelInfo) (opts : ParseOptions) (raw : RawHeader)
    (h : Header) (hr : raw.InRange) (hc : raw.Consistent)
    (hp : Header.fromRaw pi opts raw = .ok h) :
    Header.fromRaw pi ParseOptions.strict (h.toRaw pi) = .ok h ∧
    Header.fromRaw pi (ParseOptions.newPermissive none) (h.toRaw pi) = .ok h :=
  header_roundtrip pi h (Header.fromRaw_WF hp hr hc)


/-! ### Constructors and builder chains -/

/-- `Header::new_image / new_volume / new_cube_map` never panic (every `Format` has a DXGI code
or a DX9 pixel format) and, for `u32` arguments, the header they build and every header reached
from it by a chain of `with_size / with_dimensions / with_mipmap_count / with_mipmaps` (with
`u32` arguments) is well-formed; the chain panics only for the documented `with_mipmap_count(0)`.
(`Dx10Header::with_array_size` etc. are not `Header` builder methods; they can build headers
outside `WF`, e.g. a 3D texture with array size 2, which strict parsing rejects.) -/
theorem constructed_wf (k : CtorKind) (w h d : Nat) (f : Format) (hw : w < U32) (hh : h < U32)
    (hd : d < U32) (ops : List BuilderOp) (hops : ∀ op ∈ ops, op.InRange) :
    ∃ h0, Header.new k w h d f = some h0 ∧ h0.WF ∧
      (∀ h', h0.applyOps ops = some h' → h'.WF) ∧
      (h0.applyOps ops = none → BuilderOp.withMipmapCount 0 ∈ ops) := by
  obtain ⟨h0, e, hwf⟩ := Header.new_WF k w h d f hw hh hd
  exact ⟨h0, e, hwf, fun h' ha => Header.applyOps_WF ops hwf hops ha, Header.applyOps_none ops⟩

/-- ... hence they all survive serialisation (strict and permissive). -/
theorem constructed_roundtrip (pi : Header → Option PixelInfo) (k : CtorKind) (w h d : Nat)
    (f : Format) (hw : w < U32) (hh : h < U32) (hd : d < U32) (ops : List BuilderOp)
    (hops : ∀ op ∈ ops, op.InRange) (h0 h' : Header) (e0 : Header.new k w h d f = some h0)
    (e1 : h0.applyOps ops = some h') :
    Header.fromRaw pi ParseOptions.strict (h'.toRaw pi) = .ok h' ∧
    Header.fromRaw pi (ParseOptions.newPermissive none) (h'.toRaw pi) = .ok h' := by
  obtain ⟨h0', e, _, hall, _⟩ := constructed_wf k w h d f hw hh hd ops hops
  rw [e0] at e; cases e
  exact header_roundtrip pi h' (hall h' e1)

example : ∃ h', (Header.new .volume 16 9 5 .BC1_UNORM).bind
    (·.applyOps [.withMipmaps, .withSize 7 300, .withMipmapCount 3]) = some h' := ⟨_, rfl⟩

/-- The struct-level constructors `Dx9Header::new_*` / `Dx10Header::new_*` followed by ANY chain of the
struct-level setters (`with_size`, `with_dimensions`, `with_mipmap_count`, `with_cube_map_faces`,
`with_pixel_format`; `with_dxgi_format`, `with_resource_dimension`, `with_misc_flags`, `with_array_size`,
`with_alpha_mode`) with arguments the Rust types can hold: the result is well-formed exactly when it does not
combine `Texture3D` with an array size other than 1 — the one thing these setters can build that a DDS file
cannot say (`from_raw` rejects it with `InvalidArraySizeForTexture3D`, or repairs it in permissive mode). -/
theorem struct_builders_wf (h0 h' : Header) (ops : List StructOp)
    (h0def : (∃ k w h d p, w < U32 ∧ h < U32 ∧ d < U32 ∧ p.WF ∧ h0 = .dx9 (Dx9Header.new k w h d p)) ∨
             (∃ k w h d c, w < U32 ∧ h < U32 ∧ d < U32 ∧ dxgiValid c = true ∧
                h0 = .dx10 (Dx10Header.new k w h d c)))
    (hops : ∀ op ∈ ops, op.InRange) (e : h0.applyStructOps ops = some h') :
    (h'.WF ↔ h'.ArrayOk) := by
  have hwf0 : h0.WF := by
    rcases h0def with ⟨k, w, h, d, p, hw, hh, hd, hp, rfl⟩ | ⟨k, w, h, d, c, hw, hh, hd, hv, rfl⟩
    · exact Dx9Header.new_WF k w h d p hw hh hd hp
    · exact Dx10Header.new_WF k w h d c hw hh hd hv
  have h0' := Header.applyStructOps_WF0 ops ((Header.WF_iff h0).1 hwf0).1 hops e
  rw [Header.WF_iff]
  exact ⟨fun x => x.2, fun x => ⟨h0', x⟩⟩

/-- ... hence every such header that a file can express survives serialisation (strict and permissive). -/
theorem struct_builders_roundtrip (pi : Header → Option PixelInfo) (h0 h' : Header) (ops : List StructOp)
    (h0def : (∃ k w h d p, w < U32 ∧ h < U32 ∧ d < U32 ∧ p.WF ∧ h0 = .dx9 (Dx9Header.new k w h d p)) ∨
             (∃ k w h d c, w < U32 ∧ h < U32 ∧ d < U32 ∧ dxgiValid c = true ∧
                h0 = .dx10 (Dx10Header.new k w h d c)))
    (hops : ∀ op ∈ ops, op.InRange) (e : h0.applyStructOps ops = some h') (hok : h'.ArrayOk) :
    Header.fromRaw pi ParseOptions.strict (h'.toRaw pi) = .ok h' ∧
    Header.fromRaw pi (ParseOptions.newPermissive none) (h'.toRaw pi) = .ok h' :=
  header_roundtrip pi h' ((struct_builders_wf h0 h' ops h0def hops e).2 hok)

/-- the excluded combination is reachable (so the side condition is not vacuous), and a well-formed one too -/
example : ∃ h', (Header.dx10 (Dx10Header.new .volume 4 4 2 28)).applyStructOps [.withArraySize 2] = some h' ∧
    ¬ h'.ArrayOk := ⟨_, rfl, by decide⟩
example : ∃ h', (Header.dx9 (Dx9Header.new .image 4 4 0 (.fourCC FOURCC_DXT5))).applyStructOps
      [.withCubeMapFaces 0b100101, .withMipmapCount 3, .withDimensions 8 8 none] = some h' ∧ h'.WF :=
  ⟨_, rfl, by decide⟩

/-! ### DX9 <-> DX10 -/

/-- The DXGI table is consistent with `DxgiFormat::try_from`: the named constants (`define_dxgi_formats!`, rows
translated from the source on every run) are exactly the accepted codes, every constant names a different code, and
every accepted code fits the `u8` behind `DxgiFormat` (`value as u8` does not truncate). No row count is pinned:
adding a named, accepted code re-proves this; a named constant that `try_from` rejects (or an accepted code without
a name) fails it. -/
theorem dxgi_table_complete :
    (∀ c, c < 256 → (dxgiValid c = (dxgiRow? c).isSome)) ∧ (dxgiRows.map (·.code)).Nodup ∧
    (∀ c, dxgiValid c = true → c < 256) := by
  refine ⟨fun c hc => ?_, by decide +kernel, fun c h => dxgiValid_lt h⟩
  have hall : ((List.range 256).all fun c => dxgiValid c == (dxgiRow? c).isSome) = true := by
    decide +kernel
  rw [List.all_eq_true] at hall
  simpa using hall c (List.mem_range.mpr hc)

-- the table is not empty and not trivial: 28 = R8G8B8A8_UNORM is a named, accepted code; 116 is neither
example : dxgiValid 28 = true ∧ (dxgiRow? 28).isSome = true ∧ dxgiValid 116 = false := by decide

/-- `to_dx9`, when it exists, keeps width, height, depth and mip count, the pixel info
(`PixelInfo::from_header`, i.e. the bytes-per-pixel / block shape) and — for 2D textures, cube
maps and volumes — the data layout (same result or same error, for any pixel info).  A DX10
*1D* texture becomes the DX9 2D texture of the same width x height: its layout is that of the
header with `Texture2D` (it differs from the 1D layout unless height = 1).  Texture arrays
(`array_size != 1`) and cube maps that are not 2D have no DX9 form. -/
theorem dx_conversion_to_dx9 (x : Dx10Header) (y : Dx9Header) (hv : dxgiValid x.dxgiFormat = true)
    (h : (Header.dx10 x).toDx9 = some y) :
    y.width = x.width ∧ y.height = x.height ∧ y.depth = x.depth ∧ y.mipmapCount = x.mipmapCount ∧
    x.arraySize = 1 ∧
    pixelInfoOf (.dx9 y) = pixelInfoOf (.dx10 x) ∧
    (∀ px, x.resourceDimension ≠ .tex1D →
      layoutOf (Header.dx9 y).toLayoutHeader px = layoutOf (Header.dx10 x).toLayoutHeader px) ∧
    (∀ px, layoutOf (Header.dx9 y).toLayoutHeader px =
      layoutOf (Header.dx10 { x with resourceDimension :=
        if x.resourceDimension = .tex1D then .tex2D else x.resourceDimension }).toLayoutHeader px) := by
  have h' : x.toDx9 = some y := h
  obtain ⟨e1, e2, e3, e4, e5, _, _, e6⟩ := Dx10Header.toDx9_shape h'
  refine ⟨e1, e2, e3, e4, e5, ?_, ?_, fun px => Dx10Header.toDx9_layout h' px⟩
  · rw [pixelInfoOf_dx9, toDx9Format_px hv e6]; rfl
  · intro px h1
    have := Dx10Header.toDx9_layout h' px
    rw [if_neg h1] at this
    exact this

/-- `to_dx10`, when it exists, keeps width, height, depth, mip count and alpha mode, the pixel
info, and the data layout (same result or same error, for any pixel info) — for every DX9
header: plain, cube (all six faces; partial cubes have no DX10 form) and volume. -/
theorem dx_conversion_to_dx10 (y : Dx9Header) (x : Dx10Header) (h : (Header.dx9 y).toDx10 = some x) :
    x.width = y.width ∧ x.height = y.height ∧ x.depth = y.depth ∧ x.mipmapCount = y.mipmapCount ∧
    x.arraySize = 1 ∧ x.alphaMode = y.alphaMode ∧
    pixelInfoOf (.dx10 x) = pixelInfoOf (.dx9 y) ∧
    (∀ px, layoutOf (Header.dx10 x).toLayoutHeader px = layoutOf (Header.dx9 y).toLayoutHeader px) := by
  have h' : y.toDx10 = some x := h
  obtain ⟨e1, e2, e3, e4, e5, e6, _, _, _, e7⟩ := Dx9Header.toDx10_shape h'
  refine ⟨e1, e2, e3, e4, e5, e6, ?_, fun px => Dx9Header.toDx10_layout h' px⟩
  rw [pixelInfoOf_dx9, ← toDx10_px e7]; rfl

/-- converting a header to its own form is the identity -/
theorem dx_conversion_self (x : Dx10Header) (y : Dx9Header) :
    (Header.dx10 x).toDx10 = some x ∧ (Header.dx9 y).toDx9 = some y := ⟨rfl, rfl⟩

example : (Header.dx10 (Dx10Header.new .cubeMap 8 8 0 71)).toDx9.isSome = true ∧
    (Header.dx9 (Dx9Header.new .volume 8 8 3 (.fourCC FOURCC_DXT5))).toDx10.isSome = true := by decide

end Dds.C09
