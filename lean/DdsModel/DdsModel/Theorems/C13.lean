/-
C13 — block-compressed encoding keeps representable content and emits portable blocks.

PARTIAL by design (DESIGN.md §5 C13, §8): the float endpoint search of the encoders is NOT modelled, so no
theorem here says "the encoder's output decodes to within the bound".  What is proved, for ALL inputs:
  * the discrete encoder logic that decides which blocks can be emitted (`Enc13.lean`): endpoint ordering and
    tie-breaking (`new_p4_strict`), alpha thresholding, palette-mode choice, BC2/BC3 forcing four colours,
    BC4 endpoint order ↔ interpolation mode;
  * that blocks meeting the emitted-block predicate `Portable` decode identically under decoders that differ
    on the unspecified cases (`portable_agreement`, `portable_decoders_agree`), over the decoder models proved
    against the specification in C03;
  * representability floors at specification level (`representable_floor*`) and the quantisation step bounds
    the oracle uses (`step_bounds`);
  * the encoders' fully discrete single-colour paths decode exactly (BC7: every colour channel; BC4-type UNORM;
    5:6:5 corner colours).
The clauses about the searched output are decided by exploration with this verified oracle (harness/src/c13.rs).
-/
import DdsModel.Proofs.Enc13
namespace Dds.C13
open Dds Dds.Bc Dds.Enc13

/-! ### endpoint ordering (`EndPoints::new_p4`, `new_p3_default`) -/

/-- For ALL valid 5:6:5 pairs `new_p4` returns valid colours with `c0 > c1` as packed `u16` (so the
`debug_assert!` holds, `c1.b -= 1` never underflows and the block is in four-colour mode). -/
theorem new_p4_strict (c0 c1 : C565) (h0 : c0.Valid) (h1 : c1.Valid) :
    (newP4 c0 c1).1.toU16 > (newP4 c0 c1).2.toU16 ∧ (newP4 c0 c1).1.Valid ∧ (newP4 c0 c1).2.Valid ∧
      (newP4 c0 c1).1.toU16 < 65536 :=
  have h := newP4_spec c0 c1 h0 h1
  ⟨h.2.2, h.1, h.2.1, toU16_lt _ h.1⟩

/-- `new_p3_default` returns `c0 ≤ c1` (three-colour mode); equality is possible. -/
theorem new_p3_default_le (c0 c1 : C565) (h0 : c0.Valid) (h1 : c1.Valid) :
    (newP3Default c0 c1).1.toU16 ≤ (newP3Default c0 c1).2.toU16 ∧ (newP3Default c0 c1).1.Valid ∧
      (newP3Default c0 c1).2.Valid :=
  have h := newP3_spec c0 c1 h0 h1
  ⟨h.2.2, h.1, h.2.1⟩

/-- both tie-breaking branches and the swap are reachable -/
example : newP4 ⟨3, 7, 0⟩ ⟨3, 7, 0⟩ = (⟨3, 7, 1⟩, ⟨3, 7, 0⟩) ∧ newP4 ⟨3, 7, 5⟩ ⟨3, 7, 5⟩ = (⟨3, 7, 5⟩, ⟨3, 7, 4⟩) ∧
    newP4 ⟨0, 0, 0⟩ ⟨31, 63, 31⟩ = (⟨31, 63, 31⟩, ⟨0, 0, 0⟩) ∧ newP3Default ⟨0, 0, 0⟩ ⟨0, 0, 0⟩ = (⟨0, 0, 0⟩, ⟨0, 0, 0⟩) := by
  decide

/-- Every colour block assembled from `new_p4` endpoints meets `Portable`: as a BC1 block, and behind any
8-byte alpha block as a BC2 / BC3-family block. -/
theorem p4_blocks_portable (c0 c1 : C565) (h0 : c0.Valid) (h1 : c1.Valid) (idx ok3 : Nat) :
    Portable (some .bc1) (blkOf (withIndexes (newP4 c0 c1) idx)) ok3 = true ∧
    ∀ (alpha : List Nat) (f : Fmt), alpha.length = 8 → f ∈ [Fmt.bc2, .bc2p, .bc3, .bc3p, .rxgb, .bc3n] →
      Portable (some f) (blkOf (alpha ++ withIndexes (newP4 c0 c1) idx)) ok3 = true := by
  have h := new_p4_strict c0 c1 h0 h1
  constructor
  · have e := le16_withIndexes (newP4 c0 c1) idx []
    simp only [List.nil_append, List.length_nil, Nat.zero_add] at e
    unfold Portable
    simp only [e.1, e.2, h.1, decide_true, Bool.true_or]
  · intro alpha f hlen hf
    have e := le16_withIndexes (newP4 c0 c1) idx alpha
    rw [hlen] at e
    have hp : decide (le16 (blkOf (alpha ++ withIndexes (newP4 c0 c1) idx)) 8 >
        le16 (blkOf (alpha ++ withIndexes (newP4 c0 c1) idx)) 10) = true := by
      rw [e.1, e.2]; exact decide_eq_true h.1
    simp only [List.mem_cons, List.not_mem_nil, or_false] at hf
    rcases hf with rfl | rfl | rfl | rfl | rfl | rfl <;> exact hp

/-! ### alpha thresholding and palette-mode choice -/

/-- `get_alpha_map`: bit `i` of the map is set exactly when the 8-bit alpha of pixel `i` is at least 128,
i.e. `alpha/255 ≥ 1/2` (`ALPHA_THRESHOLD = 0.5`, comparison `>=`: one half itself is opaque). -/
theorem alpha_threshold (alphas : List Nat) (hl : alphas.length = 16) (i : Nat) :
    (alphaMap alphas).testBit i = (decide (i < 16) && decide (alphas.getD i 0 ≥ 128)) :=
  alphaMap_testBit alphas hl i

/-- BC2, BC2 premultiplied, BC3, BC3 premultiplied, RXGB and BC3n (`get_bc3_options`: `no_p3_default`) use
ONLY `compress_p4`, whatever the quality and the alpha channel — hence (with `new_p4_strict`) `colour0 > colour1`. -/
theorem bc23_always_p4 (q : Quality) (alphas : List Nat) :
    choice (bc3Options q).1 (bc3Options q).2 alphas = .p4 := by
  cases q <;> simp [choice, bc3Options, bc1Options, ALL_OPAQUE, ALL_TRANSPARENT]

/-- BC1 (`get_bc1_options`): all pixels below one half → the constant transparent block; some below and some
not → three-colour mode only; all opaque → four-colour only at Fast/Normal, the better of both at High and
Unreasonable (ties go to three-colour mode). -/
theorem bc1_choice (q : Quality) (alphas : List Nat) (hl : alphas.length = 16) :
    ((∀ i, i < 16 → alphas.getD i 0 < 128) → choice (bc1Options q).1 (bc1Options q).2 alphas = .transparentBlock) ∧
    ((∃ i, i < 16 ∧ alphas.getD i 0 < 128) → (∃ j, j < 16 ∧ alphas.getD j 0 ≥ 128) →
      choice (bc1Options q).1 (bc1Options q).2 alphas = .p3) ∧
    ((∀ i, i < 16 → alphas.getD i 0 ≥ 128) → choice (bc1Options q).1 (bc1Options q).2 alphas =
      (if q = .fast ∨ q = .normal then .p4 else .best)) := by
  refine ⟨?_, ?_, ?_⟩
  · intro h
    simp [choice, bc1Options, map_all_transparent alphas hl h]
  · intro ⟨i, hi, hti⟩ ⟨j, hj, hoj⟩
    have h0 : alphaMap alphas ≠ ALL_TRANSPARENT := by
      intro he
      have := alpha_threshold alphas hl j
      rw [he, decide_eq_true hj, decide_eq_true hoj] at this
      simp [ALL_TRANSPARENT] at this
    have h1 : alphaMap alphas ≠ ALL_OPAQUE := by
      intro he
      have := alpha_threshold alphas hl i
      rw [he, show ALL_OPAQUE = 2 ^ 16 - 1 from rfl, Nat.testBit_two_pow_sub_one] at this
      have h2 : ¬ alphas.getD i 0 ≥ 128 := by omega
      rw [decide_eq_true hi, decide_eq_false h2] at this
      simp at this
    simp [choice, bc1Options, h0, h1]
  · intro h
    rw [choice]
    simp only [bc1Options, Bool.false_eq_true, if_false, map_all_opaque alphas hl h]
    cases q <;> simp [ALL_OPAQUE, ALL_TRANSPARENT]

/-- the three alpha situations exist -/
example : alphaMap (List.replicate 16 127) = ALL_TRANSPARENT ∧ alphaMap (List.replicate 16 128) = ALL_OPAQUE ∧
    alphaMap ([127, 128] ++ List.replicate 14 255) = 65534 := by decide

/-! ### portability -/

/-- `Portable` as a proposition: BC1 — four-colour mode, or index 3 only where the mask allows it;
BC2/BC3 family — `colour0 > colour1` in the colour block; BC7 — not the reserved mode. -/
theorem portable_predicate_decidable (blk : Nat → Nat) (ok3 : Nat) :
    (Portable (some .bc1) blk ok3 = true ↔
      (le16 blk 0 > le16 blk 2 ∨ ∀ p, p < 16 → colourIndex blk 0 p = 3 → ok3.testBit p = true)) ∧
    (∀ f, f ∈ [Fmt.bc2, .bc2p, .bc3, .bc3p, .rxgb, .bc3n] →
      (Portable (some f) blk ok3 = true ↔ le16 blk 8 > le16 blk 10)) ∧
    (∀ f, f ∈ [Fmt.bc4u, .bc4s, .bc5u, .bc5s] → Portable (some f) blk ok3 = true) ∧
    (Portable none blk ok3 = true ↔ blk 0 ≠ 0) := by
  refine ⟨?_, ?_, ?_, ?_⟩
  · unfold Portable
    simp only [Bool.or_eq_true, decide_eq_true_eq, List.all_eq_true, List.mem_range, bne_iff_ne, ne_eq]
    constructor
    · rintro (h | h)
      · exact Or.inl h
      · refine Or.inr fun p hp h3 => ?_
        rcases h p hp with h' | h'
        · exact absurd h3 h'
        · exact h'
    · rintro (h | h)
      · exact Or.inl h
      · refine Or.inr fun p hp => ?_
        by_cases h3 : colourIndex blk 0 p = 3
        · exact Or.inr (h p hp h3)
        · exact Or.inl h3
  · intro f hf
    simp only [List.mem_cons, List.not_mem_nil, or_false] at hf
    rcases hf with rfl | rfl | rfl | rfl | rfl | rfl <;> simp [Portable]
  · intro f hf
    simp only [List.mem_cons, List.not_mem_nil, or_false] at hf
    rcases hf with rfl | rfl | rfl | rfl <;> rfl
  · simp [Portable]

/-- For EVERY block with `colour0 > colour1` the decoder that can switch to three colours (`bc1_u8_rgba`) and
the always-four-colour decoder (`bc1_no_default_u8_rgba`, BC2/BC3) produce the same pixel. -/
theorem portable_agreement (blk : Nat → Nat) (h : le16 blk 0 > le16 blk 2) (p : Nat) :
    bc1Px blk p = bc1NoDefaultPx blk p := by
  unfold bc1Px bc1NoDefaultPx
  simp only [h, if_true]

/-- In three-colour mode index 3 decodes to transparent black, for every block. -/
theorem three_colour_index3_transparent (blk : Nat → Nat) (h : le16 blk 0 ≤ le16 blk 2) (p : Nat)
    (h3 : colourIndex blk 0 p = 3) : bc1Px blk p = (0, 0, 0, 0) := by
  have hn : ¬ le16 blk 0 > le16 blk 2 := by omega
  unfold colourIndex at h3
  unfold bc1Px
  simp only [hn, if_false, Nat.zero_add] at h3 ⊢
  rw [h3]; rfl

/-- a decoder that shows an arbitrary pixel `alt` for index 3 of the three-colour mode (the case on which
BC1 decoders differ: transparent black, opaque black, or the four-colour entry) -/
def altBc1Px (alt : Rgba) (blk : Nat → Nat) (p : Nat) : Rgba :=
  if le16 blk 0 ≤ le16 blk 2 ∧ colourIndex blk 0 p = 3 then alt else bc1Px blk p

/-- On a `Portable` block every decoder of the family agrees with this library's decoder:
* BC1: at every pixel outside the mask `ok3` (an opaque input pixel inside the image) the deviating decoder
  shows the same pixel, and that pixel is opaque;
* BC2/BC3 family: a decoder that applies BC1's mode switch to the colour block (as many do, and as this
  library did before the repair of F4) shows the same colour as the always-four-colour decoder. -/
theorem portable_decoders_agree (blk : Nat → Nat) (ok3 : Nat) :
    (Portable (some .bc1) blk ok3 = true → ∀ p, p < 16 → ok3.testBit p = false →
      ∀ alt, altBc1Px alt blk p = bc1Px blk p ∧ (bc1Px blk p).2.2.2 = 255) ∧
    (∀ f, f ∈ [Fmt.bc2, .bc2p, .bc3, .bc3p, .rxgb, .bc3n] → Portable (some f) blk ok3 = true →
      ∀ p, bc1Px (upper blk) p = bc1NoDefaultPx (upper blk) p) := by
  constructor
  · intro hp p hlt hm alt
    rcases ((portable_predicate_decidable blk ok3).1.mp hp) with h | h
    · have hn : ¬ (le16 blk 0 ≤ le16 blk 2 ∧ colourIndex blk 0 p = 3) := by omega
      refine ⟨by unfold altBc1Px; rw [if_neg hn], ?_⟩
      unfold bc1Px
      simp only [h, if_true]
      exact lut4_P (fun c : Rgba => c.2.2.2 = 255) _ _ _ _ _ rfl rfl rfl rfl
    · have h3 : colourIndex blk 0 p ≠ 3 := by
        intro h3
        rw [h p hlt h3] at hm
        exact absurd hm (by decide)
      have hn : ¬ (le16 blk 0 ≤ le16 blk 2 ∧ colourIndex blk 0 p = 3) := fun h' => h3 h'.2
      refine ⟨by unfold altBc1Px; rw [if_neg hn], ?_⟩
      unfold colourIndex at h3
      simp only [Nat.zero_add] at h3
      have hk : (le32 blk 4 >>> (p * 2)) &&& 3 < 4 := by rw [and3]; omega
      unfold bc1Px
      simp only []
      generalize (le32 blk 4 >>> (p * 2)) &&& 3 = k at h3 hk
      have : k = 0 ∨ k = 1 ∨ k = 2 := by omega
      rcases this with rfl | rfl | rfl
      · rfl
      · rfl
      · show (if _ then _ else _ : Rgba).2.2.2 = 255
        split <;> rfl
  · intro f hf hp p
    have h := ((portable_predicate_decidable blk ok3).2.1 f hf).mp hp
    apply portable_agreement
    unfold upper le16 at *
    simpa using h

/-- a portable BC1 block in three-colour mode using index 3 under the mask, and a non-portable one -/
example : Portable (some .bc1) (blkOf [0, 0, 0xFF, 0xFF, 0x03, 0, 0, 0]) 1 = true ∧
    Portable (some .bc1) (blkOf [0, 0, 0xFF, 0xFF, 0x03, 0, 0, 0]) 0 = false ∧
    Portable (some .bc3) (blkOf ([255, 0, 0, 0, 0, 0, 0, 0] ++ [0, 0, 0xFF, 0xFF, 0, 0, 0, 0])) 0 = false ∧
    Portable (some .bc3) (blkOf ([255, 0, 0, 0, 0, 0, 0, 0] ++ [0xFF, 0xFF, 0, 0, 0, 0, 0, 0])) 0 = true := by
  decide

/-! ### BC4: endpoint order ↔ interpolation mode -/

/-- `new_inter6` emits `(c0, c1) = (max, min)` with `c0 > c1`, which the decoder reads as the six-interpolant
mode, and `new_inter4 = inter6_to_inter4` emits the swapped pair with `c0 < c1`, which the decoder reads as
the four-interpolant mode with the constants 0 and 1 at indexes 6, 7.  So the palette the encoder searched in
is the palette the decoder uses (6 interpolants iff `e0 > e1`). -/
theorem bc4_mode_coupling (minR maxR minF maxC : Nat) (h1 : minR ≤ maxR) (h2 : minF ≤ maxC) :
    (fixDistinct minR maxR minF maxC).1 < (fixDistinct minR maxR minF maxC).2 ∧
    ∀ (ops : Bc4Ops) (blk : Nat → Nat) (p : Nat),
      (blk 0 = (fixDistinct minR maxR minF maxC).2 → blk 1 = (fixDistinct minR maxR minF maxC).1 →
        bc4uPx ops blk p = bc4Lut ops (ops.fromByte (blk 0)) (ops.fromByte (blk 1)) (blk 0) (blk 1) true (bc4Index blk p)) ∧
      (blk 0 = (fixDistinct minR maxR minF maxC).1 → blk 1 = (fixDistinct minR maxR minF maxC).2 →
        bc4uPx ops blk p = bc4Lut ops (ops.fromByte (blk 0)) (ops.fromByte (blk 1)) (blk 0) (blk 1) false (bc4Index blk p)) := by
  have hlt : (fixDistinct minR maxR minF maxC).1 < (fixDistinct minR maxR minF maxC).2 := by
    unfold fixDistinct
    split
    · split
      · split
        · show minF < 1; omega
        · show minF - 1 < maxC; omega
      · show minF < maxC; omega
    · show minR < maxR; omega
  refine ⟨hlt, fun ops blk p => ⟨fun a b => ?_, fun a b => ?_⟩⟩
  · have : blk 0 > blk 1 := by omega
    unfold bc4uPx; simp only [this, decide_true]
  · have : ¬ blk 0 > blk 1 := by omega
    unfold bc4uPx; simp only [this, decide_false]

example : fixDistinct 7 7 7 7 = (6, 7) ∧ fixDistinct 0 0 0 0 = (0, 1) ∧ fixDistinct 7 7 6 7 = (6, 7) := by decide

/-- single 8-bit values (`single_color` via `new_closest`): the emitted block `[v, 0, 0, …]` decodes to `v` at
all 16 pixels, in BC4 UNORM and as BC3 alpha — the "exactly for BC4/BC5 and BC3 alpha" clause for 8-bit input
on the discrete path (all qualities but Unreasonable, which brute-forces). -/
theorem bc4_single_exact : ∀ v, v ≤ 255 →
    Bc.decodeBlock .bc4u .u8 (blkOf (bc4uSingle v)) = List.replicate 16 [v] := by
  intro v hv
  have h := allUpTo (fun v => decide (Bc.decodeBlock .bc4u .u8 (blkOf (bc4uSingle v)) = List.replicate 16 [v])) 255
    (by decide +kernel) v hv
  exact of_decide_eq_true h

/-! ### BC7 single colours (`compress_single_color`) -/

/-- the index list `constant(1)` needs no endpoint swap and compresses to 31 bits `…0101011` -/
theorem bc7_single_no_swap : compressP1 constant1 = (0x2AAAAAAB, false) := by decide

/-- Channel level, all 256 values: the 7-bit endpoints `optimize(c)`, widened by bit replication and
interpolated with the weight of index 1 (21/64, stored as 84/256), give back exactly `c`. -/
theorem bc7_single_channel_exact : ∀ c, c ≤ 255 →
    Bc7.lerp (Bc7.promote (optimize c).1 7) (Bc7.promote (optimize c).2 7) (Bc7.WEIGHTS_2.getD 1 0) = c ∧
    (optimize c).1 < 128 ∧ (optimize c).2 < 128 := by
  intro c hc
  have h := allUpTo (fun c => decide (Bc7.lerp (Bc7.promote (optimize c).1 7) (Bc7.promote (optimize c).2 7)
      (Bc7.WEIGHTS_2.getD 1 0) = c ∧ (optimize c).1 < 128 ∧ (optimize c).2 < 128)) 255 (by decide +kernel) c hc
  exact of_decide_eq_true h

/-- alpha: both endpoints are `a`, any weight gives `a` -/
theorem bc7_single_alpha_exact : ∀ a, a ≤ 255 → ∀ k, k < 4 → Bc7.lerp a a (Bc7.WEIGHTS_2.getD k 0) = a := by
  intro a ha k hk
  have h := allUpTo (fun a => (List.range 4).all fun k => decide (Bc7.lerp a a (Bc7.WEIGHTS_2.getD k 0) = a)) 255
    (by decide +kernel) a ha
  exact of_decide_eq_true (List.all_eq_true.mp h k (List.mem_range.mpr hk))

/-- Whole blocks through the BC7 decoder model, on the grey diagonal and the three colour axes (1024 blocks):
`decode (compress_single_color c) = 16 × c`.  (PARTIAL: the statement for all 2³² colours follows from the
two channel lemmas above plus the bit-field layout of mode 5, which is checked here only on these lines and
by the byte-for-byte tie with `dds::encode` on every generated single-colour case.) -/
theorem bc7_single_block_exact_partial : ∀ v, v ≤ 255 →
    Bc7.decodeBlock (bc7Single v v v 255) = List.replicate 16 [v, v, v, 255] ∧
    Bc7.decodeBlock (bc7Single v 0 255 v) = List.replicate 16 [v, 0, 255, v] ∧
    Bc7.decodeBlock (bc7Single 255 v 0 128) = List.replicate 16 [255, v, 0, 128] ∧
    Bc7.decodeBlock (bc7Single 7 100 v 0) = List.replicate 16 [7, 100, v, 0] := by
  intro v hv
  have h := allUpTo (fun v => decide (
    Bc7.decodeBlock (bc7Single v v v 255) = List.replicate 16 [v, v, v, 255] ∧
    Bc7.decodeBlock (bc7Single v 0 255 v) = List.replicate 16 [v, 0, 255, v] ∧
    Bc7.decodeBlock (bc7Single 255 v 0 128) = List.replicate 16 [255, v, 0, 128] ∧
    Bc7.decodeBlock (bc7Single 7 100 v 0) = List.replicate 16 [7, 100, v, 0])) 255 (by decide +kernel) v hv
  exact of_decide_eq_true h

/-! ### exactly representable 5:6:5 colours -/

/-- The 8 corner colours: the block of `compress_single_color` (`min == max`), in four-colour and in
three-colour mode, decodes to the colour at all 16 pixels, opaque; the four-colour one is `Portable` in every
format and the three-colour one never uses index 3. -/
theorem exact_single_decodes : ∀ c ∈ [(⟨0, 0, 0⟩ : C565), ⟨31, 0, 0⟩, ⟨0, 63, 0⟩, ⟨31, 63, 0⟩, ⟨0, 0, 31⟩, ⟨31, 0, 31⟩,
      ⟨0, 63, 31⟩, ⟨31, 63, 31⟩], ∀ p4 : Bool,
    Bc.decodeBlock .bc1 .u8 (blkOf (exactSingle p4 c)) =
      List.replicate 16 [c.r / 31 * 255, c.g / 63 * 255, c.b / 31 * 255, 255] ∧
    Portable (some .bc1) (blkOf (exactSingle p4 c)) 0 = true := by
  decide +kernel

/-! ### representability floors (specification level, `BcSpec`) -/

/-- If a value is exactly an entry of a palette — of ANY endpoint pair, colour or BC4 — the nearest-palette
assignment has zero error. -/
theorem representable_floor (pal : List Nat) (v : Nat) (h : v ∈ pal) : nearestErr pal v = 0 := by
  have := (foldl_min_le (fun x => dist x v) pal 256).2 v h
  unfold nearestErr
  have hd : dist v v = 0 := by unfold dist; simp
  omega

theorem representable_floor_spec (four : Bool) (e0 e1 m v : Nat) :
    (v ∈ specPalette four e0 e1 m → nearestErr (specPalette four e0 e1 m) v = 0) ∧
    (v ∈ specPalette4 e0 e1 → nearestErr (specPalette4 e0 e1) v = 0) :=
  ⟨representable_floor _ v, representable_floor _ v⟩

example : 85 ∈ specPalette true 0 31 31 ∧ 128 ∈ specPalette false 0 31 31 ∧ 73 ∈ specPalette4 255 0 := by decide +kernel

/-- Single colours, BC1-type palettes: for EVERY 8-bit grey level `g` there is an endpoint pair per channel
whose four-colour palette entry 2 (the same index for all channels) is within 1 of `g` in the specification's
decoded values — far inside the step bounds `STEP5`, `STEP6` the oracle demands, so the oracle's bound is
achievable for every grey level.  (The floor 1 is exact: e.g. no entry equals 1.) -/
theorem representable_floor_grey (g : Nat) (hg : g ≤ 255) :
    ∃ r0 r1 g0 g1, r0 ≤ 31 ∧ r1 ≤ 31 ∧ g0 ≤ 63 ∧ g1 ≤ 63 ∧
      dist (BcSpec.chan8 true 2 r0 r1 31) g ≤ 1 ∧ dist (BcSpec.chan8 true 2 g0 g1 63) g ≤ 1 ∧
      1 ≤ STEP5 ∧ 1 ≤ STEP6 := by
  have h5 := greyChk5_all g hg
  have h6 := greyChk6_all g hg
  unfold greyChk5 at h5
  unfold greyChk6 at h6
  rw [List.any_eq_true] at h5 h6
  obtain ⟨n5, _, h5⟩ := h5
  obtain ⟨n6, _, h6⟩ := h6
  obtain ⟨a, b, e⟩ := of_decide_eq_true h5
  obtain ⟨c, d, f⟩ := of_decide_eq_true h6
  refine ⟨_, _, _, _, a, b, c, d, ?_, ?_, by decide, by decide⟩
  · rw [← c5_2t _ _ a b]; exact e
  · rw [← c6_2t _ _ c d]; exact f

/-- BC4 / BC5 / BC3 alpha: every 8-bit value is exactly an endpoint (entry 0 of the palette with `e0 = v`), in
both interpolation modes: error 0 is achievable. -/
theorem representable_floor_bc4 : ∀ v, v ≤ 255 → v ∈ specPalette4 v 0 ∧ v ∈ specPalette4 v 255 := by
  intro v hv
  have h := allUpTo (fun v => decide (v ∈ specPalette4 v 0 ∧ v ∈ specPalette4 v 255)) 255 (by decide +kernel) v hv
  exact of_decide_eq_true h

/-! ### the quantisation step bounds of the oracle -/

/-- Each bound is the largest difference between the decoded 8-bit values of two adjacent endpoint levels of
the channel ("one endpoint quantisation step", read on decoded values): 5-bit 9, 6-bit 5, BC2's 4-bit alpha 17,
8-bit UNORM 1, 8-bit SNORM shown at 8 bit 2 (255 levels on 256 values), BC7's coarsest colour grid (mode 0,
4 bits + p-bit) 9 and coarsest alpha grid (mode 4, 6 bits) 5. -/
theorem step_bounds :
    maxGap n5n8 31 = STEP5 ∧ maxGap n6n8 63 = STEP6 ∧ maxGap n4n8 15 = STEP4 ∧ maxGap (fun v => v) 255 = STEP8U ∧
    maxGap (fun s => s8n8 (w8 (s + 1 + 128))) 254 = STEP8S ∧
    maxGap (fun x => Bc7.promote x 5) 31 = STEP7C ∧ maxGap (fun x => Bc7.promote x 6) 63 = STEP7A := by
  decide +kernel

end Dds.C13
