/-
C13 — block-compressed encoding keeps representable content and emits portable blocks.

PARTIAL by design (DESIGN.md §5 C13, §8): the float endpoint search of the encoders is NOT modelled, so no
theorem here says "the encoder's output decodes to within the bound".  What is proved, for ALL inputs:
  * the discrete encoder logic that decides which blocks can be emitted (`Enc13.lean`): endpoint ordering and
    tie-breaking (`new_p4_strict`), alpha thresholding, palette-mode choice, BC2/BC3 forcing four colours,
    BC4 endpoint order ↔ interpolation mode;
  * that blocks meeting the emitted-block predicate `Portable` decode identically under decoders that differ
    on the unspecified cases (`portable_agreement`, `portable_decoders_agree`), over the decoder models proved
    against the specification in C03;
  * representability floors at specification level (`representable_floor*`) and the quantisation step bounds
    the oracle uses (`step_bounds`);
  * the encoders' fully discrete single-colour paths decode exactly (BC7: the whole block for all 2³² colours;
    BC4-type UNORM and BC3 alpha under any colour block; the SNORM `closest` branch for all 255 levels; BC2's 4-bit
    alpha to the nearest multiple of 17; 5:6:5 corner colours);
  * opacity of BC7, decoder side for EVERY block (modes 0–3 always opaque; any mode: a pixel is opaque when both
    endpoints of the channel routed to alpha are 255; when a stored alpha endpoint is 255), and the discrete
    control flow of the encoder that bears on it (modes tried, forced p-bits, the exactness guard of constant alpha).
  * the discrete core of the BC7 ENCODER (`Enc7.lean`: the block writers `Compressed::mode0 … mode7` with the index-list
    compression and the anchor fix-up, the encoder's own palette arithmetic, the exhaustive `closest_*` index search):
    the writer is a right inverse of the proved decoder on the encoder's intended palette, for EVERY mode, partition,
    rotation, index selector, endpoint tuple, p-bit choice and index list (`bc7_writer_roundtrip`); the encoder's
    palette arithmetic is the decoder's and the specification's (`bc7_encoder_palette_eq_decoder`); `closest_*` returns
    the first palette entry of least squared distance, the error is the sum of those distances and cannot overflow
    (`bc7_closest_is_argmin`); content that is a palette entry comes back exactly (`bc7_mode6_keeps_palette_content`);
    written blocks whose alpha endpoints are all ones decode opaque (`bc7_writer_opaque`).
The clauses about the searched output are decided by exploration with this verified oracle (harness/src/c13.rs).
-/
import DdsModel.Proofs.Enc13
import DdsModel.Proofs.Bc7Single
import DdsModel.Proofs.Bc7Opaque
import DdsModel.Proofs.Enc13Opaque
import DdsModel.Proofs.Enc13Single
import DdsModel.Proofs.Enc7Consequences
import DdsModel.Proofs.Enc7Stats
import DdsModel.Proofs.EncBc15Bc2
import DdsModel.Proofs.EncBc15PaletteBc4
namespace Dds.C13
open Dds Dds.Bc Dds.Enc13

/-! ### endpoint ordering (`EndPoints::new_p4`, `new_p3_default`) -/

/-- For ALL valid 5:6:5 pairs `new_p4` returns valid colours with `c0 > c1` as packed `u16` (so the
`debug_assert!` holds, `c1.b -= 1` never underflows and the block is in four-colour mode). -/
theorem new_p4_strict (c0 c1 : C565) (h0 : c0.Valid) (h1 : c1.Valid) :
    (newP4 c0 c1).1.toU16 > (newP4 c0 c1).2.toU16 ∧ (newP4 c0 c1).1.Valid ∧ (newP4 c0 c1).2.Valid ∧
      (newP4 c0 c1).1.toU16 < 65536 :=
  have h := newP4_spec c0 c1 h0 h1
  ⟨h.2.2, h.1, h.2.1, toU16_lt _ h.1⟩

/-- `new_p3_default` returns `c0 ≤ c1` (three-colour mode); equality is possible. -/
theorem new_p3_default_le (c0 c1 : C565) (h0 : c0.Valid) (h1 : c1.Valid) :
    (newP3Default c0 c1).1.toU16 ≤ (newP3Default c0 c1).2.toU16 ∧ (newP3Default c0 c1).1.Valid ∧
      (newP3Default c0 c1).2.Valid :=
  have h := newP3_spec c0 c1 h0 h1
  ⟨h.2.2, h.1, h.2.1⟩

/-- both tie-breaking branches and the swap are reachable -/
example : newP4 ⟨3, 7, 0⟩ ⟨3, 7, 0⟩ = (⟨3, 7, 1⟩, ⟨3, 7, 0⟩) ∧ newP4 ⟨3, 7, 5⟩ ⟨3, 7, 5⟩ = (⟨3, 7, 5⟩, ⟨3, 7, 4⟩) ∧
    newP4 ⟨0, 0, 0⟩ ⟨31, 63, 31⟩ = (⟨31, 63, 31⟩, ⟨0, 0, 0⟩) ∧ newP3Default ⟨0, 0, 0⟩ ⟨0, 0, 0⟩ = (⟨0, 0, 0⟩, ⟨0, 0, 0⟩) := by
  decide

/-- Every colour block assembled from `new_p4` endpoints meets `Portable`: as a BC1 block, and behind any
8-byte alpha block as a BC2 / BC3-family block. -/
theorem p4_blocks_portable (c0 c1 : C565) (h0 : c0.Valid) (h1 : c1.Valid) (idx ok3 : Nat) :
    Portable (some .bc1) (blkOf (withIndexes (newP4 c0 c1) idx)) ok3 = true ∧
    ∀ (alpha : List Nat) (f : Fmt), alpha.length = 8 → f ∈ [Fmt.bc2, .bc2p, .bc3, .bc3p, .rxgb, .bc3n] →
      Portable (some f) (blkOf (alpha ++ withIndexes (newP4 c0 c1) idx)) ok3 = true := by
  have h := new_p4_strict c0 c1 h0 h1
  constructor
  · have e := le16_withIndexes (newP4 c0 c1) idx []
    simp only [List.nil_append, List.length_nil, Nat.zero_add] at e
    unfold Portable
    simp only [e.1, e.2, h.1, decide_true, Bool.true_or]
  · intro alpha f hlen hf
    have e := le16_withIndexes (newP4 c0 c1) idx alpha
    rw [hlen] at e
    have hp : decide (le16 (blkOf (alpha ++ withIndexes (newP4 c0 c1) idx)) 8 >
        le16 (blkOf (alpha ++ withIndexes (newP4 c0 c1) idx)) 10) = true := by
      rw [e.1, e.2]; exact decide_eq_true h.1
    simp only [List.mem_cons, List.not_mem_nil, or_false] at hf
    rcases hf with rfl | rfl | rfl | rfl | rfl | rfl <;> exact hp

/-! ### alpha thresholding and palette-mode choice -/

/-- `get_alpha_map`: bit `i` of the map is set exactly when the 8-bit alpha of pixel `i` is at least 128,
i.e. `alpha/255 ≥ 1/2` (`ALPHA_THRESHOLD = 0.5`, comparison `>=`: one half itself is opaque). -/
theorem alpha_threshold (alphas : List Nat) (hl : alphas.length = 16) (i : Nat) :
    (alphaMap alphas).testBit i = (decide (i < 16) && decide (alphas.getD i 0 ≥ 128)) :=
  alphaMap_testBit alphas hl i

/-- BC2, BC2 premultiplied, BC3, BC3 premultiplied, RXGB and BC3n (`get_bc3_options`: `no_p3_default`) use
ONLY `compress_p4`, whatever the quality and the alpha channel — hence (with `new_p4_strict`) `colour0 > colour1`. -/
theorem bc23_always_p4 (q : Quality) (alphas : List Nat) :
    choice (bc3Options q).1 (bc3Options q).2 alphas = .p4 := by
  cases q <;> simp [choice, bc3Options, bc1Options, ALL_OPAQUE, ALL_TRANSPARENT]

/-- BC1 (`get_bc1_options`): all pixels below one half → the constant transparent block; some below and some
not → three-colour mode only; all opaque → four-colour only at Fast/Normal, the better of both at High and
Unreasonable (ties go to three-colour mode). -/
theorem bc1_choice (q : Quality) (alphas : List Nat) (hl : alphas.length = 16) :
    ((∀ i, i < 16 → alphas.getD i 0 < 128) → choice (bc1Options q).1 (bc1Options q).2 alphas = .transparentBlock) ∧
    ((∃ i, i < 16 ∧ alphas.getD i 0 < 128) → (∃ j, j < 16 ∧ alphas.getD j 0 ≥ 128) →
      choice (bc1Options q).1 (bc1Options q).2 alphas = .p3) ∧
    ((∀ i, i < 16 → alphas.getD i 0 ≥ 128) → choice (bc1Options q).1 (bc1Options q).2 alphas =
      (if q = .fast ∨ q = .normal then .p4 else .best)) := by
  refine ⟨?_, ?_, ?_⟩
  · intro h
    simp [choice, bc1Options, map_all_transparent alphas hl h]
  · intro ⟨i, hi, hti⟩ ⟨j, hj, hoj⟩
    have h0 : alphaMap alphas ≠ ALL_TRANSPARENT := by
      intro he
      have := alpha_threshold alphas hl j
      rw [he, decide_eq_true hj, decide_eq_true hoj] at this
      simp [ALL_TRANSPARENT] at this
    have h1 : alphaMap alphas ≠ ALL_OPAQUE := by
      intro he
      have := alpha_threshold alphas hl i
      rw [he, show ALL_OPAQUE = 2 ^ 16 - 1 from rfl, Nat.testBit_two_pow_sub_one] at this
      have h2 : ¬ alphas.getD i 0 ≥ 128 := by omega
      rw [decide_eq_true hi, decide_eq_false h2] at this
      simp at this
    simp [choice, bc1Options, h0, h1]
  · intro h
    rw [choice]
    simp only [bc1Options, Bool.false_eq_true, if_false, map_all_opaque alphas hl h]
    cases q <;> simp [ALL_OPAQUE, ALL_TRANSPARENT]

/-- the three alpha situations exist -/
example : alphaMap (List.replicate 16 127) = ALL_TRANSPARENT ∧ alphaMap (List.replicate 16 128) = ALL_OPAQUE ∧
    alphaMap ([127, 128] ++ List.replicate 14 255) = 65534 := by decide

/-! ### portability -/

/-- `Portable` as a proposition: BC1 — four-colour mode, or index 3 only where the mask allows it;
BC2/BC3 family — `colour0 > colour1` in the colour block; BC7 — not the reserved mode. -/
theorem portable_predicate_decidable (blk : Nat → Nat) (ok3 : Nat) :
    (Portable (some .bc1) blk ok3 = true ↔
      (le16 blk 0 > le16 blk 2 ∨ ∀ p, p < 16 → colourIndex blk 0 p = 3 → ok3.testBit p = true)) ∧
    (∀ f, f ∈ [Fmt.bc2, .bc2p, .bc3, .bc3p, .rxgb, .bc3n] →
      (Portable (some f) blk ok3 = true ↔ le16 blk 8 > le16 blk 10)) ∧
    (∀ f, f ∈ [Fmt.bc4u, .bc4s, .bc5u, .bc5s] → Portable (some f) blk ok3 = true) ∧
    (Portable none blk ok3 = true ↔ blk 0 ≠ 0) := by
  refine ⟨?_, ?_, ?_, ?_⟩
  · unfold Portable
    simp only [Bool.or_eq_true, decide_eq_true_eq, List.all_eq_true, List.mem_range, bne_iff_ne, ne_eq]
    constructor
    · rintro (h | h)
      · exact Or.inl h
      · refine Or.inr fun p hp h3 => ?_
        rcases h p hp with h' | h'
        · exact absurd h3 h'
        · exact h'
    · rintro (h | h)
      · exact Or.inl h
      · refine Or.inr fun p hp => ?_
        by_cases h3 : colourIndex blk 0 p = 3
        · exact Or.inr (h p hp h3)
        · exact Or.inl h3
  · intro f hf
    simp only [List.mem_cons, List.not_mem_nil, or_false] at hf
    rcases hf with rfl | rfl | rfl | rfl | rfl | rfl <;> simp [Portable]
  · intro f hf
    simp only [List.mem_cons, List.not_mem_nil, or_false] at hf
    rcases hf with rfl | rfl | rfl | rfl <;> rfl
  · simp [Portable]

/-- For EVERY block with `colour0 > colour1` the decoder that can switch to three colours (`bc1_u8_rgba`) and
the always-four-colour decoder (`bc1_no_default_u8_rgba`, BC2/BC3) produce the same pixel. -/
theorem portable_agreement (blk : Nat → Nat) (h : le16 blk 0 > le16 blk 2) (p : Nat) :
    bc1Px blk p = bc1NoDefaultPx blk p := by
  unfold bc1Px bc1NoDefaultPx
  simp only [h, if_true]

/-- In three-colour mode index 3 decodes to transparent black, for every block. -/
theorem three_colour_index3_transparent (blk : Nat → Nat) (h : le16 blk 0 ≤ le16 blk 2) (p : Nat)
    (h3 : colourIndex blk 0 p = 3) : bc1Px blk p = (0, 0, 0, 0) := by
  have hn : ¬ le16 blk 0 > le16 blk 2 := by omega
  unfold colourIndex at h3
  unfold bc1Px
  simp only [hn, if_false, Nat.zero_add] at h3 ⊢
  rw [h3]; rfl

/-- a decoder that shows an arbitrary pixel `alt` for index 3 of the three-colour mode (the case on which
BC1 decoders differ: transparent black, opaque black, or the four-colour entry) -/
def altBc1Px (alt : Rgba) (blk : Nat → Nat) (p : Nat) : Rgba :=
  if le16 blk 0 ≤ le16 blk 2 ∧ colourIndex blk 0 p = 3 then alt else bc1Px blk p

/-- On a `Portable` block every decoder of the family agrees with this library's decoder:
* BC1: at every pixel outside the mask `ok3` (an opaque input pixel inside the image) the deviating decoder
  shows the same pixel, and that pixel is opaque;
* BC2/BC3 family: a decoder that applies BC1's mode switch to the colour block (as many do, and as this
  library did before the repair of F4) shows the same colour as the always-four-colour decoder. -/
theorem portable_decoders_agree (blk : Nat → Nat) (ok3 : Nat) :
    (Portable (some .bc1) blk ok3 = true → ∀ p, p < 16 → ok3.testBit p = false →
      ∀ alt, altBc1Px alt blk p = bc1Px blk p ∧ (bc1Px blk p).2.2.2 = 255) ∧
    (∀ f, f ∈ [Fmt.bc2, .bc2p, .bc3, .bc3p, .rxgb, .bc3n] → Portable (some f) blk ok3 = true →
      ∀ p, bc1Px (upper blk) p = bc1NoDefaultPx (upper blk) p) := by
  constructor
  · intro hp p hlt hm alt
    rcases ((portable_predicate_decidable blk ok3).1.mp hp) with h | h
    · have hn : ¬ (le16 blk 0 ≤ le16 blk 2 ∧ colourIndex blk 0 p = 3) := by omega
      refine ⟨by unfold altBc1Px; rw [if_neg hn], ?_⟩
      unfold bc1Px
      simp only [h, if_true]
      exact lut4_P (fun c : Rgba => c.2.2.2 = 255) _ _ _ _ _ rfl rfl rfl rfl
    · have h3 : colourIndex blk 0 p ≠ 3 := by
        intro h3
        rw [h p hlt h3] at hm
        exact absurd hm (by decide)
      have hn : ¬ (le16 blk 0 ≤ le16 blk 2 ∧ colourIndex blk 0 p = 3) := fun h' => h3 h'.2
      refine ⟨by unfold altBc1Px; rw [if_neg hn], ?_⟩
      unfold colourIndex at h3
      simp only [Nat.zero_add] at h3
      have hk : (le32 blk 4 >>> (p * 2)) &&& 3 < 4 := by rw [and3]; omega
      unfold bc1Px
      simp only []
      generalize (le32 blk 4 >>> (p * 2)) &&& 3 = k at h3 hk
      have : k = 0 ∨ k = 1 ∨ k = 2 := by omega
      rcases this with rfl | rfl | rfl
      · rfl
      · rfl
      · show (if _ then _ else _ : Rgba).2.2.2 = 255
        split <;> rfl
  · intro f hf hp p
    have h := ((portable_predicate_decidable blk ok3).2.1 f hf).mp hp
    apply portable_agreement
    unfold upper le16 at *
    simpa using h

/-- a portable BC1 block in three-colour mode using index 3 under the mask, and a non-portable one -/
example : Portable (some .bc1) (blkOf [0, 0, 0xFF, 0xFF, 0x03, 0, 0, 0]) 1 = true ∧
    Portable (some .bc1) (blkOf [0, 0, 0xFF, 0xFF, 0x03, 0, 0, 0]) 0 = false ∧
    Portable (some .bc3) (blkOf ([255, 0, 0, 0, 0, 0, 0, 0] ++ [0, 0, 0xFF, 0xFF, 0, 0, 0, 0])) 0 = false ∧
    Portable (some .bc3) (blkOf ([255, 0, 0, 0, 0, 0, 0, 0] ++ [0xFF, 0xFF, 0, 0, 0, 0, 0, 0])) 0 = true := by
  decide

/-! ### BC4: endpoint order ↔ interpolation mode -/

/-- `new_inter6` emits `(c0, c1) = (max, min)` with `c0 > c1`, which the decoder reads as the six-interpolant
mode, and `new_inter4 = inter6_to_inter4` emits the swapped pair with `c0 < c1`, which the decoder reads as
the four-interpolant mode with the constants 0 and 1 at indexes 6, 7.  So the palette the encoder searched in
is the palette the decoder uses (6 interpolants iff `e0 > e1`). -/
theorem bc4_mode_coupling (minR maxR minF maxC : Nat) (h1 : minR ≤ maxR) (h2 : minF ≤ maxC) :
    (fixDistinct minR maxR minF maxC).1 < (fixDistinct minR maxR minF maxC).2 ∧
    ∀ (ops : Bc4Ops) (blk : Nat → Nat) (p : Nat),
      (blk 0 = (fixDistinct minR maxR minF maxC).2 → blk 1 = (fixDistinct minR maxR minF maxC).1 →
        bc4uPx ops blk p = bc4Lut ops (ops.fromByte (blk 0)) (ops.fromByte (blk 1)) (blk 0) (blk 1) true (bc4Index blk p)) ∧
      (blk 0 = (fixDistinct minR maxR minF maxC).1 → blk 1 = (fixDistinct minR maxR minF maxC).2 →
        bc4uPx ops blk p = bc4Lut ops (ops.fromByte (blk 0)) (ops.fromByte (blk 1)) (blk 0) (blk 1) false (bc4Index blk p)) := by
  have hlt : (fixDistinct minR maxR minF maxC).1 < (fixDistinct minR maxR minF maxC).2 := by
    unfold fixDistinct
    split
    · split
      · split
        · show minF < 1; omega
        · show minF - 1 < maxC; omega
      · show minF < maxC; omega
    · show minR < maxR; omega
  refine ⟨hlt, fun ops blk p => ⟨fun a b => ?_, fun a b => ?_⟩⟩
  · have : blk 0 > blk 1 := by omega
    unfold bc4uPx; simp only [this, decide_true]
  · have : ¬ blk 0 > blk 1 := by omega
    unfold bc4uPx; simp only [this, decide_false]

example : fixDistinct 7 7 7 7 = (6, 7) ∧ fixDistinct 0 0 0 0 = (0, 1) ∧ fixDistinct 7 7 6 7 = (6, 7) := by decide

/-- single 8-bit values (`single_color` via `new_closest`): the emitted block `[v, 0, 0, …]` decodes to `v` at
all 16 pixels, in BC4 UNORM and as BC3 alpha — the "exactly for BC4/BC5 and BC3 alpha" clause for 8-bit input
on the discrete path (all qualities but Unreasonable, which brute-forces). -/
theorem bc4_single_exact : ∀ v, v ≤ 255 →
    Bc.decodeBlock .bc4u .u8 (blkOf (bc4uSingle v)) = List.replicate 16 [v] := by
  intro v hv
  have h := allUpTo (fun v => decide (Bc.decodeBlock .bc4u .u8 (blkOf (bc4uSingle v)) = List.replicate 16 [v])) 255
    (by decide +kernel) v hv
  exact of_decide_eq_true h

/-! ### BC7 single colours (`compress_single_color`) -/

/-- the index list `constant(1)` needs no endpoint swap and compresses to 31 bits `…0101011` -/
theorem bc7_single_no_swap : compressP1 constant1 = (0x2AAAAAAB, false) := by decide

/-- Channel level, all 256 values: the 7-bit endpoints `optimize(c)`, widened by bit replication and
interpolated with the weight of index 1 (21/64, stored as 84/256), give back exactly `c`. -/
theorem bc7_single_channel_exact : ∀ c, c ≤ 255 →
    Bc7.lerp (Bc7.promote (optimize c).1 7) (Bc7.promote (optimize c).2 7) (Bc7.WEIGHTS_2.getD 1 0) = c ∧
    (optimize c).1 < 128 ∧ (optimize c).2 < 128 := by
  intro c hc
  have h := allUpTo (fun c => decide (Bc7.lerp (Bc7.promote (optimize c).1 7) (Bc7.promote (optimize c).2 7)
      (Bc7.WEIGHTS_2.getD 1 0) = c ∧ (optimize c).1 < 128 ∧ (optimize c).2 < 128)) 255 (by decide +kernel) c hc
  exact of_decide_eq_true h

/-- alpha: both endpoints are `a`, any weight gives `a` -/
theorem bc7_single_alpha_exact : ∀ a, a ≤ 255 → ∀ k, k < 4 → Bc7.lerp a a (Bc7.WEIGHTS_2.getD k 0) = a := by
  intro a ha k hk
  have h := allUpTo (fun a => (List.range 4).all fun k => decide (Bc7.lerp a a (Bc7.WEIGHTS_2.getD k 0) = a)) 255
    (by decide +kernel) a ha
  exact of_decide_eq_true (List.all_eq_true.mp h k (List.mem_range.mpr hk))

/-- The mode-5 bit-field layout of `compress_single_color` (`Compressed::mode5` + `BitStream::write_u64`): the block
fits 128 bits, its first byte selects mode 5, rotation 0, and every field the decoder reads positionally
(`Bc7Spec.rd block position width`) is the value the encoder wrote: the six 7-bit colour endpoints `optimize(c)`, the
two 8-bit alpha endpoints `a`, and — through the anchor rule — colour index 1 and alpha index 1 at all 16 pixels. -/
theorem bc7_single_mode5_layout (r g b a : Nat) (hr : r ≤ 255) (hg : g ≤ 255) (hb : b ≤ 255) (ha : a ≤ 255) :
    bc7Single r g b a < 2 ^ 128 ∧ Bc7Spec.modeOf (bc7Single r g b a) = 5 ∧ Bc7Spec.rd (bc7Single r g b a) 6 2 = 0 ∧
    Bc7Spec.rd (bc7Single r g b a) 8 7 = (optimize r).1 ∧ Bc7Spec.rd (bc7Single r g b a) 15 7 = (optimize r).2 ∧
    Bc7Spec.rd (bc7Single r g b a) 22 7 = (optimize g).1 ∧ Bc7Spec.rd (bc7Single r g b a) 29 7 = (optimize g).2 ∧
    Bc7Spec.rd (bc7Single r g b a) 36 7 = (optimize b).1 ∧ Bc7Spec.rd (bc7Single r g b a) 43 7 = (optimize b).2 ∧
    Bc7Spec.rd (bc7Single r g b a) 50 8 = a ∧ Bc7Spec.rd (bc7Single r g b a) 58 8 = a ∧
    ∀ i, i < 16 → Bc7Spec.index1 5 Bc7.r5 (bc7Single r g b a) 0 i = 1 ∧ Bc7Spec.index2 5 Bc7.r5 (bc7Single r g b a) i = 1 := by
  obtain ⟨hr0, hr1⟩ := optimize_lt r hr
  obtain ⟨hg0, hg1⟩ := optimize_lt g hg
  obtain ⟨hb0, hb1⟩ := optimize_lt b hb
  have ha' : a < 256 := by omega
  rw [bc7Single_eq_sum r g b a hr hg hb ha]
  obtain ⟨f0, f1, f2, f3, f4, f5, f6, f7, f8⟩ := sum_fields _ _ _ _ _ _ a hr0 hr1 hg0 hg1 hb0 hb1 ha'
  refine ⟨?_, sum_mode _ _ _ _ _ _ _, f0, f1, f2, f3, f4, f5, f6, f7, f8, fun i hi =>
    index_const _ 0 i hi (sum_index _ _ _ _ _ _ a hr0 hr1 hg0 hg1 hb0 hb1 ha')⟩
  rw [sum_split]
  have := sum_low_lt _ _ _ _ _ _ a hr0 hr1 hg0 hg1 hb0 hb1 ha'
  have hI : IDX < 2 ^ 62 := by decide
  omega

/-- Whole blocks through the BC7 decoder model, for ALL 2³² colours:
`decode_bc7_block (compress_single_color (r, g, b, a)) = 16 × (r, g, b, a)`.
(From the layout above, `Bc7.decodeBlock = Bc7Spec.decodeBlock` of C03x, and the channel lemmas.) -/
theorem bc7_single_block_exact (r g b a : Nat) (hr : r ≤ 255) (hg : g ≤ 255) (hb : b ≤ 255) (ha : a ≤ 255) :
    Bc7.decodeBlock (bc7Single r g b a) = List.replicate 16 [r, g, b, a] :=
  bc7Single_decodes r g b a hr hg hb ha

/-- a colour off the grey diagonal and off the axes, computed -/
example : Bc7.decodeBlock (bc7Single 201 17 128 93) = List.replicate 16 [201, 17, 128, 93] ∧
    bc7Single 255 255 255 255 = 0x55555556aaaaaaafffffffffffffff20 := by decide +kernel

/-- fully opaque single colours stay opaque (the alpha clause of the line above) -/
theorem bc7_single_opaque (r g b : Nat) (hr : r ≤ 255) (hg : g ≤ 255) (hb : b ≤ 255) (i : Nat) (hi : i < 16) :
    ((Bc7.decodeBlock (bc7Single r g b 255)).getD i []).getD 3 0 = 255 := by
  rw [bc7_single_block_exact r g b 255 hr hg hb (by decide)]
  simp only [List.getD_eq_getElem?_getD, List.getElem?_replicate, if_pos hi, Option.getD_some]
  rfl

/-! ### BC7 opacity, decoder side (every block) -/

/-- For EVERY 128-bit block `b` (any `Nat`; only bits 0..127 are looked at):
* modes 0–3 decode alpha 255 at every pixel;
* any mode with record `r`: pixel `i` decodes alpha 255 whenever the two fully decoded endpoints (after p-bit and
  bit replication) of its subset are 255 in the channel `alphaSrc rot` that the rotation field routes to alpha
  (rotation 0: the alpha endpoints themselves; rotation 1/2/3 of modes 4, 5: the R/G/B endpoints);
* modes without a rotation field (0–3, 6, 7) route alpha to alpha. -/
theorem bc7_opaque_decode (b : Nat) :
    (Bc7Spec.modeOf b ≤ 3 → ∀ i, i < 16 → ((Bc7.decodeBlock b).getD i []).getD 3 0 = 255) ∧
    (∀ r, Bc7Spec.modes[Bc7Spec.modeOf b]? = some r → ∀ i, i < 16 →
      Bc7Spec.endpoint (Bc7Spec.modeOf b) r b
        (2 * BcTables.specSubset r.subsets (Bc7Spec.rd b (Bc7Spec.modeOf b + 1) r.partBits) i)
        (Bc7Spec.alphaSrc (Bc7Spec.rotOf (Bc7Spec.modeOf b) r b)) = 255 →
      Bc7Spec.endpoint (Bc7Spec.modeOf b) r b
        (2 * BcTables.specSubset r.subsets (Bc7Spec.rd b (Bc7Spec.modeOf b + 1) r.partBits) i + 1)
        (Bc7Spec.alphaSrc (Bc7Spec.rotOf (Bc7Spec.modeOf b) r b)) = 255 →
      ((Bc7.decodeBlock b).getD i []).getD 3 0 = 255) ∧
    (∀ r, Bc7Spec.modes[Bc7Spec.modeOf b]? = some r → r.rotBits = 0 →
      Bc7Spec.alphaSrc (Bc7Spec.rotOf (Bc7Spec.modeOf b) r b) = 3) := by
  have h2 : ∀ r, Bc7Spec.modes[Bc7Spec.modeOf b]? = some r → ∀ i, i < 16 →
      Bc7Spec.endpoint (Bc7Spec.modeOf b) r b
        (2 * BcTables.specSubset r.subsets (Bc7Spec.rd b (Bc7Spec.modeOf b + 1) r.partBits) i)
        (Bc7Spec.alphaSrc (Bc7Spec.rotOf (Bc7Spec.modeOf b) r b)) = 255 →
      Bc7Spec.endpoint (Bc7Spec.modeOf b) r b
        (2 * BcTables.specSubset r.subsets (Bc7Spec.rd b (Bc7Spec.modeOf b + 1) r.partBits) i + 1)
        (Bc7Spec.alphaSrc (Bc7Spec.rotOf (Bc7Spec.modeOf b) r b)) = 255 →
      ((Bc7.decodeBlock b).getD i []).getD 3 0 = 255 := by
    intro r hr i hi e0 e1
    rw [Bc7.decodeBlock_eq, Bc7.spec_decodeBlock_mode b _ r rfl hr]
    exact Bc7Spec.decodeMode_alpha _ r b i hi e0 e1
  have h3 : ∀ r, Bc7Spec.modes[Bc7Spec.modeOf b]? = some r → r.rotBits = 0 →
      Bc7Spec.alphaSrc (Bc7Spec.rotOf (Bc7Spec.modeOf b) r b) = 3 := by
    intro r _ h0
    rw [Bc7Spec.rotOf_zero _ r b h0]; rfl
  refine ⟨fun hm i hi => ?_, h2, h3⟩
  have hcase : Bc7Spec.modeOf b = 0 ∨ Bc7Spec.modeOf b = 1 ∨ Bc7Spec.modeOf b = 2 ∨ Bc7Spec.modeOf b = 3 := by omega
  have key : ∀ r, Bc7Spec.modes[Bc7Spec.modeOf b]? = some r → r.alphaBits = 0 → r.rotBits = 0 →
      ((Bc7.decodeBlock b).getD i []).getD 3 0 = 255 := by
    intro r hr ha h0
    have hs := h3 r hr h0
    refine h2 r hr i hi ?_ ?_ <;> rw [hs] <;> exact Bc7Spec.noalpha_endpoint _ r b _ ha
  rcases hcase with h | h | h | h
  · exact key ⟨3, 4, 0, 0, 4, 0, 1, 0, 3, 0⟩ (by rw [h]; rfl) rfl rfl
  · exact key ⟨2, 6, 0, 0, 6, 0, 0, 1, 3, 0⟩ (by rw [h]; rfl) rfl rfl
  · exact key ⟨3, 6, 0, 0, 5, 0, 0, 0, 2, 0⟩ (by rw [h]; rfl) rfl rfl
  · exact key ⟨2, 6, 0, 0, 7, 0, 1, 0, 2, 0⟩ (by rw [h]; rfl) rfl rfl

/-- the hypotheses are satisfiable: a mode-1 block; a mode-6 block with alpha fields 127 and both p-bits 1 (pixel 0:
subset 0, endpoints 0 and 1); a mode-5 block with rotation 1 whose R endpoints are 127 → 255 while its alpha
endpoints are 0: the decoded ALPHA is 255 and the decoded red is 0 -/
example : Bc7Spec.modeOf 0xfedcba98765432100123456789abcdee ≤ 3 ∧
    Bc7Spec.modeOf (64 + 127 * 2 ^ 49 + 127 * 2 ^ 56 + 3 * 2 ^ 63) = 6 ∧
    Bc7Spec.endpoint 6 Bc7.r6 (64 + 127 * 2 ^ 49 + 127 * 2 ^ 56 + 3 * 2 ^ 63) 0 3 = 255 ∧
    Bc7Spec.endpoint 6 Bc7.r6 (64 + 127 * 2 ^ 49 + 127 * 2 ^ 56 + 3 * 2 ^ 63) 1 3 = 255 ∧
    Bc7.decodeBlock (64 + 127 * 2 ^ 49 + 127 * 2 ^ 56 + 3 * 2 ^ 63) = List.replicate 16 [1, 1, 1, 255] ∧
    Bc7Spec.rotOf 5 Bc7.r5 (32 + 1 * 2 ^ 6 + 127 * 2 ^ 8 + 127 * 2 ^ 15) = 1 ∧
    Bc7.decodeBlock (32 + 1 * 2 ^ 6 + 127 * 2 ^ 8 + 127 * 2 ^ 15) = List.replicate 16 [0, 0, 0, 255] := by
  decide +kernel

/-- When is a stored alpha endpoint 255?  For every block `b` and endpoint number `e`, in terms of the raw fields:
mode 4 — the 6-bit field is 63; mode 5 — the 8-bit field is 255; mode 6 — the 7-bit field is 127 AND the endpoint's
p-bit is 1; mode 7 — the 5-bit field is 31 AND the endpoint's p-bit is 1.  (`Bc7.r4 … r7` are the records of the
specification's mode table.) -/
theorem bc7_alpha_endpoint_255_iff (b e : Nat) :
    Bc7Spec.modes[4]? = some Bc7.r4 ∧ Bc7Spec.modes[5]? = some Bc7.r5 ∧ Bc7Spec.modes[6]? = some Bc7.r6 ∧
    Bc7Spec.modes[7]? = some Bc7.r7 ∧
    (Bc7Spec.endpoint 4 Bc7.r4 b e 3 = 255 ↔ Bc7Spec.rd b (Bc7Spec.alphaStart 4 Bc7.r4 + e * 6) 6 = 63) ∧
    (Bc7Spec.endpoint 5 Bc7.r5 b e 3 = 255 ↔ Bc7Spec.rd b (Bc7Spec.alphaStart 5 Bc7.r5 + e * 8) 8 = 255) ∧
    (Bc7Spec.endpoint 6 Bc7.r6 b e 3 = 255 ↔
      Bc7Spec.rd b (Bc7Spec.alphaStart 6 Bc7.r6 + e * 7) 7 = 127 ∧ Bc7Spec.rd b (Bc7Spec.pStart 6 Bc7.r6 + e) 1 = 1) ∧
    (Bc7Spec.endpoint 7 Bc7.r7 b e 3 = 255 ↔
      Bc7Spec.rd b (Bc7Spec.alphaStart 7 Bc7.r7 + e * 5) 5 = 31 ∧ Bc7Spec.rd b (Bc7Spec.pStart 7 Bc7.r7 + e) 1 = 1) :=
  ⟨rfl, rfl, rfl, rfl, Bc7Spec.alpha_endpoint_255_iff b e⟩

/-! ### BC7 opacity, encoder side: the discrete control flow (float results are parameters) -/

/-- `compress_bc7_block` (bc7.rs 95–136) with the presets of `BC7_UNORM` (bc.rs 480–491, `force_modes` empty): for a
fully opaque block (`stats.min.a = 255`) the modes tried are exactly the allowed modes among 0–6 — never mode 7 — for
every `allowed_modes` that contains one of them, in particular at all four quality levels (Fast {0,4,6}, Normal
{1,3,4,5,6}, High/Unreasonable {0..6}); and a block mixing opaque and non-opaque pixels is never tried in mode 6. -/
theorem bc7_opaque_modes :
    (∀ allowed, allowed ≤ 255 → allowed &&& 127 ≠ 0 →
      bc7ModesTried 255 255 allowed 0 = allowed &&& 127 ∧ bc7ModesTried 255 255 allowed 0 &&& MODE 7 = 0) ∧
    (∀ q, bc7ModesTried 255 255 (bc7Allowed q) 0 = bc7Allowed q &&& 127 ∧ bc7Allowed q &&& 127 ≠ 0) ∧
    (∀ minA, minA < 255 → ∀ q, bc7ModesTried minA 255 (bc7Allowed q) 0 &&& MODE 6 = 0) :=
  ⟨opaque_modes.1, opaque_modes.2, mixed_no_mode6⟩
example : bc7Allowed .fast ≤ 255 ∧ bc7Allowed .fast &&& 127 ≠ 0 ∧ bc7ModesTried 255 255 (bc7Allowed .normal) 0 = 0b1111010 := by
  decide

/-- `compress_rgba` (modes 6 and 7; bc7.rs 629–631 → `PBitHandling::pick_best` 761–785 → `pick_best_of_directly`
786–808 → `Compressed::mode6/mode7` swap): for a fully opaque subset the p-bits written are (1, 1) — for every
`max_p_bit_combinations`, every float estimate (`best1`, `best2`) and every error the float search reports (`err`),
with or without the endpoint swap.  By `bc7_alpha_endpoint_255_iff` this is NECESSARY for an alpha endpoint of 255;
that the 7-bit / 5-bit alpha fields are all ones is decided by `Quantization::pick_best` in f32 — not modelled. -/
theorem bc7_opaque_pbits (maxComb : Nat) (best1 : List (Bool × Bool) → Bool × Bool)
    (best2 : List (Bool × Bool) → List (Bool × Bool)) (err : Bool × Bool → Nat) (swap : Bool) :
    pickBestStates (possiblePBits true) ALL_UNIQUE maxComb best1 best2 = [(true, true)] ∧
    (pickBestOfDirectly (pickBestStates (possiblePBits true) ALL_UNIQUE maxComb best1 best2) err).map (pSwap · swap) =
      some (true, true) ∧
    (∀ (S : Type) (poss : List S) (e : S → Nat) (s : S), pickBestOfDirectly poss e = some s → s ∈ poss) :=
  ⟨(opaque_pbits maxComb best1 best2 err swap).1, (opaque_pbits maxComb best1 best2 err swap).2,
   fun _ poss e s h => pickBestOfDirectly_mem poss e s h⟩

/-- ties keep the first state (strict `<`), a smaller error later wins -/
example : pickBestOfDirectly [(false, true), (true, true)] (fun _ => 0) = some (false, true) ∧
    pickBestOfDirectly ALL_UNIQUE (fun p => if p = (true, false) then 1 else 2) = some (true, false) := by decide

/-- Constant alpha in modes 4 and 5 (`compress_color_separate_alpha_with_rotation`, bc7.rs 534–545): whatever
`Alpha::<A>::round / floor / ceil` return (f32, parameters here), if the guard `round.promote().a == a` holds both
stored endpoints promote to exactly `a`, and every interpolation weight returns `a`; for `a = 255` the guard allows
exactly the all-ones endpoint (63 in mode 4, 255 in mode 5).  The other branch (floor / ceil) is float-dependent. -/
theorem bc7_single_alpha_guard (A a round floor ceil : Nat) :
    ((singleAlpha A a round floor ceil).2 = true → ∀ w, w ≤ 64 →
      promoteAlpha A (singleAlpha A a round floor ceil).1.1 = a ∧ promoteAlpha A (singleAlpha A a round floor ceil).1.2 = a ∧
      Bc7Spec.interp (promoteAlpha A (singleAlpha A a round floor ceil).1.1)
        (promoteAlpha A (singleAlpha A a round floor ceil).1.2) w = a) ∧
    (round < 64 → (promoteAlpha 6 round = 255 ↔ round = 63)) ∧
    (round < 256 → (promoteAlpha 8 round = 255 ↔ round = 255)) :=
  ⟨fun h w hw => singleAlpha_exact A a round floor ceil h w hw, singleAlpha_opaque_guard.1 round,
   singleAlpha_opaque_guard.2 round⟩
example : (singleAlpha 6 255 63 63 63).2 = true ∧ (singleAlpha 6 254 63 62 63).2 = false := by decide

/-! ### single values on the remaining discrete paths: SNORM, BC3 alpha, BC2 alpha -/

/-- BC4 / BC5 SNORM, the analogue of `bc4_single_exact`: the block `[from_norm(n), from_norm(0), 0, …]` that
`single_color(value, snorm)` emits on its `closest` branch decodes at all 16 pixels — 8-bit and 16-bit output — to
exactly the decoder's value of SNORM level `n`, for ALL 255 levels; side by side for BC5 (8 bit, third channel 128).
Which inputs take the branch is decided in f32 (`|c0_f − value| < 2⁻¹⁶`; `Enc13.snormGuardF32` over the binary32 model);
an 8-bit UNORM input passes it exactly for 0 and 255 (`Proofs/Enc13F32.snorm_closest_branch_iff`; blocks `81 81 00…` → 0
and `7f 81 00…` → 255, compared with `dds::encode` on every run), every other 8-bit value goes through the float palette
search and is explored. -/
theorem bc4s_closest_exact : ∀ n, n ≤ 254 →
    Bc.decodeBlock .bc4s .u8 (blkOf (bc4sClosest n)) = List.replicate 16 [s8n8 (fromNorm n)] ∧
    Bc.decodeBlock .bc4s .u16 (blkOf (bc4sClosest n)) = List.replicate 16 [s8n16 (fromNorm n)] ∧
    s8norm (fromNorm n) = n ∧
    (∀ m, m ≤ 254 → ∀ p, p < 16 →
      Bc.px .bc5s .u8 (blkOf (bc4sClosest n ++ bc4sClosest m)) p = [s8n8 (fromNorm n), s8n8 (fromNorm m), 128]) :=
  fun n hn => ⟨(bc4sClosest_decodes n hn).1, (bc4sClosest_decodes n hn).2, (fromNorm_norm n hn).1,
    fun m hm p hp => bc5sClosest_px n m hn hm p hp⟩
example : bc4sClosest 0 = [0x81, 0x81, 0, 0, 0, 0, 0, 0] ∧ bc4sClosest 254 = [0x7f, 0x81, 0, 0, 0, 0, 0, 0] ∧
    s8n8 (fromNorm 0) = 0 ∧ s8n8 (fromNorm 254) = 255 ∧ s8n8 (fromNorm 127) = 128 := by decide

/-- BC3 alpha (BC3, BC3 premultiplied): whatever the colour block is, a block whose alpha half is `single_color`'s
`[a, 0, 0, …]` decodes alpha exactly `a` at all 16 pixels, all 256 values (in particular 255 stays 255). -/
theorem bc3_alpha_single_exact (a : Nat) (ha : a ≤ 255) (blk : Nat → Nat)
    (h : ∀ i, i < 8 → blk i = (bc4uSingle a).getD i 0) (p : Nat) (hp : p < 16) :
    (px8 .bc3 blk p).getD 3 0 = a ∧ (px8 .bc3p blk p).getD 3 0 = a := bc3_alpha_single a ha blk h p hp
example : ∀ i, i < 8 → blkOf (bc4uSingle 200 ++ [1, 2, 3, 4, 5, 6, 7, 8]) i = (bc4uSingle 200).getD i 0 := by decide

/-- BC2 explicit alpha (BC2, BC2 premultiplied; `bc2_alpha` without alpha dithering): for a block of constant 8-bit
alpha `a` the eight alpha bytes are all `17·q` with `q = round(a/17)` (`n4FromU8`), and under ANY colour block every
pixel decodes alpha `17·q`: within 8 of `a` (inside the 4-bit step bound 17), exactly `a` when 17 divides `a` — so 255
stays 255 and 0 stays 0. -/
theorem bc2_alpha_single_step (a : Nat) (ha : a ≤ 255) :
    bc2AlphaSingle a = List.replicate 8 (17 * n4FromU8 a) ∧ n4FromU8 a ≤ 15 ∧
    dist (17 * n4FromU8 a) a ≤ 8 ∧ 8 < STEP4 ∧ (a % 17 = 0 → 17 * n4FromU8 a = a) ∧
    ∀ blk : Nat → Nat, (∀ i, i < 8 → blk i = (bc2AlphaSingle a).getD i 0) → ∀ p, p < 16 →
      (px8 .bc2 blk p).getD 3 0 = 17 * n4FromU8 a ∧ (px8 .bc2p blk p).getD 3 0 = 17 * n4FromU8 a :=
  have h := bc2AlphaSingle_px a ha
  ⟨h.1, h.2.2.1, h.2.2.2.1, by decide, h.2.2.2.2, fun blk hb p hp => bc2_alpha_single a ha blk hb p hp⟩
example : ∀ i, i < 8 → blkOf (bc2AlphaSingle 200 ++ [1, 2, 3, 4, 5, 6, 7, 8]) i = (bc2AlphaSingle 200).getD i 0 := by decide
example : bc2AlphaSingle 255 = List.replicate 8 255 ∧ bc2AlphaSingle 127 = List.replicate 8 119 ∧
    bc2AlphaSingle 128 = List.replicate 8 136 ∧ (255 : Nat) % 17 = 0 := by decide

/-! ### exactly representable 5:6:5 colours -/

/-- The 8 corner colours: the block of `compress_single_color` (`min == max`), in four-colour and in
three-colour mode, decodes to the colour at all 16 pixels, opaque; the four-colour one is `Portable` in every
format and the three-colour one never uses index 3. -/
theorem exact_single_decodes : ∀ c ∈ [(⟨0, 0, 0⟩ : C565), ⟨31, 0, 0⟩, ⟨0, 63, 0⟩, ⟨31, 63, 0⟩, ⟨0, 0, 31⟩, ⟨31, 0, 31⟩,
      ⟨0, 63, 31⟩, ⟨31, 63, 31⟩], ∀ p4 : Bool,
    Bc.decodeBlock .bc1 .u8 (blkOf (exactSingle p4 c)) =
      List.replicate 16 [c.r / 31 * 255, c.g / 63 * 255, c.b / 31 * 255, 255] ∧
    Portable (some .bc1) (blkOf (exactSingle p4 c)) 0 = true := by
  decide +kernel

/-! ### representability floors (specification level, `BcSpec`) -/

/-- If a value is exactly an entry of a palette — of ANY endpoint pair, colour or BC4 — the nearest-palette
assignment has zero error. -/
theorem representable_floor (pal : List Nat) (v : Nat) (h : v ∈ pal) : nearestErr pal v = 0 := by
  have := (foldl_min_le (fun x => dist x v) pal 256).2 v h
  unfold nearestErr
  have hd : dist v v = 0 := by unfold dist; simp
  omega

theorem representable_floor_spec (four : Bool) (e0 e1 m v : Nat) :
    (v ∈ specPalette four e0 e1 m → nearestErr (specPalette four e0 e1 m) v = 0) ∧
    (v ∈ specPalette4 e0 e1 → nearestErr (specPalette4 e0 e1) v = 0) :=
  ⟨representable_floor _ v, representable_floor _ v⟩

example : 85 ∈ specPalette true 0 31 31 ∧ 128 ∈ specPalette false 0 31 31 ∧ 73 ∈ specPalette4 255 0 := by decide +kernel

/-- Single colours, BC1-type palettes: for EVERY 8-bit grey level `g` there is an endpoint pair per channel
whose four-colour palette entry 2 (the same index for all channels) is within 1 of `g` in the specification's
decoded values — far inside the step bounds `STEP5`, `STEP6` the oracle demands, so the oracle's bound is
achievable for every grey level.  (The floor 1 is exact: e.g. no entry equals 1.) -/
theorem representable_floor_grey (g : Nat) (hg : g ≤ 255) :
    ∃ r0 r1 g0 g1, r0 ≤ 31 ∧ r1 ≤ 31 ∧ g0 ≤ 63 ∧ g1 ≤ 63 ∧
      dist (BcSpec.chan8 true 2 r0 r1 31) g ≤ 1 ∧ dist (BcSpec.chan8 true 2 g0 g1 63) g ≤ 1 ∧
      1 ≤ STEP5 ∧ 1 ≤ STEP6 := by
  have h5 := greyChk5_all g hg
  have h6 := greyChk6_all g hg
  unfold greyChk5 at h5
  unfold greyChk6 at h6
  rw [List.any_eq_true] at h5 h6
  obtain ⟨n5, _, h5⟩ := h5
  obtain ⟨n6, _, h6⟩ := h6
  obtain ⟨a, b, e⟩ := of_decide_eq_true h5
  obtain ⟨c, d, f⟩ := of_decide_eq_true h6
  refine ⟨_, _, _, _, a, b, c, d, ?_, ?_, by decide, by decide⟩
  · rw [← c5_2t _ _ a b]; exact e
  · rw [← c6_2t _ _ c d]; exact f

/-- BC4 / BC5 / BC3 alpha: every 8-bit value is exactly an endpoint (entry 0 of the palette with `e0 = v`), in
both interpolation modes: error 0 is achievable. -/
theorem representable_floor_bc4 : ∀ v, v ≤ 255 → v ∈ specPalette4 v 0 ∧ v ∈ specPalette4 v 255 := by
  intro v hv
  have h := allUpTo (fun v => decide (v ∈ specPalette4 v 0 ∧ v ∈ specPalette4 v 255)) 255 (by decide +kernel) v hv
  exact of_decide_eq_true h

/-! ### the quantisation step bounds of the oracle -/

/-- Each bound is the largest difference between the decoded 8-bit values of two adjacent endpoint levels of
the channel ("one endpoint quantisation step", read on decoded values): 5-bit 9, 6-bit 5, BC2's 4-bit alpha 17,
8-bit UNORM 1, 8-bit SNORM shown at 8 bit 2 (255 levels on 256 values), BC7's coarsest colour grid (mode 0,
4 bits + p-bit) 9 and coarsest alpha grid (mode 4, 6 bits) 5. -/
theorem step_bounds :
    maxGap n5n8 31 = STEP5 ∧ maxGap n6n8 63 = STEP6 ∧ maxGap n4n8 15 = STEP4 ∧ maxGap (fun v => v) 255 = STEP8U ∧
    maxGap (fun s => s8n8 (w8 (s + 1 + 128))) 254 = STEP8S ∧
    maxGap (fun x => Bc7.promote x 5) 31 = STEP7C ∧ maxGap (fun x => Bc7.promote x 6) 63 = STEP7A := by
  decide +kernel

/-! ### BC7: the block writers, the anchor fix-up, the encoder's palette arithmetic and index search (`Enc7.lean`) -/

/-- T1. For EVERY mode 0..7, every partition / rotation / index-selector value of that mode, every endpoint tuple whose
channels fit the mode's bit widths, every p-bit choice and EVERY index list (any `u64` holding 16 indexes of the mode's
width; the anchors are NOT assumed normalised), the block `Compressed::modeN(..)` writes decodes — under the
implementation-shaped decoder and under the specification decoder (C03x) — at each of the 16 pixels to exactly
`interpolate(p_promote(e0), p_promote(e1), index_i)` over the subset of pixel `i`, computed with the ENCODER's arithmetic
on the UN-normalised arguments, with the rotation applied (`Enc7.intended`).  So the anchor fix-up (swap the subset's
endpoints, swap its p-bits where they are per endpoint, invert the subset's indexes, drop the anchor's top bit) is
invisible after decoding, and the block is a 16-byte value. -/
theorem bc7_writer_roundtrip (f : Enc7.Fields) (h : f.WF) :
    Bc7.decodeBlock (Enc7.write f) = (List.range 16).map (Enc7.intended f) ∧
    Bc7Spec.decodeBlock (Enc7.write f) = (List.range 16).map (Enc7.intended f) ∧
    Enc7.write f < 2 ^ 128 := by
  refine ⟨Enc7.writer_roundtrip f h, ?_, Enc7.write_lt f⟩
  rw [← Bc7.decodeBlock_eq]; exact Enc7.writer_roundtrip f h

/-- one subset, mode 6: index 0 has its top bit set, so `compress_p1` reports a swap (endpoints AND p-bits are exchanged,
all 16 indexes inverted) -/
def exF6 : Enc7.Fields :=
  ⟨6, 0, 0, 0, [[1, 2, 3, 4], [120, 64, 127, 0]], [], [1, 0], 0x0123456789ABCDEF, 0⟩
example : exF6.WF ∧ (Enc7.compressP1 4 exF6.indexes).2 = true ∧
    Bc7.decodeBlock (Enc7.write exF6) = (List.range 16).map (Enc7.intended exF6) := by decide +kernel

/-- two subsets, mode 7, partition 13 (rows 0–1 / rows 2–3, anchors 0 and 15): both anchors have the top bit set -/
def exF7 : Enc7.Fields :=
  ⟨7, 13, 0, 0, [[1, 2, 3, 4], [30, 16, 31, 0], [9, 9, 9, 31], [0, 31, 0, 17]], [], [1, 0, 0, 1], 0xE4E4E4E7, 0⟩
example : exF7.WF ∧ (Enc7.compressP2 2 exF7.indexes (BcTables.implP2 13)).2 = (true, true) ∧
    Bc7.decodeBlock (Enc7.write exF7) = (List.range 16).map (Enc7.intended exF7) := by decide +kernel

/-- three subsets, mode 0, partition 1: every index is 7, so all three anchors have the top bit set and all three
subsets are swapped and inverted -/
def exF0 : Enc7.Fields :=
  ⟨0, 1, 0, 0, [[1, 2, 3], [15, 0, 8], [4, 4, 4], [9, 10, 11], [0, 0, 15], [7, 7, 7]], [], [1, 0, 0, 1, 1, 1],
    0xFFFFFFFFFFFF, 0⟩
example : exF0.WF ∧ (Enc7.compressP3 3 exF0.indexes (BcTables.implP3 1)).2 = (true, true, true) ∧
    Bc7.decodeBlock (Enc7.write exF0) = (List.range 16).map (Enc7.intended exF0) := by decide +kernel

/-- mode 4 with the swapped index selector (`C3A2`): the 3-bit list indexes the colour; both lists have the anchor's top
bit set, rotation `AG` -/
def exF4 : Enc7.Fields :=
  ⟨4, 0, 2, 1, [[1, 2, 3], [31, 0, 17]], [5, 60], [], 0xFFFFFFFE, 0xFAC688FAC68C⟩
example : exF4.WF ∧ (Enc7.compressP1 2 exF4.indexes).2 = true ∧ (Enc7.compressP1 3 exF4.indexes2).2 = true ∧
    Bc7.decodeBlock (Enc7.write exF4) = (List.range 16).map (Enc7.intended exF4) := by decide +kernel

/-- T2. The encoder's own palette arithmetic (src/encode/bc7.rs) is the decoder's (src/decode/bc7.rs) for ALL inputs,
and on in-range inputs the specification's: `promote` = bit replication, `p_promote` = `(v << 1 | p)` then replication,
the weight tables are the decoder's, `interpolate::<W>` = the decoder's `lerp` on the decoder's table = the
specification's `((64 - w)·e0 + w·e1 + 32) >> 6`; swapping the endpoints and inverting the index does not change the
interpolated value (what makes the anchor fix-up sound). -/
theorem bc7_encoder_palette_eq_decoder :
    (∀ v bits, Enc7.promote v bits = Bc7.promote v bits) ∧
    (∀ B v, Enc7.promoteCh B v = if B = 8 then v else Bc7.promote v B) ∧
    (∀ B v p, Enc7.pPromoteCh B v p = if B = 7 then Bc7.withP v p else Bc7.promote (Bc7.withP v p) (B + 1)) ∧
    (Enc7.WEIGHTS_2 = Bc7.WEIGHTS_2 ∧ Enc7.WEIGHTS_3 = Bc7.WEIGHTS_3 ∧ Enc7.WEIGHTS_4 = Bc7.WEIGHTS_4) ∧
    (∀ W e0 e1 k, Enc7.interpolate W e0 e1 k =
      Bc7.lerp e0 e1 ((if W = 2 then Bc7.WEIGHTS_2 else if W = 3 then Bc7.WEIGHTS_3 else Bc7.WEIGHTS_4).getD k 0)) ∧
    (∀ bits v, 4 ≤ bits → bits < 8 → v < 2 ^ bits → Enc7.promote v bits = Bc7Spec.expand bits v) ∧
    (∀ B v p, 4 ≤ B → B < 8 → v < 2 ^ B → p < 2 → Enc7.pPromoteCh B v p = Bc7Spec.expand (B + 1) (v * 2 + p)) ∧
    (∀ W e0 e1 k, (W = 2 ∨ W = 3 ∨ W = 4) → e0 < 256 → e1 < 256 → k < 2 ^ W →
      Enc7.interpolate W e0 e1 k = Bc7Spec.interp e0 e1 ((BcTables.specWeights W).getD k 0)) ∧
    (∀ W e0 e1 k, (W = 2 ∨ W = 3 ∨ W = 4) → k < 2 ^ W →
      Enc7.interpolate W e1 e0 (2 ^ W - 1 - k) = Enc7.interpolate W e0 e1 k) := by
  refine ⟨Enc7.promote_eq_dec, ?_, ?_, Enc7.weights_eq_dec, Enc7.interpolate_eq_lerp, ?_, ?_, ?_, ?_⟩
  · intro B v
    by_cases h : B = 8
    · subst h; simp [Enc7.promoteCh8]
    · simp [h, Enc7.promoteCh_ne8 B v h]
  · intro B v p
    by_cases h : B = 7
    · subst h; simp [Enc7.pPromoteCh7]
    · simp [h, Enc7.pPromoteCh_ne7 B v p h]
  · intro bits v h4 h8 hv; exact Enc7.promote_eq_spec bits v h4 h8 hv
  · intro B v p h4 h8 hv hp; exact Enc7.pPromoteCh_eq_spec B v p h4 h8 hv hp
  · intro W e0 e1 k hW h0 h1 hk; exact Enc7.interpolate_eq_spec W e0 e1 k hW h0 h1 hk
  · intro W e0 e1 k hW hk; exact Enc7.interpolate_sym W e0 e1 k hW hk

example : Enc7.interpolate 3 200 17 2 = 149 ∧ Enc7.interpolate 3 17 200 5 = 149 ∧ Enc7.pPromoteCh 4 9 1 = 156 := by decide

/-- T3. `closest_rgb`, `closest_rgba`, `closest_alpha` are EXHAUSTIVE over the whole palette (no shortcut), with a strict
`<` update, for every index width, all byte endpoints and every slice of at most 16 byte pixels (`Enc7.ArgminSpec`):
the index stored for pixel `i` is in range; its palette entry is at least as close (squared distance, `dist_sq`) as EVERY
entry and strictly closer than every entry with a LOWER index (ties go to the lowest index); the returned error is the sum
of the chosen distances, at most `n·4·255²` (`n·3·255²`, `n·255²`) ≤ 4 161 600, so the `u32` accumulator cannot overflow;
the index word holds 16 entries.  The palette list the search runs over is entry by entry the encoder's interpolation
table `j ↦ interpolate(e0, e1, j)` (the first and last entries, which the code takes from the endpoints themselves,
included). -/
theorem bc7_closest_is_argmin (I : Nat) (hI : I = 2 ∨ I = 3 ∨ I = 4) :
    (∀ (e0 e1 : List Nat) (pixels : List (List Nat)), Enc7.Byte4 e0 → Enc7.Byte4 e1 → (∀ p ∈ pixels, Enc7.Byte4 p) →
      pixels.length ≤ 16 →
      Enc7.ArgminSpec I Enc7.distSqRgba (Enc7.palette I (Enc7.interpolateRgba I) e0 e1) pixels [] (4 * 255 ^ 2)
        (Enc7.closestRgba I e0 e1 pixels)) ∧
    (∀ (e0 e1 : List Nat) (pixels : List (List Nat)), Enc7.Byte3 e0 → Enc7.Byte3 e1 → (∀ p ∈ pixels, Enc7.Byte3 p) →
      pixels.length ≤ 16 →
      Enc7.ArgminSpec I Enc7.distSqRgb (Enc7.palette I (Enc7.interpolateRgb I) e0 e1) pixels [] (3 * 255 ^ 2)
        (Enc7.closestRgb I e0 e1 pixels)) ∧
    (∀ (e0 e1 : Nat) (pixels : List Nat), e0 ≤ 255 → e1 ≤ 255 → (∀ p ∈ pixels, p ≤ 255) → pixels.length ≤ 16 →
      Enc7.ArgminSpec I Enc7.sqDiff (Enc7.palette I (Enc7.interpolateAlpha I) e0 e1) pixels 0 (255 ^ 2)
        (Enc7.closestAlpha I e0 e1 pixels)) ∧
    16 * (4 * 255 ^ 2) < U32 ∧
    (∀ a0 a1 a2 a3 b0 b1 b2 b3 j, j < 2 ^ I → a0 < 256 ∧ a1 < 256 ∧ a2 < 256 ∧ a3 < 256 →
      b0 < 256 ∧ b1 < 256 ∧ b2 < 256 ∧ b3 < 256 →
      (Enc7.palette I (Enc7.interpolateRgba I) [a0, a1, a2, a3] [b0, b1, b2, b3]).getD j [] =
        Enc7.interpolateRgba I [a0, a1, a2, a3] [b0, b1, b2, b3] j) ∧
    (∀ a0 a1 a2 b0 b1 b2 j, j < 2 ^ I → a0 < 256 ∧ a1 < 256 ∧ a2 < 256 → b0 < 256 ∧ b1 < 256 ∧ b2 < 256 →
      (Enc7.palette I (Enc7.interpolateRgb I) [a0, a1, a2] [b0, b1, b2]).getD j [] =
        Enc7.interpolateRgb I [a0, a1, a2] [b0, b1, b2] j) ∧
    (∀ a b j, j < 2 ^ I → a < 256 → b < 256 →
      (Enc7.palette I (Enc7.interpolateAlpha I) a b).getD j 0 = Enc7.interpolateAlpha I a b j) := by
  refine ⟨?_, ?_, ?_, by decide, ?_, ?_, ?_⟩
  · intro e0 e1 pixels h0 h1 hp hn; exact Enc7.closestRgba_argmin I e0 e1 pixels hI h0 h1 hp hn
  · intro e0 e1 pixels h0 h1 hp hn; exact Enc7.closestRgb_argmin I e0 e1 pixels hI h0 h1 hp hn
  · intro e0 e1 pixels h0 h1 hp hn; exact Enc7.closestAlpha_argmin I e0 e1 pixels hI h0 h1 hp hn
  · intro a0 a1 a2 a3 b0 b1 b2 b3 j hj ha hb; exact Enc7.paletteRgba_getD I _ _ _ _ _ _ _ _ j hI hj ha hb
  · intro a0 a1 a2 b0 b1 b2 j hj ha hb; exact Enc7.paletteRgb_getD I _ _ _ _ _ _ j hI hj ha hb
  · intro a b j hj ha hb; exact Enc7.paletteAlpha_getD I a b j hI hj ha hb

/-- ties: endpoints 10, 10 give the palette `[10, 10, 10, 10]` and every pixel takes index 0 (the FIRST of the equal
entries); endpoints 0, 255 give `[0, 84, 171, 255]`; the error is the sum of the squared distances -/
example : Enc7.closestAlpha 2 10 10 [7, 10, 12] = (0, 9 + 0 + 4) ∧
    Enc7.closestAlpha 2 0 255 [0, 85, 170, 255, 128] = (Enc7.ofList 2 [0, 1, 2, 3, 2], 1 + 1 + 43 * 43) := by decide

/-- T4 (representable content is kept, mode 6). If every one of the 16 pixels IS an entry of the palette of the 7-bit
endpoints `e0, e1` with p-bits `p0, p1` — in particular if every pixel equals one of the two promoted endpoints — then
`Compressed::mode6` of the index list `closest_rgba::<4>` selects decodes to exactly the 16 pixels. -/
theorem bc7_mode6_keeps_palette_content (e0 e1 : List Nat) (p0 p1 : Nat) (pixels : List (List Nat))
    (hlen : pixels.length = 16) (he0 : ∀ c, c < 4 → Enc7.px e0 c < 2 ^ 7) (he1 : ∀ c, c < 4 → Enc7.px e1 c < 2 ^ 7)
    (hp0 : p0 < 2) (hp1 : p1 < 2)
    (hpx : ∀ p ∈ pixels, ∃ k, k < 16 ∧
      p = Enc7.interpolateRgba 4 (Enc7.pPromoteRgba 7 e0 p0) (Enc7.pPromoteRgba 7 e1 p1) k) :
    Bc7.decodeBlock (Enc7.mode6 [e0, e1] [p0, p1]
      (Enc7.closestRgba 4 (Enc7.pPromoteRgba 7 e0 p0) (Enc7.pPromoteRgba 7 e1 p1) pixels).1) = pixels :=
  Enc7.mode6_exact e0 e1 p0 p1 pixels hlen he0 he1 hp0 hp1 hpx

/-- two colours that are exactly the promoted endpoints, in a pattern whose first pixel is the SECOND endpoint: the
anchor index is 15, the writer swaps, and the block still decodes to the pixels -/
example :
    let a := Enc7.pPromoteRgba 7 [10, 20, 30, 127] 1
    let b := Enc7.pPromoteRgba 7 [100, 90, 80, 127] 1
    let pixels := [b, a, a, b, b, b, a, a, b, a, b, a, a, a, b, b]
    (Enc7.compressP1 4 (Enc7.closestRgba 4 a b pixels).1).2 = true ∧
    Bc7.decodeBlock (Enc7.mode6 [[10, 20, 30, 127], [100, 90, 80, 127]] [1, 1] (Enc7.closestRgba 4 a b pixels).1) = pixels := by
  decide +kernel

/-- T4 (opacity). A block written with alpha endpoints that decode to 255 — modes 0–3 (no alpha field); mode 4 / 5
unrotated with alpha endpoints 63 / 255; mode 6 with 7-bit alpha 127 and both p-bits 1 (what `bc7_opaque_pbits` forces
for an opaque block); mode 7 with 5-bit alpha 31 and p-bit 1 at all four endpoints — shows alpha 255 at every pixel,
whatever the colour endpoints, partition and index lists are. -/
theorem bc7_writer_opaque (f : Enc7.Fields) (h : f.WF) (ha : Enc7.AlphaOnes f) :
    ∀ i, i < 16 → Enc7.alphaAt (Bc7.decodeBlock (Enc7.write f)) i = 255 :=
  fun i hi => Enc7.writer_opaque f h ha i hi

example : Enc7.AlphaOnes ⟨6, 0, 0, 0, [[1, 2, 3, 127], [120, 64, 127, 127]], [], [1, 1], 0x0123456789ABCDEF, 0⟩ := by
  decide

/-- `BlockStats::opaque()` (`min.a == 255` over the running minima of `BlockStats::new`) holds exactly when every pixel of
the block has alpha 255 (byte alphas) — the `opaque` that selects modes 0–3 / excludes mode 7 (`bc7_opaque_modes`) and
forces p-bits (1,1) (`bc7_opaque_pbits`), which with `bc7_writer_opaque` leaves only "the alpha FIELDS are all ones"
(float-dependent) between an opaque input and an opaque output. -/
theorem bc7_block_stats_opaque (block : List (List Nat)) (hb : ∀ p ∈ block, Enc7.px p 3 ≤ 255) :
    Enc7.isOpaque (Enc7.blockStats block) = true ↔ ∀ p ∈ block, Enc7.px p 3 = 255 :=
  Enc7.isOpaque_iff block hb

/-- `BlockStats`: `opaque()`, `single_color()` (compares all four channels), `single_alpha()` on concrete blocks -/
example : Enc7.isOpaque (Enc7.blockStats [[1, 2, 3, 255], [9, 9, 9, 255]]) = true ∧
    Enc7.isOpaque (Enc7.blockStats [[1, 2, 3, 255], [9, 9, 9, 254]]) = false ∧
    Enc7.singleColor (Enc7.blockStats [[1, 2, 3, 4], [1, 2, 3, 4]]) = some [1, 2, 3, 4] ∧
    Enc7.singleColor (Enc7.blockStats [[1, 2, 3, 4], [1, 2, 3, 5]]) = none ∧
    Enc7.singleAlpha (Enc7.blockStats [[1, 2, 3, 77], [9, 2, 3, 77]]) = some 77 := by decide

/-! ## BC1–BC5 encoders: the discrete core (`EncBc15.lean`; src/encode/bc1.rs, bc4.rs, bc.rs) — section of builder U

What the BC1 / BC2 / BC3 / RXGB / BC3n / BC4 / BC5 encoders WRITE decodes to what they COMPUTED: the block writers
(`EndPoints::with_indexes` of bc1.rs and bc4.rs, the two `IndexList`s with the `debug_assert!`s of `set`, `AlphaMap`,
`transparent_index`, `concat_blocks` and the channel wiring of bc.rs) are right inverses of the proved decoders of C03 on
the palette entries the index lists name; the endpoint order that `new_p4` / `new_p3_default` / `new_inter6` /
`inter6_to_inter4` establish selects, in the decoder, the palette the encoder built.  The float endpoint search is a
parameter (two valid 5:6:5 colours; two bytes / SNORM levels), and so is every per-pixel choice of `closest`. -/

open Dds.Enc15 in
/-- T1. BC1 and the colour half of BC2 / BC3 / RXGB / BC3n.  For EVERY palette mode, EVERY pair of valid 5:6:5 colours
(in any order, equal or not), every alpha map and every per-pixel choice of `closest` (`< 4`; `< 3` in P3, where the scan
stops before the filler entry), with P4 only ever given the all-opaque map (`compress_p4`):
no `debug_assert!` of `IndexList::set` / `transparent_index` fires; the list holds `closest`'s choice at opaque and 3 at
transparent pixels; the 8 bytes decode under `Bc.decodeBlock` (= `BcSpec`, C03), at every precision and pixel, to entry
`index_p` of the palette over the ORDERED pair `create_endpoints(e0, e1)` in the encoder's mode — the swap and the
tie-break included; there is no re-mapping of indexes in the code because the palette is built after the ordering —
and the block is `Portable` as BC1 (index 3 of three-colour mode only under the transparency mask).
Behind ANY 8 first bytes the P4 block decodes, under the always-four-colour decoder of BC2 / BC3, to the same P4 entries
with alpha 255, and the 16-byte block is `Portable` for all six BC2 / BC3-family formats. -/
theorem bc1_writer_roundtrip (mode : PaletteMode) (e0 e1 : C565) (v0 : e0.Valid) (v1 : e1.Valid)
    (alphaMap : Nat) (sel : Nat → Nat)
    (hs : ∀ i, i < 16 → isOpaque alphaMap i = true → sel i < (if mode = .p3 then 3 else 4))
    (hm : mode = .p4 → ∀ i, i < 16 → isOpaque alphaMap i = true) :
    ∃ idx, blockIndexes mode alphaMap sel = some idx ∧ idx < 2 ^ 32 ∧
      (∀ p, p < 16 → idxGet 2 idx p = indexAt alphaMap sel p) ∧
      emitColour mode e0 e1 alphaMap sel = some (withIndexes (createEndpoints mode e0 e1) idx) ∧
      (∀ pr, Bc.decodeBlock .bc1 pr (blkOf (withIndexes (createEndpoints mode e0 e1) idx)) =
        (List.range 16).map fun p =>
          (intendedColour mode (createEndpoints mode e0 e1) (indexAt alphaMap sel p)).map (BcSpec.widen pr)) ∧
      (∀ ok3, (∀ p, p < 16 → isOpaque alphaMap p = false → ok3.testBit p = true) →
        Portable (some .bc1) (blkOf (withIndexes (createEndpoints mode e0 e1) idx)) ok3 = true) ∧
      (mode = .p4 → ∀ first : List Nat, first.length = 8 → (∀ x ∈ first, x < 256) →
        (∀ p, p < 16 →
          let c := Bc.bc1NoDefaultPx (Bc.upper (blkOf (concatBlocks first (withIndexes (createEndpoints .p4 e0 e1) idx)))) p
          [c.1, c.2.1, c.2.2.1] = intendedRgb .p4 (createEndpoints .p4 e0 e1) (indexAt alphaMap sel p) ∧ c.2.2.2 = 255) ∧
        ∀ f ∈ [Fmt.bc2, .bc2p, .bc3, .bc3p, .rxgb, .bc3n], ∀ ok3,
          Portable (some f) (blkOf (concatBlocks first (withIndexes (createEndpoints .p4 e0 e1) idx))) ok3 = true) := by
  obtain ⟨idx, h1, h2, h3, h4, h5, h6, h7⟩ := bc1_block mode e0 e1 v0 v1 alphaMap sel hs hm
  refine ⟨idx, h1, h2, h3, h4, h6, h7, ?_⟩
  intro hmode first hl hf
  subst hmode
  refine ⟨fun p hp => ?_, fun f hfm ok3 => colour_half_portable first hl e0 e1 v0 v1 idx ok3 f hfm⟩
  have hb := blkOf_lt _ (concat_lt hf h5)
  have h := colour_half first hl e0 e1 v0 v1 idx h2 p
  rw [Bc.colorUpper_eq _ hb p hp, ← h3 p hp]
  exact h

open Dds.Enc15 in
/-- P4 with `e0 < e1` (the swap of `new_p4` runs), equal colours with `b = 0` and `b ≠ 0` (both tie-breaks), and P3 with
`e0 > e1` (the swap of `new_p3_default` runs) under a map with transparent pixels: the blocks and what they decode to -/
example :
    createEndpoints .p4 ⟨1, 2, 3⟩ ⟨30, 60, 20⟩ = (⟨30, 60, 20⟩, ⟨1, 2, 3⟩) ∧
    emitColour .p4 ⟨1, 2, 3⟩ ⟨30, 60, 20⟩ 0xFFFF (fun i => i % 4) = some [148, 247, 67, 8, 0xE4, 0xE4, 0xE4, 0xE4] ∧
    (Bc.decodeBlock .bc1 .u8 (blkOf [148, 247, 67, 8, 0xE4, 0xE4, 0xE4, 0xE4])).take 4 =
      [[247, 243, 165, 255], [8, 8, 25, 255], [167, 165, 118, 255], [88, 86, 71, 255]] ∧
    (List.range 4).map (intendedColour .p4 (createEndpoints .p4 ⟨1, 2, 3⟩ ⟨30, 60, 20⟩)) =
      [[247, 243, 165, 255], [8, 8, 25, 255], [167, 165, 118, 255], [88, 86, 71, 255]] ∧
    createEndpoints .p4 ⟨3, 7, 0⟩ ⟨3, 7, 0⟩ = (⟨3, 7, 1⟩, ⟨3, 7, 0⟩) ∧
    createEndpoints .p4 ⟨3, 7, 5⟩ ⟨3, 7, 5⟩ = (⟨3, 7, 5⟩, ⟨3, 7, 4⟩) ∧
    createEndpoints .p3 ⟨30, 60, 20⟩ ⟨1, 2, 3⟩ = (⟨1, 2, 3⟩, ⟨30, 60, 20⟩) ∧
    emitColour .p3 ⟨30, 60, 20⟩ ⟨1, 2, 3⟩ 0x0F0F (fun i => i % 3) = some [67, 8, 148, 247, 0x24, 0xFF, 0x92, 0xFF] ∧
    (Bc.decodeBlock .bc1 .u8 (blkOf [67, 8, 148, 247, 0x24, 0xFF, 0x92, 0xFF])).take 5 =
      [[8, 8, 25, 255], [247, 243, 165, 255], [128, 125, 95, 255], [8, 8, 25, 255], [0, 0, 0, 0]] ∧
    -- an assertion fires: a second palette without transparent entry asked for one; an index that is not 2 bits
    emitColour .p4 ⟨1, 2, 3⟩ ⟨30, 60, 20⟩ 0xFFFE (fun _ => 0) = none ∧
    emitColour .p3 ⟨1, 2, 3⟩ ⟨30, 60, 20⟩ 0xFFFF (fun _ => 4) = none := by decide +kernel

open Dds.Enc15 in
/-- T2. The BC4 family: BC4 UNORM / SNORM, both halves of BC5 UNORM / SNORM, the alpha block of BC3 and the red block of
RXGB / BC3n in front of the colour block.  For EVERY pair of endpoint bytes and every sixteen 3-bit indexes — as an index
list built by sixteen `set`s (no assertion fires, `get` returns the values) or by `new_all` — the proved decoder returns
at every pixel and precision the quantised value of entry `index_p` of the BC4 palette of the pair: eight values when
`c0 > c1` (SNORM: as `i8`), six values plus 0 and 1 otherwise, over the bytes (UNORM, `/255`) or the levels
`0..254` (SNORM, `/254`, `0x80` and `0x81` both level 0).  And the constructors tie the order to the palette the encoder
built: `new_inter6` gives the eight-value order (never swaps under SNORM, never writes `0x80`), `new_inter4` /
`inter6_to_inter4` the six-value order, `new_closest` keeps level `n` at index 0. -/
theorem bc4_writer_roundtrip :
    -- index lists
    (∀ v : Nat → Nat, (∀ j, v j < 8) →
      idxFill 3 U64 (fun i => some (v i)) = some (packed 3 v 16) ∧ packed 3 v 16 < 2 ^ 48 ∧
      ∀ i, i < 16 → idxGet 3 (packed 3 v 16) i = v i) ∧
    (∀ value, value < 8 → ∃ d, newAll value = some d ∧ d < 2 ^ 48 ∧ ∀ i, i < 16 → idxGet 3 d i = value) ∧
    -- BC4 and BC5, UNORM and SNORM
    (∀ (snorm : Bool) (c0 c1 data : Nat), c0 < 256 → c1 < 256 → data < 2 ^ 48 → ∀ pr,
      Bc.decodeBlock (if snorm then .bc4s else .bc4u) pr (blkOf (withIndexes4 c0 c1 data)) =
        (List.range 16).map fun p => [BcSpec.quant pr (intended4 (sixOfBytes snorm c0 c1) (levelOfByte snorm c0)
          (levelOfByte snorm c1) (if snorm then 254 else 255) (idxGet 3 data p))]) ∧
    (∀ (snorm : Bool) (r0 r1 rdata g0 g1 gdata : Nat), r0 < 256 → r1 < 256 → g0 < 256 → g1 < 256 → rdata < 2 ^ 48 →
      gdata < 2 ^ 48 → ∀ pr,
      Bc.decodeBlock (if snorm then .bc5s else .bc5u) pr
          (blkOf (concatBlocks (withIndexes4 r0 r1 rdata) (withIndexes4 g0 g1 gdata))) =
        (List.range 16).map fun p =>
          [BcSpec.quant pr (intended4 (sixOfBytes snorm r0 r1) (levelOfByte snorm r0) (levelOfByte snorm r1)
              (if snorm then 254 else 255) (idxGet 3 rdata p)),
           BcSpec.quant pr (intended4 (sixOfBytes snorm g0 g1) (levelOfByte snorm g0) (levelOfByte snorm g1)
              (if snorm then 254 else 255) (idxGet 3 gdata p)),
           BcSpec.quant pr (if snorm then 1 / 2 else 0)]) ∧
    -- BC3 (alpha block first), RXGB (red block first, green / blue from the colour block), BC3n at 8 bit
    (∀ (a0 a1 adata : Nat) (e0 e1 : C565) (idx : Nat), a0 < 256 → a1 < 256 → adata < 2 ^ 48 → e0.Valid → e1.Valid →
      idx < 2 ^ 32 →
      let blk := blkOf (concatBlocks (withIndexes4 a0 a1 adata) (withIndexes (createEndpoints .p4 e0 e1) idx))
      let a (p : Nat) := BcSpec.rnd (255 * intended4 (decide (a0 > a1)) a0 a1 255 (idxGet 3 adata p))
      let rgb (p : Nat) := intendedRgb .p4 (createEndpoints .p4 e0 e1) (idxGet 2 idx p)
      (∀ pr, Bc.decodeBlock .bc3 pr blk = (List.range 16).map fun p => (rgb p ++ [a p]).map (BcSpec.widen pr)) ∧
      (∀ pr, Bc.decodeBlock .rxgb pr blk = (List.range 16).map fun p => ([a p] ++ (rgb p).drop 1).map (BcSpec.widen pr)) ∧
      (∀ p, p < 16 → Bc.px8 .bc3n blk p = [a p, (rgb p).getD 1 0, Bc.calcB (a p) ((rgb p).getD 1 0)])) ∧
    -- the constructors
    (∀ (snorm : Bool) (minR maxR minF maxC : Nat), minR ≤ maxR → minF ≤ maxC →
      maxR ≤ (if snorm then 254 else 255) → maxC ≤ (if snorm then 254 else 255) →
      let mm := fixDistinct minR maxR minF maxC
      let e := newInter6 snorm minR maxR minF maxC
      e.c0 < 256 ∧ e.c1 < 256 ∧ sixOfBytes snorm e.c0 e.c1 = true ∧
      sixOfBytes snorm (newInter4 snorm minR maxR minF maxC).c0 (newInter4 snorm minR maxR minF maxC).c1 = false ∧
      levelOfByte snorm e.c0 = mm.2 ∧ levelOfByte snorm e.c1 = mm.1 ∧ mm.1 < mm.2 ∧
      (snorm = true → e.c0 = fromNorm mm.2 ∧ e.c1 = fromNorm mm.1 ∧ e.c0 ≠ 128 ∧ e.c1 ≠ 128)) ∧
    (∀ (snorm : Bool) (n : Nat), n ≤ (if snorm then 254 else 255) →
      (newClosest snorm n).c0 < 256 ∧ (newClosest snorm n).c1 < 256 ∧ levelOfByte snorm (newClosest snorm n).c0 = n ∧
      (snorm = true → (newClosest snorm n).c0 ≠ 128 ∧ (newClosest snorm n).c1 = 129)) := by
  refine ⟨?_, ?_, ?_, ?_, ?_, ?_, ?_⟩
  · intro v hv
    exact idxFill_spec 3 U64 (by decide) (by decide) v hv _ (fun _ _ => rfl)
  · intro value hv
    refine ⟨_, newAll_spec value hv, packed_lt 3 _ (fun _ => hv) 16, fun i hi => ?_⟩
    exact idxGet_packed 3 (by decide) _ (fun _ => hv) 16 i hi
  · intro snorm c0 c1 data h0 h1 hd pr
    exact bc4_block snorm c0 c1 data h0 h1 hd pr
  · intro snorm r0 r1 rdata g0 g1 gdata hr0 hr1 hg0 hg1 hrd hgd pr
    exact bc5_block snorm r0 r1 rdata g0 g1 gdata hr0 hr1 hg0 hg1 hrd hgd pr
  · intro a0 a1 adata e0 e1 idx h0 h1 hd v0 v1 hi
    exact ⟨fun pr => bc3_block a0 a1 adata h0 h1 hd e0 e1 v0 v1 idx hi pr,
      fun pr => rxgb_block a0 a1 adata h0 h1 hd e0 e1 v0 v1 idx hi pr,
      fun p hp => bc3n_block a0 a1 adata h0 h1 hd e0 e1 v0 v1 idx hi p hp⟩
  · intro snorm minR maxR minF maxC h1 h2 hR hC
    exact newInter6_spec snorm minR maxR minF maxC h1 h2 hR hC
  · intro snorm n hn
    exact newClosest_spec snorm n hn

open Dds.Enc15 in
/-- six-interpolant and four-interpolant order, UNORM and SNORM (`from_norm 200 = 73`, `from_norm 10 = 139 = −117`), a
`new_all` list, and BC5 with the two halves in different modes -/
example :
    (newInter6 false 10 200 10 200).c0 = 200 ∧ (newInter6 false 10 200 10 200).c1 = 10 ∧
    (newInter4 false 10 200 10 200).c0 = 10 ∧ (newInter6 true 10 200 10 200).c0 = 73 ∧
    (newInter6 true 10 200 10 200).c1 = 139 ∧ (newInter6 false 7 7 7 7).c0 = 7 ∧ (newInter6 false 7 7 7 7).c1 = 6 ∧
    idxFill 3 U64 (fun i => some (i % 8)) = some 0xFAC688FAC688 ∧ newAll 5 = some 0xB6DB6DB6DB6D ∧
    Bc.decodeBlock .bc4u .u8 (blkOf (withIndexes4 200 10 0xFAC688FAC688)) =
      (List.range 16).map (fun p => [[200, 10, 173, 146, 119, 91, 64, 37].getD (p % 8) 0]) ∧
    Bc.decodeBlock .bc4u .u8 (blkOf (withIndexes4 10 200 0xFAC688FAC688)) =
      (List.range 16).map (fun p => [[10, 200, 48, 86, 124, 162, 0, 255].getD (p % 8) 0]) ∧
    (Bc.decodeBlock .bc5s .u8 (blkOf (concatBlocks (withIndexes4 73 139 0xFAC688FAC688) (withIndexes4 139 73 0xB6DB6DB6DB6D)))).take 3 =
      [[201, 163, 128], [10, 163, 128], [174, 163, 128]] := by decide +kernel

open Dds.Enc15 in
/-- T4. BC2 = `concat_blocks(bc2_alpha(alpha), compress_bc1_block(..))`.  For ANY sixteen 8-bit alphas and any P4 colour
block the 16 bytes decode, at every precision, to the P4 entry of the colour index and alpha `17·⌊(2a + 17)/34⌋`
(`Enc13Tie.bc2_alpha_block` for the alpha bytes); the nibble layout of the writer is the decoder's for all sixteen 4-bit
values at once: byte `k` = `n₂ₖ + 16·n₂ₖ₊₁`, pixel `p` shows `17·nₚ`. -/
theorem bc2_writer_roundtrip :
    (∀ (alphas : List Nat) (e0 e1 : C565) (idx : Nat), (∀ a ∈ alphas, a ≤ 255) → e0.Valid → e1.Valid → idx < 2 ^ 32 → ∀ pr,
      Bc.decodeBlock .bc2 pr (blkOf (concatBlocks (bc2AlphaBlock alphas) (withIndexes (createEndpoints .p4 e0 e1) idx))) =
        (List.range 16).map fun p =>
          (intendedRgb .p4 (createEndpoints .p4 e0 e1) (idxGet 2 idx p) ++ [17 * n4FromU8 (alphas.getD p 0)]).map
            (BcSpec.widen pr)) ∧
    (∀ n : List Nat, n.length = 16 → (∀ x ∈ n, x ≤ 15) →
      (∀ k, k < 8 → (bc2AlphaBlock (n.map (17 * ·))).getD k 0 = n.getD (2 * k) 0 + 16 * n.getD (2 * k + 1) 0) ∧
      ∀ p, p < 16 → Bc.bc2Alpha (blkOf (bc2AlphaBlock (n.map (17 * ·)))) p = 17 * n.getD p 0) :=
  ⟨fun alphas e0 e1 idx ha v0 v1 hi pr => bc2_full alphas ha e0 e1 v0 v1 idx hi pr, bc2_nibbles⟩

open Dds.Enc15 in
example :
    bc2AlphaBlock ((List.range 16).map (17 * ·)) = [0x10, 0x32, 0x54, 0x76, 0x98, 0xBA, 0xDC, 0xFE] ∧
    (Bc.decodeBlock .bc2 .u8 (blkOf (concatBlocks (bc2AlphaBlock ((List.range 16).map (17 * ·)))
      [148, 247, 67, 8, 0xE4, 0xE4, 0xE4, 0xE4]))).take 4 =
      [[247, 243, 165, 0], [8, 8, 25, 17], [167, 165, 118, 34], [88, 86, 71, 51]] := by decide +kernel

open Dds.Enc15 in
/-- T3 (colour). The encoder's OWN palette of bc1.rs, evaluated in binary32 exactly as `R5G6B5Color::to_vec`
(`n5::f32`, `n6::f32`) and `Palette::new_p4` (`c0 * (2/3) + c1 * (1/3)`, `c0 * (1/3) + c1 * (2/3)`) / `Palette::new_p3`
(`(c0 + c1) * 0.5`) compute it, against the decoder's palette.  For BOTH channel widths, EVERY pair of endpoint levels
(32 × 32, 64 × 64), both modes and every entry that can be selected (4 in P4, 3 in P3): the f32 entry `v`
* is finite, non-negative, with negative exponent, so that its value is the fraction `f32Frac v` (first clause: this IS
  `CF32.toRat v`);
* rounds to nearest (`⌊255·v + ½⌋`) to exactly the 8-bit value the DECODER shows for that entry
  (`BcSpec.chan8` = `Bc`'s multiply-add-shift palette, C03) — including the exact ties `a + b = 31` / `63` of the P3 mid
  colour, where `(c0 + c1) * 0.5` is exactly `0.5` and both sides go up;
* lies within `2^-22` of the exact rational entry `(w0·a + w1·b)/((w0 + w1)·m)`, which is the specification's entry.
So the errors the encoder minimises are errors against the decoded colours up to 8-bit rounding.  Kernel-checked by
complete evaluation (`Proofs/EncBc15Pal5.lean`, `Pal6a … h`). -/
theorem bc1_palette_f32_rounds_to_decoder :
    (∀ v, f32Small v = true → CF32.toRat v = ((f32Frac v).1 : Rat) / ((f32Frac v).2 : Rat)) ∧
    (∀ (mode : PaletteMode) (a b k : Nat), a ≤ 31 → b ≤ 31 → k < (if mode = .p3 then 3 else 4) →
      let v := paletteEntry mode (Conv.n5f32 a) (Conv.n5f32 b) k
      let w := paletteWeights mode k
      f32Small v = true ∧ f32Nearest8 v = BcSpec.chan8 (decide (mode = .p4)) k a b 31 ∧
      f32Within22 v (w.1 * a + w.2 * b) ((w.1 + w.2) * 31) = true ∧
      BcSpec.colorEntry (decide (mode = .p4)) k a b 31 = some (BcSpec.interp w.1 w.2 a b 31)) ∧
    (∀ (mode : PaletteMode) (a b k : Nat), a ≤ 63 → b ≤ 63 → k < (if mode = .p3 then 3 else 4) →
      let v := paletteEntry mode (Conv.n6f32 a) (Conv.n6f32 b) k
      let w := paletteWeights mode k
      f32Small v = true ∧ f32Nearest8 v = BcSpec.chan8 (decide (mode = .p4)) k a b 63 ∧
      f32Within22 v (w.1 * a + w.2 * b) ((w.1 + w.2) * 63) = true ∧
      BcSpec.colorEntry (decide (mode = .p4)) k a b 63 = some (BcSpec.interp w.1 w.2 a b 63)) := by
  have hw : ∀ (mode : PaletteMode) (a b k m : Nat), k < (if mode = .p3 then 3 else 4) →
      BcSpec.colorEntry (decide (mode = .p4)) k a b m =
        some (BcSpec.interp (paletteWeights mode k).1 (paletteWeights mode k).2 a b m) := by
    intro mode a b k m hk
    cases mode with
    | p4 =>
      simp only [reduceCtorEq, if_false] at hk
      have : k = 0 ∨ k = 1 ∨ k = 2 ∨ k = 3 := by omega
      rcases this with rfl | rfl | rfl | rfl <;> rfl
    | p3 =>
      simp only [if_true] at hk
      have : k = 0 ∨ k = 1 ∨ k = 2 := by omega
      rcases this with rfl | rfl | rfl <;> rfl
  refine ⟨f32Frac_spec, ?_, ?_⟩
  · intro mode a b k ha hb hk
    have h := (okEntry_iff _ _ _ _).mp (palette5 mode a b k ha hb hk)
    exact ⟨h.1, h.2.1, h.2.2, hw mode a b k 31 hk⟩
  · intro mode a b k ha hb hk
    have h := (okEntry_iff _ _ _ _).mp (palette6 mode a b k ha hb hk)
    exact ⟨h.1, h.2.1, h.2.2, hw mode a b k 63 hk⟩

open Dds.Enc15 in
/-- the P4 entry 3 of red endpoints 1 and 30 is the pattern 1059580410 = 0.65591…, which rounds to 167 = the decoder's
second third colour; the P3 mid of 1 and 30 is exactly 0.5 (a tie: 127.5) and both sides show 128 -/
example :
    paletteEntry .p4 (Conv.n5f32 1) (Conv.n5f32 30) 3 = 1059580410 ∧ f32Nearest8 1059580410 = 167 ∧
    BcSpec.chan8 true 3 1 30 31 = 167 ∧
    paletteEntry .p3 (Conv.n5f32 1) (Conv.n5f32 30) 2 = 0x3F000000 ∧ f32Frac 0x3F000000 = (8388608, 16777216) ∧
    f32Nearest8 0x3F000000 = 128 ∧ BcSpec.chan8 false 2 1 30 31 = 128 := by decide +kernel

open Dds.Enc15 in
/-- T3 (index maps of bc4.rs). `Inter6Palette::closest` turns the interpolation step `j = blend7` (counted from `c1`:
`closest = j·factor2 + c1`) into the index `INDEX_MAP[j]`; for EVERY endpoint pair that index's entry of the decoder's
eight-value palette is exactly the `j`-th point: weights `j : 7 − j` on `(c0, c1)` (`j = 0` ↦ `c1`, `j = 7` ↦ `c0`), and
`INDEX_MAP` is a permutation of `0..7`.  `Inter4Palette` uses the index as position in `colors`: entry `k` of the
decoder's six-value palette has weights `6 − k : k − 1` (the `0.8/0.2 … 0.2/0.8` of `Inter4Palette::new`), 6 is 0, 7 is 1. -/
theorem bc4_index_map_spec (c0 c1 m : Nat) :
    (∀ j, 1 ≤ j → j ≤ 6 → intended4 true c0 c1 m (INDEX_MAP.getD j 0) = BcSpec.interp j (7 - j) c0 c1 m) ∧
    intended4 true c0 c1 m (INDEX_MAP.getD 0 0) = BcSpec.interp 0 1 c0 c1 m ∧
    intended4 true c0 c1 m (INDEX_MAP.getD 7 0) = BcSpec.interp 1 0 c0 c1 m ∧
    (∀ k, k < 8 → ∃ j, j < 8 ∧ INDEX_MAP.getD j 0 = k) ∧
    intended4 false c0 c1 m 0 = BcSpec.interp 1 0 c0 c1 m ∧ intended4 false c0 c1 m 1 = BcSpec.interp 0 1 c0 c1 m ∧
    (∀ k, 2 ≤ k → k ≤ 5 → intended4 false c0 c1 m k = BcSpec.interp (6 - k) (k - 1) c0 c1 m) ∧
    intended4 false c0 c1 m 6 = 0 ∧ intended4 false c0 c1 m 7 = 1 := by
  have h4 := indexMap4 c0 c1 m
  refine ⟨indexMap6 c0 c1 m, (indexMap6_ends c0 c1 m).1, (indexMap6_ends c0 c1 m).2, ?_, h4.1, h4.2.1, h4.2.2.1,
    h4.2.2.2.1, h4.2.2.2.2⟩
  decide

open Dds.Enc15 in
/-- T3 (BC4 palettes in binary32), PARTIAL.  Full statement: for EVERY pair of endpoint levels `hi > lo` (UNORM bytes
`0..255`, SNORM levels `0..254` written as `from_norm`), the value `Inter6Palette::closest` computes for step `j`,
`j as f32 * factor2 + c1` with `factor2 = (1/7)·(c0 − c1)` over `n8::f32` / `s8::uf32`, and the eight
`Inter4Palette::new(c0, c1).colors` (`c0 * 0.8 + c1 * 0.2` …) round to the decoder's 8-bit entry of the written index
(exact ties of the exact entry excepted — they exist only under SNORM, e.g. 889/1778 — where the decoder goes up) and lie
within `2^-22` of the exact entry.  PROVED here on the sub-domain `hi = max, lo ≥ 1` and `hi = lo + 1, lo ≥ 1` (2 × 254 resp.
2 × 253 pairs per mode; steps `j = 1..7`, all 8 entries of the four-interpolant palette), kernel-checked
(`Proofs/EncBc15Pal4*.lean`).  GAP: the remaining pairs (4 × 32 640 pairs ≈ 30 operations × 1–2 ms in the kernel ≈ 1–2 h)
and step 0 / `lo = 0` (adding a zero in the software float aligns 150-bit integers whose `Nat.log2` costs the kernel
seconds) are evaluated by the compiled model only (the same checks over the whole domain: no exception for UNORM; under
SNORM 2 + 79 exact ties; notes/C13.md) — a test, not a theorem.  The emitted INDEXES do not depend on these values (`bc4_index_map_spec`; `cl15`). -/
theorem bc4_palette_f32_partial (snorm : Bool) (kind i : Nat) (hk : kind < 2) (hi : i + 1 < denOf snorm) :
    let hl := subPair snorm kind i
    hl.2 < hl.1 ∧ hl.1 ≤ denOf snorm ∧ 1 ≤ hl.2 ∧
    (∀ j, 1 ≤ j → j < 8 →
      let e := endpointsOfBytes snorm (byteOf snorm hl.1) (byteOf snorm hl.2)
      let v := (Inter6Palette.new e.c0f e.c1f).stepValue j
      f32Small v = true ∧
      (f32Nearest8 v = dec4 snorm true hl.1 hl.2 (INDEX_MAP.getD j 0) ∨
        510 * (j * hl.1 + (7 - j) * hl.2) + 7 * denOf snorm =
          2 * dec4 snorm true hl.1 hl.2 (INDEX_MAP.getD j 0) * (7 * denOf snorm)) ∧
      f32Within22 v (j * hl.1 + (7 - j) * hl.2) (7 * denOf snorm) = true) ∧
    (∀ k, k < 8 →
      let e := endpointsOfBytes snorm (byteOf snorm hl.2) (byteOf snorm hl.1)
      let v := (inter4Colors e.c0f e.c1f).getD k 0
      f32Small v = true ∧
      (f32Nearest8 v = dec4 snorm false hl.2 hl.1 k ∨
        510 * num4 hl.2 hl.1 (denOf snorm) k + den4 (denOf snorm) k =
          2 * dec4 snorm false hl.2 hl.1 k * den4 (denOf snorm) k) ∧
      f32Within22 v (num4 hl.2 hl.1 (denOf snorm) k) (den4 (denOf snorm) k) = true) ∧
    (∀ six l0 l1 k, dec4 false six l0 l1 k = Bc.bc4Lut (Bc.bc4uOps .u8) l0 l1 l0 l1 six k) ∧
    (∀ six l0 l1 k, dec4 true six l0 l1 k =
      Bc.bc4Lut (Bc.bc4sOps .u8) (Bc.s8n8 (fromNorm l0)) (Bc.s8n8 (fromNorm l1)) l0 l1 six k) := by
  have f := subPair_facts snorm kind i hi
  have h := bc4_palette_sub snorm kind i hk hi
  exact ⟨f.1, f.2.1, f.2.2.2, fun j hj1 hj => (okEntryT_iff _ _ _ _).mp (h.1 j hj1 hj),
    fun k hk8 => (okEntryT_iff _ _ _ _).mp (h.2 k hk8), dec4_unorm, dec4_snorm⟩

open Dds.Enc15 in
/-- UNORM pair (255, 1): step 3 has index 5, the decoder shows 110 and so does the f32 value; SNORM levels (254, 1) are
the bytes (127, 0x82) -/
example :
    subPair false 0 0 = (255, 1) ∧ INDEX_MAP.getD 3 0 = 5 ∧ dec4 false true 255 1 5 = 110 ∧
    f32Nearest8 ((Inter6Palette.new (Conv.n8f32 255) (Conv.n8f32 1)).stepValue 3) = 110 ∧
    subPair true 0 0 = (254, 1) ∧ byteOf true 254 = 127 ∧ byteOf true 1 = 130 := by decide +kernel

end Dds.C13
