/-
C04 — Uncompressed, packed, sub-sampled and planar formats decode to the ideal values.

Only property theorems and non-vacuity examples live here; the complete-evaluation lemmas are in
`Proofs/ConvInt*.lean`, `Proofs/ConvFloat*.lean`, `Proofs/ConvF16*.lean` (16-bit → F32 and half floats, on the
integer representation of the software float of `Proofs/ConvFast*.lean`), `Proofs/F32Mono.lean` + `Proofs/F32Thr*.lean`
(binary32 sources: monotonicity of the software float + kernel-checked threshold tables), the list lemmas in
`Proofs/Pairing.lean`.

Reading of the statements.  `Conv.*` are the implementation-shaped models of `color/formats.rs`
(integer code on `Nat` with the wrapping steps written out; `f32` code operator by operator on the
software binary32 of `ConvF32.lean`).  `Spec.*` is the rational specification: `unorm n v =
v/(2^n-1)`, `snorm`, `xr`, `smallFloat`, `sharedExp`; `toCode max q = ⌊max·clamp01 q + 1/2⌋` is the
nearest code with an exact tie going up (`nearest_is_nearest` below), `isTie` says whether the
scaled ideal is exactly half way, `roundF32 q` is the bit pattern of the binary32 nearest to `q`
(ties to even).  Every theorem quantifies over the WHOLE input domain of the conversion.
-/
import DdsModel.Proofs.ConvInt
import DdsModel.Proofs.ConvInt16A
import DdsModel.Proofs.ConvInt16B
import DdsModel.Proofs.ConvInt16C
import DdsModel.Proofs.ConvFloat
import DdsModel.Proofs.ConvShared
import DdsModel.Proofs.ConvF16All
import DdsModel.Proofs.ConvF32Thr
import DdsModel.Proofs.YuvErr
import DdsModel.Proofs.F32ErrRound
import DdsModel.Proofs.Pairing
import DdsModel.Proofs.FieldsWF
import DdsModel.Drv.C04
namespace Dds.C04
open Dds Dds.Conv Dds.Spec Dds.CF32 Dds.Unc Dds.ConvProofs

/-! ### what "nearest" means -/

/-- `nearest q = ⌊q + 1/2⌋` is an integer at distance at most 1/2 from `q`, and an exact tie is
resolved upwards: `-1/2 < q - nearest q ≤ ... `, i.e. `nearest q - 1/2 ≤ q < nearest q + 1/2`. -/
theorem nearest_is_nearest (q : Rat) :
    ((nearest q : Int) : Rat) - 1 / 2 ≤ q ∧ q < ((nearest q : Int) : Rat) + 1 / 2 := by
  unfold nearest
  have h1 := Rat.floor_le (q + 1 / 2)
  have h2 := Rat.lt_floor_add_one (q + 1 / 2)
  rw [Rat.intCast_add] at h2
  constructor
  · exact Rat.sub_right_le_iff_le_add.mpr h1
  · have e : ((q + 1 / 2).floor : Rat) + 1 / 2 + 1 / 2 = ((q + 1 / 2).floor : Rat) + ((1 : Int) : Rat) := by
      rw [Rat.add_assoc]
      have : (1 / 2 + 1 / 2 : Rat) = ((1 : Int) : Rat) := by decide +kernel
      rw [this]
    have h3 : q + 1 / 2 < ((q + 1 / 2).floor : Rat) + 1 / 2 + 1 / 2 := by rw [e]; exact h2
    exact (Rat.add_lt_add_right).mp h3

private theorem okInt_elim {impl : Nat → Nat} {max : Nat} {q : Nat → Rat} {tie : Nat → Bool} {x : Nat}
    (h : okInt impl max q tie x = true) :
    (impl x : Int) = toCode max (q x) ∧ isTie ((max : Rat) * clamp01 (q x)) = tie x := by
  simp only [okInt, Bool.and_eq_true, beq_iff_eq] at h
  exact h

/-! ### UNORM → UNORM8 / UNORM16: nearest code, and a tie never occurs -/

theorem n1n8_nearest : ∀ x, x < 2 → (n1n8 x : Int) = toCode 255 (unorm 1 x) ∧ isTie (255 * clamp01 (unorm 1 x)) = false :=
  fun x h => okInt_elim (n1n8_ok x h)
theorem n2n8_nearest : ∀ x, x < 4 → (n2n8 x : Int) = toCode 255 (unorm 2 x) ∧ isTie (255 * clamp01 (unorm 2 x)) = false :=
  fun x h => okInt_elim (n2n8_ok x h)
theorem n4n8_nearest : ∀ x, x < 16 → (n4n8 x : Int) = toCode 255 (unorm 4 x) ∧ isTie (255 * clamp01 (unorm 4 x)) = false :=
  fun x h => okInt_elim (n4n8_ok x h)
theorem n5n8_nearest : ∀ x, x < 32 → (n5n8 x : Int) = toCode 255 (unorm 5 x) ∧ isTie (255 * clamp01 (unorm 5 x)) = false :=
  fun x h => okInt_elim (n5n8_ok x h)
theorem n6n8_nearest : ∀ x, x < 64 → (n6n8 x : Int) = toCode 255 (unorm 6 x) ∧ isTie (255 * clamp01 (unorm 6 x)) = false :=
  fun x h => okInt_elim (n6n8_ok x h)
theorem n10n8_nearest : ∀ x, x < 1024 → (n10n8 x : Int) = toCode 255 (unorm 10 x) ∧ isTie (255 * clamp01 (unorm 10 x)) = false :=
  fun x h => okInt_elim (n10n8_ok x h)
theorem n16n8_nearest : ∀ x, x < 65536 → (n16n8 x : Int) = toCode 255 (unorm 16 x) ∧ isTie (255 * clamp01 (unorm 16 x)) = false :=
  fun x h => okInt_elim (n16n8_ok x h)
theorem n1n16_nearest : ∀ x, x < 2 → (n1n16 x : Int) = toCode 65535 (unorm 1 x) ∧ isTie (65535 * clamp01 (unorm 1 x)) = false :=
  fun x h => okInt_elim (n1n16_ok x h)
theorem n2n16_nearest : ∀ x, x < 4 → (n2n16 x : Int) = toCode 65535 (unorm 2 x) ∧ isTie (65535 * clamp01 (unorm 2 x)) = false :=
  fun x h => okInt_elim (n2n16_ok x h)
theorem n4n16_nearest : ∀ x, x < 16 → (n4n16 x : Int) = toCode 65535 (unorm 4 x) ∧ isTie (65535 * clamp01 (unorm 4 x)) = false :=
  fun x h => okInt_elim (n4n16_ok x h)
theorem n5n16_nearest : ∀ x, x < 32 → (n5n16 x : Int) = toCode 65535 (unorm 5 x) ∧ isTie (65535 * clamp01 (unorm 5 x)) = false :=
  fun x h => okInt_elim (n5n16_ok x h)
theorem n6n16_nearest : ∀ x, x < 64 → (n6n16 x : Int) = toCode 65535 (unorm 6 x) ∧ isTie (65535 * clamp01 (unorm 6 x)) = false :=
  fun x h => okInt_elim (n6n16_ok x h)
theorem n8n16_nearest : ∀ x, x < 256 → (n8n16 x : Int) = toCode 65535 (unorm 8 x) ∧ isTie (65535 * clamp01 (unorm 8 x)) = false :=
  fun x h => okInt_elim (n8n16_ok x h)
theorem n10n16_nearest : ∀ x, x < 1024 → (n10n16 x : Int) = toCode 65535 (unorm 10 x) ∧ isTie (65535 * clamp01 (unorm 10 x)) = false :=
  fun x h => okInt_elim (n10n16_ok x h)

/-! ### SNORM → UNORM8 / UNORM16: nearest code; the only tie is the code 0 (ideal 0.5), it goes up
(128 resp. 32768 = `Norm::HALF`) -/

theorem s8n8_nearest : ∀ x, x < 256 → (s8n8 x : Int) = toCode 255 (snorm 8 x) ∧ isTie (255 * clamp01 (snorm 8 x)) = (x == 0) :=
  fun x h => okInt_elim (s8n8_ok x h)
theorem s8n16_nearest : ∀ x, x < 256 → (s8n16 x : Int) = toCode 65535 (snorm 8 x) ∧ isTie (65535 * clamp01 (snorm 8 x)) = (x == 0) :=
  fun x h => okInt_elim (s8n16_ok x h)
theorem s16n8_nearest : ∀ x, x < 65536 → (s16n8 x : Int) = toCode 255 (snorm 16 x) ∧ isTie (255 * clamp01 (snorm 16 x)) = (x == 0) :=
  fun x h => okInt_elim (s16n8_ok x h)
theorem s16n16_nearest : ∀ x, x < 65536 → (s16n16 x : Int) = toCode 65535 (snorm 16 x) ∧ isTie (65535 * clamp01 (snorm 16 x)) = (x == 0) :=
  fun x h => okInt_elim (s16n16_ok x h)

/-- both minimum codes are -1 (ideal 0), 0 is 0.5, the maximum is 1 -/
theorem snorm_anchors : snorm 8 128 = 0 ∧ snorm 8 129 = 0 ∧ snorm 8 0 = 1 / 2 ∧ snorm 8 127 = 1 ∧
    snorm 16 32768 = 0 ∧ snorm 16 32769 = 0 ∧ snorm 16 0 = 1 / 2 ∧ snorm 16 32767 = 1 := by
  decide +kernel

/-! ### XR_BIAS → UNORM8 / UNORM16: nearest code of the value clamped to [0,1]; the scaled ideal is
`c/2` resp. `257 c/2`, a tie for every odd `c = x - 384` strictly inside the range, going up -/

theorem xr10n8_nearest : ∀ x, x < 1024 → (xr10n8 x : Int) = toCode 255 (xr x) ∧
    isTie (255 * clamp01 (xr x)) = (384 < x && x < 894 && x % 2 == 1) :=
  fun x h => okInt_elim (xr10n8_ok x h)
theorem xr10n16_nearest : ∀ x, x < 1024 → (xr10n16 x : Int) = toCode 65535 (xr x) ∧
    isTie (65535 * clamp01 (xr x)) = (384 < x && x < 894 && x % 2 == 1) :=
  fun x h => okInt_elim (xr10n16_ok x h)

/-! ### 11-bit / 10-bit float denormals → UNORM16 (integer formulas) -/

theorem fp11_denorm_n16_nearest : ∀ m, m < 64 →
    (fp11DenormN16 m : Int) = toCode 65535 ((smallFloat 6 false m).getD 0) :=
  fun m h => (okInt_elim (fp11Denorm_ok m h)).1
theorem fp10_denorm_n16_nearest : ∀ m, m < 32 →
    (fp10DenormN16 m : Int) = toCode 65535 ((smallFloat 5 false m).getD 0) :=
  fun m h => (okInt_elim (fp10Denorm_ok m h)).1

/-! ### no intermediate of the integer code overflows its Rust type (so the overflow-checking
profile computes the same values and the `% 2^n` of the model are the identity) -/

theorem int_no_overflow :
    (∀ x, x < 4 → x * 85 < 256 ∧ x * 21845 < 65536) ∧
    (∀ x, x < 16 → x * 17 < 256 ∧ x * 4369 < 65536) ∧
    (∀ x, x < 32 → x * 2108 + 92 < 65536 ∧ x * 138547200 < 4294967296) ∧
    (∀ x, x < 64 → x * 1036 + 132 < 65536 ∧ x * 68173056 + 30976 < 4294967296) ∧
    (∀ x, x < 256 → x * 257 < 65536) ∧
    (∀ x, x < 1024 → x * 16336 + 32656 < 4294967296 ∧ x * 4198340 + 32660 < 4294967296) ∧
    (∀ x, x < 65536 → x * 255 + 32895 < 4294967296) ∧
    (∀ x, x < 256 → s8norm x ≤ 254 ∧ s8norm x * 258 + 2 < 65536 ∧ s8norm x * 16909064 + 32520 < 4294967296) ∧
    (∀ x, x < 65536 → s16norm x ≤ 65534 ∧ s16norm x * 65282 + 8388354 < 4294967296 ∧
      s16norm x * 65538 + 2 < 4294967296) ∧
    (∀ x, x < 1024 → xrClamp x ≤ 510 ∧ xrClamp x * 8421376 + 65535 < 4294967296) := by
  refine ⟨?_, ?_, ?_, ?_, ?_, ?_, ?_, ?_, ?_, ?_⟩ <;> intro x h
  · omega
  · omega
  · omega
  · omega
  · omega
  · omega
  · omega
  · have : s8norm x ≤ 254 := by unfold s8norm w8; omega
    omega
  · have : s16norm x ≤ 65534 := by unfold s16norm w16; omega
    omega
  · have : xrClamp x ≤ 510 := by unfold xrClamp; omega
    omega

/-! ### → F32: the Rust `f32` expression yields the correctly rounded binary32 of the ideal -/

/-- the constants are the correctly rounded values of their defining expressions -/
theorem f32_constants : kThird = roundF32 (1 / 3) ∧ k1_n8 = roundF32 (1 / 765) ∧ k255 = roundF32 (1 / 255) ∧
    kY = roundF32 (1164383 / 1000000) ∧ kRV = roundF32 (1596027 / 1000000) ∧
    kGU = roundF32 (391762 / 1000000) ∧ kGV = roundF32 (812968 / 1000000) ∧
    kBU = roundF32 (2017232 / 1000000) := by
  have h := constants_ok
  exact ⟨h.1, h.2.2.2.2.1, h.2.2.2.2.2.2.2.2.2.2.2.1, h.2.2.2.2.2.2.2.2.2.2.2.2.2.2.2.1,
    h.2.2.2.2.2.2.2.2.2.2.2.2.2.2.2.2.1, h.2.2.2.2.2.2.2.2.2.2.2.2.2.2.2.2.2.1,
    h.2.2.2.2.2.2.2.2.2.2.2.2.2.2.2.2.2.2.1, h.2.2.2.2.2.2.2.2.2.2.2.2.2.2.2.2.2.2.2⟩

private theorem okF32_elim {impl : Nat → Nat} {q : Nat → Rat} {x : Nat} (h : okF32 impl q x = true) :
    impl x = roundF32 (q x) := by
  simpa [okF32] using h

theorem n1f32_exact : ∀ x, x < 2 → n1f32 x = roundF32 (unorm 1 x) := fun x h => okF32_elim (n1f32_ok x h)
theorem n2f32_exact : ∀ x, x < 4 → n2f32 x = roundF32 (unorm 2 x) := fun x h => okF32_elim (n2f32_ok x h)
theorem n4f32_exact : ∀ x, x < 16 → n4f32 x = roundF32 (unorm 4 x) := fun x h => okF32_elim (n4f32_ok x h)
theorem n5f32_exact : ∀ x, x < 32 → n5f32 x = roundF32 (unorm 5 x) := fun x h => okF32_elim (n5f32_ok x h)
theorem n6f32_exact : ∀ x, x < 64 → n6f32 x = roundF32 (unorm 6 x) := fun x h => okF32_elim (n6f32_ok x h)
theorem n8f32_exact : ∀ x, x < 256 → n8f32 x = roundF32 (unorm 8 x) := fun x h => okF32_elim (n8f32_ok x h)
theorem n10f32_exact : ∀ x, x < 1024 → n10f32 x = roundF32 (unorm 10 x) :=
  fun x h => okF32_elim (n10f32_ok x h)
theorem s8f32_exact : ∀ x, x < 256 → s8f32 x = roundF32 (snorm 8 x) := fun x h => okF32_elim (s8f32_ok x h)
/-- `xr10::f32` as fixed in 785f0f7 (division): the correctly rounded value -/
theorem xr10f32_exact : ∀ x, x < 1024 → xr10f32 x = roundF32 (xr x) := fun x h => okF32_elim (xr10f32_ok x h)
/-- the former formula (multiplication by the rounded reciprocal) was not: field value 0 -/
theorem xr10f32_reciprocal_not_nearest : xr10f32Reciprocal 0 ≠ roundF32 (xr 0) := by decide +kernel

/-! ### 16-bit UNORM / SNORM → F32 and the half-float conversions, whole 16-bit domains

All 65 536 inputs of each conversion are evaluated in the kernel (`decide +kernel`, kernel reduction only).  The
software binary32 of `ConvF32.lean` costs ≈ 12 ms per conversion there, so the evaluation runs on an integer
representation of the same float (`Proofs/ConvFast.lean`: biased natural exponents, kernel-accelerated `Nat`
primitives only) that is PROVED equal to the model's `roundPack`, `fmul`, `fadd`, `ofNat`, `toNatSat` for all
arguments; likewise `roundF32 (N/D)` and `toCode max (N/D)` of the specification (`Proofs/ConvFastSpec.lean`).
The domains are split over twelve files `Proofs/ConvF16Rows*.lean` that build in parallel. -/

/-- `n16::f32` (`t*C0 + t*C1`, two products and a sum in `f32`) is the correctly rounded `v / 65535` -/
theorem n16_f32_eq_spec : ∀ v, v < 65536 → n16f32 v = roundF32 (unorm 16 v) := Dds.ConvFast.n16f32_all

/-- `s16::uf32` (SNORM16 mapped to [0, 1], `(n as f32 * 73.0) * (1/(65534*73))` with `n = s16::norm`) is the
correctly rounded ideal value `(max(s, −32767)/32767 + 1)/2` -/
theorem s16_uf32_eq_spec : ∀ v, v < 65536 → s16f32 v = roundF32 (snorm 16 v) := Dds.ConvFast.s16f32_all

/-- both minimum codes (−32768 and −32767) give 0.0, code 0 gives 0.5, the maximum 1.0 -/
theorem s16_uf32_anchors : s16f32 32768 = 0 ∧ s16f32 32769 = 0 ∧ s16f32 0 = half ∧ s16f32 32767 = one := by
  decide +kernel

/-- `fp16::f32`, every half bit pattern: a finite half (normal or subnormal) gives the binary32 of exactly its
value (`roundF32` of a representable value; a zero keeps its sign), `±∞` gives `±∞`, a NaN gives a NaN -/
theorem fp16_f32_eq_spec : ∀ x, x < 65536 →
    match smallFloat 10 true x with
    | some v => smallF32 10 true x = if v = 0 then (if x < 32768 then 0 else signBit) else roundF32 v
    | none => if x % 1024 = 0 then smallF32 10 true x = (if x < 32768 then posInf else negInf)
        else isNaN (smallF32 10 true x) = true :=
  Dds.ConvFast.half_f32_all

/-- `fp16::n8`, every half bit pattern: the nearest 8-bit code of the value clamped to [0, 1] (tie up);
`+∞` gives 255, `−∞` and NaN give 0 -/
theorem fp16_n8_eq_spec : ∀ x, x < 65536 →
    (smallN8 10 true x : Int) = match smallFloat 10 true x with
      | some v => toCode 255 v
      | none => if x % 1024 = 0 ∧ x < 32768 then 255 else 0 :=
  Dds.ConvFast.half_n8_all

/-- `fp16::n16`, every half bit pattern EXCEPT the four halves `0x3801 … 0x3804` (0.5·(1 + k/1024), k = 1…4):
the nearest 16-bit code of the value clamped to [0, 1] (tie up); `+∞` gives 65535, `−∞` and NaN give 0.
`_partial`: the property demands the nearest code for every half; for the four excluded ones the code is one too
high (`fp16_n16_known_deviation`, finding F14b), so the exception set is exact. -/
theorem fp16_n16_eq_spec_partial : ∀ x, x < 65536 → ¬ (0x3801 ≤ x ∧ x ≤ 0x3804) →
    (smallN16 10 true x : Int) = match smallFloat 10 true x with
      | some v => toCode 65535 v
      | none => if x % 1024 = 0 ∧ x < 32768 then 65535 else 0 := by
  intro x hx hne
  have h := Dds.ConvFast.half_n16_all x hx
  have hne' : ¬ (14337 ≤ x ∧ x ≤ 14340) := hne
  rw [h]
  cases smallFloat 10 true x with
  | none => rfl
  | some v => simp only [if_neg hne', Int.add_zero]

/-- the four halves really deviate: the `f32` product `v * 65535.0` needs 25 bits, rounds onto the tie
`c + 0.5` and the code comes out ONE TOO HIGH (32800, 32832, 32864, 32896 instead of 32799, 32831, 32863,
32895); each ideal is within 2^-9 code of the tie, inside the stated tie tolerance (`admissible`) -/
theorem fp16_n16_known_deviation : ∀ x, 0x3801 ≤ x → x ≤ 0x3804 →
    ∃ v, smallFloat 10 true x = some v ∧ (smallN16 10 true x : Int) = toCode 65535 v + 1 ∧
      admissible 65535 v (smallN16 10 true x) = true := by
  intro x h1 h2
  have : x = 14337 ∨ x = 14338 ∨ x = 14339 ∨ x = 14340 := by omega
  rcases this with rfl | rfl | rfl | rfl
  · exact ⟨(smallFloat 10 true 14337).getD 0, by decide +kernel, by decide +kernel, by decide +kernel⟩
  · exact ⟨(smallFloat 10 true 14338).getD 0, by decide +kernel, by decide +kernel, by decide +kernel⟩
  · exact ⟨(smallFloat 10 true 14339).getD 0, by decide +kernel, by decide +kernel, by decide +kernel⟩
  · exact ⟨(smallFloat 10 true 14340).getD 0, by decide +kernel, by decide +kernel, by decide +kernel⟩

/-! ### binary32 sources → UNORM8 / UNORM16: `fp::n8`, `fp::n16` on ALL 2^32 bit patterns

`fp::n8(x) = (x * 255.0 + 0.5) as u8` and `fp::n16(x) = (x * 65535.0 + 0.5) as u16` serve every `f32`-valued source
(R32*_FLOAT, and the YUV → U8/U16 paths).  The model is the expression operator by operator on the software binary32
(`fpn8 b = toNatSat (fadd (fmul b 255.0) 0.5) 255`).  The specification: NaN ↦ 0, `+∞` ↦ MAX, `−∞` ↦ 0, a finite
value ↦ `toCode MAX (toRat b)` = the nearest code of the value clamped to [0, 1] (negative values and −0 ↦ 0).

Method (no enumeration of 2^32 points): `Proofs/F32Mono.lean` proves that `roundPack` is monotone in the exact value,
hence `x ↦ (x * K + 0.5) as uN` is monotone on the patterns `0 … +∞`; for every code `k` a generated table gives the
first pattern `t_k` with result ≥ `k`, and the kernel evaluates the model at `t_k` and `t_k − 1` and compares the
values of `t_k`, `t_k ± 1` with the exact tie `(2k − 1)/(2·MAX)` (`Proofs/F32Thr.lean`, `F32ThrRows*.lean`); NaN,
negative values, zeros and infinities are symbolic cases.

RESULT: the conversion is NOT the nearest code on all inputs.  For 128 (U8) resp. 32 768 (U16) patterns — each the
LARGEST float below a tie `(2k − 1)/(2·MAX)` — the binary32 product `x * MAX` (or the sum `+ 0.5`) rounds up onto the
tie and the result is `k`, one above the nearest code `k − 1` (the double rounding of finding F14).  Everywhere else
(all other 2^32 − 128 resp. 2^32 − 32 768 patterns) the result is exactly the specification.  Every exception is
within one input ulp of the tie, inside the stated tie tolerance of `f32`-valued fields (`admissible`). -/

/-- `fp::n8`, every binary32 pattern EXCEPT the 128 listed ones (`0x3B008080` = the largest float below 1/510, and
`0x3F000000 + j·0x010101`, `j = 1 … 127` = the largest floats below `(255 + 2j)/510`): exactly the specification.
`_partial`: the property demands the nearest code everywhere; on the excluded patterns the code is one too high
(`fp_n8_known_deviation`), so the exception set is exact. -/
theorem fp_n8_eq_spec_partial : ∀ b, b < 2 ^ 32 →
    ¬ (b = 0x3B008080 ∨ (0x3F000000 < b ∧ b < 0x3F800000 ∧ (b - 0x3F000000) % 0x010101 = 0)) →
    (fpn8 b : Int) = if isNaN b then 0 else if isInf b then (if isNeg b then 0 else 255) else toCode 255 (toRat b) := by
  intro b hb hne
  have h := Dds.F32Thr.fpn8_all b hb
  rw [if_neg (fun hm => hne ((Dds.F32Thr.fpN8Dev_closed b).mp hm)), Int.add_zero] at h
  exact h

/-- the 128 excluded patterns really deviate: each is a positive finite float strictly below the tie
`(2k − 1)/510` of its result `k = fpn8 b` while its successor `b + 1` is at or above it, so the nearest code is
`k − 1`; the result is within the tie tolerance -/
theorem fp_n8_known_deviation : ∀ b,
    (b = 0x3B008080 ∨ (0x3F000000 < b ∧ b < 0x3F800000 ∧ (b - 0x3F000000) % 0x010101 = 0)) →
    (fpn8 b : Int) = toCode 255 (toRat b) + 1 ∧ 1 ≤ fpn8 b ∧
    toRat b < ((2 * fpn8 b - 1 : Nat) : Rat) / 510 ∧ ((2 * fpn8 b - 1 : Nat) : Rat) / 510 ≤ toRat (b + 1) ∧
    admissible 255 (toRat b) (fpn8 b) = true := by
  intro b hb
  obtain ⟨_, h1, h2, h3, h4, h5⟩ := Dds.F32Thr.fpn8_dev b ((Dds.F32Thr.fpN8Dev_closed b).mpr hb)
  exact ⟨h1, h2, h3, h4, h5⟩

/-- `fp::n16`, every binary32 pattern EXCEPT the 32 768 patterns of the table `fpN16Dev` (generated, every entry
validated in the kernel): exactly the specification.  `_partial`: see `fp_n16_known_deviation`. -/
theorem fp_n16_eq_spec_partial : ∀ b, b < 2 ^ 32 → b ∉ Dds.F32Thr.fpN16Dev →
    (fpn16 b : Int) =
      if isNaN b then 0 else if isInf b then (if isNeg b then 0 else 65535) else toCode 65535 (toRat b) := by
  intro b hb hne
  have h := Dds.F32Thr.fpn16_all b hb
  rw [if_neg hne, Int.add_zero] at h
  exact h

/-- the 32 768 excluded patterns really deviate, and they are characterised: `b` is a positive finite float strictly
below the tie `(2k − 1)/131070` of its result `k = fpn16 b`, its successor is at or above the tie (so `b` is the
largest float below that tie and the nearest code is `k − 1`), and the result is within the tie tolerance -/
theorem fp_n16_known_deviation : ∀ b, b ∈ Dds.F32Thr.fpN16Dev →
    (fpn16 b : Int) = toCode 65535 (toRat b) + 1 ∧ 1 ≤ fpn16 b ∧
    toRat b < ((2 * fpn16 b - 1 : Nat) : Rat) / 131070 ∧ ((2 * fpn16 b - 1 : Nat) : Rat) / 131070 ≤ toRat (b + 1) ∧
    admissible 65535 (toRat b) (fpn16 b) = true := by
  intro b hb
  obtain ⟨_, h1, h2, h3, h4, h5⟩ := Dds.F32Thr.fpn16_dev b hb
  exact ⟨h1, h2, h3, h4, h5⟩

/-- the exception set of `fp::n16` has exactly 32 768 elements (about every second tie; every tie `k ≤ 128`, none
for `129 ≤ k ≤ 256`) -/
theorem fp_n16_deviation_count : Dds.F32Thr.fpN16Dev.length = 32768 := Dds.F32Thr.fpN16Dev_length

/-- the statement behind both: the monotonicity of the software float used to extend the checked points.  For
non-negative non-NaN patterns `a ≤ b ≤ +∞` (bit patterns of non-negative floats are ordered like their values) and a
positive finite constant `c`: `a * c ≤ b * c`, `a + c ≤ b + c`, `a as uN ≤ b as uN` -/
theorem f32_ops_monotone (a b c : Nat) (hab : a ≤ b) (hb : b ≤ posInf) (hc : c < posInf) (hc0 : 0 < c) (mx : Nat) :
    fmul a c ≤ fmul b c ∧ fadd a c ≤ fadd b c ∧ toNatSat a mx ≤ toNatSat b mx :=
  ⟨(Dds.F32Mono.fmul_mono_nonneg hab hb hc hc0).1, (Dds.F32Mono.fadd_mono_nonneg hab hb hc).1,
    Dds.F32Mono.toNatSat_mono_nonneg mx hab hb⟩

/-- and the whole conversion `x ↦ (x * K + 0.5) as uN` (`K` a positive finite constant) is monotone for the order of
the values (`key`; `−0 = +0`) on ALL non-NaN bit patterns -/
theorem f32_to_unorm_monotone (K mx a b : Nat) (hK : K < posInf) (hK0 : 0 < K) (ha : a < 2 ^ 32) (hb : b < 2 ^ 32)
    (hna : isNaN a = false) (hnb : isNaN b = false) (h : key a ≤ key b) :
    toNatSat (fadd (fmul a K) half) mx ≤ toNatSat (fadd (fmul b K) half) mx :=
  Dds.F32Thr.pipe_mono_key K mx a b hK hK0 ha hb hna hnb h
example : key 0xBF800000 ≤ key 0x80000000 ∧ key 0x80000000 ≤ key 0 ∧ key 0 ≤ key 0x3F000000 ∧
    isNaN 0xBF800000 = false := by decide

/-! ### 11-bit, 10-bit floats and the shared-exponent format: all outputs, whole domain -/

/-- every 10-bit float code: F32 is the exact value (`+inf`, NaN for `exp = 31`); U8/U16 are the
nearest codes of the clamped value (tie up), infinity saturates, NaN gives 0 -/
theorem fp10_all : ∀ x, x < 1024 → okSmall 5 false x = true := fp10_ok
theorem fp11_all : ∀ x, x < 2048 → okSmall 6 false x = true := fp11_ok
/-- R9G9B9E5, every exponent and mantissa: F32 is the exact value, U8 the nearest code, U16 the
nearest code EXCEPT for the single pair exponent 15, mantissa 257 (value 257/512, ideal code
32895.498…): the `f32` product `257 * (2^-9 * 65535)` needs 25 bits, rounds onto the tie 32895.5 and
the code comes out one too high (32896).  The ideal is 2^-9 codes from a tie, inside the stated tie
tolerance of float-evaluated conversions; recorded in notes/C04.md. -/
theorem shared_all : ∀ e m, e < 32 → m < 512 →
    sharedF32 e m = roundF32 (sharedExp e m) ∧ (sharedN8 e m : Int) = toCode 255 (sharedExp e m) ∧
    (sharedN16 e m : Int) = toCode 65535 (sharedExp e m) + (if e = 15 ∧ m = 257 then 1 else 0) :=
  shared_ok'
/-- the exceptional code is admissible under the tie tolerance -/
theorem shared_exception_admissible : admissible 65535 (sharedExp 15 257) (sharedN16 15 257) = true := by
  decide +kernel

/-! ### the pinned format table -/

/-- 45 formats (35 uncompressed, 7 sub-sampled, 3 bi-planar), distinct names; in every record the
fields lie inside the unit, are pairwise disjoint, have a width their kind admits, every pixel of
the unit gets each component it needs from exactly one field, an absent blue channel is 0.5 exactly
for the two-channel SNORM formats (else 0), luma/chroma sit in their planes -/
theorem fields_wellformed :
    formats.all wellformed = true ∧ formats.length = 45 ∧ (formats.map (·.name)).Nodup ∧
    countWhere (fun f => f.pxPerUnit == 1 && f.planar.isNone) = 35 ∧
    countWhere (fun f => f.pxPerUnit != 1) = 7 ∧ countWhere (fun f => f.planar.isSome) = 3 := by
  decide

/-- defaults: absent channels are 0, opaque alpha is the maximum, HALF is 128 / 32768 / 0.5 -/
theorem defaults_documented :
    (∀ p, defaultVal .zero p = 0) ∧ defaultVal .one 0 = 255 ∧ defaultVal .one 1 = 65535 ∧
    defaultVal .one 2 = roundF32 1 ∧ defaultVal .half 0 = 128 ∧ defaultVal .half 1 = 32768 ∧
    defaultVal .half 2 = roundF32 (1 / 2) ∧
    (toCode 255 (1 / 2) = 128 ∧ toCode 65535 (1 / 2) = 32768) := by
  refine ⟨fun _ => rfl, ?_, ?_, ?_, ?_, ?_, ?_, ?_⟩ <;> decide +kernel

/-! ### pairing: every pixel uses the samples of its own cell, for all widths and heights -/

/-- 2×1 formats: pixel `x` of a row is pixel `x % 2` of block `x / 2`; exactly `w` pixels -/
theorem pairing_2x1 {α} (g : Nat → α × α) (w : Nat) :
    (process2x1 g w).length = w ∧
    ∀ x, x < w → (process2x1 g w)[x]? = some (if x % 2 = 0 then (g (x / 2)).1 else (g (x / 2)).2) :=
  ⟨process2x1_length g w, fun x h => process2x1_get g w x h⟩

/-- R1_UNORM: pixel `x` is bit `x % 8` (from the top) of byte `x / 8`; exactly `w` pixels -/
theorem pairing_8x1 {α} (g : Nat → List α) (hg : ∀ i, (g i).length = 8) (w : Nat) :
    (process8x1 g w).length = w ∧ ∀ x, x < w → (process8x1 g w)[x]? = (g (x / 8))[x % 8]? :=
  ⟨process8x1_length g hg w, fun x h => process8x1_get g hg w x h⟩

/-- bi-planar rows: luma sample `x` is combined with chroma sample `x / 2` -/
theorem pairing_biplanar_row {α} (f : Nat → Nat → α) (luma chroma : Nat → Nat) (w : Nat) :
    (biPlanarRow f luma chroma w).length = w ∧
    ∀ x, x < w → (biPlanarRow f luma chroma w)[x]? = some (f (luma x) (chroma (x / 2))) :=
  ⟨biPlanarRow_length f luma chroma w, fun x h => biPlanarRow_get f luma chroma w x h⟩

/-- bi-planar surfaces: with `⌈h/2⌉` chroma lines exactly `h` rows are produced and row `y` uses
chroma line `y / 2` -/
theorem pairing_biplanar_rows {α} (row : Nat → Nat → α) (h : Nat) :
    biPlanarRows row h ((h + 1) / 2) = (List.range h).map fun y => row y (y / 2) :=
  biPlanarRows_eq row h

/-! ### non-vacuity / sanity -/

example : n5n8 11 = 90 ∧ toCode 255 (unorm 5 11) = 90 := by decide +kernel
example : s8n8 0 = 128 ∧ isTie (255 * clamp01 (snorm 8 0)) = true := by decide +kernel
example : xr10n8 385 = 1 ∧ isTie (255 * clamp01 (xr 385)) = true := by decide +kernel
example : roundF32 1 = 0x3F800000 ∧ roundF32 (1 / 3) = 0x3EAAAAAB ∧ roundF32 (-3 / 2) = 0xBFC00000 ∧
    roundF32 16777217 = 0x4B800000 ∧ roundF32 16777219 = 0x4B800002 ∧
    roundF32 (1 / 2 ^ 149) = 1 ∧ roundF32 (1 / 2 ^ 150) = 0 ∧ roundF32 (2 ^ 128) = 0x7F800000 := by
  decide +kernel
example : n16f32 65535 = one ∧ n16f32 1 = roundF32 (1 / 65535) ∧ unorm 16 32768 = 32768 / 65535 := by decide +kernel
example : snorm 16 32768 = 0 ∧ snorm 16 65535 = 16383 / 32767 ∧ s16f32 65535 = roundF32 (16383 / 32767) := by
  decide +kernel
example : smallFloat 10 true 0x3C00 = some 1 ∧ smallF32 10 true 0x3C00 = one ∧ smallN8 10 true 0x3C00 = 255 ∧
    smallFloat 10 true 0x0001 = some (1 / 16777216) ∧ smallF32 10 true 0x0001 = 0x33800000 ∧
    smallFloat 10 true 0xC000 = some (-2) ∧ smallF32 10 true 0xC000 = 0xC0000000 ∧ smallN16 10 true 0xC000 = 0 ∧
    smallFloat 10 true 0x7C00 = none ∧ smallF32 10 true 0xFC00 = negInf ∧ smallN16 10 true 0x7C00 = 65535 ∧
    smallF32 10 true 0x8000 = signBit ∧ smallFloat 10 true 0x3801 = some (1025 / 2048) ∧
    smallN16 10 true 0x3801 = 32800 ∧ toCode 65535 (1025 / 2048) = 32799 := by decide +kernel
example : fpn8 0x3F800000 = 255 ∧ fpn8 0x3F000000 = 128 ∧ fpn8 0x7FC00000 = 0 ∧ fpn8 0x7F800000 = 255 ∧ fpn8 0xFF800000 = 0 ∧
    fpn8 0xBF000000 = 0 ∧ fpn8 0x80000000 = 0 ∧ fpn8 0x00000001 = 0 ∧ fpn8 0x3B008081 = 1 ∧ toCode 255 (toRat 0x3B008081) = 1 ∧
    fpn8 0x3B008080 = 1 ∧ toCode 255 (toRat 0x3B008080) = 0 ∧ fpn8 0x3F010101 = 129 ∧ toCode 255 (toRat 0x3F010101) = 128 := by
  decide +kernel
example : fpn16 0x3F800000 = 65535 ∧ fpn16 0x3F000000 = 32768 ∧ fpn16 0x7FC00000 = 0 ∧ fpn16 0x7F800000 = 65535 ∧
    fpn16 0x477FFF00 = 65535 ∧ fpn16 0xC0000000 = 0 ∧ fpn16 0x3F1C201C = 39968 ∧ toCode 65535 (toRat 0x3F1C201C) = 39967 ∧
    fpn16 0x3F1C201D = 39968 ∧ toCode 65535 (toRat 0x3F1C201D) = 39968 ∧ fpn16 0x37000080 = 1 ∧
    toCode 65535 (toRat 0x37000080) = 0 := by
  decide +kernel
set_option maxRecDepth 100000 in
example : 0x37000080 ∈ Dds.F32Thr.fpN16Dev ∧ 0x3F1C201D ∉ Dds.F32Thr.fpN16Dev := by
  decide +kernel
example : process2x1 (fun i => (2 * i, 2 * i + 1)) 5 = [0, 1, 2, 3, 4] := by decide
example : biPlanarRows (fun y uv => (y, uv)) 3 2 = [(0, 0), (1, 0), (2, 1)] := by decide
example : (findFmt "NV12").isSome = true := by decide

/-! ### ===== YUV decoders: ALL inputs (2^24 / 2^30 / 2^48 triples), by a rounding-error bound =====

`yuvTo bits prec y u v` is the operator-by-operator binary32 model of `yuv8/yuv10/yuv16::{n8, n16, f32}`
(`prec` 0 = U8, 1 = U16, 2 = F32), `Spec.yuv bits y u v` the three ideal values (BT.601 limited range, the documented
6-decimal constants, exact `Rat`, clamped to [0, 1]).  Reading (DESIGN.md §3, the oracle of `harness/src/c04.rs`):
an integer code `k` is accepted iff `|k/max − ideal| ≤ 1/(2·max) + τ`, `τ = 2^-12/255` (`Spec.admissible`: the nearest
code, or either neighbour when the ideal value is within `τ` of a tie); an F32 output iff it is finite and
`|out − ideal| ≤ τ + 2^-24` (`Spec.admissibleF32`).  `yuvAll P ideal out`: `out` has exactly three channels and `P`
holds for each.  No enumeration: `Proofs/F32Err.lean` proves the standard model of floating-point arithmetic for the
software binary32 (each `fmul`/`fadd`/`fsub` on finite operands = exact result rounded once, error ≤ half an ulp of the
result's binade; integer → float casts and the differences `y − 16` … exact), `Proofs/YuvErr.lean` composes it along
the Rust expression with interval bounds from the input ranges (rounding of the five matrix constants and of `1/max`
included) and obtains `|out − ideal| ≤ 10·2^-24` for every F32 channel at every depth; the integer outputs follow from
`fp_n8/fp_n16_eq_spec_partial` + `…_known_deviation` (all 2^32 patterns) — a code is the nearest code of the FLOAT or
one above it when the float is the largest one below a tie, i.e. within `1/(2·max) + 2^-24` of the float — and
`10·2^-24 + 2^-24 ≤ τ = 16.06·2^-24`.  The tolerance needed is therefore the oracle's `τ` at every depth (nothing is
`_partial` here). -/

/-- `yuv8::n8` (`(sum + 0.5) as u8` on the unnormalised sums), all 2^24 inputs -/
theorem yuv8_n8_within_tolerance (y u v : Nat) (hy : y < 256) (hu : u < 256) (hv : v < 256) :
    yuvAll (admissible 255) (Spec.yuv 8 y u v) (yuvTo 8 0 y u v) = true :=
  Dds.YuvErr.yuv8_n8_ok y u v hy hu hv
/-- `yuv8::n16` (= `f32` then `fp::n16`), all 2^24 inputs -/
theorem yuv8_n16_within_tolerance (y u v : Nat) (hy : y < 256) (hu : u < 256) (hv : v < 256) :
    yuvAll (admissible 65535) (Spec.yuv 8 y u v) (yuvTo 8 1 y u v) = true :=
  Dds.YuvErr.yuv8_n16_ok y u v hy hu hv
/-- `yuv8::f32` (`(sum * (1/255)).clamp(0, 1)`), all 2^24 inputs -/
theorem yuv8_f32_within_tolerance (y u v : Nat) (hy : y < 256) (hu : u < 256) (hv : v < 256) :
    yuvAll admissibleF32 (Spec.yuv 8 y u v) (yuvTo 8 2 y u v) = true :=
  (Dds.YuvErr.yuv8_f32_ok y u v hy hu hv).2

/-- `yuv10::n8` (= `f32` then `fp::n8`), all 2^30 inputs -/
theorem yuv10_n8_within_tolerance (y u v : Nat) (hy : y < 1024) (hu : u < 1024) (hv : v < 1024) :
    yuvAll (admissible 255) (Spec.yuv 10 y u v) (yuvTo 10 0 y u v) = true :=
  Dds.YuvErr.yuv10_n8_ok y u v hy hu hv
theorem yuv10_n16_within_tolerance (y u v : Nat) (hy : y < 1024) (hu : u < 1024) (hv : v < 1024) :
    yuvAll (admissible 65535) (Spec.yuv 10 y u v) (yuvTo 10 1 y u v) = true :=
  Dds.YuvErr.yuv10_n16_ok y u v hy hu hv
theorem yuv10_f32_within_tolerance (y u v : Nat) (hy : y < 1024) (hu : u < 1024) (hv : v < 1024) :
    yuvAll admissibleF32 (Spec.yuv 10 y u v) (yuvTo 10 2 y u v) = true :=
  (Dds.YuvErr.yuv10_f32_ok y u v hy hu hv).2

/-- `yuv16::n8`, all 2^48 inputs -/
theorem yuv16_n8_within_tolerance (y u v : Nat) (hy : y < 65536) (hu : u < 65536) (hv : v < 65536) :
    yuvAll (admissible 255) (Spec.yuv 16 y u v) (yuvTo 16 0 y u v) = true :=
  Dds.YuvErr.yuv16_n8_ok y u v hy hu hv
theorem yuv16_n16_within_tolerance (y u v : Nat) (hy : y < 65536) (hu : u < 65536) (hv : v < 65536) :
    yuvAll (admissible 65535) (Spec.yuv 16 y u v) (yuvTo 16 1 y u v) = true :=
  Dds.YuvErr.yuv16_n16_ok y u v hy hu hv
theorem yuv16_f32_within_tolerance (y u v : Nat) (hy : y < 65536) (hu : u < 65536) (hv : v < 65536) :
    yuvAll admissibleF32 (Spec.yuv 16 y u v) (yuvTo 16 2 y u v) = true :=
  (Dds.YuvErr.yuv16_f32_ok y u v hy hu hv).2

/-- the bound actually proved for the F32 outputs, every depth, every input: each channel is finite and within
`ε = 10·2^-24` (≈ 5.96e-7; the tolerance is `τ + 2^-24` ≈ 1.017e-6) of the ideal value -/
theorem yuv_f32_error_bound (bits y u v : Nat) (hb : bits = 8 ∨ bits = 10 ∨ bits = 16)
    (hy : y < 2 ^ bits) (hu : u < 2 ^ bits) (hv : v < 2 ^ bits) :
    yuvAll (nearF32 (10 / 16777216)) (Spec.yuv bits y u v) (yuvTo bits 2 y u v) = true := by
  rcases hb with rfl | rfl | rfl
  · exact (Dds.YuvErr.yuv8_f32_ok y u v hy hu hv).1
  · exact (Dds.YuvErr.yuv10_f32_ok y u v hy hu hv).1
  · exact (Dds.YuvErr.yuv16_f32_ok y u v hy hu hv).1

/-- SATURATION (most of the `u, v` cube): whenever the unclamped ideal value of a channel (`Spec.yuvRaw`) is at least
`1 + 2^-20` the output is exactly the maximum — 255, 65535, the float 1.0 — and whenever it is at most `−2^-20` it is
exactly 0 (the float `+0.0`), at every depth and precision, for all inputs.  (`Spec.satOk`; the margin 2^-20 covers
the proved evaluation error `10·2^-24`.) -/
theorem yuv_saturation (bits prec y u v : Nat) (hb : bits = 8 ∨ bits = 10 ∨ bits = 16) (hp : prec < 3)
    (hy : y < 2 ^ bits) (hu : u < 2 ^ bits) (hv : v < 2 ^ bits) :
    yuvAll (satOk prec) (Spec.yuvRaw bits y u v) (yuvTo bits prec y u v) = true := by
  have hp' : prec = 0 ∨ prec = 1 ∨ prec = 2 := by omega
  rcases hb with rfl | rfl | rfl
  · obtain ⟨s2, s1, s0⟩ := Dds.YuvErr.yuv8_sat y u v (by omega) (by omega) (by omega)
    rcases hp' with rfl | rfl | rfl
    · exact s0
    · exact s1
    · exact s2
  · obtain ⟨s2, s1, s0⟩ := Dds.YuvErr.yuv10_sat y u v (by omega) (by omega) (by omega)
    rcases hp' with rfl | rfl | rfl
    · exact s0
    · exact s1
    · exact s2
  · obtain ⟨s2, s1, s0⟩ := Dds.YuvErr.yuv16_sat y u v (by omega) (by omega) (by omega)
    rcases hp' with rfl | rfl | rfl
    · exact s0
    · exact s1
    · exact s2
example : yuvTo 8 2 255 255 255 = [one, 1056673386, one] ∧ yuvTo 8 2 0 0 0 = [0, 1057495908, 0] ∧
    Spec.yuvRaw 8 255 255 255 = (240491483 / 127500000, 125286827 / 255000000, 178158667 / 85000000) ∧
    Spec.yuvRaw 8 0 0 0 = (-13932599 / 15937500, 8473457 / 15937500, -5767413 / 5312500) ∧
    (1 + 1 / 1048576 ≤ (Spec.yuvRaw 8 255 255 255).1) ∧ ((Spec.yuvRaw 8 0 0 0).1 ≤ -(1 / 1048576)) ∧
    Spec.yuv 8 255 255 255 = (clamp01 (Spec.yuvRaw 8 255 255 255).1, clamp01 (Spec.yuvRaw 8 255 255 255).2.1,
      clamp01 (Spec.yuvRaw 8 255 255 255).2.2) := by decide +kernel

/-- the statement behind them — the standard model of floating-point arithmetic, proved for the software binary32: on
finite operands whose exact result `v` lies in `(−2^E, 2^E)` (`E ≤ 127`, so no overflow) each of `a * b`, `a + b`,
`a − b` is finite and within `2^(E−25)` (half an ulp of the binade below `2^E`) of `v` -/
theorem f32_ops_standard_model (a b E : Nat) (ha : Dds.F32Err.FinP a) (hb : Dds.F32Err.FinP b) (hE : E ≤ 127) :
    (-((2 ^ E : Nat) : Rat) < toRat a * toRat b → toRat a * toRat b < ((2 ^ E : Nat) : Rat) →
      Dds.F32Err.FinP (fmul a b) ∧ Dds.F32Err.Near (toRat (fmul a b)) (toRat a * toRat b) (((2 ^ E : Nat) : Rat) / 33554432)) ∧
    (-((2 ^ E : Nat) : Rat) < toRat a + toRat b → toRat a + toRat b < ((2 ^ E : Nat) : Rat) →
      Dds.F32Err.FinP (fadd a b) ∧ Dds.F32Err.Near (toRat (fadd a b)) (toRat a + toRat b) (((2 ^ E : Nat) : Rat) / 33554432)) ∧
    (-((2 ^ E : Nat) : Rat) < toRat a - toRat b → toRat a - toRat b < ((2 ^ E : Nat) : Rat) →
      Dds.F32Err.FinP (fsub a b) ∧ Dds.F32Err.Near (toRat (fsub a b)) (toRat a - toRat b) (((2 ^ E : Nat) : Rat) / 33554432)) :=
  ⟨fun h1 h2 => Dds.F32Err.fmul_ulp a b ha hb E _ hE rfl h1 h2, fun h1 h2 => Dds.F32Err.fadd_ulp a b ha hb E _ hE rfl h1 h2,
    fun h1 h2 => Dds.F32Err.fsub_ulp a b ha hb E _ hE rfl h1 h2⟩
example : Dds.F32Err.FinP 0x3F950A81 ∧ Dds.F32Err.FinP 0xC3000000 ∧ toRat 0x3F950A81 * toRat 0xC3000000 < ((2 ^ 8 : Nat) : Rat) ∧
    -((2 ^ 8 : Nat) : Rat) < toRat 0x3F950A81 * toRat 0xC3000000 := by decide +kernel

/-- and for the specification function itself: `roundF32 q` ("the nearest binary32 of `q`", the right-hand side of the
`…_exact` / `…_eq_spec` theorems above) of ANY rational in the normal range `2^-126 ≤ |q| < 2^127` is a finite binary32
within the relative error `2^-24` of `q` -/
theorem roundF32_relative_error (q : Rat) (hlo : 1 ≤ q.abs * ((2 ^ 126 : Nat) : Rat)) (hhi : q.abs < ((2 ^ 127 : Nat) : Rat)) :
    Dds.F32Err.FinP (roundF32 q) ∧ Dds.F32Err.Near (toRat (roundF32 q)) q (q.abs / 16777216) :=
  Dds.F32Err.roundF32_rel q hlo hhi
example : (1 : Rat) ≤ (1 / 3 : Rat).abs * ((2 ^ 126 : Nat) : Rat) ∧ (1 / 3 : Rat).abs < ((2 ^ 127 : Nat) : Rat) ∧
    roundF32 (1 / 3) = 0x3EAAAAAB ∧ toRat 0x3EAAAAAB - 1 / 3 = 1 / 100663296 := by decide +kernel

/-- non-vacuity / special values: black (`y = 16`, `u = v = 128` resp. the 10/16-bit offsets) is exactly 0 at every
precision; nominal white (`y = 235`: ideal 254.999877/255) gives the maximum codes and the float `0x3F7FFFFA`
(0.99999964, ideal 0.99999952); saturated corners; a tolerance-free check of three values against the specification -/
example : yuvTo 8 0 16 128 128 = [0, 0, 0] ∧ yuvTo 8 1 16 128 128 = [0, 0, 0] ∧ yuvTo 8 2 16 128 128 = [0, 0, 0] ∧
    yuvTo 10 2 64 512 512 = [0, 0, 0] ∧ yuvTo 16 1 4096 32768 32768 = [0, 0, 0] ∧ Spec.yuv 8 16 128 128 = (0, 0, 0) ∧
    yuvTo 8 0 235 128 128 = [255, 255, 255] ∧ yuvTo 8 1 235 128 128 = [65535, 65535, 65535] ∧
    yuvTo 8 2 235 128 128 = [0x3F7FFFFA, 0x3F7FFFFA, 0x3F7FFFFA] ∧
    Spec.yuv 8 235 128 128 = (84999959 / 85000000, 84999959 / 85000000, 84999959 / 85000000) ∧
    yuvTo 8 0 0 0 0 = [0, 136, 0] ∧ yuvTo 8 0 255 255 255 = [255, 125, 255] ∧
    yuvTo 16 1 65535 0 65535 = [65535, 57737, 5438] ∧ yuvTo 8 0 81 90 240 = [254, 0, 0] ∧
    Spec.yuv 8 81 90 240 = (254439919 / 255000000, 0, 0) := by decide +kernel
example : yuvAll (admissible 255) (Spec.yuv 8 81 90 240) [254, 0, 0] = true ∧
    yuvAll (admissible 255) (Spec.yuv 8 81 90 240) [253, 0, 0] = false ∧
    yuvAll admissibleF32 (Spec.yuv 8 235 128 128) [0x3F7FFFFA, 0x3F7FFFFA, 0x3F7FFFFA] = true ∧
    yuvAll admissibleF32 (Spec.yuv 8 235 128 128) [0x3F7FFF00, 0x3F7FFFFA, 0x3F7FFFFA] = false ∧
    yuvAll admissibleF32 (Spec.yuv 8 235 128 128) [0x3F7FFFFA, 0x3F7FFFFA] = false := by decide +kernel


end Dds.C04
