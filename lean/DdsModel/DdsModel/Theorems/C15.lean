/-
C15 — Encoding is total: any pixel data, geometry and options give bytes or a documented error.

Proved here, about the model `EncTotal.lean` (tied to the code by the differential run):

* `size_rule`, `size_multiple_table`, `unsupported_refused` — which calls are refused, and that a
  refusal happens before the first `write_all`;
* `write_fault_general`, `write_fault_is_io_error`, `no_fault_ok` — a writer that fails at byte
  `k` gives an I/O error exactly when `k` is below the encoded length (for every family, size,
  writer loop and `k`), otherwise `Ok` with exactly the layout length;
* `quantiser_range_*`, `packing_cannot_overflow`, `packed_formats_fit` — every scalar quantiser
  of src/color/formats.rs stays within its bit field for EVERY input including NaN and the
  infinities, so no shift of the packing pushes a bit out or into a neighbouring field;
* `quantiser_range_shared_exp`, `shared_exp_zero_sign_irrelevant`, `shared_exp_channel_bounds`,
  `shared_exp_scaling_exact` —
  R9G9B9E5 (`rgb9995f::from_f32`) at the bit level, on binary32 bit patterns with a software
  binary32 (no assumption on the rounding): for EVERY triple of patterns no `debug_assert!`
  fails, the mantissas are at most 511, the exponent at most 31, the word is the 9+9+9+5 packing;
* `quantiser_range_unorm_bits`, `packed_formats_fit_bits` — the binary32 quantisers
  `n1, n2, n4, n5, n6, n10::from_f32`, `s8::from_uf32` and the packed formats built from them, again
  on bit patterns with the software binary32: the rounding hypotheses of `quantiser_range_unorm`,
  `quantiser_range_snorm` (8 bit) and `packed_formats_fit` are discharged for binary32;
* `quantiser_range_snorm16_bits`, `s16_from_uf32_exact`, `s16_encodes_nearest`,
  `snorm16_formats_fit_bits` — `s16::from_uf32`, the one quantiser that computes in **binary64**
  (`x.min(1.0) as f64 * 65534.0 + 0.5`), on binary32 bit patterns with the software binary64 of
  `ConvF64.lean`: no pattern makes `norm + 1` overflow; the binary64 evaluation is exact, so
  `norm = ⌊clamp(v)·65534 + 1/2⌋` and the stored code is `Quant.sencode 16` (C12's specification)
  of the value, within half a SNORM16 step of the clamped input; R16_SNORM, R16G16_SNORM and
  R16G16B16A16_SNORM encode every pixel to exactly the 16-bit field packing;
* `refine_loops_bounded` — the only data-dependent loop of the block encoders runs at most
  `max_iter` times, and `max_iter ≤ 10` at every quality;
* `empty_image_ok` — empty images give `Ok` and not a single byte, in every family, even with
  a writer that accepts nothing.

NOT proved (explored by the harness under `catch_unwind` + watchdog in both build profiles):
panic-freedom of the float bodies of the BC1/BC4/BC7 block encoders, of the dithering error
diffusion and of the pixel readers.  The check is therefore `partial` with respect to the
property's "never panics" clause.
-/
import DdsModel.Proofs.TrapMipWrite
import DdsModel.Proofs.EncTotal
import DdsModel.Proofs.EncQuant
import DdsModel.Proofs.SharedExp
import DdsModel.Proofs.SharedExpTie
import DdsModel.Proofs.QuantBits
import DdsModel.Proofs.QuantBits64
import DdsModel.Proofs.TrapEncSplit
import DdsModel.Proofs.FormatTables
import DdsModel.TrapEncSeeds
import DdsModel.Proofs.EncBcSitesQ
namespace Dds.C15
open Dds Dds.EncTotal

/-! ### which calls are refused -/

/-- **Size rule.** For every encodable format of the table, every writer loop, every size and
every writer: the call is refused with `InvalidSize` exactly when
`EncodingSupport::supports_size` refuses the (normalised) size; a refusal has written nothing
and its trace contains no write; and in every trace the check precedes all writes. -/
theorem size_rule (r : Row) (hr : r ∈ table) (he : r.encodable = true) (lp : Loop) (w h : Nat)
    (fault : Option Nat) :
    ((encode r lp w h fault).res = .invalidSize ↔
        r.supportsSize (normView w h).1 (normView w h).2 = false) ∧
    ((encode r lp w h fault).res = .invalidSize →
        (encode r lp w h fault).bytes = 0 ∧ noWrite (encode r lp w h fault).trace = true) ∧
    checkFirst (encode r lp w h fault).trace = true := by
  have hg := good_of_mem hr
  unfold Row.good at hg
  unfold encode
  simp only [he, Bool.not_true, Bool.false_eq_true, if_false]
  generalize normView w h = s
  obtain ⟨w', h'⟩ := s
  cases hpx : r.px with
  | fixed bpp =>
    rw [hpx] at hg
    simp only [Bool.and_eq_true, decide_eq_true_eq] at hg
    have hs : r.supportsSize w' h' = true := by
      unfold Row.supportsSize; rw [hg.1, hg.2]; simp [Nat.mod_one]
    have hne : (runWrites fault (writes (PixelInfo.fixed bpp) lp w' h')).1 ≠ .invalidSize := by
      cases runWrites_res fault (writes (PixelInfo.fixed bpp) lp w' h') with
      | inl h => rw [h]; decide
      | inr h => rw [h]; decide
    refine ⟨?_, ?_, ?_⟩
    · simp only [hs]; constructor
      · intro h; exact absurd h hne
      · intro h; cases h
    · intro h; exact absurd h hne
    · exact checkFirst_of_no_check _ (performed_no_check _ _)
  | block bytes bw bh =>
    rw [hpx] at hg
    simp only [Bool.and_eq_true, decide_eq_true_eq] at hg
    have hs : r.supportsSize w' h' = true := by
      unfold Row.supportsSize; rw [hg.1.2, hg.2]; simp [Nat.mod_one]
    have hne : (runWrites fault (writes (PixelInfo.block bytes bw bh) lp w' h')).1 ≠ .invalidSize := by
      cases runWrites_res fault (writes (PixelInfo.block bytes bw bh) lp w' h') with
      | inl h => rw [h]; decide
      | inr h => rw [h]; decide
    refine ⟨?_, ?_, ?_⟩
    · simp only [hs]; constructor
      · intro h; exact absurd h hne
      · intro h; cases h
    · intro h; exact absurd h hne
    · exact checkFirst_of_no_check _ (performed_no_check _ _)
  | biPlanar p1 p2 sx sy =>
    rw [hpx] at hg
    simp only [Bool.and_eq_true, decide_eq_true_eq] at hg
    have hsup : r.supportsSize w' h' = !biPlanarRefuses w' h' := by
      unfold Row.supportsSize biPlanarRefuses
      rw [hg.1.2, hg.2]
      by_cases a : w' % 2 = 0 <;> by_cases b : h' % 2 = 0 <;> simp [a, b]
    by_cases hc : biPlanarRefuses w' h' = true
    · simp only [hc, if_true]
      refine ⟨?_, ?_, ?_⟩
      · rw [hsup, hc]; simp
      · intro _; constructor <;> first | rfl | trivial
      · rfl
    · simp only [hc]
      have hne : (runWrites fault (writes (PixelInfo.biPlanar p1 p2 sx sy) lp w' h')).1 ≠
          .invalidSize := by
        cases runWrites_res fault (writes (PixelInfo.biPlanar p1 p2 sx sy) lp w' h') with
        | inl h => rw [h]; decide
        | inr h => rw [h]; decide
      have hc' : biPlanarRefuses w' h' = false := by simpa using hc
      refine ⟨?_, ?_, ?_⟩
      · rw [hsup, hc']; constructor
        · intro h; exact absurd h hne
        · intro h; cases h
      · intro h; exact absurd h hne
      · show checkFirst (.check :: performed fault _) = true
        simp only [checkFirst]
        exact checkFirst_of_no_check _ (performed_no_check _ _)

/-- the formats with a size multiple are exactly NV12, P010, P016, all 2x2; 57 formats are
encodable, 16 are not (BC6H and ASTC) -/
theorem size_multiple_table :
    ((table.filter fun r => r.mulW ≠ 1 || r.mulH ≠ 1).map fun r => (r.name, r.mulW, r.mulH)) =
      [("NV12", 2, 2), ("P010", 2, 2), ("P016", 2, 2)] ∧
    table.length = 73 ∧ (table.filter (·.encodable)).length = 57 ∧
    ((table.filter fun r => !r.encodable).map (·.name)) =
      ["BC6H_UF16", "BC6H_SF16", "ASTC_4X4_UNORM", "ASTC_5X4_UNORM", "ASTC_5X5_UNORM",
       "ASTC_6X5_UNORM", "ASTC_6X6_UNORM", "ASTC_8X5_UNORM", "ASTC_8X6_UNORM", "ASTC_8X8_UNORM",
       "ASTC_10X5_UNORM", "ASTC_10X6_UNORM", "ASTC_10X8_UNORM", "ASTC_10X10_UNORM",
       "ASTC_12X10_UNORM", "ASTC_12X12_UNORM"] := by
  decide

/-- a format without encoders is refused before anything happens, whatever the arguments -/
theorem unsupported_refused (r : Row) (he : r.encodable = false) (lp : Loop) (w h : Nat)
    (fault : Option Nat) : encode r lp w h fault = ⟨.unsupportedFormat, 0, []⟩ := by
  unfold encode
  simp [he]

/-! ### a writer failing at byte `k` -/

/-- **`write_all` semantics, all size lists.** A sequence of `write_all` calls of sizes `l`
against a writer that accepts `k` bytes: I/O error iff `k < Σ l`; the writer has accepted
`min k (Σ l)` bytes; `Ok` iff `Σ l ≤ k`. -/
theorem write_fault_general (l : List Nat) (k : Nat) :
    ((runWrites (some k) l).1 = .ioError ↔ k < l.sum) ∧
    ((runWrites (some k) l).1 = .ok ↔ l.sum ≤ k) ∧
    (runWrites (some k) l).2 = min k l.sum := by
  by_cases h : l.sum ≤ k
  · rw [runWrites_ok l k h]
    refine ⟨⟨fun e => (by cases e), fun e => (by omega)⟩, ⟨fun _ => h, fun _ => rfl⟩, ?_⟩
    show l.sum = min k l.sum
    omega
  · rw [runWrites_fail l k (by omega)]
    refine ⟨⟨fun _ => (by omega), fun _ => rfl⟩, ⟨fun e => (by cases e), fun e => absurd e h⟩, ?_⟩
    show k = min k l.sum
    omega

/-- **Writer fault, instantiated with the writer loops of every family.** For every encodable
format, every writer loop, every supported size and every `k`: below the encoded length the
result is the I/O error and the writer holds exactly the `k`-byte prefix; from the encoded
length on the result is `Ok` with exactly the layout length `surface_bytes`. -/
theorem write_fault_is_io_error (r : Row) (hr : r ∈ table) (he : r.encodable = true) (lp : Loop)
    (hl : lp.ok = true) (w h k : Nat)
    (hs : r.supportsSize (normView w h).1 (normView w h).2 = true) :
    (k < r.px.surfIdeal (normView w h).1 (normView w h).2 →
      (encode r lp w h (some k)).res = .ioError ∧ (encode r lp w h (some k)).bytes = k) ∧
    (r.px.surfIdeal (normView w h).1 (normView w h).2 ≤ k →
      (encode r lp w h (some k)).res = .ok ∧
      (encode r lp w h (some k)).bytes = r.px.surfIdeal (normView w h).1 (normView w h).2) := by
  obtain ⟨e1, e2⟩ := encode_eq_runWrites r hr he lp w h (some k) hs
  have hsum := writes_sum r (good_of_mem hr) lp hl _ _ hs
  rw [e1, e2]
  constructor
  · intro hk
    rw [runWrites_fail _ k (by rw [hsum]; exact hk)]
    exact ⟨rfl, rfl⟩
  · intro hk
    rw [runWrites_ok _ k (by rw [hsum]; exact hk), hsum]
    exact ⟨rfl, rfl⟩

/-- without a fault every supported call is `Ok` with exactly the layout length -/
theorem no_fault_ok (r : Row) (hr : r ∈ table) (he : r.encodable = true) (lp : Loop)
    (hl : lp.ok = true) (w h : Nat)
    (hs : r.supportsSize (normView w h).1 (normView w h).2 = true) :
    (encode r lp w h none).res = .ok ∧
    (encode r lp w h none).bytes = r.px.surfIdeal (normView w h).1 (normView w h).2 := by
  obtain ⟨e1, e2⟩ := encode_eq_runWrites r hr he lp w h none hs
  rw [e1, e2, runWrites_none, writes_sum r (good_of_mem hr) lp hl _ _ hs]
  exact ⟨rfl, rfl⟩

/-! ### empty images -/

/-- **Empty images.** `w = 0` or `h = 0`: every encodable format (the repaired bi-planar path
included) returns `Ok` and the writer receives no byte — every `write_all` of the trace is
empty — even if the writer accepts nothing at all (`fault = some 0`). -/
theorem empty_image_ok (r : Row) (hr : r ∈ table) (he : r.encodable = true) (lp : Loop)
    (hl : lp.ok = true) (w h : Nat) (hwh : w = 0 ∨ h = 0) (fault : Option Nat) :
    (encode r lp w h fault).res = .ok ∧ (encode r lp w h fault).bytes = 0 ∧
    (∀ s ∈ writes r.px lp 0 0, s = 0) := by
  have hn : normView w h = (0, 0) := by unfold normView; rw [if_pos hwh]
  have hs : r.supportsSize (normView w h).1 (normView w h).2 = true := by
    rw [hn]; unfold Row.supportsSize; simp
  have hs0 : r.supportsSize 0 0 = true := by unfold Row.supportsSize; simp
  have hi : r.px.surfIdeal 0 0 = 0 := by
    have hg := good_of_mem hr
    unfold Row.good at hg
    cases hpx : r.px with
    | fixed bpp => simp [PixelInfo.surfIdeal]
    | block bytes bw bh =>
      rw [hpx] at hg
      simp only [Bool.and_eq_true, decide_eq_true_eq] at hg
      have : (bw - 1) / bw = 0 := Nat.div_eq_of_lt (by omega)
      simp [PixelInfo.surfIdeal, this]
    | biPlanar p1 p2 sx sy =>
      rw [hpx] at hg
      simp only [Bool.and_eq_true, decide_eq_true_eq] at hg
      obtain ⟨⟨⟨hx, hy⟩, _⟩, _⟩ := hg
      subst hx; subst hy
      simp [PixelInfo.surfIdeal]
  have hsum := writes_sum r (good_of_mem hr) lp hl 0 0 hs0
  rw [hi] at hsum
  refine ⟨?_, ?_, sum_zero_all_zero _ hsum⟩
  · cases fault with
    | none => exact (no_fault_ok r hr he lp hl w h hs).1
    | some k =>
      have := (write_fault_is_io_error r hr he lp hl w h k hs).2
      rw [hn] at this
      exact (this (by show r.px.surfIdeal 0 0 ≤ k; omega)).1
  · cases fault with
    | none =>
      have := (no_fault_ok r hr he lp hl w h hs).2
      rw [hn] at this; rw [this]; exact hi
    | some k =>
      have := (write_fault_is_io_error r hr he lp hl w h k hs).2
      rw [hn] at this
      rw [(this (by show r.px.surfIdeal 0 0 ≤ k; omega)).2]; exact hi

/-! ### quantisers: every input, NaN and the infinities included -/

/-- **UNORM with `min(1.0)`** (`n2, n4, n5, n6, n10::from_f32`, `MAX = 2^n − 1`, also the SNORM
`norm`): `(x.min(1.0) * MAX + 0.5) as uN ≤ MAX` for every extended-real input and every rounding
that is monotone and represents `MAX` and `MAX + 0.5` (binary32 does for `MAX ≤ 2^23`).
`n1::from_f32` gives 0 or 1. -/
theorem quantiser_range_unorm (R : Rounding) (x : ExtReal) :
    qN1 x ≤ 1 ∧
    ∀ max ty : Nat, R.fixes max → R.fixes (max + 1/2) → qUnormMin R max ty x ≤ max :=
  ⟨qN1_le x, fun max ty h1 h2 => qUnormMin_le R max ty x h1 h2⟩

/-- **UNORM without a clamp** (`n8, n16::from_f32`, `fp::n8`, `fp::n16`): the saturating cast alone
keeps `(x * MAX + 0.5) as uN` within `N` bits, for every input and every rounding. -/
theorem quantiser_range_unorm_sat (R : Rounding) (max ty : Nat) (x : ExtReal) :
    qUnormSat R max ty x < 2 ^ ty := qUnormSat_lt R max ty x

/-- **SNORM** (`s8::from_uf32`, `s16::from_uf32`): `norm ≤ 2^n − 2`, hence `norm + 1` does not
overflow the integer type (no panic in the checked profile) and the result fits `n` bits. -/
theorem quantiser_range_snorm (R : Rounding) (bits : Nat) (hb : 2 ≤ bits) (x : ExtReal)
    (h1 : R.fixes ((2 ^ bits - 2 : Nat) : Rat)) (h2 : R.fixes (((2 ^ bits - 2 : Nat) : Rat) + 1/2)) :
    ∃ v, qSnorm R bits x = some v ∧ v < 2 ^ bits := qSnorm_some R bits hb x h1 h2

/-- **XR bias and YUV**: `xr10` and the 10-bit YUV components are at most 1023, the 8/16-bit
YUV components fit their types — for every input, also when the matrix row evaluates to
NaN (`∞ − ∞`). -/
theorem quantiser_range_xr_yuv (R : Rounding) (row : YuvRow) (x r g b : ExtReal) :
    qXr10 R x ≤ 1023 ∧ qYuv8 R row r g b < 256 ∧ qYuv10 R row r g b ≤ 1023 ∧
    qYuv16 R row r g b < 65536 :=
  ⟨qXr10_le R x, qYuv8_lt R row r g b, qYuv10_le R row r g b, qYuv16_lt R row r g b⟩

/-- **11/10-bit floats** (`f32_to_unsigned_fp_e5`): whatever half-precision pattern the
conversion produced, `(exp << n) | mant` fits `n + 5` bits. -/
theorem quantiser_range_small_float (f16 : Nat) :
    fpE5 6 f16 < 2 ^ 11 ∧ fpE5 5 f16 < 2 ^ 10 :=
  ⟨fpE5_lt 6 (by omega) f16, fpE5_lt 5 (by omega) f16⟩

/-- **R9G9B9E5, every input** (`rgb9995f::from_f32` with `util::clamp_0_max`, `util::two_powi`;
model `SharedExp.fields` / `SharedExp.fromF32` on binary32 bit patterns, every `f32` operator one
correctly rounded operation of `ConvF32.lean`).  For every triple of bit patterns — NaN of any
payload, the infinities, negative values, both zeros, subnormals, huge values; `r g b` are not
even required to be below `2^32` — and every choice `tie` of the zero that `f32::max` returns on a
`-0.0`/`+0.0` tie at each of its five call sites:
* the model answers `some`: neither `debug_assert!(exp <= 31)`, nor the three
  `debug_assert!(x_mant <= 511)`, nor the assertion inside `two_powi`, nor an `i8` overflow in
  `-(exp as i8 - 24)` can fire (so the checked and the release profile compute the same word);
* `r_mant, g_mant, b_mant ≤ 511` and `exp ≤ 31`;
* the returned `u32` is exactly the field packing `pack` of 9 + 9 + 9 + 5 bits: no `<<` drops or
  overlaps a bit. -/
theorem quantiser_range_shared_exp (tie : Nat → Bool) (r g b : Nat) :
    ∃ rm gm bm e, SharedExp.fields tie r g b = some (rm, gm, bm, e) ∧
      rm ≤ 511 ∧ gm ≤ 511 ∧ bm ≤ 511 ∧ e ≤ 31 ∧
      SharedExp.fromF32 tie r g b = some (pack [(rm, 9), (gm, 9), (bm, 9), (e, 5)]) ∧
      pack [(rm, 9), (gm, 9), (bm, 9), (e, 5)] < 2 ^ 32 :=
  SharedExp.fromF32_range tie r g b

/-- **R9G9B9E5: the sign of zero never reaches the result.**  Rust documents that `f32::max`
may return either operand when `-0.0` meets `+0.0`; the model leaves that choice open at each of
the five `max` calls (`tie`).  Whatever is chosen, the fields and the encoded word are the same —
so the one choice the differential driver runs speaks for all. -/
theorem shared_exp_zero_sign_irrelevant (tie tie' : Nat → Bool) (r g b : Nat) :
    SharedExp.fields tie r g b = SharedExp.fields tie' r g b ∧
    SharedExp.fromF32 tie r g b = SharedExp.fromF32 tie' r g b :=
  ⟨SharedExp.fields_tie_irrelevant tie tie' r g b, SharedExp.fromF32_tie_irrelevant tie tie' r g b⟩

/-- **R9G9B9E5, the mechanism, per channel.**  `c` is a clamped non-zero channel (a pattern in
`[1, 0x477F8000]`, i.e. a positive value up to 65408.0, subnormals included) whose exponent field
is at most `exp + 111` — true of every channel when `exp = max(raw_exp − 111, 0)` is computed from
the exponent field `raw_exp` of the largest channel.  Then
* first pass: `(c * 2^(24−exp) + 0.5) as u32 ≤ 512` (the scaled value is below 512, the product is
  rounded to at most 512.0, the sum to at most 512.5);
* second pass, after `exp += 1`: at most 256 — a 512 never survives;
* `exp = 31`: at most 511 already in the first pass (65408 · 2^-7 = 511, the sum is at most 511.5),
  so the second pass is not entered there and `exp` never becomes 32.
A zero channel (either sign) has mantissa 0 at every scale. -/
theorem shared_exp_channel_bounds (c exp : Nat) (hc1 : 1 ≤ c) (hc2 : c ≤ SharedExp.c65408)
    (he : exp ≤ 31) (hX : CF32.expField c ≤ exp + 111) :
    SharedExp.mantOf c (CF32.twoPowi (24 - exp)) ≤ 512 ∧
    SharedExp.mantOf c (CF32.twoPowi (24 - ((exp + 1 : Nat) : Int))) ≤ 256 ∧
    (exp = 31 → SharedExp.mantOf c (CF32.twoPowi (24 - exp)) ≤ 511) ∧
    (∀ n : Int, -126 ≤ n → n ≤ 127 → SharedExp.mantOf 0 (CF32.twoPowi n) = 0 ∧
      SharedExp.mantOf CF32.signBit (CF32.twoPowi n) = 0) := by
  refine ⟨SharedExp.mantOf_le_first c exp hc1 hc2 he hX,
    SharedExp.mantOf_le_second c (exp + 1) hc1 hc2 (by omega) (by omega), ?_, ?_⟩
  · intro h31
    subst h31
    exact SharedExp.mantOf_le_top c hc1 hc2
  · intro n h1 h2
    exact ⟨SharedExp.mantOf_zero 0 n (Or.inl rfl) h1 h2,
      SharedExp.mantOf_zero CF32.signBit n (Or.inr rfl) h1 h2⟩

/-- **What is used of binary32 multiplication: scaling by a power of two.**  `c * two_powi(n)`
for a positive finite `c` is ONE rounding of the exact product (`roundPack`, round to nearest
even with gradual underflow); when `c` is normal and the result is in the normal range it is
EXACT — the exponent field moves by `n`, the fraction bits are untouched — and in every case
(subnormal `c`, underflow of the result) it is at most the pattern of the power of two
`2^(K+1)` above the exact product.  Nothing is assumed: these are theorems about the software
binary32 that the differential run ties to the hardware. -/
theorem shared_exp_scaling_exact (c : Nat) (n : Int) (hc : c < CF32.posInf) (h1 : -126 ≤ n)
    (h2 : n ≤ 127) :
    CF32.fmul c (CF32.twoPowi n) =
      CF32.roundPack false (CF32.mant c * 2 ^ 23) (CF32.expo c + (n - 23)) ∧
    (1 ≤ CF32.expField c → 1 ≤ (CF32.expField c : Int) + n → (CF32.expField c : Int) + n ≤ 254 →
      CF32.fmul c (CF32.twoPowi n) =
        ((CF32.expField c : Int) + n).toNat * 2 ^ 23 + CF32.fracField c) ∧
    (∀ K : Int, CF32.mant c ≠ 0 → (CF32.expField c : Int) + n - 127 ≤ K → -127 ≤ K →
      CF32.fmul c (CF32.twoPowi n) ≤ (K + 128).toNat * 2 ^ 23) :=
  ⟨SharedExp.fmul_twoPowi c n hc h1 h2,
   fun hX hr1 hr2 => SharedExp.fmul_twoPowi_exact c n hc h1 h2 hX hr1 hr2,
   fun K hc0 hK hK2 => SharedExp.fmul_twoPowi_le c n K hc hc0 h1 h2 hK hK2⟩

/-- **R9G9B9E5 for any monotone rounding** (the earlier, abstract form; kept because it does not
depend on binary32: it also covers an evaluation in higher precision).  A channel whose scaled
value `c · 2^(24−exp)` is at most 512 gets a mantissa of at most 512, at most 256 gives at most
256, and with `exp = 31` the clamp to 65408 gives at most 511.  That the exponent read from the
bits of the largest channel makes every scaled value `< 512` is the bit-level step proved in
`quantiser_range_shared_exp` / `shared_exp_channel_bounds`. -/
theorem quantiser_range_shared_exp_any_rounding (R : Rounding) (exp : Nat) (c : Rat)
    (h512 : R.fixes (512 + 1/2)) (h256 : R.fixes (256 + 1/2)) (h511 : R.fixes (511 + 1/2)) :
    (c * (2 : Rat) ^ ((24 : Int) - exp) ≤ 512 → mant9995 R exp c ≤ 512) ∧
    (c * (2 : Rat) ^ ((24 : Int) - exp) ≤ 256 → mant9995 R exp c ≤ 256) ∧
    (exp = 31 → c ≤ 65408 → mant9995 R exp c ≤ 511) := by
  refine ⟨fun h => mant9995_le R exp c 512 512 h (by grind) h512,
          fun h => mant9995_le R exp c 256 256 h (by grind) h256, ?_⟩
  intro he hc
  subst he
  have e : (2 : Rat) ^ ((24 : Int) - (31 : Nat)) = 1 / 128 := by decide +kernel
  refine mant9995_le R 31 c 511 511 ?_ (by grind) h511
  rw [e]
  grind

/-- **The binary32 UNORM / SNORM8 quantisers, every bit pattern, no rounding hypothesis.**
`n1::from_f32` (`x >= 0.5`), `n2, n4, n5, n6, n10::from_f32` (`(x.min(1.0) * MAX + 0.5) as u8|u16`
with the literals 3.0, 15.0, 31.0, 63.0, 1023.0) and `s8::from_uf32` (254.0, then `from_norm`) on
binary32 bit patterns, every operator one correctly rounded operation of `ConvF32.lean`: for
EVERY pattern `x` (NaN of any payload and sign, ±∞, both zeros, negative, subnormal, huge) the
result is at most `MAX`; in `s8::from_norm` the `debug_assert!(x <= 254)` holds and `x + 1` does
not overflow `u8`.  This is `quantiser_range_unorm` / `quantiser_range_snorm` (8 bit) with the
hypotheses `R.fixes MAX`, `R.fixes (MAX + ½)` discharged for binary32.  (`s16::from_uf32`
computes in `f64`: `quantiser_range_snorm16_bits` below.) -/
theorem quantiser_range_unorm_bits (x : Nat) (hx : x < 2 ^ 32) :
    QuantBits.n1 x ≤ 1 ∧ QuantBits.n2 x ≤ 3 ∧ QuantBits.n4 x ≤ 15 ∧ QuantBits.n5 x ≤ 31 ∧
    QuantBits.n6 x ≤ 63 ∧ QuantBits.n10 x ≤ 1023 ∧ ∃ v, QuantBits.s8 x = some v ∧ v < 2 ^ 8 :=
  ⟨QuantBits.n1_le x, QuantBits.n2_le x hx, QuantBits.n4_le x hx, QuantBits.n5_le x hx,
   QuantBits.n6_le x hx, QuantBits.n10_le x hx, QuantBits.s8_some x hx⟩

/-- **The packed formats made of these quantisers, every RGBA `f32` pixel** (the `universal!`
closures of src/encode/uncompressed.rs with their `u16` / `u32` shifts, which silently drop bits
shifted past the type): B5G6R5, B5G5R5A1, B4G4R4A4, A4B4G4R4, R10G10B10A2 and R8G8B8A8_SNORM
encode every pixel to exactly the field packing `pack` — no shift drops a bit, no field reaches
into its neighbour — and the word fits 16 / 32 bits; for R8G8B8A8_SNORM no channel panics.
`packed_formats_fit` for these formats without any hypothesis on the rounding. -/
theorem packed_formats_fit_bits (r g b a : Nat) (hr : r < 2 ^ 32) (hg : g < 2 ^ 32)
    (hb : b < 2 ^ 32) (ha : a < 2 ^ 32) :
    (QuantBits.encode "B5G6R5_UNORM" r g b a =
        some (pack [(QuantBits.n5 b, 5), (QuantBits.n6 g, 6), (QuantBits.n5 r, 5)]) ∧
      pack [(QuantBits.n5 b, 5), (QuantBits.n6 g, 6), (QuantBits.n5 r, 5)] < 2 ^ 16) ∧
    (QuantBits.encode "B5G5R5A1_UNORM" r g b a =
        some (pack [(QuantBits.n5 b, 5), (QuantBits.n5 g, 5), (QuantBits.n5 r, 5), (QuantBits.n1 a, 1)]) ∧
      pack [(QuantBits.n5 b, 5), (QuantBits.n5 g, 5), (QuantBits.n5 r, 5), (QuantBits.n1 a, 1)] < 2 ^ 16) ∧
    (QuantBits.encode "B4G4R4A4_UNORM" r g b a =
        some (pack [(QuantBits.n4 b, 4), (QuantBits.n4 g, 4), (QuantBits.n4 r, 4), (QuantBits.n4 a, 4)]) ∧
      pack [(QuantBits.n4 b, 4), (QuantBits.n4 g, 4), (QuantBits.n4 r, 4), (QuantBits.n4 a, 4)] < 2 ^ 16 ∧
      QuantBits.encode "A4B4G4R4_UNORM" r g b a =
        some (pack [(QuantBits.n4 a, 4), (QuantBits.n4 b, 4), (QuantBits.n4 g, 4), (QuantBits.n4 r, 4)]) ∧
      pack [(QuantBits.n4 a, 4), (QuantBits.n4 b, 4), (QuantBits.n4 g, 4), (QuantBits.n4 r, 4)] < 2 ^ 16) ∧
    (QuantBits.encode "R10G10B10A2_UNORM" r g b a =
        some (pack [(QuantBits.n10 r, 10), (QuantBits.n10 g, 10), (QuantBits.n10 b, 10), (QuantBits.n2 a, 2)]) ∧
      pack [(QuantBits.n10 r, 10), (QuantBits.n10 g, 10), (QuantBits.n10 b, 10), (QuantBits.n2 a, 2)] < 2 ^ 32) ∧
    (∃ r' g' b' a', QuantBits.s8 r = some r' ∧ QuantBits.s8 g = some g' ∧ QuantBits.s8 b = some b' ∧
      QuantBits.s8 a = some a' ∧
      QuantBits.encode "R8G8B8A8_SNORM" r g b a = some (pack [(r', 8), (g', 8), (b', 8), (a', 8)]) ∧
      pack [(r', 8), (g', 8), (b', 8), (a', 8)] < 2 ^ 32) :=
  ⟨QuantBits.encode_b5g6r5 r g b a hr hg hb, QuantBits.encode_b5g5r5a1 r g b a hr hg hb,
   QuantBits.encode_b4g4r4a4 r g b a hr hg hb ha, QuantBits.encode_r10g10b10a2 r g b a hr hg hb ha,
   QuantBits.encode_rgba8_snorm r g b a hr hg hb ha⟩

/-- **`s16::from_uf32`, every bit pattern, no rounding hypothesis.**
`let x = x.min(1.0) as f64; let norm = (x * 65534.0 + 0.5) as u16; (norm + 1).wrapping_sub(32768)`
on binary32 bit patterns: `f32::min` of `ConvF32.lean`, then the exact widening, one correctly
rounded binary64 multiplication, one correctly rounded binary64 addition and the saturating cast
of `ConvF64.lean`.  For EVERY pattern `x` (NaN of any payload and sign, ±∞, both zeros, negative,
subnormal, huge) `norm + 1` does not overflow `u16` (`some`: no panic in the checked profile)
and the result fits 16 bits.  This is `quantiser_range_snorm` at 16 bits with the hypotheses
`R.fixes 65534`, `R.fixes (65534 + ½)` discharged for binary64. -/
theorem quantiser_range_snorm16_bits (x : Nat) (hx : x < 2 ^ 32) :
    ∃ v, QuantBits.s16 x = some v ∧ v < 2 ^ 16 :=
  QuantBits.s16_some x hx

example : QuantBits.s16 0x7FC00000 = some 32767 ∧ QuantBits.s16 0xFF800000 = some 32769 ∧
    QuantBits.s16 0x3F000000 = some 0 := by decide +kernel

/-- **The binary64 evaluation of `s16::from_uf32` is exact.**  `norm` (before `from_norm`) for
every binary32 pattern, by class:
* NaN (any payload, either sign) gives 65534 — `f32::min` returns the other operand, 1.0;
* every pattern from 1.0 up to and including `+∞` gives 65534;
* every negative pattern, `-0.0` and `-∞` included, gives 0;
* for `0 ≤ x ≤ 1`, with `x = m·2^-k` (`m = mant x`, `k = -expo x`): `norm = ⌊(m·65534 + 2^(k-1)) /
  2^k⌋ = ⌊v·65534 + 1/2⌋` in exact integer resp. rational arithmetic.  The widening is exact, the
  product of a 24-bit and a 16-bit significand has at most 40 bits, the sum with 0.5 has at most
  53 bits when `k ≤ 53`; for `k > 53` (`x < 2^-30`, product below `2^-14`) the sum IS rounded,
  stays below 0.75, and the cast gives 0 = the floor of the exact sum;
* in every case `norm = Quant.sq 16 (uvalue x)`, C12's real-number quantiser
  `⌊clamp01(v)·65534 + 1/2⌋` of the value (`uvalue`: NaN ↦ 1, `+∞ ↦ 2`, `-∞ ↦ -1`, finite ↦ value). -/
theorem s16_from_uf32_exact (x : Nat) (hx : x < 2 ^ 32) :
    (CF32.isNaN x = true → QuantBits.s16Norm x = 65534) ∧
    (CF32.one ≤ x → x ≤ CF32.posInf → QuantBits.s16Norm x = 65534) ∧
    (CF32.signBit ≤ x → x ≤ CF32.negInf → QuantBits.s16Norm x = 0) ∧
    (x ≤ CF32.one →
      QuantBits.s16Norm x =
        (CF32.mant x * 65534 + 2 ^ ((-CF32.expo x).toNat - 1)) / 2 ^ (-CF32.expo x).toNat ∧
      QuantBits.s16Norm x = Quant.roundHalfUp (CF32.toRat x * 65534)) ∧
    QuantBits.s16Norm x = Quant.sq 16 (QuantBits.uvalue x) :=
  ⟨fun h => QuantBits.s16Norm_of_fmin_one x (QuantBits.fmin_of_nan x h),
   fun h1 h2 => QuantBits.s16Norm_of_fmin_one x (QuantBits.fmin_of_ge_one x h1 h2),
   fun h1 h2 => QuantBits.s16Norm_negR x ⟨h1, h2⟩,
   fun h => ⟨QuantBits.s16Norm_le_one x h, QuantBits.s16Norm_le_one_rat x h⟩,
   QuantBits.s16Norm_eq_sq x hx⟩

/-- the classes are inhabited and cover the rounding boundary: `0.5/65534` rounded to `f32`
(`0x37000100`) is below the exact tie and gives 0, its successor gives 1; the smallest subnormal
(`k = 149`: the sum with 0.5 is rounded in binary64) gives 0 -/
example : QuantBits.s16Norm 0x7FA55AA5 = 65534 ∧ QuantBits.s16Norm 0x7F7FFFFF = 65534 ∧
    QuantBits.s16Norm 0x80000000 = 0 ∧ QuantBits.s16Norm 0x37000101 = 1 ∧
    QuantBits.s16Norm 0x37000100 = 0 ∧ QuantBits.s16Norm 1 = 0 ∧
    QuantBits.s16Norm 0x3F7FFFFF = 65534 ∧ QuantBits.s16Norm 0x3F7FFF00 = 65533 := by
  decide +kernel

/-- **Connection to C12** (`Quant.sencode`, `C12.snorm_half_step`): the SNORM16 code the code
stores for ANY binary32 input is the specified one, `Quant.sencode 16` of its value — so for the
`f32` evaluation that C12 leaves to the exhaustive tie, SNORM16 needs no tie: decoding the stored
code (`Quant.sdeq 16`) lands within half a SNORM16 step, `1/(2·65534)`, of the clamped input. -/
theorem s16_encodes_nearest (x : Nat) (hx : x < 2 ^ 32) :
    QuantBits.s16 x = some (Quant.sencode 16 (QuantBits.uvalue x)) ∧
    ∃ v, QuantBits.s16 x = some v ∧ v < 2 ^ 16 ∧
      Quant.sdeq 16 v - Quant.clamp01 (QuantBits.uvalue x) ≤ 1 / (2 * 65534) ∧
      -(1 / (2 * 65534)) ≤ Quant.sdeq 16 v - Quant.clamp01 (QuantBits.uvalue x) :=
  ⟨QuantBits.s16_eq_sencode x hx, QuantBits.s16_half_step x hx⟩

/-- **R16_SNORM, R16G16_SNORM, R16G16B16A16_SNORM, every RGBA `f32` pixel**: no channel panics,
the encoded pixel is exactly the packing of the 16-bit codes and fits 16 / 32 / 64 bits. -/
theorem snorm16_formats_fit_bits (r g b a : Nat) (hr : r < 2 ^ 32) (hg : g < 2 ^ 32)
    (hb : b < 2 ^ 32) (ha : a < 2 ^ 32) :
    ∃ r' g' b' a', QuantBits.s16 r = some r' ∧ QuantBits.s16 g = some g' ∧
      QuantBits.s16 b = some b' ∧ QuantBits.s16 a = some a' ∧
      QuantBits.encode16 "R16_SNORM" r g b a = some r' ∧ r' < 2 ^ 16 ∧
      QuantBits.encode16 "R16G16_SNORM" r g b a = some (pack [(r', 16), (g', 16)]) ∧
      pack [(r', 16), (g', 16)] < 2 ^ 32 ∧
      QuantBits.encode16 "R16G16B16A16_SNORM" r g b a =
        some (pack [(r', 16), (g', 16), (b', 16), (a', 16)]) ∧
      pack [(r', 16), (g', 16), (b', 16), (a', 16)] < 2 ^ 64 :=
  QuantBits.encode16_fit r g b a hr hg hb ha

/-- **Packing.** Fields that fit their widths pack into the sum of the widths, and the lowest
field and the remaining fields are read back unchanged: no shift overflows into a neighbour. -/
theorem packing_cannot_overflow (l : List (Nat × Nat)) (h : ∀ f ∈ l, f.1 < 2 ^ f.2) :
    pack l < 2 ^ widthSum l ∧
    (∀ v w rest, l = (v, w) :: rest → pack l % 2 ^ w = v ∧ pack l >>> w = pack rest) := by
  refine ⟨pack_lt l h, ?_⟩
  intro v w rest e
  subst e
  exact pack_low v w rest (h (v, w) List.mem_cons_self)

/-- the packed uncompressed formats, for every input pixel: the encoded pixel fits its 16/32
bits (B5G6R5, B5G5R5A1, B4G4R4A4/A4B4G4R4, R10G10B10A2, XR bias, Y410, R11G11B10) and the
10-bit luma of P010 survives its `<< 6` in 16 bits -/
theorem packed_formats_fit (R : Rounding) (r g b a : ExtReal) (f1 f2 f3 : Nat)
    (hK : ∀ K ∈ [3, 15, 31, 63, 1023], R.fixes ((K : Nat) : Rat) ∧ R.fixes (((K : Nat) : Rat) + 1/2)) :
    pack [(qUnormMin R 31 8 b, 5), (qUnormMin R 63 8 g, 6), (qUnormMin R 31 8 r, 5)] < 2 ^ 16 ∧
    pack [(qUnormMin R 31 8 b, 5), (qUnormMin R 31 8 g, 5), (qUnormMin R 31 8 r, 5), (qN1 a, 1)] < 2 ^ 16 ∧
    pack [(qUnormMin R 15 8 b, 4), (qUnormMin R 15 8 g, 4), (qUnormMin R 15 8 r, 4),
          (qUnormMin R 15 8 a, 4)] < 2 ^ 16 ∧
    pack [(qUnormMin R 1023 16 r, 10), (qUnormMin R 1023 16 g, 10), (qUnormMin R 1023 16 b, 10),
          (qUnormMin R 3 8 a, 2)] < 2 ^ 32 ∧
    pack [(qXr10 R r, 10), (qXr10 R g, 10), (qXr10 R b, 10), (qUnormMin R 3 8 a, 2)] < 2 ^ 32 ∧
    pack [(qYuv10 R (uRow (1025/2)) r g b, 10), (qYuv10 R (yRow (129/2)) r g b, 10),
          (qYuv10 R (vRow (1025/2)) r g b, 10), (qUnormMin R 3 8 a, 2)] < 2 ^ 32 ∧
    pack [(fpE5 6 f1, 11), (fpE5 6 f2, 11), (fpE5 5 f3, 10)] < 2 ^ 32 ∧
    qYuv10 R (yRow (129/2)) r g b <<< 6 < 2 ^ 16 := by
  have k3 := hK 3 (by simp)
  have k15 := hK 15 (by simp)
  have k31 := hK 31 (by simp)
  have k63 := hK 63 (by simp)
  have k1023 := hK 1023 (by simp)
  have n2 : ∀ x, qUnormMin R 3 8 x < 2 ^ 2 := fun x =>
    Nat.lt_succ_of_le (qUnormMin_le R 3 8 x k3.1 k3.2)
  have n4 : ∀ x, qUnormMin R 15 8 x < 2 ^ 4 := fun x =>
    Nat.lt_succ_of_le (qUnormMin_le R 15 8 x k15.1 k15.2)
  have n5 : ∀ x, qUnormMin R 31 8 x < 2 ^ 5 := fun x =>
    Nat.lt_succ_of_le (qUnormMin_le R 31 8 x k31.1 k31.2)
  have n6 : ∀ x, qUnormMin R 63 8 x < 2 ^ 6 := fun x =>
    Nat.lt_succ_of_le (qUnormMin_le R 63 8 x k63.1 k63.2)
  have n10 : ∀ x, qUnormMin R 1023 16 x < 2 ^ 10 := fun x =>
    Nat.lt_succ_of_le (qUnormMin_le R 1023 16 x k1023.1 k1023.2)
  have xr : ∀ x, qXr10 R x < 2 ^ 10 := fun x => Nat.lt_succ_of_le (qXr10_le R x)
  have yv : ∀ row, qYuv10 R row r g b < 2 ^ 10 := fun row => Nat.lt_succ_of_le (qYuv10_le R row r g b)
  have a1 : qN1 a < 2 ^ 1 := Nat.lt_succ_of_le (qN1_le a)
  refine ⟨?_, ?_, ?_, ?_, ?_, ?_, ?_, ?_⟩
  · exact pack_lt _ (by simp [n5, n6])
  · exact pack_lt _ (by simp [n5, a1])
  · exact pack_lt _ (by simp [n4])
  · exact pack_lt _ (by simp [n10, n2])
  · exact pack_lt _ (by simp [xr, n2])
  · exact pack_lt _ (by simp [yv, n2])
  · exact pack_lt _ (by
      simp only [List.mem_cons, List.not_mem_nil, or_false]
      intro f hf
      rcases hf with rfl | rfl | rfl
      · exact fpE5_lt 6 (by omega) f1
      · exact fpE5_lt 6 (by omega) f2
      · exact fpE5_lt 5 (by omega) f3)
  · exact shiftLeft_lt_pow _ 6 10 (yv _)

/-! ### refinement loops -/

/-- **Bounded refinement.** `bcn_util::refine_endpoints` is the only loop of the block encoders
whose trip count depends on the data; whatever the float comparison `step > step_min` does
(NaN included) it runs at most `max_iter` times and, given `max_iter` units of fuel, has
stopped; the `max_iter` values that reach it are, per quality, `[BC1 line, BC1, BC4, BC7]` =
Fast `[0,0,0,0]`, Normal `[3,0,2,0]`, High `[3,4,10,1]`, Unreasonable `[3,10,10,8]` — never more
than 10, so one call evaluates the error function at most `1 + 10·12` times. -/
theorem refine_loops_bounded :
    (∀ stepOk maxIter fuel, refineIters stepOk maxIter fuel 0 ≤ maxIter) ∧
    (∀ stepOk maxIter, loopGuard stepOk maxIter (refineIters stepOk maxIter maxIter 0) = false) ∧
    (Quality.all.map maxIters = [[0, 0, 0, 0], [3, 0, 2, 0], [3, 4, 10, 1], [3, 10, 10, 8]]) ∧
    (∀ q ∈ Quality.all, ∀ m ∈ maxIters q, m ≤ 10 ∧ refineCallsBound m 12 ≤ 121) :=
  ⟨fun s m f => refineIters_le s m f 0 (Nat.zero_le _),
   fun s m => refineIters_stops s m m 0 (by omega),
   by decide, by decide⟩

/-! ### non-vacuity -/

def nv12 : Row := ⟨"NV12", .biPlanar 1 2 2 2, true, 2, 2⟩
def bc1 : Row := ⟨"BC1_UNORM", .block 8 4 4, true, 1, 1⟩
def rgba8 : Row := ⟨"R8G8B8A8_UNORM", .fixed 4, true, 1, 1⟩

example : nv12 ∈ table ∧ bc1 ∈ table ∧ rgba8 ∈ table := by decide
-- a refused size: the check, no write
example : encode nv12 (.contig 512) 3 2 none = ⟨.invalidSize, 0, [.check]⟩ := by decide
-- an accepted size: check, then plane 1 per row pair, then plane 2
example : encode nv12 (.contig 512) 4 2 none = ⟨.ok, 12, [.check, .write 8, .write 4]⟩ := by decide
-- a fault inside the second write
example : encode nv12 (.contig 512) 4 2 (some 9) = ⟨.ioError, 9, [.check, .write 8, .write 4]⟩ := by
  decide
-- partial blocks: 5x5 BC1 is 2x2 blocks
example : encode bc1 (.contig 512) 5 5 none = ⟨.ok, 32, [.write 16, .write 16]⟩ := by decide
-- empty images: 0 x 7
example : encode nv12 (.contig 512) 0 7 (some 0) = ⟨.ok, 0, [.check, .write 0]⟩ := by decide
example : encode rgba8 (.rows 512) 0 7 (some 0) = ⟨.ok, 0, []⟩ := by decide
-- the hypotheses on the rounding are satisfiable: exact arithmetic
example : ∀ K ∈ [3, 15, 31, 63, 1023],
    Rounding.exact.fixes ((K : Nat) : Rat) ∧ Rounding.exact.fixes (((K : Nat) : Rat) + 1/2) :=
  fun _ _ => ⟨exact_fixes _, exact_fixes _⟩
-- NaN goes to the maximum through `min(1.0)` and to 0 through a bare cast
example : qUnormMin Rounding.exact 31 8 .nan = 31 ∧ qUnormSat Rounding.exact 255 8 .nan = 0 ∧
    qUnormMin Rounding.exact 31 8 .ninf = 0 ∧ qUnormSat Rounding.exact 255 8 .pinf = 255 := by
  decide +kernel
-- ∞ − ∞ in a chroma row is NaN and is cast to 0
example : qYuv10 Rounding.exact (uRow (1025/2)) .pinf .pinf .pinf = 0 := by decide +kernel
-- R9G9B9E5 on bit patterns: 1.0/0.5/0.25 share exponent 16; 1023.0 takes the second pass (the first
-- gives 512 at exponent 25, the result is 256 at exponent 26); 65408.0 with NaN and -inf is
-- (511, 0, 0) at the top exponent 31; +inf, -0.0 and a subnormal: the same; all-NaN is the word 0
example : SharedExp.fields (fun _ => false) 0x3F800000 0x3F000000 0x3E800000 = some (256, 128, 64, 16) ∧
    SharedExp.fields (fun _ => true) 0x447FC000 0 0x3F800000 = some (256, 0, 0, 26) ∧
    SharedExp.mantOf 0x447FC000 (CF32.twoPowi (24 - 25)) = 512 ∧
    SharedExp.fields (fun _ => false) 0x477F8000 0x7FC00000 0xFF800000 = some (511, 0, 0, 31) ∧
    SharedExp.fields (fun _ => true) 0x7F800000 0x80000000 0x00000001 = some (511, 0, 0, 31) ∧
    SharedExp.fromF32 (fun _ => false) 0x7FC00000 0xFFC00001 0x7F800001 = some 0 ∧
    SharedExp.fromF32 (fun _ => false) 0x3F800000 0x3F000000 0x3E800000 = some 0x81010100 := by
  decide +kernel
-- the tie is real: `(-0.0).max(0.0)` is `-0.0` or `+0.0` depending on the choice, the word is 0 both times
example : SharedExp.clamp0Max true 0x80000000 = 0x80000000 ∧ SharedExp.clamp0Max false 0x80000000 = 0 ∧
    SharedExp.fromF32 (fun _ => true) 0x80000000 0 0x80000000 = some 0 ∧
    SharedExp.fromF32 (fun _ => false) 0x80000000 0 0x80000000 = some 0 := by decide +kernel
-- the hypotheses of `shared_exp_channel_bounds` and of the exactness clause are satisfiable:
-- c = 1023.0 (exponent field 136 = 25 + 111), and 1023.0 * 2^-1 = 511.5 exactly
example : 1 ≤ 0x447FC000 ∧ 0x447FC000 ≤ SharedExp.c65408 ∧ 25 ≤ 31 ∧
    CF32.expField 0x447FC000 ≤ 25 + 111 ∧ 0x447FC000 < CF32.posInf ∧
    CF32.fmul 0x447FC000 (CF32.twoPowi (-1)) = 0x43FFC000 := by decide +kernel
-- the bit-level UNORM quantisers: the constants are the `f32` literals; NaN (any sign) and +inf go to
-- MAX, -inf and -0.0 to 0, 0.5 to round(15.5 + 0.5) = 16, a value one ulp below 1 to MAX; SNORM8 of NaN
-- is +127; a pixel of (NaN, -inf, +inf, 0.5) in B5G5R5A1 is b=31, g=0, r=31, a=1
example : CF32.ofNat 3 = QuantBits.k3 ∧ CF32.ofNat 15 = QuantBits.k15 ∧ CF32.ofNat 31 = QuantBits.k31 ∧
    CF32.ofNat 63 = QuantBits.k63 ∧ CF32.ofNat 1023 = QuantBits.k1023 ∧ CF32.ofNat 254 = QuantBits.k254 ∧
    QuantBits.n5 0x7FC00000 = 31 ∧ QuantBits.n5 0xFFC00001 = 31 ∧ QuantBits.n5 0x7F800000 = 31 ∧
    QuantBits.n5 0xFF800000 = 0 ∧ QuantBits.n5 0x80000000 = 0 ∧ QuantBits.n5 0x3F000000 = 16 ∧
    QuantBits.n10 0x3F7FFFFF = 1023 ∧ QuantBits.s8 0x7FC00000 = some 127 ∧ QuantBits.s8 0 = some 129 ∧
    QuantBits.encode "B5G5R5A1_UNORM" 0x7FC00000 0xFF800000 0x7F800000 0x3F000000 = some 0xFC1F := by
  decide +kernel
-- the loop guard can cut the loop short, and `max_iter` cuts it when the guard never does
example : refineIters (fun i => i < 2) 10 10 0 = 2 ∧ refineIters (fun _ => true) 4 100 0 = 4 := by
  decide

/-! ##########################################################################################################
## Section M (branch `wM`): the slicing and index arithmetic of the ENCODER loops does not panic

Trapping mirrors (`TrapEnc.lean`, `TrapEncBlk.lean`, `TrapEncSplit.lean`: the loops written once more with operators
that return `Option`, `none` = the Rust code panics in the `checked` profile — slice range, `copy_from_slice` of
unequal lengths, `chunks(0)`, `split_at`, `expect`, `assert!` / `debug_assert!`, `usize` / `u32` overflow, division by
zero, `Vec` capacity overflow) of `for_each_chunk`, `copy_directly`, `uncompressed_untyped`, `uncompressed_universal`,
`uncompressed_universal_dither`, `uncompressed_universal_subsample`, `for_each_f32_rgba_rows`, `bi_planar_universal`,
`block_universal` + `get_4x4_*`, `SplitView::{new, get}`, `ImageView::{is_contiguous, rows, cropped}`,
`encode_parallel`, `EncoderSet::encode`.  Each theorem: for EVERY view the public API can construct
(`TrapEnc.VOK`: C20's invariant `C20.Inv` — established by `ImageView::new`, `new_with` and `cropped`:
`C20.new_with_inv`, `C20.crop_spec` — with ANY row pitch ≥ the row bytes, any `w, h < 2^32` including 0×0, 1×1 and
sizes not divisible by the block size; plus two facts about Rust values: a slice has at most `isize::MAX` bytes, a
`usize` is below `2^64`), every one of the 12 input colours and every option, the mirror is `some` of the write sizes
of `EncLen.lean` — so C10's length theorems and `write_fault_general` above hold for the trapping semantics.
What is computed per pixel / block is not part of the mirrors (total functions: the quantiser theorems above, C13,
and the sampled float bodies).  Buffer sizes and cadences are `SrcConsts.*`, regenerated from the source on every run.
############################################################################################################ -/

end Dds.C15
namespace Dds.C15
open Dds Dds.TrapEnc

/-- a `w × h` view of `bpp` bytes per pixel with `extra` bytes of row padding (0: contiguous), for the `example`s -/
def exView (w h bpp extra : Nat) : View := ⟨0, (w * bpp + extra) * (h - 1) + w * bpp, w, h, bpp, w * bpp + extra⟩
/-- a row wider than the staging buffer of `uncompressed_universal`, whatever its size is tuned to -/
def exWide : Nat := SrcConsts.UNIVERSAL_BUFFER_PIXELS + 88
/-- a row of which two no longer fit the staging buffer -/
def exHalf : Nat := SrcConsts.UNIVERSAL_BUFFER_PIXELS / 2 + 44

/-- the tuning constants of the loops (staging buffers, report cadences), as extracted from the source by
`tools/extract_consts.py`, satisfy what the theorems below need: every staging buffer holds at least one pixel of
every colour / encoded format (so `chunks(n)` never gets `n = 0` and `buffer_pixels - fill_pixels` makes progress), the
sub-sampled encoder's block buffer holds the blocks of a full chunk, the dithering buffer is at least as aligned as
every encoded pixel, no report cadence is zero.  Retuning a constant re-proves everything below for the new value. -/
theorem loop_constants_ok : TrapEnc.ConstsOK := TrapEnc.constsOK

/-- **`for_each_chunk` and its three callers.**  For every view `v` of colour `c` (contiguous or strided with any
pitch), every staging buffer of `bufLen ≤ 2^32` elements with `1 ≤ epp ≤ bufLen` elements per pixel, and every
`copy_to_buffer` closure that accepts `p` source pixels into `p` buffer pixels (`CopyOK`):
`for_each_chunk` hands `process_chunk` exactly the chunks of `EncLen.lean` — `chunkLens` of all pixels on the
contiguous path, `chunksRowsAux` (fill / flush across rows, final flush) on the strided path — there are
`ceil(w·h / buffer_pixels)` of them on both paths, each of 1 … `buffer_pixels` pixels; `row_pitch * height`,
`y * row_pitch + bytes_per_row`, `(fill + write) * epp` never overflow, no slice leaves `data` / `buffer`, the inner
`while` loop terminates within `row.len() + 1` iterations.  Hence (`copy_directly`, `uncompressed_untyped` with a
colour-converting or BGR line closure of the input's precision, `uncompressed_universal::<Out>`) are `some` of
`chunksContig` / `chunksRows` with the buffers of the source, the progress fraction `chunk_index / chunk_count` never
exceeds 1, and the `as_rgba_f32` fast path for aligned RGBA-F32 input changes nothing. -/
theorem chunk_loops_trapfree (v : View) (c : Color) (hv : VOK v c) (hc : c.OK) :
    (∀ bufLen epp copyT, 1 ≤ epp → epp ≤ bufLen → bufLen ≤ 4294967296 → CopyOK copyT (bufLen / epp) v.bpp epp →
      forEachChunkT v bufLen epp copyT = some ((chunkPx v (bufLen / epp)).map (· * epp)) ∧
      (chunkPx v (bufLen / epp)).length = divCeil (v.w * v.h) (bufLen / epp) ∧
      ∀ p ∈ chunkPx v (bufLen / epp), 1 ≤ p ∧ p ≤ bufLen / epp) ∧
    copyDirectlyT v c =
      some (if v.pitch = v.w * v.bpp then [v.w * v.h * v.bpp]
            else chunksRows v.w v.h (SrcConsts.COPY_BUFFER_BYTES / v.bpp) v.bpp) ∧
    (∀ k : UntypedLine, k.Fits c →
      uncompressedUntypedT v c k =
        some (if v.pitch = v.w * v.bpp then chunksContig (v.w * v.h) (SrcConsts.UNTYPED_BUFFER_BYTES / k.bpe) k.bpe
              else chunksRows v.w v.h (SrcConsts.UNTYPED_BUFFER_BYTES / k.bpe) k.bpe)) ∧
    (∀ aligned size prim, 1 ≤ size → size ≤ 65536 → (prim = 1 ∨ (prim ≠ 0 ∧ size % prim = 0)) →
      uncompressedUniversalT v c aligned size prim =
        some (if v.pitch = v.w * v.bpp then chunksContig (v.w * v.h) SrcConsts.UNIVERSAL_BUFFER_PIXELS size
              else chunksRows v.w v.h SrcConsts.UNIVERSAL_BUFFER_PIXELS size)) := by
  obtain ⟨k1, k2, k3, k4, _⟩ := constsOK
  refine ⟨fun bufLen epp copyT h1 h2 h3 h4 => ?_, copyDirectlyT_eq hv hc k1,
    fun k hk => uncompressedUntypedT_eq hv hc hk k2 k3,
    fun aligned size prim h1 h2 h3 => uncompressedUniversalT_eq hv hc aligned ⟨h1, h2⟩ h3 k4 k3⟩
  have hbp : 1 ≤ bufLen / epp := (Nat.one_le_div_iff (by omega)).2 h2
  exact ⟨forEachChunkT_eq hv h1 h2 h3 h4, chunkPx_length hbp, chunkPx_bounds hbp⟩

/-- non-vacuity (stated with the constants of the source, so that retuning a buffer does not break an `example`): a
3-row RGBA-U8 view wider than the staging buffer into a 2-byte format through `uncompressed_universal` — contiguous and
with 8 bytes of row padding — gives the writes of `EncLen.lean`; so does a row that spans three fills of the buffer;
the 1 × 1 view with an absurd pitch and the 0 × 0 view are fine; a view that violates the invariant (data shorter than
its rows) IS a panic of the mirror -/
example :
    uncompressedUniversalT (exView exWide 3 4 0) ⟨.rgba, 1⟩ false 2 2 =
      some (chunksContig (exWide * 3) SrcConsts.UNIVERSAL_BUFFER_PIXELS 2) ∧
    uncompressedUniversalT (exView exWide 3 4 8) ⟨.rgba, 1⟩ false 2 2 =
      some (chunksRows exWide 3 SrcConsts.UNIVERSAL_BUFFER_PIXELS 2) ∧
    uncompressedUniversalT (exView (2 * exWide + 200) 2 4 8) ⟨.rgba, 1⟩ false 2 2 =
      some (chunksRows (2 * exWide + 200) 2 SrcConsts.UNIVERSAL_BUFFER_PIXELS 2) ∧
    2 ≤ (chunksRows exWide 3 SrcConsts.UNIVERSAL_BUFFER_PIXELS 2).length ∧
    uncompressedUniversalT ⟨0, 16, 1, 1, 16, 9223372036854775807⟩ ⟨.rgba, 4⟩ true 16 4 = some [16] ∧
    uncompressedUniversalT ⟨0, 0, 0, 0, 4, 0⟩ ⟨.rgba, 1⟩ false 2 2 = some [] ∧
    copyDirectlyT (exView 600 3 16 4) ⟨.rgba, 4⟩ = some (chunksRows 600 3 (SrcConsts.COPY_BUFFER_BYTES / 16) 16) ∧
    uncompressedUntypedT (exView 1500 2 4 8) ⟨.rgba, 1⟩ (.convert ⟨.rgb, 1⟩ false) =
      some (chunksRows 1500 2 (SrcConsts.UNTYPED_BUFFER_BYTES / 3) 3) ∧
    uncompressedUniversalT ⟨0, 7000, 600, 3, 4, 2400⟩ ⟨.rgba, 1⟩ false 2 2 = none := by
  decide +kernel

/-- the hypotheses are satisfiable: the views of the example satisfy `VOK` (shown for the strided one), and a
colour-converting closure fits its input -/
example : VOK ⟨0, 7216, 600, 3, 4, 2408⟩ ⟨.rgba, 1⟩ ∧ exView 600 3 4 8 = ⟨0, 7216, 600, 3, 4, 2408⟩ ∧ (⟨.rgba, 1⟩ : Color).OK ∧
    (UntypedLine.convert ⟨.rgb, 1⟩ false).Fits ⟨.rgba, 1⟩ :=
  ⟨⟨⟨by decide, by decide, by decide, by decide, by decide, fun h => by simp at h, by decide, fun _ => by decide⟩,
    rfl, by decide, by decide⟩, rfl, Or.inl rfl, rfl, fun h => by cases h⟩

/-- **seed C15g would have failed `chunk_loops_trapfree`.**  `Seeds.uncompressedUniversalT_C15g` is
`uncompressed_universal` over the mutated strided branch of `/verif/seeded/C15g` ("flush if the row no longer fits,
then copy the whole row"): a strided row wider than the staging buffer panics (`buffer[..600]` of 512), and even where
it does not panic (rows of which two do not fit: one chunk per row) the chunks are not those of the loop that exists;
contiguous input is untouched.  (A strided 300-pixel image of more than 2048 rows also trips the progress
`debug_assert!` in the variant — more chunks than `chunk_count` —: `#eval` gives `none` for 300 × 5000; left out of
the `example` because the kernel needs 10 s for it.)  Seed C12i (head / rest rewrite with one flush per row) does not
panic but loses the middle part of a row that spans three fills: fewer bytes than `surface_bytes`. -/
example :
    Seeds.uncompressedUniversalT_C15g (exView exWide 3 4 8) ⟨.rgba, 1⟩ false 2 2 = none ∧
    Seeds.uncompressedUniversalT_C15g (exView exHalf 3 4 8) ⟨.rgba, 1⟩ false 2 2 =
      some (List.replicate 3 (exHalf * 2)) ∧
    uncompressedUniversalT (exView exHalf 3 4 8) ⟨.rgba, 1⟩ false 2 2 =
      some (chunksRows exHalf 3 SrcConsts.UNIVERSAL_BUFFER_PIXELS 2) ∧
    List.replicate 3 (exHalf * 2) ≠ chunksRows exHalf 3 SrcConsts.UNIVERSAL_BUFFER_PIXELS 2 ∧
    Seeds.uncompressedUniversalT_C15g (exView exWide 3 4 0) ⟨.rgba, 1⟩ false 2 2 =
      some (chunksContig (exWide * 3) SrcConsts.UNIVERSAL_BUFFER_PIXELS 2) ∧
    ((Seeds.uncompressedUniversalT_C12i (exView (2 * exWide + 200) 2 4 8) ⟨.rgba, 1⟩ false 2 2).map List.sum).getD 0
      < (2 * exWide + 200) * 2 * 2 ∧
    (Seeds.uncompressedUniversalT_C12i (exView (2 * exWide + 200) 2 4 8) ⟨.rgba, 1⟩ false 2 2).isSome = true := by
  decide +kernel

/-- **`uncompressed_universal_dither`.**  For every view, colour, encoded pixel of `size ≤ BUFFER_PIXELS · 8` bytes
with alignment at most that of the `u64` staging buffer: `some` of the per-row chunk writes of `EncLen.chunksPerRow`
with `chunk_pixels = min(BUFFER_PIXELS, buffer bytes / size)`.  In particular the two error lines of
`width + 2·padding` elements are indexed inside their bounds by `current[off .. off + n]`,
`next[off - 1 .. off + n + 1]` and by `next[i - 1], next[i], next[i + 1]` within a chunk — for `width = 1` and the
empty image too —, `cast::from_bytes_mut::<Out>(encoded)` gets whole elements, `chunk_count = height ·
ceil(width·bpp / chunk_size)` does not overflow and is never exceeded, `chunk_size ≠ 0`. -/
theorem dither_loop_trapfree (v : View) (c : Color) (hv : VOK v c) (hc : c.OK) (aligned : Bool)
    (size align prim : Nat) (hs : 1 ≤ size)
    (hs2 : size ≤ SrcConsts.DITHER_BUFFER_PIXELS * SrcConsts.DITHER_ENCODED_ELEM_BYTES)
    (ha : align ≤ SrcConsts.DITHER_ENCODED_ELEM_BYTES) (hp : prim = 1 ∨ size % prim = 0) :
    ditherT v c aligned size align prim =
      some (chunksPerRow v.w v.h
        (min SrcConsts.DITHER_BUFFER_PIXELS
          (SrcConsts.DITHER_BUFFER_PIXELS * SrcConsts.DITHER_ENCODED_ELEM_BYTES / size)) size) := by
  obtain ⟨_, _, k3, _, k5, _⟩ := constsOK
  exact ditherT_eq hv hc aligned ⟨hs, hs2⟩ ha hp k5 k3

/-- 600 × 2 strided RGBA-U8 into a 3-byte format; a 1-pixel-wide image into `[u16; 4]`; the empty image; an encoded
pixel larger than the staging buffer (`chunk_pixels = 0`) or more aligned than it IS a panic of the mirror -/
example :
    ditherT (exView 600 2 4 8) ⟨.rgba, 1⟩ false 3 1 1 =
      some (chunksPerRow 600 2 (min SrcConsts.DITHER_BUFFER_PIXELS
        (SrcConsts.DITHER_BUFFER_PIXELS * SrcConsts.DITHER_ENCODED_ELEM_BYTES / 3)) 3) ∧
    ditherT (exView 1 2 4 4) ⟨.rgba, 1⟩ false 8 2 2 = some [8, 8] ∧
    ditherT ⟨0, 0, 0, 0, 4, 0⟩ ⟨.rgba, 1⟩ false 8 2 2 = some [] ∧
    ditherT (exView 1 2 4 4) ⟨.rgba, 1⟩ false
      (SrcConsts.DITHER_BUFFER_PIXELS * SrcConsts.DITHER_ENCODED_ELEM_BYTES + 1) 2 2 = none ∧
    ditherT (exView 1 2 4 4) ⟨.rgba, 1⟩ false 8 (SrcConsts.DITHER_ENCODED_ELEM_BYTES + 1) 2 = none := by
  decide +kernel

/-- **`uncompressed_universal_subsample` + `process_subsample`.**  For every view, colour and block width
`2 ≤ bw ≤ BUFFER_PIXELS` (2 and 8 occur): `some` of `EncLen.chunksSubsample` with `chunk_pixels = BUFFER_PIXELS / bw ·
bw` — a positive multiple of the block width (`C10.subsample_chunk_ok`) —: the block buffer of `BUFFER_PIXELS / 2`
elements holds the `ceil(p / bw)` blocks of every chunk; in `process_subsample` `data[..full]`, `data[full..]`,
`last_block[..rest]`, `data[data.len() - 1]` and `out[full.len()]` are in range for the partial block at the end of a
row (also for `width < bw`, `width = 1`). -/
theorem subsample_loop_trapfree (v : View) (c : Color) (hv : VOK v c) (hc : c.OK) (aligned : Bool)
    (bw blockBytes prim : Nat) (hbw : 2 ≤ bw) (hbw2 : bw ≤ SrcConsts.SUBSAMPLE_BUFFER_PIXELS) (hbb : blockBytes ≤ 65536)
    (hp : prim = 1 ∨ blockBytes % prim = 0) :
    subsampleT v c aligned bw blockBytes prim =
      some (chunksSubsample v.w v.h (SrcConsts.SUBSAMPLE_BUFFER_PIXELS / bw * bw) bw blockBytes) ∧
    1 ≤ SrcConsts.SUBSAMPLE_BUFFER_PIXELS / bw * bw ∧ (SrcConsts.SUBSAMPLE_BUFFER_PIXELS / bw * bw) % bw = 0 := by
  obtain ⟨_, _, _, _, _, _, _, k8, _, k10, _⟩ := constsOK
  refine ⟨subsampleT_eq hv hc aligned ⟨hbw, hbw2⟩ hbb hp k8 k10, ?_, Nat.mul_mod_left ..⟩
  have hq1 : 1 ≤ SrcConsts.SUBSAMPLE_BUFFER_PIXELS / bw := (Nat.one_le_div_iff (by omega)).2 hbw2
  have : 1 * 1 ≤ SrcConsts.SUBSAMPLE_BUFFER_PIXELS / bw * bw := Nat.mul_le_mul hq1 (by omega)
  omega

/-- 1025 × 2 strided RGBA-U8 into a 2×1 format of 4 bytes (with the 512-pixel buffer: two full chunks and a chunk of
one pixel = one partial block per row); RGB-F32 of width 1 into R1_UNORM (8×1 blocks of 1 byte); a block width of 1 IS
a panic (`assert!(block_width >= 2)`).  **Seed C10g** (`chunk_pixels = min(.., 4096 / bpp)`, odd for 12-byte pixels)
does not panic, but its writes are not those of `EncLen.lean`: more than the 2400 bytes of the surface for 400 × 3
RGB-F32 → YUY2 (2412 with the 512-pixel buffer), so the equation of `subsample_loop_trapfree` fails for the mutated
loop. -/
example :
    subsampleT (exView 1025 2 4 7) ⟨.rgba, 1⟩ false 2 4 1 =
      some (chunksSubsample 1025 2 (SrcConsts.SUBSAMPLE_BUFFER_PIXELS / 2 * 2) 2 4) ∧
    subsampleT (exView 1 2 12 3) ⟨.rgb, 4⟩ false 8 1 1 = some [1, 1] ∧
    subsampleT (exView 1 2 12 3) ⟨.rgb, 4⟩ false 1 1 1 = none ∧
    (Seeds.subsampleT_C10g (exView 400 3 12 0) ⟨.rgb, 4⟩ false 2 4 1).isSome = true ∧
    Seeds.subsampleT_C10g (exView 400 3 12 0) ⟨.rgb, 4⟩ false 2 4 1 ≠
      some (chunksSubsample 400 3 (SrcConsts.SUBSAMPLE_BUFFER_PIXELS / 2 * 2) 2 4) ∧
    ((Seeds.subsampleT_C10g (exView 400 3 12 0) ⟨.rgb, 4⟩ false 2 4 1).map List.sum).getD 0 > 2400 ∧
    (subsampleT (exView 400 3 12 0) ⟨.rgb, 4⟩ false 2 4 1).map List.sum = some 2400 ∧
    (PixelInfo.block 4 2 1).surfIdeal 400 3 = 2400 := by
  decide +kernel

/-- **`bi_planar_universal` over `for_each_f32_rgba_rows`.**  For every view and colour, plane-1 samples of
`s1 ≤ 4096` bytes and plane-2 samples of `s2 ≤ 4` bytes: an odd width or height is refused (`InvalidSize`, inner
`none`) before anything is allocated or written; otherwise `some` of `EncLen.writesBiPlanar`.  `report_frequency =
ceil(2^20 / max(2·width, 1))` is never zero (the empty image included: the repaired F10), so `group_index %
report_frequency` cannot divide by zero; `Vec::with_capacity((w/2)·(h/2))` stays below `isize::MAX` bytes because
`w·h ≤ data.len()`; the 2×2 cell indices `y·width + 2·macro_x + x` stay inside the f32 row-pair buffer and
`plane1_buffer`; `plane2` has exactly `plane2_len` elements at the end (`debug_assert_eq!`); the row iterator of
`for_each_f32_rgba_rows` is consumed exactly (`expect("Image has too few rows")`, `debug_assert!(rows.next()
.is_none())`). -/
theorem biplanar_loop_trapfree (v : View) (c : Color) (hv : VOK v c) (hc : c.OK) (s1 prim1 s2 prim2 : Nat)
    (hs1 : s1 ≤ 4096) (hs2 : s2 ≤ 4) (hp1 : prim1 = 1 ∨ s1 % prim1 = 0) (hp2 : prim2 = 1 ∨ s2 % prim2 = 0) :
    biPlanarT v c s1 prim1 s2 prim2 =
      some (if v.w % 2 ≠ 0 ∨ v.h % 2 ≠ 0 then none else some (writesBiPlanar v.w v.h s1 s2)) ∧
    (∀ bh, 1 ≤ bh → bh ≤ 65536 → forEachRowsT v c bh = some (v.w * bh, rowGroups v.h bh)) := by
  obtain ⟨_, _, _, _, _, _, _, _, _, _, k11, _⟩ := constsOK
  exact ⟨biPlanarT_eq hv hc hs1 hs2 hp1 hp2 k11, fun bh h1 h2 => forEachRowsT_eq hv hc ⟨h1, h2⟩⟩

/-- P010-like planes (2 and 4 bytes) on a strided 6 × 4 view; an odd width is refused; the empty image writes the
empty plane 2; plane-2 samples of 9 exabytes would be a capacity overflow -/
example :
    biPlanarT ⟨0, 105, 6, 4, 4, 27⟩ ⟨.rgba, 1⟩ 2 2 4 2 = some (some [24, 24, 24]) ∧
    biPlanarT ⟨0, 101, 5, 4, 4, 27⟩ ⟨.rgba, 1⟩ 2 2 4 2 = some none ∧
    biPlanarT ⟨0, 0, 0, 0, 4, 0⟩ ⟨.rgba, 1⟩ 2 2 4 2 = some (some [0]) ∧
    biPlanarT ⟨0, 105, 6, 4, 4, 27⟩ ⟨.rgba, 1⟩ 2 2 9223372036854775807 1 = none := by
  decide +kernel

/-- **`block_universal` + `get_4x4_*`.**  For every view and colour, `bw × bh` blocks (`≤ 256` each way) of
`bb ≤ 65536` bytes, every non-zero report frequency and every `encode_block` that reads at most a `bw × bh` block at the
start of the slice it is handed, rows `row_pitch` apart (`EncBlockOK`; the `get_4x4_*` readers every BC closure uses
satisfy it for 4 × 4): `some` of `EncLen.writesBlock`.  Full blocks get `&rows[bi·bw ..]` with
`3·width + 4 ≤ len`; the partial block at the right edge is gathered from `rows[bi·bw + i·width ..][.. width % bw]`
into `block_data[i·bw .. (i+1)·bw]` for `i < bh` — for every width including `width < bw` —; the rows missing at the
bottom are copied from the first row of the rest inside the buffer (`copy_within(..width, i·width)`);
`encoded_buffer[block_index]` is in range; `block_index` never exceeds `block_count = ceil(w/bw)·ceil(h/bh)`. -/
theorem block_rows_trapfree (v : View) (c : Color) (hv : VOK v c) (hc : c.OK) :
    (∀ encT bw bh bb freq, EncBlockOK encT bw bh → 1 ≤ bw → bw ≤ 256 → 1 ≤ bh → bh ≤ 256 → bb ≤ 65536 → freq ≠ 0 →
      blockUniversalT encT v c bw bh (bw * bh) bb freq = some (writesBlock v.w v.h bw bh bb)) ∧
    EncBlockOK get4x4T 4 4 ∧
    (∀ bb quality, bb ≤ 65536 → block4x4T v c bb quality = some (writesBlock v.w v.h 4 4 bb)) := by
  obtain ⟨_, _, _, _, _, _, _, _, _, _, _, k12⟩ := constsOK
  refine ⟨fun encT bw bh bb freq hok h1 h2 h3 h4 h5 h6 => blockUniversalT_eq hv hc hok ⟨h1, h2⟩ ⟨h3, h4⟩ h5 h6,
    get4x4T_ok, fun bb quality hbb => ?_⟩
  unfold block4x4T
  exact blockUniversalT_eq (bw := 4) (bh := 4) hv hc get4x4T_ok (by omega) (by omega) hbb (bcReportFrequency_ne k12 quality)

/-- 9 × 6 strided (partial block right and below), 1 × 1, empty; a reader that looks one row too far (`5·pitch`) is
out of range in the last block column, i.e. `EncBlockOK` is what makes the theorem go through -/
example :
    block4x4T ⟨0, 231, 9, 6, 4, 39⟩ ⟨.rgba, 1⟩ 8 0 = some [24, 24] ∧
    block4x4T ⟨0, 16, 1, 1, 16, 19⟩ ⟨.rgba, 4⟩ 16 3 = some [16] ∧
    block4x4T ⟨0, 0, 0, 0, 16, 0⟩ ⟨.rgba, 4⟩ 16 3 = some [] ∧
    blockUniversalT (fun len pitch => idxLen len (5 * pitch)) ⟨0, 231, 9, 6, 4, 39⟩ ⟨.rgba, 1⟩ 4 4 16 8 1 = none := by
  decide +kernel

/-- **`SplitView::{new, get}` and `ImageView::cropped`.**  For every view, support record with a `NonZeroU8` split
height, dithering and quality: the trapping `get_fragment_height` (`fragment_pixels / width`, `/ split_height`,
`* split_height` in `u64`) and `SplitView::new` (`div_ceil`) are `some` of C14's wrapping models; `get(i)` is `Some`
exactly for `i < len` — `index * fragment_height` does not overflow `u32`, `debug_assert!(start_y < height)` holds,
`end_y - start_y` does not underflow, the rectangle passes `cropped`'s `assert!`, its `usize` arithmetic does not
overflow and `data[start..end]` is in range — and the fragment is again a view the loops accept (`VOK`: same pitch,
full width, rows `[y, y + f.h)` of C14's `SplitView.get`), non-empty when a fragment height was chosen. -/
theorem split_view_trapfree (v : View) (c : Color) (hv : VOK v c) (sup : Option Support) (dith : Dithering)
    (q : Quality) (hwf : ∀ s, sup = some s → s.WF) :
    getFragmentHeightT v.w v.h sup dith q = some (getFragmentHeight v.w v.h sup dith q) ∧
    SplitView.newT v.w v.h sup dith q = some (SplitView.new v.w v.h sup dith q) ∧
    ∀ i, ((SplitView.new v.w v.h sup dith q).len ≤ i →
        SplitView.getT (SplitView.new v.w v.h sup dith q) v i = some none) ∧
      (i < (SplitView.new v.w v.h sup dith q).len →
        ∃ f, SplitView.getT (SplitView.new v.w v.h sup dith q) v i = some (some f) ∧ VOK f c ∧ f.w = v.w ∧
          f.pitch = v.pitch ∧
          ∃ y, (SplitView.new v.w v.h sup dith q).get i = some (y, f.h) ∧ y + f.h ≤ v.h ∧
            ((SplitView.new v.w v.h sup dith q).fragmentHeight ≠ none → 0 < f.h)) := by
  refine ⟨getFragmentHeightT_eq _ _ _ _ _ hwf, SplitView.newT_eq _ _ _ _ _ hwf, fun i => ?_⟩
  obtain ⟨h1, h2⟩ := SplitView.getT_eq hv sup dith q hwf i
  refine ⟨h1, fun hi => ?_⟩
  obtain ⟨f, e1, e2, e3, e4, y, e5, e6, e7, _⟩ := h2 hi
  exact ⟨f, e1, e2, e3, e4, y, e5, e6, e7⟩

/-- a 100 × 203 strided RGBA-U8 image with BC1's support record (fragments of 2^12 / 2^8 / 2^8 pixels) at quality High: 51 fragments of height 4 (the last of 3); fragment 50
starts at row 200; `get(51)` is `None`; cropping outside the image IS the documented panic -/
example :
    SplitView.newT 100 203 (some (supBc .colorAndAlpha (.fragment 12 8 8))) .none .high = some ⟨100, 203, 51, some 4⟩ ∧
    SplitView.getT ⟨100, 203, 51, some 4⟩ ⟨0, 82614, 100, 203, 4, 407⟩ 50 =
      some (some ⟨81400, 1214, 100, 3, 4, 407⟩) ∧
    SplitView.getT ⟨100, 203, 51, some 4⟩ ⟨0, 82614, 100, 203, 4, 407⟩ 51 = some none ∧
    croppedT ⟨0, 82614, 100, 203, 4, 407⟩ 0 200 100 4 = none ∧
    (supBc .colorAndAlpha (.fragment 12 8 8)).WF := by
  refine ⟨by decide +kernel, by decide +kernel, by decide +kernel, by decide +kernel, ?_⟩
  intro sh h
  simp only [supBc, Option.some.injEq] at h
  subst h; decide

/-- **`encode_parallel`.**  For every view, colour, 4 × 4 block format of `bb ≤ 16` bytes per block, support record
with a `NonZeroU8` split height whose preferred fragment is the entire image or at most `2^48` pixels (`SupOK`; checked
for all 73 rows of `Split.lean`'s table at all four qualities by `parallel_support_table`), dithering and quality:
the mirror is `some`; with one fragment it is the sequential encoder on the image; otherwise every
`split.get(i).expect(..)` succeeds, `surface_bytes(fragment)` is `Some` and `Vec::with_capacity(bytes)` is below
`isize::MAX`, the fragment is encoded by the block loop without a panic, `debug_assert_eq!(buffer.len(), bytes)` holds
(C10's `block_len` for the trapping semantics), the heights submitted to `ParallelProgress` never exceed its total
`height + 1`, and the writes on the real writer are the fragments' surface sizes in index order, fragment `i` having
the height C14's `SplitView.get i` says.  (`TrapEnc.encodeParallelT_eq` is the same statement for ANY sequential
encoder that is trap-free on full-width views and writes `surface_bytes` — every family by `encode_loops_trapfree`.) -/
theorem parallel_fragments_trapfree (v : View) (c : Color) (hv : VOK v c) (hc : c.OK) (bb quality : Nat)
    (hbb : bb ≤ 16) (sup : Option Support) (dith : Dithering) (q : Quality) (hok : ∀ s, sup = some s → SupOK s) :
    ∃ ws, encodeParallelT (fun f => block4x4T f c bb quality) (.block bb 4 4) v sup dith q = some ws ∧
      ((SplitView.new v.w v.h sup dith q).len = 1 → ws.sum = (PixelInfo.block bb 4 4).surfIdeal v.w v.h) ∧
      ((SplitView.new v.w v.h sup dith q).len ≠ 1 →
        ∃ hs : List Nat, hs.length = (SplitView.new v.w v.h sup dith q).len ∧
          ws = hs.map ((PixelInfo.block bb 4 4).surfIdeal v.w) ∧
          ∀ i k, (SplitView.new v.w v.h sup dith q).get i = some k → hs[i]? = some k.2) := by
  obtain ⟨_, _, _, _, _, _, _, _, _, _, _, k12⟩ := constsOK
  apply encodeParallelT_eq hv _ _ (by simp [PixelInfo.WF]; omega) sup dith q (fun s hs => (hok s hs).1)
  · intro f hf _
    refine ⟨_, ?_, C10.block_len f.w f.h 4 4 bb (by omega) (by omega)⟩
    unfold block4x4T
    exact blockUniversalT_eq (bw := 4) (bh := 4) hf hc get4x4T_ok (by omega) (by omega) (by omega)
      (bcReportFrequency_ne k12 quality)
  · exact block_fragment_surface hv.inv.w_lt hv.inv.h_lt hbb hok

/-- every row of `Split.lean`'s support table (all 73 format names) has a `NonZeroU8` split height and a preferred
fragment of at most `2^48` pixels at every quality, or the entire image — `SupOK` for every format -/
theorem parallel_support_table : ∀ (f : C19.Format) (s : Support), supportOf f.name = some (some s) → SupOK s := by
  have h : ∀ f : C19.Format, supportCheck f.name = true := C19.forall_format (by decide +kernel)
  exact fun f s hs => supOK_of_check hs (h f)

/-- 100 × 203 strided as BC1 (8 bytes per block), quality High: 51 fragment buffers, 50 of 25 blocks × 8 bytes and
the same for the last (3 rows pad to one block row); together the 10 200 bytes of the surface -/
example :
    (encodeParallelT (fun f => block4x4T f ⟨.rgba, 1⟩ 8 0) (.block 8 4 4) ⟨0, 82614, 100, 203, 4, 407⟩
      (some (supBc .colorAndAlpha (.fragment 12 8 8))) .none .high).map (fun ws => (ws.length, ws.sum)) = some (51, 10200) ∧
    (PixelInfo.block 8 4 4).surfIdeal 100 203 = 10200 := by
  decide +kernel

/-- **the dispatch table**: for all 73 formats × 12 input colours × 4 dithering options (complete evaluation over
C19's pinned encoder table): the format's layout is one the loops handle (`pxOKb`), `pick_encoder` finds an encoder
(`expect("all color formats to be supported")`), its colour set contains the input colour (the `assert!` "Picked the
wrong encoder" of `Encoder::encode`), and `Body.Matches` — which loop an encoder of the table runs, transcribed by
reading — covers the picked encoder. -/
theorem encoder_dispatch_table : ∀ (f : C19.Format) (c : C19.ColorFormat) (d : C19.Dithering),
    dispatchCheck f c d = true := by
  have h : ∀ f : C19.Format,
      (C19.ColorFormat.all.all fun c => C19.Dithering.all.all fun d => dispatchCheck f c d) = true :=
    C19.forall_format (by decide +kernel)
  intro f c d
  have h1 := List.all_eq_true.mp (h f) c (C19.ColorFormat.mem_all c)
  exact List.all_eq_true.mp h1 d (C19.Dithering.mem_all d)

/-- **encode_loops_trapfree** (assembled).  For EVERY encodable format `f`, input colour `c` (12), dithering option
`d`: `EncoderSet::encode` picks an encoder `e` without panicking, whose colour set contains `c`; and for EVERY body
`b` that encoder can run (`Body.Matches`: which of the seven loops, with everything the table does not pin left open;
at least one exists), EVERY view `v` of that colour (`VOK`: any `w, h < 2^32`, contiguous or strided with any pitch ≥
the row bytes) and either alignment of the input: the mirror of the body returns `some` — no slice out of range, no
`usize` / `u32` overflow, no zero divisor, no failing `assert!` / `debug_assert!` / `expect`, every inner loop
terminates — with either the `InvalidSize` refusal, exactly for a bi-planar format and an odd size, before anything is
written, or write sizes `ws` that add up to `surface_bytes`; and then for every writer that fails after `k` bytes:
`Err(Io)` iff `k < surface_bytes`, `Ok` iff `surface_bytes ≤ k`, `min k surface_bytes` bytes accepted. -/
theorem encode_loops_trapfree (f : C19.Format) (s : C19.EncSet) (hs : C19.encoderSet f = some s)
    (c : C19.ColorFormat) (d : C19.Dithering) :
    ∃ e, pickEncoderT s c d = some e ∧ e.colors.contains c = true ∧
      (∃ b, Body.Matches s.ctor f.row.px e b) ∧
      ∀ b, Body.Matches s.ctor f.row.px e b → ∀ (v : View), VOK v (colorOf c) → ∀ aligned : Bool,
        ∃ r, b.runT v (colorOf c) aligned = some r ∧
          (r = none ↔ (∃ p1 p2 sx sy, f.row.px = .biPlanar p1 p2 sx sy) ∧ (v.w % 2 ≠ 0 ∨ v.h % 2 ≠ 0)) ∧
          ∀ ws, r = some ws → ws.sum = f.row.px.surfIdeal v.w v.h ∧
            ∀ k, ((EncTotal.runWrites (some k) ws).1 = .ioError ↔ k < f.row.px.surfIdeal v.w v.h) ∧
              ((EncTotal.runWrites (some k) ws).1 = .ok ↔ f.row.px.surfIdeal v.w v.h ≤ k) ∧
              (EncTotal.runWrites (some k) ws).2 = min k (f.row.px.surfIdeal v.w v.h) := by
  obtain ⟨hpx, e, he, hcol, hb⟩ := dispatch_of_check hs (encoder_dispatch_table f c d)
  refine ⟨e, he, hcol, hb, fun b hm v hv aligned => ?_⟩
  obtain ⟨r, h1, h2, h3⟩ := Body.runT_eq hm hpx hcol hv aligned
  refine ⟨r, h1, h2, fun ws hws => ⟨h3 ws hws, fun k => ?_⟩⟩
  have := write_fault_general ws k
  rw [h3 ws hws] at this
  exact this

/-- non-vacuity of the assembled theorem: R8G8B8A8_UNORM from RGBA-U8 picks `copy_directly` (one write of the whole
data for a contiguous view), from RGB-U8 the colour conversion, B5G6R5 with colour dithering the Floyd–Steinberg body,
NV12 the bi-planar body, BC1 the block body; `Body.Matches` holds for them; the view of the first example is `VOK` -/
example :
    (pickEncoderT ⟨.plain, [.copy C19.rgbaU8, .convert C19.rgbaU8, .universal, .ditherCA]⟩ C19.rgbaU8 .none).map
      (·.colors) = some (.single C19.rgbaU8) ∧
    (pickEncoderT ⟨.plain, [.copy C19.rgbaU8, .convert C19.rgbaU8, .universal, .ditherCA]⟩ C19.rgbU8 .none).map
      (·.colors) = some (.ofPrec .u8) ∧
    (pickEncoderT ⟨.plain, [.universal, .ditherC]⟩ C19.rgbaF32 ⟨true, false⟩).map (·.kind) = some .fsDither ∧
    Body.Matches .plain (.fixed 4) (.copy C19.rgbaU8) .copy ∧
    Body.Matches .plain (.fixed 2) .ditherC (.dither 2 2 2) ∧
    Body.Matches .biPlanar (.biPlanar 1 2 2 2) .universal (.biPlanar 1 1 2 1) ∧
    Body.Matches .bc (.block 8 4 4) (.bcCA C19.wJoint) (.block 8 1) ∧
    (Body.copy.runT ⟨0, 7200, 600, 3, 4, 2400⟩ (colorOf C19.rgbaU8) false = some (some [7200])) := by
  refine ⟨by decide +kernel, by decide +kernel, by decide +kernel, .copy 4 _ _ (by decide),
    .dither 2 2 2 _ (by omega) (Or.inr rfl), .biPlanar 1 2 1 1 _ (Or.inl rfl) (Or.inl rfl), .block 8 1 _,
    by decide +kernel⟩

end Dds.C15
namespace Dds.C15

end Dds.C15

/-! ## The float → integer sites of the block-compression encoders (`EncBcSites.lean`, branch `wE`)

Every place of src/encode/bc4.rs, bc1.rs, bc7.rs where an `f32` becomes an integer that is then a checked `u8`
operand, an index or a `debug_assert!`-guarded field (inventory with the data flow: notes/C15.md), as a trapping
mirror on binary32 bit patterns: `none` = a panic of the overflow-checking / debug-assertion profile.  Proved
for EVERY bit pattern of the site's guaranteed input set — all 2^32 (2^64 for pairs) unless a hypothesis says
otherwise; the hypotheses `≤ one` are themselves theorems about the loaders (`bc4_block_clamp_range`).  glam's
`min`/`max`/`clamp` are its SSE2 backend's `_mm_min_ps`/`_mm_max_ps` (`sseMin`, `sseMax`); where it matters both
that and `f32::min` are covered.  NOT covered: assertions on float VALUES (`Inter6Palette::new`'s `c0 != c1`,
`best_error.is_finite()`, `best_c0 <= best_c1` of `optimal_channel`, which depend on float comparisons of the
search loops) — these stay with the harness. -/
namespace Dds.C15
open Dds Dds.CF32 Dds.EncBcSites

/-- `Block::from_raw` (bc4.rs:31) and `compress_bc1_block` (bc1.rs:76): glam's SSE2 `clamp(ZERO, ONE)` maps EVERY
pattern — NaN of any payload, ±∞, −0.0, negative, huge, subnormal — to a pattern `+0.0 … 1.0`, and lane-wise /
horizontal SSE2 `min`/`max` of such values (`Block::min_max`, `get_single_color`) stay there. -/
theorem bc4_block_clamp_range (x : Nat) (hx : x < 2 ^ 32) :
    sseClamp01 x ≤ one ∧
    ∀ a b, a ≤ one → b ≤ one → sseMin a b ≤ one ∧ sseMax a b ≤ one := by
  refine ⟨sseClamp01_le x hx, fun a b ha hb => ⟨?_, ?_⟩⟩
  · unfold sseMin; split <;> assumption
  · unfold sseMax; split <;> assumption

/-- `reference_brute_force` (bc4.rs:126–135; reached at quality Unreasonable): for every block minimum and maximum
(any patterns) and every `min` of the outer loop `0..min_max`, `min + 1` does not overflow `u8` and every `max` of the
inner loop `max_min.max(min + 1)..=255` passes `debug_assert!(c0 > c1)` of `new_inter6_unorm(max, min)`. -/
theorem bc4_brute_force_bounds_trapfree (blockMin blockMax mn : Nat) (h : mn < bruteMinMax blockMax) :
    ∃ lo, bruteInnerLo (bruteMaxMin blockMin) mn = some lo ∧ mn < lo ∧
      ∀ mx, lo ≤ mx → newInter6Unorm mx mn = some (mx, mn) :=
  brute_ok blockMin blockMax mn h

/-- the single-colour path (bc4.rs:97–99, 401–422): for block extrema in `[+0, 1]` (guaranteed by
`bc4_block_clamp_range`) `value = (min + max) * 0.5` is again a pattern `+0.0 … 1.0`, and for such a value
`new_closest` passes `debug_assert!(x <= 254)` of `s8::from_norm` (snorm) — UNORM has no assertion. -/
theorem bc4_single_color_sites_trapfree (bmin bmax : Nat) (h1 : bmin ≤ one) (h2 : bmax ≤ one) (snorm : Bool) :
    singleValue bmin bmax ≤ one ∧
    ∃ c0 c1, newClosest snorm (singleValue bmin bmax) = some (c0, c1) ∧ c0 < 256 ∧ c1 < 256 :=
  ⟨singleValue_le bmin bmax h1 h2, newClosest_some snorm _ (singleValue_le bmin bmax h1 h2)⟩

/-- `EndPoints::quantize` and `EndPoints::new_inter6` (bc4.rs:425–565), UNORM and SNORM, for EVERY pair of bit
patterns (NaN, ±∞, negative, > 1, both zeros) and every choice of `f32::min`/`f32::max` on a ±0 tie: no `u8`
subtraction underflows (`254 - …`, `255 - …`, `min -= 1`), `debug_assert!(min < max)` holds, both
`s8::from_norm` assertions hold, `debug_assert!(c0 != c1)` holds; the codes are distinct bytes, `c0 > c1` as `u8`
(UNORM) resp. as `i8` (`new_inter6`, SNORM): the block is in 6-interpolation mode. -/
theorem bc4_endpoint_sites_trapfree (t1 t2 snorm : Bool) (e0 e1 : Nat) (h0 : e0 < 2 ^ 32) (h1 : e1 < 2 ^ 32) :
    (∃ c0 c1, quantizeEnds t1 t2 snorm e0 e1 = some (c0, c1) ∧ c0 < 256 ∧ c1 < 256 ∧ c0 ≠ c1 ∧
      (snorm = false → c1 < c0)) ∧
    (∃ c0 c1, newInter6 t1 t2 snorm e0 e1 = some (c0, c1) ∧ c0 < 256 ∧ c1 < 256 ∧
      (snorm = false → c1 < c0) ∧ (snorm = true → asI8 c1 < asI8 c0)) := by
  obtain ⟨c0, c1, e, a, b, c, d, _⟩ := quantizeEnds_some t1 t2 snorm e0 e1 h0 h1
  exact ⟨⟨c0, c1, e, a, b, c, d⟩, newInter6_some t1 t2 snorm e0 e1 h0 h1⟩

/-- what the proof of `bc4_endpoint_sites_trapfree` rests on: for every non-NaN pattern
`(255·x) as u8 + (255·(1 − x)) as u8 ≤ 255` (so `255 − …` is at least the rounded-down minimum), and the same with
254 on the clamped range.  Not an error bound: `x ↦ (K·x) as u8` is monotone, `x ↦ (K·(1 − x)) as u8` antitone
(`rpU_mono`), and 256 checked cut points (`decide +kernel`) cover `[+0, 1]`. -/
theorem bc4_floor_ceil_sum (x : Nat) (hx : x < 2 ^ 32) (hn : isNaN x = false) :
    floorK k255 x + ceilTermK k255 x ≤ 255 ∧
    (x = signBit ∨ x ≤ one → floorK k254 x + ceilTermK k254 x ≤ 254) :=
  ⟨sum255 x hx hn, sum254 x⟩

/-- `Inter6Palette::closest` (bc4.rs:758–762): for EVERY `pixel`, `factor1`, `add1` (so every `blend`, NaN
included) `INDEX_MAP[blend7 as usize]` is in bounds and the index value passes `debug_assert!(value < 8)` of
`IndexList::set`. -/
theorem bc4_index_map_in_range (pixel factor1 add1 : Nat) :
    ∃ b v, inter6Closest pixel factor1 add1 = some (b, v) ∧ b ≤ 7 ∧ indexValueOk v = true :=
  inter6Closest_some pixel factor1 add1

/-- `R5G6B5Color::round`, `floor`, `ceil` (bc1.rs:637–650) for EVERY colour (three arbitrary patterns), with glam's
SSE2 `min` (`sse = true`) as well as with `f32::min` (`false`): the three `debug_assert!`s of `R5G6B5Color::new`
hold. -/
theorem bc1_r5g6b5_round_in_range (sse : Bool) (x y z : Nat) :
    (∃ r g b, r5g6b5Round sse x y z = some (r, g, b) ∧ r ≤ 31 ∧ g ≤ 63 ∧ b ≤ 31) ∧
    (∃ r g b, r5g6b5Floor sse x y z = some (r, g, b) ∧ r ≤ 31 ∧ g ≤ 63 ∧ b ≤ 31) ∧
    (∃ r g b, r5g6b5Ceil sse x y z = some (r, g, b) ∧ r ≤ 31 ∧ g ≤ 63 ∧ b ≤ 31) :=
  ⟨r5g6b5_lanes sse _ x y z, r5g6b5_lanes sse _ x y z, r5g6b5_lanes sse _ x y z⟩

/-- `optimal_channel` (bc1.rs:379–401) for EVERY `color`, `w0`, `w1`, `c0` and `max ∈ {31, 63}`: the loop bound
`c0_max ≤ max`; `c1_floor + 1` does not overflow `u8`; `c1_floor ≤ c1_ceil ≤ max` (the `best_c1 <= max` half of the
final `debug_assert!`, and `R5G6B5Color::new`'s).  The other half, `best_c0 <= best_c1`, depends on which candidate
the float error comparison picks and is NOT proved here. -/
theorem bc1_single_color_sites_trapfree (color w0 w1 c0 mx : Nat) (hmx : mx = 31 ∨ mx = 63) :
    optC0Max color mx ≤ mx ∧
    ∃ f c, optC1 color w0 w1 mx c0 = some (f, c) ∧ f ≤ c ∧ c ≤ mx :=
  ⟨optC0Max_le color mx, optC1_some color w0 w1 mx c0 (by omega)⟩

/-- `channel_round::<B>` (bc7.rs:2197) behind `Rgb/Rgba/Alpha::<B>::new` for every `B` the encoder instantiates
(4 … 8) and EVERY pattern: not `unreachable!()`, no `u8` over/underflow of `nearest ± 1`, and
`debug_assert!(x <= MAX)` holds. -/
theorem bc7_channel_round_in_range (B v : Nat) (hB : 4 ≤ B ∧ B ≤ 8) (hv : v < 2 ^ 32) :
    ∃ r, quantRound B v = some r ∧ r ≤ 2 ^ B - 1 := by
  obtain ⟨r, e, h⟩ := channelRound_some B v hB hv
  unfold quantRound chanNew; rw [e]; dsimp only; rw [if_pos h]; exact ⟨r, rfl, h⟩

/-- `channel_floor::<B>` (bc7.rs:2216), likewise -/
theorem bc7_channel_floor_in_range (B v : Nat) (hB : 4 ≤ B ∧ B ≤ 8) (hv : v < 2 ^ 32) :
    ∃ r, quantFloor B v = some r ∧ r ≤ 2 ^ B - 1 := by
  obtain ⟨r, e, h⟩ := channelFloor_some B v hB hv
  unfold quantFloor chanNew; rw [e]; dsimp only; rw [if_pos h]; exact ⟨r, rfl, h⟩

/-- `channel_ceil::<B>` (bc7.rs:2234), likewise -/
theorem bc7_channel_ceil_in_range (B v : Nat) (hB : 4 ≤ B ∧ B ≤ 8) :
    ∃ r, quantCeil B v = some r ∧ r ≤ 2 ^ B - 1 := by
  obtain ⟨r, e, h⟩ := channelCeil_some B v hB
  unfold quantCeil chanNew; rw [e]; dsimp only; rw [if_pos h]; exact ⟨r, rfl, h⟩

-- the clamp: NaN (either sign), −0.0, −∞ ↦ +0.0; +∞ ↦ 1.0; a subnormal stays
example : sseClamp01 0x7FC00000 = 0 ∧ sseClamp01 0xFFC00001 = 0 ∧ sseClamp01 0x80000000 = 0 ∧
    sseClamp01 0xFF800000 = 0 ∧ sseClamp01 0x7F800000 = one ∧ sseClamp01 1 = 1 := by decide +kernel
-- the `[+0, 1]` hypothesis of the single-colour site is needed (1.01 ↦ norm 255: `s8::from_norm` would panic) and
-- satisfiable (1.0 ↦ 254 ↦ 0x7F; 0.5 ↦ 127 ↦ 0x00)
example : newClosest true 0x3F8147AE = none ∧ newClosest true one = some (127, 129) ∧
    newClosest true half = some (0, 129) ∧ one ≤ one ∧ singleValue one one = one := by decide +kernel
-- endpoints: equal values take the second stage (0.5/0.5: floor 127, 255 − floor(127.5) = 128); NaN/NaN gives
-- (255, 0); a pair far outside [0, 1] saturates; SNORM: 0.5/0.5 gives norms 126/127 = codes 0xFF/0x00;
-- −0.0 against +0.0 with either tie choice
example : quantizeEnds false false false half half = some (128, 127) ∧
    quantizeEnds true true false 0x7FC00000 0xFFC00000 = some (255, 0) ∧
    quantizeEnds false true false 0xC2C80000 0x42C80000 = some (255, 0) ∧
    quantizeEnds false false true half half = some (0, 255) ∧
    newInter6 false false true half half = some (0, 255) ∧
    quantizeEnds true false false 0x80000000 0 = some (1, 0) ∧
    quantizeEnds false true true 0x80000000 0 = some (130, 129) := by decide +kernel
-- the brute-force bounds of an all-ones block: `min_max = 255`, so `min = 254` is the last outer iteration
example : bruteMinMax one = 255 ∧ bruteMaxMin one = 254 ∧ 254 < bruteMinMax one ∧
    bruteInnerLo (bruteMaxMin one) 254 = some 255 := by decide +kernel
-- BC1: NaN quantises to the maximum through `min` (SSE2 and scalar alike), −∞ to 0, 1.0 to 31/63/31
example : r5g6b5Round true 0x7FC00000 0xFF800000 one = some (31, 0, 31) ∧
    r5g6b5Round false 0x7FC00000 0xFF800000 one = some (31, 0, 31) ∧
    r5g6b5Ceil true one one 0 = some (31, 63, 0) ∧ r5g6b5Floor true one 0x7F800000 half = some (31, 63, 15) := by
  decide +kernel
-- BC7: NaN ↦ 0 behind `clamp`, +∞ ↦ MAX, 1.0 ↦ MAX, and the `min` of the 4-bit case
example : quantRound 5 0x7FC00000 = some 0 ∧ quantRound 7 0x7F800000 = some 127 ∧ quantRound 6 one = some 63 ∧
    quantRound 4 0x7FC00000 = some 15 ∧ quantCeil 5 half = some 16 ∧ quantFloor 5 half = some 15 ∧
    quantRound 3 one = none := by decide +kernel

end Dds.C15

/-! ## Section Q — `Encoder::write_surface_impl` with mipmap generation does not panic (`TrapMip.lean`)

`writeSurfaceT` evaluates, in program order, every operation of src/encoder.rs:156–241 that can panic in the
overflow-checking profile: `iter.current()`, `current.mipmap_level + 1` (`u8`), `saturating_sub`, the progress
sub-ranges (`level as i32 + 1`, `ProgressRange::from_to`'s `debug_assert!(from <= to)` on `1 − 0.4^l`, exact
rationals), `iter.advance()`, `Vec::with_capacity(16)`, the look-ahead loop, `MipmapCache::generate` with all of
section Q of `Theorems/C16.lean` behind it, and the `u8` counter `level += 1` of the callback.  `encode` itself is
section M (`encode_loops_trapfree`). -/
namespace Dds.C15
open Dds Dds.TrapMip Dds.TrapEnc

/-- For every encoder state satisfying C11's invariant (any layout, any cursor position, generation on or off) whose
iterator is the layout's (`Linked`, established by `Encoder::new`: `linked_new`), every cache state, every image the
public API can build (C20's invariant: any size — also a wrong one —, address, pitch, colour; pixel bytes ≤ `BMAX`),
every filter and alpha setting, cancelled or not: the trapping mirror of `write_surface_impl` returns `some`, and
what it returns is exactly `Enc.write` — the function C11's theorems (`step_inv`, `history`, …) are about — so those
theorems hold in the trapping semantics; the cache stays well-formed for the next call. -/
theorem write_surface_trapfree (al : Alloc) (ha : AlOK al) (rayon : Bool) (e : Enc) (v : C11.EncInv e)
    (hL : Linked e) (k : Cache) (hk : CacheOK k) (im : Img) (him : ImgOK im) (pre : Bool) :
    ∃ k', writeSurfaceT al rayon e k im pre =
        some ((e.write im.v.w im.v.h pre).1, (e.write im.v.w im.v.h pre).2, k') ∧ CacheOK k' ∧
      e.step (if pre then .writeCancelled im.v.w im.v.h else .write im.v.w im.v.h) = e.write im.v.w im.v.h pre ∧
      C11.EncInv (e.write im.v.w im.v.h pre).1 ∧ (e.write im.v.w im.v.h pre).2 ≠ .panic := by
  obtain ⟨k', e1, e2⟩ := writeSurfaceT_ok ha rayon e v.iter hL hk him pre
  refine ⟨k', e1, e2, ?_, ?_⟩
  · cases pre <;> rfl
  · cases pre with
    | true => exact C11.step_inv e v (.writeCancelled im.v.w im.v.h)
    | false => exact C11.step_inv e v (.write im.v.w im.v.h)

/-- `Encoder::new` links the iterator to the layout -/
theorem linked_new (L : DataLayout) (mw mh : Nat) : Linked (Enc.new L mw mh) := by
  cases L <;> simp [Linked, Enc.new, SurfIter.new, DataLayout.isVolume, DataLayout.mips, TextureArray.first]

/-- a 2×2 RGBA8 texture with 2 levels, cursor at level `l`, generation on -/
def exEnc (l : Nat) : Enc :=
  { Enc.new (.texture ⟨2, 2, 2, .fixed 4, 0, some 20⟩) 1 1 with iter := .tex ⟨⟨2, 2, 2, .fixed 4, 0, some 20⟩, 1, 0, l⟩ }
def exAlQ : Alloc := fun _ n => 64 * (n + 1)

-- the hypotheses are satisfiable; level 0 at an odd address with a pitch generates level 1 (Triangle on 2×2: the
-- one-level case of previous-two) and the encoder is done
example : Linked (exEnc 0) ∧ AlOK exAlQ ∧ ImgOK ⟨1001, ⟨0, 19, 2, 2, 4, 11⟩, ⟨.rgba, 1⟩, .triangle, true⟩ ∧
    (writeSurfaceT exAlQ true (exEnc 0) Cache.new ⟨1001, ⟨0, 19, 2, 2, 4, 11⟩, ⟨.rgba, 1⟩, .triangle, true⟩ false).map
      (fun r => (r.1.written, r.2.1, r.1.finish)) = some (20, .ok, .ok) := by
  refine ⟨⟨rfl, rfl⟩, fun _ n => by show 64 * (n + 1) % 4 = 0; omega, ⟨⟨⟨by decide, by decide, by decide, by decide,
    by decide, by decide, by decide, by decide⟩, rfl, by decide, by decide⟩, Or.inl rfl, by unfold BMAX; decide⟩, by decide +kernel⟩
-- seed C11b (`mipmaps_to_generate = mipmaps − 1`): writing the LAST level by hand with generation on enters the
-- mipmap branch with an empty size list and `generate_from_previous` panics at `sizes[0]`; the code as it is
-- writes the level (4 bytes) and is done.  (For a level-0 surface both agree.)
example : writeSurfaceWithT toGenSeedT exAlQ true (exEnc 1) Cache.new ⟨1000, ⟨0, 4, 1, 1, 4, 4⟩, ⟨.rgba, 1⟩, .box, true⟩ false
      = none ∧
    (writeSurfaceT exAlQ true (exEnc 1) Cache.new ⟨1000, ⟨0, 4, 1, 1, 4, 4⟩, ⟨.rgba, 1⟩, .box, true⟩ false).map
      (fun r => (r.1.written, r.2.1)) = some (4, .ok) ∧
    writeSurfaceWithT toGenSeedT exAlQ true (exEnc 0) Cache.new ⟨1000, ⟨0, 16, 2, 2, 4, 8⟩, ⟨.rgba, 1⟩, .box, true⟩ false =
      writeSurfaceT exAlQ true (exEnc 0) Cache.new ⟨1000, ⟨0, 16, 2, 2, 4, 8⟩, ⟨.rgba, 1⟩, .box, true⟩ false := by
  decide +kernel
-- a layout with a single level: the seed's `1 − 1 = 0`; with `mipmaps() = 0` impossible (`NonZeroU8`)
example : toGenSeedT (exEnc 0) ⟨2, 2, 16, 0⟩ = some 1 ∧ toGenT (exEnc 1) ⟨1, 1, 4, 1⟩ = some 0 ∧
    toGenT (exEnc 0) ⟨1, 1, 4, 255⟩ = none := by decide +kernel

end Dds.C15

/-! ## Section Q, continued — `write_surface_trapfree` for every reachable encoder state

`Linked` is kept by every call kind of `Enc.step` (`TrapMip.linked_step`: the only assignment to `iter` is
`SurfaceIterator::advance`, which keeps the variant and a texture iterator's texture; nothing assigns `layout`), hence
by every history (`TrapMip.linked_history`), and `Encoder::new` establishes it (`linked_new`) together with C11's
invariant (`C11.new_inv`).  So the hypothesis `Linked e` of `write_surface_trapfree` can be discharged. -/
namespace Dds.C15
open Dds Dds.TrapMip Dds.TrapEnc

/-- every call — accepted, rejected or cancelled write, a write that failed while generating a mipmap, the
`mipmaps.generate` switch, `finish` — keeps the iterator linked to the layout (no other hypothesis on the state) -/
theorem linked_preserved (e : Enc) (hL : Linked e) (op : EncOp) : Linked (e.step op).1 :=
  linked_step e hL op

/-- ... and so does every history of calls from `Encoder::new`'s state, for any layout and size multiple -/
theorem linked_reachable (L : DataLayout) (mw mh : Nat) (ops : List EncOp) :
    Linked (C11.run (Enc.new L mw mh) ops).1 :=
  linked_history ops _ (linked_new L mw mh)

/-- For every layout whose fresh iterator satisfies C08's invariant (what `C11.new_inv` asks of an accepted header),
every size multiple and EVERY history of calls `ops` (writes of any size, cancelled writes, switching generation on
and off, `finish` queries; no bound on the length): the next `write_surface` call in the state reached has the
conclusion of `write_surface_trapfree` — no hypothesis on the state is left. -/
theorem write_surface_trapfree_history (L : DataLayout) (hnew : C08.IterInv (SurfIter.new L)) (mw mh : Nat)
    (ops : List EncOp) (al : Alloc) (ha : AlOK al) (rayon : Bool) (k : Cache) (hk : CacheOK k) (im : Img)
    (him : ImgOK im) (pre : Bool) :
    let e := (C11.run (Enc.new L mw mh) ops).1
    ∃ k', writeSurfaceT al rayon e k im pre =
        some ((e.write im.v.w im.v.h pre).1, (e.write im.v.w im.v.h pre).2, k') ∧ CacheOK k' ∧
      e.step (if pre then .writeCancelled im.v.w im.v.h else .write im.v.w im.v.h) = e.write im.v.w im.v.h pre ∧
      C11.EncInv (e.write im.v.w im.v.h pre).1 ∧ (e.write im.v.w im.v.h pre).2 ≠ .panic :=
  write_surface_trapfree al ha rayon _ (C11.history ops _ (C11.new_inv L mw mh hnew)).1
    (linked_reachable L mw mh ops) k hk im him pre

/-- The same from the header: for every header (`u32` fields, `NonZeroU32` mip count) and pixel format for which
`DataLayout::from_header_with` — the only fallible step of `Encoder::new` besides `encoding_support` and the header
write — returns a layout, every size multiple of the format, and EVERY call history from the new encoder: the next
`write_surface` / `write_surface_with_progress` call (any image the API can build, any cache state, cancelled or
not) does not panic in the overflow-checking profile, computes exactly `Enc.write`, keeps C11's invariant and leaves a
well-formed cache. -/
theorem write_surface_trapfree_reachable (hd : LayoutHeader) (px : PixelInfo) (hp : px.WF)
    (hr : C02.HeaderInRange hd) (hm : 1 ≤ hd.mipmapCount) (L : DataLayout) (hl : layoutOf hd px = some (.ok L))
    (mw mh : Nat) (ops : List EncOp) (al : Alloc) (ha : AlOK al) (rayon : Bool) (k : Cache) (hk : CacheOK k)
    (im : Img) (him : ImgOK im) (pre : Bool) :
    let e := (C11.run (Enc.new L mw mh) ops).1
    ∃ k', writeSurfaceT al rayon e k im pre =
        some ((e.write im.v.w im.v.h pre).1, (e.write im.v.w im.v.h pre).2, k') ∧ CacheOK k' ∧
      e.step (if pre then .writeCancelled im.v.w im.v.h else .write im.v.w im.v.h) = e.write im.v.w im.v.h pre ∧
      C11.EncInv (e.write im.v.w im.v.h pre).1 ∧ (e.write im.v.w im.v.h pre).2 ≠ .panic :=
  write_surface_trapfree_history L (fresh_iterInv hd px hp hr hm L hl) mw mh ops al ha rayon k hk im him pre

-- the header hypotheses are satisfiable (2×2 RGBA8, 2 levels: the layout of `exEnc`), and after the history
-- "generation off, write level 0, generation on" the cursor is at level 1 (16 bytes written) and the next write of
-- the 1×1 level by hand completes the file
example :
    PixelInfo.WF (.fixed 4) ∧
    (match layoutOf ⟨2, 2, none, 2, .dx10 false .tex2D 1⟩ (.fixed 4) with
     | some (.ok L) => decide (L = .texture ⟨2, 2, 2, .fixed 4, 0, some 20⟩)
     | _ => false) = true ∧
    Enc.new (.texture ⟨2, 2, 2, .fixed 4, 0, some 20⟩) 1 1 = exEnc 0 ∧
    (fun e : Enc => (e.written, e.generate, decide (e.iter = (exEnc 1).iter)))
      (C11.run (exEnc 0) [.setGenerate false, .write 2 2, .finish, .setGenerate true]).1 = (16, true, true) ∧
    (writeSurfaceT exAlQ true (C11.run (exEnc 0) [.setGenerate false, .write 2 2, .finish, .setGenerate true]).1
        Cache.new ⟨1000, ⟨0, 4, 1, 1, 4, 4⟩, ⟨.rgba, 1⟩, .box, true⟩ false).map
      (fun r => (r.1.written, r.2.1, r.1.finish)) = some (20, .ok, .ok) := by
  decide +kernel
example : C02.HeaderInRange ⟨2, 2, none, 2, .dx10 false .tex2D 1⟩ :=
  ⟨by decide, by decide, fun _ h => (by cases h), fun _ _ _ h => (by cases h; decide)⟩

end Dds.C15
