/-
C01 — Hostile files never crash the reader: parse, layout and decode are total.

The statements are about the *composed* model `Reader.lean`
(`Decoder::new_with_options` = `Header::read` ; `Format::from_header` ; `DataLayout::from_header_with` ;
`SurfaceIterator::new`, then any list of `Decoder` calls over an arbitrary stream), which only chains the
models that C02, C05, C06, C08, C09, C18, C19 and C20 are about.  A Rust panic (failed `unwrap` / `expect` /
`assert!`, slice index out of range, arithmetic trap of the overflow-checking profile) is the value
`panic` of the result types; wrapping operators of the release profile are `wAdd`/`wMul` in the models
and the cited theorems show their ideal value is in range (so "no trap" and "release = ideal" are the
same fact).  Helper lemmas: `Proofs/C01.lean`.

ASSEMBLED here (all inputs, no bounds):
* `parse_layout_trapfree`, `parse_bytes_trapfree`, `layout_from_header_trapfree`
* `cursor_ops_trapfree`, `opened_cursor_ops_trapfree`, `cursor_ops_with_rewinds_trapfree`
* `decode_geometry_trapfree`, `every_format_has_a_decoder`, `decode_addresses_in_view`,
  `decode_addresses_planar` (bi-planar family, assembled since `C05.rect_eq_crop_planar`)
* `truncated_is_io_error`, `fault_is_io_error`, `no_success_on_short_stream`

Termination (remark, not a theorem): every definition of `Header.lean`, `HeaderTables.lean`,
`FormatTables.lean`, `Layout.lean`, `Iter.lean`, `Stream.lean`, `Addr.lean`, `Decoder.lean` and
`Reader.lean` is accepted by Lean's termination checker as structural recursion or a fold over a list
whose length is a function of the input (mip count ≤ 255, `List.range` of a line count, the operation
list); there is no `partial`, no fuel that can run out (the only fuel, `bitLen 32`, is the width of a
`u32`) and `check.py` rejects `partial` / `unsafe` / `implemented_by` in every model file.  So "fails to
terminate" has no counterpart in the model; for the implementation it is the watchdog of the tie.

NOT modelled for totality (exercised by the tie only, on both build profiles): the per-pixel / per-block
codec bodies (`bc*.rs`, `bc6.rs`, `bc7.rs`, `uncompressed.rs`, `sub_sampled.rs`, `bi_planar.rs` conversion
arithmetic on fixed-size arrays with literal indices and saturating casts), `convert_channels_for`, the
external `astc-decode` crate, and `std` (`read_exact`, `io::copy`, `Vec::try_reserve_exact`).
-/
import DdsModel.Proofs.C01
import DdsModel.Theorems.C05
import DdsModel.Theorems.C20
import DdsModel.Drv.C01
namespace Dds.C01
open Dds Dds.Stream Dds.Reader

/-! ## 1. parse + format detection + layout -/

/-- **`Decoder::new_with_options` is total.**  For EVERY stream of `u32` words and every `ParseOptions`
(strict / permissive, any `file_len`, `skip_magic_bytes`): the result is `Ok` or one of the library's
errors (`HeaderError`, `FormatError`, `LayoutError`), never a panic — no `unwrap()` of
`impl From<Format> for PixelInfo`, of `data_len()` or of `TextureArray::new` fails, also not inside the
repair loop of `fix_based_on_file_len` (`C18.repair_no_panic`).  For every accepted file: the header
is well-formed (`NonZeroU32` mip count, valid DXGI code, all fields `u32`), the decoder family exists
and has the unit sizes of the format's `PixelInfo`, the data length is defined and `< 2^64`, the layout
satisfies C02's validity invariant (so by `C02.flatten_eq_spec` every surface offset and length is the
ideal value and lies inside the data section, i.e. no `u64` operation wrapped), and a fresh
`SurfaceIterator` satisfies C08's iterator invariant (`current_level ≤ mipmaps ≤ 255`, `len < 2^32`). -/
theorem parse_layout_trapfree (opts : ParseOptions) (ws : List Nat) (hws : ∀ w ∈ ws, w < U32) :
    openWords opts ws ≠ .error .panic ∧
    ∀ o, openWords opts ws = .ok o →
      o.header.WF ∧ o.fam.WF ∧ o.fam.px = o.px ∧ o.px.WF ∧
      layoutOf o.header.toLayoutHeader o.px = some (.ok o.layout) ∧
      (∃ n, o.layout.dataLenP = some n ∧ n < U64) ∧
      C02.LayoutValid o.layout ∧
      C08.IterInv (SurfIter.new o.layout) := by
  unfold openWords
  cases hr : Header.read pixelInfoOf opts ws with
  | error e => simp only; exact ⟨(by intro h; cases h), (by intro o h; cases h)⟩
  | ok p =>
    obtain ⟨h, rest⟩ := p
    have hwf : h.WF := C09.parsed_wf_words pixelInfoOf opts ws hws h rest hr
    simp only
    cases hfm : C19.formatOfHeader (hdrOf h) with
    | error e => simp only; exact ⟨(by intro h; cases h), (by intro o h; cases h)⟩
    | ok f =>
      simp only
      obtain ⟨fam, hfam, hfwf, hfpx⟩ := fam_of_format f
      rw [C19.formatPixelInfoP_eq f, hfam]
      simp only
      have hpx : f.row.px.WF := by rw [← hfpx]; exact Fam.WF.px hfwf
      obtain ⟨hne, hlen⟩ := C18.repair_no_panic h hwf f.row.px hpx
      cases hl : layoutOf h.toLayoutHeader f.row.px with
      | none => exact absurd hl hne
      | some r =>
        cases r with
        | error e => simp only; exact ⟨(by intro h; cases h), (by intro o h; cases h)⟩
        | ok L =>
          simp only
          refine ⟨(by intro h; cases h), ?_⟩
          intro o ho
          simp only [Except.ok.injEq] at ho
          subst ho
          have hir := Header.toLayoutHeader_inRange hwf
          exact ⟨hwf, hfwf, hfpx, hpx, hl, hlen L hl,
            (C02.layoutOf_valid _ _ hpx hir L hl).1,
            new_iterInv _ _ hpx hir (wf_mips hwf) L hl⟩

/-- the same for every byte string (little-endian words; 1..3 trailing bytes cannot complete a
`read_exact`) -/
theorem parse_bytes_trapfree (opts : ParseOptions) (bs : List Nat) (hbs : ∀ b ∈ bs, b < 256) :
    openBytes opts bs ≠ .error .panic ∧
    ∀ o, openBytes opts bs = .ok o →
      o.header.WF ∧ o.fam.WF ∧ (∃ n, o.layout.dataLenP = some n ∧ n < U64) ∧
      C08.IterInv (SurfIter.new o.layout) := by
  have h := parse_layout_trapfree opts (leWords bs) (leWords_lt bs.length bs (Nat.le_refl _) hbs)
  refine ⟨h.1, fun o ho => ?_⟩
  obtain ⟨a, b, _, _, _, c, _, d⟩ := h.2 o ho
  exact ⟨a, b, c, d⟩

/-- **`DataLayout::from_header` is total** on every header `Header::read` can return
(`C09.parsed_wf_words`: they are all well-formed): `PixelInfo::from_header` fails with a format error or
gives a well-formed pixel info, and then the layout code returns `Ok`/`Err` with a defined data length. -/
theorem layout_from_header_trapfree (h : Header) (hwf : h.WF) :
    layoutFromHeader h ≠ none ∧
    ∀ L, layoutFromHeader h = some (some (.ok L)) → ∃ n, L.dataLenP = some n ∧ n < U64 := by
  unfold layoutFromHeader
  cases hp : pixelInfoOf h with
  | none => exact ⟨(by simp), (by intro L hL; cases hL)⟩
  | some px =>
    obtain ⟨hne, hlen⟩ := C18.repair_no_panic h hwf px (pixelInfoOf_wf h px hp)
    simp only
    cases hl : layoutOf h.toLayoutHeader px with
    | none => exact absurd hl hne
    | some r =>
      refine ⟨(by simp), ?_⟩
      intro L hL
      simp only [Option.map_some, Option.some.injEq] at hL
      subst hL
      exact hlen L hl

/-! ## 2. cursor operations -/

/-- **No `Decoder` call of C01's list panics, over ANY stream.**  For every stream environment (any
length, hard error or early end of file anywhere, either `seek` behaviour, any allocator), every decoder
family with admissible unit sizes, every layout, every iterator state satisfying C08's invariant, and
every list (no length bound) of `read_surface` / `read_surface_rect` / `skip_surface` / `skip_mipmaps` /
`read_cube_map` / memory-limit changes with arbitrary arguments: every call returns `Ok` or an error
value and the invariant still holds — `self.current_level + 1` (`u8`), `current_index += 1` (`u32`),
`skipped_bytes += ..` and `offset += len` (`u64`) never trap (`C08.advance_refines`,
`C08.skipMipmaps_refines`: they are the ideal values), `first.get(level)` is never `None` when a surface
is current (`C08.current_total`), and the decode itself never reaches a panic operation
(`C06.result_kinds`).  No hypothesis on the size of the data section is needed. -/
theorem cursor_ops_trapfree (k : Cfg) (hf : k.fam.WF) (ops : List Reader.Op)
    (hops : ∀ op ∈ ops, op.inC01 = true) :
    ∀ s : RS, C08.IterInv s.iter →
      C08.IterInv (runOps k s ops).1.iter ∧ ∀ r ∈ (runOps k s ops).2, r ≠ .panic := by
  induction ops with
  | nil => intro s v; exact ⟨v, by simp [runOps]⟩
  | cons op rest ih =>
    intro s v
    obtain ⟨h1, h2⟩ := step_inv k hf s v op (hops op (by simp))
    obtain ⟨h3, h4⟩ := ih (fun o ho => hops o (by simp [ho])) (step k s op).1 h1
    simp only [runOps]
    refine ⟨h3, ?_⟩
    intro r hr
    simp only [List.mem_cons] at hr
    cases hr with
    | inl h => rw [h]; exact h2
    | inr h => exact h4 r h

/-- ... in particular for every file `Decoder::new_with_options` accepts, read over any stream from
any position with any memory limit. -/
theorem opened_cursor_ops_trapfree (opts : ParseOptions) (ws : List Nat) (hws : ∀ w ∈ ws, w < U32)
    (o : Opened) (ho : openWords opts ws = .ok o) (e : Env) (pos limit : Nat) (ops : List Reader.Op)
    (hops : ∀ op ∈ ops, op.inC01 = true) :
    ∀ r ∈ (runOps ⟨e, o.fam, o.layout⟩ ⟨SurfIter.new o.layout, pos, limit⟩ ops).2, r ≠ .panic := by
  obtain ⟨_, hfam, _, _, _, _, _, hinv⟩ := (parse_layout_trapfree opts ws hws).2 o ho
  exact (cursor_ops_trapfree ⟨e, o.fam, o.layout⟩ hfam ops hops ⟨SurfIter.new o.layout, pos, limit⟩ hinv).2

/-- **With the two rewinding calls** (`rewind_to_previous_surface`, `rewind_to_start`), which are NOT
in C01's list: they contain `i64::try_from(..).expect("Cannot seek back more than i64::MAX bytes")`, so
they need the extra hypothesis that the data section has at most `i64::MAX` bytes
(`C02.specTotal L ≤ I64MAX`; larger files cannot exist).  Under it `C08.history` gives: no call of ANY
operation list panics (ideal reader; C08's model `Decoder.lean`).  Without it the `expect` is
reachable: see the example below. -/
theorem cursor_ops_with_rewinds_trapfree (opts : ParseOptions) (ws : List Nat) (hws : ∀ w ∈ ws, w < U32)
    (o : Opened) (ho : openWords opts ws = .ok o) (hsmall : C02.specTotal o.layout ≤ I64MAX)
    (ops : List DecOp) : ∀ r ∈ (C08.run (Dec.new o.layout) ops).2, r ≠ .panic := by
  obtain ⟨hwf, _, _, hpx, hl, _, _, _⟩ := (parse_layout_trapfree opts ws hws).2 o ho
  have hinv := C08.new_inv _ _ hpx (Header.toLayoutHeader_inRange hwf) (wf_mips hwf) o.layout hl hsmall
  exact (C08.history ops (Dec.new o.layout) hinv).2

/-! ## 3. decode geometry -/

/-- every `Format` has a row in the decoder table, with admissible unit sizes (positive, `u8`; a
specialised whole-image path only for a colour of exactly the encoded pixel size) equal to the unit
sizes of `PixelInfo::from(format)` — so `get_decoders(format)` and the layout agree on every length. -/
theorem every_format_has_a_decoder (f : C19.Format) :
    ∃ fam, lookupFormat f.name = some fam ∧ fam.WF ∧ C19.formatPixelInfoP f = some fam.px := by
  obtain ⟨fam, h1, h2, h3⟩ := fam_of_format f
  exact ⟨fam, h1, h2, by rw [C19.formatPixelInfoP_eq, h3]⟩

/-- **`decode` / `decode_rect` never reach a panic operation.**  For every decoder family with
admissible unit sizes (by `every_format_has_a_decoder`: every format), every colour format, every call
(full decode of any `w × h`; rect decode of any surface size, offset and rect size, inside or outside
the surface, empty or not), every memory limit, every stream and reader position, every short-read
pattern and allocator behaviour: the result is `ok`, `ioError`, `memLimit` or `rectOutOfBounds` — no
`assert!`, `Ord::clamp`, division (`TARGET_BUFFER_SIZE / bytes_per_line`), `expect` or
`surface_size.width - offset.x - image.width()` fails.  And whenever validation accepts the call (exactly
when the surface has `≤ isize::MAX` encoded bytes and the rect is inside, `C06.validation_accepts_iff`):
all allocations precede the first reader call, the reader operations add up to exactly the surface's
byte length, that length and every allocation request are `≤ isize::MAX < 2^63` (so no `u64`/`usize`
product of the paths wraps or traps). -/
theorem decode_geometry_trapfree {f : Fam} (hf : f.WF) (c : Colour) (call : Call) (e : Env)
    (pats : List (List Nat)) (pos limit : Nat) :
    (run e pats (plan f c call) pos limit).1 ≠ .panic ∧
    ∀ ops, plan f c call = .ok ops →
      allocFirst ops ∧ span ops = call.bytes f ∧ need ops ≤ call.bytes f ∧ call.bytes f ≤ ISIZE_MAX := by
  refine ⟨?_, ?_⟩
  · have h := C06.result_kinds hf c call e pats pos limit
    intro hp
    rw [hp] at h
    simp at h
  · intro ops hplan
    obtain ⟨fa, hb⟩ := plan_facts hf hplan
    exact ⟨fa.af, fa.sp, fa.nd, hb⟩

/-- **All output addresses are inside the view** (per-pixel and block families; from C05).  For every
surface, every rect inside it, every row pitch `≥ w · bytes_per_pixel` (the `View` invariant of C20) and
every conversion setting: each write of the rect decode goes to a row `< h` and to bytes inside
`[row · pitch, row · pitch + w · bpp)`; the full decode is the rect `(0, 0, W, H)`. -/
theorem decode_addresses_in_view :
    (∀ (conv : Bool) (nbpp W ox oy w h : Nat), 0 < Addr.BUFFER_BYTES / nbpp → 0 < w → ox + w ≤ W →
      ∀ r ∈ Addr.pixelRect conv nbpp W ox oy w h, ∀ pitch obpp, w * obpp ≤ pitch →
        r.row < h ∧ r.row * pitch ≤ r.byteLo pitch obpp ∧ r.byteHi pitch obpp ≤ r.row * pitch + w * obpp) ∧
    (∀ (p : Addr.Proc) (g : Addr.RectGeom) (fastAt : Nat → Bool) (conv : Bool) (nbpp W H : Nat),
      Addr.RectOk p g conv nbpp → g.ox + g.w ≤ W → g.oy + g.h ≤ H →
      ∀ r ∈ Addr.blockRect p g fastAt conv nbpp, ∀ pitch obpp, g.w * obpp ≤ pitch →
        r.row < g.h ∧ r.row * pitch ≤ r.byteLo pitch obpp ∧ r.byteHi pitch obpp ≤ r.row * pitch + g.w * obpp) := by
  refine ⟨?_, ?_⟩
  · intro conv nbpp W ox oy w h hb hw hx r hr pitch obpp hp
    exact (C05.rect_eq_crop_pixel conv conv nbpp nbpp W (oy + h) ox oy w h hb hb hw hx (Nat.le_refl _)).2.2
      r hr pitch obpp hp
  · intro p g fastAt conv nbpp W H ok hx hy r hr pitch obpp hp
    exact (C05.rect_eq_crop_block p g fastAt fastAt conv false nbpp nbpp W H ok (by intro h; cases h) hx hy).2.2.1
      r hr pitch obpp hp

/-- **Bi-planar family: every address inside the view, every sample inside its plane.**  For every
bi-planar family the format table could hold (`Fam.WF`: sub-sampling `1 ≤ sx, sy ≤ 15`; shipped `(2, 2)`),
every native pixel size `1..16` bytes, conversion on or off, every surface `W × H` and every rectangle
inside it: each write of `for_each_bi_planar_rect` goes to a row `< h` and to bytes inside
`[row·pitch, row·pitch + w·bpp)` for every pitch `≥ w·bpp` (`get_row(y - offset.y)` and the chunk slicing of
`process_bi_planar` never leave the row), every luma sample read is `(x < W, y < H)` and every chroma sample
`(x < div_ceil(W, sx), y < div_ceil(H, sy))` (the `plane1` / `uv_line` slices are long enough), and
`step_by(preferred_chunk_size)` is never called with 0; the same for the full decode `for_each_bi_planar`.
(From `C05.rect_eq_crop_planar`, which now assembles the `y_offset` loops and the conversion chunks.) -/
theorem decode_addresses_planar (e1 e2 sx sy : Nat) (hf : (Fam.biPlanar e1 e2 sx sy).WF) (conv : Bool)
    (nbpp : Nat) (hn : 0 < nbpp) (hn16 : nbpp ≤ 16) (W H ox oy w h : Nat) (hx : ox + w ≤ W) (hy : oy + h ≤ H) :
    0 < Addr.roundDown (Addr.BUFFER_BYTES / nbpp) sx ∧
    (∀ r ∈ Addr.planarRect conv nbpp ⟨sx, sy, H, ox, oy, w, h⟩,
      (∀ pitch obpp, w * obpp ≤ pitch →
        r.row < h ∧ r.row * pitch ≤ r.byteLo pitch obpp ∧ r.byteHi pitch obpp ≤ r.row * pitch + w * obpp) ∧
      r.ly < H ∧ r.cy < divCeil H sy ∧
      ∀ t, t < r.n → r.lx + t < W ∧ r.cx + (r.px + t) / sx < divCeil W sx) ∧
    (∀ r ∈ Addr.planarFull conv nbpp sx sy W H,
      (∀ pitch obpp, W * obpp ≤ pitch →
        r.row < H ∧ r.row * pitch ≤ r.byteLo pitch obpp ∧ r.byteHi pitch obpp ≤ r.row * pitch + W * obpp) ∧
      r.ly < H ∧ r.cy < divCeil H sy ∧
      ∀ t, t < r.n → r.lx + t < W ∧ r.cx + (r.px + t) / sx < divCeil W sx) := by
  obtain ⟨_, _, _, _, hsx, hsx16, hsy, _⟩ := hf
  have hbuf : sx ≤ Addr.BUFFER_BYTES / nbpp := by
    rw [Nat.le_div_iff_mul_le hn]
    have : sx * nbpp ≤ 15 * 16 := Nat.mul_le_mul (by omega) hn16
    have : Addr.BUFFER_BYTES = 3072 := rfl
    omega
  have ok : Addr.PlOk sx sy conv nbpp := ⟨hsx, hsy, fun _ => hbuf⟩
  refine ⟨(Addr.roundDown_props hsx hbuf).1, ?_, ?_⟩
  · intro r hr
    obtain ⟨_, _, c3, c4⟩ := C05.rect_eq_crop_planar ⟨sx, sy, H, ox, oy, w, h⟩ conv conv nbpp nbpp W ok ok hx hy
    obtain ⟨_, d2, d3, d4⟩ := c4 r hr
    exact ⟨c3 r hr, d2, d3, d4⟩
  · intro r hr
    have hs := Addr.planarFull_sound conv nbpp sx sy W H ok
    obtain ⟨h1, h2, h3, h4, h5, h6, h7, h8, h9⟩ := hs r hr
    have hcy : r.cy * sy ≤ 0 + r.row := by rw [h8]; exact Nat.div_mul_le_self _ _
    refine ⟨?_, by omega, by rw [Addr.lt_divCeil_iff hsy]; omega, ?_⟩
    · intro pitch obpp hp
      obtain ⟨b1, _, b3, _⟩ := Addr.plRun_bytes_in_row pitch obpp W r hp h2
      exact ⟨h1, b1, b3⟩
    · intro t ht
      have e0 : (r.px + t) / sx = 0 := Nat.div_eq_of_lt (by omega)
      refine ⟨by omega, ?_⟩
      rw [e0, Nat.add_zero, Addr.lt_divCeil_iff hsx]; omega

example : (Fam.biPlanar 1 2 2 2).WF ∧ (0 : Nat) < 4 ∧ (4 : Nat) ≤ 16 ∧ (1 : Nat) + 3 ≤ 5 ∧ (1 : Nat) + 2 ≤ 3 := by decide

/-! ## 4. truncated data and reader errors -/

/-- **A full decode of a truncated surface ends in an I/O error.**  If the first offset the stream
cannot deliver (`Env.lim`: its end, a hard error, or an early `Ok(0)`) lies inside the surface that
starts at the reader position, then — whenever validation and the memory limit let the decode start —
the result is `ioError`: never `ok`, never a panic, for either `seek` behaviour (a full decode never
seeks) and every short-read pattern. -/
theorem truncated_is_io_error {f : Fam} (hf : f.WF) (c : Colour) (w h : Nat) {ops : List Stream.Op}
    (hplan : plan f c (.full w h) = .ok ops) (e : Env) (pats : List (List Nat)) (pos limit : Nat)
    (hgrant : C06.AllocatorGrants e) (hlimit : need ops ≤ limit)
    (h1 : pos ≤ e.lim) (h2 : e.lim < pos + (Call.full w h).bytes f) :
    (run e pats (plan f c (.full w h)) pos limit).1 = .ioError := by
  obtain ⟨fa, _⟩ := plan_facts hf hplan
  have hns : noSkip ops := by
    simp only [plan] at hplan
    split at hplan
    · cases hplan
    · split at hplan
      · simp only [Except.ok.injEq] at hplan; subst hplan; trivial
      · simp only [Except.ok.injEq] at hplan; subst hplan; exact noSkip_fullOps f c w h
  rw [hplan]; simp only [run]
  exact interp_short e hgrant ops pats { pos := pos, budget := limit } (allocFirst_noPanic fa.af) hns
    hlimit h1 (by rw [fa.sp]; exact h2)

/-- **Any call during which the reader reports an error ends in an I/O error** (full and rect
decodes): a hard reader error at any offset inside the surface — in a read, a buffer refill, a leading
or trailing skip — is returned as `ioError` (`C06.io_error_propagates`). -/
theorem fault_is_io_error {f : Fam} (hf : f.WF) (c : Colour) (call : Call) {ops : List Stream.Op}
    (hplan : plan f c call = .ok ops) (e : Env) (pats : List (List Nat)) (pos limit k : Nat)
    (hgrant : C06.AllocatorGrants e) (hlimit : need ops ≤ limit) (hfault : e.fault = some k)
    (hU : pos + call.bytes f < U64) (h1 : pos ≤ k) (h2 : k < pos + call.bytes f) :
    (run e pats (plan f c call) pos limit).1 = .ioError :=
  C06.io_error_propagates hf c call hplan e pats pos limit k hgrant hlimit hfault hU h1 h2

/-- **Never invented pixel data**: a full decode that returns `ok` found every byte of the surface —
the readable part of the stream reaches at least to the end of the surface. -/
theorem no_success_on_short_stream {f : Fam} (hf : f.WF) (c : Colour) (w h : Nat) {ops : List Stream.Op}
    (hplan : plan f c (.full w h) = .ok ops) (e : Env) (pats : List (List Nat)) (pos limit : Nat)
    (hgrant : C06.AllocatorGrants e) (hlimit : need ops ≤ limit) (h1 : pos ≤ e.lim)
    (hok : (run e pats (plan f c (.full w h)) pos limit).1 = .ok) :
    pos + (Call.full w h).bytes f ≤ e.lim := by
  apply Nat.le_of_not_lt
  intro hlt
  have := truncated_is_io_error hf c w h hplan e pats pos limit hgrant hlimit h1 hlt
  rw [this] at hok
  cases hok

/-! ## non-vacuity -/

/-- the word image of a 16×16 BC1 cube map (`Header::write`) -/
def exWords : List Nat := Header.write pixelInfoOf C09.exHeader

/-- it is a stream of `u32`s, `new_with_options` accepts it, and the layout has 6 · 128 bytes -/
example : (∀ w ∈ exWords, w < U32) ∧
    (match openWords {} exWords with
     | .ok o => (o.format.name, o.layout.dataLenP, o.fam)
     | .error _ => ("", none, .pixel 0 none)) = ("BC1_UNORM", some 768, .block 4 4 8) := by
  decide +kernel

/-- a hostile header is rejected with a library error: width 0 -/
example : (match openWords {} (exWords.set 4 0) with
     | .error (.layout e) => some e
     | _ => none) = some .zeroDimension := by decide +kernel

/-- a truncated header is an I/O error, not a panic -/
example : (match openWords {} (exWords.take 30) with
     | .error (.header e) => some e
     | _ => none) = some .io := by decide +kernel

/-- the cursor operations on it over a stream that ends inside the 2nd face: the first face is read,
the second read ends in an I/O error, skipping still works (a `Cursor` seeks past the end) -/
example :
    (match openWords {} exWords with
     | .ok o => (runOps ⟨{ len := 148 + 200 }, o.fam, o.layout⟩ ⟨SurfIter.new o.layout, 148, 1000000⟩
         [.read 16 16 (3, 0), .read 16 16 (3, 0), .skipSurface, .rect 0 0 4 4 (0, 2), .cube 64 48 (3, 0)]).2
     | .error _ => []) = [.ok, .io, .ok, .io, .io] := by
  decide +kernel

/-- the hypotheses of `truncated_is_io_error` are satisfiable: BC1 16×16 (128 bytes), 100 available -/
example : ∃ ops, plan (.block 4 4 8) (3, 0) (.full 16 16) = .ok ops ∧ need ops ≤ 1000 ∧
    (0 : Nat) ≤ ({ len := 100 } : Env).lim ∧
    ({ len := 100 } : Env).lim < 0 + (Call.full 16 16).bytes (.block 4 4 8) := by
  refine ⟨_, rfl, ?_, ?_, ?_⟩ <;> decide

/-- the `expect` of the rewinding calls IS reachable without the `i64::MAX` hypothesis: a volume of
2^31 × 2^31 × 3 one-byte pixels (12 · 2^60 bytes), cursor moved past 2^63 bytes by three skips -/
example :
    let hd : LayoutHeader := { width := 2147483648, height := 2147483648, depth := some 3, mipmapCount := 1,
                               kind := .dx10 false .tex3D 1 }
    (match layoutOf hd (.fixed 1) with
     | some (.ok L) =>
       (C08.run (Dec.new L) [.skipSurface, .skipSurface, .skipSurface, .rewindStart]).2
     | _ => []) = [.ok, .ok, .ok, .panic] := by
  decide +kernel

end Dds.C01
