/-
C01 — Hostile files never crash the reader: parse, layout and decode are total.

The statements are about the *composed* model `Reader.lean`
(`Decoder::new_with_options` = `Header::read` ; `Format::from_header` ; `DataLayout::from_header_with` ;
`SurfaceIterator::new`, then any list of `Decoder` calls over an arbitrary stream), which only chains the
models that C02, C05, C06, C08, C09, C18, C19 and C20 are about.  A Rust panic (failed `unwrap` / `expect` /
`assert!`, slice index out of range, arithmetic trap of the overflow-checking profile) is the value
`panic` of the result types; wrapping operators of the release profile are `wAdd`/`wMul` in the models
and the cited theorems show their ideal value is in range (so "no trap" and "release = ideal" are the
same fact).  Helper lemmas: `Proofs/C01.lean`.

ASSEMBLED here (all inputs, no bounds):
* `parse_layout_trapfree`, `parse_bytes_trapfree`, `layout_from_header_trapfree`
* `cursor_ops_trapfree`, `opened_cursor_ops_trapfree`, `cursor_ops_with_rewinds_trapfree`
* `decode_geometry_trapfree`, `every_format_has_a_decoder`, `decode_addresses_in_view`,
  `decode_addresses_planar` (bi-planar family, assembled since `C05.rect_eq_crop_planar`)
* `truncated_is_io_error`, `fault_is_io_error`, `no_success_on_short_stream`

Termination (remark, not a theorem): every definition of `Header.lean`, `HeaderTables.lean`,
`FormatTables.lean`, `Layout.lean`, `Iter.lean`, `Stream.lean`, `Addr.lean`, `Decoder.lean` and
`Reader.lean` is accepted by Lean's termination checker as structural recursion or a fold over a list
whose length is a function of the input (mip count ≤ 255, `List.range` of a line count, the operation
list); there is no `partial`, no fuel that can run out (the only fuel, `bitLen 32`, is the width of a
`u32`) and `check.py` rejects `partial` / `unsafe` / `implemented_by` in every model file.  So "fails to
terminate" has no counterpart in the model; for the implementation it is the watchdog of the tie.

Section 6 (codec bodies): `bc1to5_bodies_trapfree`, `bc7_body_trapfree`, `bc6_body_trapfree`,
`uncompressed_bodies_trapfree`, `subsampled_biplanar_bodies_trapfree`, `channel_conversion_trapfree`,
`pixel_loop_wrappers_trapfree` — trapping mirrors (`Trap*.lean`) of the per-block / per-pixel bodies return `some`
of the wrapping models' values for every input.

Section 7 (generic decode loops of `read_write.rs`): `line_buffer_trapfree`, `channel_conversion_buffer_trapfree`,
`pixel_loops_trapfree`, `read_exact_image_trapfree`, `block_loops_trapfree`, `biplanar_loops_trapfree`, assembled
`decode_loops_trapfree`, the F17 pair `f17_repaired_returns` / `f17_unrepaired_traps` — trapping mirrors (`TrapLoops*.lean`)
of every slice, index and length computation of the loops return `some`, with C06's reader / allocator trace and all
writes inside the rows of the view.

NOT modelled for totality (exercised by the tie only, on both build profiles): the external `astc-decode` crate, `std`
(`read_exact`, `io::copy`, `seek`, `Vec::try_reserve_exact`) and termination of the real loops.  That `f32` arithmetic and
float → integer casts never panic is a fact about Rust that the mirrors assume.
-/
import DdsModel.Proofs.C01
import DdsModel.Proofs.ReaderRefinesRun
import DdsModel.Theorems.C05
import DdsModel.Proofs.TrapLoopsPlanar
import DdsModel.Theorems.C20
import DdsModel.Drv.C01
import DdsModel.Proofs.TrapBc
import DdsModel.Proofs.TrapBc7
import DdsModel.Proofs.TrapBc6
import DdsModel.Proofs.TrapUnc
namespace Dds.C01
open Dds Dds.Stream Dds.Reader

/-! ## 1. parse + format detection + layout -/

/-- **`Decoder::new_with_options` is total.**  For EVERY stream of `u32` words and every `ParseOptions`
(strict / permissive, any `file_len`, `skip_magic_bytes`): the result is `Ok` or one of the library's
errors (`HeaderError`, `FormatError`, `LayoutError`), never a panic — no `unwrap()` of
`impl From<Format> for PixelInfo`, of `data_len()` or of `TextureArray::new` fails, also not inside the
repair loop of `fix_based_on_file_len` (`C18.repair_no_panic`).  For every accepted file: the header
is well-formed (`NonZeroU32` mip count, valid DXGI code, all fields `u32`), the decoder family exists
and has the unit sizes of the format's `PixelInfo`, the data length is defined and `< 2^64`, the layout
satisfies C02's validity invariant (so by `C02.flatten_eq_spec` every surface offset and length is the
ideal value and lies inside the data section, i.e. no `u64` operation wrapped), and a fresh
`SurfaceIterator` satisfies C08's iterator invariant (`current_level ≤ mipmaps ≤ 255`, `len < 2^32`). -/
theorem parse_layout_trapfree (opts : ParseOptions) (ws : List Nat) (hws : ∀ w ∈ ws, w < U32) :
    openWords opts ws ≠ .error .panic ∧
    ∀ o, openWords opts ws = .ok o →
      o.header.WF ∧ o.fam.WF ∧ o.fam.px = o.px ∧ o.px.WF ∧
      layoutOf o.header.toLayoutHeader o.px = some (.ok o.layout) ∧
      (∃ n, o.layout.dataLenP = some n ∧ n < U64) ∧
      C02.LayoutValid o.layout ∧
      C08.IterInv (SurfIter.new o.layout) := by
  unfold openWords
  cases hr : Header.read pixelInfoOf opts ws with
  | error e => simp only; exact ⟨(by intro h; cases h), (by intro o h; cases h)⟩
  | ok p =>
    obtain ⟨h, rest⟩ := p
    have hwf : h.WF := C09.parsed_wf_words pixelInfoOf opts ws hws h rest hr
    simp only
    cases hfm : C19.formatOfHeader (hdrOf h) with
    | error e => simp only; exact ⟨(by intro h; cases h), (by intro o h; cases h)⟩
    | ok f =>
      simp only
      obtain ⟨fam, hfam, hfwf, hfpx⟩ := fam_of_format f
      rw [C19.formatPixelInfoP_eq f, hfam]
      simp only
      have hpx : f.row.px.WF := by rw [← hfpx]; exact Fam.WF.px hfwf
      obtain ⟨hne, hlen⟩ := C18.repair_no_panic h hwf f.row.px hpx
      cases hl : layoutOf h.toLayoutHeader f.row.px with
      | none => exact absurd hl hne
      | some r =>
        cases r with
        | error e => simp only; exact ⟨(by intro h; cases h), (by intro o h; cases h)⟩
        | ok L =>
          simp only
          refine ⟨(by intro h; cases h), ?_⟩
          intro o ho
          simp only [Except.ok.injEq] at ho
          subst ho
          have hir := Header.toLayoutHeader_inRange hwf
          exact ⟨hwf, hfwf, hfpx, hpx, hl, hlen L hl,
            (C02.layoutOf_valid _ _ hpx hir L hl).1,
            new_iterInv _ _ hpx hir (wf_mips hwf) L hl⟩

/-- the same for every byte string (little-endian words; 1..3 trailing bytes cannot complete a
`read_exact`) -/
theorem parse_bytes_trapfree (opts : ParseOptions) (bs : List Nat) (hbs : ∀ b ∈ bs, b < 256) :
    openBytes opts bs ≠ .error .panic ∧
    ∀ o, openBytes opts bs = .ok o →
      o.header.WF ∧ o.fam.WF ∧ (∃ n, o.layout.dataLenP = some n ∧ n < U64) ∧
      C08.IterInv (SurfIter.new o.layout) := by
  have h := parse_layout_trapfree opts (leWords bs) (leWords_lt bs.length bs (Nat.le_refl _) hbs)
  refine ⟨h.1, fun o ho => ?_⟩
  obtain ⟨a, b, _, _, _, c, _, d⟩ := h.2 o ho
  exact ⟨a, b, c, d⟩

/-- **`DataLayout::from_header` is total** on every header `Header::read` can return
(`C09.parsed_wf_words`: they are all well-formed): `PixelInfo::from_header` fails with a format error or
gives a well-formed pixel info, and then the layout code returns `Ok`/`Err` with a defined data length. -/
theorem layout_from_header_trapfree (h : Header) (hwf : h.WF) :
    layoutFromHeader h ≠ none ∧
    ∀ L, layoutFromHeader h = some (some (.ok L)) → ∃ n, L.dataLenP = some n ∧ n < U64 := by
  unfold layoutFromHeader
  cases hp : pixelInfoOf h with
  | none => exact ⟨(by simp), (by intro L hL; cases hL)⟩
  | some px =>
    obtain ⟨hne, hlen⟩ := C18.repair_no_panic h hwf px (pixelInfoOf_wf h px hp)
    simp only
    cases hl : layoutOf h.toLayoutHeader px with
    | none => exact absurd hl hne
    | some r =>
      refine ⟨(by simp), ?_⟩
      intro L hL
      simp only [Option.map_some, Option.some.injEq] at hL
      subst hL
      exact hlen L hl

/-! ## 2. cursor operations -/

/-- **No `Decoder` call of C01's list panics, over ANY stream.**  For every stream environment (any
length, hard error or early end of file anywhere, either `seek` behaviour, any allocator), every decoder
family with admissible unit sizes, every layout, every iterator state satisfying C08's invariant, and
every list (no length bound) of `read_surface` / `read_surface_rect` / `skip_surface` / `skip_mipmaps` /
`read_cube_map` / memory-limit changes with arbitrary arguments: every call returns `Ok` or an error
value and the invariant still holds — `self.current_level + 1` (`u8`), `current_index += 1` (`u32`),
`skipped_bytes += ..` and `offset += len` (`u64`) never trap (`C08.advance_refines`,
`C08.skipMipmaps_refines`: they are the ideal values), `first.get(level)` is never `None` when a surface
is current (`C08.current_total`), and the decode itself never reaches a panic operation
(`C06.result_kinds`).  No hypothesis on the size of the data section is needed. -/
theorem cursor_ops_trapfree (k : Cfg) (hf : k.fam.WF) (ops : List Reader.Op)
    (hops : ∀ op ∈ ops, op.inC01 = true) :
    ∀ s : RS, C08.IterInv s.iter →
      C08.IterInv (runOps k s ops).1.iter ∧ ∀ r ∈ (runOps k s ops).2, r ≠ .panic := by
  induction ops with
  | nil => intro s v; exact ⟨v, by simp [runOps]⟩
  | cons op rest ih =>
    intro s v
    obtain ⟨h1, h2⟩ := step_inv k hf s v op (hops op (by simp))
    obtain ⟨h3, h4⟩ := ih (fun o ho => hops o (by simp [ho])) (step k s op).1 h1
    simp only [runOps]
    refine ⟨h3, ?_⟩
    intro r hr
    simp only [List.mem_cons] at hr
    cases hr with
    | inl h => rw [h]; exact h2
    | inr h => exact h4 r h

/-- ... in particular for every file `Decoder::new_with_options` accepts, read over any stream from
any position with any memory limit. -/
theorem opened_cursor_ops_trapfree (opts : ParseOptions) (ws : List Nat) (hws : ∀ w ∈ ws, w < U32)
    (o : Opened) (ho : openWords opts ws = .ok o) (e : Env) (pos limit : Nat) (ops : List Reader.Op)
    (hops : ∀ op ∈ ops, op.inC01 = true) :
    ∀ r ∈ (runOps ⟨e, o.fam, o.layout⟩ ⟨SurfIter.new o.layout, pos, limit⟩ ops).2, r ≠ .panic := by
  obtain ⟨_, hfam, _, _, _, _, _, hinv⟩ := (parse_layout_trapfree opts ws hws).2 o ho
  exact (cursor_ops_trapfree ⟨e, o.fam, o.layout⟩ hfam ops hops ⟨SurfIter.new o.layout, pos, limit⟩ hinv).2

/-- **With the two rewinding calls** (`rewind_to_previous_surface`, `rewind_to_start`), which are NOT
in C01's list: they contain `i64::try_from(..).expect("Cannot seek back more than i64::MAX bytes")`, so
they need the extra hypothesis that the data section has at most `i64::MAX` bytes
(`C02.specTotal L ≤ I64MAX`; larger files cannot exist).  Under it `C08.history` gives: no call of ANY
operation list panics (ideal reader; C08's model `Decoder.lean`).  Without it the `expect` is
reachable: see the example below. -/
theorem cursor_ops_with_rewinds_trapfree (opts : ParseOptions) (ws : List Nat) (hws : ∀ w ∈ ws, w < U32)
    (o : Opened) (ho : openWords opts ws = .ok o) (hsmall : C02.specTotal o.layout ≤ I64MAX)
    (ops : List DecOp) : ∀ r ∈ (C08.run (Dec.new o.layout) ops).2, r ≠ .panic := by
  obtain ⟨hwf, _, _, hpx, hl, _, _, _⟩ := (parse_layout_trapfree opts ws hws).2 o ho
  have hinv := C08.new_inv _ _ hpx (Header.toLayoutHeader_inRange hwf) (wf_mips hwf) o.layout hl hsmall
  exact (C08.history ops (Dec.new o.layout) hinv).2

/-! ## 3. decode geometry -/

/-- every `Format` has a row in the decoder table, with admissible unit sizes (positive, `u8`; a
specialised whole-image path only for a colour of exactly the encoded pixel size) equal to the unit
sizes of `PixelInfo::from(format)` — so `get_decoders(format)` and the layout agree on every length. -/
theorem every_format_has_a_decoder (f : C19.Format) :
    ∃ fam, lookupFormat f.name = some fam ∧ fam.WF ∧ C19.formatPixelInfoP f = some fam.px := by
  obtain ⟨fam, h1, h2, h3⟩ := fam_of_format f
  exact ⟨fam, h1, h2, by rw [C19.formatPixelInfoP_eq, h3]⟩

/-- **`decode` / `decode_rect` never reach a panic operation.**  For every decoder family with
admissible unit sizes (by `every_format_has_a_decoder`: every format), every colour format, every call
(full decode of any `w × h`; rect decode of any surface size, offset and rect size, inside or outside
the surface, empty or not), every memory limit, every stream and reader position, every short-read
pattern and allocator behaviour: the result is `ok`, `ioError`, `memLimit` or `rectOutOfBounds` — no
`assert!`, `Ord::clamp`, division (`TARGET_BUFFER_SIZE / bytes_per_line`), `expect` or
`surface_size.width - offset.x - image.width()` fails.  And whenever validation accepts the call (exactly
when the surface has `≤ isize::MAX` encoded bytes and the rect is inside, `C06.validation_accepts_iff`):
all allocations precede the first reader call, the reader operations add up to exactly the surface's
byte length, that length and every allocation request are `≤ isize::MAX < 2^63` (so no `u64`/`usize`
product of the paths wraps or traps). -/
theorem decode_geometry_trapfree {f : Fam} (hf : f.WF) (c : Colour) (call : Call) (e : Env)
    (pats : List (List Nat)) (pos limit : Nat) :
    (run e pats (plan f c call) pos limit).1 ≠ .panic ∧
    ∀ ops, plan f c call = .ok ops →
      allocFirst ops ∧ span ops = call.bytes f ∧ need ops ≤ call.bytes f ∧ call.bytes f ≤ ISIZE_MAX := by
  refine ⟨?_, ?_⟩
  · have h := C06.result_kinds hf c call e pats pos limit
    intro hp
    rw [hp] at h
    simp at h
  · intro ops hplan
    obtain ⟨fa, hb⟩ := plan_facts hf hplan
    exact ⟨fa.af, fa.sp, fa.nd, hb⟩

/-- **All output addresses are inside the view** (per-pixel and block families; from C05).  For every
surface, every rect inside it, every row pitch `≥ w · bytes_per_pixel` (the `View` invariant of C20) and
every conversion setting: each write of the rect decode goes to a row `< h` and to bytes inside
`[row · pitch, row · pitch + w · bpp)`; the full decode is the rect `(0, 0, W, H)`. -/
theorem decode_addresses_in_view :
    (∀ (conv : Bool) (nbpp W ox oy w h : Nat), 0 < Addr.BUFFER_BYTES / nbpp → 0 < w → ox + w ≤ W →
      ∀ r ∈ Addr.pixelRect conv nbpp W ox oy w h, ∀ pitch obpp, w * obpp ≤ pitch →
        r.row < h ∧ r.row * pitch ≤ r.byteLo pitch obpp ∧ r.byteHi pitch obpp ≤ r.row * pitch + w * obpp) ∧
    (∀ (p : Addr.Proc) (g : Addr.RectGeom) (fastAt : Nat → Bool) (conv : Bool) (nbpp W H : Nat),
      Addr.RectOk p g conv nbpp → g.ox + g.w ≤ W → g.oy + g.h ≤ H →
      ∀ r ∈ Addr.blockRect p g fastAt conv nbpp, ∀ pitch obpp, g.w * obpp ≤ pitch →
        r.row < g.h ∧ r.row * pitch ≤ r.byteLo pitch obpp ∧ r.byteHi pitch obpp ≤ r.row * pitch + g.w * obpp) := by
  refine ⟨?_, ?_⟩
  · intro conv nbpp W ox oy w h hb hw hx r hr pitch obpp hp
    exact (C05.rect_eq_crop_pixel conv conv nbpp nbpp W (oy + h) ox oy w h hb hb hw hx (Nat.le_refl _)).2.2
      r hr pitch obpp hp
  · intro p g fastAt conv nbpp W H ok hx hy r hr pitch obpp hp
    exact (C05.rect_eq_crop_block p g fastAt fastAt conv false nbpp nbpp W H ok (by intro h; cases h) hx hy).2.2.1
      r hr pitch obpp hp

/-- **Bi-planar family: every address inside the view, every sample inside its plane.**  For every
bi-planar family the format table could hold (`Fam.WF`: sub-sampling `1 ≤ sx, sy ≤ 15`; shipped `(2, 2)`),
every native pixel size `1..16` bytes, conversion on or off, every surface `W × H` and every rectangle
inside it: each write of `for_each_bi_planar_rect` goes to a row `< h` and to bytes inside
`[row·pitch, row·pitch + w·bpp)` for every pitch `≥ w·bpp` (`get_row(y - offset.y)` and the chunk slicing of
`process_bi_planar` never leave the row), every luma sample read is `(x < W, y < H)` and every chroma sample
`(x < div_ceil(W, sx), y < div_ceil(H, sy))` (the `plane1` / `uv_line` slices are long enough), and
`step_by(preferred_chunk_size)` is never called with 0; the same for the full decode `for_each_bi_planar`.
(From `C05.rect_eq_crop_planar`, which now assembles the `y_offset` loops and the conversion chunks.) -/
theorem decode_addresses_planar (e1 e2 sx sy : Nat) (hf : (Fam.biPlanar e1 e2 sx sy).WF) (conv : Bool)
    (nbpp : Nat) (hn : 0 < nbpp) (hn16 : nbpp ≤ 16) (W H ox oy w h : Nat) (hx : ox + w ≤ W) (hy : oy + h ≤ H) :
    0 < Addr.roundDown (Addr.BUFFER_BYTES / nbpp) sx ∧
    (∀ r ∈ Addr.planarRect conv nbpp ⟨sx, sy, H, ox, oy, w, h⟩,
      (∀ pitch obpp, w * obpp ≤ pitch →
        r.row < h ∧ r.row * pitch ≤ r.byteLo pitch obpp ∧ r.byteHi pitch obpp ≤ r.row * pitch + w * obpp) ∧
      r.ly < H ∧ r.cy < divCeil H sy ∧
      ∀ t, t < r.n → r.lx + t < W ∧ r.cx + (r.px + t) / sx < divCeil W sx) ∧
    (∀ r ∈ Addr.planarFull conv nbpp sx sy W H,
      (∀ pitch obpp, W * obpp ≤ pitch →
        r.row < H ∧ r.row * pitch ≤ r.byteLo pitch obpp ∧ r.byteHi pitch obpp ≤ r.row * pitch + W * obpp) ∧
      r.ly < H ∧ r.cy < divCeil H sy ∧
      ∀ t, t < r.n → r.lx + t < W ∧ r.cx + (r.px + t) / sx < divCeil W sx) := by
  obtain ⟨_, _, _, _, hsx, hsx16, hsy, _⟩ := hf
  have hbuf : sx ≤ Addr.BUFFER_BYTES / nbpp := by
    rw [Nat.le_div_iff_mul_le hn]
    have : sx * nbpp ≤ 15 * 16 := Nat.mul_le_mul (by omega) hn16
    have : 240 ≤ Addr.BUFFER_BYTES := by decide
    omega
  have ok : Addr.PlOk sx sy conv nbpp := ⟨hsx, hsy, fun _ => hbuf⟩
  refine ⟨(Addr.roundDown_props hsx hbuf).1, ?_, ?_⟩
  · intro r hr
    obtain ⟨_, _, c3, c4⟩ := C05.rect_eq_crop_planar ⟨sx, sy, H, ox, oy, w, h⟩ conv conv nbpp nbpp W ok ok hx hy
    obtain ⟨_, d2, d3, d4⟩ := c4 r hr
    exact ⟨c3 r hr, d2, d3, d4⟩
  · intro r hr
    have hs := Addr.planarFull_sound conv nbpp sx sy W H ok
    obtain ⟨h1, h2, h3, h4, h5, h6, h7, h8, h9⟩ := hs r hr
    have hcy : r.cy * sy ≤ 0 + r.row := by rw [h8]; exact Nat.div_mul_le_self _ _
    refine ⟨?_, by omega, by rw [Addr.lt_divCeil_iff hsy]; omega, ?_⟩
    · intro pitch obpp hp
      obtain ⟨b1, _, b3, _⟩ := Addr.plRun_bytes_in_row pitch obpp W r hp h2
      exact ⟨h1, b1, b3⟩
    · intro t ht
      have e0 : (r.px + t) / sx = 0 := Nat.div_eq_of_lt (by omega)
      refine ⟨by omega, ?_⟩
      rw [e0, Nat.add_zero, Addr.lt_divCeil_iff hsx]; omega

example : (Fam.biPlanar 1 2 2 2).WF ∧ (0 : Nat) < 4 ∧ (4 : Nat) ≤ 16 ∧ (1 : Nat) + 3 ≤ 5 ∧ (1 : Nat) + 2 ≤ 3 := by decide

/-! ## 4. truncated data and reader errors -/

/-- **A full decode of a truncated surface ends in an I/O error.**  If the first offset the stream
cannot deliver (`Env.lim`: its end, a hard error, or an early `Ok(0)`) lies inside the surface that
starts at the reader position, then — whenever validation and the memory limit let the decode start —
the result is `ioError`: never `ok`, never a panic, for either `seek` behaviour (a full decode never
seeks) and every short-read pattern. -/
theorem truncated_is_io_error {f : Fam} (hf : f.WF) (c : Colour) (w h : Nat) {ops : List Stream.Op}
    (hplan : plan f c (.full w h) = .ok ops) (e : Env) (pats : List (List Nat)) (pos limit : Nat)
    (hgrant : C06.AllocatorGrants e) (hlimit : need ops ≤ limit)
    (h1 : pos ≤ e.lim) (h2 : e.lim < pos + (Call.full w h).bytes f) :
    (run e pats (plan f c (.full w h)) pos limit).1 = .ioError := by
  obtain ⟨fa, _⟩ := plan_facts hf hplan
  have hns : noSkip ops := by
    simp only [plan] at hplan
    split at hplan
    · cases hplan
    · split at hplan
      · simp only [Except.ok.injEq] at hplan; subst hplan; trivial
      · simp only [Except.ok.injEq] at hplan; subst hplan; exact noSkip_fullOps f c w h
  rw [hplan]; simp only [run]
  exact interp_short e hgrant ops pats { pos := pos, budget := limit } (allocFirst_noPanic fa.af) hns
    hlimit h1 (by rw [fa.sp]; exact h2)

/-- **Any call during which the reader reports an error ends in an I/O error** (full and rect
decodes): a hard reader error at any offset inside the surface — in a read, a buffer refill, a leading
or trailing skip — is returned as `ioError` (`C06.io_error_propagates`). -/
theorem fault_is_io_error {f : Fam} (hf : f.WF) (c : Colour) (call : Call) {ops : List Stream.Op}
    (hplan : plan f c call = .ok ops) (e : Env) (pats : List (List Nat)) (pos limit k : Nat)
    (hgrant : C06.AllocatorGrants e) (hlimit : need ops ≤ limit) (hfault : e.fault = some k)
    (hU : pos + call.bytes f < U64) (h1 : pos ≤ k) (h2 : k < pos + call.bytes f) :
    (run e pats (plan f c call) pos limit).1 = .ioError :=
  C06.io_error_propagates hf c call hplan e pats pos limit k hgrant hlimit hfault hU h1 h2

/-- **Never invented pixel data**: a full decode that returns `ok` found every byte of the surface —
the readable part of the stream reaches at least to the end of the surface. -/
theorem no_success_on_short_stream {f : Fam} (hf : f.WF) (c : Colour) (w h : Nat) {ops : List Stream.Op}
    (hplan : plan f c (.full w h) = .ok ops) (e : Env) (pats : List (List Nat)) (pos limit : Nat)
    (hgrant : C06.AllocatorGrants e) (hlimit : need ops ≤ limit) (h1 : pos ≤ e.lim)
    (hok : (run e pats (plan f c (.full w h)) pos limit).1 = .ok) :
    pos + (Call.full w h).bytes f ≤ e.lim := by
  apply Nat.le_of_not_lt
  intro hlt
  have := truncated_is_io_error hf c w h hplan e pats pos limit hgrant hlimit h1 hlt
  rw [this] at hok
  cases hok

/-! ## non-vacuity -/

/-- the word image of a 16×16 BC1 cube map (`Header::write`) -/
def exWords : List Nat := Header.write pixelInfoOf C09.exHeader

/-- it is a stream of `u32`s, `new_with_options` accepts it, and the layout has 6 · 128 bytes -/
example : (∀ w ∈ exWords, w < U32) ∧
    (match openWords {} exWords with
     | .ok o => (o.format.name, o.layout.dataLenP, o.fam)
     | .error _ => ("", none, .pixel 0 none)) = ("BC1_UNORM", some 768, .block 4 4 8) := by
  decide +kernel

/-- a hostile header is rejected with a library error: width 0 -/
example : (match openWords {} (exWords.set 4 0) with
     | .error (.layout e) => some e
     | _ => none) = some .zeroDimension := by decide +kernel

/-- a truncated header is an I/O error, not a panic -/
example : (match openWords {} (exWords.take 30) with
     | .error (.header e) => some e
     | _ => none) = some .io := by decide +kernel

/-- the cursor operations on it over a stream that ends inside the 2nd face: the first face is read,
the second read ends in an I/O error, skipping still works (a `Cursor` seeks past the end) -/
example :
    (match openWords {} exWords with
     | .ok o => (runOps ⟨{ len := 148 + 200 }, o.fam, o.layout⟩ ⟨SurfIter.new o.layout, 148, 1000000⟩
         [.read 16 16 (3, 0), .read 16 16 (3, 0), .skipSurface, .rect 0 0 4 4 (0, 2), .cube 64 48 (3, 0)]).2
     | .error _ => []) = [.ok, .io, .ok, .io, .io] := by
  decide +kernel

/-- the hypotheses of `truncated_is_io_error` are satisfiable: BC1 16×16 (128 bytes), 100 available -/
example : ∃ ops, plan (.block 4 4 8) (3, 0) (.full 16 16) = .ok ops ∧ need ops ≤ 1000 ∧
    (0 : Nat) ≤ ({ len := 100 } : Env).lim ∧
    ({ len := 100 } : Env).lim < 0 + (Call.full 16 16).bytes (.block 4 4 8) := by
  refine ⟨_, rfl, ?_, ?_, ?_⟩ <;> decide

/-- the `expect` of the rewinding calls IS reachable without the `i64::MAX` hypothesis: a volume of
2^31 × 2^31 × 3 one-byte pixels (12 · 2^60 bytes), cursor moved past 2^63 bytes by three skips -/
example :
    let hd : LayoutHeader := { width := 2147483648, height := 2147483648, depth := some 3, mipmapCount := 1,
                               kind := .dx10 false .tex3D 1 }
    (match layoutOf hd (.fixed 1) with
     | some (.ok L) =>
       (C08.run (Dec.new L) [.skipSurface, .skipSurface, .skipSurface, .rewindStart]).2
     | _ => []) = [.ok, .ok, .ok, .panic] := by
  decide +kernel

/-! ## 5. the composed reader over a REAL stream refines C08's ideal cursor

`Decoder.lean` (C08) models the `Decoder` calls over an ideal reader (position arithmetic only, the
stream contract of `decode` assumed); `Reader.lean` composes the same calls over an arbitrary `Stream.Env`
(short, faulty, early `Ok(0)`, either `seek` behaviour, any allocator).  This section links the two:
whatever the stream does, a call of the composed reader either ends in an I/O error / the memory limit
— and then the stream or the limit is to blame — or it does exactly what the ideal cursor does.
Vocabulary (`Proofs/ReaderRefines*.lean`): `Cfg.Agrees`, `Sim`, `idealStep`, `ofDecRes`, `opNeed`,
`Intact`, `Covered`, `weave`. -/

/-- **The length the iterator reports is the number of bytes `decode` / `decode_rect` / `skip` consume.**
For every family that agrees with the layout (`Cfg.Agrees`; by `every_format_has_a_decoder` and
`opened_agrees` every row of the format table and every opened file) and every iterator state of that
layout: `SurfaceInfo::data_len` of the current surface is `Call.bytes` of the full decode and of every
rect decode of that surface (the quantity `C06.success_consumes_exactly`, `C06.trace_covers_surface`
speak about). -/
theorem reported_len_is_consumed_bytes (k : Cfg) (hk : k.Agrees) (it : SurfIter) (v : C08.IterInv it)
    (hpx : iterPx it = k.layout.px) (cur : SurfInfo) (hc : it.currentP = some (some cur)) :
    cur.len = (Call.full cur.w cur.h).bytes k.fam ∧
    ∀ x y w h, cur.len = (Call.rect cur.w cur.h x y w h).bytes k.fam := by
  have h := current_len it v hc
  rw [hpx, ← hk.2] at h
  exact ⟨h, fun _ _ _ _ => h⟩

/-- **Every file `Decoder::new_with_options` accepts satisfies the agreement predicate**, over any
stream: the decoder family has admissible unit sizes and the unit sizes of the layout's `PixelInfo`. -/
theorem opened_agrees (opts : ParseOptions) (ws : List Nat) (hws : ∀ w ∈ ws, w < U32)
    (o : Opened) (ho : openWords opts ws = .ok o) (e : Env) : (⟨e, o.fam, o.layout⟩ : Cfg).Agrees := by
  obtain ⟨hwf, hfam, hfpx, hpx, hl, _, _, _⟩ := (parse_layout_trapfree opts ws hws).2 o ho
  have := (C02.layoutOf_valid _ _ hpx (Header.toLayoutHeader_inRange hwf) o.layout hl).2.1
  exact ⟨hfam, by show o.fam.px = o.layout.px; rw [hfpx, this]⟩

/-- ... also when opened from a byte string -/
theorem opened_bytes_agrees (opts : ParseOptions) (bs : List Nat) (hbs : ∀ b ∈ bs, b < 256)
    (o : Opened) (ho : openBytes opts bs = .ok o) (e : Env) : (⟨e, o.fam, o.layout⟩ : Cfg).Agrees :=
  opened_agrees opts (leWords bs) (leWords_lt bs.length bs (Nat.le_refl _) hbs) o ho e

/-- **One call of the composed reader refines the ideal cursor.**  For every configuration whose family
agrees with the layout, every pair of related states (`Sim`: same iterator state, reader position =
`base` + ideal position, and the invariants of the ideal state), every stream, every memory limit and
every operation of C01's list — with NO hypothesis on the size of the data section — and for the two
rewinding calls under C08's invariant (data section `≤ i64::MAX` bytes) on a reader whose clamping
`seek`, if it clamps, is not positioned beyond the end:
1. a result other than an I/O error and the memory limit is the ideal decoder's result, and the states
   are related again (in particular the reader moved by exactly the bytes the ideal cursor moved);
2. an I/O error is returned only if the first offset the stream cannot deliver (`Env.lim`: end of
   file, hard error, early `Ok(0)`, refused seek) lies before the end of the bytes the call touches, or
   the call has to skip more than `i64::MAX` bytes;
3. the memory limit is returned only if the limit is below the need of the call, or the allocator
   refused, or the surface has more than `isize::MAX` bytes — and then the ideal decoder returns the
   same error and the states stay related. -/
theorem reader_refines_cursor (k : Cfg) (hk : k.Agrees) (base : Nat) (s : RS) (d : Dec)
    (h : Sim k base s d) (op : Reader.Op)
    (hback : op.inC01 = false → C08.DecInv d ∧ (k.env.clampSeek = true → s.pos ≤ k.env.len)) :
    ((step k s op).2 ≠ .io → (step k s op).2 ≠ .memoryLimitExceeded →
      (step k s op).2 = ofDecRes (idealStep d op).2 ∧ Sim k base (step k s op).1 (idealStep d op).1) ∧
    ((step k s op).2 = .io → k.env.len < U64 →
      (k.env.lim : Int) < base + max d.pos (idealStep d op).1.pos ∨
      (I64MAX : Int) < (idealStep d op).1.pos - d.pos) ∧
    ((step k s op).2 = .memoryLimitExceeded →
      s.limit < opNeed k s op ∨ ¬ C06.AllocatorGrants k.env ∨
      ((idealStep d op).2 = .memoryLimitExceeded ∧ Sim k base (step k s op).1 (idealStep d op).1 ∧
        I64MAX < C08.total d.iter)) := by
  show Clauses k base s d (opNeed k s op) (step k s op) (idealStep d op)
  cases op with
  | read w hh c => exact (step_sim hk h _ rfl (by intro l hl; cases hl)).clauses
  | rect ox oy w hh c => exact (step_sim hk h _ rfl (by intro l hl; cases hl)).clauses
  | skipSurface => exact (step_sim hk h _ rfl (by intro l hl; cases hl)).clauses
  | skipMipmaps => exact (step_sim hk h _ rfl (by intro l hl; cases hl)).clauses
  | cube w hh c => exact (step_sim hk h _ rfl (by intro l hl; cases hl)).clauses
  | setLimit l =>
    exact ⟨fun _ _ => ⟨rfl, ⟨h.iter, h.pos, h.layout, h.px, h.inv, h.cpos, h.u64⟩⟩,
      (fun hio => by simp [step] at hio), (fun hm => by simp [step] at hm)⟩
  | rewindPrev => exact (rewindPrev_sim h (hback rfl).1 (hback rfl).2).clauses h
  | rewindStart => exact (rewindStart_sim h (hback rfl).1 (hback rfl).2).clauses h

/-- a reader at the first data byte and a fresh ideal decoder are related -/
theorem fresh_states_related (k : Cfg) (base limit : Nat) (hi : C08.IterInv (SurfIter.new k.layout))
    (hu : base + C08.total (SurfIter.new k.layout) < U64) :
    Sim k base ⟨SurfIter.new k.layout, base, limit⟩ (Dec.new k.layout) := Sim.new limit hi hu

/-- **Whole call sequences on an intact stream.**  If the stream delivers the whole data section
(`Intact`: `u64` offsets, no end / error / early `Ok(0)` before `base + data length`, allocator willing)
and the memory limit in force covers the need of every call (`Covered`), then for every operation list
(no length bound; all eight operations, the limit may change inside the list): the results of
`Reader.runOps` are the results of C08's `run` on the ideal decoder (with `ok` for each change of the
limit), the final states are related, C08's invariant holds for the ideal state, and no call returned
an I/O error, the memory limit or a panic. -/
theorem runOps_refines_run (k : Cfg) (hk : k.Agrees) (base : Nat) (hin : Intact k base) (s : RS) (d : Dec)
    (h : Sim k base s d) (hinv : C08.DecInv d) (ops : List Reader.Op) (hcov : Covered k s ops) :
    (runOps k s ops).2 = weave ops (C08.run d (ops.filterMap toDecOp)).2 ∧
    Sim k base (runOps k s ops).1 (C08.run d (ops.filterMap toDecOp)).1 ∧
    C08.DecInv (C08.run d (ops.filterMap toDecOp)).1 ∧
    ∀ r ∈ (runOps k s ops).2, r ≠ .io ∧ r ≠ .memoryLimitExceeded ∧ r ≠ .panic :=
  runOps_sim hk hin ops s d h hinv hcov

/-- **C08's theorems transfer to the stream model: the reader position is the cursor offset.**  Under
the hypotheses of `runOps_refines_run`, after EVERY prefix of the operation list the absolute reader
position of the composed reader is `base` + the offset of the surface the decoder reports as next in
C02's flattened surface list (`C08.history` / `C08.DecInv.pos`, `C08.tex_current_is_flat`,
`C08.vol_current_is_flat`), and `base` + the data length once every surface has been consumed
(`C08.end_position`); the iterator walks the flattened list of the layout. -/
theorem reader_position_is_cursor_offset (k : Cfg) (hk : k.Agrees) (base : Nat) (hin : Intact k base)
    (s : RS) (d : Dec) (h : Sim k base s d) (hinv : C08.DecInv d) (ops : List Reader.Op)
    (hcov : Covered k s ops) (n : Nat) :
    (runOps k s (ops.take n)).1.iter = (C08.run d ((ops.take n).filterMap toDecOp)).1.iter ∧
    (runOps k s (ops.take n)).1.pos = base + C08.elapsed (runOps k s (ops.take n)).1.iter ∧
    C08.flat (runOps k s (ops.take n)).1.iter = C08.flat (SurfIter.new k.layout) ∧
    (C08.abs (runOps k s (ops.take n)).1.iter < C08.count (runOps k s (ops.take n)).1.iter →
      ∃ surf, (C08.flat (runOps k s (ops.take n)).1.iter)[C08.abs (runOps k s (ops.take n)).1.iter]? = some surf ∧
        (runOps k s (ops.take n)).1.pos = base + surf.offset) ∧
    (C08.abs (runOps k s (ops.take n)).1.iter = C08.count (runOps k s (ops.take n)).1.iter →
      (runOps k s (ops.take n)).1.pos = base + C08.total (SurfIter.new k.layout)) := by
  obtain ⟨_, hs, hv, _⟩ := runOps_sim hk hin (ops.take n) s d h hinv (Covered.take ops s n hcov)
  generalize runOps k s (ops.take n) = rn at hs ⊢
  generalize C08.run d ((ops.take n).filterMap toDecOp) = dn at hs hv ⊢
  have hpos : rn.1.pos = base + C08.elapsed rn.1.iter := by
    have h1 := hs.pos
    have h2 := hs.cpos
    rw [hs.iter]; omega
  have hflat : C08.flat rn.1.iter = C08.flat (SurfIter.new k.layout) := by
    rw [hs.iter, ← hs.layout]; exact hv.flat_eq.symm
  refine ⟨hs.iter, hpos, hflat, ?_, ?_⟩
  · intro hlt
    obtain ⟨surf, h1, h2⟩ := current_is_flat rn.1.iter (by rw [hs.iter]; exact hs.inv) hlt
    exact ⟨surf, h1, by rw [h2]; exact hpos⟩
  · intro hend
    have he := C08.end_position dn.1 hv (by rw [← hs.iter]; exact hend)
    have h1 := hs.pos
    have ht : C08.total (SurfIter.new k.layout) = C08.total dn.1.iter := by
      rw [← hs.layout]; exact hv.total_eq
    rw [ht]; omega

/-- **... for every file `Decoder::new_with_options` accepts** whose data section has at most `i64::MAX`
bytes, read from a reader positioned at the first data byte `base` of a stream that delivers the data
section: every list of `Decoder` calls gives the results of C08's ideal decoder, and after every prefix
the reader position is `base` + the offset, in C02's specification list `C02.specFlatten` of the
layout, of the surface the decoder reports as next (`base + C02.specTotal` at the end). -/
theorem opened_reader_position_is_layout_offset (opts : ParseOptions) (ws : List Nat)
    (hws : ∀ w ∈ ws, w < U32) (o : Opened) (ho : openWords opts ws = .ok o)
    (hsmall : C02.specTotal o.layout ≤ I64MAX) (e : Env) (base limit : Nat) (hlen : e.len < U64)
    (hfits : base + C02.specTotal o.layout ≤ e.lim) (hgrant : C06.AllocatorGrants e)
    (ops : List Reader.Op)
    (hcov : Covered ⟨e, o.fam, o.layout⟩ ⟨SurfIter.new o.layout, base, limit⟩ ops) (n : Nat) :
    (runOps ⟨e, o.fam, o.layout⟩ ⟨SurfIter.new o.layout, base, limit⟩ ops).2 =
      weave ops (C08.run (Dec.new o.layout) (ops.filterMap toDecOp)).2 ∧
    (∀ r ∈ (runOps ⟨e, o.fam, o.layout⟩ ⟨SurfIter.new o.layout, base, limit⟩ ops).2,
      r ≠ .io ∧ r ≠ .memoryLimitExceeded ∧ r ≠ .panic) ∧
    (C08.abs (runOps ⟨e, o.fam, o.layout⟩ ⟨SurfIter.new o.layout, base, limit⟩ (ops.take n)).1.iter <
        C08.count (SurfIter.new o.layout) →
      ∃ surf, (C02.specFlatten o.layout)[C08.abs
          (runOps ⟨e, o.fam, o.layout⟩ ⟨SurfIter.new o.layout, base, limit⟩ (ops.take n)).1.iter]? = some surf ∧
        (runOps ⟨e, o.fam, o.layout⟩ ⟨SurfIter.new o.layout, base, limit⟩ (ops.take n)).1.pos =
          base + surf.offset) ∧
    (C08.abs (runOps ⟨e, o.fam, o.layout⟩ ⟨SurfIter.new o.layout, base, limit⟩ (ops.take n)).1.iter =
        C08.count (SurfIter.new o.layout) →
      (runOps ⟨e, o.fam, o.layout⟩ ⟨SurfIter.new o.layout, base, limit⟩ (ops.take n)).1.pos =
        base + C02.specTotal o.layout) := by
  obtain ⟨hwf, _, _, hpx, hl, _, _, hiter⟩ := (parse_layout_trapfree opts ws hws).2 o ho
  have hir := Header.toLayoutHeader_inRange hwf
  have harr := (C02.layoutOf_valid _ _ hpx hir o.layout hl).2.2.2.2.2
  have hdinv := C08.new_inv _ _ hpx hir (wf_mips hwf) o.layout hl hsmall
  have htot := total_new o.layout harr
  have hfl := flat_new o.layout harr
  have hk := opened_agrees opts ws hws o ho e
  have hll := lim_le_len e
  have hin : Intact ⟨e, o.fam, o.layout⟩ base := ⟨hlen, by show base + C08.total _ ≤ e.lim; rw [htot]; exact hfits, hgrant⟩
  have hsim : Sim ⟨e, o.fam, o.layout⟩ base ⟨SurfIter.new o.layout, base, limit⟩ (Dec.new o.layout) :=
    Sim.new limit hiter (by show base + C08.total (SurfIter.new o.layout) < U64; rw [htot]; omega)
  obtain ⟨r1, _, _, r4⟩ := runOps_refines_run _ hk base hin _ _ hsim hdinv ops hcov
  obtain ⟨_, _, p3, p4, p5⟩ := reader_position_is_cursor_offset _ hk base hin _ _ hsim hdinv ops hcov n
  obtain ⟨_, ps, pv, _⟩ := runOps_sim hk hin (ops.take n) _ _ hsim hdinv (Covered.take ops _ n hcov)
  have hcnt : C08.count (SurfIter.new o.layout) =
      C08.count (runOps ⟨e, o.fam, o.layout⟩ ⟨SurfIter.new o.layout, base, limit⟩ (ops.take n)).1.iter := by
    rw [ps.iter]
    have := pv.count_eq
    rw [ps.layout] at this
    exact this
  refine ⟨r1, r4, ?_, ?_⟩
  · intro hlt
    rw [hcnt] at hlt
    obtain ⟨surf, h1, h2⟩ := p4 hlt
    rw [p3] at h1
    exact ⟨surf, by rw [← hfl]; exact h1, h2⟩
  · intro hend
    rw [hcnt] at hend
    have := p5 hend
    rw [← htot]; exact this

/-- a 16×16 BC1 cube map with 2 mip levels (6 · (128 + 32) = 960 data bytes behind a 148-byte header) -/
def exHeader2 : Header := .dx10 { Dx10Header.new .cubeMap 16 16 0 71 with mipmapCount := 2 }
def exWords2 : List Nat := Header.write pixelInfoOf exHeader2

/-- non-vacuity of `reader_refines_cursor` / `runOps_refines_run` / `reader_position_is_cursor_offset` /
`opened_reader_position_is_layout_offset`: `exWords2` is accepted; over a stream of exactly
148 + 960 bytes (default allocator: grants) every hypothesis holds — agreement, data `≤ i64::MAX`, `u64`
offsets, the data section delivered (`Intact`), every need covered (`Covered`, with the limit changed
twice inside the list) — for a list with all eight operations; all calls succeed and the reader ends
at the end of the file -/
example :
    (∀ w ∈ exWords2, w < U32) ∧
    (match openWords {} exWords2 with
     | .ok o =>
       let k : Cfg := ⟨{ len := 148 + 960 }, o.fam, o.layout⟩
       let s : RS := ⟨SurfIter.new o.layout, 148, 1000⟩
       let ops : List Reader.Op := [.read 16 16 (3, 0), .skipMipmaps, .setLimit 64, .rect 4 4 8 8 (0, 2),
         .rewindPrev, .skipSurface, .skipSurface, .rewindStart, .setLimit 128, .cube 64 48 (3, 0)]
       decide k.Agrees && decide (C02.specTotal o.layout ≤ I64MAX) && decide (k.env.len < U64) &&
       decide (148 + C02.specTotal o.layout ≤ k.env.lim) &&
       decide (148 + C08.total (SurfIter.new k.layout) ≤ k.env.lim) &&
       decide (Covered k s ops) &&
       decide ((runOps k s ops).2 = [.ok, .ok, .ok, .ok, .ok, .ok, .ok, .ok, .ok, .ok]) &&
       decide ((runOps k s ops).1.pos = 148 + 960)
     | .error _ => false) = true := by
  decide +kernel

/-- the default allocator grants -/
example : C06.AllocatorGrants { len := 148 + 960 } := fun _ => rfl

/-- the clauses 2 and 3 of `reader_refines_cursor` are not vacuous: the same file over a stream that ends
inside the first surface gives an I/O error, and a limit of 127 bytes (need 128) the memory limit -/
example :
    (match openWords {} exWords2 with
     | .ok o =>
       ((step ⟨{ len := 148 + 100 }, o.fam, o.layout⟩ ⟨SurfIter.new o.layout, 148, 1000⟩ (.read 16 16 (3, 0))).2,
        (step ⟨{ len := 148 + 960 }, o.fam, o.layout⟩ ⟨SurfIter.new o.layout, 148, 127⟩ (.read 16 16 (3, 0))).2,
        opNeed ⟨{ len := 148 + 960 }, o.fam, o.layout⟩ ⟨SurfIter.new o.layout, 148, 127⟩ (.read 16 16 (3, 0)))
     | .error _ => (.ok, .ok, 0)) = (.io, .memoryLimitExceeded, 128) := by
  decide +kernel

/-! ## 6. The per-block / per-pixel codec bodies do not panic

`Trap*.lean` are *trapping mirrors* of the codec bodies: the same functions as the value models of C03 / C03x /
C04 (`Bc.lean`, `Bc7.lean`, `Bc6.lean`, `Conv.lean`, `Uncompressed.lean`), written with the operators of
`Trap.lean`, which return `none` wherever Rust panics in the `checked` build profile (overflow-checks +
debug-assertions): `+ - *` leaving the integer type, a shift by ≥ the bit width, a run-time index out of range,
a division by zero, a failing `debug_assert!` / `unreachable!()`.  Each theorem says: for EVERY block / encoded
pixel the mirror returns `some v`, and `v` is exactly what the wrapping (release) model computes.  So no panic
site of the body is reachable, and checked and release arithmetic agree. -/

/-- **BC1–BC5 bodies** (`src/decode/bc.rs` `mod blocks` + the `formats.rs` conversions they call): the 13
decoders `BC1_UNORM`, `BC2_UNORM` (RGBA, RGB), `BC2_UNORM_PREMULTIPLIED_ALPHA`, `BC3_UNORM` (RGBA, RGB),
`BC3_UNORM_PREMULTIPLIED_ALPHA`, `BC3_UNORM_RXGB`, `BC3_UNORM_NORMAL`, `BC4_UNORM`, `BC4_SNORM`, `BC5_UNORM`,
`BC5_SNORM` at U8, U16 and F32.  For every block (any 8 / 16 bytes): no `u8`/`u16`/`u32` operation overflows
(`x * 17`, `x as u16 * 2108 + 92`, `(self.r5 * 2 + color.r5) * 351 + 61`, `g as u32 * 2763 + 1039`,
`c0_u16 * 6 + c1_u16`, `interpolation as u32 * 2406112 + 28064`, `*channel as u16 * 255`, `x as u16 * 257`, …),
every `debug_assert!` holds (`x <= 15/31/63`, `interpolation <= 1785/1275/1778/1270`), every palette / pixel
index is in range (`lut[index as usize]`, `alpha_bytes[i * 2 + 1]`, `pixels[i * 4 + j]`), every shift amount is
below the width (`indexes >> (i * 2)`, `>> (j * 3)`), the divisor of `to_straight_alpha` is non-zero — and the
16 pixels are those of `Bc.decodeBlock`. -/
theorem bc1to5_bodies_trapfree (f : Bc.Fmt) (pr : Bc.Prec) (blk : Nat → Nat) (hb : ∀ i, blk i < 256) :
    TrapBc.blockT f pr blk = some (Bc.decodeBlock f pr blk) :=
  TrapBc.blockT_eq f pr blk hb

/-- non-vacuity: concrete blocks through the mirror (BC1 in three-colour mode with a transparent pixel at
U16, a premultiplied BC3 block with alpha 0 at U8, a BC5_SNORM block with endpoints −128 / 127 at U16);
the mirror is not constantly `some`: an out-of-range 5-bit field makes `n5::n8`'s `debug_assert!` fail,
a 300 "byte" makes `x as u16 * 257` overflow -/
example :
    let b1 : Nat → Nat := fun i => [0x34, 0x12, 0x78, 0x56, 0xE4, 0x1B, 0xFF, 0x00].getD i 0
    let b3 : Nat → Nat := fun i =>
      [0x00, 0xFF, 0x88, 0xC6, 0xFA, 0x53, 0x97, 0x1F, 0xFF, 0xFF, 0x00, 0x00, 0xE4, 0x1B, 0x4E, 0xB1].getD i 0
    let b5 : Nat → Nat := fun i =>
      [0x80, 0x7F, 0x88, 0xC6, 0xFA, 0x53, 0x97, 0x1F, 0x7F, 0x80, 0x00, 0x11, 0x22, 0x33, 0x44, 0x55].getD i 0
    (TrapBc.blockT .bc1 .u16 b1).map (·.take 4) =
      some [[4112, 17733, 42405, 65535], [21074, 52942, 50629, 65535], [12593, 35466, 46517, 65535], [0, 0, 0, 0]] ∧
    (TrapBc.blockT .bc3p .u8 b3).map (·.take 4) =
      some [[255, 255, 255, 0], [0, 0, 0, 255], [255, 255, 255, 51], [212, 212, 212, 102]] ∧
    (TrapBc.blockT .bc5s .u16 b5).map (·.take 4) =
      some [[0, 65535, 32768], [65535, 65535, 32768], [13107, 37449, 32768], [26214, 65535, 32768]] ∧
    TrapBc.blockT .bc1 .u16 b1 = some (Bc.decodeBlock .bc1 .u16 b1) ∧
    TrapBc.n5n8T 32 = none ∧ TrapBc.n8n16T 300 = none := by
  decide +kernel

/-- **BC7 body** (`src/decode/bc7.rs` in full, `BitStream` / `Indexes` of `bcn_util.rs`, `get_subset_index` of
`bcn_data.rs`).  For EVERY block (any `Nat`, in particular every 128-bit value; modes 0–7 and the reserved mode):
every shift amount is below the width (`state >>= n` on `u128`, `1_u16 << count`, `(1 << bits) - 1`,
`(1 << keep_count) - 1`, `>>= keep_count`, `<<= keep_count` on `u64`, `number <<= 8 - number_bits` on `u8`),
the `u8` products `16 * bits - k`, `index * bits`, `pixel_index * self.bits`, `mode + 1` do not overflow, every
`debug_assert!` holds (`0 < count <= 8`, `count <= 64`, `bits <= 4`, `0 < p2_fixup < p3_fixup`,
`pixel_index < 16`, `(4..8).contains(&number_bits)`, the `MODE` tests), every table index is in range
(`PARTITION_SET_2/3[partition_set_id]` with 64 entries, `WEIGHTS_2/3/4[index]`, `endpoints[2 * subset_index + 1]`,
`r[i]`, `output[pixel_index]`), no `unreachable!()` is reached, and the `u16` interpolation
`(256 - weight) * e0 + weight * e1 + 128` stays below 65 536 — and the 16 pixels are those of `Bc7.decodeBlock`;
the U16 wrapper (`x as u16 * 257`) does not overflow either. -/
theorem bc7_body_trapfree (b : Nat) :
    TrapBc7.decodeBlockT b = some (Bc7.decodeBlock b) ∧
    ∀ (prec : Nat) (f32of : Nat → Nat), TrapBc7.decodeT prec f32of b =
      some (if prec = 0 then Bc7.decodeBlock b
        else if prec = 1 then (Bc7.decodeBlock b).map (List.map (· * 257))
        else (Bc7.decodeBlock b).map (List.map f32of)) :=
  ⟨TrapBc7.decodeBlockT_eq b, fun prec f => TrapBc7.decodeT_eq prec f b⟩

/-- non-vacuity: one block per mode 0..7 and a reserved-mode block through the mirror (first pixel shown), and
the mirror does trap outside the proved ranges: a weight of 300 underflows `256 - weight`, an index width of 5
shifts a `u64` by 75, `promote(_, 8)` fails its `debug_assert!` -/
example :
    ([0xfedcba98765432100123456789abcde1, 0xfedcba98765432100123456789abcde2, 0xfedcba98765432100123456789abcde4,
      0xfedcba98765432100123456789abcde8, 0xfedcba98765432100123456789abcd10, 0xfedcba98765432100123456789abcd20,
      0xfedcba98765432100123456789abcd40, 0xfedcba98765432100123456789abcd80,
      0xfedcba98765432100123456789abcd00].map fun b => (TrapBc7.decodeBlockT b).map (·.take 1)) =
    [some [[211, 162, 112, 255]], some [[71, 147, 3, 255]], some [[73, 109, 121, 255]], some [[231, 43, 9, 255]],
     some [[107, 82, 198, 120]], some [[155, 76, 173, 72]], some [[52, 154, 88, 34]], some [[125, 207, 36, 101]],
     some [[0, 0, 0, 0]]] ∧
    TrapBc7.lerpT 255 255 300 = none ∧ TrapBc7.getIndexT ⟨0, 5, 31⟩ 15 = none ∧ TrapBc7.promoteT 3 8 = none := by
  decide +kernel

/-- **BC6H body, whole block** (`src/decode/bc6.rs` in full, `consume_bits_32` / `consume_bits_rev`, the `Indexes`
of BC7, and the six decoders `bc6_{s,u}_{u8,u16,f32}` of `bc.rs` with `fp16::*` / `bc6h_uf16::*` / `two_powi`).
For EVERY block, both formats (`signed = true`: `BC6H_SF16`), all three precisions (0 = U8, 1 = U16, 2 = F32):
* header: the `unreachable!()` arms of `extract_mode` are not reached, every `consume!` of the ten two-region
  sequences and the reads of the four one-region modes satisfy `0 < count <= 31` resp. `count <= 8`, the `u8`
  subtractions `20 - a0_bit_count`, `a0_bit_count - 10`, `8 - count`, `32 - bit_count` do not underflow,
  `partition < 32` indexes the 64-entry table, the fix-up index satisfies `0 < p2_fixup`;
* endpoints: all three `debug_assert!`s of `sign_extend` hold at each of its calls (in particular
  `x & !((1 << bit_count) - 1) == 0`: the raw fields are below `2^width` by `C03x.bc6_extract_eq_fields`, the
  transformed ones are masked), `(1 << a_bit_count) - 1` does not overflow;
* `unquantize`, the interpolation `a * (64 - w) + b * w + 32` and `finish_unquantize`: no `i32` operation
  overflows (`+`, `*`, unary `-`), every shift amount is below 32;
* `palette[index]` (16 entries) and `palette[subset_index][index]` (2 × 8) are in range;
* conversion: for `BC6H_UF16` every decoded half is `< 0x7C00`, so both `debug_assert!`s of `bc6h_uf16::{n8,n16,f32}`
  hold; `exp as i8 - 25` stays in `i8`, `two_powi`'s `debug_assert!(-126 <= exponent)` holds;
and the result is the wrapping model's block `Bc6.decodeBlock` with the model's conversion applied per channel.
(The mirror traps on `i32 <<` only for amounts ≥ 32, as Rust does; `C03x.bc6_no_i32_overflow` is the stronger
statement that those shifts lose no bits either.) -/
theorem bc6_body_trapfree (signed : Bool) (b : Nat) :
    TrapBc6.decodeBlockT signed b = some (Bc6.decodeBlock signed b) ∧
    (signed = false → ∀ px ∈ Bc6.decodeBlock signed b, ∀ v ∈ px, v < 0x7C00) ∧
    ∀ prec, TrapBc6.decodeT signed prec b =
      some ((Bc6.decodeBlock signed b).map (List.map (TrapBc6.conv signed prec))) :=
  ⟨(TrapBc6.decodeBlockT_eq signed b).1, (TrapBc6.decodeBlockT_eq signed b).2,
   fun prec => TrapBc6.decodeT_eq signed prec b⟩

/-- non-vacuity: a two-region block (mode 01100-style code `…ec`) as `BC6H_UF16`, a one-region block (`…03`) as
`BC6H_SF16` through block decode and conversion, a reserved code; and the mirror traps outside the proved ranges:
`bc6h_uf16::n8(0x7C00)` (Inf) and `(0x8001)` (negative) fail their `debug_assert!`s, `sign_extend(64, 6)` fails its
bit-pattern assert, `-(i32::MIN)` and `i32::MAX * 64` overflow -/
example :
    (TrapBc6.decodeBlockT false 0x00000000000000000123456789abcdec).map (·.take 3) =
      some [[19328, 26520, 29899], [19328, 26520, 29899], [19328, 26086, 29403]] ∧
    (TrapBc6.decodeBlockT true 0x0123456789abcdef0011223344556603).map (·.take 3) =
      some [[37586, 9611, 33863], [3289, 8652, 60905], [1938, 8812, 56398]] ∧
    (TrapBc6.decodeT true 1 0x0123456789abcdef0011223344556603).map (·.take 3) =
      some [[0, 1419, 0], [19, 742, 0], [8, 822, 0]] ∧
    (TrapBc6.decodeBlockT true 0xfedcba98765432100123456789abcd13).map (·.take 1) = some [[0, 0, 0]] ∧
    TrapBc6.convT false 0 0x7C00 = none ∧ TrapBc6.convT false 0 0x8001 = none ∧
    TrapBc6.signExtendT 64 6 = none ∧ TrapBc6.finishUnquantizeT (-2147483648) true = none ∧
    TrapBc6.paletteEntryT 2147483647 1 0 false = none := by
  decide +kernel

/-- **Uncompressed / packed formats, all 45 rows of C04's table × every precision** (`src/decode/uncompressed.rs`
and the conversion functions of `src/color/formats.rs` it calls; the 7 sub-sampled and 3 bi-planar rows are included:
their per-pixel conversions are the same functions).  For EVERY encoded unit value `word` (no bound: fields are
extracted by shift and mask) and every pixel `p` of the unit, the trapping mirror returns the pixel of the wrapping
model `Unc.decodePx`:
* every `debug_assert!(x <= 1 / 3 / 15 / 31 / 63 / 1023)` of `n1 … n10` holds because the argument is a 1/2/4/5/6/10-bit
  field; no multiply-add overflows its type: `x * 85`, `x * 17` (`u8`), `x as u16 * 21845 / 4369 / 257`,
  `x as u16 * 2108 + 92`, `x as u16 * 1036 + 132`, `x as u32 * 138547200` (31 · 138 547 200 = 2^32 − 4 096),
  `x as u32 * 68173056 + 30976`, `x as u32 * 16336 + 32656`, `x as u32 * 4198340 + 32660`, `x as u32 * 255 + 32895`,
  SNORM `x as u16 * 258 + 2`, `x as u32 * 16909064 + 32520`, `x as u32 * 65282 + 8388354`, `x as u32 * 65538 + 2`;
* XR_BIAS: `x as i16 - 0x180` stays in `i16` because `x` is a 10-bit field (it would NOT for `x = 0x8000`: see the
  example), `(x + 1) >> 1`, `x as u32 * 8421376 + 65535` (510 · 8 421 376 + 65 535 = 2^32 − 1: the last value that fits);
* fp16 / fp11 / fp10 / R9G9B9E5: `exp as i8 - 25 / 21 / 20 / 24` stays in `i8`, `two_powi`'s
  `debug_assert!(-126 <= exponent)` holds, `(exponent as i32 + 127) as u32) << 23` shifts by less than 32,
  `(mant + 7) >> 4`, `(mant + 3) >> 3` stay in `u16`;
* `f32` paths (`n*::f32`, `s*::uf32`, `fp::n8/n16`, the YUV matrices, clamps, `as u8` / `as u16` of floats): no panic site.
`Unc.formats.length = 45`. -/
theorem uncompressed_bodies_trapfree :
    Unc.formats.length = 45 ∧
    ∀ fm ∈ Unc.formats, ∀ prec word p : Nat,
      TrapUnc.decodePxT fm prec word p = some (Unc.decodePx fm prec word p) :=
  ⟨TrapUnc.formats_len, fun fm hfm prec word p =>
    TrapUnc.decodePxT_eq fm (TrapUnc.formats_ok fm hfm) prec word p⟩

/-- non-vacuity: pixels through the mirror (B5G6R5 at U16, XR_BIAS at U16 with the bias value 0x180 → 0,
R10G10B10A2 at U8, R16G16_SNORM at U8 with −32768 / 32767 and the blue default ½); the mirror traps outside the
field ranges: `xr10::n8(0x8000)` overflows `i16`, `n10::n16(1024)` fails its `debug_assert!` -/
example :
    (Unc.findFmt "B5G6R5_UNORM").map (fun fm => TrapUnc.decodePxT fm 1 0xF81F 0) = some (some [65535, 0, 65535]) ∧
    (Unc.findFmt "R10G10B10_XR_BIAS_A2_UNORM").map (fun fm => TrapUnc.decodePxT fm 1 0xBFF00180 0) =
      some (some [0, 0, 65535, 43690]) ∧
    (Unc.findFmt "R10G10B10A2_UNORM").map (fun fm => TrapUnc.decodePxT fm 0 0x7FF003FF 0) =
      some (some [255, 0, 255, 85]) ∧
    (Unc.findFmt "R16G16_SNORM").map (fun fm => TrapUnc.decodePxT fm 0 0x80007FFF 0) = some (some [255, 0, 128]) ∧
    TrapUnc.xr10n8T 0x8000 = none ∧ TrapUnc.n10n16T 1024 = none := by
  decide +kernel

/-- **Sub-sampled and bi-planar units** (`src/decode/sub_sampled.rs`, `bi_planar.rs`): all pixels of one encoded
unit — the 2 pixels of a `R8G8_B8G8` / `G8R8_G8B8` / `YUY2` / `UYVY` / `Y210` / `Y216` block, the 8 pixels of an
`R1_UNORM` byte, a luma sample with its chroma pair for `NV12` / `P010` / `P016` — for every unit value, format row
and precision; `r1_bits` (`out[i] = (bits >> (7 - i)) & 1`: `usize` subtraction, `u8` shift by `7 - i < 8`, index
`i < 8`) never traps; `decode_y210` / `to10` shift by the literal 6; the YUV conversions are float arithmetic with
saturating casts (`Conv.yuvTo`).  (Which unit feeds which output pixel — `process_2x1_blocks_helper`,
`process_8x1_blocks_helper`, `process_bi_planar_helper`, chroma line pairing — is `C01.decode_addresses_in_view` /
`decode_addresses_planar` and C04's pairing theorems.) -/
theorem subsampled_biplanar_bodies_trapfree :
    (∀ bits, TrapUnc.r1BitsT bits = some ((List.range 8).map fun i => (bits >>> (7 - i)) &&& 1)) ∧
    ∀ fm ∈ Unc.formats, ∀ prec word : Nat,
      TrapUnc.unitT fm prec word = some ((List.range fm.pxPerUnit).map (Unc.decodePx fm prec word)) :=
  ⟨TrapUnc.r1BitsT_eq, fun fm hfm prec word => TrapUnc.unitT_eq fm (TrapUnc.formats_ok fm hfm) prec word⟩

/-- non-vacuity: the eight pixels of the `R1_UNORM` byte `0xA5` at U16, and the table contains units of 2 and 8 pixels
and bi-planar rows -/
example :
    (Unc.findFmt "R1_UNORM").map (fun fm => TrapUnc.unitT fm 1 0xA5) =
      some (some [[65535], [0], [65535], [0], [0], [65535], [0], [65535]]) ∧
    (Unc.formats.filter (·.pxPerUnit == 2)).length = 6 ∧ (Unc.formats.filter (·.pxPerUnit == 8)).length = 1 ∧
    (Unc.formats.filter (·.planar.isSome)).length = 3 := by
  decide +kernel

/-- **Channel conversion** (`convert_channels_for` / `convert_channels::<Precision>`, `src/color/mod.rs`, with
`cast::from_bytes` of `src/cast.rs`): for every pair of channel layouts, every precision size (1, 2, 4 bytes) and
every pixel count `n`, on buffers of `n` pixels each — which is what the five call sites of
`read_write.rs:781,840,883,943,984` pass (`buffer_chunk` / `out_chunk` or row slices of `chunk_size` resp. `offset_width` pixels) — the three `debug_assert!`s hold, the
`expect("invalid from buffer")` / `expect("invalid to buffer")` of `cast::from_bytes` succeed (the length is a
multiple of the chunk size; byte arrays have alignment 1), `from_chunked.len() == to_chunked.len()`, and
`copy_from_slice` gets equal lengths.  The per-pixel functions of `ch.rs` only use literal indices into
fixed-size arrays (`Unc.convertChannels`).  `cast.rs` itself: `from_bytes` / `from_bytes_mut` return `Option`, the
`unwrap`s of `as_flattened*` and of `slice_le_to_ne_16/32` are on the big-endian path or on non-ZST arrays and the
`assert!(buf.len() % 2 == 0)` / `% 4` are on buffers of whole `u16` / `u32` / `f32` elements (lengths `n * 2`, `n * 4`). -/
theorem channel_conversion_trapfree (src dst : Unc.Channels) (size n : Nat) (hs : size = 1 ∨ size = 2 ∨ size = 4) :
    TrapUnc.convertChannelsT src dst size (n * (size * TrapUnc.chanCount src)) (n * (size * TrapUnc.chanCount dst)) =
      some () ∧
    (n * 2) % 2 = 0 ∧ (n * 4) % 4 = 0 :=
  ⟨TrapUnc.convertChannelsT_eq src dst size n hs, Nat.mul_mod_left .., Nat.mul_mod_left ..⟩

/-- non-vacuity: RGB → RGBA at U16 on 2 pixels (12 → 16 bytes) passes; mismatched or ragged buffers trap -/
example :
    TrapUnc.convertChannelsT .rgb .rgba 2 12 16 = some () ∧ TrapUnc.convertChannelsT .rgb .rgba 2 12 15 = none ∧
    TrapUnc.convertChannelsT .rgb .rgba 2 12 24 = none ∧ TrapUnc.convertChannelsT .rgba .rgba 4 32 16 = none := by
  decide +kernel

/-- **The pixel-loop wrappers around the bodies** (`process_pixels_helper`, `process_pixels_helper_unroll` of
`src/decode/read_write.rs`, the specialised `B8G8R8A8_UNORM` swap loop of `uncompressed.rs:193`), on the lengths they
are called with (`n` pixels on both sides; the callers' slicing is C05 / `decode_addresses_in_view`): the
`expect("Invalid input buffer")` / `expect("Invalid output buffer")` succeed for any non-empty pixel types and `n`
pixels are processed; the unrolled variant (`UNROLL = 4`, `u16 → u16` and `u16 → f32`: the only two instantiations)
slices inside both buffers, its `usize` products do not overflow and `debug_assert!(encoded.len() == decoded.len())`
holds for the rest; `out.swap(i, i + 2)` stays inside a row of whole RGBA pixels. -/
theorem pixel_loop_wrappers_trapfree :
    (∀ a b n, 0 < a → 0 < b → TrapUnc.processPixelsT a b (n * a) (n * b) = some n) ∧
    (∀ b n, (b = 2 ∨ b = 4) → n < 2 ^ 60 → TrapUnc.processPixelsUnrollT 4 2 b (n * 2) (n * b) = some ()) ∧
    (∀ n, TrapUnc.bgraSwapT (4 * n) = some ()) :=
  ⟨TrapUnc.processPixelsT_eq, TrapUnc.processPixelsUnrollT_eq, TrapUnc.bgraSwapT_eq⟩

/-- non-vacuity: 7 half pixels (one unrolled chunk of 4 + a rest of 3) pass; a ragged input, an output that is too
short for the unrolled chunk, and a BGRA row of 6 bytes trap -/
example :
    TrapUnc.processPixelsUnrollT 4 2 4 14 28 = some () ∧ TrapUnc.processPixelsUnrollT 4 2 4 13 28 = none ∧
    TrapUnc.processPixelsUnrollT 4 2 4 14 12 = none ∧ TrapUnc.processPixelsT 2 4 14 28 = some 7 ∧
    TrapUnc.bgraSwapT 8 = some () ∧ TrapUnc.bgraSwapT 6 = none := by
  decide +kernel

/-! ## 7. The generic decode loops of `read_write.rs` do not panic (branch `wL`)

`TrapLoops.lean`, `TrapLoopsBlock.lean`, `TrapLoopsPlanar.lean` are trapping mirrors of `UntypedLineBuffer`,
`ChannelConversionBuffer::{process_pixels, process_blocks, process_bi_planar}`, `for_each_pixel(_rect)_untyped`,
`for_each_block(_rect)_untyped` with `general_process_blocks` / `process_4x4/2x1/8x1_blocks_helper` /
`handle_width_offset`, `for_each_bi_planar(_rect)` with `process_bi_planar_helper`, `read_exact_image`, `for_each_slice`
and the row access of `ImageViewMut` (`get_row`, `get_row_range`, `rows_mut`, `is_contiguous`): every `a..b` slice, every
plain `usize` / `u32` / `u8` `+ - *`, every `/` `%` `div_ceil` by a run-time value, `step_by`, `chunks_mut`, every
`expect` / `unwrap` / `assert!` / `debug_assert!` and every index into a block's pixel array is a possible `none`.  A
mirror returns the list of events in program order: reader / allocator operations (the vocabulary of C06's traces) and
written byte ranges.  An I/O error or a memory-limit refusal is an early `return`: the operations executed are a prefix
of the list, so `some` covers those runs too; the `while let Some(line)` loops carry a fuel whose exhaustion is `none`, so
`some` also bounds the number of `next_line` calls by `lines + 1`.

Each theorem: for EVERY view `ImageViewMut` can hold (`Img.Ok` = C20's invariant for non-empty views: `u32` sizes,
pitch ≥ row bytes, data exactly the addressable length, a Rust slice), every surface size `< 2^32` whose encoded length
passed `check_likely_overflow`, every rect inside it, every native / target colour pair of equal precision, every
alignment of the output buffer: the mirror returns `some evs`, the reader / allocator trace of `evs` IS the trace of
C06 / C07's model `Stream.lean` (bytes per refill, skips, allocation sizes), and every written range lies inside
`[row · pitch, row · pitch + w · bpp)` of a row `< h` (C05's address statement, re-derived from the slicing itself). -/

open TrapLoops in
/-- **`UntypedLineBuffer`** (`new`: `TARGET_BUFFER_SIZE / bytes_per_line`, `clamp(1, height)`, the `usize` product;
`next_line`: refill arithmetic, `buf[..buf_filled]`, `buf[current_line_start..line_end]`): for every line length
`1 ≤ bytes_per_line < 2^64`, every line count `≥ 1` and every loop body that returns on every line, the loop
`while let Some(line) = next_line()` hands out exactly `height` lines of `bytes_per_line` bytes, terminates within
`height + 1` calls, and reads exactly C06's refill list. -/
theorem line_buffer_trapfree (bpl height : Nat) (hb : 0 < bpl) (hbl : bpl < TrapLoops.USIZE) (hh : 0 < height) :
    ∃ lb, LB.newT bpl height = some (lb, [TrapLoops.Ev.io (.alloc (Stream.lineBufLen bpl height))]) ∧
      ∀ {σ : Type} (body : σ → Sl → Option (σ × List TrapLoops.Ev)) (Inv : Nat → σ → Prop) (R : Sl → Prop) (st : σ),
        (∀ k st line, k < height → Inv k st → line.buf = .line → line.len = bpl →
          ∃ st' e, body st line = some (st', e) ∧ Inv (k + 1) st' ∧ Quiet R e) → Inv 0 st →
        ∃ evs, whileLinesT body (height + 1) lb st = some evs ∧ ios evs = Stream.refills bpl height ∧ Wr R evs := by
  obtain ⟨lb, h1, h2, h3⟩ := LB.newT_spec hb hbl hh
  refine ⟨lb, h1, ?_⟩
  intro σ body Inv R st hbody h0
  obtain ⟨evs, e1, e2, e3⟩ := whileLines_spec body _ bpl height Inv R hbody (height + 1) lb 0 height st 0 h3 h2
    (by omega) (by omega) h0
  exact ⟨evs, e1, by rw [e2, refillsFrom_stream hb], e3⟩

/-- non-vacuity, and the seeded change `seeded/C01e` (the lower clamp of the line count dropped: `buf_len =
round_down_to_multiple(TARGET_BUFFER_SIZE, bytes_per_line).min(height * bytes_per_line)`): a 70 000-byte line gets a
one-line buffer and two lines are handed out; with the mutated length (0 bytes) the first `next_line` slices
`buf[0..70000]` out of an empty buffer — the mirror traps. -/
example :
    (TrapLoops.LB.newT 70000 2).map (·.1) = some ⟨70000, 0, 70000, 2, 70000⟩ ∧
    TrapLoops.whileLinesT (fun (_ : Unit) _ => some ((), [])) 3 ⟨70000, 0, 70000, 2, 70000⟩ () =
      some [.io (.read 70000), .io (.read 70000)] ∧
    (SrcConsts.TARGET_BUFFER_SIZE - SrcConsts.TARGET_BUFFER_SIZE % 70000 = 0 ∧
      TrapLoops.whileLinesT (fun (_ : Unit) _ => some ((), [])) 3 ⟨0, 0, 70000, 2, 0⟩ () = none) ∧
    TrapLoops.LB.newT 0 2 = none ∧ TrapLoops.LB.newT 16 0 = none := by
  decide +kernel

open TrapLoops in
/-- **`ChannelConversionBuffer`** (`process_pixels`: `out.len() / bpp`, `encoded.len() / pixels`, `3072 / native_bpp`,
`step_by`, the three chunk slices; `process_blocks`: `3072 / (bpp · height)` `as u32`, the width-offset chunk through the
temporary buffer, `round_down_to_multiple`, `block_offset` / `block_count`, `out[chunk_start · bpp ..][y · pitch ..]`,
the per-row `convert_channels_for`; `process_bi_planar`: the same on two planes) — with or without conversion, for every
row of `1 ≤ n < 2^32` pixels, every block row and rect geometry, every pixel function that fits the pixel sizes.
After repair F17 `process_blocks` needs NO bound on the width beyond `u32`. -/
theorem channel_conversion_buffer_trapfree :
    (∀ (native : Color) (target : Unc.Channels) (f : PxFn) (encSize n : Nat) (enc out : Sl),
      (native.psz = 1 ∨ native.psz = 2 ∨ native.psz = 4) → f.Fits encSize native.bpp → encSize < 256 → 0 < n → n < U32B →
      enc.len = n * encSize → out.len = n * (Color.mk target native.psz).bpp →
      ∃ evs, convPixelsT native target f enc out = some evs ∧ Quiet (WrOK out) evs) ∧
    (∀ (native : Color) (target : Unc.Channels) (p : BlkFn) (bpb : Nat) (enc out : Sl) (rowPitch : Nat) (r : Addr.PRange)
      (al : Sl → Bool), ConvPre native target p bpb enc out rowPitch r →
      ∃ evs, convBlocksT native target p bpb al bpb p.bx enc out rowPitch r = some evs ∧
        Quiet (ConvOK out rowPitch (r.re - r.rs) (r.width * (Color.mk target native.psz).bpp)) evs) ∧
    (∀ (native : Color) (target : Unc.Channels) (ssx p1 p2 : Nat) (plane1 plane2 out : Sl) (offset width : Nat),
      (native.psz = 1 ∨ native.psz = 2 ∨ native.psz = 4) → ssx < 16 → p1 < 16 → p2 < 16 →
      PlPre ssx p1 p2 (Color.mk target native.psz).bpp plane1 plane2 out offset width →
      ∃ evs, convPlanarT native target ssx p1 p2 plane1 plane2 out offset width = some evs ∧ Quiet (WrOK out) evs) :=
  ⟨fun _ _ _ _ _ _ _ hp hf hE hn0 hn he ho => convPixelsT_spec hp hf hE hn0 hn he ho,
   fun _ _ _ _ _ _ _ _ al h => convBlocksT_spec al h,
   fun _ _ _ _ _ _ _ _ _ _ hp hs h1 h2 h => convPlanarT_spec hp hs h1 h2 h⟩

open TrapLoops in
/-- the full-width `R1_UNORM` line of finding F17 (4 294 966 273 pixels, native Grayscale U8 → Alpha U8): the contract
of `process_blocks` holds, so the repaired code does not trap … -/
theorem f17_repaired_returns (al : Sl → Bool) :
    ∃ evs, convBlocksT ⟨.gray, 1⟩ .alpha .eight 1 al 1 8 ⟨.line, 0, 536870785⟩ ⟨.out, 0, 4294966273⟩ 4294966273
      ⟨4294966273, 0, 0, 1⟩ = some evs :=
  have pre : ConvPre ⟨.gray, 1⟩ .alpha .eight 1 ⟨.line, 0, 536870785⟩ ⟨.out, 0, 4294966273⟩ 4294966273
      ⟨4294966273, 0, 0, 1⟩ :=
    { shape := ⟨by decide, by decide, by decide, by decide, by decide, fun _ => rfl, by decide⟩, psz := Or.inl rfl, buf := by decide, wo_lt := by decide, w_ok := Or.inl (by decide),
      wsum_lt := by decide, rows := by decide, re_le := by decide, enc_len := by decide +kernel,
      out_len := by decide +kernel, out_lt := by decide }
  (convBlocksT_spec al pre).imp fun _ h => h.1

open TrapLoops in
/-- … while the line as it was before the repair (`chunk_start + preferred_chunk_size` in plain `u32`) traps in the last
chunk (start 4 294 966 272 = 1 398 101 · 3072): the theorem-level record of F17. The conversion buffer size is a tuning
constant that follows the source (`SrcConsts`); the record is stated for the value it had when F17 was found (`hB`, true
on the unchanged tree), so that retuning the buffer does not break the build — the general theorem above holds for every
value. -/
theorem f17_unrepaired_traps (al : Sl → Bool) (hB : BUFFER_BYTES = 3072) :
    convBlocksUnrepairedT ⟨.gray, 1⟩ .alpha .eight 1 al 1 8 ⟨.line, 0, 536870785⟩ ⟨.out, 0, 4294966273⟩ 4294966273
      ⟨4294966273, 0, 0, 1⟩ = none := by
  have hmem : 4294966272 ∈ Addr.stepStarts 4294966273 3072 :=
    (Addr.mem_stepStarts (by decide)).2 ⟨1398101, by decide, by decide⟩
  have hbody : convBlockChunkT (fun a b => ck32 (a + b)) ⟨.gray, 1⟩ .alpha .eight 1 al 1 8 1 1 1 3072 4294966273
      4294966273 ⟨4294966273, 0, 0, 1⟩ ⟨.line, 0, 536870785⟩ ⟨.out, 0, 4294966273⟩ 4294966272 = none := by
    unfold convBlockChunkT
    have : ck32 (4294966272 + 3072) = none := by decide +kernel
    simp only [this]; rfl
  have hloop := forT_none _ _ _ hmem hbody
  unfold convBlocksUnrepairedT convBlocksWithT
  rw [if_neg (by decide)]
  have e1 : Trap.subU 1 0 = some 1 := by decide +kernel
  have e2 : Color.bppT ⟨.gray, 1⟩ = some 1 := by decide +kernel
  have e3 : ckU (1 * 1) = some 1 := by decide +kernel
  have e4 : Trap.div BUFFER_BYTES 1 = some 3072 := by rw [hB]; decide +kernel
  have e5 : Color.bppT ⟨.alpha, 1⟩ = some 1 := by decide +kernel
  have e6 : modT (3072 % U32B) 8 = some 0 := by decide +kernel
  have e7 : Trap.subU (3072 % U32B) 0 = some 3072 := by decide +kernel
  simp only []
  rw [e1, Trap.bind_some', Trap.dbgP_of (by decide), Trap.bind_some', e2, Trap.bind_some', e3, Trap.bind_some', e4,
    Trap.bind_some', Trap.dbgP_of (by decide), Trap.bind_some', e5, Trap.bind_some', if_neg (by decide)]
  unfold convBlocksMainT
  rw [e6, Trap.bind_some', e7, Trap.bind_some', Trap.dbgP_of (by decide), Trap.bind_some']
  exact hloop

/-- the chunk itself: with the plain addition `none`, with the saturating one the last chunk (1 pixel) is decoded -/
example :
    TrapLoops.convBlockChunkT (fun a b => TrapLoops.ck32 (a + b)) ⟨.gray, 1⟩ .alpha .eight 1 (fun _ => false) 1 8 1 1 1 3072
      4294966273 4294966273 ⟨4294966273, 0, 0, 1⟩ ⟨.line, 0, 536870785⟩ ⟨.out, 0, 4294966273⟩ 4294966272 = none ∧
    (TrapLoops.convBlockChunkT (fun a b => some (TrapLoops.satAdd32 a b)) ⟨.gray, 1⟩ .alpha .eight 1 (fun _ => false) 1 8 1 1 1
      3072 4294966273 4294966273 ⟨4294966273, 0, 0, 1⟩ ⟨.line, 0, 536870785⟩ ⟨.out, 0, 4294966273⟩ 4294966272).map
        TrapLoops.outWrites = some [⟨.out, 4294966272, 1⟩] := by
  decide +kernel

/-! ### surface bounds from `check_likely_overflow` -/

theorem pixel_surface_bound {encSize W H : Nat} (he : 0 < encSize) (hl : encSize < 256)
    (h : checkLikelyOverflow (.pixel encSize none) W H = true) : W * H * encSize ≤ I64MAX := by
  have wf : (Fam.pixel encSize none).WF := ⟨he, hl, fun _ h => by cases h⟩
  exact (checkLikelyOverflow_iff wf W H).1 h

theorem block_surface_bound {bx by_ bpb W H : Nat} (wf : (Fam.block bx by_ bpb).WF)
    (h : checkLikelyOverflow (.block bx by_ bpb) W H = true) : divCeil W bx * divCeil H by_ * bpb ≤ I64MAX := by
  have := (checkLikelyOverflow_iff wf W H).1 h
  obtain ⟨a, _, c, _, _, _⟩ := wf
  simpa only [Fam.px, PixelInfo.surfIdeal, ← divCeil_eq _ _ a, ← divCeil_eq _ _ c, ISIZE_MAX_eq] using this

theorem planar_surface_bound {p1 p2 ssx ssy W H : Nat} (wf : (Fam.biPlanar p1 p2 ssx ssy).WF)
    (h : checkLikelyOverflow (.biPlanar p1 p2 ssx ssy) W H = true) : TrapLoops.PlanarSurf p1 p2 ssx ssy W H := by
  have := (checkLikelyOverflow_iff wf W H).1 h
  obtain ⟨_, _, _, _, a, _, c, _⟩ := wf
  simp only [Fam.px, PixelInfo.surfIdeal, ← divCeil_eq _ _ a, ← divCeil_eq _ _ c, ISIZE_MAX_eq] at this
  have e1 : W * p1 * H = W * H * p1 := Nat.mul_right_comm _ _ _
  have e2 : divCeil W ssx * p2 * divCeil H ssy = divCeil W ssx * divCeil H ssy * p2 := Nat.mul_right_comm _ _ _
  have : W * H * p1 + divCeil W ssx * divCeil H ssy * p2 ≤ I64MAX := this
  exact ⟨by omega, by omega⟩

open TrapLoops in
/-- **`for_each_pixel_untyped` / `for_each_pixel_rect_untyped`** (uncompressed family, every decoder of
`uncompressed.rs`: `PixelCfg` = the entry `debug_assert`s + a pixel function instantiated for the two pixel sizes). -/
theorem pixel_loops_trapfree (img : Img) (ok : img.Ok) (native : Color) (encSize decSize : Nat) (f : PxFn)
    (c : PixelCfg img native encSize decSize f) :
    (∃ evs, pixelFullT img native encSize decSize f = some evs ∧ ios evs = Stream.pixelFull encSize img.w img.h ∧
      Wr (InRows 0 img.pitch img.h (img.w * img.color.bpp)) evs) ∧
    ∀ W H ox oy, ox + img.w ≤ W → oy + img.h ≤ H → checkLikelyOverflow (.pixel encSize none) W H = true →
      ∃ evs, pixelRectT img W H ox oy native encSize decSize f = some evs ∧
        ios evs = Stream.pixelRect encSize W H ox oy img.w img.h ∧
        Wr (InRows 0 img.pitch img.h (img.w * img.color.bpp)) evs :=
  ⟨pixelFullT_spec ok c, fun _ _ _ _ hx hy hs =>
    pixelRectT_spec ok c hx hy (pixel_surface_bound c.enc_pos c.enc_lt hs)⟩

/-- the pixel functions named in `uncompressed.rs` fit the pixel sizes of every decoder they are used in, and every
whole-image COPY decoder is registered for a colour it fits (glue tables `processFnUses`, `copyUses`) -/
theorem pixel_glue_fits :
    (TrapLoops.processFnUses.all fun u => u.2.2.2.fitsB u.2.1 u.2.2.1.bpp) = true ∧
    (TrapLoops.copyUses.all fun u => match u.2.2 with
      | .nothing => u.2.1.psz == 1 | .le16 => u.2.1.psz == 2 | .le32 => u.2.1.psz == 4 | .s8 => u.2.1.psz == 1
      | .bgraSwap => u.2.1 == ⟨.rgba, 1⟩) = true := by
  decide +kernel

theorem pxfn_fits_of_fitsB {f : TrapLoops.PxFn} {e d : Nat} (h : f.fitsB e d = true) : f.Fits e d := by
  cases f with
  | helper a b =>
    simp only [TrapLoops.PxFn.fitsB, Bool.and_eq_true, decide_eq_true_eq, List.any_eq_true, List.mem_range,
      beq_iff_eq] at h
    obtain ⟨⟨ha, hb⟩, c, hc, h1, h2⟩ := h
    exact ⟨ha, hb, c, by omega, h1, h2⟩
  | copy => show e = d; simpa [TrapLoops.PxFn.fitsB] using h
  | unroll a b =>
    simp only [TrapLoops.PxFn.fitsB, Bool.and_eq_true, Bool.or_eq_true, List.any_eq_true, List.mem_range,
      beq_iff_eq] at h
    obtain ⟨⟨ha, hb⟩, c, hc, h1, h2⟩ := h
    exact ⟨ha, hb, c, by omega, h1, h2⟩

/-- non-vacuity: R8G8B8_UNORM 5 × 3 into a strided RGBA U8 view (pitch 20 = row bytes) through the conversion buffer,
full and rect; the hypotheses hold; with a pitch BELOW the row bytes (14 < 20) `rows_mut` cannot cut `[..bytes_per_row]`
out of a 14-byte chunk and the mirror traps; so does a rect that sticks out of the surface (`u32` underflow of
`surface_size.width - offset.x - image.width()`) -/
example :
    (⟨60, 5, 3, 20, ⟨.rgba, 1⟩⟩ : TrapLoops.Img).Ok ∧ TrapLoops.N8_TO_U8.fitsB 3 3 = true ∧
    (TrapLoops.pixelFullT ⟨60, 5, 3, 20, ⟨.rgba, 1⟩⟩ ⟨.rgb, 1⟩ 3 3 TrapLoops.N8_TO_U8).map TrapLoops.ios =
      some (Stream.pixelFull 3 5 3) ∧
    (TrapLoops.pixelRectT ⟨60, 5, 3, 20, ⟨.rgba, 1⟩⟩ 9 7 2 1 ⟨.rgb, 1⟩ 3 3 TrapLoops.N8_TO_U8).map TrapLoops.outWrites =
      some [⟨.out, 0, 20⟩, ⟨.out, 20, 20⟩, ⟨.out, 40, 20⟩] ∧
    TrapLoops.pixelFullT ⟨48, 5, 3, 14, ⟨.rgba, 1⟩⟩ ⟨.rgb, 1⟩ 3 3 TrapLoops.N8_TO_U8 = none ∧
    TrapLoops.pixelRectT ⟨60, 5, 3, 20, ⟨.rgba, 1⟩⟩ 9 7 6 1 ⟨.rgb, 1⟩ 3 3 TrapLoops.N8_TO_U8 = none := by
  decide +kernel

open TrapLoops in
/-- **`read_exact_image` + `for_each_slice`** (the whole-image decoders `COPY_U8/U16/U32/S8` and the BGRA swap): for
every view — contiguous: one read of all data, or strided: one read per row through `rows_mut` — no trap, exactly
`w · h · bpp` bytes are read, the `assert!(buf.len() % 2 == 0)` / `% 4` of `cast::slice_le_to_ne_16/32` and the
`out.swap(i, i + 2)` of the BGRA loop hold on every slice, and nothing is written outside the rows (a contiguous view
has no padding). -/
theorem read_exact_image_trapfree (img : Img) (ok : img.Ok) (g : SliceFn) (hg : g.Fits img.color) :
    ∃ evs, copyFullT img g = some evs ∧
      (ios evs = Stream.copyFull img.color.bpp img.w img.h ∨
        ios evs = List.replicate img.h (.read (img.w * img.color.bpp))) ∧
      Stream.span (ios evs) = img.w * img.h * img.color.bpp ∧ Wr (CopyWr img) evs :=
  copyFullT_spec ok hg

/-- non-vacuity: `COPY_U16` into a contiguous and into a strided RGBA U16 view; an odd data length fails the assertion
of `slice_le_to_ne_16` -/
example :
    (TrapLoops.copyFullT ⟨48, 2, 3, 16, ⟨.rgba, 2⟩⟩ .le16).map TrapLoops.ios = some [.read 48] ∧
    (TrapLoops.copyFullT ⟨56, 2, 3, 20, ⟨.rgba, 2⟩⟩ .le16).map TrapLoops.ios = some [.read 16, .read 16, .read 16] ∧
    TrapLoops.copyFullT ⟨15, 5, 3, 5, ⟨.gray, 1⟩⟩ .le16 = none := by
  decide +kernel

/-- every block / sub-sampled format of the decoder table leaves room for one block row of the widest native pixel
(16 bytes) in the conversion buffer: `debug_assert!(buffer_size.width >= block_width)` (read_write.rs:809) -/
theorem block_formats_fit_conversion_buffer :
    (Stream.formatTable.all fun row => match row.2 with
      | .block bw bh _ => decide (bw * (16 * bh) ≤ TrapLoops.BUFFER_BYTES)
      | _ => true) = true := by
  decide +kernel

open TrapLoops in
/-- **`for_each_block_untyped` / `for_each_block_rect_untyped`** with every `ProcessBlocksFn` shape
(`general_process_blocks::<bx, by>` for ASTC, `process_4x4_blocks_helper` with `handle_width_offset` and the aligned fast
path whichever way the alignment test goes, `process_2x1_blocks_helper`, `process_8x1_blocks_helper`) and
`ChannelConversionBuffer::process_blocks`: no trap for every surface, rect, view and colour pair — with NO bound on the
width (F17 repaired).  `BlockCfg` = the entry `debug_assert`s, the unit sizes of the shape, and
`block_formats_fit_conversion_buffer`. -/
theorem block_loops_trapfree (img : Img) (ok : img.Ok) (native : Color) (p : BlkFn) (bpb size : Nat)
    (c : BlockCfg img native p bpb size) (al : Sl → Bool) :
    (∃ evs, blockFullT img native p bpb size al = some evs ∧ ios evs = Stream.blockFull p.bx p.by_ bpb img.w img.h ∧
      Wr (InRows 0 img.pitch img.h (img.w * img.color.bpp)) evs) ∧
    ∀ W H ox oy, ox + img.w ≤ W → oy + img.h ≤ H → W < U32B → H < U32B → (Fam.block p.bx p.by_ bpb).WF →
      checkLikelyOverflow (.block p.bx p.by_ bpb) W H = true →
      ∃ evs, blockRectT img W H ox oy native p bpb al = some evs ∧
        ios evs = Stream.blockRect p.bx p.by_ bpb W H oy img.h ∧
        Wr (InRows 0 img.pitch img.h (img.w * img.color.bpp)) evs :=
  ⟨blockFullT_spec al ok c, fun _ _ _ _ hx hy hW hH wf hs =>
    blockRectT_spec al ok c hx hy hW hH (block_surface_bound wf hs)⟩

/-- non-vacuity: BC1 10 × 6 (RGBA U8 native) into RGB U8 through the conversion buffer and into RGBA U8 directly, rect of
a 21 × 13 surface at (3, 2); ASTC 12 × 12 F32 into RGB F32; a data slice one byte too short, and a rect outside the
surface (`block_line[block_range]` out of range), trap -/
example :
    (⟨280, 10, 6, 50, ⟨.rgb, 1⟩⟩ : TrapLoops.Img).Ok ∧
    (TrapLoops.blockFullT ⟨280, 10, 6, 50, ⟨.rgb, 1⟩⟩ ⟨.rgba, 1⟩ .four 8 4 (fun _ => true)).map TrapLoops.ios =
      some (Stream.blockFull 4 4 8 10 6) ∧
    (TrapLoops.blockRectT ⟨290, 10, 6, 50, ⟨.rgba, 1⟩⟩ 21 13 3 2 ⟨.rgba, 1⟩ .four 8 (fun _ => false)).map TrapLoops.ios =
      some (Stream.blockRect 4 4 8 21 13 2 6) ∧
    ((TrapLoops.blockRectT ⟨7960, 30, 20, 400, ⟨.rgb, 4⟩⟩ 100 100 7 5 ⟨.rgba, 4⟩ (.general 12 12) 16 (fun _ => false)).map
      fun e => (TrapLoops.outWrites e).length).isSome = true ∧
    TrapLoops.blockFullT ⟨279, 10, 6, 50, ⟨.rgb, 1⟩⟩ ⟨.rgba, 1⟩ .four 8 4 (fun _ => true) = none ∧
    TrapLoops.blockRectT ⟨290, 10, 6, 50, ⟨.rgba, 1⟩⟩ 21 13 15 2 ⟨.rgba, 1⟩ .four 8 (fun _ => false) = none := by
  decide +kernel

open TrapLoops in
/-- **`for_each_bi_planar` / `for_each_bi_planar_rect`** with `process_bi_planar_helper` and
`ChannelConversionBuffer::process_bi_planar`, for every `BiPlaneInfo` the format table could hold (`Fam.WF`). -/
theorem biplanar_loops_trapfree (img : Img) (ok : img.Ok) (native : Color) (p1 p2 ssx ssy : Nat)
    (c : PlanarCfg img native p1 p2 ssx ssy) (wf : (Fam.biPlanar p1 p2 ssx ssy).WF) :
    (checkLikelyOverflow (.biPlanar p1 p2 ssx ssy) img.w img.h = true →
      ∃ evs, planarFullT img native p1 p2 ssx ssy = some evs ∧
        ios evs = Stream.biPlanarFull p1 p2 ssx ssy img.w img.h ∧
        Wr (InRows 0 img.pitch img.h (img.w * img.color.bpp)) evs) ∧
    ∀ W H ox oy, ox + img.w ≤ W → oy + img.h ≤ H → W < U32B → H < U32B →
      checkLikelyOverflow (.biPlanar p1 p2 ssx ssy) W H = true →
      ∃ evs, planarRectT img W H ox oy native p1 p2 ssx ssy = some evs ∧
        Stream.biPlanarRect p1 p2 ssx ssy W H oy img.h = .ok (ios evs) ∧
        Wr (InRows 0 img.pitch img.h (img.w * img.color.bpp)) evs :=
  ⟨fun hs => planarFullT_spec ok c (planar_surface_bound wf hs), fun _ _ _ _ hx hy hW hH hs =>
    planarRectT_spec ok c hx hy hW hH (planar_surface_bound wf hs)⟩

/-- non-vacuity: NV12 5 × 3 into RGB U8 and (through the conversion buffer) RGBA U8, rect 3 × 2 at (1, 1); a view whose
data is one byte short traps in `get_row` -/
example :
    (TrapLoops.planarFullT ⟨55, 5, 3, 20, ⟨.rgb, 1⟩⟩ ⟨.rgb, 1⟩ 1 2 2 2).map TrapLoops.ios =
      some (Stream.biPlanarFull 1 2 2 2 5 3) ∧
    (TrapLoops.planarRectT ⟨32, 3, 2, 20, ⟨.rgba, 1⟩⟩ 5 3 1 1 ⟨.rgb, 1⟩ 1 2 2 2).map TrapLoops.ios =
      (Stream.biPlanarRect 1 2 2 2 5 3 1 2).toOption ∧
    TrapLoops.planarFullT ⟨54, 5, 3, 20, ⟨.rgb, 1⟩⟩ ⟨.rgb, 1⟩ 1 2 2 2 = none := by
  decide +kernel

open TrapLoops in
/-- **The decode loops of `read_write.rs` are total** — assembled.  For every non-empty output view (`Img.Ok`), every
native colour: each of the four loop families, instantiated the way the decoders of `uncompressed.rs`, `bc.rs`,
`astc.rs`, `sub_sampled.rs`, `bi_planar.rs` instantiate it, returns `some` for the full decode and for every rect of
every surface that passed `check_likely_overflow`; its reader / allocator trace is the one of C06 / C07's model and all
writes stay inside the rows of the view.  With `parse_layout_trapfree`, `cursor_ops_trapfree`,
`decode_geometry_trapfree` and section 6 this closes the decode path from the first header byte to the last output
byte; what remains outside the proof: the `astc-decode` crate, `std` I/O and allocation, termination of the REAL loops
(the mirrors' loops terminate), and the assumption that `f32` arithmetic never panics. -/
theorem decode_loops_trapfree (img : Img) (ok : img.Ok) (native : Color) :
    (∀ encSize decSize f, PixelCfg img native encSize decSize f →
      (∃ evs, pixelFullT img native encSize decSize f = some evs ∧ ios evs = Stream.pixelFull encSize img.w img.h ∧
        Wr (InRows 0 img.pitch img.h (img.w * img.color.bpp)) evs) ∧
      ∀ W H ox oy, ox + img.w ≤ W → oy + img.h ≤ H → checkLikelyOverflow (.pixel encSize none) W H = true →
        ∃ evs, pixelRectT img W H ox oy native encSize decSize f = some evs ∧
          ios evs = Stream.pixelRect encSize W H ox oy img.w img.h ∧
          Wr (InRows 0 img.pitch img.h (img.w * img.color.bpp)) evs) ∧
    (∀ g : SliceFn, g.Fits img.color → ∃ evs, copyFullT img g = some evs ∧
      Stream.span (ios evs) = img.w * img.h * img.color.bpp ∧ Wr (CopyWr img) evs) ∧
    (∀ p bpb size, BlockCfg img native p bpb size → ∀ al : Sl → Bool,
      (∃ evs, blockFullT img native p bpb size al = some evs ∧ ios evs = Stream.blockFull p.bx p.by_ bpb img.w img.h ∧
        Wr (InRows 0 img.pitch img.h (img.w * img.color.bpp)) evs) ∧
      ∀ W H ox oy, ox + img.w ≤ W → oy + img.h ≤ H → W < U32B → H < U32B → (Fam.block p.bx p.by_ bpb).WF →
        checkLikelyOverflow (.block p.bx p.by_ bpb) W H = true →
        ∃ evs, blockRectT img W H ox oy native p bpb al = some evs ∧
          ios evs = Stream.blockRect p.bx p.by_ bpb W H oy img.h ∧
          Wr (InRows 0 img.pitch img.h (img.w * img.color.bpp)) evs) ∧
    (∀ p1 p2 ssx ssy, PlanarCfg img native p1 p2 ssx ssy → (Fam.biPlanar p1 p2 ssx ssy).WF →
      (checkLikelyOverflow (.biPlanar p1 p2 ssx ssy) img.w img.h = true →
        ∃ evs, planarFullT img native p1 p2 ssx ssy = some evs ∧
          ios evs = Stream.biPlanarFull p1 p2 ssx ssy img.w img.h ∧
          Wr (InRows 0 img.pitch img.h (img.w * img.color.bpp)) evs) ∧
      ∀ W H ox oy, ox + img.w ≤ W → oy + img.h ≤ H → W < U32B → H < U32B →
        checkLikelyOverflow (.biPlanar p1 p2 ssx ssy) W H = true →
        ∃ evs, planarRectT img W H ox oy native p1 p2 ssx ssy = some evs ∧
          Stream.biPlanarRect p1 p2 ssx ssy W H oy img.h = .ok (ios evs) ∧
          Wr (InRows 0 img.pitch img.h (img.w * img.color.bpp)) evs) :=
  ⟨fun e d f c => pixel_loops_trapfree img ok native e d f c,
   fun g hg => (read_exact_image_trapfree img ok g hg).imp fun _ h => ⟨h.1, h.2.2.1, h.2.2.2⟩,
   fun p bpb size c al => block_loops_trapfree img ok native p bpb size c al,
   fun p1 p2 ssx ssy c wf => biplanar_loops_trapfree img ok native p1 p2 ssx ssy c wf⟩

/-- the views of C20 are the views of this section: every non-empty `View` with C20's invariant, a slice length
`≤ isize::MAX` (the language's bound for every slice) and a `usize` pitch gives an `Img.Ok` for every colour of its
pixel size -/
theorem view_invariant_is_img_ok (v : View) (inv : C20.Inv v) (hne : ¬ (v.w = 0 ∨ v.h = 0)) (hl : v.len ≤ I64MAX)
    (hp : v.pitch < U64) (c : TrapLoops.Color) (hc : c.bpp = v.bpp) (hpsz : c.psz = 1 ∨ c.psz = 2 ∨ c.psz = 4) :
    (⟨v.len, v.w, v.h, v.pitch, c⟩ : TrapLoops.Img).Ok :=
  { w_pos := by show 0 < v.w; omega, w_lt := inv.w_lt, h_pos := by show 0 < v.h; omega, h_lt := inv.h_lt, psz := hpsz,
    pitch_ge := by show v.w * c.bpp ≤ v.pitch; rw [hc]; exact inv.pitch_ge,
    pitch_lt := hp,
    len_eq := by show v.len = v.pitch * (v.h - 1) + v.w * c.bpp; rw [hc]; exact inv.len_eq hne,
    len_le := hl }

/-- the unit sizes of every row of the decoder table are admissible for the loops: block rows give a `BlkFn.Shape` (for the
helper shape of matching block size) and fit the conversion buffer, bi-planar rows are in `PlanarCfg`'s ranges, pixel rows
have an encoded size `1..255` -/
theorem table_rows_admissible :
    (Stream.formatTable.all fun row => match row.2 with
      | .block bw bh bpb => decide (0 < bw ∧ bw < 16 ∧ 0 < bh ∧ bh < 16 ∧ 0 < bpb ∧ bpb < 256 ∧
          bw * (16 * bh) ≤ TrapLoops.BUFFER_BYTES)
      | .biPlanar p1 p2 sx sy => decide (0 < p1 ∧ p1 < 16 ∧ 0 < p2 ∧ p2 < 16 ∧ 0 < sx ∧ sx < 16 ∧ 0 < sy ∧ sy < 16)
      | .pixel bpp _ => decide (0 < bpp ∧ bpp < 256)) = true := by
  decide +kernel

open TrapLoops in
/-- glue: a block row of the table, decoded by a helper of its block size into a view of the native precision, satisfies
`BlockCfg` for every native colour (so `block_loops_trapfree` applies to all 38 block / sub-sampled formats × every
native / target colour pair) -/
theorem block_cfg_from_table {name : String} {bw bh bpb : Nat} (hrow : (name, Fam.block bw bh bpb) ∈ Stream.formatTable)
    (p : BlkFn) (hbx : p.bx = bw) (hby : p.by_ = bh) (h8 : p = .eight → bpb = 1) (img : Img) (ok : img.Ok)
    (native : Color) (hprec : img.color.psz = native.psz) : BlockCfg img native p bpb native.bpp := by
  have hall := List.all_eq_true.mp table_rows_admissible _ hrow
  simp only [decide_eq_true_eq] at hall
  obtain ⟨a1, a2, a3, a4, a5, a6, a7⟩ := hall
  have hb := Color.bpp_bounds native (hprec ▸ ok.psz)
  refine ⟨hprec, rfl, ⟨by omega, by omega, by omega, by omega, a5, h8, a6⟩, ?_⟩
  rw [hbx, hby]
  have : bw * (native.bpp * bh) ≤ bw * (16 * bh) := Nat.mul_le_mul_left _ (Nat.mul_le_mul_right _ hb.2)
  omega

/-- non-vacuity: BC7 is a row of the table -/
example : ("BC7_UNORM", Fam.block 4 4 16) ∈ Stream.formatTable := by decide

end Dds.C01
