/-
C20 — Image views exist only for addressable geometry and never reach outside it.

Model: `View.lean` (`ImageView` / `ImageViewMut`: `new`, `new_with`, `rows`, `rows_mut`,
`cropped` / `cropped_data`), after the repairs F1 (checked arithmetic in `new_with`) and F2
(`rows_mut` of empty views). All statements hold for every buffer length, row pitch
(< 2^64), width/height (< 2^32) and bytes per pixel 1..16.
-/
import DdsModel.View
import DdsModel.Proofs.Layout
namespace Dds.C20
open Dds

/-- the invariant of every view the constructors and `cropped` produce -/
structure Inv (v : View) : Prop where
  bpp_pos : 1 ≤ v.bpp
  bpp_le : v.bpp ≤ 16
  w_lt : v.w < U32
  h_lt : v.h < U32
  len_lt : v.len < U64
  empty : (v.w = 0 ∨ v.h = 0) → v.w = 0 ∧ v.h = 0 ∧ v.pitch = 0 ∧ v.len = 0
  pitch_ge : v.w * v.bpp ≤ v.pitch
  len_eq : ¬ (v.w = 0 ∨ v.h = 0) → v.len = v.pitch * (v.h - 1) + v.w * v.bpp

private theorem wMul_bpr {w bpp : Nat} (hw : w < U32) (hb : bpp ≤ 16) : wMul w bpp = w * bpp := by
  apply wMul_eq
  have : w * bpp ≤ w * 16 := Nat.mul_le_mul_left _ hb
  unfold U32 at hw; unfold U64; omega

/-- `new_with` returns a view EXACTLY when the row pitch covers a row and every pixel row
lies inside the buffer — computed in ℕ, so extreme pitches can neither panic nor wrap — and
`None` otherwise. Non-empty sizes. -/
theorem new_with_iff (dataLen pitch w h bpp : Nat) (hd : dataLen < U64) (hp : pitch < U64)
    (hw : w < U32) (hh : h < U32) (hb : bpp ≤ 16) (hne : ¬ (w = 0 ∨ h = 0)) :
    View.newWith dataLen pitch w h bpp =
      if w * bpp ≤ pitch ∧ pitch * (h - 1) + w * bpp ≤ dataLen then
        some ⟨0, pitch * (h - 1) + w * bpp, w, h, bpp, pitch⟩
      else none := by
  unfold View.newWith
  simp only [hne, if_false]
  rw [wMul_bpr hw hb]
  by_cases h1 : pitch < w * bpp
  · rw [if_pos h1, if_neg (by omega)]
  · rw [if_neg h1]
    simp only [ckMul_ckSome, ckAdd_ckSome]
    by_cases h2 : pitch * (h - 1) < U64
    · rw [ckSome_lt h2]
      simp only
      by_cases h3 : pitch * (h - 1) + w * bpp < U64
      · rw [ckSome_lt h3]
        simp only
        by_cases h4 : dataLen < pitch * (h - 1) + w * bpp
        · rw [if_pos h4, if_neg (by omega)]
        · rw [if_neg h4, if_pos (by omega)]
      · rw [ckSome_ge h3, if_neg (by omega)]
    · rw [ckSome_ge h2, if_neg (by omega)]

/-- Empty sizes are normalised to the 0x0 view with pitch 0 over no data. -/
theorem new_with_empty (dataLen pitch w h bpp : Nat) (he : w = 0 ∨ h = 0) :
    View.newWith dataLen pitch w h bpp = some ⟨0, 0, 0, 0, bpp, 0⟩ := by
  unfold View.newWith
  simp [he, wMul, ckMul, ckAdd, U64]

/-- The contiguous constructor accepts exactly when the length matches `w*h*bpp`
(slice lengths are at most `isize::MAX`). -/
theorem new_iff (dataLen w h bpp : Nat) (hd : dataLen ≤ I64MAX) (hw : w < U32) (hb : bpp ≤ 16)
    (hne : ¬ (w = 0 ∨ h = 0)) :
    View.new dataLen w h bpp =
      if dataLen = w * h * bpp then some ⟨0, dataLen, w, h, bpp, w * bpp⟩ else none := by
  unfold View.new
  simp only [hne, if_false]
  rw [wMul_bpr hw hb]
  unfold satMul64
  have hI : I64MAX < U64 - 1 := by decide
  by_cases h1 : w * h * bpp < U64
  · rw [if_pos h1]
    by_cases h2 : dataLen = w * h * bpp
    · rw [if_neg (by omega), if_pos h2]
    · rw [if_pos h2, if_neg h2]
  · rw [if_neg h1, if_pos (by omega), if_neg (by omega)]

theorem new_empty (dataLen w h bpp : Nat) (he : w = 0 ∨ h = 0) :
    View.new dataLen w h bpp = if dataLen = 0 then some ⟨0, 0, 0, 0, bpp, 0⟩ else none := by
  unfold View.new
  simp only [he, if_true, Nat.zero_mul, satMul64, wMul]
  by_cases h0 : dataLen = 0
  · subst h0; simp [U64]
  · have : (0 : Nat) < U64 := by decide
    simp [h0, this]

/-- Every view returned by `new_with` satisfies the invariant. -/
theorem new_with_inv (dataLen pitch w h bpp : Nat) (v : View) (hd : dataLen < U64)
    (hp : pitch < U64) (hw : w < U32) (hh : h < U32) (hb1 : 1 ≤ bpp) (hb : bpp ≤ 16)
    (hv : View.newWith dataLen pitch w h bpp = some v) : Inv v := by
  by_cases he : w = 0 ∨ h = 0
  · rw [new_with_empty _ _ _ _ _ he] at hv
    simp only [Option.some.injEq] at hv
    subst hv
    exact ⟨hb1, hb, by show 0 < U32; decide, by show 0 < U32; decide, by show 0 < U64; decide,
      fun _ => ⟨rfl, rfl, rfl, rfl⟩, by simp, fun h => absurd (Or.inl rfl) h⟩
  · rw [new_with_iff _ _ _ _ _ hd hp hw hh hb he] at hv
    by_cases hc : w * bpp ≤ pitch ∧ pitch * (h - 1) + w * bpp ≤ dataLen
    · rw [if_pos hc] at hv
      simp only [Option.some.injEq] at hv
      subst hv
      exact ⟨hb1, hb, hw, hh, by show pitch * (h - 1) + w * bpp < U64; omega,
        fun h' => absurd h' he, hc.1, fun _ => rfl⟩
    · rw [if_neg hc] at hv; cases hv

/-! ### rows -/

/-- the rows a view must expose: `height` slices of `width*bpp` bytes at multiples of the pitch -/
def specRows (v : View) : List (Nat × Nat) :=
  (List.range v.h).map fun y => (y * v.pitch, y * v.pitch + v.w * v.bpp)

private theorem row_bound {v : View} (hv : Inv v) (hne : ¬ (v.w = 0 ∨ v.h = 0)) {y : Nat}
    (hy : y < v.h) : y * v.pitch + v.w * v.bpp ≤ v.len := by
  rw [hv.len_eq hne]
  have : y * v.pitch ≤ (v.h - 1) * v.pitch := Nat.mul_le_mul_right _ (by omega)
  rw [Nat.mul_comm v.pitch]; omega

/-- `rows()` exposes exactly the specified rows, all inside the data; also for empty views
(zero rows); no slice panics and no index arithmetic wraps. -/
theorem rows_spec (v : View) (hv : Inv v) :
    v.rowsP = some (specRows v) ∧ ∀ r ∈ specRows v, r.1 ≤ r.2 ∧ r.2 ≤ v.len := by
  by_cases he : v.w = 0 ∨ v.h = 0
  · obtain ⟨h1, h2, _, _⟩ := hv.empty he
    unfold View.rowsP specRows
    simp [he, h2, sequenceOpt]
  · constructor
    · unfold View.rowsP specRows
      simp only [he, if_false]
      apply sequenceOpt_map_some
      intro y hy
      have hy' : y < v.h := by simpa using hy
      have hb := row_bound hv he hy'
      have hl := hv.len_lt
      rw [wMul_bpr hv.w_lt hv.bpp_le, wMul_eq (by omega), wAdd_eq (by omega)]
      unfold sliceP
      rw [if_pos ⟨by omega, hb⟩]
    · intro r hr
      unfold specRows at hr
      simp only [List.mem_map, List.mem_range] at hr
      obtain ⟨y, hy, rfl⟩ := hr
      exact ⟨by simp, row_bound hv he hy⟩

private theorem chunk_count {pitch h bpr : Nat} (hp : 1 ≤ pitch) (hb1 : 1 ≤ bpr) (hb : bpr ≤ pitch)
    (hh : 1 ≤ h) : (pitch * (h - 1) + bpr + pitch - 1) / pitch = h := by
  have e : pitch * (h - 1) + bpr + pitch - 1 = (bpr - 1) + pitch * h := by
    have : h = (h - 1) + 1 := by omega
    rw [this, Nat.mul_add, Nat.mul_one]; simp only [Nat.add_sub_cancel]; omega
  rw [e, Nat.add_mul_div_left _ _ (by omega)]
  have : (bpr - 1) / pitch = 0 := Nat.div_eq_of_lt (by omega)
  omega

/-- `rows_mut()` (via `chunks_mut(pitch)`) exposes exactly the same rows, also for empty
views (no chunk-size-zero panic). -/
theorem rows_mut_spec (v : View) (hv : Inv v) : v.rowsMutP = some (specRows v) := by
  by_cases he : v.w = 0 ∨ v.h = 0
  · obtain ⟨h1, h2, h3, h4⟩ := hv.empty he
    unfold View.rowsMutP specRows
    simp [h2, h3, h4, sequenceOpt]
  · have hw : 1 ≤ v.w := by omega
    have hh : 1 ≤ v.h := by omega
    have hbpr1 : 1 ≤ v.w * v.bpp := Nat.mul_le_mul hw hv.bpp_pos
    have hp : 1 ≤ v.pitch := by have := hv.pitch_ge; omega
    unfold View.rowsMutP specRows
    simp only
    have hmax : max v.pitch 1 = v.pitch := by omega
    rw [hmax, wMul_bpr hv.w_lt hv.bpp_le]
    have hcount : (v.len + v.pitch - 1) / v.pitch = v.h := by
      rw [hv.len_eq he]; exact chunk_count hp hbpr1 hv.pitch_ge hh
    rw [hcount]
    apply sequenceOpt_map_some
    intro y hy
    have hy' : y < v.h := by simpa using hy
    have hlen := hv.len_eq he
    have h1 : y * v.pitch ≤ (v.h - 1) * v.pitch := Nat.mul_le_mul_right _ (by omega)
    have hcond : v.w * v.bpp ≤ min v.pitch (v.len - y * v.pitch) := by
      rw [hlen, Nat.mul_comm v.pitch, Nat.min_def]
      have := hv.pitch_ge
      split <;> omega
    rw [if_pos hcond]

/-! ### cropping -/

/-- Cropping a rectangle inside a view yields a view that satisfies the invariant, shares the
pitch, and starts at the parent's row `oy`, byte `ox*bpp`; nothing panics or wraps. -/
theorem crop_spec (v : View) (hv : Inv v) (ox oy w h : Nat)
    (hin : v.containsRect ox oy w h = true) (hne : ¬ (w = 0 ∨ h = 0)) :
    ∃ c, v.croppedP ox oy w h = some c ∧ Inv c ∧ c.w = w ∧ c.h = h ∧ c.pitch = v.pitch ∧
      c.bpp = v.bpp ∧ c.base = v.base + oy * v.pitch + ox * v.bpp := by
  unfold View.containsRect at hin
  simp only [Bool.and_eq_true, decide_eq_true_eq] at hin
  have hvne : ¬ (v.w = 0 ∨ v.h = 0) := by omega
  have hlen := hv.len_eq hvne
  have hl := hv.len_lt
  have hpg := hv.pitch_ge
  -- the crop's last byte is inside the parent's data
  have h1 : (oy + (h - 1)) * v.pitch ≤ (v.h - 1) * v.pitch := Nat.mul_le_mul_right _ (by omega)
  have h2 : (ox + w) * v.bpp ≤ v.w * v.bpp := Nat.mul_le_mul_right _ hin.1
  rw [Nat.add_mul] at h1 h2
  have hend : oy * v.pitch + ox * v.bpp + (h - 1) * v.pitch + w * v.bpp ≤ v.len := by
    rw [hlen, Nat.mul_comm v.pitch]; omega
  have hwlt : w < U32 := by have := hv.w_lt; omega
  have hoxlt : ox < U32 := by have := hv.w_lt; omega
  unfold View.croppedP
  have hc : v.containsRect ox oy w h = true := by
    unfold View.containsRect; simp [hin.1, hin.2]
  rw [hc]
  simp only [Bool.not_true, Bool.false_eq_true, if_false, hne]
  have e1 : wMul oy v.pitch = oy * v.pitch := wMul_eq (by omega)
  have e2 : wMul (h - 1) v.pitch = (h - 1) * v.pitch := wMul_eq (by omega)
  have e3 : wAdd (oy * v.pitch) (ox * v.bpp) = oy * v.pitch + ox * v.bpp := wAdd_eq (by omega)
  have e4 : wAdd (oy * v.pitch + ox * v.bpp) ((h - 1) * v.pitch) =
      oy * v.pitch + ox * v.bpp + (h - 1) * v.pitch := wAdd_eq (by omega)
  have e5 : wAdd (oy * v.pitch + ox * v.bpp + (h - 1) * v.pitch) (w * v.bpp) =
      oy * v.pitch + ox * v.bpp + (h - 1) * v.pitch + w * v.bpp := wAdd_eq (by omega)
  rw [wMul_bpr hwlt hv.bpp_le, wMul_bpr hoxlt hv.bpp_le, e1, e2, e3, e4, e5]
  unfold sliceP
  rw [if_pos ⟨by omega, hend⟩]
  refine ⟨_, rfl, ⟨hv.bpp_pos, hv.bpp_le, hwlt, by have := hv.h_lt; show h < U32; omega,
    by show _ - _ < U64; omega, fun h' => absurd h' hne, ?_, ?_⟩, rfl, rfl, rfl, rfl, ?_⟩
  · show w * v.bpp ≤ v.pitch
    have : w * v.bpp ≤ (ox + w) * v.bpp := Nat.mul_le_mul_right _ (by omega)
    rw [Nat.add_mul] at this; omega
  · intro _
    show oy * v.pitch + ox * v.bpp + (h - 1) * v.pitch + w * v.bpp - (oy * v.pitch + ox * v.bpp)
      = v.pitch * (h - 1) + w * v.bpp
    rw [Nat.mul_comm v.pitch]; omega
  · show v.base + (oy * v.pitch + ox * v.bpp) = _
    omega

/-- Byte `i` of row `j` of the crop is byte `ox*bpp + i` of row `oy + j` of the parent. -/
theorem crop_addresses (v c : View) (ox oy j i : Nat)
    (hb : c.base = v.base + oy * v.pitch + ox * v.bpp) (hp : c.pitch = v.pitch) :
    c.base + j * c.pitch + i = v.base + (oy + j) * v.pitch + (ox * v.bpp + i) := by
  rw [hb, hp, Nat.add_mul]; omega

/-- **Cropping composes**: a crop of a crop is the crop of the parent at the summed offsets — the same
base address, length, size, pitch; so any chain of crops addresses precisely the sub-rectangle it names in
the original buffer (non-empty rectangles; empty ones are `crop_empty`). -/
theorem crop_crop (v : View) (hv : Inv v) (ox1 oy1 w1 h1 ox2 oy2 w2 h2 : Nat)
    (hin1 : v.containsRect ox1 oy1 w1 h1 = true) (hne1 : ¬ (w1 = 0 ∨ h1 = 0))
    (hne2 : ¬ (w2 = 0 ∨ h2 = 0)) (hin2 : ox2 + w2 ≤ w1 ∧ oy2 + h2 ≤ h1) :
    (v.croppedP ox1 oy1 w1 h1).bind (fun c => c.croppedP ox2 oy2 w2 h2) =
      v.croppedP (ox1 + ox2) (oy1 + oy2) w2 h2 ∧
    (v.croppedP (ox1 + ox2) (oy1 + oy2) w2 h2).isSome = true := by
  obtain ⟨c1, e1, i1, cw1, ch1, cp1, cb1, cbase1⟩ := crop_spec v hv ox1 oy1 w1 h1 hin1 hne1
  have hc2 : c1.containsRect ox2 oy2 w2 h2 = true := by
    unfold View.containsRect; rw [cw1, ch1]; simp [hin2.1, hin2.2]
  obtain ⟨c2, e2, i2, cw2, ch2, cp2, cb2, cbase2⟩ := crop_spec c1 i1 ox2 oy2 w2 h2 hc2 hne2
  have hin1' := hin1
  unfold View.containsRect at hin1'
  simp only [Bool.and_eq_true, decide_eq_true_eq] at hin1'
  have hc3 : v.containsRect (ox1 + ox2) (oy1 + oy2) w2 h2 = true := by
    unfold View.containsRect
    have a : ox1 + ox2 + w2 ≤ v.w := by omega
    have b : oy1 + oy2 + h2 ≤ v.h := by omega
    simp [a, b]
  obtain ⟨c3, e3, i3, cw3, ch3, cp3, cb3, cbase3⟩ :=
    crop_spec v hv (ox1 + ox2) (oy1 + oy2) w2 h2 hc3 hne2
  rw [e1, e3]
  refine ⟨?_, rfl⟩
  show c1.croppedP ox2 oy2 w2 h2 = some c3
  rw [e2]
  have l2 := i2.len_eq (by rw [cw2, ch2]; exact hne2)
  have l3 := i3.len_eq (by rw [cw3, ch3]; exact hne2)
  have hbase : c2.base = c3.base := by
    rw [cbase2, cbase1, cp1, cb1, cbase3, Nat.add_mul, Nat.add_mul]; omega
  have hlen : c2.len = c3.len := by
    rw [l2, l3, cw2, ch2, cp2, cb2, cw3, ch3, cp3, cb3, cp1, cb1]
  cases c2; cases c3
  simp only at hbase hlen cw2 ch2 cp2 cb2 cw3 ch3 cp3 cb3
  subst cw2 ch2 cw3 ch3 hbase hlen
  simp only [Option.some.injEq, View.mk.injEq, true_and]
  exact ⟨by rw [cb2, cb1, cb3], by rw [cp2, cp1, cp3]⟩

/-- non-vacuity: a 2×2 crop at (1,1) of a 6×5 crop at (2,1) of a 10×8 RGBA view with pitch 48 is the
2×2 crop at (3,2) -/
example : ((View.mk 0 (48 * 7 + 40) 10 8 4 48).croppedP 2 1 6 5).bind (fun c => c.croppedP 1 1 2 2) =
    (View.mk 0 (48 * 7 + 40) 10 8 4 48).croppedP 3 2 2 2 ∧
    (View.mk 0 (48 * 7 + 40) 10 8 4 48).croppedP 3 2 2 2 = some ⟨2 * 48 + 12, 48 + 8, 2, 2, 4, 48⟩ := by
  decide

/-- **The full crop is the identity**: cropping a non-empty view at offset (0,0) with its own size returns
exactly that view (same base, length, pitch). -/
theorem crop_full_id (v : View) (hv : Inv v) (hne : ¬ (v.w = 0 ∨ v.h = 0)) :
    v.croppedP 0 0 v.w v.h = some v := by
  have hin : v.containsRect 0 0 v.w v.h = true := by unfold View.containsRect; simp
  obtain ⟨c, e, i, cw, ch, cp, cb, cbase⟩ := crop_spec v hv 0 0 v.w v.h hin hne
  rw [e]
  have l1 := i.len_eq (by rw [cw, ch]; exact hne)
  have l2 := hv.len_eq hne
  have hlen : c.len = v.len := by rw [l1, l2, cw, ch, cp, cb]
  have hbase : c.base = v.base := by rw [cbase]; omega
  cases c; cases v
  simp only at hbase hlen cw ch cp cb
  subst hbase hlen cw ch cp cb
  rfl

/-- Empty crops inside the parent give the empty view. -/
theorem crop_empty (v : View) (ox oy w h : Nat) (hin : v.containsRect ox oy w h = true)
    (he : w = 0 ∨ h = 0) : v.croppedP ox oy w h = some ⟨v.base, 0, 0, 0, v.bpp, 0⟩ := by
  unfold View.croppedP
  simp [hin, he]

/-- Rectangles outside the parent are rejected (the documented panic), including offsets and
sizes whose `u32` sum would overflow (the test is made in `u64`). -/
theorem crop_rejects_outside (v : View) (ox oy w h : Nat)
    (hout : ¬ (ox + w ≤ v.w ∧ oy + h ≤ v.h)) : v.croppedP ox oy w h = none := by
  unfold View.croppedP View.containsRect
  have : (decide (ox + w ≤ v.w) && decide (oy + h ≤ v.h)) = false := by
    by_cases h1 : ox + w ≤ v.w
    · have h2 : ¬ oy + h ≤ v.h := fun h2 => hout ⟨h1, h2⟩
      simp [h1, h2]
    · simp [h1]
  rw [this]; rfl

/-! ### non-vacuity and the witnesses of the two repaired defects -/

/-- F1's witness: pitch = 2^64-1, 1x3 RGBA over 64 bytes is now rejected (ideal sum ≫ 64). -/
example : View.newWith 64 18446744073709551615 1 3 4 = none := by decide

/-- a 3x2 RGB8 view with pitch 16 inside a 32-byte buffer, and a crop of it -/
example : (View.newWith 32 16 3 2 3).bind (fun v => v.croppedP 1 1 2 1) =
    some ⟨19, 6, 2, 1, 3, 16⟩ := by decide

example : Inv ⟨0, 25, 3, 2, 3, 16⟩ :=
  ⟨by decide, by decide, by decide, by decide, by decide, fun h => by simp at h, by decide,
    fun _ => by decide⟩

end Dds.C20
