/-
Implementation-shaped model of the BC1–BC5 block decoders of image-dds
(`src/decode/bc.rs` module `blocks`, `src/color/formats.rs` `B5G6R5`, `n4`, `n5`, `n6`, `n8`, `s8`,
`src/color/mod.rs` `Norm`).  Integer arithmetic exactly as in the code: every Rust operator on a
`u8`/`u16`/`u32` is followed by the wrap of the release profile (`w8`/`w16`/`w32`), every `as uN` cast
is a truncation; `Theorems/C03.lean` shows that no wrap ever fires.  `f32` operations are the
correctly rounded software operations of `F32.lean`; `f32` results are bit patterns.

A block is a function `blk : Nat → Nat` (byte at offset i); pixels are lists of channel values.
-/
import DdsModel.F32
namespace Dds.Bc

inductive Prec | u8 | u16 | f32
  deriving DecidableEq, Repr

inductive Fmt
  | bc1 | bc2 | bc2rgb | bc2p | bc3 | bc3rgb | bc3p | rxgb | bc3n | bc4u | bc4s | bc5u | bc5s
  deriving DecidableEq, Repr

def w8 (x : Nat) : Nat := x % 256
def w16 (x : Nat) : Nat := x % 65536
def w32 (x : Nat) : Nat := x % 4294967296

/-! ### `formats.rs` scalar conversions -/

/-- `n4::n8`: `x * 17` (u8) -/
def n4n8 (x : Nat) : Nat := w8 (x * 17)
/-- `n5::n8`: `((x as u16 * 2108 + 92) >> 8) as u8` -/
def n5n8 (x : Nat) : Nat := w8 (w16 (w16 (x * 2108) + 92) >>> 8)
/-- `n6::n8`: `((x as u16 * 1036 + 132) >> 8) as u8` -/
def n6n8 (x : Nat) : Nat := w8 (w16 (w16 (x * 1036) + 132) >>> 8)
/-- `n8::n16`: `x as u16 * 257` -/
def n8n16 (x : Nat) : Nat := w16 (x * 257)
/-- `n8::f32`: `(x as f32 * K0) * K1`, `K0 = 3.0`, `K1 = 1.0 / (255.0 * K0)` (const-evaluated in f32) -/
def n8f32 (x : Nat) : Nat := F32.mul (F32.mul (F32.ofNat x) (F32.ofNat 3)) (F32.divLit 1 765)
/-- `s8::norm`: `x.wrapping_add(128).saturating_sub(1)` -/
def s8norm (x : Nat) : Nat := w8 (x + 128) - 1
/-- `s8::n8`: `((norm x as u16 * 258 + 2) >> 8) as u8` -/
def s8n8 (x : Nat) : Nat := w8 (w16 (w16 (s8norm x * 258) + 2) >>> 8)
/-- `s8::n16`: `((norm x as u32 * 16909064 + 32520) >> 16) as u16` -/
def s8n16 (x : Nat) : Nat := w16 (w32 (w32 (s8norm x * 16909064) + 32520) >>> 16)
/-- `s8::uf32`: `(norm x as f32 * 31.0) * (1.0 / (254.0 * 31.0))` -/
def s8uf32 (x : Nat) : Nat :=
  F32.mul (F32.mul (F32.ofNat (s8norm x)) (F32.ofNat 31)) (F32.divLit 1 7874)
/-- `x as i8` -/
def asI8 (x : Nat) : Int := if x < 128 then (x : Int) else (x : Int) - 256

/-- `NormConvert::to` from `u8` (`with_precision`) -/
def widen (pr : Prec) (v : Nat) : Nat :=
  match pr with
  | .u8 => v
  | .u16 => n8n16 v
  | .f32 => n8f32 v

/-! ### `B5G6R5` -/

structure B565 where
  r5 : Nat
  g6 : Nat
  b5 : Nat

/-- `B5G6R5::from_u16` -/
def B565.fromU16 (u : Nat) : B565 := ⟨(u >>> 11) &&& 0x1F, (u >>> 5) &&& 0x3F, u &&& 0x1F⟩

abbrev Rgb := Nat × Nat × Nat
abbrev Rgba := Nat × Nat × Nat × Nat

/-- `to_n8` -/
def B565.toN8 (c : B565) : Rgb := (n5n8 c.r5, n6n8 c.g6, n5n8 c.b5)

/-- 5-bit channel of `one_third_color_rgb8`: `((r * 351 + 61) >> 7) as u8` with `r = self*2 + other` (u16) -/
def third5 (s c : Nat) : Nat := let r := w16 (w16 (s * 2) + c); w8 (w16 (w16 (r * 351) + 61) >>> 7)
/-- 6-bit channel: `((g as u32 * 2763 + 1039) >> 11) as u8` -/
def third6 (s c : Nat) : Nat := let g := w16 (w16 (s * 2) + c); w8 (w32 (w32 (g * 2763) + 1039) >>> 11)
/-- 5-bit channel of `mid_color_rgb8`: `((r * 1053 + 125) >> 8) as u8` with `r = self + other` -/
def mid5 (s c : Nat) : Nat := let r := w16 (s + c); w8 (w16 (w16 (r * 1053) + 125) >>> 8)
/-- 6-bit channel: `((g as u32 * 4145 + 1019) >> 11) as u8` -/
def mid6 (s c : Nat) : Nat := let g := w16 (s + c); w8 (w32 (w32 (g * 4145) + 1019) >>> 11)

/-- `one_third_color_rgb8`: nearest RGB8 of `self*2/3 + color*1/3` -/
def B565.oneThird (s c : B565) : Rgb := (third5 s.r5 c.r5, third6 s.g6 c.g6, third5 s.b5 c.b5)
/-- `mid_color_rgb8` -/
def B565.mid (s c : B565) : Rgb := (mid5 s.r5 c.r5, mid6 s.g6 c.g6, mid5 s.b5 c.b5)

/-- `ToRgba::to_rgba` for `[u8; 3]` -/
def toRgba (c : Rgb) : Rgba := (c.1, c.2.1, c.2.2, 255)

/-- `lut[index]` for a 4-entry table -/
def lut4 {α : Type} (c0 c1 c2 c3 : α) (i : Nat) : α :=
  match i with
  | 0 => c0
  | 1 => c1
  | 2 => c2
  | _ => c3

def le16 (blk : Nat → Nat) (o : Nat) : Nat := blk o + 256 * blk (o + 1)
def le24 (blk : Nat → Nat) (o : Nat) : Nat := blk o + 256 * blk (o + 1) + 65536 * blk (o + 2)
def le32 (blk : Nat → Nat) (o : Nat) : Nat :=
  blk o + 256 * blk (o + 1) + 65536 * blk (o + 2) + 16777216 * blk (o + 3)

/-- `split_16(..).1` -/
def upper (blk : Nat → Nat) : Nat → Nat := fun i => blk (i + 8)

/-! ### BC1 -/

/-- pixel `p` of `bc1_u8_rgba` -/
def bc1Px (blk : Nat → Nat) (p : Nat) : Rgba :=
  let color0 := le16 blk 0
  let color1 := le16 blk 2
  let c0b := B565.fromU16 color0
  let c1b := B565.fromU16 color1
  let c0 := toRgba c0b.toN8
  let c1 := toRgba c1b.toN8
  let c2 := if color0 > color1 then toRgba (c0b.oneThird c1b) else toRgba (c0b.mid c1b)
  let c3 := if color0 > color1 then toRgba (c1b.oneThird c0b) else (0, 0, 0, 0)
  let indexes := le32 blk 4
  lut4 c0 c1 c2 c3 ((indexes >>> (p * 2)) &&& 3)

/-- pixel `p` of `bc1_no_default_u8_rgba` (always four colours; BC2 and BC3 colour) -/
def bc1NoDefaultPx (blk : Nat → Nat) (p : Nat) : Rgba :=
  let color0 := le16 blk 0
  let color1 := le16 blk 2
  let c0b := B565.fromU16 color0
  let c1b := B565.fromU16 color1
  let c0 := toRgba c0b.toN8
  let c1 := toRgba c1b.toN8
  let c2 := toRgba (c0b.oneThird c1b)
  let c3 := toRgba (c1b.oneThird c0b)
  let indexes := le32 blk 4
  lut4 c0 c1 c2 c3 ((indexes >>> (p * 2)) &&& 3)

/-! ### BC4 -/

/-- `BC4uOperations` / `BC4sOperations` + the `Norm` constants -/
structure Bc4Ops where
  fromByte : Nat → Nat
  interp6 : Nat → Nat
  interp4 : Nat → Nat
  zero : Nat
  half : Nat
  one : Nat

/-- `impl BC4uOperations for u8 / u16 / f32`; f32: `interpolation as f32 / 1785.0` -/
def bc4uOps : Prec → Bc4Ops
  | .u8 => { fromByte := fun b => b
             interp6 := fun i => w8 (w32 (w32 (i * 9360) + 32160) >>> 16)
             interp4 := fun i => w8 (w32 (w32 (i * 13104) + 30288) >>> 16)
             zero := 0, half := 128, one := 255 }
  | .u16 => { fromByte := n8n16
              interp6 := fun i => w16 (w32 (w32 (i * 2406112) + 28064) >>> 16)
              interp4 := fun i => w16 (w32 (w32 (i * 3368544) + 34368) >>> 16)
              zero := 0, half := 32768, one := 65535 }
  | .f32 => { fromByte := n8f32
              interp6 := fun i => F32.div (F32.ofNat i) (F32.ofNat 1785)
              interp4 := fun i => F32.div (F32.ofNat i) (F32.ofNat 1275)
              zero := 0, half := 0x3F000000, one := 0x3F800000 }

/-- `impl BC4sOperations for u8 / u16 / f32` -/
def bc4sOps : Prec → Bc4Ops
  | .u8 => { fromByte := s8n8
             interp6 := fun i => w8 (w32 (w32 (i * 255) + 889) / 1778)
             interp4 := fun i => w8 (w32 (w32 (i * 255) + 635) / 1270)
             zero := 0, half := 128, one := 255 }
  | .u16 => { fromByte := s8n16
              interp6 := fun i => w16 (w32 (w32 (i * 65535) + 889) / 1778)
              interp4 := fun i => w16 (w32 (w32 (i * 65535) + 635) / 1270)
              zero := 0, half := 32768, one := 65535 }
  | .f32 => { fromByte := s8uf32
              interp6 := fun i => F32.div (F32.ofNat i) (F32.ofNat 1778)
              interp4 := fun i => F32.div (F32.ofNat i) (F32.ofNat 1270)
              zero := 0, half := 0x3F000000, one := 0x3F800000 }

/-- `lut[index]` for the 8-entry table of `bc4u_gray`/`bc4s_gray`; `a`,`b` are the `u16` endpoint
values entering the interpolation, `six` the mode -/
def bc4Lut (ops : Bc4Ops) (c0 c1 a b : Nat) (six : Bool) (i : Nat) : Nat :=
  match i with
  | 0 => c0
  | 1 => c1
  | 2 => if six then ops.interp6 (w16 (w16 (a * 6) + b)) else ops.interp4 (w16 (w16 (a * 4) + b))
  | 3 => if six then ops.interp6 (w16 (w16 (a * 5) + w16 (b * 2)))
         else ops.interp4 (w16 (w16 (a * 3) + w16 (b * 2)))
  | 4 => if six then ops.interp6 (w16 (w16 (a * 4) + w16 (b * 3)))
         else ops.interp4 (w16 (w16 (a * 2) + w16 (b * 3)))
  | 5 => if six then ops.interp6 (w16 (w16 (a * 3) + w16 (b * 4))) else ops.interp4 (w16 (a + w16 (b * 4)))
  | 6 => if six then ops.interp6 (w16 (w16 (a * 2) + w16 (b * 5))) else ops.zero
  | _ => if six then ops.interp6 (w16 (a + w16 (b * 6))) else ops.one

/-- index of pixel `p = i*8 + j`: `(indexes_i >> (j*3)) & 0b111`, `indexes_i` = 3 little-endian bytes -/
def bc4Index (blk : Nat → Nat) (p : Nat) : Nat :=
  let indexes := le24 blk (2 + 3 * (p / 8))
  (indexes >>> ((p % 8) * 3)) &&& 7

/-- pixel `p` of `bc4u_gray::<T>` -/
def bc4uPx (ops : Bc4Ops) (blk : Nat → Nat) (p : Nat) : Nat :=
  let c0 := blk 0
  let c1 := blk 1
  bc4Lut ops (ops.fromByte c0) (ops.fromByte c1) c0 c1 (decide (c0 > c1)) (bc4Index blk p)

/-- pixel `p` of `bc4s_gray::<T>` -/
def bc4sPx (ops : Bc4Ops) (blk : Nat → Nat) (p : Nat) : Nat :=
  let red0 := blk 0
  let red1 := blk 1
  bc4Lut ops (ops.fromByte red0) (ops.fromByte red1) (s8norm red0) (s8norm red1)
    (decide (asI8 red0 > asI8 red1)) (bc4Index blk p)

/-! ### BC2, BC3 and the variants (8 bit) -/

/-- explicit alpha of pixel `p = i*4 + j` in `bc2_u8_rgba` -/
def bc2Alpha (blk : Nat → Nat) (p : Nat) : Nat :=
  let hi := blk ((p / 4) * 2)
  let lo := blk ((p / 4) * 2 + 1)
  n4n8 (lut4 (hi &&& 0xF) (hi >>> 4) (lo &&& 0xF) (lo >>> 4) (p % 4))

def setA (c : Rgba) (a : Nat) : Rgba := (c.1, c.2.1, c.2.2.1, a)

/-- `bc2_u8_rgba` -/
def bc2Px (blk : Nat → Nat) (p : Nat) : Rgba := setA (bc1NoDefaultPx (upper blk) p) (bc2Alpha blk p)
/-- `bc3_u8_rgba` -/
def bc3Px (blk : Nat → Nat) (p : Nat) : Rgba :=
  setA (bc1NoDefaultPx (upper blk) p) (bc4uPx (bc4uOps .u8) blk p)

/-- one channel of `to_straight_alpha`: `(c as u16 * 255 / alpha as u16).min(255) as u8`, alpha 0 → 255 -/
def straight (c a : Nat) : Nat :=
  let a := if a = 0 then 255 else a
  w8 (min (w16 (c * 255) / a) 255)

def toStraight (c : Rgba) : Rgba :=
  (straight c.1 c.2.2.2, straight c.2.1 c.2.2.2, straight c.2.2.1 c.2.2.2, c.2.2.2)

/-- `calc_b` of `bc3n_u8_rgb` (f32 arithmetic, then `as u8`) -/
def calcB (r g : Nat) : Nat :=
  let k := F32.divLit 2 255
  let one := F32.ofNat 1
  let x := F32.sub (F32.mul (F32.ofNat r) k) one
  let y := F32.sub (F32.mul (F32.ofNat g) k) one
  let z := F32.sqrt (F32.max0 (F32.sub (F32.sub one (F32.mul x x)) (F32.mul y y)))
  -- 0.5 * 255.0 = 127.5 and 0.5 * 255.0 + 0.5 = 128.0 are exact constants
  F32.toU8 (F32.add (F32.mul z (F32.divLit 255 2)) (F32.ofNat 128))

def l3 (c : Rgb) : List Nat := [c.1, c.2.1, c.2.2]
def l4 (c : Rgba) : List Nat := [c.1, c.2.1, c.2.2.1, c.2.2.2]

/-- one decoded pixel at 8 bit for the 8-bit-defined formats -/
def px8 (f : Fmt) (blk : Nat → Nat) (p : Nat) : List Nat :=
  match f with
  | .bc1 => l4 (bc1Px blk p)
  | .bc2 => l4 (bc2Px blk p)
  | .bc2rgb => let c := bc1NoDefaultPx (upper blk) p; [c.1, c.2.1, c.2.2.1]
  | .bc2p => l4 (toStraight (bc2Px blk p))
  | .bc3 => l4 (bc3Px blk p)
  | .bc3rgb => let c := bc1NoDefaultPx (upper blk) p; [c.1, c.2.1, c.2.2.1]
  | .bc3p => l4 (toStraight (bc3Px blk p))
  | .rxgb => let c := bc3Px blk p; [c.2.2.2, c.2.1, c.2.2.1]
  | .bc3n => let c := bc3Px blk p; [c.2.2.2, c.2.1, calcB c.2.2.2 c.2.1]
  | _ => []

/-- the precision-dependent conversions (a parameter so that the compiled driver can substitute
memoised, provably equal versions; see `Drv/C03.lean` and `C03.driver_fast_path_eq`) -/
structure Conv where
  widen : Prec → Nat → Nat
  uOps : Prec → Bc4Ops
  sOps : Prec → Bc4Ops

def stdConv : Conv := ⟨widen, bc4uOps, bc4sOps⟩

/-- one decoded pixel -/
def pxWith (cv : Conv) (f : Fmt) (pr : Prec) (blk : Nat → Nat) (p : Nat) : List Nat :=
  match f with
  | .bc4u => [bc4uPx (cv.uOps pr) blk p]
  | .bc4s => [bc4sPx (cv.sOps pr) blk p]
  | .bc5u => [bc4uPx (cv.uOps pr) blk p, bc4uPx (cv.uOps pr) (upper blk) p, (cv.uOps pr).zero]
  | .bc5s => [bc4sPx (cv.sOps pr) blk p, bc4sPx (cv.sOps pr) (upper blk) p, (cv.sOps pr).half]
  | f => (px8 f blk p).map (cv.widen pr)

def px (f : Fmt) (pr : Prec) (blk : Nat → Nat) (p : Nat) : List Nat := pxWith stdConv f pr blk p

/-- the 16 decoded pixels of one block -/
def decodeBlockWith (cv : Conv) (f : Fmt) (pr : Prec) (blk : Nat → Nat) : List (List Nat) :=
  (List.range 16).map (pxWith cv f pr blk)

def decodeBlock (f : Fmt) (pr : Prec) (blk : Nat → Nat) : List (List Nat) :=
  decodeBlockWith stdConv f pr blk

end Dds.Bc
