/-
Trapping mirrors of the ENCODER loops, part 2: the row-group loop `for_each_f32_rgba_rows` and its users
(`block_universal`, `bi_planar_universal`), and the sub-sampled row loop.  Conventions as in `TrapEnc.lean`
(lengths only; `none` = panic in the checked profile; the result is the list of `write_all` sizes).

Mirrored here (file:line of /repo/src):
* `for_each_f32_rgba_rows` (encode/write_util.rs:9–64)
* `process_subsample` (encode/sub_sampled.rs:7–29), `uncompressed_universal_subsample` (:30–86)
* `bi_planar_universal` (encode/bi_planar.rs:16–92)
* `block_universal` (encode/bc.rs:26–108) and the way every BC encoder closure reads its slice:
  `get_4x4_rgba`, `get_4x4_rgba_vec4`, `get_4x4_grayscale`, `get_4x4_select_channel` (bc.rs:110–145)

`Theorems/C15.lean`: `subsample_loop_trapfree`, `biplanar_loop_trapfree`, `block_rows_trapfree`.
-/
import DdsModel.TrapEnc
namespace Dds.TrapEnc
open Dds Dds.Trap

/-! ## `for_each_f32_rgba_rows` (encode/write_util.rs:9–64) -/

/-- `for i in i0..i0+n { convert_to_rgba_f32(color, rows.next().expect("Image has too few rows"),
&mut intermediate_buffer[i * width..(i + 1) * width]) }` (:30–36, :44–50); returns the rows left in the iterator -/
def fillGroupT (c : Color) (w bufLen : Nat) : (i n : Nat) → (rows : List Nat) → Option (List Nat)
  | _, 0, rows => some rows
  | i, n + 1, rows =>
    match rows with
    | [] => none                                             -- `.expect("Image has too few rows")`
    | row :: rest => do
      let a ← mulU i w                                       -- :34
      let i1 ← addU i 1
      let b ← mulU i1 w
      let dst ← sliceRange bufLen a b
      convertToRgbaF32T c row dst                            -- :31
      fillGroupT c w bufLen (i + 1) n rest

/-- `for _ in 0..full_blocks { fill; f(&mut intermediate_buffer)?; }` (:28–39) -/
def fullGroupsT (c : Color) (w bh bufLen : Nat) : (groups : Nat) → (rows : List Nat) → Option (List Nat)
  | 0, rows => some rows
  | g + 1, rows => do
    let rest ← fillGroupT c w bufLen 0 bh rows
    fullGroupsT c w bh bufLen g rest

/-- `for_each_f32_rgba_rows(image, block_height, f)`: the length of the buffer handed to `f` (pixels) and the number
of calls of `f` -/
def forEachRowsT (v : View) (c : Color) (bh : Nat) : Option (Nat × Nat) := do
  dbgP (bh ≠ 0)                                              -- :14
  let bufLen ← mulU v.w bh                                   -- :21 vec![[0_f32; 4]; width * block_height]
  allocT bufLen 16
  let rows ← rowsT v                                         -- :25
  let full ← div v.h bh                                      -- :27
  let rows ← fullGroupsT c v.w bh bufLen full rows           -- :28–39
  let rest ← remU v.h bh                                     -- :41
  if rest > 0 then do
    let rows ← fillGroupT c v.w bufLen 0 rest rows           -- :44–50
    dbgP (rows = [])                                         -- :51 debug_assert!(rows.next().is_none())
    let _ ← mapT (fun i => do                                -- :54–58 `copy_within(..width, i * width)`
      let _ ← sliceTo bufLen v.w
      let dest ← mulU i v.w
      let e ← addU dest v.w
      dbgP (e ≤ bufLen)) (List.range' rest (bh - rest))
    pure (bufLen, full + 1)                                  -- :60
  else pure (bufLen, full)

/-! ## sub-sampled formats (encode/sub_sampled.rs) -/

/-- `process_subsample::<BLOCK_WIDTH, _>(data, out, f)` (:7–29) on `data` pixels and `out` blocks -/
def processSubsampleT (bw data out : Nat) : Option Unit := do
  let q ← div data bw                                        -- :12
  let full ← mulU q bw
  let rest ← subU data full                                  -- :13
  let s ← sliceTo data full                                  -- :16 `cast::as_array_chunks(&data[..full]).unwrap()`
  let fullBlocks ← TrapUnc.fromBytesT (s * 16) (bw * 16)
  -- :17 `full.iter().zip(out.iter_mut())`: no check (a short `out` would silently drop blocks)
  if rest > 0 then do
    let d ← sliceTo bw rest                                  -- :24 last_block[..rest]
    let src ← sliceFrom data full
    copyFromSliceT d src
    let _ ← sliceFrom bw rest                                -- :25 last_block[rest..]
    let last ← subU data 1
    idxLen data last
    idxLen out fullBlocks                                    -- :27 out[full.len()]
  else pure ()

/-- the chunk loop of one row (:64–82) -/
def subsampleRowT (c : Color) (aligned : Bool) (bw blockBytes prim chunkCount : Nat) :
    (chunks : List Nat) → (chunkIndex : Nat) → Option (List Nat × Nat)
  | [], chunkIndex => some ([], chunkIndex)
  | chunk :: rest, chunkIndex => do
    progT chunkIndex chunkCount SrcConsts.SUBSAMPLE_REPORT_FREQUENCY   -- :66–70
    let pixels ← div chunk c.bpp                             -- :72
    let intermediate ← sliceTo SrcConsts.SUBSAMPLE_BUFFER_PIXELS pixels   -- :74
    let nb ← divCeilU pixels bw                              -- :75
    let encoded ← sliceTo SrcConsts.SUBSAMPLE_ENCODED_BLOCKS nb
    let line ← asRgbaF32T c aligned chunk intermediate       -- :77
    processSubsampleT bw line encoded
    let bytes ← mulU encoded blockBytes
    toLeT prim bytes                                         -- :79
    let s ← subsampleRowT c aligned bw blockBytes prim chunkCount rest (chunkIndex + 1)
    pure (bytes :: s.1, s.2)                                 -- :81

def subsampleRowsT (c : Color) (aligned : Bool) (bw blockBytes prim chunkSize chunkCount rowBytes : Nat) :
    (rows : List Nat) → (chunkIndex : Nat) → Option (List Nat)
  | [], _ => some []
  | row :: rest, chunkIndex => do
    dbgP (row = rowBytes)                                    -- :62
    let chunks ← chunksT row chunkSize                       -- :64
    let r ← subsampleRowT c aligned bw blockBytes prim chunkCount chunks chunkIndex
    let s ← subsampleRowsT c aligned bw blockBytes prim chunkSize chunkCount rowBytes rest r.2
    pure (r.1 ++ s)

/-- `uncompressed_universal_subsample::<EncodedBlock>(args, block_width, process)`; `blockBytes` =
`size_of::<EncodedBlock>()`, built from a primitive of `prim` bytes -/
def subsampleT (v : View) (c : Color) (aligned : Bool) (bw blockBytes prim : Nat) : Option (List Nat) := do
  dbgP (bw ≥ 2)                                              -- :49
  let q ← div SrcConsts.SUBSAMPLE_BUFFER_PIXELS bw           -- :55
  let chunkPixels ← mulU q bw
  let chunkSize ← mulU chunkPixels c.bpp                     -- :56
  let rowBytes ← mulU v.w c.bpp                              -- :58
  let perRow ← divCeilU rowBytes chunkSize
  let chunkCount ← mulU v.h perRow
  let rows ← rowsT v                                         -- :61
  subsampleRowsT c aligned bw blockBytes prim chunkSize chunkCount rowBytes rows 0

/-! ## bi-planar formats (encode/bi_planar.rs:16–92) -/

/-- the macro-pixel loop of one row pair (:57–73): `rows[y * width + macro_x * 2 + x]` (`rows` = the f32 buffer),
`block[y * 2 + x]`, `plane1_buffer[y * width + macro_x * 2 + x]`, `p1[y * 2 + x]` -/
def biPlanarGroupT (w rowsLen plane1Len : Nat) : Option Unit := do
  let half ← div w 2                                         -- :57
  let _ ← mapT (fun macroX =>
    mapT (fun y => mapT (fun x => do
      let yw ← mulU y w                                      -- :61
      let mx ← mulU macroX 2
      let s ← addU yw mx
      let k ← addU s x
      idxLen rowsLen k
      let y2 ← mulU y 2
      let b ← addU y2 x
      idxLen 4 b
      idxLen plane1Len k                                     -- :69
      idxLen 4 b) (List.range 2)) (List.range 2)) (List.range half)
  pure ()

/-- `bi_planar_universal::<P1, P2>(args, encode_macro_pixel)`; `s1`, `s2` = `size_of::<P1>()`, `size_of::<P2>()`
with primitives of `prim1`, `prim2` bytes.  Inner `none` = `Err(InvalidSize)` (:33–38), no write. -/
def biPlanarT (v : View) (c : Color) (s1 prim1 s2 prim2 : Nat) : Option (Option (List Nat)) := do
  let rw ← remU v.w 2                                        -- :33
  let rh ← remU v.h 2
  if rw ≠ 0 ∨ rh ≠ 0 then pure none else do
  let plane1Len ← mulU v.w 2                                 -- :40
  allocT plane1Len s1
  let hw ← div v.w 2                                         -- :41
  let hh ← div v.h 2
  let plane2Len ← mulU hw hh
  allocT plane2Len s2                                        -- :42 Vec::with_capacity(plane2_len)
  let groupCount ← divCeilU v.h 2                            -- :44
  let w2 ← mulU v.w 2                                        -- :46
  let frequency ← divCeilU SrcConsts.BIPLANAR_REPORT_PIXELS (max w2 1)
  let r ← forEachRowsT v c 2                                 -- :48
  let writes ← mapT (fun groupIndex => do
    progT groupIndex groupCount frequency                    -- :50–54
    biPlanarGroupT v.w r.1 plane1Len                         -- :57–73
    let bytes ← mulU plane1Len s1                            -- :75–76
    toLeT prim1 bytes
    pure bytes) (List.range r.2)
  let pushed ← mulU r.2 hw                                   -- `plane2.push(p2)` once per macro pixel
  dbgP (pushed = plane2Len)                                  -- :81 debug_assert_eq!(plane2.len(), plane2_len)
  let bytes2 ← mulU pushed s2                                -- :88–89
  toLeT prim2 bytes2
  pure (some (writes ++ [bytes2]))

/-! ## block-compressed formats (encode/bc.rs:26–145) -/

/-- `get_4x4_rgba` / `_rgba_vec4` / `_grayscale` / `_select_channel` (bc.rs:110–145): `block[i * 4 + j] =
data[i * row_pitch + j]` for `i, j < 4` — the only way a BC encoder closure reads the slice it is handed
(bc.rs:199–447: every closure starts with one or two of these on `(data, row_pitch)`) -/
def get4x4T (dataLen pitch : Nat) : Option Unit := do
  let _ ← mapT (fun i => mapT (fun j => do
    let a ← mulU i 4
    let bi ← addU a j
    idxLen 16 bi
    let r ← mulU i pitch
    let k ← addU r j
    idxLen dataLen k) (List.range 4)) (List.range 4)
  pure ()

/-- `report_block` (bc.rs:62–69); returns the new `block_index` -/
def reportBlockT (blockIndex blockCount freq : Nat) : Option Nat := do
  progT blockIndex blockCount freq
  pure (blockIndex + 1)

/-- the loop over the full blocks of a row group (bc.rs:74–81), from block `bi` on, `n` more -/
def fullBlocksT (encT : Nat → Nat → Option Unit) (w bufLen encLen bw blockCount freq : Nat) :
    (bi n blockIndex : Nat) → Option Nat
  | _, 0, blockIndex => some blockIndex
  | bi, n + 1, blockIndex => do
    let start ← mulU bi bw                                   -- :75
    let block ← sliceFrom bufLen start                       -- :76
    idxLen encLen bi                                         -- :77
    encT block w                                             -- :79
    let blockIndex' ← reportBlockT blockIndex blockCount freq   -- :80
    fullBlocksT encT w bufLen encLen bw blockCount freq (bi + 1) n blockIndex'

/-- the closure of `block_universal` on one row group (bc.rs:71–106): returns the bytes written and the new
`block_index` -/
def blockGroupT (encT : Nat → Nat → Option Unit) (w bufLen encLen bw bh bs bb blockCount freq blockIndex : Nat) :
    Option (Nat × Nat) := do
  let fullCount ← div w bw                                   -- :74
  let blockIndex ← fullBlocksT encT w bufLen encLen bw blockCount freq 0 fullCount blockIndex
  let r ← remU w bw                                          -- :84
  let blockIndex ← (if r ≠ 0 then do
    let bi ← div w bw                                        -- :85
    let start ← mulU bi bw                                   -- :86
    let bwid ← subU w start                                  -- :87
    let _ ← mapT (fun i => do
      let a ← mulU i bw                                      -- :92
      let i1 ← addU i 1
      let b ← mulU i1 bw
      let row ← sliceRange bs a b
      let iw ← mulU i w                                      -- :93
      let st ← addU start iw
      let tail ← sliceFrom bufLen st
      let partialRow ← sliceTo tail bwid
      let d ← sliceTo row bwid                               -- :94
      copyFromSliceT d partialRow
      let _ ← sliceFrom row bwid                             -- :96
      pure ()) (List.range bh)
    idxLen encLen bi                                         -- :99
    encT bs bw                                               -- :100
    reportBlockT blockIndex blockCount freq                  -- :101
  else pure blockIndex)
  let bytes ← mulU encLen bb                                 -- :104 cast::as_bytes(&encoded_buffer)
  pure (bytes, blockIndex)

def blockGroupsT (encT : Nat → Nat → Option Unit) (w bufLen encLen bw bh bs bb blockCount freq : Nat) :
    (calls blockIndex : Nat) → Option (List Nat)
  | 0, _ => some []
  | n + 1, blockIndex => do
    let r ← blockGroupT encT w bufLen encLen bw bh bs bb blockCount freq blockIndex
    let s ← blockGroupsT encT w bufLen encLen bw bh bs bb blockCount freq n r.2
    pure (r.1 :: s)

/-- `block_universal::<BLOCK_WIDTH, BLOCK_HEIGHT, BLOCK_SIZE, BLOCK_BYTES>(args, encode_block)`; `encT dataLen pitch`
= the checks of `encode_block(data, row_pitch, ..)`; `freq` = `report_frequency` -/
def blockUniversalT (encT : Nat → Nat → Option Unit) (v : View) (c : Color) (bw bh bs bb freq : Nat) :
    Option (List Nat) := do
  let p ← mulU bw bh                                         -- :35 debug_assert_eq!(BLOCK_SIZE, BW * BH)
  dbgP (bs = p)
  let encLen ← divCeilU v.w bw                               -- :48
  allocT encLen bb
  let bx ← divCeilU v.w bw                                   -- :60
  let by' ← divCeilU v.h bh
  let blockCount ← mulU bx by'
  let r ← forEachRowsT v c bh                                -- :71
  blockGroupsT encT v.w r.1 encLen bw bh bs bb blockCount freq r.2 0

/-- `report_frequency` (bc.rs:54–59) by quality (0 fast, 1 normal, 2 high, else unreasonable) -/
def bcReportFrequency (quality : Nat) : Nat :=
  if quality = 0 then SrcConsts.BC_REPORT_FREQUENCY_FAST
  else if quality = 1 then SrcConsts.BC_REPORT_FREQUENCY_NORMAL
  else if quality = 2 then SrcConsts.BC_REPORT_FREQUENCY_HIGH
  else SrcConsts.BC_REPORT_FREQUENCY_UNREASONABLE

/-- `block_4x4::<BLOCK_BYTES>` (bc.rs:20–25) with an encoder closure that reads its slice through `get_4x4_*` -/
def block4x4T (v : View) (c : Color) (bb quality : Nat) : Option (List Nat) :=
  blockUniversalT get4x4T v c 4 4 16 bb (bcReportFrequency quality)

end Dds.TrapEnc
