import DdsModel.Drv.C01
import DdsModel.Drv.C02
import DdsModel.Drv.C03
import DdsModel.Drv.C03x
import DdsModel.Drv.C04
import DdsModel.Drv.C05
import DdsModel.Drv.C06
import DdsModel.Drv.C07
import DdsModel.Drv.C08
import DdsModel.Drv.C09
import DdsModel.Drv.C10
import DdsModel.Drv.C11
import DdsModel.Drv.C12
import DdsModel.Drv.C13
import DdsModel.Drv.C14
import DdsModel.Drv.C15
import DdsModel.Drv.C16
import DdsModel.Drv.C17
import DdsModel.Drv.C18
import DdsModel.Drv.C19
import DdsModel.Drv.C20
open Dds.Drv

def dispatch (prop : String) : Option (String → String) :=
  match prop with
  | "C01" => some runC01
  | "C02" => some runC02
  | "C03" => some runC03
  | "C03x" => some runC03x
  | "C04" => some runC04
  | "C05" => some runC05
  | "C06" => some runC06
  | "C07" => some runC07
  | "C08" => some runC08
  | "C09" => some runC09
  | "C10" => some runC10
  | "C11" => some runC11
  | "C12" => some runC12
  | "C13" => some runC13
  | "C14" => some runC14
  | "C15" => some runC15
  | "C16" => some runC16
  | "C17" => some runC17
  | "C18" => some runC18
  | "C19" => some runC19
  | "C20" => some runC20
  | _ => none

partial def loop (inp out : IO.FS.Stream) (f : String → String) (n : Nat) : IO Unit := do
  let line ← inp.getLine
  if line.isEmpty then return ()
  if line.trimAscii.toString.isEmpty then
    loop inp out f (n + 1)
  else
    out.putStrLn s!"R {n} {f line}"
    loop inp out f (n + 1)

def main (args : List String) : IO UInt32 := do
  match args with
  | [prop] =>
    match dispatch prop with
    | none => IO.eprintln s!"unknown property {prop}"; return 2
    | some f =>
      let inp ← IO.getStdin
      let out ← IO.getStdout
      loop inp out f 0
      out.flush
      return 0
  | _ => IO.eprintln "usage: driver <prop> < cases"; return 2
