import DdsModel.Drv.C02
open Dds.Drv

def dispatch (prop : String) : Option (String → String) :=
  match prop with
  | "C02" => some runC02
  | _ => none

partial def loop (inp out : IO.FS.Stream) (f : String → String) (n : Nat) : IO Unit := do
  let line ← inp.getLine
  if line.isEmpty then return ()
  if line.trimAscii.toString.isEmpty then
    loop inp out f (n + 1)
  else
    out.putStrLn s!"R {n} {f line}"
    loop inp out f (n + 1)

def main (args : List String) : IO UInt32 := do
  match args with
  | [prop] =>
    match dispatch prop with
    | none => IO.eprintln s!"unknown property {prop}"; return 2
    | some f =>
      let inp ← IO.getStdin
      let out ← IO.getStdout
      loop inp out f 0
      out.flush
      return 0
  | _ => IO.eprintln "usage: driver <prop> < cases"; return 2
